
(* driver of the extracted table model: one s-expression case per input line, one JSON line per case *)
open Model

let cl_of_string s = List.init (String.length s) (String.get s)
let string_of_cl l = String.init (List.length l) (List.nth l)
let zstr z = string_of_cl (string_of_Z z)
let z_of_str s = z_of_string (cl_of_string s)

type sx = A of string | L of sx list
let tokenize s =
  let toks = ref [] and buf = Buffer.create 16 in
  let flush () = if Buffer.length buf > 0 then (toks := Buffer.contents buf :: !toks; Buffer.clear buf) in
  String.iter (fun c -> match c with
    | '(' | ')' -> flush (); toks := String.make 1 c :: !toks
    | ' ' | '\t' | '\n' | '\r' -> flush ()
    | c -> Buffer.add_char buf c) s;
  flush (); List.rev !toks
let parse toks =
  let rec one = function
    | "(" :: r -> let (l, r') = many r in (L l, r')
    | ")" :: _ -> failwith "unexpected )"
    | a :: r -> (A a, r)
    | [] -> failwith "eof"
  and many = function
    | ")" :: r -> ([], r)
    | [] -> failwith "eof in list"
    | ts -> let (x, r) = one ts in let (xs, r') = many r in (x :: xs, r')
  in fst (one toks)

let unhex h =
  let n = String.length h / 2 in
  String.init n (fun i -> Char.chr (int_of_string ("0x" ^ String.sub h (2 * i) 2)))
let hex s = "x" ^ String.concat "" (List.map (fun c -> Printf.sprintf "%02x" (Char.code c)) (List.init (String.length s) (String.get s)))
let str_of = function A h -> cl_of_string (unhex (String.sub h 1 (String.length h - 1))) | _ -> failwith "str"
let atom = function A a -> a | _ -> failwith "atom"
let z_of_sx x = z_of_str (atom x)
let list_of = function L l -> l | _ -> failwith "list"
let bool_of x = atom x <> "0"
let pos_of x = match z_of_sx x with Zpos p -> p | _ -> failwith "positive"

let atom_of = function L [A "i"; z] -> AInt (z_of_sx z) | L [A "s"; h] -> AStr (str_of h) | _ -> failwith "atom"
let cell_of = function
  | A "none" -> CNone | A "nz" -> CFlt FNegZero | A "nan" -> CFlt FNaN | A "pinf" -> CFlt FPInf | A "ninf" -> CFlt FNInf
  | L [A "i"; z] -> CInt (z_of_sx z)
  | L [A "fi"; z] -> CFlt (FInt (z_of_sx z))
  | L [A "ff"; m; e] -> CFlt (FFrac (z_of_sx m, pos_of e))
  | L [A "b"; b] -> CBool (bool_of b)
  | L [A "s"; h] -> CStr (str_of h)
  | L [A "tup"; a; b] -> CTup (atom_of a, atom_of b)
  | L [A "td"; n] -> CTd (z_of_sx n)
  | L [A "per"; f; o] -> CPer (z_of_sx f, z_of_sx o)
  | L [A "ts"; n] -> CTs (z_of_sx n)
  | _ -> failwith "cell"
let cells_of x = List.map cell_of (list_of x)
let ndt_of = function A "F" -> NFloat | A "I" -> NInt | A "B" -> NBool | A "S" -> NStr | A "O" -> NObj | _ -> failwith "ndt"
let pdt_of = function
  | A "f64" -> PFloat64 | A "i64" -> PInt64 | A "u64" -> PUInt64 | A "bool" -> PBool | A "str" -> PStrDt | A "obj" -> PObject
  | A "dt" -> PDatetime | A "td" -> PTimedelta | L [A "per"; f] -> PPeriod (z_of_sx f) | _ -> failwith "pdt"
let ikind_of = function A "range" -> KRange | A "index" -> KIndex | A "period" -> KPeriodIndex | A "datetime" -> KDatetimeIndex
  | A "multi" -> KMultiIndex | A "timedelta" -> KTimedeltaIndex | _ -> failwith "ikind"
let span_of = function
  | L [A "range"; cs] -> { spkind = SRange; splabels = cells_of cs }
  | L [A "list"; cs] -> { spkind = SList; splabels = cells_of cs }
  | L [A "tuple"; cs] -> { spkind = STuple; splabels = cells_of cs }
  | L [A "nparr"; cs] -> { spkind = SNdarray; splabels = cells_of cs }
  | L [A "pandas"; k; d; cs] -> { spkind = SPandas (ikind_of k, pdt_of d); splabels = cells_of cs }
  | _ -> failwith "span"
let series_of = function L [d; cs] -> { sdt = ndt_of d; scells = cells_of cs } | _ -> failwith "series"
let names_of x = List.map str_of (list_of x)
let model_of = function
  | L [A "model"; sp; names; vars; st; it] ->
      { fspan = span_of sp; fnames = names_of names;
        fvars = List.map (function L [n; s] -> (str_of n, series_of s) | _ -> failwith "var") (list_of vars);
        fstatus = series_of st; fiters = series_of it }
  | _ -> failwith "model"
let class_of = function
  | L (A "class" :: names :: d :: dv :: strict :: _) -> { cnames = names_of names; cdtype = ndt_of d; cdefault = cell_of dv; cstrict = bool_of strict }
  | _ -> failwith "class"
let rec nat_of_int n = if n <= 0 then O else S (nat_of_int (n - 1))
let nargs_of = function L [A "class"; _; _; _; _; n] -> nat_of_int (int_of_string (atom n)) | _ -> O
let column_of = function L [n; d; cs] -> { pcname = str_of n; pcdt = pdt_of d; pccells = cells_of cs } | _ -> failwith "column"
let index_of = function L [k; d; cs] -> { ikd = ikind_of k; idt = pdt_of d; ilabels = cells_of cs } | _ -> failwith "index"
let table_of = function L [A "table"; ix; cols] -> { tindex = index_of ix; tcols = List.map column_of (list_of cols) } | _ -> failwith "table"

(* ---- JSON ---- *)
let jstr s = "\"" ^ s ^ "\""              (* only hex / identifier text is ever printed *)
let jlist f l = "[" ^ String.concat "," (List.map f l) ^ "]"
let jcell = function
  | CNone -> "[\"none\"]"
  | CFlt (FInt z) -> "[\"fi\"," ^ zstr z ^ "]"
  | CFlt (FFrac (m, e)) -> "[\"ff\"," ^ zstr m ^ "," ^ zstr (Zpos e) ^ "]"
  | CFlt FNegZero -> "[\"nz\"]" | CFlt FNaN -> "[\"nan\"]" | CFlt FPInf -> "[\"pinf\"]" | CFlt FNInf -> "[\"ninf\"]"
  | CInt z -> "[\"i\"," ^ zstr z ^ "]"
  | CBool b -> if b then "[\"b\",true]" else "[\"b\",false]"
  | CStr s -> "[\"s\"," ^ jstr (hex (string_of_cl s)) ^ "]"
  | CTup (a, b) -> let ja = function AInt z -> zstr z | AStr s -> jstr (hex (string_of_cl s)) in "[\"tup\"," ^ ja a ^ "," ^ ja b ^ "]"
  | CTd n -> "[\"td\"," ^ zstr n ^ "]"
  | CPer (f, o) -> "[\"per\"," ^ zstr f ^ "," ^ zstr o ^ "]"
  | CTs n -> "[\"ts\"," ^ zstr n ^ "]"
let jname s = jstr (hex (string_of_cl s))
let pdt_name = function
  | PFloat64 -> "float64" | PInt64 -> "int64" | PUInt64 -> "uint64" | PBool -> "bool" | PStrDt -> "str" | PObject -> "object"
  | PDatetime -> "datetime" | PTimedelta -> "timedelta" | PPeriod f -> "period[" ^ zstr f ^ "]"
let ndt_name = function NFloat -> "float" | NInt -> "int" | NBool -> "bool" | NStr -> "str" | NObj -> "object"
let ikind_name = function KRange -> "RangeIndex" | KIndex -> "Index" | KPeriodIndex -> "PeriodIndex" | KDatetimeIndex -> "DatetimeIndex"
  | KMultiIndex -> "MultiIndex" | KTimedeltaIndex -> "TimedeltaIndex"
let skind_name = function SRange -> "range" | SList -> "list" | STuple -> "tuple" | SNdarray -> "nparr" | SPandas (k, _) -> ikind_name k
let exn_name = function
  | ValueError -> "ValueError" | IndexError -> "IndexError" | KeyError -> "KeyError" | AttributeError -> "AttributeError"
  | TypeError -> "TypeError" | DuplicateNameError -> "DuplicateNameError" | InitialisationError -> "InitialisationError"
  | DimensionError -> "DimensionError" | OverflowError -> "OverflowError" | _ -> "OtherError"
let jtable t =
  "{\"index\":{\"kind\":" ^ jstr (ikind_name t.tindex.ikd) ^ ",\"dtype\":" ^ jstr (pdt_name t.tindex.idt) ^ ",\"labels\":" ^ jlist jcell t.tindex.ilabels
  ^ "},\"cols\":" ^ jlist (fun c -> "[" ^ jname c.pcname ^ "," ^ jstr (pdt_name c.pcdt) ^ "," ^ jlist jcell c.pccells ^ "]") t.tcols ^ "}"
let jseries s = "[" ^ jstr (ndt_name s.sdt) ^ "," ^ jlist jcell s.scells ^ "]"
let jmodel m =
  "{\"span\":{\"kind\":" ^ jstr (skind_name m.fspan.spkind) ^ ",\"labels\":" ^ jlist jcell m.fspan.splabels ^ "},\"names\":" ^ jlist jname m.fnames
  ^ ",\"vars\":" ^ jlist (fun (k, s) -> "[" ^ jname k ^ "," ^ jstr (ndt_name s.sdt) ^ "," ^ jlist jcell s.scells ^ "]") m.fvars
  ^ ",\"status\":" ^ jseries m.fstatus ^ ",\"iterations\":" ^ jseries m.fiters ^ "}"
let jres f = function TOk x -> f x | TErr e -> "{\"raise\":" ^ jstr (exn_name e) ^ "}" | TUnmodelled -> "{\"unmodelled\":true}"
let jostr = function None -> "null" | Some s -> "[\"s\"," ^ jname s ^ "]"
let jopidx = function None -> "null" | Some (IInt z) -> "[\"i\"," ^ zstr z ^ "]" | Some (IStr s) -> "[\"s\"," ^ jname s ^ "]"
let jsym s = "[" ^ jostr s.sname ^ "," ^ zstr (type_value s.stype) ^ "," ^ jopidx s.slags ^ "," ^ jopidx s.sleads ^ "," ^ jostr s.sequation ^ "," ^ jostr s.scode ^ "]"

let ostr_of = function A "-" -> None | x -> Some (str_of x)
let opidx_of = function A "-" -> None | L [A "i"; z] -> Some (IInt (z_of_sx z)) | L [A "s"; h] -> Some (IStr (str_of h)) | _ -> failwith "pidx"
let sym_of = function
  | L [n; t; lg; ld; e; c] ->
      (match type_of_value (z_of_sx t) with
       | Some ty -> { sname = ostr_of n; stype = ty; slags = opidx_of lg; sleads = opidx_of ld; sequation = ostr_of e; scode = ostr_of c }
       | None -> failwith "type")
  | _ -> failwith "symbol"

let handle line =
  match parse (tokenize line) with
  | L [A "export"; st; it; ii; m; c] ->
      let t = model_to_table (bool_of st) (bool_of it) (bool_of ii) (model_of m) in
      let rt = match t with TOk tb -> jres jmodel (from_dataframe_call (nargs_of c) (class_of c) tb) | _ -> "null" in
      "{\"table\":" ^ jres jtable t ^ ",\"rt\":" ^ rt ^ "}"
  | L [A "linker"; st; it; ii; name; m; subs] ->
      let l = { lname = cell_of name; lmodel = model_of m;
                lsubs = List.map (function L [k; sm] -> (cell_of k, model_of sm) | _ -> failwith "sub") (list_of subs) } in
      "{\"tables\":" ^ jres (jlist (fun (k, t) -> "[" ^ jcell k ^ "," ^ jtable t ^ "]")) (linker_to_tables (bool_of st) (bool_of it) (bool_of ii) l) ^ "}"
  | L [A "container"; sp; vars] ->
      let vs = List.map (function L [n; s] -> (str_of n, series_of s) | _ -> failwith "var") (list_of vars) in
      "{\"table\":" ^ jres jtable (container_to_table (span_of sp) vs) ^ "}"
  | L [A "pdseries"; sr] ->
      let (d, cs) = pd_of_series (series_of sr) in "{\"dtype\":" ^ jstr (pdt_name d) ^ ",\"cells\":" ^ jlist jcell cs ^ "}"
  | L [A "pdinfer"; cs] ->
      let cells = cells_of cs in
      let col = (match pd_infer cells with Some (d, cs') -> "{\"dtype\":" ^ jstr (pdt_name d) ^ ",\"cells\":" ^ jlist jcell cs' ^ "}" | None -> "{\"unmodelled\":true}") in
      let idx = (match pd_index { spkind = SList; splabels = cells } with
                 | Some ix -> "{\"kind\":" ^ jstr (ikind_name ix.ikd) ^ ",\"dtype\":" ^ jstr (pdt_name ix.idt) ^ ",\"labels\":" ^ jlist jcell ix.ilabels ^ "}"
                 | None -> "{\"unmodelled\":true}") in
      "{\"col\":" ^ col ^ ",\"index\":" ^ idx ^ "}"
  | L [A "pdcast"; d; sr] -> "{\"cast\":" ^ jres (jlist jcell) (cast_series (ndt_of d) (series_of sr)) ^ "}"
  | L [A "linkerctor"; name; keys] ->
      let dummy = { fspan = { spkind = SList; splabels = [] }; fnames = []; fvars = []; fstatus = { sdt = NStr; scells = [] }; fiters = { sdt = NInt; scells = [] } } in
      if linker_name_free (cell_of name) (List.map (fun k -> (cell_of k, dummy)) (list_of keys)) then "{\"ctor\":\"ok\"}"
      else "{\"ctor\":{\"raise\":\"DuplicateNameError\"}}"
  | L [A "symbols"; ss] ->
      let t = symbols_to_table (List.map sym_of (list_of ss)) in
      let rt = match t with TOk tb -> jres (jlist jsym) (table_to_symbols tb) | _ -> "null" in
      "{\"table\":" ^ jres jtable t ^ ",\"rt\":" ^ rt ^ "}"
  | L [A "t2s"; t] -> "{\"rt\":" ^ jres (jlist jsym) (table_to_symbols (table_of t)) ^ "}"
  | _ -> failwith "case"

let () =
  try
    while true do
      let line = input_line stdin in
      (try print_endline (handle line) with Failure m -> print_endline ("{\"driver_error\":" ^ jstr m ^ "}")
                                         | Not_found -> print_endline "{\"driver_error\":\"Not_found\"}");
      flush stdout
    done
  with End_of_file -> ()
