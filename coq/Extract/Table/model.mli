
val negb : bool -> bool

type nat =
| O
| S of nat

val fst : ('a1 * 'a2) -> 'a1

val snd : ('a1 * 'a2) -> 'a2

val length : 'a1 list -> nat

type comparison =
| Eq
| Lt
| Gt

val compOpp : comparison -> comparison

type uint =
| Nil
| D0 of uint
| D1 of uint
| D2 of uint
| D3 of uint
| D4 of uint
| D5 of uint
| D6 of uint
| D7 of uint
| D8 of uint
| D9 of uint

type signed_int =
| Pos of uint
| Neg of uint

val revapp : uint -> uint -> uint

val rev : uint -> uint

module Little :
 sig
  val double : uint -> uint

  val succ_double : uint -> uint
 end

val add : nat -> nat -> nat

val sub : nat -> nat -> nat

type positive =
| XI of positive
| XO of positive
| XH

type n =
| N0
| Npos of positive

type z =
| Z0
| Zpos of positive
| Zneg of positive

val eqb : bool -> bool -> bool

module Nat :
 sig
  val eqb : nat -> nat -> bool

  val leb : nat -> nat -> bool
 end

module Pos :
 sig
  type mask =
  | IsNul
  | IsPos of positive
  | IsNeg
 end

module Coq_Pos :
 sig
  val succ : positive -> positive

  val add : positive -> positive -> positive

  val add_carry : positive -> positive -> positive

  val pred_double : positive -> positive

  type mask = Pos.mask =
  | IsNul
  | IsPos of positive
  | IsNeg

  val succ_double_mask : mask -> mask

  val double_mask : mask -> mask

  val double_pred_mask : positive -> mask

  val sub_mask : positive -> positive -> mask

  val sub_mask_carry : positive -> positive -> mask

  val mul : positive -> positive -> positive

  val iter : ('a1 -> 'a1) -> 'a1 -> positive -> 'a1

  val div2 : positive -> positive

  val div2_up : positive -> positive

  val size : positive -> positive

  val compare_cont : comparison -> positive -> positive -> comparison

  val compare : positive -> positive -> comparison

  val eqb : positive -> positive -> bool

  val iter_op : ('a1 -> 'a1 -> 'a1) -> positive -> 'a1 -> 'a1

  val to_nat : positive -> nat

  val of_succ_nat : nat -> positive

  val to_little_uint : positive -> uint

  val to_uint : positive -> uint
 end

module N :
 sig
  val succ_double : n -> n

  val double : n -> n

  val add : n -> n -> n

  val sub : n -> n -> n

  val mul : n -> n -> n

  val compare : n -> n -> comparison

  val leb : n -> n -> bool

  val pos_div_eucl : positive -> n -> n * n

  val to_nat : n -> nat
 end

module Z :
 sig
  val double : z -> z

  val succ_double : z -> z

  val pred_double : z -> z

  val pos_sub : positive -> positive -> z

  val add : z -> z -> z

  val opp : z -> z

  val sub : z -> z -> z

  val mul : z -> z -> z

  val pow_pos : z -> positive -> z

  val compare : z -> z -> comparison

  val sgn : z -> z

  val leb : z -> z -> bool

  val ltb : z -> z -> bool

  val eqb : z -> z -> bool

  val abs : z -> z

  val of_nat : nat -> z

  val of_N : n -> z

  val to_int : z -> signed_int

  val quotrem : z -> z -> z * z

  val quot : z -> z -> z

  val odd : z -> bool

  val div2 : z -> z

  val log2 : z -> z

  val shiftl : z -> z -> z

  val shiftr : z -> z -> z
 end

val map : ('a1 -> 'a2) -> 'a1 list -> 'a2 list

val existsb : ('a1 -> bool) -> 'a1 list -> bool

val forallb : ('a1 -> bool) -> 'a1 list -> bool

val filter : ('a1 -> bool) -> 'a1 list -> 'a1 list

val find : ('a1 -> bool) -> 'a1 list -> 'a1 option

val seq : nat -> nat -> nat list

val repeat : 'a1 -> nat -> 'a1 list

val n_of_digits : bool list -> n

val n_of_ascii : char -> n

val nat_of_ascii : char -> nat

val eqb0 : char list -> char list -> bool

val append : char list -> char list -> char list

type exn =
| ValueError
| IndexError
| KeyError
| AttributeError
| TypeError
| SolutionError of z option
| NonConvergenceError
| ParserError
| SymbolError
| IndentationError
| DimensionError
| DuplicateNameError
| InitialisationError
| NotImplementedError
| UnboundLocalError
| FortranEngineError
| OverflowError
| OtherError

type 'a outcome =
| Ret of 'a
| Raise of exn

val type_order : (char list * z) list

type ptype =
| TVariable
| TExogenous
| TEndogenous
| TParameter
| TError
| TFunction
| TKeyword
| TVerbatim
| TInvalid

val all_types : ptype list

val type_name : ptype -> char list

val assoc_z : char list -> (char list * z) list -> z

val type_value : ptype -> z

type pidx =
| IInt of z
| IStr of char list

type symbol = { sname : char list option; stype : ptype; slags : pidx option;
                sleads : pidx option; sequation : char list option;
                scode : char list option }

module NilEmpty :
 sig
  val string_of_uint : uint -> char list
 end

module NilZero :
 sig
  val string_of_uint : uint -> char list

  val string_of_int : signed_int -> char list
 end

type f64 =
| FInt of z
| FFrac of z * positive
| FNegZero
| FNaN
| FPInf
| FNInf

type atom =
| AInt of z
| AStr of char list

val atom_eqb : atom -> atom -> bool

type cell =
| CNone
| CFlt of f64
| CInt of z
| CBool of bool
| CStr of char list
| CTup of atom * atom
| CPer of z * z
| CTs of z
| CTd of z

val f64_eqb : f64 -> f64 -> bool

val cell_eqb : cell -> cell -> bool

val two53 : z

val int64_min : z

val int64_max : z

val uint64_max : z

val in_int64 : z -> bool

val in_uint64 : z -> bool

val rne53 : z -> z

val f64_of_Z : z -> f64

val z_of_f64 : f64 -> z option

val f64_nonzero : f64 -> bool

type ndt =
| NFloat
| NInt
| NBool
| NStr
| NObj

type pdt =
| PFloat64
| PInt64
| PUInt64
| PBool
| PStrDt
| PObject
| PPeriod of z
| PDatetime
| PTimedelta

type ikind =
| KRange
| KIndex
| KPeriodIndex
| KDatetimeIndex
| KMultiIndex
| KTimedeltaIndex

type skind =
| SRange
| SList
| STuple
| SNdarray
| SPandas of ikind * pdt

type series = { sdt : ndt; scells : cell list }

type span = { spkind : skind; splabels : cell list }

type pindex = { ikd : ikind; idt : pdt; ilabels : cell list }

type pcolumn = { pcname : char list; pcdt : pdt; pccells : cell list }

type table = { tindex : pindex; tcols : pcolumn list }

type fmodel = { fspan : span; fnames : char list list;
                fvars : (char list * series) list; fstatus : series;
                fiters : series }

val is_none : cell -> bool

val is_int : cell -> bool

val is_str : cell -> bool

val is_bool : cell -> bool

val is_ts : cell -> bool

val is_td : cell -> bool

val is_per : z -> cell -> bool

val cell_int64 : cell -> bool

val cell_uint64 : cell -> bool

val is_num_or_none : cell -> bool

val out_int64 : cell -> bool

val is_per_any : cell -> bool

val is_str_or_none : cell -> bool

val to_float_cell : cell -> cell

val none_to_nan : cell -> cell

val pd_infer : cell list -> (pdt * cell list) option

val pd_index : span -> pindex option

val pd_of_series : series -> pdt * cell list

val starts_underscore : char list -> bool

val assoc_s : char list -> (char list * 'a1) list -> 'a1 option

val mem_s : char list -> char list list -> bool

val getvar : fmodel -> char list -> series option

val dedup : char list list -> char list list -> char list list

val export_names : bool -> fmodel -> char list list

val lookup_all : fmodel -> char list list -> (char list * series) list outcome

val col_of : (char list * series) -> pcolumn

val set_col : pcolumn -> pcolumn list -> pcolumn list

type 'a tres =
| TOk of 'a
| TErr of exn
| TUnmodelled

val tbind : 'a1 tres -> ('a1 -> 'a2 tres) -> 'a2 tres

val model_to_table : bool -> bool -> bool -> fmodel -> table tres

val container_to_table : span -> (char list * series) list -> table tres

type flinker = { lname : cell; lmodel : fmodel; lsubs : (cell * fmodel) list }

val linker_name_free : cell -> (cell * fmodel) list -> bool

val dset : cell -> 'a1 -> (cell * 'a1) list -> (cell * 'a1) list

val linker_subs :
  bool -> bool -> bool -> (cell * fmodel) list -> (cell * table) list ->
  (cell * table) list tres

val linker_to_tables :
  bool -> bool -> bool -> flinker -> (cell * table) list tres

type mclass = { cnames : char list list; cdtype : ndt; cdefault : cell;
                cstrict : bool }

val col_values : pcolumn -> cell list

val plain_text : char list -> bool

val string_of_Z : z -> char list

val np_cast : ndt -> cell -> cell tres

val cast_all : ndt -> cell list -> cell list tres

val find_col : char list -> pcolumn list -> pcolumn option

val has_dup : char list list -> bool

val reserved_params : char list list

val opaque_params : char list list

val is_time_index : ikind -> bool

val span_of_index : pindex -> span

val init_vars :
  mclass -> nat -> pcolumn list -> char list list -> (char list * series)
  list tres

val from_table : mclass -> table -> fmodel tres

val from_dataframe_call : nat -> mclass -> table -> fmodel tres

val cast_series : ndt -> series -> cell list tres

val cell_of_ostr : char list option -> cell

val all_some : 'a1 option list -> 'a1 list option

val cell_of_oidx : pidx option -> cell option

val idx_cells : pidx option list -> cell list option

val mk_column : char list -> cell list -> pcolumn option

val symbols_to_table : symbol list -> table tres

val type_of_value : z -> ptype option

val type_of_cell : cell -> ptype tres

val convert_to_int_or_none : cell -> pidx option tres

val convert_to_str_or_none : cell -> char list option

val symbol_of_row :
  cell -> cell -> cell -> cell -> cell -> cell -> symbol tres

val rows_to_symbols :
  cell list -> cell list -> cell list -> cell list -> cell list -> cell list
  -> symbol list tres

val symbol_fields : char list list

val check_field : pcolumn list -> char list -> (cell -> 'a1 tres) -> unit tres

val first_row_raises : pcolumn list -> symbol list tres

val table_to_symbols : table -> symbol list tres

val digits_to_Z : char list -> z -> z

val z_of_string : char list -> z
