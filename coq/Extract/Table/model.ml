
(** val negb : bool -> bool **)

let negb = function
| true -> false
| false -> true

type nat =
| O
| S of nat

(** val fst : ('a1 * 'a2) -> 'a1 **)

let fst = function
| (x, _) -> x

(** val snd : ('a1 * 'a2) -> 'a2 **)

let snd = function
| (_, y) -> y

(** val length : 'a1 list -> nat **)

let rec length = function
| [] -> O
| _ :: l' -> S (length l')

type comparison =
| Eq
| Lt
| Gt

(** val compOpp : comparison -> comparison **)

let compOpp = function
| Eq -> Eq
| Lt -> Gt
| Gt -> Lt

type uint =
| Nil
| D0 of uint
| D1 of uint
| D2 of uint
| D3 of uint
| D4 of uint
| D5 of uint
| D6 of uint
| D7 of uint
| D8 of uint
| D9 of uint

type signed_int =
| Pos of uint
| Neg of uint

(** val revapp : uint -> uint -> uint **)

let rec revapp d d' =
  match d with
  | Nil -> d'
  | D0 d0 -> revapp d0 (D0 d')
  | D1 d0 -> revapp d0 (D1 d')
  | D2 d0 -> revapp d0 (D2 d')
  | D3 d0 -> revapp d0 (D3 d')
  | D4 d0 -> revapp d0 (D4 d')
  | D5 d0 -> revapp d0 (D5 d')
  | D6 d0 -> revapp d0 (D6 d')
  | D7 d0 -> revapp d0 (D7 d')
  | D8 d0 -> revapp d0 (D8 d')
  | D9 d0 -> revapp d0 (D9 d')

(** val rev : uint -> uint **)

let rev d =
  revapp d Nil

module Little =
 struct
  (** val double : uint -> uint **)

  let rec double = function
  | Nil -> Nil
  | D0 d0 -> D0 (double d0)
  | D1 d0 -> D2 (double d0)
  | D2 d0 -> D4 (double d0)
  | D3 d0 -> D6 (double d0)
  | D4 d0 -> D8 (double d0)
  | D5 d0 -> D0 (succ_double d0)
  | D6 d0 -> D2 (succ_double d0)
  | D7 d0 -> D4 (succ_double d0)
  | D8 d0 -> D6 (succ_double d0)
  | D9 d0 -> D8 (succ_double d0)

  (** val succ_double : uint -> uint **)

  and succ_double = function
  | Nil -> D1 Nil
  | D0 d0 -> D1 (double d0)
  | D1 d0 -> D3 (double d0)
  | D2 d0 -> D5 (double d0)
  | D3 d0 -> D7 (double d0)
  | D4 d0 -> D9 (double d0)
  | D5 d0 -> D1 (succ_double d0)
  | D6 d0 -> D3 (succ_double d0)
  | D7 d0 -> D5 (succ_double d0)
  | D8 d0 -> D7 (succ_double d0)
  | D9 d0 -> D9 (succ_double d0)
 end

module Coq__1 = struct
 (** val add : nat -> nat -> nat **)
 let rec add n0 m =
   match n0 with
   | O -> m
   | S p -> S (add p m)
end
include Coq__1

(** val sub : nat -> nat -> nat **)

let rec sub n0 m =
  match n0 with
  | O -> n0
  | S k -> (match m with
            | O -> n0
            | S l -> sub k l)

type positive =
| XI of positive
| XO of positive
| XH

type n =
| N0
| Npos of positive

type z =
| Z0
| Zpos of positive
| Zneg of positive

(** val eqb : bool -> bool -> bool **)

let eqb b1 b2 =
  if b1 then b2 else if b2 then false else true

module Nat =
 struct
  (** val eqb : nat -> nat -> bool **)

  let rec eqb n0 m =
    match n0 with
    | O -> (match m with
            | O -> true
            | S _ -> false)
    | S n' -> (match m with
               | O -> false
               | S m' -> eqb n' m')

  (** val leb : nat -> nat -> bool **)

  let rec leb n0 m =
    match n0 with
    | O -> true
    | S n' -> (match m with
               | O -> false
               | S m' -> leb n' m')
 end

module Pos =
 struct
  type mask =
  | IsNul
  | IsPos of positive
  | IsNeg
 end

module Coq_Pos =
 struct
  (** val succ : positive -> positive **)

  let rec succ = function
  | XI p -> XO (succ p)
  | XO p -> XI p
  | XH -> XO XH

  (** val add : positive -> positive -> positive **)

  let rec add x y =
    match x with
    | XI p ->
      (match y with
       | XI q -> XO (add_carry p q)
       | XO q -> XI (add p q)
       | XH -> XO (succ p))
    | XO p ->
      (match y with
       | XI q -> XI (add p q)
       | XO q -> XO (add p q)
       | XH -> XI p)
    | XH -> (match y with
             | XI q -> XO (succ q)
             | XO q -> XI q
             | XH -> XO XH)

  (** val add_carry : positive -> positive -> positive **)

  and add_carry x y =
    match x with
    | XI p ->
      (match y with
       | XI q -> XI (add_carry p q)
       | XO q -> XO (add_carry p q)
       | XH -> XI (succ p))
    | XO p ->
      (match y with
       | XI q -> XO (add_carry p q)
       | XO q -> XI (add p q)
       | XH -> XO (succ p))
    | XH ->
      (match y with
       | XI q -> XI (succ q)
       | XO q -> XO (succ q)
       | XH -> XI XH)

  (** val pred_double : positive -> positive **)

  let rec pred_double = function
  | XI p -> XI (XO p)
  | XO p -> XI (pred_double p)
  | XH -> XH

  type mask = Pos.mask =
  | IsNul
  | IsPos of positive
  | IsNeg

  (** val succ_double_mask : mask -> mask **)

  let succ_double_mask = function
  | IsNul -> IsPos XH
  | IsPos p -> IsPos (XI p)
  | IsNeg -> IsNeg

  (** val double_mask : mask -> mask **)

  let double_mask = function
  | IsPos p -> IsPos (XO p)
  | x0 -> x0

  (** val double_pred_mask : positive -> mask **)

  let double_pred_mask = function
  | XI p -> IsPos (XO (XO p))
  | XO p -> IsPos (XO (pred_double p))
  | XH -> IsNul

  (** val sub_mask : positive -> positive -> mask **)

  let rec sub_mask x y =
    match x with
    | XI p ->
      (match y with
       | XI q -> double_mask (sub_mask p q)
       | XO q -> succ_double_mask (sub_mask p q)
       | XH -> IsPos (XO p))
    | XO p ->
      (match y with
       | XI q -> succ_double_mask (sub_mask_carry p q)
       | XO q -> double_mask (sub_mask p q)
       | XH -> IsPos (pred_double p))
    | XH -> (match y with
             | XH -> IsNul
             | _ -> IsNeg)

  (** val sub_mask_carry : positive -> positive -> mask **)

  and sub_mask_carry x y =
    match x with
    | XI p ->
      (match y with
       | XI q -> succ_double_mask (sub_mask_carry p q)
       | XO q -> double_mask (sub_mask p q)
       | XH -> IsPos (pred_double p))
    | XO p ->
      (match y with
       | XI q -> double_mask (sub_mask_carry p q)
       | XO q -> succ_double_mask (sub_mask_carry p q)
       | XH -> double_pred_mask p)
    | XH -> IsNeg

  (** val mul : positive -> positive -> positive **)

  let rec mul x y =
    match x with
    | XI p -> add y (XO (mul p y))
    | XO p -> XO (mul p y)
    | XH -> y

  (** val iter : ('a1 -> 'a1) -> 'a1 -> positive -> 'a1 **)

  let rec iter f x = function
  | XI n' -> f (iter f (iter f x n') n')
  | XO n' -> iter f (iter f x n') n'
  | XH -> f x

  (** val div2 : positive -> positive **)

  let div2 = function
  | XI p0 -> p0
  | XO p0 -> p0
  | XH -> XH

  (** val div2_up : positive -> positive **)

  let div2_up = function
  | XI p0 -> succ p0
  | XO p0 -> p0
  | XH -> XH

  (** val size : positive -> positive **)

  let rec size = function
  | XI p0 -> succ (size p0)
  | XO p0 -> succ (size p0)
  | XH -> XH

  (** val compare_cont : comparison -> positive -> positive -> comparison **)

  let rec compare_cont r x y =
    match x with
    | XI p ->
      (match y with
       | XI q -> compare_cont r p q
       | XO q -> compare_cont Gt p q
       | XH -> Gt)
    | XO p ->
      (match y with
       | XI q -> compare_cont Lt p q
       | XO q -> compare_cont r p q
       | XH -> Gt)
    | XH -> (match y with
             | XH -> r
             | _ -> Lt)

  (** val compare : positive -> positive -> comparison **)

  let compare =
    compare_cont Eq

  (** val eqb : positive -> positive -> bool **)

  let rec eqb p q =
    match p with
    | XI p0 -> (match q with
                | XI q0 -> eqb p0 q0
                | _ -> false)
    | XO p0 -> (match q with
                | XO q0 -> eqb p0 q0
                | _ -> false)
    | XH -> (match q with
             | XH -> true
             | _ -> false)

  (** val iter_op : ('a1 -> 'a1 -> 'a1) -> positive -> 'a1 -> 'a1 **)

  let rec iter_op op p a =
    match p with
    | XI p0 -> op a (iter_op op p0 (op a a))
    | XO p0 -> iter_op op p0 (op a a)
    | XH -> a

  (** val to_nat : positive -> nat **)

  let to_nat x =
    iter_op Coq__1.add x (S O)

  (** val of_succ_nat : nat -> positive **)

  let rec of_succ_nat = function
  | O -> XH
  | S x -> succ (of_succ_nat x)

  (** val to_little_uint : positive -> uint **)

  let rec to_little_uint = function
  | XI p0 -> Little.succ_double (to_little_uint p0)
  | XO p0 -> Little.double (to_little_uint p0)
  | XH -> D1 Nil

  (** val to_uint : positive -> uint **)

  let to_uint p =
    rev (to_little_uint p)
 end

module N =
 struct
  (** val succ_double : n -> n **)

  let succ_double = function
  | N0 -> Npos XH
  | Npos p -> Npos (XI p)

  (** val double : n -> n **)

  let double = function
  | N0 -> N0
  | Npos p -> Npos (XO p)

  (** val add : n -> n -> n **)

  let add n0 m =
    match n0 with
    | N0 -> m
    | Npos p -> (match m with
                 | N0 -> n0
                 | Npos q -> Npos (Coq_Pos.add p q))

  (** val sub : n -> n -> n **)

  let sub n0 m =
    match n0 with
    | N0 -> N0
    | Npos n' ->
      (match m with
       | N0 -> n0
       | Npos m' ->
         (match Coq_Pos.sub_mask n' m' with
          | Coq_Pos.IsPos p -> Npos p
          | _ -> N0))

  (** val mul : n -> n -> n **)

  let mul n0 m =
    match n0 with
    | N0 -> N0
    | Npos p -> (match m with
                 | N0 -> N0
                 | Npos q -> Npos (Coq_Pos.mul p q))

  (** val compare : n -> n -> comparison **)

  let compare n0 m =
    match n0 with
    | N0 -> (match m with
             | N0 -> Eq
             | Npos _ -> Lt)
    | Npos n' -> (match m with
                  | N0 -> Gt
                  | Npos m' -> Coq_Pos.compare n' m')

  (** val leb : n -> n -> bool **)

  let leb x y =
    match compare x y with
    | Gt -> false
    | _ -> true

  (** val pos_div_eucl : positive -> n -> n * n **)

  let rec pos_div_eucl a b =
    match a with
    | XI a' ->
      let (q, r) = pos_div_eucl a' b in
      let r' = succ_double r in
      if leb b r' then ((succ_double q), (sub r' b)) else ((double q), r')
    | XO a' ->
      let (q, r) = pos_div_eucl a' b in
      let r' = double r in
      if leb b r' then ((succ_double q), (sub r' b)) else ((double q), r')
    | XH ->
      (match b with
       | N0 -> (N0, (Npos XH))
       | Npos p -> (match p with
                    | XH -> ((Npos XH), N0)
                    | _ -> (N0, (Npos XH))))

  (** val to_nat : n -> nat **)

  let to_nat = function
  | N0 -> O
  | Npos p -> Coq_Pos.to_nat p
 end

module Z =
 struct
  (** val double : z -> z **)

  let double = function
  | Z0 -> Z0
  | Zpos p -> Zpos (XO p)
  | Zneg p -> Zneg (XO p)

  (** val succ_double : z -> z **)

  let succ_double = function
  | Z0 -> Zpos XH
  | Zpos p -> Zpos (XI p)
  | Zneg p -> Zneg (Coq_Pos.pred_double p)

  (** val pred_double : z -> z **)

  let pred_double = function
  | Z0 -> Zneg XH
  | Zpos p -> Zpos (Coq_Pos.pred_double p)
  | Zneg p -> Zneg (XI p)

  (** val pos_sub : positive -> positive -> z **)

  let rec pos_sub x y =
    match x with
    | XI p ->
      (match y with
       | XI q -> double (pos_sub p q)
       | XO q -> succ_double (pos_sub p q)
       | XH -> Zpos (XO p))
    | XO p ->
      (match y with
       | XI q -> pred_double (pos_sub p q)
       | XO q -> double (pos_sub p q)
       | XH -> Zpos (Coq_Pos.pred_double p))
    | XH ->
      (match y with
       | XI q -> Zneg (XO q)
       | XO q -> Zneg (Coq_Pos.pred_double q)
       | XH -> Z0)

  (** val add : z -> z -> z **)

  let add x y =
    match x with
    | Z0 -> y
    | Zpos x' ->
      (match y with
       | Z0 -> x
       | Zpos y' -> Zpos (Coq_Pos.add x' y')
       | Zneg y' -> pos_sub x' y')
    | Zneg x' ->
      (match y with
       | Z0 -> x
       | Zpos y' -> pos_sub y' x'
       | Zneg y' -> Zneg (Coq_Pos.add x' y'))

  (** val opp : z -> z **)

  let opp = function
  | Z0 -> Z0
  | Zpos x0 -> Zneg x0
  | Zneg x0 -> Zpos x0

  (** val sub : z -> z -> z **)

  let sub m n0 =
    add m (opp n0)

  (** val mul : z -> z -> z **)

  let mul x y =
    match x with
    | Z0 -> Z0
    | Zpos x' ->
      (match y with
       | Z0 -> Z0
       | Zpos y' -> Zpos (Coq_Pos.mul x' y')
       | Zneg y' -> Zneg (Coq_Pos.mul x' y'))
    | Zneg x' ->
      (match y with
       | Z0 -> Z0
       | Zpos y' -> Zneg (Coq_Pos.mul x' y')
       | Zneg y' -> Zpos (Coq_Pos.mul x' y'))

  (** val pow_pos : z -> positive -> z **)

  let pow_pos z0 =
    Coq_Pos.iter (mul z0) (Zpos XH)

  (** val compare : z -> z -> comparison **)

  let compare x y =
    match x with
    | Z0 -> (match y with
             | Z0 -> Eq
             | Zpos _ -> Lt
             | Zneg _ -> Gt)
    | Zpos x' -> (match y with
                  | Zpos y' -> Coq_Pos.compare x' y'
                  | _ -> Gt)
    | Zneg x' ->
      (match y with
       | Zneg y' -> compOpp (Coq_Pos.compare x' y')
       | _ -> Lt)

  (** val sgn : z -> z **)

  let sgn = function
  | Z0 -> Z0
  | Zpos _ -> Zpos XH
  | Zneg _ -> Zneg XH

  (** val leb : z -> z -> bool **)

  let leb x y =
    match compare x y with
    | Gt -> false
    | _ -> true

  (** val ltb : z -> z -> bool **)

  let ltb x y =
    match compare x y with
    | Lt -> true
    | _ -> false

  (** val eqb : z -> z -> bool **)

  let eqb x y =
    match x with
    | Z0 -> (match y with
             | Z0 -> true
             | _ -> false)
    | Zpos p -> (match y with
                 | Zpos q -> Coq_Pos.eqb p q
                 | _ -> false)
    | Zneg p -> (match y with
                 | Zneg q -> Coq_Pos.eqb p q
                 | _ -> false)

  (** val abs : z -> z **)

  let abs = function
  | Zneg p -> Zpos p
  | x -> x

  (** val of_nat : nat -> z **)

  let of_nat = function
  | O -> Z0
  | S n1 -> Zpos (Coq_Pos.of_succ_nat n1)

  (** val of_N : n -> z **)

  let of_N = function
  | N0 -> Z0
  | Npos p -> Zpos p

  (** val to_int : z -> signed_int **)

  let to_int = function
  | Z0 -> Pos (D0 Nil)
  | Zpos p -> Pos (Coq_Pos.to_uint p)
  | Zneg p -> Neg (Coq_Pos.to_uint p)

  (** val quotrem : z -> z -> z * z **)

  let quotrem a b =
    match a with
    | Z0 -> (Z0, Z0)
    | Zpos a0 ->
      (match b with
       | Z0 -> (Z0, a)
       | Zpos b0 ->
         let (q, r) = N.pos_div_eucl a0 (Npos b0) in ((of_N q), (of_N r))
       | Zneg b0 ->
         let (q, r) = N.pos_div_eucl a0 (Npos b0) in
         ((opp (of_N q)), (of_N r)))
    | Zneg a0 ->
      (match b with
       | Z0 -> (Z0, a)
       | Zpos b0 ->
         let (q, r) = N.pos_div_eucl a0 (Npos b0) in
         ((opp (of_N q)), (opp (of_N r)))
       | Zneg b0 ->
         let (q, r) = N.pos_div_eucl a0 (Npos b0) in
         ((of_N q), (opp (of_N r))))

  (** val quot : z -> z -> z **)

  let quot a b =
    fst (quotrem a b)

  (** val odd : z -> bool **)

  let odd = function
  | Z0 -> false
  | Zpos p -> (match p with
               | XO _ -> false
               | _ -> true)
  | Zneg p -> (match p with
               | XO _ -> false
               | _ -> true)

  (** val div2 : z -> z **)

  let div2 = function
  | Z0 -> Z0
  | Zpos p -> (match p with
               | XH -> Z0
               | _ -> Zpos (Coq_Pos.div2 p))
  | Zneg p -> Zneg (Coq_Pos.div2_up p)

  (** val log2 : z -> z **)

  let log2 = function
  | Zpos p0 ->
    (match p0 with
     | XI p -> Zpos (Coq_Pos.size p)
     | XO p -> Zpos (Coq_Pos.size p)
     | XH -> Z0)
  | _ -> Z0

  (** val shiftl : z -> z -> z **)

  let shiftl a = function
  | Z0 -> a
  | Zpos p -> Coq_Pos.iter (mul (Zpos (XO XH))) a p
  | Zneg p -> Coq_Pos.iter div2 a p

  (** val shiftr : z -> z -> z **)

  let shiftr a n0 =
    shiftl a (opp n0)
 end

(** val map : ('a1 -> 'a2) -> 'a1 list -> 'a2 list **)

let rec map f = function
| [] -> []
| a :: t -> (f a) :: (map f t)

(** val existsb : ('a1 -> bool) -> 'a1 list -> bool **)

let rec existsb f = function
| [] -> false
| a :: l0 -> (||) (f a) (existsb f l0)

(** val forallb : ('a1 -> bool) -> 'a1 list -> bool **)

let rec forallb f = function
| [] -> true
| a :: l0 -> (&&) (f a) (forallb f l0)

(** val filter : ('a1 -> bool) -> 'a1 list -> 'a1 list **)

let rec filter f = function
| [] -> []
| x :: l0 -> if f x then x :: (filter f l0) else filter f l0

(** val find : ('a1 -> bool) -> 'a1 list -> 'a1 option **)

let rec find f = function
| [] -> None
| x :: tl -> if f x then Some x else find f tl

(** val seq : nat -> nat -> nat list **)

let rec seq start = function
| O -> []
| S len0 -> start :: (seq (S start) len0)

(** val repeat : 'a1 -> nat -> 'a1 list **)

let rec repeat x = function
| O -> []
| S k -> x :: (repeat x k)

(** val n_of_digits : bool list -> n **)

let rec n_of_digits = function
| [] -> N0
| b :: l' ->
  N.add (if b then Npos XH else N0) (N.mul (Npos (XO XH)) (n_of_digits l'))

(** val n_of_ascii : char -> n **)

let n_of_ascii a =
  (* If this appears, you're using Ascii internals. Please don't *)
 (fun f c ->
  let n = Char.code c in
  let h i = (n land (1 lsl i)) <> 0 in
  f (h 0) (h 1) (h 2) (h 3) (h 4) (h 5) (h 6) (h 7))
    (fun a0 a1 a2 a3 a4 a5 a6 a7 ->
    n_of_digits
      (a0 :: (a1 :: (a2 :: (a3 :: (a4 :: (a5 :: (a6 :: (a7 :: [])))))))))
    a

(** val nat_of_ascii : char -> nat **)

let nat_of_ascii a =
  N.to_nat (n_of_ascii a)

(** val eqb0 : char list -> char list -> bool **)

let rec eqb0 s1 s2 =
  match s1 with
  | [] -> (match s2 with
           | [] -> true
           | _::_ -> false)
  | c1::s1' ->
    (match s2 with
     | [] -> false
     | c2::s2' -> if (=) c1 c2 then eqb0 s1' s2' else false)

(** val append : char list -> char list -> char list **)

let rec append s1 s2 =
  match s1 with
  | [] -> s2
  | c::s1' -> c::(append s1' s2)

type exn =
| ValueError
| IndexError
| KeyError
| AttributeError
| TypeError
| SolutionError of z option
| NonConvergenceError
| ParserError
| SymbolError
| IndentationError
| DimensionError
| DuplicateNameError
| InitialisationError
| NotImplementedError
| UnboundLocalError
| FortranEngineError
| OverflowError
| OtherError

type 'a outcome =
| Ret of 'a
| Raise of exn

(** val type_order : (char list * z) list **)

let type_order =
  (('V'::('A'::('R'::('I'::('A'::('B'::('L'::('E'::[])))))))), (Zpos
    XH)) :: ((('E'::('X'::('O'::('G'::('E'::('N'::('O'::('U'::('S'::[]))))))))),
    (Zpos (XO
    XH))) :: ((('E'::('N'::('D'::('O'::('G'::('E'::('N'::('O'::('U'::('S'::[])))))))))),
    (Zpos (XI
    XH))) :: ((('P'::('A'::('R'::('A'::('M'::('E'::('T'::('E'::('R'::[]))))))))),
    (Zpos (XO (XO XH)))) :: ((('E'::('R'::('R'::('O'::('R'::[]))))), (Zpos
    (XI (XO
    XH)))) :: ((('F'::('U'::('N'::('C'::('T'::('I'::('O'::('N'::[])))))))),
    (Zpos (XO (XI
    XH)))) :: ((('K'::('E'::('Y'::('W'::('O'::('R'::('D'::[]))))))), (Zpos
    (XI (XI
    XH)))) :: ((('V'::('E'::('R'::('B'::('A'::('T'::('I'::('M'::[])))))))),
    (Zpos (XO (XO (XO
    XH))))) :: ((('I'::('N'::('V'::('A'::('L'::('I'::('D'::[]))))))), (Zpos
    (XI (XO (XO XH))))) :: []))))))))

type ptype =
| TVariable
| TExogenous
| TEndogenous
| TParameter
| TError
| TFunction
| TKeyword
| TVerbatim
| TInvalid

(** val all_types : ptype list **)

let all_types =
  TVariable :: (TExogenous :: (TEndogenous :: (TParameter :: (TError :: (TFunction :: (TKeyword :: (TVerbatim :: (TInvalid :: []))))))))

(** val type_name : ptype -> char list **)

let type_name = function
| TVariable -> 'V'::('A'::('R'::('I'::('A'::('B'::('L'::('E'::[])))))))
| TExogenous ->
  'E'::('X'::('O'::('G'::('E'::('N'::('O'::('U'::('S'::[]))))))))
| TEndogenous ->
  'E'::('N'::('D'::('O'::('G'::('E'::('N'::('O'::('U'::('S'::[])))))))))
| TParameter ->
  'P'::('A'::('R'::('A'::('M'::('E'::('T'::('E'::('R'::[]))))))))
| TError -> 'E'::('R'::('R'::('O'::('R'::[]))))
| TFunction -> 'F'::('U'::('N'::('C'::('T'::('I'::('O'::('N'::[])))))))
| TKeyword -> 'K'::('E'::('Y'::('W'::('O'::('R'::('D'::[]))))))
| TVerbatim -> 'V'::('E'::('R'::('B'::('A'::('T'::('I'::('M'::[])))))))
| TInvalid -> 'I'::('N'::('V'::('A'::('L'::('I'::('D'::[]))))))

(** val assoc_z : char list -> (char list * z) list -> z **)

let rec assoc_z k = function
| [] -> Z0
| p :: r -> let (k', v) = p in if eqb0 k k' then v else assoc_z k r

(** val type_value : ptype -> z **)

let type_value t =
  assoc_z (type_name t) type_order

type pidx =
| IInt of z
| IStr of char list

type symbol = { sname : char list option; stype : ptype; slags : pidx option;
                sleads : pidx option; sequation : char list option;
                scode : char list option }

module NilEmpty =
 struct
  (** val string_of_uint : uint -> char list **)

  let rec string_of_uint = function
  | Nil -> []
  | D0 d0 -> '0'::(string_of_uint d0)
  | D1 d0 -> '1'::(string_of_uint d0)
  | D2 d0 -> '2'::(string_of_uint d0)
  | D3 d0 -> '3'::(string_of_uint d0)
  | D4 d0 -> '4'::(string_of_uint d0)
  | D5 d0 -> '5'::(string_of_uint d0)
  | D6 d0 -> '6'::(string_of_uint d0)
  | D7 d0 -> '7'::(string_of_uint d0)
  | D8 d0 -> '8'::(string_of_uint d0)
  | D9 d0 -> '9'::(string_of_uint d0)
 end

module NilZero =
 struct
  (** val string_of_uint : uint -> char list **)

  let string_of_uint d = match d with
  | Nil -> '0'::[]
  | _ -> NilEmpty.string_of_uint d

  (** val string_of_int : signed_int -> char list **)

  let string_of_int = function
  | Pos d0 -> string_of_uint d0
  | Neg d0 -> '-'::(string_of_uint d0)
 end

type f64 =
| FInt of z
| FFrac of z * positive
| FNegZero
| FNaN
| FPInf
| FNInf

type atom =
| AInt of z
| AStr of char list

(** val atom_eqb : atom -> atom -> bool **)

let atom_eqb a b =
  match a with
  | AInt x -> (match b with
               | AInt y -> Z.eqb x y
               | AStr _ -> false)
  | AStr x -> (match b with
               | AInt _ -> false
               | AStr y -> eqb0 x y)

type cell =
| CNone
| CFlt of f64
| CInt of z
| CBool of bool
| CStr of char list
| CTup of atom * atom
| CPer of z * z
| CTs of z
| CTd of z

(** val f64_eqb : f64 -> f64 -> bool **)

let f64_eqb a b =
  match a with
  | FInt x -> (match b with
               | FInt y -> Z.eqb x y
               | _ -> false)
  | FFrac (m, e) ->
    (match b with
     | FFrac (m', e') -> (&&) (Z.eqb m m') (Coq_Pos.eqb e e')
     | _ -> false)
  | FNegZero -> (match b with
                 | FNegZero -> true
                 | _ -> false)
  | FNaN -> (match b with
             | FNaN -> true
             | _ -> false)
  | FPInf -> (match b with
              | FPInf -> true
              | _ -> false)
  | FNInf -> (match b with
              | FNInf -> true
              | _ -> false)

(** val cell_eqb : cell -> cell -> bool **)

let cell_eqb a b =
  match a with
  | CNone -> (match b with
              | CNone -> true
              | _ -> false)
  | CFlt x -> (match b with
               | CFlt y -> f64_eqb x y
               | _ -> false)
  | CInt x -> (match b with
               | CInt y -> Z.eqb x y
               | _ -> false)
  | CBool x -> (match b with
                | CBool y -> eqb x y
                | _ -> false)
  | CStr x -> (match b with
               | CStr y -> eqb0 x y
               | _ -> false)
  | CTup (a0, b0) ->
    (match b with
     | CTup (c, d) -> (&&) (atom_eqb a0 c) (atom_eqb b0 d)
     | _ -> false)
  | CPer (f, o) ->
    (match b with
     | CPer (f', o') -> (&&) (Z.eqb f f') (Z.eqb o o')
     | _ -> false)
  | CTs x -> (match b with
              | CTs y -> Z.eqb x y
              | _ -> false)
  | CTd x -> (match b with
              | CTd y -> Z.eqb x y
              | _ -> false)

(** val two53 : z **)

let two53 =
  Zpos (XO (XO (XO (XO (XO (XO (XO (XO (XO (XO (XO (XO (XO (XO (XO (XO (XO
    (XO (XO (XO (XO (XO (XO (XO (XO (XO (XO (XO (XO (XO (XO (XO (XO (XO (XO
    (XO (XO (XO (XO (XO (XO (XO (XO (XO (XO (XO (XO (XO (XO (XO (XO (XO (XO
    XH)))))))))))))))))))))))))))))))))))))))))))))))))))))

(** val int64_min : z **)

let int64_min =
  Zneg (XO (XO (XO (XO (XO (XO (XO (XO (XO (XO (XO (XO (XO (XO (XO (XO (XO
    (XO (XO (XO (XO (XO (XO (XO (XO (XO (XO (XO (XO (XO (XO (XO (XO (XO (XO
    (XO (XO (XO (XO (XO (XO (XO (XO (XO (XO (XO (XO (XO (XO (XO (XO (XO (XO
    (XO (XO (XO (XO (XO (XO (XO (XO (XO (XO
    XH)))))))))))))))))))))))))))))))))))))))))))))))))))))))))))))))

(** val int64_max : z **)

let int64_max =
  Zpos (XI (XI (XI (XI (XI (XI (XI (XI (XI (XI (XI (XI (XI (XI (XI (XI (XI
    (XI (XI (XI (XI (XI (XI (XI (XI (XI (XI (XI (XI (XI (XI (XI (XI (XI (XI
    (XI (XI (XI (XI (XI (XI (XI (XI (XI (XI (XI (XI (XI (XI (XI (XI (XI (XI
    (XI (XI (XI (XI (XI (XI (XI (XI (XI
    XH))))))))))))))))))))))))))))))))))))))))))))))))))))))))))))))

(** val uint64_max : z **)

let uint64_max =
  Zpos (XI (XI (XI (XI (XI (XI (XI (XI (XI (XI (XI (XI (XI (XI (XI (XI (XI
    (XI (XI (XI (XI (XI (XI (XI (XI (XI (XI (XI (XI (XI (XI (XI (XI (XI (XI
    (XI (XI (XI (XI (XI (XI (XI (XI (XI (XI (XI (XI (XI (XI (XI (XI (XI (XI
    (XI (XI (XI (XI (XI (XI (XI (XI (XI (XI
    XH)))))))))))))))))))))))))))))))))))))))))))))))))))))))))))))))

(** val in_int64 : z -> bool **)

let in_int64 z0 =
  (&&) (Z.leb int64_min z0) (Z.leb z0 int64_max)

(** val in_uint64 : z -> bool **)

let in_uint64 z0 =
  (&&) (Z.leb Z0 z0) (Z.leb z0 uint64_max)

(** val rne53 : z -> z **)

let rne53 z0 =
  let a = Z.abs z0 in
  if Z.leb a two53
  then z0
  else let k = Z.sub (Z.log2 a) (Zpos (XO (XO (XI (XO (XI XH)))))) in
       let q = Z.shiftr a k in
       let r = Z.sub a (Z.shiftl q k) in
       let half = Z.shiftl (Zpos XH) (Z.sub k (Zpos XH)) in
       let q' =
         if (||) (Z.ltb half r) ((&&) (Z.eqb r half) (Z.odd q))
         then Z.add q (Zpos XH)
         else q
       in
       Z.mul (Z.sgn z0) (Z.shiftl q' k)

(** val f64_of_Z : z -> f64 **)

let f64_of_Z z0 =
  FInt (rne53 z0)

(** val z_of_f64 : f64 -> z option **)

let z_of_f64 = function
| FInt z0 -> Some z0
| FFrac (m, e) -> Some (Z.quot m (Z.pow_pos (Zpos (XO XH)) e))
| FNegZero -> Some Z0
| _ -> None

(** val f64_nonzero : f64 -> bool **)

let f64_nonzero = function
| FInt z0 -> negb (Z.eqb z0 Z0)
| FNegZero -> false
| _ -> true

type ndt =
| NFloat
| NInt
| NBool
| NStr
| NObj

type pdt =
| PFloat64
| PInt64
| PUInt64
| PBool
| PStrDt
| PObject
| PPeriod of z
| PDatetime
| PTimedelta

type ikind =
| KRange
| KIndex
| KPeriodIndex
| KDatetimeIndex
| KMultiIndex
| KTimedeltaIndex

type skind =
| SRange
| SList
| STuple
| SNdarray
| SPandas of ikind * pdt

type series = { sdt : ndt; scells : cell list }

type span = { spkind : skind; splabels : cell list }

type pindex = { ikd : ikind; idt : pdt; ilabels : cell list }

type pcolumn = { pcname : char list; pcdt : pdt; pccells : cell list }

type table = { tindex : pindex; tcols : pcolumn list }

type fmodel = { fspan : span; fnames : char list list;
                fvars : (char list * series) list; fstatus : series;
                fiters : series }

(** val is_none : cell -> bool **)

let is_none = function
| CNone -> true
| _ -> false

(** val is_int : cell -> bool **)

let is_int = function
| CInt _ -> true
| _ -> false

(** val is_str : cell -> bool **)

let is_str = function
| CStr _ -> true
| _ -> false

(** val is_bool : cell -> bool **)

let is_bool = function
| CBool _ -> true
| _ -> false

(** val is_ts : cell -> bool **)

let is_ts = function
| CTs _ -> true
| _ -> false

(** val is_td : cell -> bool **)

let is_td = function
| CTd _ -> true
| _ -> false

(** val is_per : z -> cell -> bool **)

let is_per f = function
| CPer (f', _) -> Z.eqb f f'
| _ -> false

(** val cell_int64 : cell -> bool **)

let cell_int64 = function
| CInt z0 -> in_int64 z0
| _ -> false

(** val cell_uint64 : cell -> bool **)

let cell_uint64 = function
| CInt z0 -> in_uint64 z0
| _ -> false

(** val is_num_or_none : cell -> bool **)

let is_num_or_none = function
| CNone -> true
| CFlt _ -> true
| CInt _ -> true
| _ -> false

(** val out_int64 : cell -> bool **)

let out_int64 = function
| CInt z0 -> negb (in_int64 z0)
| _ -> false

(** val is_per_any : cell -> bool **)

let is_per_any = function
| CPer (_, _) -> true
| _ -> false

(** val is_str_or_none : cell -> bool **)

let is_str_or_none = function
| CNone -> true
| CStr _ -> true
| _ -> false

(** val to_float_cell : cell -> cell **)

let to_float_cell c = match c with
| CNone -> CFlt FNaN
| CInt z0 -> CFlt (f64_of_Z z0)
| _ -> c

(** val none_to_nan : cell -> cell **)

let none_to_nan c = match c with
| CNone -> CFlt FNaN
| _ -> c

(** val pd_infer : cell list -> (pdt * cell list) option **)

let pd_infer cs = match cs with
| [] -> Some (PObject, [])
| c0 :: _ ->
  if forallb is_none cs
  then Some (PObject, cs)
  else if forallb is_int cs
       then if forallb cell_int64 cs
            then Some (PInt64, cs)
            else if forallb cell_uint64 cs
                 then Some (PUInt64, cs)
                 else Some (PObject, cs)
       else if forallb is_bool cs
            then Some (PBool, cs)
            else if forallb is_str cs
                 then Some (PStrDt, cs)
                 else if forallb is_str_or_none cs
                      then Some (PStrDt, (map none_to_nan cs))
                      else if forallb is_num_or_none cs
                           then if existsb out_int64 cs
                                then None
                                else Some (PFloat64, (map to_float_cell cs))
                           else if forallb is_ts cs
                                then Some (PDatetime, cs)
                                else if forallb is_td cs
                                     then Some (PTimedelta, cs)
                                     else (match c0 with
                                           | CPer (f, _) ->
                                             if forallb (is_per f) cs
                                             then Some ((PPeriod f), cs)
                                             else if existsb is_none cs
                                                  then None
                                                  else Some (PObject, cs)
                                           | _ ->
                                             if (&&) (existsb is_none cs)
                                                  ((||)
                                                    ((||) (existsb is_ts cs)
                                                      (existsb is_td cs))
                                                    (existsb is_per_any cs))
                                             then None
                                             else Some (PObject, cs))

(** val pd_index : span -> pindex option **)

let pd_index s =
  match s.spkind with
  | SRange -> Some { ikd = KRange; idt = PInt64; ilabels = s.splabels }
  | SPandas (k, d) -> Some { ikd = k; idt = d; ilabels = s.splabels }
  | _ ->
    (match s.splabels with
     | [] ->
       (match s.spkind with
        | SNdarray -> Some { ikd = KIndex; idt = PFloat64; ilabels = [] }
        | _ ->
          (match pd_infer s.splabels with
           | Some p ->
             let (d, cs) = p in
             (match d with
              | PPeriod f ->
                Some { ikd = KPeriodIndex; idt = (PPeriod f); ilabels = cs }
              | PDatetime ->
                Some { ikd = KDatetimeIndex; idt = PDatetime; ilabels = cs }
              | PTimedelta ->
                Some { ikd = KTimedeltaIndex; idt = PTimedelta; ilabels = cs }
              | _ -> Some { ikd = KIndex; idt = d; ilabels = cs })
           | None -> None))
     | _ :: _ ->
       (match pd_infer s.splabels with
        | Some p ->
          let (d, cs) = p in
          (match d with
           | PPeriod f ->
             Some { ikd = KPeriodIndex; idt = (PPeriod f); ilabels = cs }
           | PDatetime ->
             Some { ikd = KDatetimeIndex; idt = PDatetime; ilabels = cs }
           | PTimedelta ->
             Some { ikd = KTimedeltaIndex; idt = PTimedelta; ilabels = cs }
           | _ -> Some { ikd = KIndex; idt = d; ilabels = cs })
        | None -> None))

(** val pd_of_series : series -> pdt * cell list **)

let pd_of_series s =
  match s.sdt with
  | NFloat -> (PFloat64, s.scells)
  | NInt -> (PInt64, s.scells)
  | NBool -> (PBool, s.scells)
  | NStr -> (PStrDt, s.scells)
  | NObj ->
    if forallb is_none s.scells
    then (PObject, s.scells)
    else if forallb is_str_or_none s.scells
         then (PStrDt, (map none_to_nan s.scells))
         else (PObject, s.scells)

(** val starts_underscore : char list -> bool **)

let starts_underscore = function
| [] -> false
| c::_ -> (=) c '_'

(** val assoc_s : char list -> (char list * 'a1) list -> 'a1 option **)

let rec assoc_s k = function
| [] -> None
| p :: r -> let (k', v) = p in if eqb0 k k' then Some v else assoc_s k r

(** val mem_s : char list -> char list list -> bool **)

let mem_s x l =
  existsb (eqb0 x) l

(** val getvar : fmodel -> char list -> series option **)

let getvar m k =
  if eqb0 k ('s'::('t'::('a'::('t'::('u'::('s'::[]))))))
  then Some m.fstatus
  else if eqb0 k
            ('i'::('t'::('e'::('r'::('a'::('t'::('i'::('o'::('n'::('s'::[]))))))))))
       then Some m.fiters
       else assoc_s k m.fvars

(** val dedup : char list list -> char list list -> char list list **)

let rec dedup seen = function
| [] -> []
| x :: r -> if mem_s x seen then dedup seen r else x :: (dedup (x :: seen) r)

(** val export_names : bool -> fmodel -> char list list **)

let export_names include_internal m =
  if include_internal
  then m.fnames
  else filter (fun x -> negb (starts_underscore x)) m.fnames

(** val lookup_all :
    fmodel -> char list list -> (char list * series) list outcome **)

let rec lookup_all m = function
| [] -> Ret []
| k :: r ->
  (match getvar m k with
   | Some s ->
     (match lookup_all m r with
      | Ret l -> Ret ((k, s) :: l)
      | Raise e -> Raise e)
   | None -> Raise KeyError)

(** val col_of : (char list * series) -> pcolumn **)

let col_of ks =
  let (d, cs) = pd_of_series (snd ks) in
  { pcname = (fst ks); pcdt = d; pccells = cs }

(** val set_col : pcolumn -> pcolumn list -> pcolumn list **)

let rec set_col c = function
| [] -> c :: []
| c' :: r -> if eqb0 c.pcname c'.pcname then c :: r else c' :: (set_col c r)

type 'a tres =
| TOk of 'a
| TErr of exn
| TUnmodelled

(** val tbind : 'a1 tres -> ('a1 -> 'a2 tres) -> 'a2 tres **)

let tbind a f =
  match a with
  | TOk x -> f x
  | TErr e -> TErr e
  | TUnmodelled -> TUnmodelled

(** val model_to_table : bool -> bool -> bool -> fmodel -> table tres **)

let model_to_table status iterations include_internal m =
  let names = dedup [] (export_names include_internal m) in
  (match lookup_all m names with
   | Ret kvs ->
     (match pd_index m.fspan with
      | Some ix ->
        let n0 = length ix.ilabels in
        if negb (forallb (fun kv -> Nat.eqb (length (snd kv).scells) n0) kvs)
        then TErr ValueError
        else let cols = map col_of kvs in
             if (&&) status (negb (Nat.eqb (length m.fstatus.scells) n0))
             then TErr ValueError
             else let cols1 =
                    if status
                    then set_col
                           (col_of
                             (('s'::('t'::('a'::('t'::('u'::('s'::[])))))),
                             m.fstatus)) cols
                    else cols
                  in
                  if (&&) iterations
                       (negb (Nat.eqb (length m.fiters.scells) n0))
                  then TErr ValueError
                  else let cols2 =
                         if iterations
                         then set_col
                                (col_of
                                  (('i'::('t'::('e'::('r'::('a'::('t'::('i'::('o'::('n'::('s'::[])))))))))),
                                  m.fiters)) cols1
                         else cols1
                       in
                       TOk { tindex = ix; tcols = cols2 }
      | None -> TUnmodelled)
   | Raise e -> TErr e)

(** val container_to_table :
    span -> (char list * series) list -> table tres **)

let container_to_table sp vars =
  match pd_index sp with
  | Some ix ->
    let n0 = length ix.ilabels in
    if negb (forallb (fun kv -> Nat.eqb (length (snd kv).scells) n0) vars)
    then TErr ValueError
    else TOk { tindex = ix; tcols = (map col_of vars) }
  | None -> TUnmodelled

type flinker = { lname : cell; lmodel : fmodel; lsubs : (cell * fmodel) list }

(** val linker_name_free : cell -> (cell * fmodel) list -> bool **)

let linker_name_free name subs =
  negb (existsb (fun km -> cell_eqb name (fst km)) subs)

(** val dset : cell -> 'a1 -> (cell * 'a1) list -> (cell * 'a1) list **)

let rec dset k v = function
| [] -> (k, v) :: []
| p :: r ->
  let (k', v') = p in
  if cell_eqb k k' then (k', v) :: r else (k', v') :: (dset k v r)

(** val linker_subs :
    bool -> bool -> bool -> (cell * fmodel) list -> (cell * table) list ->
    (cell * table) list tres **)

let rec linker_subs st it ii subs acc =
  match subs with
  | [] -> TOk acc
  | p :: r ->
    let (k, m) = p in
    tbind (model_to_table st it ii m) (fun t ->
      linker_subs st it ii r (dset k t acc))

(** val linker_to_tables :
    bool -> bool -> bool -> flinker -> (cell * table) list tres **)

let linker_to_tables st it ii l =
  tbind (model_to_table st it ii l.lmodel) (fun t ->
    linker_subs st it ii l.lsubs ((l.lname, t) :: []))

type mclass = { cnames : char list list; cdtype : ndt; cdefault : cell;
                cstrict : bool }

(** val col_values : pcolumn -> cell list **)

let col_values c =
  c.pccells

(** val plain_text : char list -> bool **)

let plain_text = function
| [] -> true
| c::_ ->
  let n0 = nat_of_ascii c in
  (&&)
    ((||)
      ((&&)
        (Nat.leb (S (S (S (S (S (S (S (S (S (S (S (S (S (S (S (S (S (S (S (S
          (S (S (S (S (S (S (S (S (S (S (S (S (S (S (S (S (S (S (S (S (S (S
          (S (S (S (S (S (S (S (S (S (S (S (S (S (S (S (S (S (S (S (S (S (S
          (S
          O)))))))))))))))))))))))))))))))))))))))))))))))))))))))))))))))))
          n0)
        (Nat.leb n0 (S (S (S (S (S (S (S (S (S (S (S (S (S (S (S (S (S (S (S
          (S (S (S (S (S (S (S (S (S (S (S (S (S (S (S (S (S (S (S (S (S (S
          (S (S (S (S (S (S (S (S (S (S (S (S (S (S (S (S (S (S (S (S (S (S
          (S (S (S (S (S (S (S (S (S (S (S (S (S (S (S (S (S (S (S (S (S (S
          (S (S (S (S (S
          O))))))))))))))))))))))))))))))))))))))))))))))))))))))))))))))))))))))))))))))))))))))))))))
      ((&&)
        (Nat.leb (S (S (S (S (S (S (S (S (S (S (S (S (S (S (S (S (S (S (S (S
          (S (S (S (S (S (S (S (S (S (S (S (S (S (S (S (S (S (S (S (S (S (S
          (S (S (S (S (S (S (S (S (S (S (S (S (S (S (S (S (S (S (S (S (S (S
          (S (S (S (S (S (S (S (S (S (S (S (S (S (S (S (S (S (S (S (S (S (S
          (S (S (S (S (S (S (S (S (S (S (S
          O)))))))))))))))))))))))))))))))))))))))))))))))))))))))))))))))))))))))))))))))))))))))))))))))))
          n0)
        (Nat.leb n0 (S (S (S (S (S (S (S (S (S (S (S (S (S (S (S (S (S (S (S
          (S (S (S (S (S (S (S (S (S (S (S (S (S (S (S (S (S (S (S (S (S (S
          (S (S (S (S (S (S (S (S (S (S (S (S (S (S (S (S (S (S (S (S (S (S
          (S (S (S (S (S (S (S (S (S (S (S (S (S (S (S (S (S (S (S (S (S (S
          (S (S (S (S (S (S (S (S (S (S (S (S (S (S (S (S (S (S (S (S (S (S
          (S (S (S (S (S (S (S (S (S (S (S (S (S (S (S
          O)))))))))))))))))))))))))))))))))))))))))))))))))))))))))))))))))))))))))))))))))))))))))))))))))))))))))))))))))))))))))))))
    (negb
      ((||)
        ((||)
          ((||)
            (Nat.eqb n0 (S (S (S (S (S (S (S (S (S (S (S (S (S (S (S (S (S (S
              (S (S (S (S (S (S (S (S (S (S (S (S (S (S (S (S (S (S (S (S (S
              (S (S (S (S (S (S (S (S (S (S (S (S (S (S (S (S (S (S (S (S (S
              (S (S (S (S (S (S (S (S (S (S (S (S (S (S (S (S (S (S (S (S (S
              (S (S (S (S (S (S (S (S (S (S (S (S (S (S (S (S (S (S (S (S (S
              (S (S (S (S (S (S (S (S
              O)))))))))))))))))))))))))))))))))))))))))))))))))))))))))))))))))))))))))))))))))))))))))))))))))))))))))))))))
            (Nat.eqb n0 (S (S (S (S (S (S (S (S (S (S (S (S (S (S (S (S (S (S
              (S (S (S (S (S (S (S (S (S (S (S (S (S (S (S (S (S (S (S (S (S
              (S (S (S (S (S (S (S (S (S (S (S (S (S (S (S (S (S (S (S (S (S
              (S (S (S (S (S (S (S (S (S (S (S (S (S (S (S (S (S (S
              O))))))))))))))))))))))))))))))))))))))))))))))))))))))))))))))))))))))))))))))))
          (Nat.eqb n0 (S (S (S (S (S (S (S (S (S (S (S (S (S (S (S (S (S (S
            (S (S (S (S (S (S (S (S (S (S (S (S (S (S (S (S (S (S (S (S (S (S
            (S (S (S (S (S (S (S (S (S (S (S (S (S (S (S (S (S (S (S (S (S (S
            (S (S (S (S (S (S (S (S (S (S (S (S (S (S (S (S (S (S (S (S (S (S
            (S (S (S (S (S (S (S (S (S (S (S (S (S (S (S (S (S (S (S (S (S
            O)))))))))))))))))))))))))))))))))))))))))))))))))))))))))))))))))))))))))))))))))))))))))))))))))))))))))))
        (Nat.eqb n0 (S (S (S (S (S (S (S (S (S (S (S (S (S (S (S (S (S (S (S
          (S (S (S (S (S (S (S (S (S (S (S (S (S (S (S (S (S (S (S (S (S (S
          (S (S (S (S (S (S (S (S (S (S (S (S (S (S (S (S (S (S (S (S (S (S
          (S (S (S (S (S (S (S (S (S (S
          O))))))))))))))))))))))))))))))))))))))))))))))))))))))))))))))))))))))))))))

(** val string_of_Z : z -> char list **)

let string_of_Z z0 =
  NilZero.string_of_int (Z.to_int z0)

(** val np_cast : ndt -> cell -> cell tres **)

let np_cast d c =
  match d with
  | NFloat ->
    (match c with
     | CNone -> TOk (CFlt FNaN)
     | CFlt f -> TOk (CFlt f)
     | CInt z0 ->
       if in_int64 z0 then TOk (CFlt (f64_of_Z z0)) else TUnmodelled
     | CBool b -> TOk (CFlt (FInt (if b then Zpos XH else Z0)))
     | CStr s -> if plain_text s then TErr ValueError else TUnmodelled
     | _ -> TUnmodelled)
  | NInt ->
    (match c with
     | CNone -> TErr TypeError
     | CFlt f ->
       (match z_of_f64 f with
        | Some z0 -> if in_int64 z0 then TOk (CInt z0) else TUnmodelled
        | None -> TUnmodelled)
     | CInt z0 -> if in_int64 z0 then TOk (CInt z0) else TUnmodelled
     | CBool b -> TOk (CInt (if b then Zpos XH else Z0))
     | CStr s -> if plain_text s then TErr ValueError else TUnmodelled
     | _ -> TUnmodelled)
  | NBool ->
    (match c with
     | CNone -> TOk (CBool false)
     | CFlt f -> TOk (CBool (f64_nonzero f))
     | CInt z0 -> TOk (CBool (negb (Z.eqb z0 Z0)))
     | CBool b -> TOk (CBool b)
     | CStr s -> TOk (CBool (negb (eqb0 s [])))
     | _ -> TUnmodelled)
  | NStr ->
    (match c with
     | CNone -> TOk (CStr ('N'::('o'::('n'::('e'::[])))))
     | CFlt f ->
       (match f with
        | FInt z0 ->
          if Z.ltb (Z.abs z0) (Zpos (XO (XO (XO (XO (XO (XO (XO (XO (XO (XO
               (XO (XO (XO (XO (XO (XI (XO (XI (XI (XO (XO (XO (XI (XI (XO
               (XO (XI (XO (XO (XI (XO (XI (XO (XI (XI (XI (XI (XI (XI (XO
               (XI (XO (XI (XI (XO (XO (XO (XI (XI
               XH))))))))))))))))))))))))))))))))))))))))))))))))))
          then TOk (CStr (append (string_of_Z z0) ('.'::('0'::[]))))
          else TUnmodelled
        | FFrac (_, _) -> TUnmodelled
        | FNegZero -> TOk (CStr ('-'::('0'::('.'::('0'::[])))))
        | FNaN -> TOk (CStr ('n'::('a'::('n'::[]))))
        | FPInf -> TOk (CStr ('i'::('n'::('f'::[]))))
        | FNInf -> TOk (CStr ('-'::('i'::('n'::('f'::[]))))))
     | CInt z0 -> TOk (CStr (string_of_Z z0))
     | CBool b ->
       TOk (CStr
         (if b
          then 'T'::('r'::('u'::('e'::[])))
          else 'F'::('a'::('l'::('s'::('e'::[]))))))
     | CStr s -> TOk (CStr s)
     | _ -> TUnmodelled)
  | NObj -> TOk c

(** val cast_all : ndt -> cell list -> cell list tres **)

let rec cast_all d = function
| [] -> TOk []
| c :: r ->
  tbind (np_cast d c) (fun c' ->
    tbind (cast_all d r) (fun r' -> TOk (c' :: r')))

(** val find_col : char list -> pcolumn list -> pcolumn option **)

let rec find_col k = function
| [] -> None
| c :: r -> if eqb0 k c.pcname then Some c else find_col k r

(** val has_dup : char list list -> bool **)

let rec has_dup = function
| [] -> false
| x :: r -> (||) (mem_s x r) (has_dup r)

(** val reserved_params : char list list **)

let reserved_params =
  ('s'::('p'::('a'::('n'::[])))) :: (('s'::('e'::('l'::('f'::[])))) :: [])

(** val opaque_params : char list list **)

let opaque_params =
  ('s'::('t'::('r'::('i'::('c'::('t'::[])))))) :: (('e'::('n'::('g'::('i'::('n'::('e'::[])))))) :: (('d'::('e'::('f'::('a'::('u'::('l'::('t'::('_'::('v'::('a'::('l'::('u'::('e'::[]))))))))))))) :: []))

(** val is_time_index : ikind -> bool **)

let is_time_index = function
| KRange -> false
| KIndex -> false
| _ -> true

(** val span_of_index : pindex -> span **)

let span_of_index ix =
  if is_time_index ix.ikd
  then { spkind = (SPandas (ix.ikd, ix.idt)); splabels = ix.ilabels }
  else { spkind = SList; splabels = ix.ilabels }

(** val init_vars :
    mclass -> nat -> pcolumn list -> char list list -> (char list * series)
    list tres **)

let rec init_vars c n0 cols = function
| [] -> TOk []
| k :: r ->
  if mem_s k
       (('s'::('t'::('a'::('t'::('u'::('s'::[])))))) :: (('i'::('t'::('e'::('r'::('a'::('t'::('i'::('o'::('n'::('s'::[])))))))))) :: []))
  then TErr DuplicateNameError
  else let src =
         match find_col k cols with
         | Some col -> col_values col
         | None -> repeat c.cdefault n0
       in
       tbind (cast_all c.cdtype src) (fun cs ->
         tbind (init_vars c n0 cols r) (fun rest -> TOk ((k, { sdt =
           c.cdtype; scells = cs }) :: rest)))

(** val from_table : mclass -> table -> fmodel tres **)

let from_table c t =
  if existsb (fun col -> mem_s col.pcname reserved_params) t.tcols
  then TErr TypeError
  else if existsb (fun col -> mem_s col.pcname opaque_params) t.tcols
       then TUnmodelled
       else if has_dup c.cnames
            then TErr DuplicateNameError
            else let ivals =
                   filter (fun col ->
                     negb
                       (eqb0 col.pcname ('d'::('t'::('y'::('p'::('e'::[])))))))
                     t.tcols
                 in
                 if (&&) c.cstrict
                      (existsb (fun col -> negb (mem_s col.pcname c.cnames))
                        ivals)
                 then TErr InitialisationError
                 else let sp = span_of_index t.tindex in
                      let n0 = length t.tindex.ilabels in
                      let fresh = fun vars -> { fspan = sp; fnames =
                        c.cnames; fvars = vars; fstatus = { sdt = NStr;
                        scells = (repeat (CStr ('-'::[])) n0) }; fiters =
                        { sdt = NInt; scells =
                        (repeat (CInt (Zneg XH)) n0) } }
                      in
                      if existsb (fun col ->
                           eqb0 col.pcname
                             ('d'::('t'::('y'::('p'::('e'::[])))))) t.tcols
                      then (match c.cnames with
                            | [] -> TOk (fresh [])
                            | k :: _ ->
                              if mem_s k
                                   (('s'::('t'::('a'::('t'::('u'::('s'::[])))))) :: (('i'::('t'::('e'::('r'::('a'::('t'::('i'::('o'::('n'::('s'::[])))))))))) :: []))
                              then TErr DuplicateNameError
                              else TErr TypeError)
                      else tbind (init_vars c n0 t.tcols c.cnames)
                             (fun vars -> TOk (fresh vars))

(** val from_dataframe_call : nat -> mclass -> table -> fmodel tres **)

let from_dataframe_call nargs c t =
  match nargs with
  | O -> from_table c t
  | S _ -> TErr TypeError

(** val cast_series : ndt -> series -> cell list tres **)

let cast_series d s =
  cast_all d (snd (pd_of_series s))

(** val cell_of_ostr : char list option -> cell **)

let cell_of_ostr = function
| Some s -> CStr s
| None -> CNone

(** val all_some : 'a1 option list -> 'a1 list option **)

let rec all_some = function
| [] -> Some []
| o :: r ->
  (match o with
   | Some x ->
     (match all_some r with
      | Some r' -> Some (x :: r')
      | None -> None)
   | None -> None)

(** val cell_of_oidx : pidx option -> cell option **)

let cell_of_oidx = function
| Some p -> (match p with
             | IInt z0 -> Some (CInt z0)
             | IStr _ -> None)
| None -> Some CNone

(** val idx_cells : pidx option list -> cell list option **)

let idx_cells os =
  all_some (map cell_of_oidx os)

(** val mk_column : char list -> cell list -> pcolumn option **)

let mk_column name cs =
  match pd_infer cs with
  | Some p ->
    let (d, cs') = p in Some { pcname = name; pcdt = d; pccells = cs' }
  | None -> None

(** val symbols_to_table : symbol list -> table tres **)

let symbols_to_table ss =
  let n0 = length ss in
  let ix = { ikd = KRange; idt = PInt64; ilabels =
    (map (fun i -> CInt (Z.of_nat i)) (seq O n0)) }
  in
  (match ss with
   | [] -> TOk { tindex = ix; tcols = [] }
   | _ :: _ ->
     (match idx_cells (map (fun s -> s.slags) ss) with
      | Some lg ->
        (match idx_cells (map (fun s -> s.sleads) ss) with
         | Some ld ->
           (match mk_column ('n'::('a'::('m'::('e'::[]))))
                    (map (fun s -> cell_of_ostr s.sname) ss) with
            | Some c1 ->
              (match mk_column ('t'::('y'::('p'::('e'::[]))))
                       (map (fun s -> CInt (type_value s.stype)) ss) with
               | Some c2 ->
                 (match mk_column ('l'::('a'::('g'::('s'::[])))) lg with
                  | Some c3 ->
                    (match mk_column ('l'::('e'::('a'::('d'::('s'::[]))))) ld with
                     | Some c4 ->
                       (match mk_column
                                ('e'::('q'::('u'::('a'::('t'::('i'::('o'::('n'::[]))))))))
                                (map (fun s -> cell_of_ostr s.sequation) ss) with
                        | Some c5 ->
                          (match mk_column ('c'::('o'::('d'::('e'::[]))))
                                   (map (fun s -> cell_of_ostr s.scode) ss) with
                           | Some c6 ->
                             TOk { tindex = ix; tcols =
                               (c1 :: (c2 :: (c3 :: (c4 :: (c5 :: (c6 :: [])))))) }
                           | None -> TUnmodelled)
                        | None -> TUnmodelled)
                     | None -> TUnmodelled)
                  | None -> TUnmodelled)
               | None -> TUnmodelled)
            | None -> TUnmodelled)
         | None -> TUnmodelled)
      | None -> TUnmodelled))

(** val type_of_value : z -> ptype option **)

let type_of_value z0 =
  find (fun t -> Z.eqb (type_value t) z0) all_types

(** val type_of_cell : cell -> ptype tres **)

let type_of_cell = function
| CFlt f ->
  (match f with
   | FInt z0 ->
     (match type_of_value z0 with
      | Some t -> TOk t
      | None -> TErr ValueError)
   | _ -> TErr ValueError)
| CInt z0 ->
  (match type_of_value z0 with
   | Some t -> TOk t
   | None -> TErr ValueError)
| CBool b ->
  (match type_of_value (if b then Zpos XH else Z0) with
   | Some t -> TOk t
   | None -> TErr ValueError)
| _ -> TErr ValueError

(** val convert_to_int_or_none : cell -> pidx option tres **)

let convert_to_int_or_none = function
| CNone -> TOk None
| CFlt f ->
  (match f with
   | FNaN -> TOk None
   | FPInf -> TErr OverflowError
   | FNInf -> TErr OverflowError
   | _ ->
     (match z_of_f64 f with
      | Some z0 -> TOk (Some (IInt z0))
      | None -> TUnmodelled))
| CInt z0 -> TOk (Some (IInt z0))
| CBool b -> TOk (Some (IInt (if b then Zpos XH else Z0)))
| CStr s -> if plain_text s then TErr ValueError else TUnmodelled
| CTup (_, _) -> TErr TypeError
| _ -> TUnmodelled

(** val convert_to_str_or_none : cell -> char list option **)

let convert_to_str_or_none = function
| CStr s -> Some s
| _ -> None

(** val symbol_of_row :
    cell -> cell -> cell -> cell -> cell -> cell -> symbol tres **)

let symbol_of_row nm ty lg ld eq cd =
  tbind (type_of_cell ty) (fun t ->
    tbind (convert_to_int_or_none lg) (fun lags ->
      tbind (convert_to_int_or_none ld) (fun leads -> TOk { sname =
        (convert_to_str_or_none nm); stype = t; slags = lags; sleads = leads;
        sequation = (convert_to_str_or_none eq); scode =
        (convert_to_str_or_none cd) })))

(** val rows_to_symbols :
    cell list -> cell list -> cell list -> cell list -> cell list -> cell
    list -> symbol list tres **)

let rec rows_to_symbols nm ty lg ld eq cd =
  match nm with
  | [] ->
    (match ty with
     | [] ->
       (match lg with
        | [] ->
          (match ld with
           | [] ->
             (match eq with
              | [] -> (match cd with
                       | [] -> TOk []
                       | _ :: _ -> TUnmodelled)
              | _ :: _ -> TUnmodelled)
           | _ :: _ -> TUnmodelled)
        | _ :: _ -> TUnmodelled)
     | _ :: _ -> TUnmodelled)
  | a :: nm' ->
    (match ty with
     | [] -> TUnmodelled
     | b :: ty' ->
       (match lg with
        | [] -> TUnmodelled
        | c :: lg' ->
          (match ld with
           | [] -> TUnmodelled
           | d :: ld' ->
             (match eq with
              | [] -> TUnmodelled
              | e :: eq' ->
                (match cd with
                 | [] -> TUnmodelled
                 | f :: cd' ->
                   tbind (symbol_of_row a b c d e f) (fun s ->
                     tbind (rows_to_symbols nm' ty' lg' ld' eq' cd')
                       (fun r -> TOk (s :: r))))))))

(** val symbol_fields : char list list **)

let symbol_fields =
  ('n'::('a'::('m'::('e'::[])))) :: (('t'::('y'::('p'::('e'::[])))) :: (('l'::('a'::('g'::('s'::[])))) :: (('l'::('e'::('a'::('d'::('s'::[]))))) :: (('e'::('q'::('u'::('a'::('t'::('i'::('o'::('n'::[])))))))) :: (('c'::('o'::('d'::('e'::[])))) :: [])))))

(** val check_field :
    pcolumn list -> char list -> (cell -> 'a1 tres) -> unit tres **)

let check_field cols name conv =
  match find_col name cols with
  | Some c ->
    (match c.pccells with
     | [] -> TUnmodelled
     | x :: _ -> tbind (conv x) (fun _ -> TOk ()))
  | None -> TErr KeyError

(** val first_row_raises : pcolumn list -> symbol list tres **)

let first_row_raises cols =
  tbind (check_field cols ('t'::('y'::('p'::('e'::[])))) type_of_cell)
    (fun _ ->
    tbind
      (check_field cols ('l'::('a'::('g'::('s'::[])))) convert_to_int_or_none)
      (fun _ ->
      tbind
        (check_field cols ('l'::('e'::('a'::('d'::('s'::[])))))
          convert_to_int_or_none) (fun _ ->
        tbind
          (check_field cols ('n'::('a'::('m'::('e'::[])))) (fun _ -> TOk ()))
          (fun _ ->
          tbind
            (check_field cols
              ('e'::('q'::('u'::('a'::('t'::('i'::('o'::('n'::[]))))))))
              (fun _ -> TOk ())) (fun _ ->
            tbind
              (check_field cols ('c'::('o'::('d'::('e'::[])))) (fun _ -> TOk
                ())) (fun _ -> TErr TypeError))))))

(** val table_to_symbols : table -> symbol list tres **)

let table_to_symbols t =
  match t.tindex.ilabels with
  | [] -> TOk []
  | _ :: _ ->
    (match find_col ('t'::('y'::('p'::('e'::[])))) t.tcols with
     | Some ty ->
       (match find_col ('l'::('a'::('g'::('s'::[])))) t.tcols with
        | Some lg ->
          (match find_col ('l'::('e'::('a'::('d'::('s'::[]))))) t.tcols with
           | Some ld ->
             (match find_col ('n'::('a'::('m'::('e'::[])))) t.tcols with
              | Some nm ->
                (match find_col
                         ('e'::('q'::('u'::('a'::('t'::('i'::('o'::('n'::[]))))))))
                         t.tcols with
                 | Some eq ->
                   (match find_col ('c'::('o'::('d'::('e'::[])))) t.tcols with
                    | Some cd ->
                      if existsb (fun c ->
                           negb (mem_s c.pcname symbol_fields)) t.tcols
                      then first_row_raises t.tcols
                      else rows_to_symbols (col_values nm) (col_values ty)
                             (col_values lg) (col_values ld) (col_values eq)
                             (col_values cd)
                    | None -> first_row_raises t.tcols)
                 | None -> first_row_raises t.tcols)
              | None -> first_row_raises t.tcols)
           | None -> first_row_raises t.tcols)
        | None -> first_row_raises t.tcols)
     | None -> first_row_raises t.tcols)

(** val digits_to_Z : char list -> z -> z **)

let rec digits_to_Z s acc =
  match s with
  | [] -> acc
  | c::r ->
    digits_to_Z r
      (Z.add (Z.mul (Zpos (XO (XI (XO XH)))) acc)
        (Z.of_nat
          (sub (nat_of_ascii c) (S (S (S (S (S (S (S (S (S (S (S (S (S (S (S
            (S (S (S (S (S (S (S (S (S (S (S (S (S (S (S (S (S (S (S (S (S (S
            (S (S (S (S (S (S (S (S (S (S (S
            O)))))))))))))))))))))))))))))))))))))))))))))))))))

(** val z_of_string : char list -> z **)

let z_of_string s = match s with
| [] -> digits_to_Z s Z0
| a::r ->
  (* If this appears, you're using Ascii internals. Please don't *)
 (fun f c ->
  let n = Char.code c in
  let h i = (n land (1 lsl i)) <> 0 in
  f (h 0) (h 1) (h 2) (h 3) (h 4) (h 5) (h 6) (h 7))
    (fun b b0 b1 b2 b3 b4 b5 b6 ->
    if b
    then if b0
         then digits_to_Z s Z0
         else if b1
              then if b2
                   then if b3
                        then digits_to_Z s Z0
                        else if b4
                             then if b5
                                  then digits_to_Z s Z0
                                  else if b6
                                       then digits_to_Z s Z0
                                       else Z.opp (digits_to_Z r Z0)
                             else digits_to_Z s Z0
                   else digits_to_Z s Z0
              else digits_to_Z s Z0
    else digits_to_Z s Z0)
    a
