
val negb : bool -> bool

type nat =
| O
| S of nat

val fst : ('a1 * 'a2) -> 'a1

val snd : ('a1 * 'a2) -> 'a2

val length : 'a1 list -> nat

val app : 'a1 list -> 'a1 list -> 'a1 list

type comparison =
| Eq
| Lt
| Gt

val compOpp : comparison -> comparison

val add : nat -> nat -> nat

type positive =
| XI of positive
| XO of positive
| XH

type z =
| Z0
| Zpos of positive
| Zneg of positive

module Nat :
 sig
  val eqb : nat -> nat -> bool

  val leb : nat -> nat -> bool

  val ltb : nat -> nat -> bool
 end

module Pos :
 sig
  val succ : positive -> positive

  val add : positive -> positive -> positive

  val add_carry : positive -> positive -> positive

  val pred_double : positive -> positive

  val mul : positive -> positive -> positive

  val compare_cont : comparison -> positive -> positive -> comparison

  val compare : positive -> positive -> comparison

  val eqb : positive -> positive -> bool

  val of_succ_nat : nat -> positive
 end

module Z :
 sig
  val double : z -> z

  val succ_double : z -> z

  val pred_double : z -> z

  val pos_sub : positive -> positive -> z

  val add : z -> z -> z

  val mul : z -> z -> z

  val compare : z -> z -> comparison

  val leb : z -> z -> bool

  val eqb : z -> z -> bool

  val max : z -> z -> z

  val of_nat : nat -> z
 end

val nth_error : 'a1 list -> nat -> 'a1 option

val map : ('a1 -> 'a2) -> 'a1 list -> 'a2 list

val flat_map : ('a1 -> 'a2 list) -> 'a1 list -> 'a2 list

val fold_left : ('a1 -> 'a2 -> 'a1) -> 'a2 list -> 'a1 -> 'a1

val fold_right : ('a2 -> 'a1 -> 'a1) -> 'a1 -> 'a2 list -> 'a1

val existsb : ('a1 -> bool) -> 'a1 list -> bool

val filter : ('a1 -> bool) -> 'a1 list -> 'a1 list

val find : ('a1 -> bool) -> 'a1 list -> 'a1 option

val seq : nat -> nat -> nat list

val repeat : 'a1 -> nat -> 'a1 list

val upd : nat -> 'a1 -> 'a1 list -> 'a1 list

val c11_container_dunder_copy_is_copy : bool

val c11_container_dunder_deepcopy_returns_self_copy : bool

val c11_linker_dunder_copy_is_copy : bool

val c11_linker_dunder_deepcopy_returns_self_copy : bool

val c11_no_other_copy_entry_points : bool

type loc = nat

type val0 =
| VS of z
| VR of loc

type kind =
| KArr of z
| KList
| KDict
| KObj of z
| KCont of loc
| KClass

type obj = { okind : kind; ocells : (z * val0) list }

type heap = obj list

val cell_get : z -> (z * val0) list -> val0 option

val cell_set : z -> val0 -> (z * val0) list -> (z * val0) list

val enum_from : z -> val0 list -> (z * val0) list

val enum : val0 list -> (z * val0) list

val scal : z list -> val0 list

val mem_nat : nat -> nat list -> bool

val insert_cell : (z * val0) -> (z * val0) list -> (z * val0) list

val sort_cells : (z * val0) list -> (z * val0) list

val norm_cells : kind -> (z * val0) list -> (z * val0) list

val kEY_ATTRIBUTES : z

val scalar_of : val0 -> z

val sorted_values : (z * val0) list -> (z * val0) list

val dfs :
  nat -> heap -> (loc * z list) list -> (loc * z list) list -> (loc * z list)
  list

val count_cells : heap -> nat

val reach_paths : heap -> loc -> (loc * z list) list

val shared_paths : heap -> loc -> loc -> (z list * z list) list

val kind_code : kind -> z * z

type ctree =
| CS of z
| CO of (z * z) * (z * ctree) list
| CCut

val cview_ : nat -> heap -> bool -> val0 -> ctree

val cview : nat -> heap -> val0 -> ctree

val ctree_eqb : ctree -> ctree -> bool

type memo = (loc * loc) list

val memo_get : loc -> memo -> loc option

val copyable : kind -> bool

type dcres = ((heap * memo) * val0) option

val dc_cells :
  (heap -> memo -> val0 -> dcres) -> heap -> memo -> (z * val0) list ->
  ((heap * memo) * (z * val0) list) option

val dc : nat -> heap -> memo -> val0 -> dcres

val deepcopy : heap -> val0 -> (heap * val0) option

type path = z list

val resolve : heap -> loc -> path -> loc option

val class_of : heap -> loc -> loc option

val class_cell : heap -> loc -> z -> val0 option

type src =
| SScalar of z
| SFresh of kind * (z * z) list
| SDeep of path
| SDeepClass of z
| SClassScalar of z
| SAlias of path
| SClassRef of z
| SArg of loc

val eval_src : heap -> loc -> src -> (heap * val0) option

type action =
| ASet of path * z * src
| AAppend of path * src
| AReplace of path * z list

val positional : kind -> bool

val set_obj : heap -> loc -> obj -> heap

val run_action : heap -> loc -> action -> heap option

val run_actions : heap -> loc -> action list -> heap * bool

val attr_key : z -> z

val var_key : z -> z

val nm : z -> z

val n_span : z

val n_index : z

val n_strict : z

val n_attributes : z

val n_dtype : z

val n_status : z

val n_iterations : z

val n_names : z

val n_lags : z

val n_leads : z

val n_endogenous : z

val n_check : z

val n_engine : z

val n_aliases : z

val n_preferred : z

val n_trace : z

val n_submodels : z

val n_name : z

val n_LAGS_ : z

val n_LEADS_ : z

val n_values : z

val c_NAMES : z

val c_ENDOGENOUS : z

val c_CHECK : z

val c_LAGS : z

val c_LEADS : z

val c_ALIASES : z

val c_PREFERRED : z

val c_TRACE_VARIABLES : z

val f_MODEL : z

val f_ALIAS : z

val f_TRACER : z

val tAG_TRACE : z

val tAG_SET : z

val a : z -> z

val v : z -> z

val scalars_at : heap -> loc -> z list

val scalars_path : heap -> loc -> path -> z list

val class_scalar : heap -> loc -> z -> z

val class_list : heap -> loc -> z -> z list

val zmem : z -> z list -> bool

type consts = { k_status0 : z; k_iter0 : z; k_dt_status : z; k_dt_iter : 
                z; k_dt_obj : z; k_dt_float : z; k_false : z; k_engine : 
                z; k_default : z; k_linker_name : z; k_dt_trace_values : 
                z; k_pyfloat : z; k_single_memo : bool }

type iargs = { ia_span : src; ia_n : nat; ia_strict : z; ia_dtype : z;
               ia_adt : z; ia_default : z; ia_engine : z;
               ia_initial : (z * z list) list;
               ia_linker : (((src * z) * z) * z) option }

val assoc_get : z -> (z * 'a1) list -> 'a1 option

val pos_cells : z list -> (z * z) list

val new_arr : z -> z list -> src

val new_list : z list -> src

val add_attribute_acts : z -> src -> action list

val add_variable_acts : z -> z -> z list -> action list

val trace_cell_acts : path -> z -> src -> consts -> action list

val trace_init_acts : consts -> nat -> z -> action list

val init_actions : heap -> loc -> consts -> iargs -> action list

val new_instance : heap -> loc -> heap * loc

val init_M : heap -> loc -> consts -> iargs -> (heap * loc) * bool

val default_iargs : consts -> src -> nat -> iargs

val val_src : val0 -> src

val arr_len : heap -> loc -> path -> nat

val dc_entries : heap -> (z * val0) list -> (heap * (z * val0) list) option

val dc_entries1 : heap -> (z * val0) list -> (heap * (z * val0) list) option

val dc_entries_pol :
  bool -> heap -> (z * val0) list -> (heap * (z * val0) list) option

val dict_update : (z * val0) list -> (z * val0) list -> (z * val0) list

val has_key : z -> (z * val0) list -> bool

val keep_keys : (z * val0) list -> (z * val0) list -> (z * val0) list

val copy_M : consts -> heap -> loc -> (heap * loc) option

val max_class_scalar : heap -> (z * val0) list -> z -> z

val linker_iargs : heap -> consts -> loc -> z -> iargs

val copy_submodels :
  consts -> heap -> (z * val0) list -> (heap * (z * val0) list) option

val linker_name : consts -> obj -> z

val linker_copy_M : consts -> heap -> loc -> (heap * loc) option

val reindex_cells :
  heap -> (z * val0) list -> (z * z) list -> z -> nat list -> (heap * val0
  list) option

val reindex_vars :
  heap -> loc -> loc -> z list -> nat -> (z * z) list -> (z * z) list -> heap
  option

val reindex_M :
  consts -> heap -> loc -> src -> nat -> (z * z) list -> (z * z) list ->
  (heap * loc) option

val n_strict_prop : z

val resolve_alias : heap -> loc -> z -> z

val own_scalar : heap -> loc -> z -> z

val arr_dtype : heap -> loc -> path -> z

val has_cell : heap -> loc -> z -> bool

type tmode =
| TMNames
| TMClass
| TMUser of z list

type op =
| OSetItem of z * z * z
| OSetAttrSeq of z * z list
| OSetAttrScalar of z * z
| OAddVariable of z * z * z list
| OSetAttr of z * z
| OSetAttrList of z * z list
| OSetStrict of z
| OListAppend of z * z
| OListReplace of z * z list
| OListSetItem of z * z * z
| ODictSet of z * z * z
| OSolveWrites of z * (z * z) list
| OSolveStatus of z * z * z
| OTraceT of z * z * tmode * bool
| OSubSetItem of z * z * z * z
| OSubListAppend of z * z * z
| OSubStatus of z * z * z * z
| OPathAppend of path * z
| OAliasAttr of z * path
| OSetAttrNested of z * z list list
| OSetAttrSet of z * z list
| OSetAttrDict of z * (z * z) list
| OSetAttrDictOfLists of z * (z * z list) list
| OReplaceSeries of z * z list

val list_eqb : ('a1 -> 'a1 -> bool) -> 'a1 list -> 'a1 list -> bool

val is_empty_trace : heap -> loc -> z -> bool

val trace_names : heap -> loc -> tmode -> z list

val cell_scalar : heap -> loc -> path -> z -> z

val compile_op : consts -> heap -> loc -> op -> action list

type state = { sh : heap; sroots : loc list }

type event =
| EActs of nat * action list
| ECopy of nat
| ELinkerCopy of nat
| EInit of nat * iargs
| ELinkerInit of nat * (z * nat) list * z
| EReindex of nat * src * nat * (z * z) list * (z * z) list

val run_event : consts -> state -> event -> state

type fevent =
| FOp of nat * op
| FEv of event

val lower : consts -> state -> fevent -> event

val run_fevent : consts -> state -> fevent -> state

val root_views : state -> nat -> ctree list

val pairs_from : nat -> loc list -> (nat * loc) list

val sharing : state -> ((nat * nat) * (z list * z list) list) list

val solve_ops :
  z -> (z * z) list -> nat -> z -> z -> (((tmode * z) * z) * z) option -> op
  list

val linker_solve_ops :
  z -> (z * (z * z) list) list -> nat -> z -> z -> op list

type route =
| RCopy
| RCopyCopy
| RDeepCopy

val shallow_copy : heap -> loc -> (heap * loc) option

val generic_deepcopy : heap -> loc -> (heap * loc) option

val is_linker : heap -> loc -> bool

val the_copy : consts -> heap -> loc -> (heap * loc) option

val copy_by_route :
  bool -> bool -> bool -> route -> consts -> heap -> loc -> (heap * loc)
  option

val copy_route : route -> consts -> heap -> loc -> (heap * loc) option

type hevent =
| HCopyRoute of route * nat
| HOps of nat * op list
| HEv of event
| HCopySeries of nat * nat * z * z
| HAddVarFrom of nat * nat * z * z
| HInitFrom of nat * iargs * nat * z * z

val run_hevent : consts -> state -> hevent -> state

val run_hevents : consts -> state -> hevent list -> state

val path_eqb : z list -> z list -> bool

val share_eqb :
  ((nat * nat) * (z list * z list) list) -> ((nat * nat) * (z list * z list)
  list) -> bool

type kcase = { kc_consts : consts; kc_heap : heap; kc_roots : loc list;
               kc_events : hevent list; kc_depth : nat;
               kc_views : ctree list;
               kc_sharing : ((nat * nat) * (z list * z list) list) list }

val kcase_final : kcase -> state

val check_kcase : kcase -> bool
