
(** val negb : bool -> bool **)

let negb = function
| true -> false
| false -> true

type nat =
| O
| S of nat

(** val fst : ('a1 * 'a2) -> 'a1 **)

let fst = function
| (x, _) -> x

(** val snd : ('a1 * 'a2) -> 'a2 **)

let snd = function
| (_, y) -> y

(** val length : 'a1 list -> nat **)

let rec length = function
| [] -> O
| _ :: l' -> S (length l')

(** val app : 'a1 list -> 'a1 list -> 'a1 list **)

let rec app l m =
  match l with
  | [] -> m
  | a0 :: l1 -> a0 :: (app l1 m)

type comparison =
| Eq
| Lt
| Gt

(** val compOpp : comparison -> comparison **)

let compOpp = function
| Eq -> Eq
| Lt -> Gt
| Gt -> Lt

(** val add : nat -> nat -> nat **)

let rec add n m =
  match n with
  | O -> m
  | S p -> S (add p m)

type positive =
| XI of positive
| XO of positive
| XH

type z =
| Z0
| Zpos of positive
| Zneg of positive

module Nat =
 struct
  (** val eqb : nat -> nat -> bool **)

  let rec eqb n m =
    match n with
    | O -> (match m with
            | O -> true
            | S _ -> false)
    | S n' -> (match m with
               | O -> false
               | S m' -> eqb n' m')

  (** val leb : nat -> nat -> bool **)

  let rec leb n m =
    match n with
    | O -> true
    | S n' -> (match m with
               | O -> false
               | S m' -> leb n' m')

  (** val ltb : nat -> nat -> bool **)

  let ltb n m =
    leb (S n) m
 end

module Pos =
 struct
  (** val succ : positive -> positive **)

  let rec succ = function
  | XI p -> XO (succ p)
  | XO p -> XI p
  | XH -> XO XH

  (** val add : positive -> positive -> positive **)

  let rec add x y =
    match x with
    | XI p ->
      (match y with
       | XI q -> XO (add_carry p q)
       | XO q -> XI (add p q)
       | XH -> XO (succ p))
    | XO p ->
      (match y with
       | XI q -> XI (add p q)
       | XO q -> XO (add p q)
       | XH -> XI p)
    | XH -> (match y with
             | XI q -> XO (succ q)
             | XO q -> XI q
             | XH -> XO XH)

  (** val add_carry : positive -> positive -> positive **)

  and add_carry x y =
    match x with
    | XI p ->
      (match y with
       | XI q -> XI (add_carry p q)
       | XO q -> XO (add_carry p q)
       | XH -> XI (succ p))
    | XO p ->
      (match y with
       | XI q -> XO (add_carry p q)
       | XO q -> XI (add p q)
       | XH -> XO (succ p))
    | XH ->
      (match y with
       | XI q -> XI (succ q)
       | XO q -> XO (succ q)
       | XH -> XI XH)

  (** val pred_double : positive -> positive **)

  let rec pred_double = function
  | XI p -> XI (XO p)
  | XO p -> XI (pred_double p)
  | XH -> XH

  (** val mul : positive -> positive -> positive **)

  let rec mul x y =
    match x with
    | XI p -> add y (XO (mul p y))
    | XO p -> XO (mul p y)
    | XH -> y

  (** val compare_cont : comparison -> positive -> positive -> comparison **)

  let rec compare_cont r x y =
    match x with
    | XI p ->
      (match y with
       | XI q -> compare_cont r p q
       | XO q -> compare_cont Gt p q
       | XH -> Gt)
    | XO p ->
      (match y with
       | XI q -> compare_cont Lt p q
       | XO q -> compare_cont r p q
       | XH -> Gt)
    | XH -> (match y with
             | XH -> r
             | _ -> Lt)

  (** val compare : positive -> positive -> comparison **)

  let compare =
    compare_cont Eq

  (** val eqb : positive -> positive -> bool **)

  let rec eqb p q =
    match p with
    | XI p0 -> (match q with
                | XI q0 -> eqb p0 q0
                | _ -> false)
    | XO p0 -> (match q with
                | XO q0 -> eqb p0 q0
                | _ -> false)
    | XH -> (match q with
             | XH -> true
             | _ -> false)

  (** val of_succ_nat : nat -> positive **)

  let rec of_succ_nat = function
  | O -> XH
  | S x -> succ (of_succ_nat x)
 end

module Z =
 struct
  (** val double : z -> z **)

  let double = function
  | Z0 -> Z0
  | Zpos p -> Zpos (XO p)
  | Zneg p -> Zneg (XO p)

  (** val succ_double : z -> z **)

  let succ_double = function
  | Z0 -> Zpos XH
  | Zpos p -> Zpos (XI p)
  | Zneg p -> Zneg (Pos.pred_double p)

  (** val pred_double : z -> z **)

  let pred_double = function
  | Z0 -> Zneg XH
  | Zpos p -> Zpos (Pos.pred_double p)
  | Zneg p -> Zneg (XI p)

  (** val pos_sub : positive -> positive -> z **)

  let rec pos_sub x y =
    match x with
    | XI p ->
      (match y with
       | XI q -> double (pos_sub p q)
       | XO q -> succ_double (pos_sub p q)
       | XH -> Zpos (XO p))
    | XO p ->
      (match y with
       | XI q -> pred_double (pos_sub p q)
       | XO q -> double (pos_sub p q)
       | XH -> Zpos (Pos.pred_double p))
    | XH ->
      (match y with
       | XI q -> Zneg (XO q)
       | XO q -> Zneg (Pos.pred_double q)
       | XH -> Z0)

  (** val add : z -> z -> z **)

  let add x y =
    match x with
    | Z0 -> y
    | Zpos x' ->
      (match y with
       | Z0 -> x
       | Zpos y' -> Zpos (Pos.add x' y')
       | Zneg y' -> pos_sub x' y')
    | Zneg x' ->
      (match y with
       | Z0 -> x
       | Zpos y' -> pos_sub y' x'
       | Zneg y' -> Zneg (Pos.add x' y'))

  (** val mul : z -> z -> z **)

  let mul x y =
    match x with
    | Z0 -> Z0
    | Zpos x' ->
      (match y with
       | Z0 -> Z0
       | Zpos y' -> Zpos (Pos.mul x' y')
       | Zneg y' -> Zneg (Pos.mul x' y'))
    | Zneg x' ->
      (match y with
       | Z0 -> Z0
       | Zpos y' -> Zneg (Pos.mul x' y')
       | Zneg y' -> Zpos (Pos.mul x' y'))

  (** val compare : z -> z -> comparison **)

  let compare x y =
    match x with
    | Z0 -> (match y with
             | Z0 -> Eq
             | Zpos _ -> Lt
             | Zneg _ -> Gt)
    | Zpos x' -> (match y with
                  | Zpos y' -> Pos.compare x' y'
                  | _ -> Gt)
    | Zneg x' ->
      (match y with
       | Zneg y' -> compOpp (Pos.compare x' y')
       | _ -> Lt)

  (** val leb : z -> z -> bool **)

  let leb x y =
    match compare x y with
    | Gt -> false
    | _ -> true

  (** val eqb : z -> z -> bool **)

  let eqb x y =
    match x with
    | Z0 -> (match y with
             | Z0 -> true
             | _ -> false)
    | Zpos p -> (match y with
                 | Zpos q -> Pos.eqb p q
                 | _ -> false)
    | Zneg p -> (match y with
                 | Zneg q -> Pos.eqb p q
                 | _ -> false)

  (** val max : z -> z -> z **)

  let max n m =
    match compare n m with
    | Lt -> m
    | _ -> n

  (** val of_nat : nat -> z **)

  let of_nat = function
  | O -> Z0
  | S n0 -> Zpos (Pos.of_succ_nat n0)
 end

(** val nth_error : 'a1 list -> nat -> 'a1 option **)

let rec nth_error l = function
| O -> (match l with
        | [] -> None
        | x :: _ -> Some x)
| S n0 -> (match l with
           | [] -> None
           | _ :: l0 -> nth_error l0 n0)

(** val map : ('a1 -> 'a2) -> 'a1 list -> 'a2 list **)

let rec map f = function
| [] -> []
| a0 :: t -> (f a0) :: (map f t)

(** val flat_map : ('a1 -> 'a2 list) -> 'a1 list -> 'a2 list **)

let rec flat_map f = function
| [] -> []
| x :: t -> app (f x) (flat_map f t)

(** val fold_left : ('a1 -> 'a2 -> 'a1) -> 'a2 list -> 'a1 -> 'a1 **)

let rec fold_left f l a0 =
  match l with
  | [] -> a0
  | b :: t -> fold_left f t (f a0 b)

(** val fold_right : ('a2 -> 'a1 -> 'a1) -> 'a1 -> 'a2 list -> 'a1 **)

let rec fold_right f a0 = function
| [] -> a0
| b :: t -> f b (fold_right f a0 t)

(** val existsb : ('a1 -> bool) -> 'a1 list -> bool **)

let rec existsb f = function
| [] -> false
| a0 :: l0 -> (||) (f a0) (existsb f l0)

(** val filter : ('a1 -> bool) -> 'a1 list -> 'a1 list **)

let rec filter f = function
| [] -> []
| x :: l0 -> if f x then x :: (filter f l0) else filter f l0

(** val find : ('a1 -> bool) -> 'a1 list -> 'a1 option **)

let rec find f = function
| [] -> None
| x :: tl -> if f x then Some x else find f tl

(** val seq : nat -> nat -> nat list **)

let rec seq start = function
| O -> []
| S len0 -> start :: (seq (S start) len0)

(** val repeat : 'a1 -> nat -> 'a1 list **)

let rec repeat x = function
| O -> []
| S k -> x :: (repeat x k)

(** val upd : nat -> 'a1 -> 'a1 list -> 'a1 list **)

let rec upd i x = function
| [] -> []
| a0 :: r -> (match i with
              | O -> x :: r
              | S i' -> a0 :: (upd i' x r))

(** val c11_container_dunder_copy_is_copy : bool **)

let c11_container_dunder_copy_is_copy =
  true

(** val c11_container_dunder_deepcopy_returns_self_copy : bool **)

let c11_container_dunder_deepcopy_returns_self_copy =
  true

(** val c11_linker_dunder_copy_is_copy : bool **)

let c11_linker_dunder_copy_is_copy =
  true

(** val c11_linker_dunder_deepcopy_returns_self_copy : bool **)

let c11_linker_dunder_deepcopy_returns_self_copy =
  true

(** val c11_no_other_copy_entry_points : bool **)

let c11_no_other_copy_entry_points =
  true

type loc = nat

type val0 =
| VS of z
| VR of loc

type kind =
| KArr of z
| KList
| KDict
| KObj of z
| KCont of loc
| KClass

type obj = { okind : kind; ocells : (z * val0) list }

type heap = obj list

(** val cell_get : z -> (z * val0) list -> val0 option **)

let rec cell_get k = function
| [] -> None
| p :: r -> let (k', v0) = p in if Z.eqb k' k then Some v0 else cell_get k r

(** val cell_set : z -> val0 -> (z * val0) list -> (z * val0) list **)

let rec cell_set k v0 = function
| [] -> (k, v0) :: []
| p :: r ->
  let (k', v') = p in
  if Z.eqb k' k then (k', v0) :: r else (k', v') :: (cell_set k v0 r)

(** val enum_from : z -> val0 list -> (z * val0) list **)

let rec enum_from i = function
| [] -> []
| x :: r -> (i, x) :: (enum_from (Z.add i (Zpos XH)) r)

(** val enum : val0 list -> (z * val0) list **)

let enum xs =
  enum_from Z0 xs

(** val scal : z list -> val0 list **)

let scal zs =
  map (fun x -> VS x) zs

(** val mem_nat : nat -> nat list -> bool **)

let rec mem_nat x = function
| [] -> false
| y :: r -> (||) (Nat.eqb x y) (mem_nat x r)

(** val insert_cell : (z * val0) -> (z * val0) list -> (z * val0) list **)

let rec insert_cell c l = match l with
| [] -> c :: []
| d :: r -> if Z.leb (fst c) (fst d) then c :: l else d :: (insert_cell c r)

(** val sort_cells : (z * val0) list -> (z * val0) list **)

let sort_cells l =
  fold_right insert_cell [] l

(** val norm_cells : kind -> (z * val0) list -> (z * val0) list **)

let norm_cells k cs =
  match k with
  | KCont _ -> sort_cells cs
  | _ -> cs

(** val kEY_ATTRIBUTES : z **)

let kEY_ATTRIBUTES =
  Zpos (XO (XI (XI XH)))

(** val scalar_of : val0 -> z **)

let scalar_of = function
| VS z0 -> z0
| VR _ -> Z0

(** val sorted_values : (z * val0) list -> (z * val0) list **)

let sorted_values cs =
  enum
    (map (fun c -> VS (fst c))
      (sort_cells (map (fun c -> ((scalar_of (snd c)), (snd c))) cs)))

(** val dfs :
    nat -> heap -> (loc * z list) list -> (loc * z list) list -> (loc * z
    list) list **)

let rec dfs fuel h todo seen =
  match fuel with
  | O -> seen
  | S f ->
    (match todo with
     | [] -> seen
     | p0 :: rest ->
       let (l, p) = p0 in
       if mem_nat l (map fst seen)
       then dfs f h rest seen
       else (match nth_error h l with
             | Some o ->
               let kids =
                 flat_map (fun c ->
                   match snd c with
                   | VS _ -> []
                   | VR l' -> (l', (app p ((fst c) :: []))) :: [])
                   (norm_cells o.okind o.ocells)
               in
               dfs f h (app kids rest) (app seen ((l, p) :: []))
             | None -> dfs f h rest (app seen ((l, p) :: []))))

(** val count_cells : heap -> nat **)

let rec count_cells = function
| [] -> O
| o :: r -> add (S (length o.ocells)) (count_cells r)

(** val reach_paths : heap -> loc -> (loc * z list) list **)

let reach_paths h r =
  dfs (add (S (count_cells h)) (length h)) h ((r, []) :: []) []

(** val shared_paths : heap -> loc -> loc -> (z list * z list) list **)

let shared_paths h a0 b =
  let pb = reach_paths h b in
  flat_map (fun lp ->
    match find (fun lq -> Nat.eqb (fst lq) (fst lp)) pb with
    | Some lq -> ((snd lp), (snd lq)) :: []
    | None -> []) (reach_paths h a0)

(** val kind_code : kind -> z * z **)

let kind_code = function
| KArr d -> (Z0, d)
| KList -> ((Zpos XH), Z0)
| KDict -> ((Zpos (XO XH)), Z0)
| KObj t -> ((Zpos (XI XH)), t)
| KCont _ -> ((Zpos (XO (XO XH))), Z0)
| KClass -> ((Zpos (XI (XO XH))), Z0)

type ctree =
| CS of z
| CO of (z * z) * (z * ctree) list
| CCut

(** val cview_ : nat -> heap -> bool -> val0 -> ctree **)

let rec cview_ n h as_set = function
| VS z0 -> CS z0
| VR l ->
  (match n with
   | O -> CCut
   | S n' ->
     (match nth_error h l with
      | Some o ->
        let cs =
          if as_set
          then sorted_values o.ocells
          else norm_cells o.okind o.ocells
        in
        let attrs = match o.okind with
                    | KCont _ -> true
                    | _ -> false in
        CO ((kind_code o.okind),
        (map (fun c -> ((fst c),
          (cview_ n' h ((&&) attrs (Z.eqb (fst c) kEY_ATTRIBUTES)) (snd c))))
          cs))
      | None -> CCut))

(** val cview : nat -> heap -> val0 -> ctree **)

let cview n h v0 =
  cview_ n h false v0

(** val ctree_eqb : ctree -> ctree -> bool **)

let rec ctree_eqb a0 b =
  match a0 with
  | CS x -> (match b with
             | CS y -> Z.eqb x y
             | _ -> false)
  | CO (k1, c1) ->
    (match b with
     | CO (k2, c2) ->
       (&&) ((&&) (Z.eqb (fst k1) (fst k2)) (Z.eqb (snd k1) (snd k2)))
         (let rec go l1 l2 =
            match l1 with
            | [] -> (match l2 with
                     | [] -> true
                     | _ :: _ -> false)
            | p :: r1 ->
              let (ka, ta) = p in
              (match l2 with
               | [] -> false
               | p0 :: r2 ->
                 let (kb, tb) = p0 in
                 (&&) ((&&) (Z.eqb ka kb) (ctree_eqb ta tb)) (go r1 r2))
          in go c1 c2)
     | _ -> false)
  | CCut -> (match b with
             | CCut -> true
             | _ -> false)

type memo = (loc * loc) list

(** val memo_get : loc -> memo -> loc option **)

let rec memo_get l = function
| [] -> None
| p :: r -> let (a0, b) = p in if Nat.eqb a0 l then Some b else memo_get l r

(** val copyable : kind -> bool **)

let copyable = function
| KCont _ -> false
| KClass -> false
| _ -> true

type dcres = ((heap * memo) * val0) option

(** val dc_cells :
    (heap -> memo -> val0 -> dcres) -> heap -> memo -> (z * val0) list ->
    ((heap * memo) * (z * val0) list) option **)

let rec dc_cells rec0 h m = function
| [] -> Some ((h, m), [])
| p :: r ->
  let (k, w) = p in
  (match rec0 h m w with
   | Some p0 ->
     let (p1, w') = p0 in
     let (h1, m1) = p1 in
     (match dc_cells rec0 h1 m1 r with
      | Some p2 -> let (p3, r') = p2 in Some (p3, ((k, w') :: r'))
      | None -> None)
   | None -> None)

(** val dc : nat -> heap -> memo -> val0 -> dcres **)

let rec dc fuel h m = function
| VS z0 -> Some ((h, m), (VS z0))
| VR l ->
  (match memo_get l m with
   | Some l' -> Some ((h, m), (VR l'))
   | None ->
     (match fuel with
      | O -> None
      | S f ->
        (match nth_error h l with
         | Some o ->
           if copyable o.okind
           then (match dc_cells (dc f) h m o.ocells with
                 | Some p ->
                   let (p0, cs') = p in
                   let (h', m') = p0 in
                   Some (((app h' ({ okind = o.okind; ocells = cs' } :: [])),
                   ((l, (length h')) :: m')), (VR (length h')))
                 | None -> None)
           else None
         | None -> None)))

(** val deepcopy : heap -> val0 -> (heap * val0) option **)

let deepcopy h v0 =
  match dc (S (length h)) h [] v0 with
  | Some p -> let (p0, v') = p in let (h', _) = p0 in Some (h', v')
  | None -> None

type path = z list

(** val resolve : heap -> loc -> path -> loc option **)

let rec resolve h l = function
| [] -> Some l
| k :: p' ->
  (match nth_error h l with
   | Some o ->
     (match cell_get k o.ocells with
      | Some v0 -> (match v0 with
                    | VS _ -> None
                    | VR l' -> resolve h l' p')
      | None -> None)
   | None -> None)

(** val class_of : heap -> loc -> loc option **)

let class_of h r =
  match nth_error h r with
  | Some o -> (match o.okind with
               | KCont c -> Some c
               | _ -> None)
  | None -> None

(** val class_cell : heap -> loc -> z -> val0 option **)

let class_cell h r a0 =
  match class_of h r with
  | Some c ->
    (match nth_error h c with
     | Some o -> cell_get a0 o.ocells
     | None -> None)
  | None -> None

type src =
| SScalar of z
| SFresh of kind * (z * z) list
| SDeep of path
| SDeepClass of z
| SClassScalar of z
| SAlias of path
| SClassRef of z
| SArg of loc

(** val eval_src : heap -> loc -> src -> (heap * val0) option **)

let eval_src h r = function
| SScalar z0 -> Some (h, (VS z0))
| SFresh (k, cells) ->
  Some
    ((app h ({ okind = k; ocells =
       (map (fun c -> ((fst c), (VS (snd c)))) cells) } :: [])), (VR
    (length h)))
| SDeep p ->
  (match resolve h r p with
   | Some l -> deepcopy h (VR l)
   | None -> None)
| SDeepClass a0 ->
  (match class_cell h r a0 with
   | Some v0 -> deepcopy h v0
   | None -> None)
| SClassScalar a0 ->
  (match class_cell h r a0 with
   | Some v0 -> (match v0 with
                 | VS z0 -> Some (h, (VS z0))
                 | VR _ -> None)
   | None -> None)
| SAlias p ->
  (match resolve h r p with
   | Some l -> Some (h, (VR l))
   | None -> None)
| SClassRef a0 ->
  (match class_cell h r a0 with
   | Some v0 -> Some (h, v0)
   | None -> None)
| SArg l -> Some (h, (VR l))

type action =
| ASet of path * z * src
| AAppend of path * src
| AReplace of path * z list

(** val positional : kind -> bool **)

let positional = function
| KArr _ -> true
| KList -> true
| _ -> false

(** val set_obj : heap -> loc -> obj -> heap **)

let set_obj h l o =
  upd l o h

(** val run_action : heap -> loc -> action -> heap option **)

let run_action h r = function
| ASet (p, k, s) ->
  (match eval_src h r s with
   | Some p0 ->
     let (h1, v0) = p0 in
     (match resolve h1 r p with
      | Some lt ->
        (match nth_error h1 lt with
         | Some o ->
           if (&&) (positional o.okind)
                (match cell_get k o.ocells with
                 | Some _ -> false
                 | None -> true)
           then None
           else Some
                  (set_obj h1 lt { okind = o.okind; ocells =
                    (cell_set k v0 o.ocells) })
         | None -> None)
      | None -> None)
   | None -> None)
| AAppend (p, s) ->
  (match eval_src h r s with
   | Some p0 ->
     let (h1, v0) = p0 in
     (match resolve h1 r p with
      | Some lt ->
        (match nth_error h1 lt with
         | Some o ->
           (match o.okind with
            | KList ->
              Some
                (set_obj h1 lt { okind = KList; ocells =
                  (app o.ocells (((Z.of_nat (length o.ocells)), v0) :: [])) })
            | _ -> None)
         | None -> None)
      | None -> None)
   | None -> None)
| AReplace (p, cells) ->
  (match resolve h r p with
   | Some lt ->
     (match nth_error h lt with
      | Some o ->
        if positional o.okind
        then Some
               (set_obj h lt { okind = o.okind; ocells =
                 (enum (scal cells)) })
        else None
      | None -> None)
   | None -> None)

(** val run_actions : heap -> loc -> action list -> heap * bool **)

let rec run_actions h r = function
| [] -> (h, true)
| a0 :: rest ->
  (match run_action h r a0 with
   | Some h1 -> run_actions h1 r rest
   | None -> (h, false))

(** val attr_key : z -> z **)

let attr_key c =
  Z.mul (Zpos (XO XH)) c

(** val var_key : z -> z **)

let var_key c =
  Z.add (Z.mul (Zpos (XO XH)) c) (Zpos XH)

(** val nm : z -> z **)

let nm i =
  Z.add (Z.mul (Zpos (XO XH)) i) (Zpos XH)

(** val n_span : z **)

let n_span =
  nm Z0

(** val n_index : z **)

let n_index =
  nm (Zpos XH)

(** val n_strict : z **)

let n_strict =
  nm (Zpos (XO XH))

(** val n_attributes : z **)

let n_attributes =
  nm (Zpos (XI XH))

(** val n_dtype : z **)

let n_dtype =
  nm (Zpos (XO (XO XH)))

(** val n_status : z **)

let n_status =
  nm (Zpos (XI (XO XH)))

(** val n_iterations : z **)

let n_iterations =
  nm (Zpos (XO (XI XH)))

(** val n_names : z **)

let n_names =
  nm (Zpos (XI (XI XH)))

(** val n_lags : z **)

let n_lags =
  nm (Zpos (XO (XO (XO XH))))

(** val n_leads : z **)

let n_leads =
  nm (Zpos (XI (XO (XO XH))))

(** val n_endogenous : z **)

let n_endogenous =
  nm (Zpos (XO (XI (XO XH))))

(** val n_check : z **)

let n_check =
  nm (Zpos (XI (XI (XO XH))))

(** val n_engine : z **)

let n_engine =
  nm (Zpos (XO (XO (XI XH))))

(** val n_aliases : z **)

let n_aliases =
  nm (Zpos (XI (XO (XI XH))))

(** val n_preferred : z **)

let n_preferred =
  nm (Zpos (XO (XI (XI XH))))

(** val n_trace : z **)

let n_trace =
  nm (Zpos (XI (XI (XI XH))))

(** val n_submodels : z **)

let n_submodels =
  nm (Zpos (XO (XO (XO (XO XH)))))

(** val n_name : z **)

let n_name =
  nm (Zpos (XI (XO (XO (XO XH)))))

(** val n_LAGS_ : z **)

let n_LAGS_ =
  nm (Zpos (XO (XI (XO (XO XH)))))

(** val n_LEADS_ : z **)

let n_LEADS_ =
  nm (Zpos (XI (XI (XO (XO XH)))))

(** val n_values : z **)

let n_values =
  nm (Zpos (XO (XO (XI (XO XH)))))

(** val c_NAMES : z **)

let c_NAMES =
  nm (Zpos (XI (XO (XI (XO XH)))))

(** val c_ENDOGENOUS : z **)

let c_ENDOGENOUS =
  nm (Zpos (XO (XI (XI (XO XH)))))

(** val c_CHECK : z **)

let c_CHECK =
  nm (Zpos (XI (XI (XI (XO XH)))))

(** val c_LAGS : z **)

let c_LAGS =
  nm (Zpos (XO (XO (XO (XI XH)))))

(** val c_LEADS : z **)

let c_LEADS =
  nm (Zpos (XI (XO (XO (XI XH)))))

(** val c_ALIASES : z **)

let c_ALIASES =
  nm (Zpos (XO (XI (XO (XI XH)))))

(** val c_PREFERRED : z **)

let c_PREFERRED =
  nm (Zpos (XI (XI (XO (XI XH)))))

(** val c_TRACE_VARIABLES : z **)

let c_TRACE_VARIABLES =
  nm (Zpos (XO (XO (XI (XI XH)))))

(** val f_MODEL : z **)

let f_MODEL =
  nm (Zpos (XO (XI (XI (XI XH)))))

(** val f_ALIAS : z **)

let f_ALIAS =
  nm (Zpos (XI (XI (XI (XI XH)))))

(** val f_TRACER : z **)

let f_TRACER =
  nm (Zpos (XO (XO (XO (XO (XO XH))))))

(** val tAG_TRACE : z **)

let tAG_TRACE =
  Zpos XH

(** val tAG_SET : z **)

let tAG_SET =
  Zpos (XO XH)

(** val a : z -> z **)

let a =
  attr_key

(** val v : z -> z **)

let v =
  var_key

(** val scalars_at : heap -> loc -> z list **)

let scalars_at h l =
  match nth_error h l with
  | Some o ->
    flat_map (fun c -> match snd c with
                       | VS z0 -> z0 :: []
                       | VR _ -> []) o.ocells
  | None -> []

(** val scalars_path : heap -> loc -> path -> z list **)

let scalars_path h r p =
  match resolve h r p with
  | Some l -> scalars_at h l
  | None -> []

(** val class_scalar : heap -> loc -> z -> z **)

let class_scalar h c a0 =
  match nth_error h c with
  | Some o ->
    (match cell_get (a a0) o.ocells with
     | Some v0 -> (match v0 with
                   | VS z0 -> z0
                   | VR _ -> Z0)
     | None -> Z0)
  | None -> Z0

(** val class_list : heap -> loc -> z -> z list **)

let class_list h c a0 =
  match nth_error h c with
  | Some o ->
    (match cell_get (a a0) o.ocells with
     | Some v0 -> (match v0 with
                   | VS _ -> []
                   | VR l -> scalars_at h l)
     | None -> [])
  | None -> []

(** val zmem : z -> z list -> bool **)

let zmem x l =
  existsb (Z.eqb x) l

type consts = { k_status0 : z; k_iter0 : z; k_dt_status : z; k_dt_iter : 
                z; k_dt_obj : z; k_dt_float : z; k_false : z; k_engine : 
                z; k_default : z; k_linker_name : z; k_dt_trace_values : 
                z; k_pyfloat : z; k_single_memo : bool }

type iargs = { ia_span : src; ia_n : nat; ia_strict : z; ia_dtype : z;
               ia_adt : z; ia_default : z; ia_engine : z;
               ia_initial : (z * z list) list;
               ia_linker : (((src * z) * z) * z) option }

(** val assoc_get : z -> (z * 'a1) list -> 'a1 option **)

let rec assoc_get k = function
| [] -> None
| p :: r -> let (k', v0) = p in if Z.eqb k' k then Some v0 else assoc_get k r

(** val pos_cells : z list -> (z * z) list **)

let pos_cells zs =
  let rec go i = function
  | [] -> []
  | x :: r -> (i, x) :: (go (Z.add i (Zpos XH)) r)
  in go Z0 zs

(** val new_arr : z -> z list -> src **)

let new_arr dt zs =
  SFresh ((KArr dt), (pos_cells zs))

(** val new_list : z list -> src **)

let new_list zs =
  SFresh (KList, (pos_cells zs))

(** val add_attribute_acts : z -> src -> action list **)

let add_attribute_acts name s =
  (ASet ([], (a name), s)) :: ((AAppend (((a n_attributes) :: []), (SScalar
    name))) :: [])

(** val add_variable_acts : z -> z -> z list -> action list **)

let add_variable_acts name dt zs =
  (ASet ([], (v name), (new_arr dt zs))) :: ((AAppend (((a n_index) :: []),
    (SScalar name))) :: [])

(** val trace_cell_acts : path -> z -> src -> consts -> action list **)

let trace_cell_acts arr t names k =
  (ASet (arr, t, (SFresh ((KObj tAG_TRACE), [])))) :: ((ASet
    ((app arr (t :: [])), (a n_names), names)) :: ((ASet
    ((app arr (t :: [])), (a n_index), (new_list []))) :: ((ASet
    ((app arr (t :: [])), (a n_values),
    (new_arr k.k_dt_trace_values []))) :: [])))

(** val trace_init_acts : consts -> nat -> z -> action list **)

let rec trace_init_acts k n t =
  match n with
  | O -> []
  | S n' ->
    app (trace_cell_acts ((v n_trace) :: []) t (new_list []) k)
      (trace_init_acts k n' (Z.add t (Zpos XH)))

(** val init_actions : heap -> loc -> consts -> iargs -> action list **)

let init_actions h c k a0 =
  let model = class_scalar h c f_MODEL in
  let alias = class_scalar h c f_ALIAS in
  let tracer = class_scalar h c f_TRACER in
  let names = class_list h c c_NAMES in
  app
    (if Z.eqb alias (Zpos XH)
     then (ASet ([], (a n_aliases), (SDeepClass (a c_ALIASES)))) :: ((ASet
            ([], (a n_preferred), (SDeepClass (a c_PREFERRED)))) :: [])
     else [])
    (app
      (match a0.ia_linker with
       | Some p ->
         let (p0, ld) = p in
         let (p1, lg) = p0 in
         let (sub, name) = p1 in
         (ASet ([], (a n_submodels), sub)) :: ((ASet ([], (a n_name),
         (SScalar name))) :: ((ASet ([], (a n_LAGS_), (SScalar
         lg))) :: ((ASet ([], (a n_LEADS_), (SScalar ld))) :: [])))
       | None -> [])
      (app ((ASet ([], (a n_span), a0.ia_span)) :: ((ASet ([], (a n_index),
        (new_list []))) :: ((ASet ([], (a n_strict), (SScalar
        a0.ia_strict))) :: ((ASet ([], (a n_attributes),
        (new_list (n_attributes :: (n_span :: (n_index :: (n_strict :: []))))))) :: []))))
        (app
          (if Z.eqb model Z0
           then []
           else app (add_attribute_acts n_dtype (SScalar a0.ia_dtype))
                  (app
                    (add_variable_acts n_status k.k_dt_status
                      (repeat k.k_status0 a0.ia_n))
                    (app
                      (add_variable_acts n_iterations k.k_dt_iter
                        (repeat k.k_iter0 a0.ia_n))
                      (app
                        (add_attribute_acts n_names (SDeepClass (a c_NAMES)))
                        (app
                          (flat_map (fun x ->
                            add_variable_acts x a0.ia_adt
                              (match assoc_get x a0.ia_initial with
                               | Some zs -> zs
                               | None -> repeat a0.ia_default a0.ia_n)) names)
                          (app
                            (add_attribute_acts n_lags
                              (match a0.ia_linker with
                               | Some p ->
                                 let (p0, _) = p in
                                 let (_, lg) = p0 in SScalar lg
                               | None -> SClassScalar (a c_LAGS)))
                            (app
                              (add_attribute_acts n_leads
                                (match a0.ia_linker with
                                 | Some p -> let (_, ld) = p in SScalar ld
                                 | None -> SClassScalar (a c_LEADS)))
                              (app
                                (add_attribute_acts n_endogenous (SDeepClass
                                  (a c_ENDOGENOUS)))
                                (app
                                  (add_attribute_acts n_check (SDeepClass
                                    (a c_CHECK)))
                                  (if Z.eqb model (Zpos XH)
                                   then add_attribute_acts n_engine (SScalar
                                          a0.ia_engine)
                                   else []))))))))))
          (if Z.eqb tracer (Zpos XH)
           then app ((AAppend (((a n_index) :: []), (SScalar
                  n_trace))) :: ((ASet ([], (v n_trace),
                  (new_arr k.k_dt_obj (repeat Z0 a0.ia_n)))) :: []))
                  (trace_init_acts k a0.ia_n Z0)
           else []))))

(** val new_instance : heap -> loc -> heap * loc **)

let new_instance h c =
  ((app h ({ okind = (KCont c); ocells = [] } :: [])), (length h))

(** val init_M : heap -> loc -> consts -> iargs -> (heap * loc) * bool **)

let init_M h c k a0 =
  let h0 = fst (new_instance h c) in
  let r = snd (new_instance h c) in
  let res = run_actions h0 r (init_actions h0 c k a0) in
  (((fst res), r), (snd res))

(** val default_iargs : consts -> src -> nat -> iargs **)

let default_iargs k span n =
  { ia_span = span; ia_n = n; ia_strict = k.k_false; ia_dtype = k.k_pyfloat;
    ia_adt = k.k_dt_float; ia_default = k.k_default; ia_engine = k.k_engine;
    ia_initial = []; ia_linker = None }

(** val val_src : val0 -> src **)

let val_src = function
| VS z0 -> SScalar z0
| VR l -> SArg l

(** val arr_len : heap -> loc -> path -> nat **)

let arr_len h r p =
  match resolve h r p with
  | Some l -> (match nth_error h l with
               | Some o -> length o.ocells
               | None -> O)
  | None -> O

(** val dc_entries :
    heap -> (z * val0) list -> (heap * (z * val0) list) option **)

let rec dc_entries h = function
| [] -> Some (h, [])
| p :: r ->
  let (k, v0) = p in
  (match deepcopy h v0 with
   | Some p0 ->
     let (h1, v') = p0 in
     (match dc_entries h1 r with
      | Some p1 -> let (h2, r') = p1 in Some (h2, ((k, v') :: r'))
      | None -> None)
   | None -> None)

(** val dc_entries1 :
    heap -> (z * val0) list -> (heap * (z * val0) list) option **)

let dc_entries1 h cs =
  match dc_cells (dc (S (length h))) h [] cs with
  | Some p -> let (p0, cs') = p in let (h', _) = p0 in Some (h', cs')
  | None -> None

(** val dc_entries_pol :
    bool -> heap -> (z * val0) list -> (heap * (z * val0) list) option **)

let dc_entries_pol single h cs =
  if single then dc_entries1 h cs else dc_entries h cs

(** val dict_update :
    (z * val0) list -> (z * val0) list -> (z * val0) list **)

let dict_update cs new0 =
  fold_left (fun acc kv -> cell_set (fst kv) (snd kv) acc) new0 cs

(** val has_key : z -> (z * val0) list -> bool **)

let has_key k cs =
  match cell_get k cs with
  | Some _ -> true
  | None -> false

(** val keep_keys : (z * val0) list -> (z * val0) list -> (z * val0) list **)

let keep_keys orig cs =
  filter (fun kv -> has_key (fst kv) orig) cs

(** val copy_M : consts -> heap -> loc -> (heap * loc) option **)

let copy_M k h r =
  match nth_error h r with
  | Some o ->
    (match o.okind with
     | KCont c ->
       (match cell_get (a n_span) o.ocells with
        | Some sp ->
          (match deepcopy h sp with
           | Some p ->
             let (h1, sp') = p in
             let n = arr_len h r ((v n_status) :: []) in
             let i = init_M h1 c k (default_iargs k (val_src sp') n) in
             if snd i
             then (match dc_entries_pol k.k_single_memo (fst (fst i)) o.ocells with
                   | Some p0 ->
                     let (h3, cs') = p0 in
                     (match nth_error h3 (snd (fst i)) with
                      | Some o' ->
                        Some
                          ((set_obj h3 (snd (fst i)) { okind = o'.okind;
                             ocells =
                             (keep_keys o.ocells (dict_update o'.ocells cs')) }),
                          (snd (fst i)))
                      | None -> None)
                   | None -> None)
             else None
           | None -> None)
        | None -> None)
     | _ -> None)
  | None -> None

(** val max_class_scalar : heap -> (z * val0) list -> z -> z **)

let max_class_scalar h d a0 =
  fold_left (fun acc kv ->
    match snd kv with
    | VS _ -> acc
    | VR l ->
      (match class_of h l with
       | Some c -> Z.max acc (class_scalar h c a0)
       | None -> acc)) d Z0

(** val linker_iargs : heap -> consts -> loc -> z -> iargs **)

let linker_iargs h k d name =
  match nth_error h d with
  | Some od ->
    (match od.ocells with
     | [] ->
       { ia_span = (new_list []); ia_n = O; ia_strict = k.k_false; ia_dtype =
         k.k_pyfloat; ia_adt = k.k_dt_float; ia_default = k.k_default;
         ia_engine = k.k_engine; ia_initial = []; ia_linker = (Some ((((SArg
         d), name), Z0), Z0)) }
     | p :: _ ->
       let (k0, v0) = p in
       (match v0 with
        | VS _ ->
          { ia_span = (new_list []); ia_n = O; ia_strict = k.k_false;
            ia_dtype = k.k_pyfloat; ia_adt = k.k_dt_float; ia_default =
            k.k_default; ia_engine = k.k_engine; ia_initial = []; ia_linker =
            (Some ((((SArg d), name), Z0), Z0)) }
        | VR b ->
          let sp =
            match nth_error h b with
            | Some ob ->
              (match cell_get (a n_span) ob.ocells with
               | Some v1 ->
                 (match v1 with
                  | VS z0 -> SScalar z0
                  | VR _ ->
                    SDeep ((a n_submodels) :: (k0 :: ((a n_span) :: []))))
               | None -> SDeep ((a n_submodels) :: (k0 :: ((a n_span) :: []))))
            | None -> SScalar Z0
          in
          { ia_span = sp; ia_n = (arr_len h b ((v n_status) :: []));
          ia_strict = k.k_false; ia_dtype = k.k_pyfloat; ia_adt =
          k.k_dt_float; ia_default = k.k_default; ia_engine = k.k_engine;
          ia_initial = []; ia_linker = (Some ((((SArg d), name),
          (max_class_scalar h od.ocells c_LAGS)),
          (max_class_scalar h od.ocells c_LEADS))) }))
  | None ->
    { ia_span = (new_list []); ia_n = O; ia_strict = k.k_false; ia_dtype =
      k.k_pyfloat; ia_adt = k.k_dt_float; ia_default = k.k_default;
      ia_engine = k.k_engine; ia_initial = []; ia_linker = (Some ((((SArg d),
      name), Z0), Z0)) }

(** val copy_submodels :
    consts -> heap -> (z * val0) list -> (heap * (z * val0) list) option **)

let rec copy_submodels k h = function
| [] -> Some (h, [])
| p :: r ->
  let (k0, v0) = p in
  (match v0 with
   | VS _ -> None
   | VR l ->
     (match copy_M k h l with
      | Some p0 ->
        let (h1, l') = p0 in
        (match copy_submodels k h1 r with
         | Some p1 -> let (h2, r') = p1 in Some (h2, ((k0, (VR l')) :: r'))
         | None -> None)
      | None -> None))

(** val linker_name : consts -> obj -> z **)

let linker_name k o =
  match cell_get (a n_name) o.ocells with
  | Some v0 -> (match v0 with
                | VS z0 -> z0
                | VR _ -> k.k_linker_name)
  | None -> k.k_linker_name

(** val linker_copy_M : consts -> heap -> loc -> (heap * loc) option **)

let linker_copy_M k h r =
  match nth_error h r with
  | Some o ->
    (match o.okind with
     | KCont c ->
       (match cell_get (a n_submodels) o.ocells with
        | Some v0 ->
          (match v0 with
           | VS _ -> None
           | VR d ->
             (match nth_error h d with
              | Some od ->
                (match copy_submodels k h od.ocells with
                 | Some p ->
                   let (h1, cs') = p in
                   let d' = length h1 in
                   let h2 = app h1 ({ okind = KDict; ocells = cs' } :: []) in
                   let nme = linker_name k o in
                   let i = init_M h2 c k (linker_iargs h2 k d' nme) in
                   if has_key nme cs'
                   then None
                   else if snd i
                        then (match dc_entries_pol k.k_single_memo
                                      (fst (fst i))
                                      (filter (fun kv ->
                                        negb (Z.eqb (fst kv) (a n_submodels)))
                                        o.ocells) with
                              | Some p0 ->
                                let (h3, es) = p0 in
                                (match nth_error h3 (snd (fst i)) with
                                 | Some o' ->
                                   Some
                                     ((set_obj h3 (snd (fst i)) { okind =
                                        o'.okind; ocells =
                                        (keep_keys o.ocells
                                          (dict_update o'.ocells es)) }),
                                     (snd (fst i)))
                                 | None -> None)
                              | None -> None)
                        else None
                 | None -> None)
              | None -> None))
        | None -> None)
     | _ -> None)
  | None -> None

(** val reindex_cells :
    heap -> (z * val0) list -> (z * z) list -> z -> nat list -> (heap * val0
    list) option **)

let rec reindex_cells h old_cells positions fill = function
| [] -> Some (h, [])
| i :: rest ->
  let v0 =
    match assoc_get (Z.of_nat i) positions with
    | Some old ->
      (match cell_get old old_cells with
       | Some v0 -> v0
       | None -> VS fill)
    | None -> VS fill
  in
  (match deepcopy h v0 with
   | Some p ->
     let (h1, v') = p in
     (match reindex_cells h1 old_cells positions fill rest with
      | Some p0 -> let (h2, vs) = p0 in Some (h2, (v' :: vs))
      | None -> None)
   | None -> None)

(** val reindex_vars :
    heap -> loc -> loc -> z list -> nat -> (z * z) list -> (z * z) list ->
    heap option **)

let rec reindex_vars h r r' names n' positions fills =
  match names with
  | [] -> Some h
  | x :: rest ->
    (match resolve h r ((v x) :: []) with
     | Some la ->
       (match nth_error h la with
        | Some oa ->
          let fill = match assoc_get x fills with
                     | Some f -> f
                     | None -> Z0 in
          (match reindex_cells h oa.ocells positions fill (seq O n') with
           | Some p ->
             let (h0, cells) = p in
             let lnew = length h0 in
             let h1 =
               app h0 ({ okind = oa.okind; ocells = (enum cells) } :: [])
             in
             (match nth_error h1 r' with
              | Some o' ->
                reindex_vars
                  (set_obj h1 r' { okind = o'.okind; ocells =
                    (cell_set (v x) (VR lnew) o'.ocells) }) r r' rest n'
                  positions fills
              | None -> None)
           | None -> None)
        | None -> None)
     | None -> None)

(** val reindex_M :
    consts -> heap -> loc -> src -> nat -> (z * z) list -> (z * z) list ->
    (heap * loc) option **)

let reindex_M k h r span n' positions fills =
  match copy_M k h r with
  | Some p ->
    let (h1, r') = p in
    (match eval_src h1 r' span with
     | Some p0 ->
       let (ha, v0) = p0 in
       (match deepcopy ha v0 with
        | Some p1 ->
          let (hb, v') = p1 in
          (match run_action hb r' (ASet ([], (a n_span), (val_src v'))) with
           | Some h2 ->
             (match reindex_vars h2 r r'
                      (scalars_path h2 r' ((a n_index) :: [])) n' positions
                      fills with
              | Some h3 -> Some (h3, r')
              | None -> None)
           | None -> None)
        | None -> None)
     | None -> None)
  | None -> None

(** val n_strict_prop : z **)

let n_strict_prop =
  nm (Zpos (XI (XO (XO (XO (XO XH))))))

(** val resolve_alias : heap -> loc -> z -> z **)

let resolve_alias h r name =
  match nth_error h r with
  | Some o ->
    (match cell_get (a n_aliases) o.ocells with
     | Some v0 ->
       (match v0 with
        | VS _ -> name
        | VR d ->
          (match nth_error h d with
           | Some od ->
             (match cell_get name od.ocells with
              | Some v1 -> (match v1 with
                            | VS t -> t
                            | VR _ -> name)
              | None -> name)
           | None -> name))
     | None -> name)
  | None -> name

(** val own_scalar : heap -> loc -> z -> z **)

let own_scalar h r k =
  match nth_error h r with
  | Some o ->
    (match cell_get k o.ocells with
     | Some v0 -> (match v0 with
                   | VS z0 -> z0
                   | VR _ -> Z0)
     | None -> Z0)
  | None -> Z0

(** val arr_dtype : heap -> loc -> path -> z **)

let arr_dtype h r p =
  match resolve h r p with
  | Some l ->
    (match nth_error h l with
     | Some o -> (match o.okind with
                  | KArr d -> d
                  | _ -> Z0)
     | None -> Z0)
  | None -> Z0

(** val has_cell : heap -> loc -> z -> bool **)

let has_cell h r k =
  match nth_error h r with
  | Some o -> (match cell_get k o.ocells with
               | Some _ -> true
               | None -> false)
  | None -> false

type tmode =
| TMNames
| TMClass
| TMUser of z list

type op =
| OSetItem of z * z * z
| OSetAttrSeq of z * z list
| OSetAttrScalar of z * z
| OAddVariable of z * z * z list
| OSetAttr of z * z
| OSetAttrList of z * z list
| OSetStrict of z
| OListAppend of z * z
| OListReplace of z * z list
| OListSetItem of z * z * z
| ODictSet of z * z * z
| OSolveWrites of z * (z * z) list
| OSolveStatus of z * z * z
| OTraceT of z * z * tmode * bool
| OSubSetItem of z * z * z * z
| OSubListAppend of z * z * z
| OSubStatus of z * z * z * z
| OPathAppend of path * z
| OAliasAttr of z * path
| OSetAttrNested of z * z list list
| OSetAttrSet of z * z list
| OSetAttrDict of z * (z * z) list
| OSetAttrDictOfLists of z * (z * z list) list
| OReplaceSeries of z * z list

(** val list_eqb : ('a1 -> 'a1 -> bool) -> 'a1 list -> 'a1 list -> bool **)

let rec list_eqb eqb0 a0 b =
  match a0 with
  | [] -> (match b with
           | [] -> true
           | _ :: _ -> false)
  | x :: r ->
    (match b with
     | [] -> false
     | y :: q -> (&&) (eqb0 x y) (list_eqb eqb0 r q))

(** val is_empty_trace : heap -> loc -> z -> bool **)

let is_empty_trace h r t =
  Nat.eqb (arr_len h r ((v n_trace) :: (t :: ((a n_values) :: [])))) O

(** val trace_names : heap -> loc -> tmode -> z list **)

let trace_names h r = function
| TMNames -> scalars_path h r ((a n_names) :: [])
| TMClass ->
  (match class_of h r with
   | Some c -> class_list h c c_TRACE_VARIABLES
   | None -> [])
| TMUser vs -> vs

(** val cell_scalar : heap -> loc -> path -> z -> z **)

let cell_scalar h r p k =
  match resolve h r p with
  | Some l ->
    (match nth_error h l with
     | Some o ->
       (match cell_get k o.ocells with
        | Some v0 -> (match v0 with
                      | VS z0 -> z0
                      | VR _ -> Z0)
        | None -> Z0)
     | None -> Z0)
  | None -> Z0

(** val compile_op : consts -> heap -> loc -> op -> action list **)

let compile_op k h r = function
| OSetItem (name, pos, v0) ->
  (ASet (((v (resolve_alias h r name)) :: []), pos, (SScalar v0))) :: []
| OSetAttrSeq (name, vs) ->
  let x = resolve_alias h r name in
  if zmem x (scalars_path h r ((a n_index) :: []))
  then if Nat.eqb (length vs) (arr_len h r ((v x) :: []))
       then (ASet ([], (v x),
              (new_arr (arr_dtype h r ((v x) :: [])) vs))) :: []
       else []
  else []
| OSetAttrScalar (name, v0) ->
  let x = resolve_alias h r name in
  if zmem x (scalars_path h r ((a n_index) :: []))
  then (AReplace (((v x) :: []),
         (repeat v0 (arr_len h r ((v x) :: []))))) :: []
  else []
| OAddVariable (name, dt, vs) ->
  if zmem name (scalars_path h r ((a n_index) :: []))
  then []
  else if has_cell h r (v name)
       then []
       else app (add_variable_acts name dt vs)
              (if has_cell h r (a n_names)
               then (AAppend (((a n_names) :: []), (SScalar name))) :: []
               else [])
| OSetAttr (name, v0) ->
  let x = resolve_alias h r name in
  if zmem x (scalars_path h r ((a n_index) :: []))
  then []
  else if zmem x (scalars_path h r ((a n_attributes) :: []))
       then (ASet ([], (a x), (SScalar v0))) :: []
       else if Z.eqb (own_scalar h r (a n_strict)) k.k_false
            then add_attribute_acts x (SScalar v0)
            else []
| OSetAttrList (name, vs) ->
  let x = resolve_alias h r name in
  if zmem x (scalars_path h r ((a n_index) :: []))
  then []
  else if zmem x (scalars_path h r ((a n_attributes) :: []))
       then (ASet ([], (a x), (new_list vs))) :: []
       else if Z.eqb (own_scalar h r (a n_strict)) k.k_false
            then add_attribute_acts x (new_list vs)
            else []
| OSetStrict v0 ->
  if zmem n_strict_prop (scalars_path h r ((a n_attributes) :: []))
  then (ASet ([], (a n_strict), (SScalar v0))) :: []
  else (ASet ([], (a n_strict), (SScalar v0))) :: ((AAppend
         (((a n_attributes) :: []), (SScalar n_strict_prop))) :: [])
| OListAppend (attr, v0) -> (AAppend (((a attr) :: []), (SScalar v0))) :: []
| OListReplace (attr, vs) -> (AReplace (((a attr) :: []), vs)) :: []
| OListSetItem (attr, i, v0) ->
  (ASet (((a attr) :: []), i, (SScalar v0))) :: []
| ODictSet (attr, k0, v0) -> (ASet (((a attr) :: []), k0, (SScalar v0))) :: []
| OSolveWrites (t, writes) ->
  map (fun w -> ASet (((v (fst w)) :: []), t, (SScalar (snd w)))) writes
| OSolveStatus (t, st, it) ->
  (ASet (((v n_status) :: []), t, (SScalar st))) :: ((ASet
    (((v n_iterations) :: []), t, (SScalar it))) :: [])
| OTraceT (t, label, m, reset) ->
  let names = trace_names h r m in
  let col =
    map (fun x -> cell_scalar h r ((v (resolve_alias h r x)) :: []) t) names
  in
  let fresh =
    (||) ((||) (is_empty_trace h r t) reset)
      (negb
        (list_eqb Z.eqb
          (scalars_path h r ((v n_trace) :: (t :: ((a n_names) :: []))))
          names))
  in
  let old =
    if fresh
    then []
    else scalars_path h r ((v n_trace) :: (t :: ((a n_values) :: [])))
  in
  app
    (if fresh
     then trace_cell_acts ((v n_trace) :: []) t (new_list names) k
     else []) ((AAppend (((v n_trace) :: (t :: ((a n_index) :: []))),
    (SScalar label))) :: ((ASet (((v n_trace) :: (t :: [])), (a n_values),
    (new_arr k.k_dt_trace_values (app old col)))) :: []))
| OSubSetItem (k0, name, pos, v0) ->
  (ASet (((a n_submodels) :: (k0 :: ((v name) :: []))), pos, (SScalar
    v0))) :: []
| OSubListAppend (k0, attr, v0) ->
  (AAppend (((a n_submodels) :: (k0 :: ((a attr) :: []))), (SScalar
    v0))) :: []
| OSubStatus (k0, t, st, it) ->
  (ASet (((a n_submodels) :: (k0 :: ((v n_status) :: []))), t, (SScalar
    st))) :: ((ASet (((a n_submodels) :: (k0 :: ((v n_iterations) :: []))),
    t, (SScalar it))) :: [])
| OPathAppend (p, v0) -> (AAppend (p, (SScalar v0))) :: []
| OAliasAttr (name, p) ->
  let x = resolve_alias h r name in
  if zmem x (scalars_path h r ((a n_index) :: []))
  then []
  else if zmem x (scalars_path h r ((a n_attributes) :: []))
       then (ASet ([], (a x), (SAlias p))) :: []
       else if Z.eqb (own_scalar h r (a n_strict)) k.k_false
            then add_attribute_acts x (SAlias p)
            else []
| OSetAttrNested (name, vss) ->
  let x = resolve_alias h r name in
  let inner = map (fun vs -> AAppend (((a x) :: []), (new_list vs))) vss in
  if zmem x (scalars_path h r ((a n_index) :: []))
  then []
  else if zmem x (scalars_path h r ((a n_attributes) :: []))
       then (ASet ([], (a x), (new_list []))) :: inner
       else if Z.eqb (own_scalar h r (a n_strict)) k.k_false
            then app (add_attribute_acts x (new_list [])) inner
            else []
| OSetAttrSet (name, vs) ->
  let x = resolve_alias h r name in
  let s = SFresh ((KObj tAG_SET), (pos_cells vs)) in
  if zmem x (scalars_path h r ((a n_index) :: []))
  then []
  else if zmem x (scalars_path h r ((a n_attributes) :: []))
       then (ASet ([], (a x), s)) :: []
       else if Z.eqb (own_scalar h r (a n_strict)) k.k_false
            then add_attribute_acts x s
            else []
| OSetAttrDict (name, kvs) ->
  let x = resolve_alias h r name in
  let s = SFresh (KDict, kvs) in
  if zmem x (scalars_path h r ((a n_index) :: []))
  then []
  else if zmem x (scalars_path h r ((a n_attributes) :: []))
       then (ASet ([], (a x), s)) :: []
       else if Z.eqb (own_scalar h r (a n_strict)) k.k_false
            then add_attribute_acts x s
            else []
| OSetAttrDictOfLists (name, kvss) ->
  let x = resolve_alias h r name in
  let inner =
    map (fun kv -> ASet (((a x) :: []), (fst kv), (new_list (snd kv)))) kvss
  in
  if zmem x (scalars_path h r ((a n_index) :: []))
  then []
  else if zmem x (scalars_path h r ((a n_attributes) :: []))
       then (ASet ([], (a x), (SFresh (KDict, [])))) :: inner
       else if Z.eqb (own_scalar h r (a n_strict)) k.k_false
            then app (add_attribute_acts x (SFresh (KDict, []))) inner
            else []
| OReplaceSeries (name, vs) ->
  let x = resolve_alias h r name in
  if zmem x (scalars_path h r ((a n_index) :: []))
  then if Nat.eqb (length vs) (arr_len h r ((v x) :: []))
       then (AReplace (((v x) :: []), vs)) :: []
       else []
  else []

type state = { sh : heap; sroots : loc list }

type event =
| EActs of nat * action list
| ECopy of nat
| ELinkerCopy of nat
| EInit of nat * iargs
| ELinkerInit of nat * (z * nat) list * z
| EReindex of nat * src * nat * (z * z) list * (z * z) list

(** val run_event : consts -> state -> event -> state **)

let run_event k s = function
| EActs (i, acts) ->
  (match nth_error s.sroots i with
   | Some r -> { sh = (fst (run_actions s.sh r acts)); sroots = s.sroots }
   | None -> s)
| ECopy i ->
  (match nth_error s.sroots i with
   | Some r ->
     (match copy_M k s.sh r with
      | Some p ->
        let (h', r') = p in { sh = h'; sroots = (app s.sroots (r' :: [])) }
      | None -> s)
   | None -> s)
| ELinkerCopy i ->
  (match nth_error s.sroots i with
   | Some r ->
     (match linker_copy_M k s.sh r with
      | Some p ->
        let (h', r') = p in { sh = h'; sroots = (app s.sroots (r' :: [])) }
      | None -> s)
   | None -> s)
| EInit (ci, a0) ->
  (match nth_error s.sroots ci with
   | Some c ->
     let i = init_M s.sh c k a0 in
     { sh = (fst (fst i)); sroots = (app s.sroots ((snd (fst i)) :: [])) }
   | None -> s)
| ELinkerInit (ci, subs, name) ->
  (match nth_error s.sroots ci with
   | Some c ->
     let d = length s.sh in
     let cells =
       flat_map (fun kj ->
         match nth_error s.sroots (snd kj) with
         | Some l -> ((fst kj), (VR l)) :: []
         | None -> []) subs
     in
     let h1 = app s.sh ({ okind = KDict; ocells = cells } :: []) in
     let i = init_M h1 c k (linker_iargs h1 k d name) in
     if has_key name cells
     then s
     else { sh = (fst (fst i)); sroots =
            (app s.sroots ((snd (fst i)) :: [])) }
   | None -> s)
| EReindex (i, span, n', positions, fills) ->
  (match nth_error s.sroots i with
   | Some r ->
     (match reindex_M k s.sh r span n' positions fills with
      | Some p ->
        let (h', r') = p in { sh = h'; sroots = (app s.sroots (r' :: [])) }
      | None -> s)
   | None -> s)

type fevent =
| FOp of nat * op
| FEv of event

(** val lower : consts -> state -> fevent -> event **)

let lower k s = function
| FOp (i, o) ->
  (match nth_error s.sroots i with
   | Some r -> EActs (i, (compile_op k s.sh r o))
   | None -> EActs (i, []))
| FEv e -> e

(** val run_fevent : consts -> state -> fevent -> state **)

let run_fevent k s f =
  run_event k s (lower k s f)

(** val root_views : state -> nat -> ctree list **)

let root_views s depth =
  map (fun r -> cview depth s.sh (VR r)) s.sroots

(** val pairs_from : nat -> loc list -> (nat * loc) list **)

let rec pairs_from i = function
| [] -> []
| x :: r -> (i, x) :: (pairs_from (S i) r)

(** val sharing : state -> ((nat * nat) * (z list * z list) list) list **)

let sharing s =
  let rs = pairs_from O s.sroots in
  flat_map (fun a0 ->
    flat_map (fun b ->
      if Nat.ltb (fst a0) (fst b)
      then (match shared_paths s.sh (snd a0) (snd b) with
            | [] -> []
            | p :: l0 -> (((fst a0), (fst b)), (p :: l0)) :: [])
      else []) rs) rs

(** val solve_ops :
    z -> (z * z) list -> nat -> z -> z -> (((tmode * z) * z) * z) option ->
    op list **)

let solve_ops t writes passes st it tr =
  app
    (match tr with
     | Some p ->
       let (p0, _) = p in
       let (p1, lb) = p0 in
       let (m, ls) = p1 in
       (OTraceT (t, ls, m, false)) :: ((OTraceT (t, lb, m,
       false)) :: ((OTraceT (t, Z0, m, false)) :: []))
     | None -> [])
    (app
      (flat_map (fun p -> (OSolveWrites (t,
        writes)) :: (match tr with
                     | Some p0 ->
                       let (p1, _) = p0 in
                       let (p2, _) = p1 in
                       let (m, _) = p2 in
                       (OTraceT (t, (Z.mul (Zpos (XO XH)) (Z.of_nat p)), m,
                       false)) :: []
                     | None -> [])) (seq (S O) passes))
      (app
        (match tr with
         | Some p ->
           let (p0, le) = p in
           let (p1, _) = p0 in
           let (m, _) = p1 in (OTraceT (t, le, m, false)) :: []
         | None -> []) ((OSolveStatus (t, st, it)) :: [])))

(** val linker_solve_ops :
    z -> (z * (z * z) list) list -> nat -> z -> z -> op list **)

let linker_solve_ops t subs passes st it =
  app
    (flat_map (fun _ ->
      flat_map (fun kw ->
        map (fun w -> OSubSetItem ((fst kw), (fst w), t, (snd w))) (snd kw))
        subs) (seq (S O) passes))
    (app ((OSolveStatus (t, st, it)) :: [])
      (map (fun kw -> OSubStatus ((fst kw), t, st, it)) subs))

type route =
| RCopy
| RCopyCopy
| RDeepCopy

(** val shallow_copy : heap -> loc -> (heap * loc) option **)

let shallow_copy h r =
  match nth_error h r with
  | Some o -> Some ((app h (o :: [])), (length h))
  | None -> None

(** val generic_deepcopy : heap -> loc -> (heap * loc) option **)

let generic_deepcopy h r =
  match nth_error h r with
  | Some o ->
    (match dc_entries1 h o.ocells with
     | Some p ->
       let (h', cs') = p in
       Some ((app h' ({ okind = o.okind; ocells = cs' } :: [])), (length h'))
     | None -> None)
  | None -> None

(** val is_linker : heap -> loc -> bool **)

let is_linker h r =
  match class_of h r with
  | Some c -> Z.eqb (class_scalar h c f_MODEL) (Zpos (XO XH))
  | None -> false

(** val the_copy : consts -> heap -> loc -> (heap * loc) option **)

let the_copy k h r =
  if is_linker h r then linker_copy_M k h r else copy_M k h r

(** val copy_by_route :
    bool -> bool -> bool -> route -> consts -> heap -> loc -> (heap * loc)
    option **)

let copy_by_route dunder_copy_is_copy dunder_deepcopy_returns_copy no_other_entry_points rt k h r =
  match rt with
  | RCopy -> the_copy k h r
  | RCopyCopy ->
    if (&&) dunder_copy_is_copy no_other_entry_points
    then the_copy k h r
    else shallow_copy h r
  | RDeepCopy ->
    if (&&) dunder_deepcopy_returns_copy no_other_entry_points
    then the_copy k h r
    else generic_deepcopy h r

(** val copy_route : route -> consts -> heap -> loc -> (heap * loc) option **)

let copy_route rt k h r =
  if is_linker h r
  then copy_by_route c11_linker_dunder_copy_is_copy
         c11_linker_dunder_deepcopy_returns_self_copy
         c11_no_other_copy_entry_points rt k h r
  else copy_by_route c11_container_dunder_copy_is_copy
         c11_container_dunder_deepcopy_returns_self_copy
         c11_no_other_copy_entry_points rt k h r

type hevent =
| HCopyRoute of route * nat
| HOps of nat * op list
| HEv of event
| HCopySeries of nat * nat * z * z
| HAddVarFrom of nat * nat * z * z
| HInitFrom of nat * iargs * nat * z * z

(** val run_hevent : consts -> state -> hevent -> state **)

let run_hevent k s = function
| HCopyRoute (rt, i) ->
  (match nth_error s.sroots i with
   | Some r ->
     (match copy_route rt k s.sh r with
      | Some p ->
        let (h', r') = p in { sh = h'; sroots = (app s.sroots (r' :: [])) }
      | None -> s)
   | None -> s)
| HOps (i, os) -> fold_left (fun s0 o -> run_fevent k s0 (FOp (i, o))) os s
| HEv e0 -> run_event k s e0
| HCopySeries (i, j, srcname, dstname) ->
  (match nth_error s.sroots j with
   | Some rj ->
     run_fevent k s (FOp (i, (OReplaceSeries (dstname,
       (scalars_path s.sh rj ((v srcname) :: []))))))
   | None -> s)
| HAddVarFrom (i, j, srcname, dstname) ->
  (match nth_error s.sroots j with
   | Some rj ->
     run_fevent k s (FOp (i, (OAddVariable (dstname,
       (arr_dtype s.sh rj ((v srcname) :: [])),
       (scalars_path s.sh rj ((v srcname) :: []))))))
   | None -> s)
| HInitFrom (ci, a0, j, srcname, dstname) ->
  (match nth_error s.sroots j with
   | Some rj ->
     run_event k s (EInit (ci, { ia_span = a0.ia_span; ia_n = a0.ia_n;
       ia_strict = a0.ia_strict; ia_dtype = a0.ia_dtype; ia_adt = a0.ia_adt;
       ia_default = a0.ia_default; ia_engine = a0.ia_engine; ia_initial =
       ((dstname,
       (scalars_path s.sh rj ((v srcname) :: []))) :: a0.ia_initial);
       ia_linker = a0.ia_linker }))
   | None -> s)

(** val run_hevents : consts -> state -> hevent list -> state **)

let run_hevents k s es =
  fold_left (run_hevent k) es s

(** val path_eqb : z list -> z list -> bool **)

let path_eqb =
  list_eqb Z.eqb

(** val share_eqb :
    ((nat * nat) * (z list * z list) list) -> ((nat * nat) * (z list * z
    list) list) -> bool **)

let share_eqb a0 b =
  (&&)
    ((&&) (Nat.eqb (fst (fst a0)) (fst (fst b)))
      (Nat.eqb (snd (fst a0)) (snd (fst b))))
    (list_eqb (fun p q ->
      (&&) (path_eqb (fst p) (fst q)) (path_eqb (snd p) (snd q))) (snd a0)
      (snd b))

type kcase = { kc_consts : consts; kc_heap : heap; kc_roots : loc list;
               kc_events : hevent list; kc_depth : nat;
               kc_views : ctree list;
               kc_sharing : ((nat * nat) * (z list * z list) list) list }

(** val kcase_final : kcase -> state **)

let kcase_final c =
  run_hevents c.kc_consts { sh = c.kc_heap; sroots = c.kc_roots } c.kc_events

(** val check_kcase : kcase -> bool **)

let check_kcase c =
  let s = kcase_final c in
  (&&) (list_eqb ctree_eqb (root_views s c.kc_depth) c.kc_views)
    (list_eqb share_eqb (sharing s) c.kc_sharing)
