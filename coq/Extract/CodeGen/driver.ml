(* driver.ml — runs the extracted code-generation model (codegen_model.ml) for the correspondence checks of C01.
   One request per input line, one answer per output line.  Strings travel hex-encoded (Latin-1).
     G <hex>     program_of_script_checked   -> N | T | J:<json>   (T: program_of_script accepts the script but some statement
                 is not read back from its code text: code_agrees fails — a tie failure, to be reported)   json = {"names":[hex,...],"prog":[stmt,...]} with
                 stmt = ["assign",row,k,expr], expr = ["num",literal-hex] | ["read",row,k] | ["neg",e] | ["abs",e]
                 | ["bin",op,a,b] | ["max",a,b] | ["min",a,b] | ["call1",f,e] | ["if",cmp,l,r,a,b]   (the JSON form of harness/evalmodel.py)
     X <hex>     per statement of split_M: code_text and equation_text (the specification strings of CodeGen.v)
                 and whether the guard of the text-level theorem holds (aligned, no brace outside a match)
                 -> X:<code or ->,<equation or ->,<1|0>;...|<split error or ->
     B <hex>     the `{equations}` block of the class text build_model_definition generates (CodeGenBlock.v)  -> B:<hex> | N
     L <hex>     lex_items of one statement -> token list (debugging aid)
     TS <hex>    per statement of split_M: tight_statement (the hypothesis of CodeGenFacts15.code_statement_tie) -> TS:<1|0>...
     LC <hex>    lex_code of one code text -> token list (debugging aid) *)
open Codegen_model

let explode (s : string) : char list = List.init (String.length s) (String.get s)
let implode (l : char list) : string = let b = Buffer.create 64 in List.iter (Buffer.add_char b) l; Buffer.contents b
let hex_of_string (s : string) : string =
  let b = Buffer.create (2 * String.length s) in
  String.iter (fun c -> Buffer.add_string b (Printf.sprintf "%02x" (Char.code c))) s; Buffer.contents b
let hex (l : char list) : string = hex_of_string (implode l)
let hv c = match c with '0'..'9' -> Char.code c - 48 | 'a'..'f' -> Char.code c - 87 | 'A'..'F' -> Char.code c - 55 | _ -> failwith "hex"
let unhex (h : string) : char list =
  List.init (String.length h / 2) (fun i -> Char.chr (16 * hv h.[2*i] + hv h.[2*i+1]))
let rec int_of_nat = function O -> 0 | S n -> 1 + int_of_nat n
let rec nat_of_int n = if n <= 0 then O else S (nat_of_int (n - 1))
let z_s z = implode (string_of_Z z)

let binop_s = function OAdd -> "add" | OSub -> "sub" | OMul -> "mul" | ODiv -> "div" | OPow -> "pow"
let rec expr_s (e : char list expr) : string =
  match e with
  | ENum s -> Printf.sprintf "[\"num\",\"%s\"]" (hex s)
  | ERead (x, k) -> Printf.sprintf "[\"read\",%d,%s]" (int_of_nat x) (z_s k)
  | ENeg a -> Printf.sprintf "[\"neg\",%s]" (expr_s a)
  | EAbs a -> Printf.sprintf "[\"abs\",%s]" (expr_s a)
  | EBin (o, a, b) -> Printf.sprintf "[\"bin\",\"%s\",%s,%s]" (binop_s o) (expr_s a) (expr_s b)
  | EMax (a, b) -> Printf.sprintf "[\"max\",%s,%s]" (expr_s a) (expr_s b)
  | EMin (a, b) -> Printf.sprintf "[\"min\",%s,%s]" (expr_s a) (expr_s b)
  | ECall1 (f, a) -> Printf.sprintf "[\"call1\",%d,%s]" (int_of_nat f) (expr_s a)
  | EIf (o, l, r, a, b) ->
    Printf.sprintf "[\"if\",\"%s\",%s,%s,%s,%s]"
      (match o with CLt -> "lt" | CLe -> "le" | CEq -> "eq" | CNe -> "ne" | CGt -> "gt" | CGe -> "ge")
      (expr_s l) (expr_s r) (expr_s a) (expr_s b)
  | ECall2 (_, _, _) -> "[\"call2\"]"
let stmt_s (SAssign (y, k, e)) = Printf.sprintf "[\"assign\",%d,%s,%s]" (int_of_nat y) (z_s k) (expr_s e)

let exn_name = function
  | ParserError -> "ParserError" | SymbolError -> "SymbolError" | IndentationError -> "IndentationError"
  | ValueError -> "ValueError" | TypeError -> "TypeError" | _ -> "OtherError"
let opt_s = function None -> "-" | Some s -> "h" ^ hex s

let tok_s = function
  | CRead (n, k) -> Printf.sprintf "R(%s,%s)" (implode n) (z_s k) | CFun n -> "F(" ^ implode n ^ ")" | CNum s -> "N(" ^ implode s ^ ")"
  | CPlus -> "+" | CMinus -> "-" | CStar -> "*" | CSlash -> "/" | CPow -> "**" | CLPar -> "(" | CRPar -> ")" | CComma -> ","
  | CAssign -> "=" | CBad -> "?"
  | CX (XCmp o) -> (match o with CLt -> "<" | CLe -> "<=" | CEq -> "==" | CNe -> "!=" | CGt -> ">" | CGe -> ">=")
  | CX XIf -> "if" | CX XElse -> "else" | CX XAnd -> "and" | CX XOr -> "or" | CX XNot -> "not"

let answer (line : string) : unit =
  match String.split_on_char ' ' line with
  | ["G"; h] ->
    (match program_of_script_checked (unhex h) with
     | None -> print_endline (match program_of_script (unhex h) with None -> "N" | Some _ -> "T")
     | Some (names, prog) ->
       print_endline (Printf.sprintf "J:{\"names\":[%s],\"prog\":[%s]}"
                        (String.concat "," (List.map (fun n -> "\"" ^ hex n ^ "\"") names))
                        (String.concat "," (List.map stmt_s prog))))
  | ["X"; h] ->
    let (stmts, err) = split_M (unhex h) in
    let one st = opt_s (code_text st) ^ "," ^ opt_s (equation_text st) ^ "," ^ (if text_guard st then "1" else "0") in
    print_endline ("X:" ^ String.concat ";" (List.map one stmts) ^ "|" ^ (match err with None -> "-" | Some e -> exn_name e))
  | ["B"; h] -> print_endline (match block_of_script (unhex h) with Some b -> "B:" ^ hex b | None -> "N")
  | ["TS"; h] ->
    let (stmts, _) = split_M (unhex h) in
    print_endline ("TS:" ^ String.concat "" (List.map (fun st -> if tight_statement st then "1" else "0") stmts))
  | ["LC"; h] -> let c = unhex h in print_endline (String.concat " " (List.map tok_s (lex_code (nat_of_int (List.length c + 1)) c)))
  | ["L"; h] -> print_endline (String.concat " " (List.map tok_s (lex_items LNone (scan_items (unhex h)))))
  | _ -> print_endline "?"

let () =
  try
    while true do
      let line = input_line stdin in
      (try answer line with
       | Stack_overflow -> print_endline "!stack"
       | Failure m -> print_endline ("!" ^ m));
      Stdlib.flush stdout
    done
  with End_of_file -> ()
