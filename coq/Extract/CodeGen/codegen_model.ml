
(** val negb : bool -> bool **)

let negb = function
| true -> false
| false -> true

type nat =
| O
| S of nat

(** val option_map : ('a1 -> 'a2) -> 'a1 option -> 'a2 option **)

let option_map f = function
| Some a -> Some (f a)
| None -> None

(** val snd : ('a1 * 'a2) -> 'a2 **)

let snd = function
| (_, y) -> y

(** val length : 'a1 list -> nat **)

let rec length = function
| [] -> O
| _ :: l' -> S (length l')

(** val app : 'a1 list -> 'a1 list -> 'a1 list **)

let rec app l m =
  match l with
  | [] -> m
  | a :: l1 -> a :: (app l1 m)

type comparison =
| Eq
| Lt
| Gt

(** val compOpp : comparison -> comparison **)

let compOpp = function
| Eq -> Eq
| Lt -> Gt
| Gt -> Lt

type uint =
| Nil
| D0 of uint
| D1 of uint
| D2 of uint
| D3 of uint
| D4 of uint
| D5 of uint
| D6 of uint
| D7 of uint
| D8 of uint
| D9 of uint

type signed_int =
| Pos of uint
| Neg of uint

(** val revapp : uint -> uint -> uint **)

let rec revapp d d' =
  match d with
  | Nil -> d'
  | D0 d0 -> revapp d0 (D0 d')
  | D1 d0 -> revapp d0 (D1 d')
  | D2 d0 -> revapp d0 (D2 d')
  | D3 d0 -> revapp d0 (D3 d')
  | D4 d0 -> revapp d0 (D4 d')
  | D5 d0 -> revapp d0 (D5 d')
  | D6 d0 -> revapp d0 (D6 d')
  | D7 d0 -> revapp d0 (D7 d')
  | D8 d0 -> revapp d0 (D8 d')
  | D9 d0 -> revapp d0 (D9 d')

(** val rev : uint -> uint **)

let rev d =
  revapp d Nil

module Little =
 struct
  (** val double : uint -> uint **)

  let rec double = function
  | Nil -> Nil
  | D0 d0 -> D0 (double d0)
  | D1 d0 -> D2 (double d0)
  | D2 d0 -> D4 (double d0)
  | D3 d0 -> D6 (double d0)
  | D4 d0 -> D8 (double d0)
  | D5 d0 -> D0 (succ_double d0)
  | D6 d0 -> D2 (succ_double d0)
  | D7 d0 -> D4 (succ_double d0)
  | D8 d0 -> D6 (succ_double d0)
  | D9 d0 -> D8 (succ_double d0)

  (** val succ_double : uint -> uint **)

  and succ_double = function
  | Nil -> D1 Nil
  | D0 d0 -> D1 (double d0)
  | D1 d0 -> D3 (double d0)
  | D2 d0 -> D5 (double d0)
  | D3 d0 -> D7 (double d0)
  | D4 d0 -> D9 (double d0)
  | D5 d0 -> D1 (succ_double d0)
  | D6 d0 -> D3 (succ_double d0)
  | D7 d0 -> D5 (succ_double d0)
  | D8 d0 -> D7 (succ_double d0)
  | D9 d0 -> D9 (succ_double d0)
 end

module Coq__1 = struct
 (** val add : nat -> nat -> nat **)
 let rec add n0 m =
   match n0 with
   | O -> m
   | S p -> S (add p m)
end
include Coq__1

(** val mul : nat -> nat -> nat **)

let rec mul n0 m =
  match n0 with
  | O -> O
  | S p -> add m (mul p m)

(** val sub : nat -> nat -> nat **)

let rec sub n0 m =
  match n0 with
  | O -> n0
  | S k -> (match m with
            | O -> n0
            | S l -> sub k l)

type positive =
| XI of positive
| XO of positive
| XH

type n =
| N0
| Npos of positive

type z =
| Z0
| Zpos of positive
| Zneg of positive

module Nat =
 struct
  (** val eqb : nat -> nat -> bool **)

  let rec eqb n0 m =
    match n0 with
    | O -> (match m with
            | O -> true
            | S _ -> false)
    | S n' -> (match m with
               | O -> false
               | S m' -> eqb n' m')

  (** val leb : nat -> nat -> bool **)

  let rec leb n0 m =
    match n0 with
    | O -> true
    | S n' -> (match m with
               | O -> false
               | S m' -> leb n' m')

  (** val ltb : nat -> nat -> bool **)

  let ltb n0 m =
    leb (S n0) m
 end

module Pos =
 struct
  type mask =
  | IsNul
  | IsPos of positive
  | IsNeg
 end

module Coq_Pos =
 struct
  (** val succ : positive -> positive **)

  let rec succ = function
  | XI p -> XO (succ p)
  | XO p -> XI p
  | XH -> XO XH

  (** val add : positive -> positive -> positive **)

  let rec add x y =
    match x with
    | XI p ->
      (match y with
       | XI q -> XO (add_carry p q)
       | XO q -> XI (add p q)
       | XH -> XO (succ p))
    | XO p ->
      (match y with
       | XI q -> XI (add p q)
       | XO q -> XO (add p q)
       | XH -> XI p)
    | XH -> (match y with
             | XI q -> XO (succ q)
             | XO q -> XI q
             | XH -> XO XH)

  (** val add_carry : positive -> positive -> positive **)

  and add_carry x y =
    match x with
    | XI p ->
      (match y with
       | XI q -> XI (add_carry p q)
       | XO q -> XO (add_carry p q)
       | XH -> XI (succ p))
    | XO p ->
      (match y with
       | XI q -> XO (add_carry p q)
       | XO q -> XI (add p q)
       | XH -> XO (succ p))
    | XH ->
      (match y with
       | XI q -> XI (succ q)
       | XO q -> XO (succ q)
       | XH -> XI XH)

  (** val pred_double : positive -> positive **)

  let rec pred_double = function
  | XI p -> XI (XO p)
  | XO p -> XI (pred_double p)
  | XH -> XH

  type mask = Pos.mask =
  | IsNul
  | IsPos of positive
  | IsNeg

  (** val succ_double_mask : mask -> mask **)

  let succ_double_mask = function
  | IsNul -> IsPos XH
  | IsPos p -> IsPos (XI p)
  | IsNeg -> IsNeg

  (** val double_mask : mask -> mask **)

  let double_mask = function
  | IsPos p -> IsPos (XO p)
  | x0 -> x0

  (** val double_pred_mask : positive -> mask **)

  let double_pred_mask = function
  | XI p -> IsPos (XO (XO p))
  | XO p -> IsPos (XO (pred_double p))
  | XH -> IsNul

  (** val sub_mask : positive -> positive -> mask **)

  let rec sub_mask x y =
    match x with
    | XI p ->
      (match y with
       | XI q -> double_mask (sub_mask p q)
       | XO q -> succ_double_mask (sub_mask p q)
       | XH -> IsPos (XO p))
    | XO p ->
      (match y with
       | XI q -> succ_double_mask (sub_mask_carry p q)
       | XO q -> double_mask (sub_mask p q)
       | XH -> IsPos (pred_double p))
    | XH -> (match y with
             | XH -> IsNul
             | _ -> IsNeg)

  (** val sub_mask_carry : positive -> positive -> mask **)

  and sub_mask_carry x y =
    match x with
    | XI p ->
      (match y with
       | XI q -> succ_double_mask (sub_mask_carry p q)
       | XO q -> double_mask (sub_mask p q)
       | XH -> IsPos (pred_double p))
    | XO p ->
      (match y with
       | XI q -> double_mask (sub_mask_carry p q)
       | XO q -> succ_double_mask (sub_mask_carry p q)
       | XH -> double_pred_mask p)
    | XH -> IsNeg

  (** val mul : positive -> positive -> positive **)

  let rec mul x y =
    match x with
    | XI p -> add y (XO (mul p y))
    | XO p -> XO (mul p y)
    | XH -> y

  (** val iter : ('a1 -> 'a1) -> 'a1 -> positive -> 'a1 **)

  let rec iter f x = function
  | XI n' -> f (iter f (iter f x n') n')
  | XO n' -> iter f (iter f x n') n'
  | XH -> f x

  (** val compare_cont : comparison -> positive -> positive -> comparison **)

  let rec compare_cont r x y =
    match x with
    | XI p ->
      (match y with
       | XI q -> compare_cont r p q
       | XO q -> compare_cont Gt p q
       | XH -> Gt)
    | XO p ->
      (match y with
       | XI q -> compare_cont Lt p q
       | XO q -> compare_cont r p q
       | XH -> Gt)
    | XH -> (match y with
             | XH -> r
             | _ -> Lt)

  (** val compare : positive -> positive -> comparison **)

  let compare =
    compare_cont Eq

  (** val eqb : positive -> positive -> bool **)

  let rec eqb p q =
    match p with
    | XI p0 -> (match q with
                | XI q0 -> eqb p0 q0
                | _ -> false)
    | XO p0 -> (match q with
                | XO q0 -> eqb p0 q0
                | _ -> false)
    | XH -> (match q with
             | XH -> true
             | _ -> false)

  (** val iter_op : ('a1 -> 'a1 -> 'a1) -> positive -> 'a1 -> 'a1 **)

  let rec iter_op op p a =
    match p with
    | XI p0 -> op a (iter_op op p0 (op a a))
    | XO p0 -> iter_op op p0 (op a a)
    | XH -> a

  (** val to_nat : positive -> nat **)

  let to_nat x =
    iter_op Coq__1.add x (S O)

  (** val of_succ_nat : nat -> positive **)

  let rec of_succ_nat = function
  | O -> XH
  | S x -> succ (of_succ_nat x)

  (** val of_uint_acc : uint -> positive -> positive **)

  let rec of_uint_acc d acc =
    match d with
    | Nil -> acc
    | D0 l -> of_uint_acc l (mul (XO (XI (XO XH))) acc)
    | D1 l -> of_uint_acc l (add XH (mul (XO (XI (XO XH))) acc))
    | D2 l -> of_uint_acc l (add (XO XH) (mul (XO (XI (XO XH))) acc))
    | D3 l -> of_uint_acc l (add (XI XH) (mul (XO (XI (XO XH))) acc))
    | D4 l -> of_uint_acc l (add (XO (XO XH)) (mul (XO (XI (XO XH))) acc))
    | D5 l -> of_uint_acc l (add (XI (XO XH)) (mul (XO (XI (XO XH))) acc))
    | D6 l -> of_uint_acc l (add (XO (XI XH)) (mul (XO (XI (XO XH))) acc))
    | D7 l -> of_uint_acc l (add (XI (XI XH)) (mul (XO (XI (XO XH))) acc))
    | D8 l ->
      of_uint_acc l (add (XO (XO (XO XH))) (mul (XO (XI (XO XH))) acc))
    | D9 l ->
      of_uint_acc l (add (XI (XO (XO XH))) (mul (XO (XI (XO XH))) acc))

  (** val of_uint : uint -> n **)

  let rec of_uint = function
  | Nil -> N0
  | D0 l -> of_uint l
  | D1 l -> Npos (of_uint_acc l XH)
  | D2 l -> Npos (of_uint_acc l (XO XH))
  | D3 l -> Npos (of_uint_acc l (XI XH))
  | D4 l -> Npos (of_uint_acc l (XO (XO XH)))
  | D5 l -> Npos (of_uint_acc l (XI (XO XH)))
  | D6 l -> Npos (of_uint_acc l (XO (XI XH)))
  | D7 l -> Npos (of_uint_acc l (XI (XI XH)))
  | D8 l -> Npos (of_uint_acc l (XO (XO (XO XH))))
  | D9 l -> Npos (of_uint_acc l (XI (XO (XO XH))))

  (** val to_little_uint : positive -> uint **)

  let rec to_little_uint = function
  | XI p0 -> Little.succ_double (to_little_uint p0)
  | XO p0 -> Little.double (to_little_uint p0)
  | XH -> D1 Nil

  (** val to_uint : positive -> uint **)

  let to_uint p =
    rev (to_little_uint p)
 end

module N =
 struct
  (** val add : n -> n -> n **)

  let add n0 m =
    match n0 with
    | N0 -> m
    | Npos p -> (match m with
                 | N0 -> n0
                 | Npos q -> Npos (Coq_Pos.add p q))

  (** val sub : n -> n -> n **)

  let sub n0 m =
    match n0 with
    | N0 -> N0
    | Npos n' ->
      (match m with
       | N0 -> n0
       | Npos m' ->
         (match Coq_Pos.sub_mask n' m' with
          | Coq_Pos.IsPos p -> Npos p
          | _ -> N0))

  (** val mul : n -> n -> n **)

  let mul n0 m =
    match n0 with
    | N0 -> N0
    | Npos p -> (match m with
                 | N0 -> N0
                 | Npos q -> Npos (Coq_Pos.mul p q))

  (** val compare : n -> n -> comparison **)

  let compare n0 m =
    match n0 with
    | N0 -> (match m with
             | N0 -> Eq
             | Npos _ -> Lt)
    | Npos n' -> (match m with
                  | N0 -> Gt
                  | Npos m' -> Coq_Pos.compare n' m')

  (** val ltb : n -> n -> bool **)

  let ltb x y =
    match compare x y with
    | Lt -> true
    | _ -> false

  (** val to_nat : n -> nat **)

  let to_nat = function
  | N0 -> O
  | Npos p -> Coq_Pos.to_nat p

  (** val of_nat : nat -> n **)

  let of_nat = function
  | O -> N0
  | S n' -> Npos (Coq_Pos.of_succ_nat n')
 end

(** val zero : char **)

let zero = '\000'

(** val one : char **)

let one = '\001'

(** val shift : bool -> char -> char **)

let shift = fun b c -> Char.chr (((Char.code c) lsl 1) land 255 + if b then 1 else 0)

(** val ascii_of_pos : positive -> char **)

let ascii_of_pos =
  let rec loop n0 p =
    match n0 with
    | O -> zero
    | S n' ->
      (match p with
       | XI p' -> shift true (loop n' p')
       | XO p' -> shift false (loop n' p')
       | XH -> one)
  in loop (S (S (S (S (S (S (S (S O))))))))

(** val ascii_of_N : n -> char **)

let ascii_of_N = function
| N0 -> zero
| Npos p -> ascii_of_pos p

(** val ascii_of_nat : nat -> char **)

let ascii_of_nat a =
  ascii_of_N (N.of_nat a)

(** val n_of_digits : bool list -> n **)

let rec n_of_digits = function
| [] -> N0
| b :: l' ->
  N.add (if b then Npos XH else N0) (N.mul (Npos (XO XH)) (n_of_digits l'))

(** val n_of_ascii : char -> n **)

let n_of_ascii a =
  (* If this appears, you're using Ascii internals. Please don't *)
 (fun f c ->
  let n = Char.code c in
  let h i = (n land (1 lsl i)) <> 0 in
  f (h 0) (h 1) (h 2) (h 3) (h 4) (h 5) (h 6) (h 7))
    (fun a0 a1 a2 a3 a4 a5 a6 a7 ->
    n_of_digits
      (a0 :: (a1 :: (a2 :: (a3 :: (a4 :: (a5 :: (a6 :: (a7 :: [])))))))))
    a

(** val nth_error : 'a1 list -> nat -> 'a1 option **)

let rec nth_error l = function
| O -> (match l with
        | [] -> None
        | x :: _ -> Some x)
| S n1 -> (match l with
           | [] -> None
           | _ :: l0 -> nth_error l0 n1)

(** val rev0 : 'a1 list -> 'a1 list **)

let rec rev0 = function
| [] -> []
| x :: l' -> app (rev0 l') (x :: [])

(** val concat : 'a1 list list -> 'a1 list **)

let rec concat = function
| [] -> []
| x :: l0 -> app x (concat l0)

(** val map : ('a1 -> 'a2) -> 'a1 list -> 'a2 list **)

let rec map f = function
| [] -> []
| a :: t -> (f a) :: (map f t)

(** val flat_map : ('a1 -> 'a2 list) -> 'a1 list -> 'a2 list **)

let rec flat_map f = function
| [] -> []
| x :: t -> app (f x) (flat_map f t)

(** val fold_left : ('a1 -> 'a2 -> 'a1) -> 'a2 list -> 'a1 -> 'a1 **)

let rec fold_left f l a0 =
  match l with
  | [] -> a0
  | b :: t -> fold_left f t (f a0 b)

(** val existsb : ('a1 -> bool) -> 'a1 list -> bool **)

let rec existsb f = function
| [] -> false
| a :: l0 -> (||) (f a) (existsb f l0)

(** val forallb : ('a1 -> bool) -> 'a1 list -> bool **)

let rec forallb f = function
| [] -> true
| a :: l0 -> (&&) (f a) (forallb f l0)

(** val filter : ('a1 -> bool) -> 'a1 list -> 'a1 list **)

let rec filter f = function
| [] -> []
| x :: l0 -> if f x then x :: (filter f l0) else filter f l0

module Z =
 struct
  (** val double : z -> z **)

  let double = function
  | Z0 -> Z0
  | Zpos p -> Zpos (XO p)
  | Zneg p -> Zneg (XO p)

  (** val succ_double : z -> z **)

  let succ_double = function
  | Z0 -> Zpos XH
  | Zpos p -> Zpos (XI p)
  | Zneg p -> Zneg (Coq_Pos.pred_double p)

  (** val pred_double : z -> z **)

  let pred_double = function
  | Z0 -> Zneg XH
  | Zpos p -> Zpos (Coq_Pos.pred_double p)
  | Zneg p -> Zneg (XI p)

  (** val pos_sub : positive -> positive -> z **)

  let rec pos_sub x y =
    match x with
    | XI p ->
      (match y with
       | XI q -> double (pos_sub p q)
       | XO q -> succ_double (pos_sub p q)
       | XH -> Zpos (XO p))
    | XO p ->
      (match y with
       | XI q -> pred_double (pos_sub p q)
       | XO q -> double (pos_sub p q)
       | XH -> Zpos (Coq_Pos.pred_double p))
    | XH ->
      (match y with
       | XI q -> Zneg (XO q)
       | XO q -> Zneg (Coq_Pos.pred_double q)
       | XH -> Z0)

  (** val add : z -> z -> z **)

  let add x y =
    match x with
    | Z0 -> y
    | Zpos x' ->
      (match y with
       | Z0 -> x
       | Zpos y' -> Zpos (Coq_Pos.add x' y')
       | Zneg y' -> pos_sub x' y')
    | Zneg x' ->
      (match y with
       | Z0 -> x
       | Zpos y' -> pos_sub y' x'
       | Zneg y' -> Zneg (Coq_Pos.add x' y'))

  (** val opp : z -> z **)

  let opp = function
  | Z0 -> Z0
  | Zpos x0 -> Zneg x0
  | Zneg x0 -> Zpos x0

  (** val sub : z -> z -> z **)

  let sub m n0 =
    add m (opp n0)

  (** val mul : z -> z -> z **)

  let mul x y =
    match x with
    | Z0 -> Z0
    | Zpos x' ->
      (match y with
       | Z0 -> Z0
       | Zpos y' -> Zpos (Coq_Pos.mul x' y')
       | Zneg y' -> Zneg (Coq_Pos.mul x' y'))
    | Zneg x' ->
      (match y with
       | Z0 -> Z0
       | Zpos y' -> Zneg (Coq_Pos.mul x' y')
       | Zneg y' -> Zpos (Coq_Pos.mul x' y'))

  (** val pow_pos : z -> positive -> z **)

  let pow_pos z0 =
    Coq_Pos.iter (mul z0) (Zpos XH)

  (** val pow : z -> z -> z **)

  let pow x = function
  | Z0 -> Zpos XH
  | Zpos p -> pow_pos x p
  | Zneg _ -> Z0

  (** val compare : z -> z -> comparison **)

  let compare x y =
    match x with
    | Z0 -> (match y with
             | Z0 -> Eq
             | Zpos _ -> Lt
             | Zneg _ -> Gt)
    | Zpos x' -> (match y with
                  | Zpos y' -> Coq_Pos.compare x' y'
                  | _ -> Gt)
    | Zneg x' ->
      (match y with
       | Zneg y' -> compOpp (Coq_Pos.compare x' y')
       | _ -> Lt)

  (** val leb : z -> z -> bool **)

  let leb x y =
    match compare x y with
    | Gt -> false
    | _ -> true

  (** val ltb : z -> z -> bool **)

  let ltb x y =
    match compare x y with
    | Lt -> true
    | _ -> false

  (** val eqb : z -> z -> bool **)

  let eqb x y =
    match x with
    | Z0 -> (match y with
             | Z0 -> true
             | _ -> false)
    | Zpos p -> (match y with
                 | Zpos q -> Coq_Pos.eqb p q
                 | _ -> false)
    | Zneg p -> (match y with
                 | Zneg q -> Coq_Pos.eqb p q
                 | _ -> false)

  (** val max : z -> z -> z **)

  let max n0 m =
    match compare n0 m with
    | Lt -> m
    | _ -> n0

  (** val min : z -> z -> z **)

  let min n0 m =
    match compare n0 m with
    | Gt -> m
    | _ -> n0

  (** val abs : z -> z **)

  let abs = function
  | Zneg p -> Zpos p
  | x -> x

  (** val of_N : n -> z **)

  let of_N = function
  | N0 -> Z0
  | Npos p -> Zpos p

  (** val of_uint : uint -> z **)

  let of_uint d =
    of_N (Coq_Pos.of_uint d)

  (** val of_int : signed_int -> z **)

  let of_int = function
  | Pos d0 -> of_uint d0
  | Neg d0 -> opp (of_uint d0)

  (** val to_int : z -> signed_int **)

  let to_int = function
  | Z0 -> Pos (D0 Nil)
  | Zpos p -> Pos (Coq_Pos.to_uint p)
  | Zneg p -> Neg (Coq_Pos.to_uint p)
 end

(** val eqb0 : char list -> char list -> bool **)

let rec eqb0 s1 s2 =
  match s1 with
  | [] -> (match s2 with
           | [] -> true
           | _::_ -> false)
  | c1::s1' ->
    (match s2 with
     | [] -> false
     | c2::s2' -> if (=) c1 c2 then eqb0 s1' s2' else false)

(** val append : char list -> char list -> char list **)

let rec append s1 s2 =
  match s1 with
  | [] -> s2
  | c::s1' -> c::(append s1' s2)

(** val length0 : char list -> nat **)

let rec length0 = function
| [] -> O
| _::s' -> S (length0 s')

(** val list_ascii_of_string : char list -> char list **)

let rec list_ascii_of_string = function
| [] -> []
| ch::s1 -> ch :: (list_ascii_of_string s1)

type exn =
| ValueError
| IndexError
| KeyError
| AttributeError
| TypeError
| SolutionError of z option
| NonConvergenceError
| ParserError
| SymbolError
| IndentationError
| DimensionError
| DuplicateNameError
| InitialisationError
| NotImplementedError
| UnboundLocalError
| FortranEngineError
| OverflowError
| OtherError

type 'a outcome =
| Ret of 'a
| Raise of exn

(** val uint_of_char : char -> uint option -> uint option **)

let uint_of_char a = function
| Some d0 ->
  (* If this appears, you're using Ascii internals. Please don't *)
 (fun f c ->
  let n = Char.code c in
  let h i = (n land (1 lsl i)) <> 0 in
  f (h 0) (h 1) (h 2) (h 3) (h 4) (h 5) (h 6) (h 7))
    (fun b b0 b1 b2 b3 b4 b5 b6 ->
    if b
    then if b0
         then if b1
              then if b2
                   then None
                   else if b3
                        then if b4
                             then if b5
                                  then None
                                  else if b6 then None else Some (D7 d0)
                             else None
                        else None
              else if b2
                   then None
                   else if b3
                        then if b4
                             then if b5
                                  then None
                                  else if b6 then None else Some (D3 d0)
                             else None
                        else None
         else if b1
              then if b2
                   then None
                   else if b3
                        then if b4
                             then if b5
                                  then None
                                  else if b6 then None else Some (D5 d0)
                             else None
                        else None
              else if b2
                   then if b3
                        then if b4
                             then if b5
                                  then None
                                  else if b6 then None else Some (D9 d0)
                             else None
                        else None
                   else if b3
                        then if b4
                             then if b5
                                  then None
                                  else if b6 then None else Some (D1 d0)
                             else None
                        else None
    else if b0
         then if b1
              then if b2
                   then None
                   else if b3
                        then if b4
                             then if b5
                                  then None
                                  else if b6 then None else Some (D6 d0)
                             else None
                        else None
              else if b2
                   then None
                   else if b3
                        then if b4
                             then if b5
                                  then None
                                  else if b6 then None else Some (D2 d0)
                             else None
                        else None
         else if b1
              then if b2
                   then None
                   else if b3
                        then if b4
                             then if b5
                                  then None
                                  else if b6 then None else Some (D4 d0)
                             else None
                        else None
              else if b2
                   then if b3
                        then if b4
                             then if b5
                                  then None
                                  else if b6 then None else Some (D8 d0)
                             else None
                        else None
                   else if b3
                        then if b4
                             then if b5
                                  then None
                                  else if b6 then None else Some (D0 d0)
                             else None
                        else None)
    a
| None -> None

module NilEmpty =
 struct
  (** val string_of_uint : uint -> char list **)

  let rec string_of_uint = function
  | Nil -> []
  | D0 d0 -> '0'::(string_of_uint d0)
  | D1 d0 -> '1'::(string_of_uint d0)
  | D2 d0 -> '2'::(string_of_uint d0)
  | D3 d0 -> '3'::(string_of_uint d0)
  | D4 d0 -> '4'::(string_of_uint d0)
  | D5 d0 -> '5'::(string_of_uint d0)
  | D6 d0 -> '6'::(string_of_uint d0)
  | D7 d0 -> '7'::(string_of_uint d0)
  | D8 d0 -> '8'::(string_of_uint d0)
  | D9 d0 -> '9'::(string_of_uint d0)

  (** val uint_of_string : char list -> uint option **)

  let rec uint_of_string = function
  | [] -> Some Nil
  | a::s1 -> uint_of_char a (uint_of_string s1)
 end

module NilZero =
 struct
  (** val string_of_uint : uint -> char list **)

  let string_of_uint d = match d with
  | Nil -> '0'::[]
  | _ -> NilEmpty.string_of_uint d

  (** val uint_of_string : char list -> uint option **)

  let uint_of_string s = match s with
  | [] -> None
  | _::_ -> NilEmpty.uint_of_string s

  (** val string_of_int : signed_int -> char list **)

  let string_of_int = function
  | Pos d0 -> string_of_uint d0
  | Neg d0 -> '-'::(string_of_uint d0)

  (** val int_of_string : char list -> signed_int option **)

  let int_of_string s = match s with
  | [] -> None
  | a::s' ->
    if (=) a '-'
    then option_map (fun x -> Neg x) (uint_of_string s')
    else option_map (fun x -> Pos x) (uint_of_string s)
 end

(** val type_order : (char list * z) list **)

let type_order =
  (('V'::('A'::('R'::('I'::('A'::('B'::('L'::('E'::[])))))))), (Zpos
    XH)) :: ((('E'::('X'::('O'::('G'::('E'::('N'::('O'::('U'::('S'::[]))))))))),
    (Zpos (XO
    XH))) :: ((('E'::('N'::('D'::('O'::('G'::('E'::('N'::('O'::('U'::('S'::[])))))))))),
    (Zpos (XI
    XH))) :: ((('P'::('A'::('R'::('A'::('M'::('E'::('T'::('E'::('R'::[]))))))))),
    (Zpos (XO (XO XH)))) :: ((('E'::('R'::('R'::('O'::('R'::[]))))), (Zpos
    (XI (XO
    XH)))) :: ((('F'::('U'::('N'::('C'::('T'::('I'::('O'::('N'::[])))))))),
    (Zpos (XO (XI
    XH)))) :: ((('K'::('E'::('Y'::('W'::('O'::('R'::('D'::[]))))))), (Zpos
    (XI (XI
    XH)))) :: ((('V'::('E'::('R'::('B'::('A'::('T'::('I'::('M'::[])))))))),
    (Zpos (XO (XO (XO
    XH))))) :: ((('I'::('N'::('V'::('A'::('L'::('I'::('D'::[]))))))), (Zpos
    (XI (XO (XO XH))))) :: []))))))))

(** val replacement_function_names : (char list * char list) list **)

let replacement_function_names =
  (('e'::('x'::('p'::[]))),
    ('n'::('p'::('.'::('e'::('x'::('p'::[]))))))) :: ((('l'::('o'::('g'::[]))),
    ('n'::('p'::('.'::('l'::('o'::('g'::[]))))))) :: ((('m'::('a'::('x'::[]))),
    ('m'::('a'::('x'::[])))) :: ((('m'::('i'::('n'::[]))),
    ('m'::('i'::('n'::[])))) :: [])))

(** val kwlist : char list list **)

let kwlist =
  ('F'::('a'::('l'::('s'::('e'::[]))))) :: (('N'::('o'::('n'::('e'::[])))) :: (('T'::('r'::('u'::('e'::[])))) :: (('a'::('n'::('d'::[]))) :: (('a'::('s'::[])) :: (('a'::('s'::('s'::('e'::('r'::('t'::[])))))) :: (('a'::('s'::('y'::('n'::('c'::[]))))) :: (('a'::('w'::('a'::('i'::('t'::[]))))) :: (('b'::('r'::('e'::('a'::('k'::[]))))) :: (('c'::('l'::('a'::('s'::('s'::[]))))) :: (('c'::('o'::('n'::('t'::('i'::('n'::('u'::('e'::[])))))))) :: (('d'::('e'::('f'::[]))) :: (('d'::('e'::('l'::[]))) :: (('e'::('l'::('i'::('f'::[])))) :: (('e'::('l'::('s'::('e'::[])))) :: (('e'::('x'::('c'::('e'::('p'::('t'::[])))))) :: (('f'::('i'::('n'::('a'::('l'::('l'::('y'::[]))))))) :: (('f'::('o'::('r'::[]))) :: (('f'::('r'::('o'::('m'::[])))) :: (('g'::('l'::('o'::('b'::('a'::('l'::[])))))) :: (('i'::('f'::[])) :: (('i'::('m'::('p'::('o'::('r'::('t'::[])))))) :: (('i'::('n'::[])) :: (('i'::('s'::[])) :: (('l'::('a'::('m'::('b'::('d'::('a'::[])))))) :: (('n'::('o'::('n'::('l'::('o'::('c'::('a'::('l'::[])))))))) :: (('n'::('o'::('t'::[]))) :: (('o'::('r'::[])) :: (('p'::('a'::('s'::('s'::[])))) :: (('r'::('a'::('i'::('s'::('e'::[]))))) :: (('r'::('e'::('t'::('u'::('r'::('n'::[])))))) :: (('t'::('r'::('y'::[]))) :: (('w'::('h'::('i'::('l'::('e'::[]))))) :: (('w'::('i'::('t'::('h'::[])))) :: (('y'::('i'::('e'::('l'::('d'::[]))))) :: []))))))))))))))))))))))))))))))))))

(** val re_space_codes : nat list **)

let re_space_codes =
  (S (S (S (S (S (S (S (S (S O))))))))) :: ((S (S (S (S (S (S (S (S (S (S
    O)))))))))) :: ((S (S (S (S (S (S (S (S (S (S (S O))))))))))) :: ((S (S
    (S (S (S (S (S (S (S (S (S (S O)))))))))))) :: ((S (S (S (S (S (S (S (S
    (S (S (S (S (S O))))))))))))) :: ((S (S (S (S (S (S (S (S (S (S (S (S (S
    (S (S (S (S (S (S (S (S (S (S (S (S (S (S (S
    O)))))))))))))))))))))))))))) :: ((S (S (S (S (S (S (S (S (S (S (S (S (S
    (S (S (S (S (S (S (S (S (S (S (S (S (S (S (S (S
    O))))))))))))))))))))))))))))) :: ((S (S (S (S (S (S (S (S (S (S (S (S (S
    (S (S (S (S (S (S (S (S (S (S (S (S (S (S (S (S (S
    O)))))))))))))))))))))))))))))) :: ((S (S (S (S (S (S (S (S (S (S (S (S
    (S (S (S (S (S (S (S (S (S (S (S (S (S (S (S (S (S (S (S
    O))))))))))))))))))))))))))))))) :: ((S (S (S (S (S (S (S (S (S (S (S (S
    (S (S (S (S (S (S (S (S (S (S (S (S (S (S (S (S (S (S (S (S
    O)))))))))))))))))))))))))))))))) :: ((S (S (S (S (S (S (S (S (S (S (S (S
    (S (S (S (S (S (S (S (S (S (S (S (S (S (S (S (S (S (S (S (S (S (S (S (S
    (S (S (S (S (S (S (S (S (S (S (S (S (S (S (S (S (S (S (S (S (S (S (S (S
    (S (S (S (S (S (S (S (S (S (S (S (S (S (S (S (S (S (S (S (S (S (S (S (S
    (S (S (S (S (S (S (S (S (S (S (S (S (S (S (S (S (S (S (S (S (S (S (S (S
    (S (S (S (S (S (S (S (S (S (S (S (S (S (S (S (S (S (S (S (S (S (S (S (S
    (S
    O))))))))))))))))))))))))))))))))))))))))))))))))))))))))))))))))))))))))))))))))))))))))))))))))))))))))))))))))))))))))))))))))))))) :: ((S
    (S (S (S (S (S (S (S (S (S (S (S (S (S (S (S (S (S (S (S (S (S (S (S (S
    (S (S (S (S (S (S (S (S (S (S (S (S (S (S (S (S (S (S (S (S (S (S (S (S
    (S (S (S (S (S (S (S (S (S (S (S (S (S (S (S (S (S (S (S (S (S (S (S (S
    (S (S (S (S (S (S (S (S (S (S (S (S (S (S (S (S (S (S (S (S (S (S (S (S
    (S (S (S (S (S (S (S (S (S (S (S (S (S (S (S (S (S (S (S (S (S (S (S (S
    (S (S (S (S (S (S (S (S (S (S (S (S (S (S (S (S (S (S (S (S (S (S (S (S
    (S (S (S (S (S (S (S (S (S (S (S (S (S (S (S
    O)))))))))))))))))))))))))))))))))))))))))))))))))))))))))))))))))))))))))))))))))))))))))))))))))))))))))))))))))))))))))))))))))))))))))))))))))))))))))))))))) :: [])))))))))))

(** val re_word_codes : nat list **)

let re_word_codes =
  (S (S (S (S (S (S (S (S (S (S (S (S (S (S (S (S (S (S (S (S (S (S (S (S (S
    (S (S (S (S (S (S (S (S (S (S (S (S (S (S (S (S (S (S (S (S (S (S (S
    O)))))))))))))))))))))))))))))))))))))))))))))))) :: ((S (S (S (S (S (S
    (S (S (S (S (S (S (S (S (S (S (S (S (S (S (S (S (S (S (S (S (S (S (S (S
    (S (S (S (S (S (S (S (S (S (S (S (S (S (S (S (S (S (S (S
    O))))))))))))))))))))))))))))))))))))))))))))))))) :: ((S (S (S (S (S (S
    (S (S (S (S (S (S (S (S (S (S (S (S (S (S (S (S (S (S (S (S (S (S (S (S
    (S (S (S (S (S (S (S (S (S (S (S (S (S (S (S (S (S (S (S (S
    O)))))))))))))))))))))))))))))))))))))))))))))))))) :: ((S (S (S (S (S (S
    (S (S (S (S (S (S (S (S (S (S (S (S (S (S (S (S (S (S (S (S (S (S (S (S
    (S (S (S (S (S (S (S (S (S (S (S (S (S (S (S (S (S (S (S (S (S
    O))))))))))))))))))))))))))))))))))))))))))))))))))) :: ((S (S (S (S (S
    (S (S (S (S (S (S (S (S (S (S (S (S (S (S (S (S (S (S (S (S (S (S (S (S
    (S (S (S (S (S (S (S (S (S (S (S (S (S (S (S (S (S (S (S (S (S (S (S
    O)))))))))))))))))))))))))))))))))))))))))))))))))))) :: ((S (S (S (S (S
    (S (S (S (S (S (S (S (S (S (S (S (S (S (S (S (S (S (S (S (S (S (S (S (S
    (S (S (S (S (S (S (S (S (S (S (S (S (S (S (S (S (S (S (S (S (S (S (S (S
    O))))))))))))))))))))))))))))))))))))))))))))))))))))) :: ((S (S (S (S (S
    (S (S (S (S (S (S (S (S (S (S (S (S (S (S (S (S (S (S (S (S (S (S (S (S
    (S (S (S (S (S (S (S (S (S (S (S (S (S (S (S (S (S (S (S (S (S (S (S (S
    (S O)))))))))))))))))))))))))))))))))))))))))))))))))))))) :: ((S (S (S
    (S (S (S (S (S (S (S (S (S (S (S (S (S (S (S (S (S (S (S (S (S (S (S (S
    (S (S (S (S (S (S (S (S (S (S (S (S (S (S (S (S (S (S (S (S (S (S (S (S
    (S (S (S (S
    O))))))))))))))))))))))))))))))))))))))))))))))))))))))) :: ((S (S (S (S
    (S (S (S (S (S (S (S (S (S (S (S (S (S (S (S (S (S (S (S (S (S (S (S (S
    (S (S (S (S (S (S (S (S (S (S (S (S (S (S (S (S (S (S (S (S (S (S (S (S
    (S (S (S (S
    O)))))))))))))))))))))))))))))))))))))))))))))))))))))))) :: ((S (S (S (S
    (S (S (S (S (S (S (S (S (S (S (S (S (S (S (S (S (S (S (S (S (S (S (S (S
    (S (S (S (S (S (S (S (S (S (S (S (S (S (S (S (S (S (S (S (S (S (S (S (S
    (S (S (S (S (S
    O))))))))))))))))))))))))))))))))))))))))))))))))))))))))) :: ((S (S (S
    (S (S (S (S (S (S (S (S (S (S (S (S (S (S (S (S (S (S (S (S (S (S (S (S
    (S (S (S (S (S (S (S (S (S (S (S (S (S (S (S (S (S (S (S (S (S (S (S (S
    (S (S (S (S (S (S (S (S (S (S (S (S (S (S
    O))))))))))))))))))))))))))))))))))))))))))))))))))))))))))))))))) :: ((S
    (S (S (S (S (S (S (S (S (S (S (S (S (S (S (S (S (S (S (S (S (S (S (S (S
    (S (S (S (S (S (S (S (S (S (S (S (S (S (S (S (S (S (S (S (S (S (S (S (S
    (S (S (S (S (S (S (S (S (S (S (S (S (S (S (S (S (S
    O)))))))))))))))))))))))))))))))))))))))))))))))))))))))))))))))))) :: ((S
    (S (S (S (S (S (S (S (S (S (S (S (S (S (S (S (S (S (S (S (S (S (S (S (S
    (S (S (S (S (S (S (S (S (S (S (S (S (S (S (S (S (S (S (S (S (S (S (S (S
    (S (S (S (S (S (S (S (S (S (S (S (S (S (S (S (S (S (S
    O))))))))))))))))))))))))))))))))))))))))))))))))))))))))))))))))))) :: ((S
    (S (S (S (S (S (S (S (S (S (S (S (S (S (S (S (S (S (S (S (S (S (S (S (S
    (S (S (S (S (S (S (S (S (S (S (S (S (S (S (S (S (S (S (S (S (S (S (S (S
    (S (S (S (S (S (S (S (S (S (S (S (S (S (S (S (S (S (S (S
    O)))))))))))))))))))))))))))))))))))))))))))))))))))))))))))))))))))) :: ((S
    (S (S (S (S (S (S (S (S (S (S (S (S (S (S (S (S (S (S (S (S (S (S (S (S
    (S (S (S (S (S (S (S (S (S (S (S (S (S (S (S (S (S (S (S (S (S (S (S (S
    (S (S (S (S (S (S (S (S (S (S (S (S (S (S (S (S (S (S (S (S
    O))))))))))))))))))))))))))))))))))))))))))))))))))))))))))))))))))))) :: ((S
    (S (S (S (S (S (S (S (S (S (S (S (S (S (S (S (S (S (S (S (S (S (S (S (S
    (S (S (S (S (S (S (S (S (S (S (S (S (S (S (S (S (S (S (S (S (S (S (S (S
    (S (S (S (S (S (S (S (S (S (S (S (S (S (S (S (S (S (S (S (S (S
    O)))))))))))))))))))))))))))))))))))))))))))))))))))))))))))))))))))))) :: ((S
    (S (S (S (S (S (S (S (S (S (S (S (S (S (S (S (S (S (S (S (S (S (S (S (S
    (S (S (S (S (S (S (S (S (S (S (S (S (S (S (S (S (S (S (S (S (S (S (S (S
    (S (S (S (S (S (S (S (S (S (S (S (S (S (S (S (S (S (S (S (S (S (S
    O))))))))))))))))))))))))))))))))))))))))))))))))))))))))))))))))))))))) :: ((S
    (S (S (S (S (S (S (S (S (S (S (S (S (S (S (S (S (S (S (S (S (S (S (S (S
    (S (S (S (S (S (S (S (S (S (S (S (S (S (S (S (S (S (S (S (S (S (S (S (S
    (S (S (S (S (S (S (S (S (S (S (S (S (S (S (S (S (S (S (S (S (S (S (S
    O)))))))))))))))))))))))))))))))))))))))))))))))))))))))))))))))))))))))) :: ((S
    (S (S (S (S (S (S (S (S (S (S (S (S (S (S (S (S (S (S (S (S (S (S (S (S
    (S (S (S (S (S (S (S (S (S (S (S (S (S (S (S (S (S (S (S (S (S (S (S (S
    (S (S (S (S (S (S (S (S (S (S (S (S (S (S (S (S (S (S (S (S (S (S (S (S
    O))))))))))))))))))))))))))))))))))))))))))))))))))))))))))))))))))))))))) :: ((S
    (S (S (S (S (S (S (S (S (S (S (S (S (S (S (S (S (S (S (S (S (S (S (S (S
    (S (S (S (S (S (S (S (S (S (S (S (S (S (S (S (S (S (S (S (S (S (S (S (S
    (S (S (S (S (S (S (S (S (S (S (S (S (S (S (S (S (S (S (S (S (S (S (S (S
    (S
    O)))))))))))))))))))))))))))))))))))))))))))))))))))))))))))))))))))))))))) :: ((S
    (S (S (S (S (S (S (S (S (S (S (S (S (S (S (S (S (S (S (S (S (S (S (S (S
    (S (S (S (S (S (S (S (S (S (S (S (S (S (S (S (S (S (S (S (S (S (S (S (S
    (S (S (S (S (S (S (S (S (S (S (S (S (S (S (S (S (S (S (S (S (S (S (S (S
    (S (S
    O))))))))))))))))))))))))))))))))))))))))))))))))))))))))))))))))))))))))))) :: ((S
    (S (S (S (S (S (S (S (S (S (S (S (S (S (S (S (S (S (S (S (S (S (S (S (S
    (S (S (S (S (S (S (S (S (S (S (S (S (S (S (S (S (S (S (S (S (S (S (S (S
    (S (S (S (S (S (S (S (S (S (S (S (S (S (S (S (S (S (S (S (S (S (S (S (S
    (S (S (S
    O)))))))))))))))))))))))))))))))))))))))))))))))))))))))))))))))))))))))))))) :: ((S
    (S (S (S (S (S (S (S (S (S (S (S (S (S (S (S (S (S (S (S (S (S (S (S (S
    (S (S (S (S (S (S (S (S (S (S (S (S (S (S (S (S (S (S (S (S (S (S (S (S
    (S (S (S (S (S (S (S (S (S (S (S (S (S (S (S (S (S (S (S (S (S (S (S (S
    (S (S (S (S
    O))))))))))))))))))))))))))))))))))))))))))))))))))))))))))))))))))))))))))))) :: ((S
    (S (S (S (S (S (S (S (S (S (S (S (S (S (S (S (S (S (S (S (S (S (S (S (S
    (S (S (S (S (S (S (S (S (S (S (S (S (S (S (S (S (S (S (S (S (S (S (S (S
    (S (S (S (S (S (S (S (S (S (S (S (S (S (S (S (S (S (S (S (S (S (S (S (S
    (S (S (S (S (S
    O)))))))))))))))))))))))))))))))))))))))))))))))))))))))))))))))))))))))))))))) :: ((S
    (S (S (S (S (S (S (S (S (S (S (S (S (S (S (S (S (S (S (S (S (S (S (S (S
    (S (S (S (S (S (S (S (S (S (S (S (S (S (S (S (S (S (S (S (S (S (S (S (S
    (S (S (S (S (S (S (S (S (S (S (S (S (S (S (S (S (S (S (S (S (S (S (S (S
    (S (S (S (S (S (S
    O))))))))))))))))))))))))))))))))))))))))))))))))))))))))))))))))))))))))))))))) :: ((S
    (S (S (S (S (S (S (S (S (S (S (S (S (S (S (S (S (S (S (S (S (S (S (S (S
    (S (S (S (S (S (S (S (S (S (S (S (S (S (S (S (S (S (S (S (S (S (S (S (S
    (S (S (S (S (S (S (S (S (S (S (S (S (S (S (S (S (S (S (S (S (S (S (S (S
    (S (S (S (S (S (S (S
    O)))))))))))))))))))))))))))))))))))))))))))))))))))))))))))))))))))))))))))))))) :: ((S
    (S (S (S (S (S (S (S (S (S (S (S (S (S (S (S (S (S (S (S (S (S (S (S (S
    (S (S (S (S (S (S (S (S (S (S (S (S (S (S (S (S (S (S (S (S (S (S (S (S
    (S (S (S (S (S (S (S (S (S (S (S (S (S (S (S (S (S (S (S (S (S (S (S (S
    (S (S (S (S (S (S (S (S
    O))))))))))))))))))))))))))))))))))))))))))))))))))))))))))))))))))))))))))))))))) :: ((S
    (S (S (S (S (S (S (S (S (S (S (S (S (S (S (S (S (S (S (S (S (S (S (S (S
    (S (S (S (S (S (S (S (S (S (S (S (S (S (S (S (S (S (S (S (S (S (S (S (S
    (S (S (S (S (S (S (S (S (S (S (S (S (S (S (S (S (S (S (S (S (S (S (S (S
    (S (S (S (S (S (S (S (S (S
    O)))))))))))))))))))))))))))))))))))))))))))))))))))))))))))))))))))))))))))))))))) :: ((S
    (S (S (S (S (S (S (S (S (S (S (S (S (S (S (S (S (S (S (S (S (S (S (S (S
    (S (S (S (S (S (S (S (S (S (S (S (S (S (S (S (S (S (S (S (S (S (S (S (S
    (S (S (S (S (S (S (S (S (S (S (S (S (S (S (S (S (S (S (S (S (S (S (S (S
    (S (S (S (S (S (S (S (S (S (S
    O))))))))))))))))))))))))))))))))))))))))))))))))))))))))))))))))))))))))))))))))))) :: ((S
    (S (S (S (S (S (S (S (S (S (S (S (S (S (S (S (S (S (S (S (S (S (S (S (S
    (S (S (S (S (S (S (S (S (S (S (S (S (S (S (S (S (S (S (S (S (S (S (S (S
    (S (S (S (S (S (S (S (S (S (S (S (S (S (S (S (S (S (S (S (S (S (S (S (S
    (S (S (S (S (S (S (S (S (S (S (S
    O)))))))))))))))))))))))))))))))))))))))))))))))))))))))))))))))))))))))))))))))))))) :: ((S
    (S (S (S (S (S (S (S (S (S (S (S (S (S (S (S (S (S (S (S (S (S (S (S (S
    (S (S (S (S (S (S (S (S (S (S (S (S (S (S (S (S (S (S (S (S (S (S (S (S
    (S (S (S (S (S (S (S (S (S (S (S (S (S (S (S (S (S (S (S (S (S (S (S (S
    (S (S (S (S (S (S (S (S (S (S (S (S
    O))))))))))))))))))))))))))))))))))))))))))))))))))))))))))))))))))))))))))))))))))))) :: ((S
    (S (S (S (S (S (S (S (S (S (S (S (S (S (S (S (S (S (S (S (S (S (S (S (S
    (S (S (S (S (S (S (S (S (S (S (S (S (S (S (S (S (S (S (S (S (S (S (S (S
    (S (S (S (S (S (S (S (S (S (S (S (S (S (S (S (S (S (S (S (S (S (S (S (S
    (S (S (S (S (S (S (S (S (S (S (S (S (S
    O)))))))))))))))))))))))))))))))))))))))))))))))))))))))))))))))))))))))))))))))))))))) :: ((S
    (S (S (S (S (S (S (S (S (S (S (S (S (S (S (S (S (S (S (S (S (S (S (S (S
    (S (S (S (S (S (S (S (S (S (S (S (S (S (S (S (S (S (S (S (S (S (S (S (S
    (S (S (S (S (S (S (S (S (S (S (S (S (S (S (S (S (S (S (S (S (S (S (S (S
    (S (S (S (S (S (S (S (S (S (S (S (S (S (S
    O))))))))))))))))))))))))))))))))))))))))))))))))))))))))))))))))))))))))))))))))))))))) :: ((S
    (S (S (S (S (S (S (S (S (S (S (S (S (S (S (S (S (S (S (S (S (S (S (S (S
    (S (S (S (S (S (S (S (S (S (S (S (S (S (S (S (S (S (S (S (S (S (S (S (S
    (S (S (S (S (S (S (S (S (S (S (S (S (S (S (S (S (S (S (S (S (S (S (S (S
    (S (S (S (S (S (S (S (S (S (S (S (S (S (S (S
    O)))))))))))))))))))))))))))))))))))))))))))))))))))))))))))))))))))))))))))))))))))))))) :: ((S
    (S (S (S (S (S (S (S (S (S (S (S (S (S (S (S (S (S (S (S (S (S (S (S (S
    (S (S (S (S (S (S (S (S (S (S (S (S (S (S (S (S (S (S (S (S (S (S (S (S
    (S (S (S (S (S (S (S (S (S (S (S (S (S (S (S (S (S (S (S (S (S (S (S (S
    (S (S (S (S (S (S (S (S (S (S (S (S (S (S (S (S
    O))))))))))))))))))))))))))))))))))))))))))))))))))))))))))))))))))))))))))))))))))))))))) :: ((S
    (S (S (S (S (S (S (S (S (S (S (S (S (S (S (S (S (S (S (S (S (S (S (S (S
    (S (S (S (S (S (S (S (S (S (S (S (S (S (S (S (S (S (S (S (S (S (S (S (S
    (S (S (S (S (S (S (S (S (S (S (S (S (S (S (S (S (S (S (S (S (S (S (S (S
    (S (S (S (S (S (S (S (S (S (S (S (S (S (S (S (S (S
    O)))))))))))))))))))))))))))))))))))))))))))))))))))))))))))))))))))))))))))))))))))))))))) :: ((S
    (S (S (S (S (S (S (S (S (S (S (S (S (S (S (S (S (S (S (S (S (S (S (S (S
    (S (S (S (S (S (S (S (S (S (S (S (S (S (S (S (S (S (S (S (S (S (S (S (S
    (S (S (S (S (S (S (S (S (S (S (S (S (S (S (S (S (S (S (S (S (S (S (S (S
    (S (S (S (S (S (S (S (S (S (S (S (S (S (S (S (S (S (S (S (S (S (S
    O))))))))))))))))))))))))))))))))))))))))))))))))))))))))))))))))))))))))))))))))))))))))))))))) :: ((S
    (S (S (S (S (S (S (S (S (S (S (S (S (S (S (S (S (S (S (S (S (S (S (S (S
    (S (S (S (S (S (S (S (S (S (S (S (S (S (S (S (S (S (S (S (S (S (S (S (S
    (S (S (S (S (S (S (S (S (S (S (S (S (S (S (S (S (S (S (S (S (S (S (S (S
    (S (S (S (S (S (S (S (S (S (S (S (S (S (S (S (S (S (S (S (S (S (S (S (S
    O))))))))))))))))))))))))))))))))))))))))))))))))))))))))))))))))))))))))))))))))))))))))))))))))) :: ((S
    (S (S (S (S (S (S (S (S (S (S (S (S (S (S (S (S (S (S (S (S (S (S (S (S
    (S (S (S (S (S (S (S (S (S (S (S (S (S (S (S (S (S (S (S (S (S (S (S (S
    (S (S (S (S (S (S (S (S (S (S (S (S (S (S (S (S (S (S (S (S (S (S (S (S
    (S (S (S (S (S (S (S (S (S (S (S (S (S (S (S (S (S (S (S (S (S (S (S (S
    (S
    O)))))))))))))))))))))))))))))))))))))))))))))))))))))))))))))))))))))))))))))))))))))))))))))))))) :: ((S
    (S (S (S (S (S (S (S (S (S (S (S (S (S (S (S (S (S (S (S (S (S (S (S (S
    (S (S (S (S (S (S (S (S (S (S (S (S (S (S (S (S (S (S (S (S (S (S (S (S
    (S (S (S (S (S (S (S (S (S (S (S (S (S (S (S (S (S (S (S (S (S (S (S (S
    (S (S (S (S (S (S (S (S (S (S (S (S (S (S (S (S (S (S (S (S (S (S (S (S
    (S (S
    O))))))))))))))))))))))))))))))))))))))))))))))))))))))))))))))))))))))))))))))))))))))))))))))))))) :: ((S
    (S (S (S (S (S (S (S (S (S (S (S (S (S (S (S (S (S (S (S (S (S (S (S (S
    (S (S (S (S (S (S (S (S (S (S (S (S (S (S (S (S (S (S (S (S (S (S (S (S
    (S (S (S (S (S (S (S (S (S (S (S (S (S (S (S (S (S (S (S (S (S (S (S (S
    (S (S (S (S (S (S (S (S (S (S (S (S (S (S (S (S (S (S (S (S (S (S (S (S
    (S (S (S
    O)))))))))))))))))))))))))))))))))))))))))))))))))))))))))))))))))))))))))))))))))))))))))))))))))))) :: ((S
    (S (S (S (S (S (S (S (S (S (S (S (S (S (S (S (S (S (S (S (S (S (S (S (S
    (S (S (S (S (S (S (S (S (S (S (S (S (S (S (S (S (S (S (S (S (S (S (S (S
    (S (S (S (S (S (S (S (S (S (S (S (S (S (S (S (S (S (S (S (S (S (S (S (S
    (S (S (S (S (S (S (S (S (S (S (S (S (S (S (S (S (S (S (S (S (S (S (S (S
    (S (S (S (S
    O))))))))))))))))))))))))))))))))))))))))))))))))))))))))))))))))))))))))))))))))))))))))))))))))))))) :: ((S
    (S (S (S (S (S (S (S (S (S (S (S (S (S (S (S (S (S (S (S (S (S (S (S (S
    (S (S (S (S (S (S (S (S (S (S (S (S (S (S (S (S (S (S (S (S (S (S (S (S
    (S (S (S (S (S (S (S (S (S (S (S (S (S (S (S (S (S (S (S (S (S (S (S (S
    (S (S (S (S (S (S (S (S (S (S (S (S (S (S (S (S (S (S (S (S (S (S (S (S
    (S (S (S (S (S
    O)))))))))))))))))))))))))))))))))))))))))))))))))))))))))))))))))))))))))))))))))))))))))))))))))))))) :: ((S
    (S (S (S (S (S (S (S (S (S (S (S (S (S (S (S (S (S (S (S (S (S (S (S (S
    (S (S (S (S (S (S (S (S (S (S (S (S (S (S (S (S (S (S (S (S (S (S (S (S
    (S (S (S (S (S (S (S (S (S (S (S (S (S (S (S (S (S (S (S (S (S (S (S (S
    (S (S (S (S (S (S (S (S (S (S (S (S (S (S (S (S (S (S (S (S (S (S (S (S
    (S (S (S (S (S (S
    O))))))))))))))))))))))))))))))))))))))))))))))))))))))))))))))))))))))))))))))))))))))))))))))))))))))) :: ((S
    (S (S (S (S (S (S (S (S (S (S (S (S (S (S (S (S (S (S (S (S (S (S (S (S
    (S (S (S (S (S (S (S (S (S (S (S (S (S (S (S (S (S (S (S (S (S (S (S (S
    (S (S (S (S (S (S (S (S (S (S (S (S (S (S (S (S (S (S (S (S (S (S (S (S
    (S (S (S (S (S (S (S (S (S (S (S (S (S (S (S (S (S (S (S (S (S (S (S (S
    (S (S (S (S (S (S (S
    O)))))))))))))))))))))))))))))))))))))))))))))))))))))))))))))))))))))))))))))))))))))))))))))))))))))))) :: ((S
    (S (S (S (S (S (S (S (S (S (S (S (S (S (S (S (S (S (S (S (S (S (S (S (S
    (S (S (S (S (S (S (S (S (S (S (S (S (S (S (S (S (S (S (S (S (S (S (S (S
    (S (S (S (S (S (S (S (S (S (S (S (S (S (S (S (S (S (S (S (S (S (S (S (S
    (S (S (S (S (S (S (S (S (S (S (S (S (S (S (S (S (S (S (S (S (S (S (S (S
    (S (S (S (S (S (S (S (S
    O))))))))))))))))))))))))))))))))))))))))))))))))))))))))))))))))))))))))))))))))))))))))))))))))))))))))) :: ((S
    (S (S (S (S (S (S (S (S (S (S (S (S (S (S (S (S (S (S (S (S (S (S (S (S
    (S (S (S (S (S (S (S (S (S (S (S (S (S (S (S (S (S (S (S (S (S (S (S (S
    (S (S (S (S (S (S (S (S (S (S (S (S (S (S (S (S (S (S (S (S (S (S (S (S
    (S (S (S (S (S (S (S (S (S (S (S (S (S (S (S (S (S (S (S (S (S (S (S (S
    (S (S (S (S (S (S (S (S (S
    O)))))))))))))))))))))))))))))))))))))))))))))))))))))))))))))))))))))))))))))))))))))))))))))))))))))))))) :: ((S
    (S (S (S (S (S (S (S (S (S (S (S (S (S (S (S (S (S (S (S (S (S (S (S (S
    (S (S (S (S (S (S (S (S (S (S (S (S (S (S (S (S (S (S (S (S (S (S (S (S
    (S (S (S (S (S (S (S (S (S (S (S (S (S (S (S (S (S (S (S (S (S (S (S (S
    (S (S (S (S (S (S (S (S (S (S (S (S (S (S (S (S (S (S (S (S (S (S (S (S
    (S (S (S (S (S (S (S (S (S (S
    O))))))))))))))))))))))))))))))))))))))))))))))))))))))))))))))))))))))))))))))))))))))))))))))))))))))))))) :: ((S
    (S (S (S (S (S (S (S (S (S (S (S (S (S (S (S (S (S (S (S (S (S (S (S (S
    (S (S (S (S (S (S (S (S (S (S (S (S (S (S (S (S (S (S (S (S (S (S (S (S
    (S (S (S (S (S (S (S (S (S (S (S (S (S (S (S (S (S (S (S (S (S (S (S (S
    (S (S (S (S (S (S (S (S (S (S (S (S (S (S (S (S (S (S (S (S (S (S (S (S
    (S (S (S (S (S (S (S (S (S (S (S
    O)))))))))))))))))))))))))))))))))))))))))))))))))))))))))))))))))))))))))))))))))))))))))))))))))))))))))))) :: ((S
    (S (S (S (S (S (S (S (S (S (S (S (S (S (S (S (S (S (S (S (S (S (S (S (S
    (S (S (S (S (S (S (S (S (S (S (S (S (S (S (S (S (S (S (S (S (S (S (S (S
    (S (S (S (S (S (S (S (S (S (S (S (S (S (S (S (S (S (S (S (S (S (S (S (S
    (S (S (S (S (S (S (S (S (S (S (S (S (S (S (S (S (S (S (S (S (S (S (S (S
    (S (S (S (S (S (S (S (S (S (S (S (S
    O))))))))))))))))))))))))))))))))))))))))))))))))))))))))))))))))))))))))))))))))))))))))))))))))))))))))))))) :: ((S
    (S (S (S (S (S (S (S (S (S (S (S (S (S (S (S (S (S (S (S (S (S (S (S (S
    (S (S (S (S (S (S (S (S (S (S (S (S (S (S (S (S (S (S (S (S (S (S (S (S
    (S (S (S (S (S (S (S (S (S (S (S (S (S (S (S (S (S (S (S (S (S (S (S (S
    (S (S (S (S (S (S (S (S (S (S (S (S (S (S (S (S (S (S (S (S (S (S (S (S
    (S (S (S (S (S (S (S (S (S (S (S (S (S
    O)))))))))))))))))))))))))))))))))))))))))))))))))))))))))))))))))))))))))))))))))))))))))))))))))))))))))))))) :: ((S
    (S (S (S (S (S (S (S (S (S (S (S (S (S (S (S (S (S (S (S (S (S (S (S (S
    (S (S (S (S (S (S (S (S (S (S (S (S (S (S (S (S (S (S (S (S (S (S (S (S
    (S (S (S (S (S (S (S (S (S (S (S (S (S (S (S (S (S (S (S (S (S (S (S (S
    (S (S (S (S (S (S (S (S (S (S (S (S (S (S (S (S (S (S (S (S (S (S (S (S
    (S (S (S (S (S (S (S (S (S (S (S (S (S (S
    O))))))))))))))))))))))))))))))))))))))))))))))))))))))))))))))))))))))))))))))))))))))))))))))))))))))))))))))) :: ((S
    (S (S (S (S (S (S (S (S (S (S (S (S (S (S (S (S (S (S (S (S (S (S (S (S
    (S (S (S (S (S (S (S (S (S (S (S (S (S (S (S (S (S (S (S (S (S (S (S (S
    (S (S (S (S (S (S (S (S (S (S (S (S (S (S (S (S (S (S (S (S (S (S (S (S
    (S (S (S (S (S (S (S (S (S (S (S (S (S (S (S (S (S (S (S (S (S (S (S (S
    (S (S (S (S (S (S (S (S (S (S (S (S (S (S (S
    O)))))))))))))))))))))))))))))))))))))))))))))))))))))))))))))))))))))))))))))))))))))))))))))))))))))))))))))))) :: ((S
    (S (S (S (S (S (S (S (S (S (S (S (S (S (S (S (S (S (S (S (S (S (S (S (S
    (S (S (S (S (S (S (S (S (S (S (S (S (S (S (S (S (S (S (S (S (S (S (S (S
    (S (S (S (S (S (S (S (S (S (S (S (S (S (S (S (S (S (S (S (S (S (S (S (S
    (S (S (S (S (S (S (S (S (S (S (S (S (S (S (S (S (S (S (S (S (S (S (S (S
    (S (S (S (S (S (S (S (S (S (S (S (S (S (S (S (S
    O))))))))))))))))))))))))))))))))))))))))))))))))))))))))))))))))))))))))))))))))))))))))))))))))))))))))))))))))) :: ((S
    (S (S (S (S (S (S (S (S (S (S (S (S (S (S (S (S (S (S (S (S (S (S (S (S
    (S (S (S (S (S (S (S (S (S (S (S (S (S (S (S (S (S (S (S (S (S (S (S (S
    (S (S (S (S (S (S (S (S (S (S (S (S (S (S (S (S (S (S (S (S (S (S (S (S
    (S (S (S (S (S (S (S (S (S (S (S (S (S (S (S (S (S (S (S (S (S (S (S (S
    (S (S (S (S (S (S (S (S (S (S (S (S (S (S (S (S (S
    O)))))))))))))))))))))))))))))))))))))))))))))))))))))))))))))))))))))))))))))))))))))))))))))))))))))))))))))))))) :: ((S
    (S (S (S (S (S (S (S (S (S (S (S (S (S (S (S (S (S (S (S (S (S (S (S (S
    (S (S (S (S (S (S (S (S (S (S (S (S (S (S (S (S (S (S (S (S (S (S (S (S
    (S (S (S (S (S (S (S (S (S (S (S (S (S (S (S (S (S (S (S (S (S (S (S (S
    (S (S (S (S (S (S (S (S (S (S (S (S (S (S (S (S (S (S (S (S (S (S (S (S
    (S (S (S (S (S (S (S (S (S (S (S (S (S (S (S (S (S (S
    O))))))))))))))))))))))))))))))))))))))))))))))))))))))))))))))))))))))))))))))))))))))))))))))))))))))))))))))))))) :: ((S
    (S (S (S (S (S (S (S (S (S (S (S (S (S (S (S (S (S (S (S (S (S (S (S (S
    (S (S (S (S (S (S (S (S (S (S (S (S (S (S (S (S (S (S (S (S (S (S (S (S
    (S (S (S (S (S (S (S (S (S (S (S (S (S (S (S (S (S (S (S (S (S (S (S (S
    (S (S (S (S (S (S (S (S (S (S (S (S (S (S (S (S (S (S (S (S (S (S (S (S
    (S (S (S (S (S (S (S (S (S (S (S (S (S (S (S (S (S (S (S
    O)))))))))))))))))))))))))))))))))))))))))))))))))))))))))))))))))))))))))))))))))))))))))))))))))))))))))))))))))))) :: ((S
    (S (S (S (S (S (S (S (S (S (S (S (S (S (S (S (S (S (S (S (S (S (S (S (S
    (S (S (S (S (S (S (S (S (S (S (S (S (S (S (S (S (S (S (S (S (S (S (S (S
    (S (S (S (S (S (S (S (S (S (S (S (S (S (S (S (S (S (S (S (S (S (S (S (S
    (S (S (S (S (S (S (S (S (S (S (S (S (S (S (S (S (S (S (S (S (S (S (S (S
    (S (S (S (S (S (S (S (S (S (S (S (S (S (S (S (S (S (S (S (S
    O))))))))))))))))))))))))))))))))))))))))))))))))))))))))))))))))))))))))))))))))))))))))))))))))))))))))))))))))))))) :: ((S
    (S (S (S (S (S (S (S (S (S (S (S (S (S (S (S (S (S (S (S (S (S (S (S (S
    (S (S (S (S (S (S (S (S (S (S (S (S (S (S (S (S (S (S (S (S (S (S (S (S
    (S (S (S (S (S (S (S (S (S (S (S (S (S (S (S (S (S (S (S (S (S (S (S (S
    (S (S (S (S (S (S (S (S (S (S (S (S (S (S (S (S (S (S (S (S (S (S (S (S
    (S (S (S (S (S (S (S (S (S (S (S (S (S (S (S (S (S (S (S (S (S
    O)))))))))))))))))))))))))))))))))))))))))))))))))))))))))))))))))))))))))))))))))))))))))))))))))))))))))))))))))))))) :: ((S
    (S (S (S (S (S (S (S (S (S (S (S (S (S (S (S (S (S (S (S (S (S (S (S (S
    (S (S (S (S (S (S (S (S (S (S (S (S (S (S (S (S (S (S (S (S (S (S (S (S
    (S (S (S (S (S (S (S (S (S (S (S (S (S (S (S (S (S (S (S (S (S (S (S (S
    (S (S (S (S (S (S (S (S (S (S (S (S (S (S (S (S (S (S (S (S (S (S (S (S
    (S (S (S (S (S (S (S (S (S (S (S (S (S (S (S (S (S (S (S (S (S (S
    O))))))))))))))))))))))))))))))))))))))))))))))))))))))))))))))))))))))))))))))))))))))))))))))))))))))))))))))))))))))) :: ((S
    (S (S (S (S (S (S (S (S (S (S (S (S (S (S (S (S (S (S (S (S (S (S (S (S
    (S (S (S (S (S (S (S (S (S (S (S (S (S (S (S (S (S (S (S (S (S (S (S (S
    (S (S (S (S (S (S (S (S (S (S (S (S (S (S (S (S (S (S (S (S (S (S (S (S
    (S (S (S (S (S (S (S (S (S (S (S (S (S (S (S (S (S (S (S (S (S (S (S (S
    (S (S (S (S (S (S (S (S (S (S (S (S (S (S (S (S (S (S (S (S (S (S (S
    O)))))))))))))))))))))))))))))))))))))))))))))))))))))))))))))))))))))))))))))))))))))))))))))))))))))))))))))))))))))))) :: ((S
    (S (S (S (S (S (S (S (S (S (S (S (S (S (S (S (S (S (S (S (S (S (S (S (S
    (S (S (S (S (S (S (S (S (S (S (S (S (S (S (S (S (S (S (S (S (S (S (S (S
    (S (S (S (S (S (S (S (S (S (S (S (S (S (S (S (S (S (S (S (S (S (S (S (S
    (S (S (S (S (S (S (S (S (S (S (S (S (S (S (S (S (S (S (S (S (S (S (S (S
    (S (S (S (S (S (S (S (S (S (S (S (S (S (S (S (S (S (S (S (S (S (S (S (S
    O))))))))))))))))))))))))))))))))))))))))))))))))))))))))))))))))))))))))))))))))))))))))))))))))))))))))))))))))))))))))) :: ((S
    (S (S (S (S (S (S (S (S (S (S (S (S (S (S (S (S (S (S (S (S (S (S (S (S
    (S (S (S (S (S (S (S (S (S (S (S (S (S (S (S (S (S (S (S (S (S (S (S (S
    (S (S (S (S (S (S (S (S (S (S (S (S (S (S (S (S (S (S (S (S (S (S (S (S
    (S (S (S (S (S (S (S (S (S (S (S (S (S (S (S (S (S (S (S (S (S (S (S (S
    (S (S (S (S (S (S (S (S (S (S (S (S (S (S (S (S (S (S (S (S (S (S (S (S
    (S
    O)))))))))))))))))))))))))))))))))))))))))))))))))))))))))))))))))))))))))))))))))))))))))))))))))))))))))))))))))))))))))) :: ((S
    (S (S (S (S (S (S (S (S (S (S (S (S (S (S (S (S (S (S (S (S (S (S (S (S
    (S (S (S (S (S (S (S (S (S (S (S (S (S (S (S (S (S (S (S (S (S (S (S (S
    (S (S (S (S (S (S (S (S (S (S (S (S (S (S (S (S (S (S (S (S (S (S (S (S
    (S (S (S (S (S (S (S (S (S (S (S (S (S (S (S (S (S (S (S (S (S (S (S (S
    (S (S (S (S (S (S (S (S (S (S (S (S (S (S (S (S (S (S (S (S (S (S (S (S
    (S (S (S (S (S (S (S (S (S (S (S (S (S (S (S (S (S (S (S (S (S (S (S (S
    (S (S (S (S (S (S (S (S (S (S (S (S (S (S (S (S (S (S (S (S (S (S (S (S
    (S
    O)))))))))))))))))))))))))))))))))))))))))))))))))))))))))))))))))))))))))))))))))))))))))))))))))))))))))))))))))))))))))))))))))))))))))))))))))))))))))))))))))))))))))) :: ((S
    (S (S (S (S (S (S (S (S (S (S (S (S (S (S (S (S (S (S (S (S (S (S (S (S
    (S (S (S (S (S (S (S (S (S (S (S (S (S (S (S (S (S (S (S (S (S (S (S (S
    (S (S (S (S (S (S (S (S (S (S (S (S (S (S (S (S (S (S (S (S (S (S (S (S
    (S (S (S (S (S (S (S (S (S (S (S (S (S (S (S (S (S (S (S (S (S (S (S (S
    (S (S (S (S (S (S (S (S (S (S (S (S (S (S (S (S (S (S (S (S (S (S (S (S
    (S (S (S (S (S (S (S (S (S (S (S (S (S (S (S (S (S (S (S (S (S (S (S (S
    (S (S (S (S (S (S (S (S (S (S (S (S (S (S (S (S (S (S (S (S (S (S (S (S
    (S (S (S (S (S (S (S (S (S
    O)))))))))))))))))))))))))))))))))))))))))))))))))))))))))))))))))))))))))))))))))))))))))))))))))))))))))))))))))))))))))))))))))))))))))))))))))))))))))))))))))))))))))))))))))) :: ((S
    (S (S (S (S (S (S (S (S (S (S (S (S (S (S (S (S (S (S (S (S (S (S (S (S
    (S (S (S (S (S (S (S (S (S (S (S (S (S (S (S (S (S (S (S (S (S (S (S (S
    (S (S (S (S (S (S (S (S (S (S (S (S (S (S (S (S (S (S (S (S (S (S (S (S
    (S (S (S (S (S (S (S (S (S (S (S (S (S (S (S (S (S (S (S (S (S (S (S (S
    (S (S (S (S (S (S (S (S (S (S (S (S (S (S (S (S (S (S (S (S (S (S (S (S
    (S (S (S (S (S (S (S (S (S (S (S (S (S (S (S (S (S (S (S (S (S (S (S (S
    (S (S (S (S (S (S (S (S (S (S (S (S (S (S (S (S (S (S (S (S (S (S (S (S
    (S (S (S (S (S (S (S (S (S (S
    O))))))))))))))))))))))))))))))))))))))))))))))))))))))))))))))))))))))))))))))))))))))))))))))))))))))))))))))))))))))))))))))))))))))))))))))))))))))))))))))))))))))))))))))))))) :: ((S
    (S (S (S (S (S (S (S (S (S (S (S (S (S (S (S (S (S (S (S (S (S (S (S (S
    (S (S (S (S (S (S (S (S (S (S (S (S (S (S (S (S (S (S (S (S (S (S (S (S
    (S (S (S (S (S (S (S (S (S (S (S (S (S (S (S (S (S (S (S (S (S (S (S (S
    (S (S (S (S (S (S (S (S (S (S (S (S (S (S (S (S (S (S (S (S (S (S (S (S
    (S (S (S (S (S (S (S (S (S (S (S (S (S (S (S (S (S (S (S (S (S (S (S (S
    (S (S (S (S (S (S (S (S (S (S (S (S (S (S (S (S (S (S (S (S (S (S (S (S
    (S (S (S (S (S (S (S (S (S (S (S (S (S (S (S (S (S (S (S (S (S (S (S (S
    (S (S (S (S (S (S (S (S (S (S (S (S
    O))))))))))))))))))))))))))))))))))))))))))))))))))))))))))))))))))))))))))))))))))))))))))))))))))))))))))))))))))))))))))))))))))))))))))))))))))))))))))))))))))))))))))))))))))))) :: ((S
    (S (S (S (S (S (S (S (S (S (S (S (S (S (S (S (S (S (S (S (S (S (S (S (S
    (S (S (S (S (S (S (S (S (S (S (S (S (S (S (S (S (S (S (S (S (S (S (S (S
    (S (S (S (S (S (S (S (S (S (S (S (S (S (S (S (S (S (S (S (S (S (S (S (S
    (S (S (S (S (S (S (S (S (S (S (S (S (S (S (S (S (S (S (S (S (S (S (S (S
    (S (S (S (S (S (S (S (S (S (S (S (S (S (S (S (S (S (S (S (S (S (S (S (S
    (S (S (S (S (S (S (S (S (S (S (S (S (S (S (S (S (S (S (S (S (S (S (S (S
    (S (S (S (S (S (S (S (S (S (S (S (S (S (S (S (S (S (S (S (S (S (S (S (S
    (S (S (S (S (S (S (S (S (S (S (S (S (S (S (S (S
    O))))))))))))))))))))))))))))))))))))))))))))))))))))))))))))))))))))))))))))))))))))))))))))))))))))))))))))))))))))))))))))))))))))))))))))))))))))))))))))))))))))))))))))))))))))))))) :: ((S
    (S (S (S (S (S (S (S (S (S (S (S (S (S (S (S (S (S (S (S (S (S (S (S (S
    (S (S (S (S (S (S (S (S (S (S (S (S (S (S (S (S (S (S (S (S (S (S (S (S
    (S (S (S (S (S (S (S (S (S (S (S (S (S (S (S (S (S (S (S (S (S (S (S (S
    (S (S (S (S (S (S (S (S (S (S (S (S (S (S (S (S (S (S (S (S (S (S (S (S
    (S (S (S (S (S (S (S (S (S (S (S (S (S (S (S (S (S (S (S (S (S (S (S (S
    (S (S (S (S (S (S (S (S (S (S (S (S (S (S (S (S (S (S (S (S (S (S (S (S
    (S (S (S (S (S (S (S (S (S (S (S (S (S (S (S (S (S (S (S (S (S (S (S (S
    (S (S (S (S (S (S (S (S (S (S (S (S (S (S (S (S (S
    O)))))))))))))))))))))))))))))))))))))))))))))))))))))))))))))))))))))))))))))))))))))))))))))))))))))))))))))))))))))))))))))))))))))))))))))))))))))))))))))))))))))))))))))))))))))))))) :: ((S
    (S (S (S (S (S (S (S (S (S (S (S (S (S (S (S (S (S (S (S (S (S (S (S (S
    (S (S (S (S (S (S (S (S (S (S (S (S (S (S (S (S (S (S (S (S (S (S (S (S
    (S (S (S (S (S (S (S (S (S (S (S (S (S (S (S (S (S (S (S (S (S (S (S (S
    (S (S (S (S (S (S (S (S (S (S (S (S (S (S (S (S (S (S (S (S (S (S (S (S
    (S (S (S (S (S (S (S (S (S (S (S (S (S (S (S (S (S (S (S (S (S (S (S (S
    (S (S (S (S (S (S (S (S (S (S (S (S (S (S (S (S (S (S (S (S (S (S (S (S
    (S (S (S (S (S (S (S (S (S (S (S (S (S (S (S (S (S (S (S (S (S (S (S (S
    (S (S (S (S (S (S (S (S (S (S (S (S (S (S (S (S (S (S (S
    O)))))))))))))))))))))))))))))))))))))))))))))))))))))))))))))))))))))))))))))))))))))))))))))))))))))))))))))))))))))))))))))))))))))))))))))))))))))))))))))))))))))))))))))))))))))))))))) :: ((S
    (S (S (S (S (S (S (S (S (S (S (S (S (S (S (S (S (S (S (S (S (S (S (S (S
    (S (S (S (S (S (S (S (S (S (S (S (S (S (S (S (S (S (S (S (S (S (S (S (S
    (S (S (S (S (S (S (S (S (S (S (S (S (S (S (S (S (S (S (S (S (S (S (S (S
    (S (S (S (S (S (S (S (S (S (S (S (S (S (S (S (S (S (S (S (S (S (S (S (S
    (S (S (S (S (S (S (S (S (S (S (S (S (S (S (S (S (S (S (S (S (S (S (S (S
    (S (S (S (S (S (S (S (S (S (S (S (S (S (S (S (S (S (S (S (S (S (S (S (S
    (S (S (S (S (S (S (S (S (S (S (S (S (S (S (S (S (S (S (S (S (S (S (S (S
    (S (S (S (S (S (S (S (S (S (S (S (S (S (S (S (S (S (S (S (S
    O))))))))))))))))))))))))))))))))))))))))))))))))))))))))))))))))))))))))))))))))))))))))))))))))))))))))))))))))))))))))))))))))))))))))))))))))))))))))))))))))))))))))))))))))))))))))))))) :: ((S
    (S (S (S (S (S (S (S (S (S (S (S (S (S (S (S (S (S (S (S (S (S (S (S (S
    (S (S (S (S (S (S (S (S (S (S (S (S (S (S (S (S (S (S (S (S (S (S (S (S
    (S (S (S (S (S (S (S (S (S (S (S (S (S (S (S (S (S (S (S (S (S (S (S (S
    (S (S (S (S (S (S (S (S (S (S (S (S (S (S (S (S (S (S (S (S (S (S (S (S
    (S (S (S (S (S (S (S (S (S (S (S (S (S (S (S (S (S (S (S (S (S (S (S (S
    (S (S (S (S (S (S (S (S (S (S (S (S (S (S (S (S (S (S (S (S (S (S (S (S
    (S (S (S (S (S (S (S (S (S (S (S (S (S (S (S (S (S (S (S (S (S (S (S (S
    (S (S (S (S (S (S (S (S (S (S (S (S (S (S (S (S (S (S (S (S (S
    O)))))))))))))))))))))))))))))))))))))))))))))))))))))))))))))))))))))))))))))))))))))))))))))))))))))))))))))))))))))))))))))))))))))))))))))))))))))))))))))))))))))))))))))))))))))))))))))) :: ((S
    (S (S (S (S (S (S (S (S (S (S (S (S (S (S (S (S (S (S (S (S (S (S (S (S
    (S (S (S (S (S (S (S (S (S (S (S (S (S (S (S (S (S (S (S (S (S (S (S (S
    (S (S (S (S (S (S (S (S (S (S (S (S (S (S (S (S (S (S (S (S (S (S (S (S
    (S (S (S (S (S (S (S (S (S (S (S (S (S (S (S (S (S (S (S (S (S (S (S (S
    (S (S (S (S (S (S (S (S (S (S (S (S (S (S (S (S (S (S (S (S (S (S (S (S
    (S (S (S (S (S (S (S (S (S (S (S (S (S (S (S (S (S (S (S (S (S (S (S (S
    (S (S (S (S (S (S (S (S (S (S (S (S (S (S (S (S (S (S (S (S (S (S (S (S
    (S (S (S (S (S (S (S (S (S (S (S (S (S (S (S (S (S (S (S (S (S (S (S
    O)))))))))))))))))))))))))))))))))))))))))))))))))))))))))))))))))))))))))))))))))))))))))))))))))))))))))))))))))))))))))))))))))))))))))))))))))))))))))))))))))))))))))))))))))))))))))))))))) :: ((S
    (S (S (S (S (S (S (S (S (S (S (S (S (S (S (S (S (S (S (S (S (S (S (S (S
    (S (S (S (S (S (S (S (S (S (S (S (S (S (S (S (S (S (S (S (S (S (S (S (S
    (S (S (S (S (S (S (S (S (S (S (S (S (S (S (S (S (S (S (S (S (S (S (S (S
    (S (S (S (S (S (S (S (S (S (S (S (S (S (S (S (S (S (S (S (S (S (S (S (S
    (S (S (S (S (S (S (S (S (S (S (S (S (S (S (S (S (S (S (S (S (S (S (S (S
    (S (S (S (S (S (S (S (S (S (S (S (S (S (S (S (S (S (S (S (S (S (S (S (S
    (S (S (S (S (S (S (S (S (S (S (S (S (S (S (S (S (S (S (S (S (S (S (S (S
    (S (S (S (S (S (S (S (S (S (S (S (S (S (S (S (S (S (S (S (S (S (S (S (S
    O))))))))))))))))))))))))))))))))))))))))))))))))))))))))))))))))))))))))))))))))))))))))))))))))))))))))))))))))))))))))))))))))))))))))))))))))))))))))))))))))))))))))))))))))))))))))))))))))) :: ((S
    (S (S (S (S (S (S (S (S (S (S (S (S (S (S (S (S (S (S (S (S (S (S (S (S
    (S (S (S (S (S (S (S (S (S (S (S (S (S (S (S (S (S (S (S (S (S (S (S (S
    (S (S (S (S (S (S (S (S (S (S (S (S (S (S (S (S (S (S (S (S (S (S (S (S
    (S (S (S (S (S (S (S (S (S (S (S (S (S (S (S (S (S (S (S (S (S (S (S (S
    (S (S (S (S (S (S (S (S (S (S (S (S (S (S (S (S (S (S (S (S (S (S (S (S
    (S (S (S (S (S (S (S (S (S (S (S (S (S (S (S (S (S (S (S (S (S (S (S (S
    (S (S (S (S (S (S (S (S (S (S (S (S (S (S (S (S (S (S (S (S (S (S (S (S
    (S (S (S (S (S (S (S (S (S (S (S (S (S (S (S (S (S (S (S (S (S (S (S (S
    (S
    O)))))))))))))))))))))))))))))))))))))))))))))))))))))))))))))))))))))))))))))))))))))))))))))))))))))))))))))))))))))))))))))))))))))))))))))))))))))))))))))))))))))))))))))))))))))))))))))))))) :: ((S
    (S (S (S (S (S (S (S (S (S (S (S (S (S (S (S (S (S (S (S (S (S (S (S (S
    (S (S (S (S (S (S (S (S (S (S (S (S (S (S (S (S (S (S (S (S (S (S (S (S
    (S (S (S (S (S (S (S (S (S (S (S (S (S (S (S (S (S (S (S (S (S (S (S (S
    (S (S (S (S (S (S (S (S (S (S (S (S (S (S (S (S (S (S (S (S (S (S (S (S
    (S (S (S (S (S (S (S (S (S (S (S (S (S (S (S (S (S (S (S (S (S (S (S (S
    (S (S (S (S (S (S (S (S (S (S (S (S (S (S (S (S (S (S (S (S (S (S (S (S
    (S (S (S (S (S (S (S (S (S (S (S (S (S (S (S (S (S (S (S (S (S (S (S (S
    (S (S (S (S (S (S (S (S (S (S (S (S (S (S (S (S (S (S (S (S (S (S (S (S
    (S (S
    O))))))))))))))))))))))))))))))))))))))))))))))))))))))))))))))))))))))))))))))))))))))))))))))))))))))))))))))))))))))))))))))))))))))))))))))))))))))))))))))))))))))))))))))))))))))))))))))))))) :: ((S
    (S (S (S (S (S (S (S (S (S (S (S (S (S (S (S (S (S (S (S (S (S (S (S (S
    (S (S (S (S (S (S (S (S (S (S (S (S (S (S (S (S (S (S (S (S (S (S (S (S
    (S (S (S (S (S (S (S (S (S (S (S (S (S (S (S (S (S (S (S (S (S (S (S (S
    (S (S (S (S (S (S (S (S (S (S (S (S (S (S (S (S (S (S (S (S (S (S (S (S
    (S (S (S (S (S (S (S (S (S (S (S (S (S (S (S (S (S (S (S (S (S (S (S (S
    (S (S (S (S (S (S (S (S (S (S (S (S (S (S (S (S (S (S (S (S (S (S (S (S
    (S (S (S (S (S (S (S (S (S (S (S (S (S (S (S (S (S (S (S (S (S (S (S (S
    (S (S (S (S (S (S (S (S (S (S (S (S (S (S (S (S (S (S (S (S (S (S (S (S
    (S (S (S
    O)))))))))))))))))))))))))))))))))))))))))))))))))))))))))))))))))))))))))))))))))))))))))))))))))))))))))))))))))))))))))))))))))))))))))))))))))))))))))))))))))))))))))))))))))))))))))))))))))))) :: ((S
    (S (S (S (S (S (S (S (S (S (S (S (S (S (S (S (S (S (S (S (S (S (S (S (S
    (S (S (S (S (S (S (S (S (S (S (S (S (S (S (S (S (S (S (S (S (S (S (S (S
    (S (S (S (S (S (S (S (S (S (S (S (S (S (S (S (S (S (S (S (S (S (S (S (S
    (S (S (S (S (S (S (S (S (S (S (S (S (S (S (S (S (S (S (S (S (S (S (S (S
    (S (S (S (S (S (S (S (S (S (S (S (S (S (S (S (S (S (S (S (S (S (S (S (S
    (S (S (S (S (S (S (S (S (S (S (S (S (S (S (S (S (S (S (S (S (S (S (S (S
    (S (S (S (S (S (S (S (S (S (S (S (S (S (S (S (S (S (S (S (S (S (S (S (S
    (S (S (S (S (S (S (S (S (S (S (S (S (S (S (S (S (S (S (S (S (S (S (S (S
    (S (S (S (S
    O))))))))))))))))))))))))))))))))))))))))))))))))))))))))))))))))))))))))))))))))))))))))))))))))))))))))))))))))))))))))))))))))))))))))))))))))))))))))))))))))))))))))))))))))))))))))))))))))))))) :: ((S
    (S (S (S (S (S (S (S (S (S (S (S (S (S (S (S (S (S (S (S (S (S (S (S (S
    (S (S (S (S (S (S (S (S (S (S (S (S (S (S (S (S (S (S (S (S (S (S (S (S
    (S (S (S (S (S (S (S (S (S (S (S (S (S (S (S (S (S (S (S (S (S (S (S (S
    (S (S (S (S (S (S (S (S (S (S (S (S (S (S (S (S (S (S (S (S (S (S (S (S
    (S (S (S (S (S (S (S (S (S (S (S (S (S (S (S (S (S (S (S (S (S (S (S (S
    (S (S (S (S (S (S (S (S (S (S (S (S (S (S (S (S (S (S (S (S (S (S (S (S
    (S (S (S (S (S (S (S (S (S (S (S (S (S (S (S (S (S (S (S (S (S (S (S (S
    (S (S (S (S (S (S (S (S (S (S (S (S (S (S (S (S (S (S (S (S (S (S (S (S
    (S (S (S (S (S
    O)))))))))))))))))))))))))))))))))))))))))))))))))))))))))))))))))))))))))))))))))))))))))))))))))))))))))))))))))))))))))))))))))))))))))))))))))))))))))))))))))))))))))))))))))))))))))))))))))))))) :: ((S
    (S (S (S (S (S (S (S (S (S (S (S (S (S (S (S (S (S (S (S (S (S (S (S (S
    (S (S (S (S (S (S (S (S (S (S (S (S (S (S (S (S (S (S (S (S (S (S (S (S
    (S (S (S (S (S (S (S (S (S (S (S (S (S (S (S (S (S (S (S (S (S (S (S (S
    (S (S (S (S (S (S (S (S (S (S (S (S (S (S (S (S (S (S (S (S (S (S (S (S
    (S (S (S (S (S (S (S (S (S (S (S (S (S (S (S (S (S (S (S (S (S (S (S (S
    (S (S (S (S (S (S (S (S (S (S (S (S (S (S (S (S (S (S (S (S (S (S (S (S
    (S (S (S (S (S (S (S (S (S (S (S (S (S (S (S (S (S (S (S (S (S (S (S (S
    (S (S (S (S (S (S (S (S (S (S (S (S (S (S (S (S (S (S (S (S (S (S (S (S
    (S (S (S (S (S (S
    O))))))))))))))))))))))))))))))))))))))))))))))))))))))))))))))))))))))))))))))))))))))))))))))))))))))))))))))))))))))))))))))))))))))))))))))))))))))))))))))))))))))))))))))))))))))))))))))))))))))) :: ((S
    (S (S (S (S (S (S (S (S (S (S (S (S (S (S (S (S (S (S (S (S (S (S (S (S
    (S (S (S (S (S (S (S (S (S (S (S (S (S (S (S (S (S (S (S (S (S (S (S (S
    (S (S (S (S (S (S (S (S (S (S (S (S (S (S (S (S (S (S (S (S (S (S (S (S
    (S (S (S (S (S (S (S (S (S (S (S (S (S (S (S (S (S (S (S (S (S (S (S (S
    (S (S (S (S (S (S (S (S (S (S (S (S (S (S (S (S (S (S (S (S (S (S (S (S
    (S (S (S (S (S (S (S (S (S (S (S (S (S (S (S (S (S (S (S (S (S (S (S (S
    (S (S (S (S (S (S (S (S (S (S (S (S (S (S (S (S (S (S (S (S (S (S (S (S
    (S (S (S (S (S (S (S (S (S (S (S (S (S (S (S (S (S (S (S (S (S (S (S (S
    (S (S (S (S (S (S (S
    O)))))))))))))))))))))))))))))))))))))))))))))))))))))))))))))))))))))))))))))))))))))))))))))))))))))))))))))))))))))))))))))))))))))))))))))))))))))))))))))))))))))))))))))))))))))))))))))))))))))))) :: ((S
    (S (S (S (S (S (S (S (S (S (S (S (S (S (S (S (S (S (S (S (S (S (S (S (S
    (S (S (S (S (S (S (S (S (S (S (S (S (S (S (S (S (S (S (S (S (S (S (S (S
    (S (S (S (S (S (S (S (S (S (S (S (S (S (S (S (S (S (S (S (S (S (S (S (S
    (S (S (S (S (S (S (S (S (S (S (S (S (S (S (S (S (S (S (S (S (S (S (S (S
    (S (S (S (S (S (S (S (S (S (S (S (S (S (S (S (S (S (S (S (S (S (S (S (S
    (S (S (S (S (S (S (S (S (S (S (S (S (S (S (S (S (S (S (S (S (S (S (S (S
    (S (S (S (S (S (S (S (S (S (S (S (S (S (S (S (S (S (S (S (S (S (S (S (S
    (S (S (S (S (S (S (S (S (S (S (S (S (S (S (S (S (S (S (S (S (S (S (S (S
    (S (S (S (S (S (S (S (S
    O))))))))))))))))))))))))))))))))))))))))))))))))))))))))))))))))))))))))))))))))))))))))))))))))))))))))))))))))))))))))))))))))))))))))))))))))))))))))))))))))))))))))))))))))))))))))))))))))))))))))) :: ((S
    (S (S (S (S (S (S (S (S (S (S (S (S (S (S (S (S (S (S (S (S (S (S (S (S
    (S (S (S (S (S (S (S (S (S (S (S (S (S (S (S (S (S (S (S (S (S (S (S (S
    (S (S (S (S (S (S (S (S (S (S (S (S (S (S (S (S (S (S (S (S (S (S (S (S
    (S (S (S (S (S (S (S (S (S (S (S (S (S (S (S (S (S (S (S (S (S (S (S (S
    (S (S (S (S (S (S (S (S (S (S (S (S (S (S (S (S (S (S (S (S (S (S (S (S
    (S (S (S (S (S (S (S (S (S (S (S (S (S (S (S (S (S (S (S (S (S (S (S (S
    (S (S (S (S (S (S (S (S (S (S (S (S (S (S (S (S (S (S (S (S (S (S (S (S
    (S (S (S (S (S (S (S (S (S (S (S (S (S (S (S (S (S (S (S (S (S (S (S (S
    (S (S (S (S (S (S (S (S (S
    O)))))))))))))))))))))))))))))))))))))))))))))))))))))))))))))))))))))))))))))))))))))))))))))))))))))))))))))))))))))))))))))))))))))))))))))))))))))))))))))))))))))))))))))))))))))))))))))))))))))))))) :: ((S
    (S (S (S (S (S (S (S (S (S (S (S (S (S (S (S (S (S (S (S (S (S (S (S (S
    (S (S (S (S (S (S (S (S (S (S (S (S (S (S (S (S (S (S (S (S (S (S (S (S
    (S (S (S (S (S (S (S (S (S (S (S (S (S (S (S (S (S (S (S (S (S (S (S (S
    (S (S (S (S (S (S (S (S (S (S (S (S (S (S (S (S (S (S (S (S (S (S (S (S
    (S (S (S (S (S (S (S (S (S (S (S (S (S (S (S (S (S (S (S (S (S (S (S (S
    (S (S (S (S (S (S (S (S (S (S (S (S (S (S (S (S (S (S (S (S (S (S (S (S
    (S (S (S (S (S (S (S (S (S (S (S (S (S (S (S (S (S (S (S (S (S (S (S (S
    (S (S (S (S (S (S (S (S (S (S (S (S (S (S (S (S (S (S (S (S (S (S (S (S
    (S (S (S (S (S (S (S (S (S (S
    O))))))))))))))))))))))))))))))))))))))))))))))))))))))))))))))))))))))))))))))))))))))))))))))))))))))))))))))))))))))))))))))))))))))))))))))))))))))))))))))))))))))))))))))))))))))))))))))))))))))))))) :: ((S
    (S (S (S (S (S (S (S (S (S (S (S (S (S (S (S (S (S (S (S (S (S (S (S (S
    (S (S (S (S (S (S (S (S (S (S (S (S (S (S (S (S (S (S (S (S (S (S (S (S
    (S (S (S (S (S (S (S (S (S (S (S (S (S (S (S (S (S (S (S (S (S (S (S (S
    (S (S (S (S (S (S (S (S (S (S (S (S (S (S (S (S (S (S (S (S (S (S (S (S
    (S (S (S (S (S (S (S (S (S (S (S (S (S (S (S (S (S (S (S (S (S (S (S (S
    (S (S (S (S (S (S (S (S (S (S (S (S (S (S (S (S (S (S (S (S (S (S (S (S
    (S (S (S (S (S (S (S (S (S (S (S (S (S (S (S (S (S (S (S (S (S (S (S (S
    (S (S (S (S (S (S (S (S (S (S (S (S (S (S (S (S (S (S (S (S (S (S (S (S
    (S (S (S (S (S (S (S (S (S (S (S
    O)))))))))))))))))))))))))))))))))))))))))))))))))))))))))))))))))))))))))))))))))))))))))))))))))))))))))))))))))))))))))))))))))))))))))))))))))))))))))))))))))))))))))))))))))))))))))))))))))))))))))))) :: ((S
    (S (S (S (S (S (S (S (S (S (S (S (S (S (S (S (S (S (S (S (S (S (S (S (S
    (S (S (S (S (S (S (S (S (S (S (S (S (S (S (S (S (S (S (S (S (S (S (S (S
    (S (S (S (S (S (S (S (S (S (S (S (S (S (S (S (S (S (S (S (S (S (S (S (S
    (S (S (S (S (S (S (S (S (S (S (S (S (S (S (S (S (S (S (S (S (S (S (S (S
    (S (S (S (S (S (S (S (S (S (S (S (S (S (S (S (S (S (S (S (S (S (S (S (S
    (S (S (S (S (S (S (S (S (S (S (S (S (S (S (S (S (S (S (S (S (S (S (S (S
    (S (S (S (S (S (S (S (S (S (S (S (S (S (S (S (S (S (S (S (S (S (S (S (S
    (S (S (S (S (S (S (S (S (S (S (S (S (S (S (S (S (S (S (S (S (S (S (S (S
    (S (S (S (S (S (S (S (S (S (S (S (S
    O))))))))))))))))))))))))))))))))))))))))))))))))))))))))))))))))))))))))))))))))))))))))))))))))))))))))))))))))))))))))))))))))))))))))))))))))))))))))))))))))))))))))))))))))))))))))))))))))))))))))))))) :: ((S
    (S (S (S (S (S (S (S (S (S (S (S (S (S (S (S (S (S (S (S (S (S (S (S (S
    (S (S (S (S (S (S (S (S (S (S (S (S (S (S (S (S (S (S (S (S (S (S (S (S
    (S (S (S (S (S (S (S (S (S (S (S (S (S (S (S (S (S (S (S (S (S (S (S (S
    (S (S (S (S (S (S (S (S (S (S (S (S (S (S (S (S (S (S (S (S (S (S (S (S
    (S (S (S (S (S (S (S (S (S (S (S (S (S (S (S (S (S (S (S (S (S (S (S (S
    (S (S (S (S (S (S (S (S (S (S (S (S (S (S (S (S (S (S (S (S (S (S (S (S
    (S (S (S (S (S (S (S (S (S (S (S (S (S (S (S (S (S (S (S (S (S (S (S (S
    (S (S (S (S (S (S (S (S (S (S (S (S (S (S (S (S (S (S (S (S (S (S (S (S
    (S (S (S (S (S (S (S (S (S (S (S (S (S
    O)))))))))))))))))))))))))))))))))))))))))))))))))))))))))))))))))))))))))))))))))))))))))))))))))))))))))))))))))))))))))))))))))))))))))))))))))))))))))))))))))))))))))))))))))))))))))))))))))))))))))))))) :: ((S
    (S (S (S (S (S (S (S (S (S (S (S (S (S (S (S (S (S (S (S (S (S (S (S (S
    (S (S (S (S (S (S (S (S (S (S (S (S (S (S (S (S (S (S (S (S (S (S (S (S
    (S (S (S (S (S (S (S (S (S (S (S (S (S (S (S (S (S (S (S (S (S (S (S (S
    (S (S (S (S (S (S (S (S (S (S (S (S (S (S (S (S (S (S (S (S (S (S (S (S
    (S (S (S (S (S (S (S (S (S (S (S (S (S (S (S (S (S (S (S (S (S (S (S (S
    (S (S (S (S (S (S (S (S (S (S (S (S (S (S (S (S (S (S (S (S (S (S (S (S
    (S (S (S (S (S (S (S (S (S (S (S (S (S (S (S (S (S (S (S (S (S (S (S (S
    (S (S (S (S (S (S (S (S (S (S (S (S (S (S (S (S (S (S (S (S (S (S (S (S
    (S (S (S (S (S (S (S (S (S (S (S (S (S (S
    O))))))))))))))))))))))))))))))))))))))))))))))))))))))))))))))))))))))))))))))))))))))))))))))))))))))))))))))))))))))))))))))))))))))))))))))))))))))))))))))))))))))))))))))))))))))))))))))))))))))))))))))) :: ((S
    (S (S (S (S (S (S (S (S (S (S (S (S (S (S (S (S (S (S (S (S (S (S (S (S
    (S (S (S (S (S (S (S (S (S (S (S (S (S (S (S (S (S (S (S (S (S (S (S (S
    (S (S (S (S (S (S (S (S (S (S (S (S (S (S (S (S (S (S (S (S (S (S (S (S
    (S (S (S (S (S (S (S (S (S (S (S (S (S (S (S (S (S (S (S (S (S (S (S (S
    (S (S (S (S (S (S (S (S (S (S (S (S (S (S (S (S (S (S (S (S (S (S (S (S
    (S (S (S (S (S (S (S (S (S (S (S (S (S (S (S (S (S (S (S (S (S (S (S (S
    (S (S (S (S (S (S (S (S (S (S (S (S (S (S (S (S (S (S (S (S (S (S (S (S
    (S (S (S (S (S (S (S (S (S (S (S (S (S (S (S (S (S (S (S (S (S (S (S (S
    (S (S (S (S (S (S (S (S (S (S (S (S (S (S (S
    O)))))))))))))))))))))))))))))))))))))))))))))))))))))))))))))))))))))))))))))))))))))))))))))))))))))))))))))))))))))))))))))))))))))))))))))))))))))))))))))))))))))))))))))))))))))))))))))))))))))))))))))))) :: ((S
    (S (S (S (S (S (S (S (S (S (S (S (S (S (S (S (S (S (S (S (S (S (S (S (S
    (S (S (S (S (S (S (S (S (S (S (S (S (S (S (S (S (S (S (S (S (S (S (S (S
    (S (S (S (S (S (S (S (S (S (S (S (S (S (S (S (S (S (S (S (S (S (S (S (S
    (S (S (S (S (S (S (S (S (S (S (S (S (S (S (S (S (S (S (S (S (S (S (S (S
    (S (S (S (S (S (S (S (S (S (S (S (S (S (S (S (S (S (S (S (S (S (S (S (S
    (S (S (S (S (S (S (S (S (S (S (S (S (S (S (S (S (S (S (S (S (S (S (S (S
    (S (S (S (S (S (S (S (S (S (S (S (S (S (S (S (S (S (S (S (S (S (S (S (S
    (S (S (S (S (S (S (S (S (S (S (S (S (S (S (S (S (S (S (S (S (S (S (S (S
    (S (S (S (S (S (S (S (S (S (S (S (S (S (S (S (S
    O))))))))))))))))))))))))))))))))))))))))))))))))))))))))))))))))))))))))))))))))))))))))))))))))))))))))))))))))))))))))))))))))))))))))))))))))))))))))))))))))))))))))))))))))))))))))))))))))))))))))))))))))) :: ((S
    (S (S (S (S (S (S (S (S (S (S (S (S (S (S (S (S (S (S (S (S (S (S (S (S
    (S (S (S (S (S (S (S (S (S (S (S (S (S (S (S (S (S (S (S (S (S (S (S (S
    (S (S (S (S (S (S (S (S (S (S (S (S (S (S (S (S (S (S (S (S (S (S (S (S
    (S (S (S (S (S (S (S (S (S (S (S (S (S (S (S (S (S (S (S (S (S (S (S (S
    (S (S (S (S (S (S (S (S (S (S (S (S (S (S (S (S (S (S (S (S (S (S (S (S
    (S (S (S (S (S (S (S (S (S (S (S (S (S (S (S (S (S (S (S (S (S (S (S (S
    (S (S (S (S (S (S (S (S (S (S (S (S (S (S (S (S (S (S (S (S (S (S (S (S
    (S (S (S (S (S (S (S (S (S (S (S (S (S (S (S (S (S (S (S (S (S (S (S (S
    (S (S (S (S (S (S (S (S (S (S (S (S (S (S (S (S (S
    O)))))))))))))))))))))))))))))))))))))))))))))))))))))))))))))))))))))))))))))))))))))))))))))))))))))))))))))))))))))))))))))))))))))))))))))))))))))))))))))))))))))))))))))))))))))))))))))))))))))))))))))))))) :: ((S
    (S (S (S (S (S (S (S (S (S (S (S (S (S (S (S (S (S (S (S (S (S (S (S (S
    (S (S (S (S (S (S (S (S (S (S (S (S (S (S (S (S (S (S (S (S (S (S (S (S
    (S (S (S (S (S (S (S (S (S (S (S (S (S (S (S (S (S (S (S (S (S (S (S (S
    (S (S (S (S (S (S (S (S (S (S (S (S (S (S (S (S (S (S (S (S (S (S (S (S
    (S (S (S (S (S (S (S (S (S (S (S (S (S (S (S (S (S (S (S (S (S (S (S (S
    (S (S (S (S (S (S (S (S (S (S (S (S (S (S (S (S (S (S (S (S (S (S (S (S
    (S (S (S (S (S (S (S (S (S (S (S (S (S (S (S (S (S (S (S (S (S (S (S (S
    (S (S (S (S (S (S (S (S (S (S (S (S (S (S (S (S (S (S (S (S (S (S (S (S
    (S (S (S (S (S (S (S (S (S (S (S (S (S (S (S (S (S (S
    O))))))))))))))))))))))))))))))))))))))))))))))))))))))))))))))))))))))))))))))))))))))))))))))))))))))))))))))))))))))))))))))))))))))))))))))))))))))))))))))))))))))))))))))))))))))))))))))))))))))))))))))))))) :: ((S
    (S (S (S (S (S (S (S (S (S (S (S (S (S (S (S (S (S (S (S (S (S (S (S (S
    (S (S (S (S (S (S (S (S (S (S (S (S (S (S (S (S (S (S (S (S (S (S (S (S
    (S (S (S (S (S (S (S (S (S (S (S (S (S (S (S (S (S (S (S (S (S (S (S (S
    (S (S (S (S (S (S (S (S (S (S (S (S (S (S (S (S (S (S (S (S (S (S (S (S
    (S (S (S (S (S (S (S (S (S (S (S (S (S (S (S (S (S (S (S (S (S (S (S (S
    (S (S (S (S (S (S (S (S (S (S (S (S (S (S (S (S (S (S (S (S (S (S (S (S
    (S (S (S (S (S (S (S (S (S (S (S (S (S (S (S (S (S (S (S (S (S (S (S (S
    (S (S (S (S (S (S (S (S (S (S (S (S (S (S (S (S (S (S (S (S (S (S (S (S
    (S (S (S (S (S (S (S (S (S (S (S (S (S (S (S (S (S (S (S
    O)))))))))))))))))))))))))))))))))))))))))))))))))))))))))))))))))))))))))))))))))))))))))))))))))))))))))))))))))))))))))))))))))))))))))))))))))))))))))))))))))))))))))))))))))))))))))))))))))))))))))))))))))))) :: ((S
    (S (S (S (S (S (S (S (S (S (S (S (S (S (S (S (S (S (S (S (S (S (S (S (S
    (S (S (S (S (S (S (S (S (S (S (S (S (S (S (S (S (S (S (S (S (S (S (S (S
    (S (S (S (S (S (S (S (S (S (S (S (S (S (S (S (S (S (S (S (S (S (S (S (S
    (S (S (S (S (S (S (S (S (S (S (S (S (S (S (S (S (S (S (S (S (S (S (S (S
    (S (S (S (S (S (S (S (S (S (S (S (S (S (S (S (S (S (S (S (S (S (S (S (S
    (S (S (S (S (S (S (S (S (S (S (S (S (S (S (S (S (S (S (S (S (S (S (S (S
    (S (S (S (S (S (S (S (S (S (S (S (S (S (S (S (S (S (S (S (S (S (S (S (S
    (S (S (S (S (S (S (S (S (S (S (S (S (S (S (S (S (S (S (S (S (S (S (S (S
    (S (S (S (S (S (S (S (S (S (S (S (S (S (S (S (S (S (S (S (S
    O))))))))))))))))))))))))))))))))))))))))))))))))))))))))))))))))))))))))))))))))))))))))))))))))))))))))))))))))))))))))))))))))))))))))))))))))))))))))))))))))))))))))))))))))))))))))))))))))))))))))))))))))))))) :: ((S
    (S (S (S (S (S (S (S (S (S (S (S (S (S (S (S (S (S (S (S (S (S (S (S (S
    (S (S (S (S (S (S (S (S (S (S (S (S (S (S (S (S (S (S (S (S (S (S (S (S
    (S (S (S (S (S (S (S (S (S (S (S (S (S (S (S (S (S (S (S (S (S (S (S (S
    (S (S (S (S (S (S (S (S (S (S (S (S (S (S (S (S (S (S (S (S (S (S (S (S
    (S (S (S (S (S (S (S (S (S (S (S (S (S (S (S (S (S (S (S (S (S (S (S (S
    (S (S (S (S (S (S (S (S (S (S (S (S (S (S (S (S (S (S (S (S (S (S (S (S
    (S (S (S (S (S (S (S (S (S (S (S (S (S (S (S (S (S (S (S (S (S (S (S (S
    (S (S (S (S (S (S (S (S (S (S (S (S (S (S (S (S (S (S (S (S (S (S (S (S
    (S (S (S (S (S (S (S (S (S (S (S (S (S (S (S (S (S (S (S (S (S
    O)))))))))))))))))))))))))))))))))))))))))))))))))))))))))))))))))))))))))))))))))))))))))))))))))))))))))))))))))))))))))))))))))))))))))))))))))))))))))))))))))))))))))))))))))))))))))))))))))))))))))))))))))))))) :: ((S
    (S (S (S (S (S (S (S (S (S (S (S (S (S (S (S (S (S (S (S (S (S (S (S (S
    (S (S (S (S (S (S (S (S (S (S (S (S (S (S (S (S (S (S (S (S (S (S (S (S
    (S (S (S (S (S (S (S (S (S (S (S (S (S (S (S (S (S (S (S (S (S (S (S (S
    (S (S (S (S (S (S (S (S (S (S (S (S (S (S (S (S (S (S (S (S (S (S (S (S
    (S (S (S (S (S (S (S (S (S (S (S (S (S (S (S (S (S (S (S (S (S (S (S (S
    (S (S (S (S (S (S (S (S (S (S (S (S (S (S (S (S (S (S (S (S (S (S (S (S
    (S (S (S (S (S (S (S (S (S (S (S (S (S (S (S (S (S (S (S (S (S (S (S (S
    (S (S (S (S (S (S (S (S (S (S (S (S (S (S (S (S (S (S (S (S (S (S (S (S
    (S (S (S (S (S (S (S (S (S (S (S (S (S (S (S (S (S (S (S (S (S (S (S
    O)))))))))))))))))))))))))))))))))))))))))))))))))))))))))))))))))))))))))))))))))))))))))))))))))))))))))))))))))))))))))))))))))))))))))))))))))))))))))))))))))))))))))))))))))))))))))))))))))))))))))))))))))))))))) :: ((S
    (S (S (S (S (S (S (S (S (S (S (S (S (S (S (S (S (S (S (S (S (S (S (S (S
    (S (S (S (S (S (S (S (S (S (S (S (S (S (S (S (S (S (S (S (S (S (S (S (S
    (S (S (S (S (S (S (S (S (S (S (S (S (S (S (S (S (S (S (S (S (S (S (S (S
    (S (S (S (S (S (S (S (S (S (S (S (S (S (S (S (S (S (S (S (S (S (S (S (S
    (S (S (S (S (S (S (S (S (S (S (S (S (S (S (S (S (S (S (S (S (S (S (S (S
    (S (S (S (S (S (S (S (S (S (S (S (S (S (S (S (S (S (S (S (S (S (S (S (S
    (S (S (S (S (S (S (S (S (S (S (S (S (S (S (S (S (S (S (S (S (S (S (S (S
    (S (S (S (S (S (S (S (S (S (S (S (S (S (S (S (S (S (S (S (S (S (S (S (S
    (S (S (S (S (S (S (S (S (S (S (S (S (S (S (S (S (S (S (S (S (S (S (S (S
    O))))))))))))))))))))))))))))))))))))))))))))))))))))))))))))))))))))))))))))))))))))))))))))))))))))))))))))))))))))))))))))))))))))))))))))))))))))))))))))))))))))))))))))))))))))))))))))))))))))))))))))))))))))))))) :: ((S
    (S (S (S (S (S (S (S (S (S (S (S (S (S (S (S (S (S (S (S (S (S (S (S (S
    (S (S (S (S (S (S (S (S (S (S (S (S (S (S (S (S (S (S (S (S (S (S (S (S
    (S (S (S (S (S (S (S (S (S (S (S (S (S (S (S (S (S (S (S (S (S (S (S (S
    (S (S (S (S (S (S (S (S (S (S (S (S (S (S (S (S (S (S (S (S (S (S (S (S
    (S (S (S (S (S (S (S (S (S (S (S (S (S (S (S (S (S (S (S (S (S (S (S (S
    (S (S (S (S (S (S (S (S (S (S (S (S (S (S (S (S (S (S (S (S (S (S (S (S
    (S (S (S (S (S (S (S (S (S (S (S (S (S (S (S (S (S (S (S (S (S (S (S (S
    (S (S (S (S (S (S (S (S (S (S (S (S (S (S (S (S (S (S (S (S (S (S (S (S
    (S (S (S (S (S (S (S (S (S (S (S (S (S (S (S (S (S (S (S (S (S (S (S (S
    (S
    O)))))))))))))))))))))))))))))))))))))))))))))))))))))))))))))))))))))))))))))))))))))))))))))))))))))))))))))))))))))))))))))))))))))))))))))))))))))))))))))))))))))))))))))))))))))))))))))))))))))))))))))))))))))))))) :: ((S
    (S (S (S (S (S (S (S (S (S (S (S (S (S (S (S (S (S (S (S (S (S (S (S (S
    (S (S (S (S (S (S (S (S (S (S (S (S (S (S (S (S (S (S (S (S (S (S (S (S
    (S (S (S (S (S (S (S (S (S (S (S (S (S (S (S (S (S (S (S (S (S (S (S (S
    (S (S (S (S (S (S (S (S (S (S (S (S (S (S (S (S (S (S (S (S (S (S (S (S
    (S (S (S (S (S (S (S (S (S (S (S (S (S (S (S (S (S (S (S (S (S (S (S (S
    (S (S (S (S (S (S (S (S (S (S (S (S (S (S (S (S (S (S (S (S (S (S (S (S
    (S (S (S (S (S (S (S (S (S (S (S (S (S (S (S (S (S (S (S (S (S (S (S (S
    (S (S (S (S (S (S (S (S (S (S (S (S (S (S (S (S (S (S (S (S (S (S (S (S
    (S (S (S (S (S (S (S (S (S (S (S (S (S (S (S (S (S (S (S (S (S (S (S (S
    (S (S
    O))))))))))))))))))))))))))))))))))))))))))))))))))))))))))))))))))))))))))))))))))))))))))))))))))))))))))))))))))))))))))))))))))))))))))))))))))))))))))))))))))))))))))))))))))))))))))))))))))))))))))))))))))))))))))) :: ((S
    (S (S (S (S (S (S (S (S (S (S (S (S (S (S (S (S (S (S (S (S (S (S (S (S
    (S (S (S (S (S (S (S (S (S (S (S (S (S (S (S (S (S (S (S (S (S (S (S (S
    (S (S (S (S (S (S (S (S (S (S (S (S (S (S (S (S (S (S (S (S (S (S (S (S
    (S (S (S (S (S (S (S (S (S (S (S (S (S (S (S (S (S (S (S (S (S (S (S (S
    (S (S (S (S (S (S (S (S (S (S (S (S (S (S (S (S (S (S (S (S (S (S (S (S
    (S (S (S (S (S (S (S (S (S (S (S (S (S (S (S (S (S (S (S (S (S (S (S (S
    (S (S (S (S (S (S (S (S (S (S (S (S (S (S (S (S (S (S (S (S (S (S (S (S
    (S (S (S (S (S (S (S (S (S (S (S (S (S (S (S (S (S (S (S (S (S (S (S (S
    (S (S (S (S (S (S (S (S (S (S (S (S (S (S (S (S (S (S (S (S (S (S (S (S
    (S (S (S
    O)))))))))))))))))))))))))))))))))))))))))))))))))))))))))))))))))))))))))))))))))))))))))))))))))))))))))))))))))))))))))))))))))))))))))))))))))))))))))))))))))))))))))))))))))))))))))))))))))))))))))))))))))))))))))))) :: ((S
    (S (S (S (S (S (S (S (S (S (S (S (S (S (S (S (S (S (S (S (S (S (S (S (S
    (S (S (S (S (S (S (S (S (S (S (S (S (S (S (S (S (S (S (S (S (S (S (S (S
    (S (S (S (S (S (S (S (S (S (S (S (S (S (S (S (S (S (S (S (S (S (S (S (S
    (S (S (S (S (S (S (S (S (S (S (S (S (S (S (S (S (S (S (S (S (S (S (S (S
    (S (S (S (S (S (S (S (S (S (S (S (S (S (S (S (S (S (S (S (S (S (S (S (S
    (S (S (S (S (S (S (S (S (S (S (S (S (S (S (S (S (S (S (S (S (S (S (S (S
    (S (S (S (S (S (S (S (S (S (S (S (S (S (S (S (S (S (S (S (S (S (S (S (S
    (S (S (S (S (S (S (S (S (S (S (S (S (S (S (S (S (S (S (S (S (S (S (S (S
    (S (S (S (S (S (S (S (S (S (S (S (S (S (S (S (S (S (S (S (S (S (S (S (S
    (S (S (S (S
    O))))))))))))))))))))))))))))))))))))))))))))))))))))))))))))))))))))))))))))))))))))))))))))))))))))))))))))))))))))))))))))))))))))))))))))))))))))))))))))))))))))))))))))))))))))))))))))))))))))))))))))))))))))))))))))) :: ((S
    (S (S (S (S (S (S (S (S (S (S (S (S (S (S (S (S (S (S (S (S (S (S (S (S
    (S (S (S (S (S (S (S (S (S (S (S (S (S (S (S (S (S (S (S (S (S (S (S (S
    (S (S (S (S (S (S (S (S (S (S (S (S (S (S (S (S (S (S (S (S (S (S (S (S
    (S (S (S (S (S (S (S (S (S (S (S (S (S (S (S (S (S (S (S (S (S (S (S (S
    (S (S (S (S (S (S (S (S (S (S (S (S (S (S (S (S (S (S (S (S (S (S (S (S
    (S (S (S (S (S (S (S (S (S (S (S (S (S (S (S (S (S (S (S (S (S (S (S (S
    (S (S (S (S (S (S (S (S (S (S (S (S (S (S (S (S (S (S (S (S (S (S (S (S
    (S (S (S (S (S (S (S (S (S (S (S (S (S (S (S (S (S (S (S (S (S (S (S (S
    (S (S (S (S (S (S (S (S (S (S (S (S (S (S (S (S (S (S (S (S (S (S (S (S
    (S (S (S (S (S
    O)))))))))))))))))))))))))))))))))))))))))))))))))))))))))))))))))))))))))))))))))))))))))))))))))))))))))))))))))))))))))))))))))))))))))))))))))))))))))))))))))))))))))))))))))))))))))))))))))))))))))))))))))))))))))))))) :: ((S
    (S (S (S (S (S (S (S (S (S (S (S (S (S (S (S (S (S (S (S (S (S (S (S (S
    (S (S (S (S (S (S (S (S (S (S (S (S (S (S (S (S (S (S (S (S (S (S (S (S
    (S (S (S (S (S (S (S (S (S (S (S (S (S (S (S (S (S (S (S (S (S (S (S (S
    (S (S (S (S (S (S (S (S (S (S (S (S (S (S (S (S (S (S (S (S (S (S (S (S
    (S (S (S (S (S (S (S (S (S (S (S (S (S (S (S (S (S (S (S (S (S (S (S (S
    (S (S (S (S (S (S (S (S (S (S (S (S (S (S (S (S (S (S (S (S (S (S (S (S
    (S (S (S (S (S (S (S (S (S (S (S (S (S (S (S (S (S (S (S (S (S (S (S (S
    (S (S (S (S (S (S (S (S (S (S (S (S (S (S (S (S (S (S (S (S (S (S (S (S
    (S (S (S (S (S (S (S (S (S (S (S (S (S (S (S (S (S (S (S (S (S (S (S (S
    (S (S (S (S (S (S
    O))))))))))))))))))))))))))))))))))))))))))))))))))))))))))))))))))))))))))))))))))))))))))))))))))))))))))))))))))))))))))))))))))))))))))))))))))))))))))))))))))))))))))))))))))))))))))))))))))))))))))))))))))))))))))))))) :: ((S
    (S (S (S (S (S (S (S (S (S (S (S (S (S (S (S (S (S (S (S (S (S (S (S (S
    (S (S (S (S (S (S (S (S (S (S (S (S (S (S (S (S (S (S (S (S (S (S (S (S
    (S (S (S (S (S (S (S (S (S (S (S (S (S (S (S (S (S (S (S (S (S (S (S (S
    (S (S (S (S (S (S (S (S (S (S (S (S (S (S (S (S (S (S (S (S (S (S (S (S
    (S (S (S (S (S (S (S (S (S (S (S (S (S (S (S (S (S (S (S (S (S (S (S (S
    (S (S (S (S (S (S (S (S (S (S (S (S (S (S (S (S (S (S (S (S (S (S (S (S
    (S (S (S (S (S (S (S (S (S (S (S (S (S (S (S (S (S (S (S (S (S (S (S (S
    (S (S (S (S (S (S (S (S (S (S (S (S (S (S (S (S (S (S (S (S (S (S (S (S
    (S (S (S (S (S (S (S (S (S (S (S (S (S (S (S (S (S (S (S (S (S (S (S (S
    (S (S (S (S (S (S (S
    O)))))))))))))))))))))))))))))))))))))))))))))))))))))))))))))))))))))))))))))))))))))))))))))))))))))))))))))))))))))))))))))))))))))))))))))))))))))))))))))))))))))))))))))))))))))))))))))))))))))))))))))))))))))))))))))))) :: ((S
    (S (S (S (S (S (S (S (S (S (S (S (S (S (S (S (S (S (S (S (S (S (S (S (S
    (S (S (S (S (S (S (S (S (S (S (S (S (S (S (S (S (S (S (S (S (S (S (S (S
    (S (S (S (S (S (S (S (S (S (S (S (S (S (S (S (S (S (S (S (S (S (S (S (S
    (S (S (S (S (S (S (S (S (S (S (S (S (S (S (S (S (S (S (S (S (S (S (S (S
    (S (S (S (S (S (S (S (S (S (S (S (S (S (S (S (S (S (S (S (S (S (S (S (S
    (S (S (S (S (S (S (S (S (S (S (S (S (S (S (S (S (S (S (S (S (S (S (S (S
    (S (S (S (S (S (S (S (S (S (S (S (S (S (S (S (S (S (S (S (S (S (S (S (S
    (S (S (S (S (S (S (S (S (S (S (S (S (S (S (S (S (S (S (S (S (S (S (S (S
    (S (S (S (S (S (S (S (S (S (S (S (S (S (S (S (S (S (S (S (S (S (S (S (S
    (S (S (S (S (S (S (S (S
    O))))))))))))))))))))))))))))))))))))))))))))))))))))))))))))))))))))))))))))))))))))))))))))))))))))))))))))))))))))))))))))))))))))))))))))))))))))))))))))))))))))))))))))))))))))))))))))))))))))))))))))))))))))))))))))))))) :: ((S
    (S (S (S (S (S (S (S (S (S (S (S (S (S (S (S (S (S (S (S (S (S (S (S (S
    (S (S (S (S (S (S (S (S (S (S (S (S (S (S (S (S (S (S (S (S (S (S (S (S
    (S (S (S (S (S (S (S (S (S (S (S (S (S (S (S (S (S (S (S (S (S (S (S (S
    (S (S (S (S (S (S (S (S (S (S (S (S (S (S (S (S (S (S (S (S (S (S (S (S
    (S (S (S (S (S (S (S (S (S (S (S (S (S (S (S (S (S (S (S (S (S (S (S (S
    (S (S (S (S (S (S (S (S (S (S (S (S (S (S (S (S (S (S (S (S (S (S (S (S
    (S (S (S (S (S (S (S (S (S (S (S (S (S (S (S (S (S (S (S (S (S (S (S (S
    (S (S (S (S (S (S (S (S (S (S (S (S (S (S (S (S (S (S (S (S (S (S (S (S
    (S (S (S (S (S (S (S (S (S (S (S (S (S (S (S (S (S (S (S (S (S (S (S (S
    (S (S (S (S (S (S (S (S (S
    O)))))))))))))))))))))))))))))))))))))))))))))))))))))))))))))))))))))))))))))))))))))))))))))))))))))))))))))))))))))))))))))))))))))))))))))))))))))))))))))))))))))))))))))))))))))))))))))))))))))))))))))))))))))))))))))))))) :: ((S
    (S (S (S (S (S (S (S (S (S (S (S (S (S (S (S (S (S (S (S (S (S (S (S (S
    (S (S (S (S (S (S (S (S (S (S (S (S (S (S (S (S (S (S (S (S (S (S (S (S
    (S (S (S (S (S (S (S (S (S (S (S (S (S (S (S (S (S (S (S (S (S (S (S (S
    (S (S (S (S (S (S (S (S (S (S (S (S (S (S (S (S (S (S (S (S (S (S (S (S
    (S (S (S (S (S (S (S (S (S (S (S (S (S (S (S (S (S (S (S (S (S (S (S (S
    (S (S (S (S (S (S (S (S (S (S (S (S (S (S (S (S (S (S (S (S (S (S (S (S
    (S (S (S (S (S (S (S (S (S (S (S (S (S (S (S (S (S (S (S (S (S (S (S (S
    (S (S (S (S (S (S (S (S (S (S (S (S (S (S (S (S (S (S (S (S (S (S (S (S
    (S (S (S (S (S (S (S (S (S (S (S (S (S (S (S (S (S (S (S (S (S (S (S (S
    (S (S (S (S (S (S (S (S (S (S
    O))))))))))))))))))))))))))))))))))))))))))))))))))))))))))))))))))))))))))))))))))))))))))))))))))))))))))))))))))))))))))))))))))))))))))))))))))))))))))))))))))))))))))))))))))))))))))))))))))))))))))))))))))))))))))))))))))) :: ((S
    (S (S (S (S (S (S (S (S (S (S (S (S (S (S (S (S (S (S (S (S (S (S (S (S
    (S (S (S (S (S (S (S (S (S (S (S (S (S (S (S (S (S (S (S (S (S (S (S (S
    (S (S (S (S (S (S (S (S (S (S (S (S (S (S (S (S (S (S (S (S (S (S (S (S
    (S (S (S (S (S (S (S (S (S (S (S (S (S (S (S (S (S (S (S (S (S (S (S (S
    (S (S (S (S (S (S (S (S (S (S (S (S (S (S (S (S (S (S (S (S (S (S (S (S
    (S (S (S (S (S (S (S (S (S (S (S (S (S (S (S (S (S (S (S (S (S (S (S (S
    (S (S (S (S (S (S (S (S (S (S (S (S (S (S (S (S (S (S (S (S (S (S (S (S
    (S (S (S (S (S (S (S (S (S (S (S (S (S (S (S (S (S (S (S (S (S (S (S (S
    (S (S (S (S (S (S (S (S (S (S (S (S (S (S (S (S (S (S (S (S (S (S (S (S
    (S (S (S (S (S (S (S (S (S (S (S
    O)))))))))))))))))))))))))))))))))))))))))))))))))))))))))))))))))))))))))))))))))))))))))))))))))))))))))))))))))))))))))))))))))))))))))))))))))))))))))))))))))))))))))))))))))))))))))))))))))))))))))))))))))))))))))))))))))))) :: ((S
    (S (S (S (S (S (S (S (S (S (S (S (S (S (S (S (S (S (S (S (S (S (S (S (S
    (S (S (S (S (S (S (S (S (S (S (S (S (S (S (S (S (S (S (S (S (S (S (S (S
    (S (S (S (S (S (S (S (S (S (S (S (S (S (S (S (S (S (S (S (S (S (S (S (S
    (S (S (S (S (S (S (S (S (S (S (S (S (S (S (S (S (S (S (S (S (S (S (S (S
    (S (S (S (S (S (S (S (S (S (S (S (S (S (S (S (S (S (S (S (S (S (S (S (S
    (S (S (S (S (S (S (S (S (S (S (S (S (S (S (S (S (S (S (S (S (S (S (S (S
    (S (S (S (S (S (S (S (S (S (S (S (S (S (S (S (S (S (S (S (S (S (S (S (S
    (S (S (S (S (S (S (S (S (S (S (S (S (S (S (S (S (S (S (S (S (S (S (S (S
    (S (S (S (S (S (S (S (S (S (S (S (S (S (S (S (S (S (S (S (S (S (S (S (S
    (S (S (S (S (S (S (S (S (S (S (S (S
    O))))))))))))))))))))))))))))))))))))))))))))))))))))))))))))))))))))))))))))))))))))))))))))))))))))))))))))))))))))))))))))))))))))))))))))))))))))))))))))))))))))))))))))))))))))))))))))))))))))))))))))))))))))))))))))))))))))) :: ((S
    (S (S (S (S (S (S (S (S (S (S (S (S (S (S (S (S (S (S (S (S (S (S (S (S
    (S (S (S (S (S (S (S (S (S (S (S (S (S (S (S (S (S (S (S (S (S (S (S (S
    (S (S (S (S (S (S (S (S (S (S (S (S (S (S (S (S (S (S (S (S (S (S (S (S
    (S (S (S (S (S (S (S (S (S (S (S (S (S (S (S (S (S (S (S (S (S (S (S (S
    (S (S (S (S (S (S (S (S (S (S (S (S (S (S (S (S (S (S (S (S (S (S (S (S
    (S (S (S (S (S (S (S (S (S (S (S (S (S (S (S (S (S (S (S (S (S (S (S (S
    (S (S (S (S (S (S (S (S (S (S (S (S (S (S (S (S (S (S (S (S (S (S (S (S
    (S (S (S (S (S (S (S (S (S (S (S (S (S (S (S (S (S (S (S (S (S (S (S (S
    (S (S (S (S (S (S (S (S (S (S (S (S (S (S (S (S (S (S (S (S (S (S (S (S
    (S (S (S (S (S (S (S (S (S (S (S (S (S
    O)))))))))))))))))))))))))))))))))))))))))))))))))))))))))))))))))))))))))))))))))))))))))))))))))))))))))))))))))))))))))))))))))))))))))))))))))))))))))))))))))))))))))))))))))))))))))))))))))))))))))))))))))))))))))))))))))))))) :: ((S
    (S (S (S (S (S (S (S (S (S (S (S (S (S (S (S (S (S (S (S (S (S (S (S (S
    (S (S (S (S (S (S (S (S (S (S (S (S (S (S (S (S (S (S (S (S (S (S (S (S
    (S (S (S (S (S (S (S (S (S (S (S (S (S (S (S (S (S (S (S (S (S (S (S (S
    (S (S (S (S (S (S (S (S (S (S (S (S (S (S (S (S (S (S (S (S (S (S (S (S
    (S (S (S (S (S (S (S (S (S (S (S (S (S (S (S (S (S (S (S (S (S (S (S (S
    (S (S (S (S (S (S (S (S (S (S (S (S (S (S (S (S (S (S (S (S (S (S (S (S
    (S (S (S (S (S (S (S (S (S (S (S (S (S (S (S (S (S (S (S (S (S (S (S (S
    (S (S (S (S (S (S (S (S (S (S (S (S (S (S (S (S (S (S (S (S (S (S (S (S
    (S (S (S (S (S (S (S (S (S (S (S (S (S (S (S (S (S (S (S (S (S (S (S (S
    (S (S (S (S (S (S (S (S (S (S (S (S (S (S
    O))))))))))))))))))))))))))))))))))))))))))))))))))))))))))))))))))))))))))))))))))))))))))))))))))))))))))))))))))))))))))))))))))))))))))))))))))))))))))))))))))))))))))))))))))))))))))))))))))))))))))))))))))))))))))))))))))))))) :: ((S
    (S (S (S (S (S (S (S (S (S (S (S (S (S (S (S (S (S (S (S (S (S (S (S (S
    (S (S (S (S (S (S (S (S (S (S (S (S (S (S (S (S (S (S (S (S (S (S (S (S
    (S (S (S (S (S (S (S (S (S (S (S (S (S (S (S (S (S (S (S (S (S (S (S (S
    (S (S (S (S (S (S (S (S (S (S (S (S (S (S (S (S (S (S (S (S (S (S (S (S
    (S (S (S (S (S (S (S (S (S (S (S (S (S (S (S (S (S (S (S (S (S (S (S (S
    (S (S (S (S (S (S (S (S (S (S (S (S (S (S (S (S (S (S (S (S (S (S (S (S
    (S (S (S (S (S (S (S (S (S (S (S (S (S (S (S (S (S (S (S (S (S (S (S (S
    (S (S (S (S (S (S (S (S (S (S (S (S (S (S (S (S (S (S (S (S (S (S (S (S
    (S (S (S (S (S (S (S (S (S (S (S (S (S (S (S (S (S (S (S (S (S (S (S (S
    (S (S (S (S (S (S (S (S (S (S (S (S (S (S (S
    O)))))))))))))))))))))))))))))))))))))))))))))))))))))))))))))))))))))))))))))))))))))))))))))))))))))))))))))))))))))))))))))))))))))))))))))))))))))))))))))))))))))))))))))))))))))))))))))))))))))))))))))))))))))))))))))))))))))))) :: ((S
    (S (S (S (S (S (S (S (S (S (S (S (S (S (S (S (S (S (S (S (S (S (S (S (S
    (S (S (S (S (S (S (S (S (S (S (S (S (S (S (S (S (S (S (S (S (S (S (S (S
    (S (S (S (S (S (S (S (S (S (S (S (S (S (S (S (S (S (S (S (S (S (S (S (S
    (S (S (S (S (S (S (S (S (S (S (S (S (S (S (S (S (S (S (S (S (S (S (S (S
    (S (S (S (S (S (S (S (S (S (S (S (S (S (S (S (S (S (S (S (S (S (S (S (S
    (S (S (S (S (S (S (S (S (S (S (S (S (S (S (S (S (S (S (S (S (S (S (S (S
    (S (S (S (S (S (S (S (S (S (S (S (S (S (S (S (S (S (S (S (S (S (S (S (S
    (S (S (S (S (S (S (S (S (S (S (S (S (S (S (S (S (S (S (S (S (S (S (S (S
    (S (S (S (S (S (S (S (S (S (S (S (S (S (S (S (S (S (S (S (S (S (S (S (S
    (S (S (S (S (S (S (S (S (S (S (S (S (S (S (S (S
    O))))))))))))))))))))))))))))))))))))))))))))))))))))))))))))))))))))))))))))))))))))))))))))))))))))))))))))))))))))))))))))))))))))))))))))))))))))))))))))))))))))))))))))))))))))))))))))))))))))))))))))))))))))))))))))))))))))))))) :: ((S
    (S (S (S (S (S (S (S (S (S (S (S (S (S (S (S (S (S (S (S (S (S (S (S (S
    (S (S (S (S (S (S (S (S (S (S (S (S (S (S (S (S (S (S (S (S (S (S (S (S
    (S (S (S (S (S (S (S (S (S (S (S (S (S (S (S (S (S (S (S (S (S (S (S (S
    (S (S (S (S (S (S (S (S (S (S (S (S (S (S (S (S (S (S (S (S (S (S (S (S
    (S (S (S (S (S (S (S (S (S (S (S (S (S (S (S (S (S (S (S (S (S (S (S (S
    (S (S (S (S (S (S (S (S (S (S (S (S (S (S (S (S (S (S (S (S (S (S (S (S
    (S (S (S (S (S (S (S (S (S (S (S (S (S (S (S (S (S (S (S (S (S (S (S (S
    (S (S (S (S (S (S (S (S (S (S (S (S (S (S (S (S (S (S (S (S (S (S (S (S
    (S (S (S (S (S (S (S (S (S (S (S (S (S (S (S (S (S (S (S (S (S (S (S (S
    (S (S (S (S (S (S (S (S (S (S (S (S (S (S (S (S (S
    O)))))))))))))))))))))))))))))))))))))))))))))))))))))))))))))))))))))))))))))))))))))))))))))))))))))))))))))))))))))))))))))))))))))))))))))))))))))))))))))))))))))))))))))))))))))))))))))))))))))))))))))))))))))))))))))))))))))))))) :: ((S
    (S (S (S (S (S (S (S (S (S (S (S (S (S (S (S (S (S (S (S (S (S (S (S (S
    (S (S (S (S (S (S (S (S (S (S (S (S (S (S (S (S (S (S (S (S (S (S (S (S
    (S (S (S (S (S (S (S (S (S (S (S (S (S (S (S (S (S (S (S (S (S (S (S (S
    (S (S (S (S (S (S (S (S (S (S (S (S (S (S (S (S (S (S (S (S (S (S (S (S
    (S (S (S (S (S (S (S (S (S (S (S (S (S (S (S (S (S (S (S (S (S (S (S (S
    (S (S (S (S (S (S (S (S (S (S (S (S (S (S (S (S (S (S (S (S (S (S (S (S
    (S (S (S (S (S (S (S (S (S (S (S (S (S (S (S (S (S (S (S (S (S (S (S (S
    (S (S (S (S (S (S (S (S (S (S (S (S (S (S (S (S (S (S (S (S (S (S (S (S
    (S (S (S (S (S (S (S (S (S (S (S (S (S (S (S (S (S (S (S (S (S (S (S (S
    (S (S (S (S (S (S (S (S (S (S (S (S (S (S (S (S (S (S
    O))))))))))))))))))))))))))))))))))))))))))))))))))))))))))))))))))))))))))))))))))))))))))))))))))))))))))))))))))))))))))))))))))))))))))))))))))))))))))))))))))))))))))))))))))))))))))))))))))))))))))))))))))))))))))))))))))))))))))) :: ((S
    (S (S (S (S (S (S (S (S (S (S (S (S (S (S (S (S (S (S (S (S (S (S (S (S
    (S (S (S (S (S (S (S (S (S (S (S (S (S (S (S (S (S (S (S (S (S (S (S (S
    (S (S (S (S (S (S (S (S (S (S (S (S (S (S (S (S (S (S (S (S (S (S (S (S
    (S (S (S (S (S (S (S (S (S (S (S (S (S (S (S (S (S (S (S (S (S (S (S (S
    (S (S (S (S (S (S (S (S (S (S (S (S (S (S (S (S (S (S (S (S (S (S (S (S
    (S (S (S (S (S (S (S (S (S (S (S (S (S (S (S (S (S (S (S (S (S (S (S (S
    (S (S (S (S (S (S (S (S (S (S (S (S (S (S (S (S (S (S (S (S (S (S (S (S
    (S (S (S (S (S (S (S (S (S (S (S (S (S (S (S (S (S (S (S (S (S (S (S (S
    (S (S (S (S (S (S (S (S (S (S (S (S (S (S (S (S (S (S (S (S (S (S (S (S
    (S (S (S (S (S (S (S (S (S (S (S (S (S (S (S (S (S (S (S
    O)))))))))))))))))))))))))))))))))))))))))))))))))))))))))))))))))))))))))))))))))))))))))))))))))))))))))))))))))))))))))))))))))))))))))))))))))))))))))))))))))))))))))))))))))))))))))))))))))))))))))))))))))))))))))))))))))))))))))))) :: ((S
    (S (S (S (S (S (S (S (S (S (S (S (S (S (S (S (S (S (S (S (S (S (S (S (S
    (S (S (S (S (S (S (S (S (S (S (S (S (S (S (S (S (S (S (S (S (S (S (S (S
    (S (S (S (S (S (S (S (S (S (S (S (S (S (S (S (S (S (S (S (S (S (S (S (S
    (S (S (S (S (S (S (S (S (S (S (S (S (S (S (S (S (S (S (S (S (S (S (S (S
    (S (S (S (S (S (S (S (S (S (S (S (S (S (S (S (S (S (S (S (S (S (S (S (S
    (S (S (S (S (S (S (S (S (S (S (S (S (S (S (S (S (S (S (S (S (S (S (S (S
    (S (S (S (S (S (S (S (S (S (S (S (S (S (S (S (S (S (S (S (S (S (S (S (S
    (S (S (S (S (S (S (S (S (S (S (S (S (S (S (S (S (S (S (S (S (S (S (S (S
    (S (S (S (S (S (S (S (S (S (S (S (S (S (S (S (S (S (S (S (S (S (S (S (S
    (S (S (S (S (S (S (S (S (S (S (S (S (S (S (S (S (S (S (S (S
    O))))))))))))))))))))))))))))))))))))))))))))))))))))))))))))))))))))))))))))))))))))))))))))))))))))))))))))))))))))))))))))))))))))))))))))))))))))))))))))))))))))))))))))))))))))))))))))))))))))))))))))))))))))))))))))))))))))))))))))) :: ((S
    (S (S (S (S (S (S (S (S (S (S (S (S (S (S (S (S (S (S (S (S (S (S (S (S
    (S (S (S (S (S (S (S (S (S (S (S (S (S (S (S (S (S (S (S (S (S (S (S (S
    (S (S (S (S (S (S (S (S (S (S (S (S (S (S (S (S (S (S (S (S (S (S (S (S
    (S (S (S (S (S (S (S (S (S (S (S (S (S (S (S (S (S (S (S (S (S (S (S (S
    (S (S (S (S (S (S (S (S (S (S (S (S (S (S (S (S (S (S (S (S (S (S (S (S
    (S (S (S (S (S (S (S (S (S (S (S (S (S (S (S (S (S (S (S (S (S (S (S (S
    (S (S (S (S (S (S (S (S (S (S (S (S (S (S (S (S (S (S (S (S (S (S (S (S
    (S (S (S (S (S (S (S (S (S (S (S (S (S (S (S (S (S (S (S (S (S (S (S (S
    (S (S (S (S (S (S (S (S (S (S (S (S (S (S (S (S (S (S (S (S (S (S (S (S
    (S (S (S (S (S (S (S (S (S (S (S (S (S (S (S (S (S (S (S (S (S
    O)))))))))))))))))))))))))))))))))))))))))))))))))))))))))))))))))))))))))))))))))))))))))))))))))))))))))))))))))))))))))))))))))))))))))))))))))))))))))))))))))))))))))))))))))))))))))))))))))))))))))))))))))))))))))))))))))))))))))))))) :: ((S
    (S (S (S (S (S (S (S (S (S (S (S (S (S (S (S (S (S (S (S (S (S (S (S (S
    (S (S (S (S (S (S (S (S (S (S (S (S (S (S (S (S (S (S (S (S (S (S (S (S
    (S (S (S (S (S (S (S (S (S (S (S (S (S (S (S (S (S (S (S (S (S (S (S (S
    (S (S (S (S (S (S (S (S (S (S (S (S (S (S (S (S (S (S (S (S (S (S (S (S
    (S (S (S (S (S (S (S (S (S (S (S (S (S (S (S (S (S (S (S (S (S (S (S (S
    (S (S (S (S (S (S (S (S (S (S (S (S (S (S (S (S (S (S (S (S (S (S (S (S
    (S (S (S (S (S (S (S (S (S (S (S (S (S (S (S (S (S (S (S (S (S (S (S (S
    (S (S (S (S (S (S (S (S (S (S (S (S (S (S (S (S (S (S (S (S (S (S (S (S
    (S (S (S (S (S (S (S (S (S (S (S (S (S (S (S (S (S (S (S (S (S (S (S (S
    (S (S (S (S (S (S (S (S (S (S (S (S (S (S (S (S (S (S (S (S (S (S
    O))))))))))))))))))))))))))))))))))))))))))))))))))))))))))))))))))))))))))))))))))))))))))))))))))))))))))))))))))))))))))))))))))))))))))))))))))))))))))))))))))))))))))))))))))))))))))))))))))))))))))))))))))))))))))))))))))))))))))))))) :: ((S
    (S (S (S (S (S (S (S (S (S (S (S (S (S (S (S (S (S (S (S (S (S (S (S (S
    (S (S (S (S (S (S (S (S (S (S (S (S (S (S (S (S (S (S (S (S (S (S (S (S
    (S (S (S (S (S (S (S (S (S (S (S (S (S (S (S (S (S (S (S (S (S (S (S (S
    (S (S (S (S (S (S (S (S (S (S (S (S (S (S (S (S (S (S (S (S (S (S (S (S
    (S (S (S (S (S (S (S (S (S (S (S (S (S (S (S (S (S (S (S (S (S (S (S (S
    (S (S (S (S (S (S (S (S (S (S (S (S (S (S (S (S (S (S (S (S (S (S (S (S
    (S (S (S (S (S (S (S (S (S (S (S (S (S (S (S (S (S (S (S (S (S (S (S (S
    (S (S (S (S (S (S (S (S (S (S (S (S (S (S (S (S (S (S (S (S (S (S (S (S
    (S (S (S (S (S (S (S (S (S (S (S (S (S (S (S (S (S (S (S (S (S (S (S (S
    (S (S (S (S (S (S (S (S (S (S (S (S (S (S (S (S (S (S (S (S (S (S (S
    O)))))))))))))))))))))))))))))))))))))))))))))))))))))))))))))))))))))))))))))))))))))))))))))))))))))))))))))))))))))))))))))))))))))))))))))))))))))))))))))))))))))))))))))))))))))))))))))))))))))))))))))))))))))))))))))))))))))))))))))))) :: ((S
    (S (S (S (S (S (S (S (S (S (S (S (S (S (S (S (S (S (S (S (S (S (S (S (S
    (S (S (S (S (S (S (S (S (S (S (S (S (S (S (S (S (S (S (S (S (S (S (S (S
    (S (S (S (S (S (S (S (S (S (S (S (S (S (S (S (S (S (S (S (S (S (S (S (S
    (S (S (S (S (S (S (S (S (S (S (S (S (S (S (S (S (S (S (S (S (S (S (S (S
    (S (S (S (S (S (S (S (S (S (S (S (S (S (S (S (S (S (S (S (S (S (S (S (S
    (S (S (S (S (S (S (S (S (S (S (S (S (S (S (S (S (S (S (S (S (S (S (S (S
    (S (S (S (S (S (S (S (S (S (S (S (S (S (S (S (S (S (S (S (S (S (S (S (S
    (S (S (S (S (S (S (S (S (S (S (S (S (S (S (S (S (S (S (S (S (S (S (S (S
    (S (S (S (S (S (S (S (S (S (S (S (S (S (S (S (S (S (S (S (S (S (S (S (S
    (S (S (S (S (S (S (S (S (S (S (S (S (S (S (S (S (S (S (S (S (S (S (S (S
    O))))))))))))))))))))))))))))))))))))))))))))))))))))))))))))))))))))))))))))))))))))))))))))))))))))))))))))))))))))))))))))))))))))))))))))))))))))))))))))))))))))))))))))))))))))))))))))))))))))))))))))))))))))))))))))))))))))))))))))))))) :: ((S
    (S (S (S (S (S (S (S (S (S (S (S (S (S (S (S (S (S (S (S (S (S (S (S (S
    (S (S (S (S (S (S (S (S (S (S (S (S (S (S (S (S (S (S (S (S (S (S (S (S
    (S (S (S (S (S (S (S (S (S (S (S (S (S (S (S (S (S (S (S (S (S (S (S (S
    (S (S (S (S (S (S (S (S (S (S (S (S (S (S (S (S (S (S (S (S (S (S (S (S
    (S (S (S (S (S (S (S (S (S (S (S (S (S (S (S (S (S (S (S (S (S (S (S (S
    (S (S (S (S (S (S (S (S (S (S (S (S (S (S (S (S (S (S (S (S (S (S (S (S
    (S (S (S (S (S (S (S (S (S (S (S (S (S (S (S (S (S (S (S (S (S (S (S (S
    (S (S (S (S (S (S (S (S (S (S (S (S (S (S (S (S (S (S (S (S (S (S (S (S
    (S (S (S (S (S (S (S (S (S (S (S (S (S (S (S (S (S (S (S (S (S (S (S (S
    (S (S (S (S (S (S (S (S (S (S (S (S (S (S (S (S (S (S (S (S (S (S (S (S
    (S
    O)))))))))))))))))))))))))))))))))))))))))))))))))))))))))))))))))))))))))))))))))))))))))))))))))))))))))))))))))))))))))))))))))))))))))))))))))))))))))))))))))))))))))))))))))))))))))))))))))))))))))))))))))))))))))))))))))))))))))))))))))) :: ((S
    (S (S (S (S (S (S (S (S (S (S (S (S (S (S (S (S (S (S (S (S (S (S (S (S
    (S (S (S (S (S (S (S (S (S (S (S (S (S (S (S (S (S (S (S (S (S (S (S (S
    (S (S (S (S (S (S (S (S (S (S (S (S (S (S (S (S (S (S (S (S (S (S (S (S
    (S (S (S (S (S (S (S (S (S (S (S (S (S (S (S (S (S (S (S (S (S (S (S (S
    (S (S (S (S (S (S (S (S (S (S (S (S (S (S (S (S (S (S (S (S (S (S (S (S
    (S (S (S (S (S (S (S (S (S (S (S (S (S (S (S (S (S (S (S (S (S (S (S (S
    (S (S (S (S (S (S (S (S (S (S (S (S (S (S (S (S (S (S (S (S (S (S (S (S
    (S (S (S (S (S (S (S (S (S (S (S (S (S (S (S (S (S (S (S (S (S (S (S (S
    (S (S (S (S (S (S (S (S (S (S (S (S (S (S (S (S (S (S (S (S (S (S (S (S
    (S (S (S (S (S (S (S (S (S (S (S (S (S (S (S (S (S (S (S (S (S (S (S (S
    (S (S
    O))))))))))))))))))))))))))))))))))))))))))))))))))))))))))))))))))))))))))))))))))))))))))))))))))))))))))))))))))))))))))))))))))))))))))))))))))))))))))))))))))))))))))))))))))))))))))))))))))))))))))))))))))))))))))))))))))))))))))))))))))) :: ((S
    (S (S (S (S (S (S (S (S (S (S (S (S (S (S (S (S (S (S (S (S (S (S (S (S
    (S (S (S (S (S (S (S (S (S (S (S (S (S (S (S (S (S (S (S (S (S (S (S (S
    (S (S (S (S (S (S (S (S (S (S (S (S (S (S (S (S (S (S (S (S (S (S (S (S
    (S (S (S (S (S (S (S (S (S (S (S (S (S (S (S (S (S (S (S (S (S (S (S (S
    (S (S (S (S (S (S (S (S (S (S (S (S (S (S (S (S (S (S (S (S (S (S (S (S
    (S (S (S (S (S (S (S (S (S (S (S (S (S (S (S (S (S (S (S (S (S (S (S (S
    (S (S (S (S (S (S (S (S (S (S (S (S (S (S (S (S (S (S (S (S (S (S (S (S
    (S (S (S (S (S (S (S (S (S (S (S (S (S (S (S (S (S (S (S (S (S (S (S (S
    (S (S (S (S (S (S (S (S (S (S (S (S (S (S (S (S (S (S (S (S (S (S (S (S
    (S (S (S (S (S (S (S (S (S (S (S (S (S (S (S (S (S (S (S (S (S (S (S (S
    (S (S (S
    O)))))))))))))))))))))))))))))))))))))))))))))))))))))))))))))))))))))))))))))))))))))))))))))))))))))))))))))))))))))))))))))))))))))))))))))))))))))))))))))))))))))))))))))))))))))))))))))))))))))))))))))))))))))))))))))))))))))))))))))))))))) :: ((S
    (S (S (S (S (S (S (S (S (S (S (S (S (S (S (S (S (S (S (S (S (S (S (S (S
    (S (S (S (S (S (S (S (S (S (S (S (S (S (S (S (S (S (S (S (S (S (S (S (S
    (S (S (S (S (S (S (S (S (S (S (S (S (S (S (S (S (S (S (S (S (S (S (S (S
    (S (S (S (S (S (S (S (S (S (S (S (S (S (S (S (S (S (S (S (S (S (S (S (S
    (S (S (S (S (S (S (S (S (S (S (S (S (S (S (S (S (S (S (S (S (S (S (S (S
    (S (S (S (S (S (S (S (S (S (S (S (S (S (S (S (S (S (S (S (S (S (S (S (S
    (S (S (S (S (S (S (S (S (S (S (S (S (S (S (S (S (S (S (S (S (S (S (S (S
    (S (S (S (S (S (S (S (S (S (S (S (S (S (S (S (S (S (S (S (S (S (S (S (S
    (S (S (S (S (S (S (S (S (S (S (S (S (S (S (S (S (S (S (S (S (S (S (S (S
    (S (S (S (S (S (S (S (S (S (S (S (S (S (S (S (S (S (S (S (S (S (S (S (S
    (S (S (S (S
    O))))))))))))))))))))))))))))))))))))))))))))))))))))))))))))))))))))))))))))))))))))))))))))))))))))))))))))))))))))))))))))))))))))))))))))))))))))))))))))))))))))))))))))))))))))))))))))))))))))))))))))))))))))))))))))))))))))))))))))))))))))) :: ((S
    (S (S (S (S (S (S (S (S (S (S (S (S (S (S (S (S (S (S (S (S (S (S (S (S
    (S (S (S (S (S (S (S (S (S (S (S (S (S (S (S (S (S (S (S (S (S (S (S (S
    (S (S (S (S (S (S (S (S (S (S (S (S (S (S (S (S (S (S (S (S (S (S (S (S
    (S (S (S (S (S (S (S (S (S (S (S (S (S (S (S (S (S (S (S (S (S (S (S (S
    (S (S (S (S (S (S (S (S (S (S (S (S (S (S (S (S (S (S (S (S (S (S (S (S
    (S (S (S (S (S (S (S (S (S (S (S (S (S (S (S (S (S (S (S (S (S (S (S (S
    (S (S (S (S (S (S (S (S (S (S (S (S (S (S (S (S (S (S (S (S (S (S (S (S
    (S (S (S (S (S (S (S (S (S (S (S (S (S (S (S (S (S (S (S (S (S (S (S (S
    (S (S (S (S (S (S (S (S (S (S (S (S (S (S (S (S (S (S (S (S (S (S (S (S
    (S (S (S (S (S (S (S (S (S (S (S (S (S (S (S (S (S (S (S (S (S (S (S (S
    (S (S (S (S (S
    O)))))))))))))))))))))))))))))))))))))))))))))))))))))))))))))))))))))))))))))))))))))))))))))))))))))))))))))))))))))))))))))))))))))))))))))))))))))))))))))))))))))))))))))))))))))))))))))))))))))))))))))))))))))))))))))))))))))))))))))))))))))) :: ((S
    (S (S (S (S (S (S (S (S (S (S (S (S (S (S (S (S (S (S (S (S (S (S (S (S
    (S (S (S (S (S (S (S (S (S (S (S (S (S (S (S (S (S (S (S (S (S (S (S (S
    (S (S (S (S (S (S (S (S (S (S (S (S (S (S (S (S (S (S (S (S (S (S (S (S
    (S (S (S (S (S (S (S (S (S (S (S (S (S (S (S (S (S (S (S (S (S (S (S (S
    (S (S (S (S (S (S (S (S (S (S (S (S (S (S (S (S (S (S (S (S (S (S (S (S
    (S (S (S (S (S (S (S (S (S (S (S (S (S (S (S (S (S (S (S (S (S (S (S (S
    (S (S (S (S (S (S (S (S (S (S (S (S (S (S (S (S (S (S (S (S (S (S (S (S
    (S (S (S (S (S (S (S (S (S (S (S (S (S (S (S (S (S (S (S (S (S (S (S (S
    (S (S (S (S (S (S (S (S (S (S (S (S (S (S (S (S (S (S (S (S (S (S (S (S
    (S (S (S (S (S (S (S (S (S (S (S (S (S (S (S (S (S (S (S (S (S (S (S (S
    (S (S (S (S (S (S (S
    O)))))))))))))))))))))))))))))))))))))))))))))))))))))))))))))))))))))))))))))))))))))))))))))))))))))))))))))))))))))))))))))))))))))))))))))))))))))))))))))))))))))))))))))))))))))))))))))))))))))))))))))))))))))))))))))))))))))))))))))))))))))))) :: ((S
    (S (S (S (S (S (S (S (S (S (S (S (S (S (S (S (S (S (S (S (S (S (S (S (S
    (S (S (S (S (S (S (S (S (S (S (S (S (S (S (S (S (S (S (S (S (S (S (S (S
    (S (S (S (S (S (S (S (S (S (S (S (S (S (S (S (S (S (S (S (S (S (S (S (S
    (S (S (S (S (S (S (S (S (S (S (S (S (S (S (S (S (S (S (S (S (S (S (S (S
    (S (S (S (S (S (S (S (S (S (S (S (S (S (S (S (S (S (S (S (S (S (S (S (S
    (S (S (S (S (S (S (S (S (S (S (S (S (S (S (S (S (S (S (S (S (S (S (S (S
    (S (S (S (S (S (S (S (S (S (S (S (S (S (S (S (S (S (S (S (S (S (S (S (S
    (S (S (S (S (S (S (S (S (S (S (S (S (S (S (S (S (S (S (S (S (S (S (S (S
    (S (S (S (S (S (S (S (S (S (S (S (S (S (S (S (S (S (S (S (S (S (S (S (S
    (S (S (S (S (S (S (S (S (S (S (S (S (S (S (S (S (S (S (S (S (S (S (S (S
    (S (S (S (S (S (S (S (S
    O))))))))))))))))))))))))))))))))))))))))))))))))))))))))))))))))))))))))))))))))))))))))))))))))))))))))))))))))))))))))))))))))))))))))))))))))))))))))))))))))))))))))))))))))))))))))))))))))))))))))))))))))))))))))))))))))))))))))))))))))))))))))) :: ((S
    (S (S (S (S (S (S (S (S (S (S (S (S (S (S (S (S (S (S (S (S (S (S (S (S
    (S (S (S (S (S (S (S (S (S (S (S (S (S (S (S (S (S (S (S (S (S (S (S (S
    (S (S (S (S (S (S (S (S (S (S (S (S (S (S (S (S (S (S (S (S (S (S (S (S
    (S (S (S (S (S (S (S (S (S (S (S (S (S (S (S (S (S (S (S (S (S (S (S (S
    (S (S (S (S (S (S (S (S (S (S (S (S (S (S (S (S (S (S (S (S (S (S (S (S
    (S (S (S (S (S (S (S (S (S (S (S (S (S (S (S (S (S (S (S (S (S (S (S (S
    (S (S (S (S (S (S (S (S (S (S (S (S (S (S (S (S (S (S (S (S (S (S (S (S
    (S (S (S (S (S (S (S (S (S (S (S (S (S (S (S (S (S (S (S (S (S (S (S (S
    (S (S (S (S (S (S (S (S (S (S (S (S (S (S (S (S (S (S (S (S (S (S (S (S
    (S (S (S (S (S (S (S (S (S (S (S (S (S (S (S (S (S (S (S (S (S (S (S (S
    (S (S (S (S (S (S (S (S (S
    O)))))))))))))))))))))))))))))))))))))))))))))))))))))))))))))))))))))))))))))))))))))))))))))))))))))))))))))))))))))))))))))))))))))))))))))))))))))))))))))))))))))))))))))))))))))))))))))))))))))))))))))))))))))))))))))))))))))))))))))))))))))))))) :: ((S
    (S (S (S (S (S (S (S (S (S (S (S (S (S (S (S (S (S (S (S (S (S (S (S (S
    (S (S (S (S (S (S (S (S (S (S (S (S (S (S (S (S (S (S (S (S (S (S (S (S
    (S (S (S (S (S (S (S (S (S (S (S (S (S (S (S (S (S (S (S (S (S (S (S (S
    (S (S (S (S (S (S (S (S (S (S (S (S (S (S (S (S (S (S (S (S (S (S (S (S
    (S (S (S (S (S (S (S (S (S (S (S (S (S (S (S (S (S (S (S (S (S (S (S (S
    (S (S (S (S (S (S (S (S (S (S (S (S (S (S (S (S (S (S (S (S (S (S (S (S
    (S (S (S (S (S (S (S (S (S (S (S (S (S (S (S (S (S (S (S (S (S (S (S (S
    (S (S (S (S (S (S (S (S (S (S (S (S (S (S (S (S (S (S (S (S (S (S (S (S
    (S (S (S (S (S (S (S (S (S (S (S (S (S (S (S (S (S (S (S (S (S (S (S (S
    (S (S (S (S (S (S (S (S (S (S (S (S (S (S (S (S (S (S (S (S (S (S (S (S
    (S (S (S (S (S (S (S (S (S (S
    O))))))))))))))))))))))))))))))))))))))))))))))))))))))))))))))))))))))))))))))))))))))))))))))))))))))))))))))))))))))))))))))))))))))))))))))))))))))))))))))))))))))))))))))))))))))))))))))))))))))))))))))))))))))))))))))))))))))))))))))))))))))))))) :: ((S
    (S (S (S (S (S (S (S (S (S (S (S (S (S (S (S (S (S (S (S (S (S (S (S (S
    (S (S (S (S (S (S (S (S (S (S (S (S (S (S (S (S (S (S (S (S (S (S (S (S
    (S (S (S (S (S (S (S (S (S (S (S (S (S (S (S (S (S (S (S (S (S (S (S (S
    (S (S (S (S (S (S (S (S (S (S (S (S (S (S (S (S (S (S (S (S (S (S (S (S
    (S (S (S (S (S (S (S (S (S (S (S (S (S (S (S (S (S (S (S (S (S (S (S (S
    (S (S (S (S (S (S (S (S (S (S (S (S (S (S (S (S (S (S (S (S (S (S (S (S
    (S (S (S (S (S (S (S (S (S (S (S (S (S (S (S (S (S (S (S (S (S (S (S (S
    (S (S (S (S (S (S (S (S (S (S (S (S (S (S (S (S (S (S (S (S (S (S (S (S
    (S (S (S (S (S (S (S (S (S (S (S (S (S (S (S (S (S (S (S (S (S (S (S (S
    (S (S (S (S (S (S (S (S (S (S (S (S (S (S (S (S (S (S (S (S (S (S (S (S
    (S (S (S (S (S (S (S (S (S (S (S
    O)))))))))))))))))))))))))))))))))))))))))))))))))))))))))))))))))))))))))))))))))))))))))))))))))))))))))))))))))))))))))))))))))))))))))))))))))))))))))))))))))))))))))))))))))))))))))))))))))))))))))))))))))))))))))))))))))))))))))))))))))))))))))))) :: ((S
    (S (S (S (S (S (S (S (S (S (S (S (S (S (S (S (S (S (S (S (S (S (S (S (S
    (S (S (S (S (S (S (S (S (S (S (S (S (S (S (S (S (S (S (S (S (S (S (S (S
    (S (S (S (S (S (S (S (S (S (S (S (S (S (S (S (S (S (S (S (S (S (S (S (S
    (S (S (S (S (S (S (S (S (S (S (S (S (S (S (S (S (S (S (S (S (S (S (S (S
    (S (S (S (S (S (S (S (S (S (S (S (S (S (S (S (S (S (S (S (S (S (S (S (S
    (S (S (S (S (S (S (S (S (S (S (S (S (S (S (S (S (S (S (S (S (S (S (S (S
    (S (S (S (S (S (S (S (S (S (S (S (S (S (S (S (S (S (S (S (S (S (S (S (S
    (S (S (S (S (S (S (S (S (S (S (S (S (S (S (S (S (S (S (S (S (S (S (S (S
    (S (S (S (S (S (S (S (S (S (S (S (S (S (S (S (S (S (S (S (S (S (S (S (S
    (S (S (S (S (S (S (S (S (S (S (S (S (S (S (S (S (S (S (S (S (S (S (S (S
    (S (S (S (S (S (S (S (S (S (S (S (S
    O))))))))))))))))))))))))))))))))))))))))))))))))))))))))))))))))))))))))))))))))))))))))))))))))))))))))))))))))))))))))))))))))))))))))))))))))))))))))))))))))))))))))))))))))))))))))))))))))))))))))))))))))))))))))))))))))))))))))))))))))))))))))))))) :: ((S
    (S (S (S (S (S (S (S (S (S (S (S (S (S (S (S (S (S (S (S (S (S (S (S (S
    (S (S (S (S (S (S (S (S (S (S (S (S (S (S (S (S (S (S (S (S (S (S (S (S
    (S (S (S (S (S (S (S (S (S (S (S (S (S (S (S (S (S (S (S (S (S (S (S (S
    (S (S (S (S (S (S (S (S (S (S (S (S (S (S (S (S (S (S (S (S (S (S (S (S
    (S (S (S (S (S (S (S (S (S (S (S (S (S (S (S (S (S (S (S (S (S (S (S (S
    (S (S (S (S (S (S (S (S (S (S (S (S (S (S (S (S (S (S (S (S (S (S (S (S
    (S (S (S (S (S (S (S (S (S (S (S (S (S (S (S (S (S (S (S (S (S (S (S (S
    (S (S (S (S (S (S (S (S (S (S (S (S (S (S (S (S (S (S (S (S (S (S (S (S
    (S (S (S (S (S (S (S (S (S (S (S (S (S (S (S (S (S (S (S (S (S (S (S (S
    (S (S (S (S (S (S (S (S (S (S (S (S (S (S (S (S (S (S (S (S (S (S (S (S
    (S (S (S (S (S (S (S (S (S (S (S (S (S
    O)))))))))))))))))))))))))))))))))))))))))))))))))))))))))))))))))))))))))))))))))))))))))))))))))))))))))))))))))))))))))))))))))))))))))))))))))))))))))))))))))))))))))))))))))))))))))))))))))))))))))))))))))))))))))))))))))))))))))))))))))))))))))))))) :: ((S
    (S (S (S (S (S (S (S (S (S (S (S (S (S (S (S (S (S (S (S (S (S (S (S (S
    (S (S (S (S (S (S (S (S (S (S (S (S (S (S (S (S (S (S (S (S (S (S (S (S
    (S (S (S (S (S (S (S (S (S (S (S (S (S (S (S (S (S (S (S (S (S (S (S (S
    (S (S (S (S (S (S (S (S (S (S (S (S (S (S (S (S (S (S (S (S (S (S (S (S
    (S (S (S (S (S (S (S (S (S (S (S (S (S (S (S (S (S (S (S (S (S (S (S (S
    (S (S (S (S (S (S (S (S (S (S (S (S (S (S (S (S (S (S (S (S (S (S (S (S
    (S (S (S (S (S (S (S (S (S (S (S (S (S (S (S (S (S (S (S (S (S (S (S (S
    (S (S (S (S (S (S (S (S (S (S (S (S (S (S (S (S (S (S (S (S (S (S (S (S
    (S (S (S (S (S (S (S (S (S (S (S (S (S (S (S (S (S (S (S (S (S (S (S (S
    (S (S (S (S (S (S (S (S (S (S (S (S (S (S (S (S (S (S (S (S (S (S (S (S
    (S (S (S (S (S (S (S (S (S (S (S (S (S (S
    O))))))))))))))))))))))))))))))))))))))))))))))))))))))))))))))))))))))))))))))))))))))))))))))))))))))))))))))))))))))))))))))))))))))))))))))))))))))))))))))))))))))))))))))))))))))))))))))))))))))))))))))))))))))))))))))))))))))))))))))))))))))))))))))) :: [])))))))))))))))))))))))))))))))))))))))))))))))))))))))))))))))))))))))))))))))))))))))))))))))))))))))))))))))))))))))))))))))))))))

(** val splitlines_codes : nat list **)

let splitlines_codes =
  (S (S (S (S (S (S (S (S (S (S O)))))))))) :: ((S (S (S (S (S (S (S (S (S (S
    (S O))))))))))) :: ((S (S (S (S (S (S (S (S (S (S (S (S
    O)))))))))))) :: ((S (S (S (S (S (S (S (S (S (S (S (S (S
    O))))))))))))) :: ((S (S (S (S (S (S (S (S (S (S (S (S (S (S (S (S (S (S
    (S (S (S (S (S (S (S (S (S (S O)))))))))))))))))))))))))))) :: ((S (S (S
    (S (S (S (S (S (S (S (S (S (S (S (S (S (S (S (S (S (S (S (S (S (S (S (S
    (S (S O))))))))))))))))))))))))))))) :: ((S (S (S (S (S (S (S (S (S (S (S
    (S (S (S (S (S (S (S (S (S (S (S (S (S (S (S (S (S (S (S
    O)))))))))))))))))))))))))))))) :: ((S (S (S (S (S (S (S (S (S (S (S (S
    (S (S (S (S (S (S (S (S (S (S (S (S (S (S (S (S (S (S (S (S (S (S (S (S
    (S (S (S (S (S (S (S (S (S (S (S (S (S (S (S (S (S (S (S (S (S (S (S (S
    (S (S (S (S (S (S (S (S (S (S (S (S (S (S (S (S (S (S (S (S (S (S (S (S
    (S (S (S (S (S (S (S (S (S (S (S (S (S (S (S (S (S (S (S (S (S (S (S (S
    (S (S (S (S (S (S (S (S (S (S (S (S (S (S (S (S (S (S (S (S (S (S (S (S
    (S
    O))))))))))))))))))))))))))))))))))))))))))))))))))))))))))))))))))))))))))))))))))))))))))))))))))))))))))))))))))))))))))))))))))))) :: [])))))))

(** val str_strip_codes : nat list **)

let str_strip_codes =
  (S (S (S (S (S (S (S (S (S O))))))))) :: ((S (S (S (S (S (S (S (S (S (S
    O)))))))))) :: ((S (S (S (S (S (S (S (S (S (S (S O))))))))))) :: ((S (S
    (S (S (S (S (S (S (S (S (S (S O)))))))))))) :: ((S (S (S (S (S (S (S (S
    (S (S (S (S (S O))))))))))))) :: ((S (S (S (S (S (S (S (S (S (S (S (S (S
    (S (S (S (S (S (S (S (S (S (S (S (S (S (S (S
    O)))))))))))))))))))))))))))) :: ((S (S (S (S (S (S (S (S (S (S (S (S (S
    (S (S (S (S (S (S (S (S (S (S (S (S (S (S (S (S
    O))))))))))))))))))))))))))))) :: ((S (S (S (S (S (S (S (S (S (S (S (S (S
    (S (S (S (S (S (S (S (S (S (S (S (S (S (S (S (S (S
    O)))))))))))))))))))))))))))))) :: ((S (S (S (S (S (S (S (S (S (S (S (S
    (S (S (S (S (S (S (S (S (S (S (S (S (S (S (S (S (S (S (S
    O))))))))))))))))))))))))))))))) :: ((S (S (S (S (S (S (S (S (S (S (S (S
    (S (S (S (S (S (S (S (S (S (S (S (S (S (S (S (S (S (S (S (S
    O)))))))))))))))))))))))))))))))) :: ((S (S (S (S (S (S (S (S (S (S (S (S
    (S (S (S (S (S (S (S (S (S (S (S (S (S (S (S (S (S (S (S (S (S (S (S (S
    (S (S (S (S (S (S (S (S (S (S (S (S (S (S (S (S (S (S (S (S (S (S (S (S
    (S (S (S (S (S (S (S (S (S (S (S (S (S (S (S (S (S (S (S (S (S (S (S (S
    (S (S (S (S (S (S (S (S (S (S (S (S (S (S (S (S (S (S (S (S (S (S (S (S
    (S (S (S (S (S (S (S (S (S (S (S (S (S (S (S (S (S (S (S (S (S (S (S (S
    (S
    O))))))))))))))))))))))))))))))))))))))))))))))))))))))))))))))))))))))))))))))))))))))))))))))))))))))))))))))))))))))))))))))))))))) :: ((S
    (S (S (S (S (S (S (S (S (S (S (S (S (S (S (S (S (S (S (S (S (S (S (S (S
    (S (S (S (S (S (S (S (S (S (S (S (S (S (S (S (S (S (S (S (S (S (S (S (S
    (S (S (S (S (S (S (S (S (S (S (S (S (S (S (S (S (S (S (S (S (S (S (S (S
    (S (S (S (S (S (S (S (S (S (S (S (S (S (S (S (S (S (S (S (S (S (S (S (S
    (S (S (S (S (S (S (S (S (S (S (S (S (S (S (S (S (S (S (S (S (S (S (S (S
    (S (S (S (S (S (S (S (S (S (S (S (S (S (S (S (S (S (S (S (S (S (S (S (S
    (S (S (S (S (S (S (S (S (S (S (S (S (S (S (S
    O)))))))))))))))))))))))))))))))))))))))))))))))))))))))))))))))))))))))))))))))))))))))))))))))))))))))))))))))))))))))))))))))))))))))))))))))))))))))))))))))) :: [])))))))))))

(** val chars_of_codes : nat list -> char list **)

let chars_of_codes l =
  map ascii_of_nat l

(** val mem_ascii : char -> char list -> bool **)

let mem_ascii c l =
  existsb ((=) c) l

(** val re_space_chars : char list **)

let re_space_chars =
  chars_of_codes re_space_codes

(** val re_word_chars : char list **)

let re_word_chars =
  chars_of_codes re_word_codes

(** val str_strip_chars : char list **)

let str_strip_chars =
  chars_of_codes str_strip_codes

(** val splitlines_chars : char list **)

let splitlines_chars =
  chars_of_codes splitlines_codes

(** val alpha_chars : char list **)

let alpha_chars =
  list_ascii_of_string
    ('_'::('A'::('B'::('C'::('D'::('E'::('F'::('G'::('H'::('I'::('J'::('K'::('L'::('M'::('N'::('O'::('P'::('Q'::('R'::('S'::('T'::('U'::('V'::('W'::('X'::('Y'::('Z'::('a'::('b'::('c'::('d'::('e'::('f'::('g'::('h'::('i'::('j'::('k'::('l'::('m'::('n'::('o'::('p'::('q'::('r'::('s'::('t'::('u'::('v'::('w'::('x'::('y'::('z'::[])))))))))))))))))))))))))))))))))))))))))))))))))))))

(** val digit_chars : char list **)

let digit_chars =
  list_ascii_of_string
    ('0'::('1'::('2'::('3'::('4'::('5'::('6'::('7'::('8'::('9'::[]))))))))))

(** val is_space : char -> bool **)

let is_space c =
  mem_ascii c re_space_chars

(** val is_word : char -> bool **)

let is_word c =
  mem_ascii c re_word_chars

(** val is_pyspace : char -> bool **)

let is_pyspace c =
  mem_ascii c str_strip_chars

(** val is_linesep : char -> bool **)

let is_linesep c =
  mem_ascii c splitlines_chars

(** val is_alpha_ : char -> bool **)

let is_alpha_ c =
  mem_ascii c alpha_chars

(** val is_digit : char -> bool **)

let is_digit c =
  mem_ascii c digit_chars

(** val is_idc : char -> bool **)

let is_idc c =
  (||) (is_alpha_ c) (is_digit c)

(** val is_fnc : char -> bool **)

let is_fnc c =
  (||) (is_idc c) ((=) c '.')

(** val nl : char **)

let nl =
  ascii_of_nat (S (S (S (S (S (S (S (S (S (S O))))))))))

(** val cr : char **)

let cr =
  ascii_of_nat (S (S (S (S (S (S (S (S (S (S (S (S (S O)))))))))))))

(** val nl_s : char list **)

let nl_s =
  nl::[]

(** val span_while : (char -> bool) -> char list -> char list * char list **)

let rec span_while p s = match s with
| [] -> ([], [])
| c::r -> if p c then let (a, b) = span_while p r in ((c::a), b) else ([], s)

(** val skip_ws : char list -> char list **)

let skip_ws s =
  snd (span_while is_space s)

(** val prefix_rest : char list -> char list -> char list option **)

let rec prefix_rest k s =
  match k with
  | [] -> Some s
  | a::k' ->
    (match s with
     | [] -> None
     | b::s' -> if (=) a b then prefix_rest k' s' else None)

(** val startswith : char list -> char list -> bool **)

let startswith k s =
  match prefix_rest k s with
  | Some _ -> true
  | None -> false

(** val find_on_line : char -> char list -> (char list * char list) option **)

let rec find_on_line ch = function
| [] -> None
| c::r ->
  if (=) c ch
  then Some ([], r)
  else if (=) c nl
       then None
       else (match find_on_line ch r with
             | Some p -> let (a, b) = p in Some ((c::a), b)
             | None -> None)

(** val find_any : char -> char list -> (char list * char list) option **)

let rec find_any ch = function
| [] -> None
| c::r ->
  if (=) c ch
  then Some ([], r)
  else (match find_any ch r with
        | Some p -> let (a, b) = p in Some ((c::a), b)
        | None -> None)

(** val has_char : char -> char list -> bool **)

let rec has_char ch = function
| [] -> false
| c::r -> (||) ((=) c ch) (has_char ch r)

(** val has_nl : char list -> bool **)

let has_nl s =
  has_char nl s

(** val count_char : char -> char list -> nat **)

let rec count_char ch = function
| [] -> O
| c::r -> add (if (=) c ch then S O else O) (count_char ch r)

(** val rev_str : char list -> char list -> char list **)

let rec rev_str s acc =
  match s with
  | [] -> acc
  | c::r -> rev_str r (c::acc)

(** val lstrip_by : (char -> bool) -> char list -> char list **)

let lstrip_by p s =
  snd (span_while p s)

(** val rstrip_by : (char -> bool) -> char list -> char list **)

let rstrip_by p s =
  rev_str (lstrip_by p (rev_str s [])) []

(** val strip_by : (char -> bool) -> char list -> char list **)

let strip_by p s =
  rstrip_by p (lstrip_by p s)

(** val re_strip : char list -> char list **)

let re_strip s =
  strip_by is_space s

(** val py_strip : char list -> char list **)

let py_strip s =
  strip_by is_pyspace s

(** val py_rstrip : char list -> char list **)

let py_rstrip s =
  rstrip_by is_pyspace s

(** val is_blank : char list -> bool **)

let is_blank s =
  match lstrip_by is_pyspace s with
  | [] -> true
  | _::_ -> false

(** val head_is : char -> char list -> bool **)

let head_is ch = function
| [] -> false
| c::_ -> (=) c ch

(** val last_is : char -> char list -> bool **)

let rec last_is ch = function
| [] -> false
| c::r -> (match r with
           | [] -> (=) c ch
           | _::_ -> last_is ch r)

(** val join_nl : char list list -> char list **)

let rec join_nl = function
| [] -> []
| x :: r ->
  (match r with
   | [] -> x
   | _ :: _ -> append x (append nl_s (join_nl r)))

(** val splitlines_aux : char list -> char list -> char list list **)

let rec splitlines_aux cur = function
| [] -> (match cur with
         | [] -> []
         | _::_ -> (rev_str cur []) :: [])
| c::r ->
  if is_linesep c
  then (rev_str cur []) :: (if (=) c cr
                            then (match r with
                                  | [] -> splitlines_aux [] r
                                  | c2::r2 ->
                                    if (=) c2 nl
                                    then splitlines_aux [] r2
                                    else splitlines_aux [] r)
                            else splitlines_aux [] r)
  else splitlines_aux (c::cur) r

type kind =
| KVerbatim
| KInvalid
| KKeyword
| KFunction
| KParameter
| KError
| KVariable

type tmatch = { mkind : kind; mname : char list; mindex : char list option;
                mlen : nat }

(** val kW : char list list **)

let kW =
  kwlist

(** val index_group : char list -> (char list * nat) option **)

let index_group = function
| [] -> None
| c::r ->
  if (=) c '['
  then (match find_any ']' r with
        | Some p ->
          let (body, _) = p in
          let inner = re_strip body in
          if has_nl inner
          then None
          else Some (inner, (add (S (S O)) (length0 body)))
        | None -> None)
  else None

(** val with_index : kind -> char list -> nat -> char list -> tmatch **)

let with_index k name base after =
  match index_group after with
  | Some p ->
    let (inner, n0) = p in
    { mkind = k; mname = name; mindex = (Some inner); mlen = (add base n0) }
  | None -> { mkind = k; mname = name; mindex = None; mlen = base }

(** val try_invalid : char list list -> char list -> tmatch option **)

let rec try_invalid kws s =
  match kws with
  | [] -> None
  | k :: rest ->
    (match prefix_rest k s with
     | Some r ->
       let (ws, r2) = span_while is_space r in
       (match r2 with
        | [] -> try_invalid rest s
        | c::r3 ->
          if (=) c '['
          then (match find_on_line ']' r3 with
                | Some p ->
                  let (body, _) = p in
                  Some { mkind = KInvalid; mname =
                  (append k
                    (append ws (append ('['::[]) (append body (']'::[])))));
                  mindex = None; mlen =
                  (add (add (add (length0 k) (length0 ws)) (S (S O)))
                    (length0 body)) }
                | None -> try_invalid rest s)
          else try_invalid rest s)
     | None -> try_invalid rest s)

(** val try_keyword : char list list -> char list -> tmatch option **)

let rec try_keyword kws s =
  match kws with
  | [] -> None
  | k :: rest ->
    (match prefix_rest k s with
     | Some s1 ->
       (match s1 with
        | [] ->
          Some { mkind = KKeyword; mname = k; mindex = None; mlen =
            (length0 k) }
        | c::_ ->
          if is_word c
          then try_keyword rest s
          else Some { mkind = KKeyword; mname = k; mindex = None; mlen =
                 (length0 k) })
     | None -> try_keyword rest s)

(** val try_verbatim : char list -> tmatch option **)

let try_verbatim = function
| [] -> None
| c::s1 ->
  (match s1 with
   | [] -> None
   | c1::r1 ->
     if (=) c '`'
     then if (=) c1 nl
          then None
          else (match find_on_line '`' r1 with
                | Some p ->
                  let (body, _) = p in
                  Some { mkind = KVerbatim; mname =
                  (append (c::(c1::body)) ('`'::[])); mindex = None; mlen =
                  (add (S (S (S O))) (length0 body)) }
                | None -> None)
     else None)

(** val try_function : char list -> tmatch option **)

let try_function s = match s with
| [] -> None
| c::_ ->
  if is_alpha_ c
  then let (name, r1) = span_while is_fnc s in
       let (ws, r2) = span_while is_space r1 in
       (match r2 with
        | [] -> None
        | d::_ ->
          if (=) d '('
          then Some { mkind = KFunction; mname = name; mindex = None; mlen =
                 (add (length0 name) (length0 ws)) }
          else None)
  else None

(** val try_bracketed : char -> char -> kind -> char list -> tmatch option **)

let try_bracketed op cl k = function
| [] -> None
| c::r ->
  if (=) c op
  then let (w1, r1) = span_while is_space r in
       (match r1 with
        | [] -> None
        | a::_ ->
          if is_alpha_ a
          then let (name, r2) = span_while is_idc r1 in
               let (w2, r3) = span_while is_space r2 in
               (match r3 with
                | [] -> None
                | d::r4 ->
                  if (=) d cl
                  then Some
                         (with_index k name
                           (add
                             (add (add (S (S O)) (length0 w1)) (length0 name))
                             (length0 w2)) r4)
                  else None)
          else None)
  else None

(** val try_variable : char list -> tmatch option **)

let try_variable s = match s with
| [] -> None
| c::_ ->
  if is_alpha_ c
  then let (name, r1) = span_while is_idc s in
       Some (with_index KVariable name (length0 name) r1)
  else None

(** val or_else : 'a1 option -> (unit -> 'a1 option) -> 'a1 option **)

let or_else a b =
  match a with
  | Some x -> Some x
  | None -> b ()

(** val match_here : bool -> char list -> tmatch option **)

let match_here prev_word s =
  or_else (try_verbatim s) (fun _ ->
    or_else (try_invalid kW s) (fun _ ->
      or_else (if prev_word then None else try_keyword kW s) (fun _ ->
        or_else (try_function s) (fun _ ->
          or_else (try_bracketed '{' '}' KParameter s) (fun _ ->
            or_else (try_bracketed '<' '>' KError s) (fun _ -> try_variable s))))))

type item =
| Chr of char
| Tok of nat * tmatch

(** val scan : nat -> nat -> bool -> char list -> item list **)

let rec scan pos skip prev_word s = match s with
| [] -> []
| c::r ->
  (match skip with
   | O ->
     (match match_here prev_word s with
      | Some m ->
        (Tok (pos, m)) :: (scan (S pos) (sub m.mlen (S O)) (is_word c) r)
      | None -> (Chr c) :: (scan (S pos) O (is_word c) r))
   | S k -> scan (S pos) k (is_word c) r)

(** val scan_items : char list -> item list **)

let scan_items s =
  scan O O false s

(** val matches_of : item list -> tmatch list **)

let rec matches_of = function
| [] -> []
| i :: r ->
  (match i with
   | Chr _ -> matches_of r
   | Tok (_, m) -> m :: (matches_of r))

type fmt_res =
| FOk of char list
| FFail
| FUnmodelled

type ftok =
| FLit of char
| FAuto
| FManual of n
| FAutoX
| FManualX of n
| FBad
| FUnk

(** val is_field_delim : char -> bool **)

let is_field_delim c =
  (||) ((||) ((||) ((=) c '.') ((=) c '[')) ((=) c ':')) ((=) c '!')

(** val all_digits : char list -> bool **)

let rec all_digits = function
| [] -> true
| c::r -> (&&) (is_digit c) (all_digits r)

(** val digit_val : char -> n **)

let digit_val c =
  N.sub (n_of_ascii c) (Npos (XO (XO (XO (XO (XI XH))))))

(** val digits_to_N : n -> char list -> n **)

let rec digits_to_N acc = function
| [] -> acc
| c::r ->
  digits_to_N (N.add (N.mul acc (Npos (XO (XI (XO XH))))) (digit_val c)) r

(** val classify_field : char list -> ftok **)

let classify_field f =
  let (fp, rest) = span_while (fun c -> negb (is_field_delim c)) f in
  (match fp with
   | [] -> FAutoX
   | _::_ ->
     if all_digits fp
     then (match rest with
           | [] -> FManual (digits_to_N N0 fp)
           | _::_ -> FManualX (digits_to_N N0 fp))
     else FBad)

(** val classify_nested : char list -> ftok **)

let classify_nested f =
  let (fp, _) = span_while (fun c -> negb (is_field_delim c)) f in
  (match fp with
   | [] -> FUnk
   | _::_ -> if all_digits fp then FUnk else FBad)

type fmode =
| MText
| MAfterL
| MAfterR
| MField of char list

(** val ftokens : fmode -> char list -> ftok list **)

let rec ftokens m = function
| [] -> (match m with
         | MText -> []
         | _ -> FBad :: [])
| c::r ->
  (match m with
   | MText ->
     if (=) c '{'
     then ftokens MAfterL r
     else if (=) c '}'
          then ftokens MAfterR r
          else (FLit c) :: (ftokens MText r)
   | MAfterL ->
     if (=) c '{'
     then (FLit c) :: (ftokens MText r)
     else if (=) c '}'
          then FAuto :: (ftokens MText r)
          else ftokens (MField (c::[])) r
   | MAfterR ->
     if (=) c '}' then (FLit c) :: (ftokens MText r) else FBad :: []
   | MField acc ->
     if (=) c '}'
     then (classify_field (rev_str acc [])) :: (ftokens MText r)
     else if (=) c '{'
          then (classify_nested (rev_str acc [])) :: []
          else ftokens (MField (c::acc)) r)

type numbering =
| NNone
| NAuto
| NManual

(** val ffill : char list list -> nat -> numbering -> ftok list -> fmt_res **)

let rec ffill args k num = function
| [] -> FOk []
| f :: r ->
  (match f with
   | FLit c -> (match ffill args k num r with
                | FOk s -> FOk (c::s)
                | x -> x)
   | FAuto ->
     (match num with
      | NManual -> FFail
      | _ ->
        (match nth_error args k with
         | Some a ->
           (match ffill args (S k) NAuto r with
            | FOk s -> FOk (append a s)
            | x -> x)
         | None -> FFail))
   | FManual n0 ->
     (match num with
      | NAuto -> FFail
      | _ ->
        if N.ltb n0 (N.of_nat (length args))
        then (match nth_error args (N.to_nat n0) with
              | Some a ->
                (match ffill args k NManual r with
                 | FOk s -> FOk (append a s)
                 | x -> x)
              | None -> FFail)
        else FFail)
   | FAutoX ->
     (match num with
      | NManual -> FFail
      | _ ->
        (match nth_error args k with
         | Some _ -> FUnmodelled
         | None -> FFail))
   | FManualX n0 ->
     (match num with
      | NAuto -> FFail
      | _ -> if N.ltb n0 (N.of_nat (length args)) then FUnmodelled else FFail)
   | FBad -> FFail
   | FUnk -> FUnmodelled)

(** val py_format : char list -> char list list -> fmt_res **)

let py_format tpl args =
  ffill args O NNone (ftokens MText tpl)

type ptype =
| TVariable
| TExogenous
| TEndogenous
| TParameter
| TError
| TFunction
| TKeyword
| TVerbatim
| TInvalid

(** val type_name : ptype -> char list **)

let type_name = function
| TVariable -> 'V'::('A'::('R'::('I'::('A'::('B'::('L'::('E'::[])))))))
| TExogenous ->
  'E'::('X'::('O'::('G'::('E'::('N'::('O'::('U'::('S'::[]))))))))
| TEndogenous ->
  'E'::('N'::('D'::('O'::('G'::('E'::('N'::('O'::('U'::('S'::[])))))))))
| TParameter ->
  'P'::('A'::('R'::('A'::('M'::('E'::('T'::('E'::('R'::[]))))))))
| TError -> 'E'::('R'::('R'::('O'::('R'::[]))))
| TFunction -> 'F'::('U'::('N'::('C'::('T'::('I'::('O'::('N'::[])))))))
| TKeyword -> 'K'::('E'::('Y'::('W'::('O'::('R'::('D'::[]))))))
| TVerbatim -> 'V'::('E'::('R'::('B'::('A'::('T'::('I'::('M'::[])))))))
| TInvalid -> 'I'::('N'::('V'::('A'::('L'::('I'::('D'::[]))))))

(** val type_eqb : ptype -> ptype -> bool **)

let type_eqb a b =
  match a with
  | TVariable -> (match b with
                  | TVariable -> true
                  | _ -> false)
  | TExogenous -> (match b with
                   | TExogenous -> true
                   | _ -> false)
  | TEndogenous -> (match b with
                    | TEndogenous -> true
                    | _ -> false)
  | TParameter -> (match b with
                   | TParameter -> true
                   | _ -> false)
  | TError -> (match b with
               | TError -> true
               | _ -> false)
  | TFunction -> (match b with
                  | TFunction -> true
                  | _ -> false)
  | TKeyword -> (match b with
                 | TKeyword -> true
                 | _ -> false)
  | TVerbatim -> (match b with
                  | TVerbatim -> true
                  | _ -> false)
  | TInvalid -> (match b with
                 | TInvalid -> true
                 | _ -> false)

(** val assoc_z : char list -> (char list * z) list -> z **)

let rec assoc_z k = function
| [] -> Z0
| p :: r -> let (k', v) = p in if eqb0 k k' then v else assoc_z k r

(** val type_value : ptype -> z **)

let type_value t =
  assoc_z (type_name t) type_order

(** val type_max : ptype -> ptype -> ptype **)

let type_max a b =
  if Z.ltb (type_value a) (type_value b) then b else a

(** val is_variable_type : ptype -> bool **)

let is_variable_type = function
| TVariable -> true
| TExogenous -> true
| TEndogenous -> true
| _ -> false

type pidx =
| IInt of z
| IStr of char list

type term = { tname : char list; ttype : ptype; tindex : pidx option }

type symbol = { sname : char list option; stype : ptype; slags : pidx option;
                sleads : pidx option; sequation : char list option;
                scode : char list option }

(** val opt_string_eqb : char list option -> char list option -> bool **)

let opt_string_eqb a b =
  match a with
  | Some x -> (match b with
               | Some y -> eqb0 x y
               | None -> false)
  | None -> (match b with
             | Some _ -> false
             | None -> true)

(** val resolve_strings :
    char list option -> char list option -> char list option outcome **)

let resolve_strings old new0 =
  match old with
  | Some o ->
    (match new0 with
     | Some n0 -> if eqb0 o n0 then Ret (Some o) else Raise ParserError
     | None -> Ret old)
  | None -> (match new0 with
             | Some n0 -> Ret (Some n0)
             | None -> Ret old)

(** val resolve_by_type_pair :
    (z -> z -> z) -> pidx option -> pidx option -> pidx option outcome **)

let resolve_by_type_pair f this that =
  match this with
  | Some p ->
    (match p with
     | IInt a ->
       (match that with
        | Some p0 ->
          (match p0 with
           | IInt b -> Ret (Some (IInt (f (f a b) Z0)))
           | IStr _ -> Ret (Some (IInt a)))
        | None -> Raise TypeError)
     | IStr _ ->
       (match that with
        | Some p0 ->
          (match p0 with
           | IInt b -> Ret (Some (IInt b))
           | IStr _ -> Ret (Some (IInt Z0)))
        | None -> Raise TypeError))
  | None -> (match that with
             | Some _ -> Raise TypeError
             | None -> Ret None)

(** val obind : 'a1 outcome -> ('a1 -> 'a2 outcome) -> 'a2 outcome **)

let obind a f =
  match a with
  | Ret x -> f x
  | Raise e -> Raise e

(** val combine : symbol -> symbol -> symbol outcome **)

let combine self other =
  obind
    (if type_eqb self.stype other.stype
     then Ret self.stype
     else if (&&) (is_variable_type self.stype) (is_variable_type other.stype)
          then Ret (type_max self.stype other.stype)
          else Raise SymbolError) (fun ty ->
    obind (resolve_by_type_pair Z.min self.slags other.slags) (fun lg ->
      obind (resolve_by_type_pair Z.max self.sleads other.sleads) (fun ld ->
        obind (resolve_strings self.sequation other.sequation) (fun eq ->
          obind (resolve_strings self.scode other.scode) (fun cd -> Ret
            { sname = self.sname; stype = ty; slags = lg; sleads = ld;
            sequation = eq; scode = cd })))))

(** val dict_get : char list -> (char list * 'a1) list -> 'a1 option **)

let rec dict_get k = function
| [] -> None
| p :: r -> let (k', v) = p in if eqb0 k k' then Some v else dict_get k r

(** val dict_set :
    char list -> 'a1 -> (char list * 'a1) list -> (char list * 'a1) list **)

let rec dict_set k v = function
| [] -> (k, v) :: []
| p :: r ->
  let (k', v') = p in
  if eqb0 k k' then (k', v) :: r else (k', v') :: (dict_set k v r)

(** val dict_values : (char list * 'a1) list -> 'a1 list **)

let dict_values d =
  map snd d

type 'a pres =
| POk of 'a
| PErr of exn
| PUnmodelled

(** val of_outcome : 'a1 outcome -> 'a1 pres **)

let of_outcome = function
| Ret x -> POk x
| Raise e -> PErr e

(** val strip_comments : char list -> char list **)

let strip_comments line =
  match find_any '#' line with
  | Some p -> let (before, _) = p in py_rstrip before
  | None -> line

(** val count_parens : nat -> char list -> nat option **)

let rec count_parens n0 = function
| [] -> Some n0
| c::r ->
  if (=) c '('
  then count_parens (S n0) r
  else if (=) c ')'
       then (match n0 with
             | O -> None
             | S m -> count_parens m r)
       else count_parens n0 r

(** val at_eol : char list -> bool **)

let at_eol = function
| [] -> true
| c::_ -> (=) c nl

(** val has_fence_close : char list -> bool **)

let rec has_fence_close s = match s with
| [] -> false
| _::r ->
  (||)
    (match prefix_rest ('`'::('`'::('`'::[]))) s with
     | Some y -> at_eol y
     | None -> false) (has_fence_close r)

(** val has_close_paren_eol : char list -> bool **)

let rec has_close_paren_eol = function
| [] -> false
| c::r -> (||) ((&&) ((=) c ')') (at_eol r)) (has_close_paren_eol r)

(** val alt_fence : char list -> bool **)

let alt_fence s =
  if startswith ('`'::('`'::('`'::[]))) s
  then let (_, r) = span_while (fun c -> (=) c '`') s in
       (match r with
        | [] -> false
        | c::body -> if (=) c nl then has_fence_close body else false)
  else false

(** val alt_lhs_bracket : char list -> bool **)

let alt_lhs_bracket = function
| [] -> false
| c::r ->
  if (=) c '('
  then (match find_any '=' r with
        | Some p -> let (_, after) = p in has_close_paren_eol after
        | None -> false)
  else false

(** val alt_single : char list -> bool **)

let alt_single s = match s with
| [] -> false
| c::_ ->
  if is_space c
  then false
  else let (run, rest) = span_while (fun c0 -> negb (is_space c0)) s in
       (||) (match run with
             | [] -> false
             | _::tl -> has_char '=' tl) (head_is '=' (skip_ws rest))

(** val alt_here : char list -> bool **)

let alt_here s =
  (||) ((||) (alt_fence s) (alt_lhs_bracket s)) (alt_single s)

(** val stmt_ok_from : bool -> char list -> bool **)

let rec stmt_ok_from at_line_start s = match s with
| [] -> false
| c::r ->
  (||) (if at_line_start then alt_here s else false)
    (stmt_ok_from ((=) c nl) r)

(** val stmt_ok : char list -> bool **)

let stmt_ok s =
  stmt_ok_from true s

type sstate = { unmatched : nat; complete : bool; buffer : char list list }

(** val s0 : sstate **)

let s0 =
  { unmatched = O; complete = true; buffer = [] }

type step =
| StCont of sstate
| StYield of char list * sstate
| StRaise of exn

(** val split_step : sstate -> char list -> step **)

let split_step st line =
  let buf = line :: st.buffer in
  let fence = startswith ('`'::('`'::('`'::[]))) line in
  if (&&) fence (match st.buffer with
                 | [] -> true
                 | _ :: _ -> false)
  then StCont { unmatched = st.unmatched; complete = false; buffer = buf }
  else let complete' = if fence then true else st.complete in
       (match count_parens st.unmatched line with
        | Some u ->
          if (&&) (Nat.eqb u O) complete'
          then let eq = join_nl (rev0 buf) in
               if is_blank eq
               then StCont { unmatched = u; complete = complete'; buffer =
                      [] }
               else if stmt_ok eq
                    then StYield (eq, { unmatched = u; complete = complete';
                           buffer = [] })
                    else if stmt_ok (py_strip eq)
                         then StRaise IndentationError
                         else StRaise ParserError
          else StCont { unmatched = u; complete = complete'; buffer = buf }
        | None -> StRaise ParserError)

(** val split_lines :
    sstate -> char list list -> char list list * exn option **)

let rec split_lines st = function
| [] ->
  ([],
    (if negb st.complete
     then Some ParserError
     else if Nat.eqb st.unmatched O then None else Some ParserError))
| line :: rest ->
  (match split_step st line with
   | StCont st' -> split_lines st' rest
   | StYield (eq, st') ->
     let (ys, e) = split_lines st' rest in ((eq :: ys), e)
   | StRaise e -> ([], (Some e)))

(** val model_lines : char list -> char list list **)

let model_lines model =
  map strip_comments (splitlines_aux [] model)

(** val split_M : char list -> char list list * exn option **)

let split_M model =
  split_lines s0 (model_lines model)

(** val dict_combine :
    char list -> symbol -> (char list * symbol) list -> (char list * symbol)
    list outcome **)

let dict_combine name sym d =
  match combine (match dict_get name d with
                 | Some old -> old
                 | None -> sym) sym with
  | Ret c -> Ret (dict_set name c d)
  | Raise e -> Raise e

(** val equation_symbols_go :
    char list -> char list -> term list -> (char list * symbol) list ->
    char list list -> (char list * symbol) list outcome **)

let rec equation_symbols_go equation code terms symbols functions =
  match terms with
  | [] -> Ret symbols
  | t :: rest ->
    (match t.ttype with
     | TVerbatim -> equation_symbols_go equation code rest symbols functions
     | x ->
       let sym =
         match x with
         | TEndogenous ->
           { sname = (Some t.tname); stype = x; slags = t.tindex; sleads =
             t.tindex; sequation = (Some equation); scode = (Some code) }
         | _ ->
           { sname = (Some t.tname); stype = x; slags = t.tindex; sleads =
             t.tindex; sequation = None; scode = None }
       in
       (match dict_combine t.tname sym symbols with
        | Ret d -> equation_symbols_go equation code rest d functions
        | Raise e -> Raise e))

(** val equation_symbols :
    char list -> char list -> term list -> symbol list outcome **)

let equation_symbols equation code terms =
  match equation_symbols_go equation code terms [] [] with
  | Ret d -> Ret (dict_values d)
  | Raise e -> Raise e

(** val merge_go :
    symbol list -> (char list * symbol) list -> symbol list -> symbol list
    outcome **)

let rec merge_go syms symbols verbatim =
  match syms with
  | [] -> Ret (app (dict_values symbols) (rev0 verbatim))
  | s :: rest ->
    (match s.sname with
     | Some name ->
       (match dict_combine name s symbols with
        | Ret d -> merge_go rest d verbatim
        | Raise e -> Raise e)
     | None -> merge_go rest symbols (s :: verbatim))

(** val merge_symbols : symbol list list -> symbol list outcome **)

let merge_symbols by_equation =
  merge_go (concat by_equation) [] []

(** val digit_z : char -> z **)

let digit_z c =
  Z.sub (Z.of_N (n_of_ascii c)) (Zpos (XO (XO (XO (XO (XI XH))))))

(** val parse_digits : z -> bool -> char list -> z option **)

let rec parse_digits acc prev_digit = function
| [] -> if prev_digit then Some acc else None
| c::r ->
  if is_digit c
  then parse_digits (Z.add (Z.mul acc (Zpos (XO (XI (XO XH))))) (digit_z c))
         true r
  else if (&&) ((=) c '_') prev_digit then parse_digits acc false r else None

(** val int_max_str_digits : nat **)

let int_max_str_digits =
  S (S (S (S (S (S (S (S (S (S (S (S (S (S (S (S (S (S (S (S (S (S (S (S (S
    (S (S (S (S (S (S (S (S (S (S (S (S (S (S (S (S (S (S (S (S (S (S (S (S
    (S (S (S (S (S (S (S (S (S (S (S (S (S (S (S (S (S (S (S (S (S (S (S (S
    (S (S (S (S (S (S (S (S (S (S (S (S (S (S (S (S (S (S (S (S (S (S (S (S
    (S (S (S (S (S (S (S (S (S (S (S (S (S (S (S (S (S (S (S (S (S (S (S (S
    (S (S (S (S (S (S (S (S (S (S (S (S (S (S (S (S (S (S (S (S (S (S (S (S
    (S (S (S (S (S (S (S (S (S (S (S (S (S (S (S (S (S (S (S (S (S (S (S (S
    (S (S (S (S (S (S (S (S (S (S (S (S (S (S (S (S (S (S (S (S (S (S (S (S
    (S (S (S (S (S (S (S (S (S (S (S (S (S (S (S (S (S (S (S (S (S (S (S (S
    (S (S (S (S (S (S (S (S (S (S (S (S (S (S (S (S (S (S (S (S (S (S (S (S
    (S (S (S (S (S (S (S (S (S (S (S (S (S (S (S (S (S (S (S (S (S (S (S (S
    (S (S (S (S (S (S (S (S (S (S (S (S (S (S (S (S (S (S (S (S (S (S (S (S
    (S (S (S (S (S (S (S (S (S (S (S (S (S (S (S (S (S (S (S (S (S (S (S (S
    (S (S (S (S (S (S (S (S (S (S (S (S (S (S (S (S (S (S (S (S (S (S (S (S
    (S (S (S (S (S (S (S (S (S (S (S (S (S (S (S (S (S (S (S (S (S (S (S (S
    (S (S (S (S (S (S (S (S (S (S (S (S (S (S (S (S (S (S (S (S (S (S (S (S
    (S (S (S (S (S (S (S (S (S (S (S (S (S (S (S (S (S (S (S (S (S (S (S (S
    (S (S (S (S (S (S (S (S (S (S (S (S (S (S (S (S (S (S (S (S (S (S (S (S
    (S (S (S (S (S (S (S (S (S (S (S (S (S (S (S (S (S (S (S (S (S (S (S (S
    (S (S (S (S (S (S (S (S (S (S (S (S (S (S (S (S (S (S (S (S (S (S (S (S
    (S (S (S (S (S (S (S (S (S (S (S (S (S (S (S (S (S (S (S (S (S (S (S (S
    (S (S (S (S (S (S (S (S (S (S (S (S (S (S (S (S (S (S (S (S (S (S (S (S
    (S (S (S (S (S (S (S (S (S (S (S (S (S (S (S (S (S (S (S (S (S (S (S (S
    (S (S (S (S (S (S (S (S (S (S (S (S (S (S (S (S (S (S (S (S (S (S (S (S
    (S (S (S (S (S (S (S (S (S (S (S (S (S (S (S (S (S (S (S (S (S (S (S (S
    (S (S (S (S (S (S (S (S (S (S (S (S (S (S (S (S (S (S (S (S (S (S (S (S
    (S (S (S (S (S (S (S (S (S (S (S (S (S (S (S (S (S (S (S (S (S (S (S (S
    (S (S (S (S (S (S (S (S (S (S (S (S (S (S (S (S (S (S (S (S (S (S (S (S
    (S (S (S (S (S (S (S (S (S (S (S (S (S (S (S (S (S (S (S (S (S (S (S (S
    (S (S (S (S (S (S (S (S (S (S (S (S (S (S (S (S (S (S (S (S (S (S (S (S
    (S (S (S (S (S (S (S (S (S (S (S (S (S (S (S (S (S (S (S (S (S (S (S (S
    (S (S (S (S (S (S (S (S (S (S (S (S (S (S (S (S (S (S (S (S (S (S (S (S
    (S (S (S (S (S (S (S (S (S (S (S (S (S (S (S (S (S (S (S (S (S (S (S (S
    (S (S (S (S (S (S (S (S (S (S (S (S (S (S (S (S (S (S (S (S (S (S (S (S
    (S (S (S (S (S (S (S (S (S (S (S (S (S (S (S (S (S (S (S (S (S (S (S (S
    (S (S (S (S (S (S (S (S (S (S (S (S (S (S (S (S (S (S (S (S (S (S (S (S
    (S (S (S (S (S (S (S (S (S (S (S (S (S (S (S (S (S (S (S (S (S (S (S (S
    (S (S (S (S (S (S (S (S (S (S (S (S (S (S (S (S (S (S (S (S (S (S (S (S
    (S (S (S (S (S (S (S (S (S (S (S (S (S (S (S (S (S (S (S (S (S (S (S (S
    (S (S (S (S (S (S (S (S (S (S (S (S (S (S (S (S (S (S (S (S (S (S (S (S
    (S (S (S (S (S (S (S (S (S (S (S (S (S (S (S (S (S (S (S (S (S (S (S (S
    (S (S (S (S (S (S (S (S (S (S (S (S (S (S (S (S (S (S (S (S (S (S (S (S
    (S (S (S (S (S (S (S (S (S (S (S (S (S (S (S (S (S (S (S (S (S (S (S (S
    (S (S (S (S (S (S (S (S (S (S (S (S (S (S (S (S (S (S (S (S (S (S (S (S
    (S (S (S (S (S (S (S (S (S (S (S (S (S (S (S (S (S (S (S (S (S (S (S (S
    (S (S (S (S (S (S (S (S (S (S (S (S (S (S (S (S (S (S (S (S (S (S (S (S
    (S (S (S (S (S (S (S (S (S (S (S (S (S (S (S (S (S (S (S (S (S (S (S (S
    (S (S (S (S (S (S (S (S (S (S (S (S (S (S (S (S (S (S (S (S (S (S (S (S
    (S (S (S (S (S (S (S (S (S (S (S (S (S (S (S (S (S (S (S (S (S (S (S (S
    (S (S (S (S (S (S (S (S (S (S (S (S (S (S (S (S (S (S (S (S (S (S (S (S
    (S (S (S (S (S (S (S (S (S (S (S (S (S (S (S (S (S (S (S (S (S (S (S (S
    (S (S (S (S (S (S (S (S (S (S (S (S (S (S (S (S (S (S (S (S (S (S (S (S
    (S (S (S (S (S (S (S (S (S (S (S (S (S (S (S (S (S (S (S (S (S (S (S (S
    (S (S (S (S (S (S (S (S (S (S (S (S (S (S (S (S (S (S (S (S (S (S (S (S
    (S (S (S (S (S (S (S (S (S (S (S (S (S (S (S (S (S (S (S (S (S (S (S (S
    (S (S (S (S (S (S (S (S (S (S (S (S (S (S (S (S (S (S (S (S (S (S (S (S
    (S (S (S (S (S (S (S (S (S (S (S (S (S (S (S (S (S (S (S (S (S (S (S (S
    (S (S (S (S (S (S (S (S (S (S (S (S (S (S (S (S (S (S (S (S (S (S (S (S
    (S (S (S (S (S (S (S (S (S (S (S (S (S (S (S (S (S (S (S (S (S (S (S (S
    (S (S (S (S (S (S (S (S (S (S (S (S (S (S (S (S (S (S (S (S (S (S (S (S
    (S (S (S (S (S (S (S (S (S (S (S (S (S (S (S (S (S (S (S (S (S (S (S (S
    (S (S (S (S (S (S (S (S (S (S (S (S (S (S (S (S (S (S (S (S (S (S (S (S
    (S (S (S (S (S (S (S (S (S (S (S (S (S (S (S (S (S (S (S (S (S (S (S (S
    (S (S (S (S (S (S (S (S (S (S (S (S (S (S (S (S (S (S (S (S (S (S (S (S
    (S (S (S (S (S (S (S (S (S (S (S (S (S (S (S (S (S (S (S (S (S (S (S (S
    (S (S (S (S (S (S (S (S (S (S (S (S (S (S (S (S (S (S (S (S (S (S (S (S
    (S (S (S (S (S (S (S (S (S (S (S (S (S (S (S (S (S (S (S (S (S (S (S (S
    (S (S (S (S (S (S (S (S (S (S (S (S (S (S (S (S (S (S (S (S (S (S (S (S
    (S (S (S (S (S (S (S (S (S (S (S (S (S (S (S (S (S (S (S (S (S (S (S (S
    (S (S (S (S (S (S (S (S (S (S (S (S (S (S (S (S (S (S (S (S (S (S (S (S
    (S (S (S (S (S (S (S (S (S (S (S (S (S (S (S (S (S (S (S (S (S (S (S (S
    (S (S (S (S (S (S (S (S (S (S (S (S (S (S (S (S (S (S (S (S (S (S (S (S
    (S (S (S (S (S (S (S (S (S (S (S (S (S (S (S (S (S (S (S (S (S (S (S (S
    (S (S (S (S (S (S (S (S (S (S (S (S (S (S (S (S (S (S (S (S (S (S (S (S
    (S (S (S (S (S (S (S (S (S (S (S (S (S (S (S (S (S (S (S (S (S (S (S (S
    (S (S (S (S (S (S (S (S (S (S (S (S (S (S (S (S (S (S (S (S (S (S (S (S
    (S (S (S (S (S (S (S (S (S (S (S (S (S (S (S (S (S (S (S (S (S (S (S (S
    (S (S (S (S (S (S (S (S (S (S (S (S (S (S (S (S (S (S (S (S (S (S (S (S
    (S (S (S (S (S (S (S (S (S (S (S (S (S (S (S (S (S (S (S (S (S (S (S (S
    (S (S (S (S (S (S (S (S (S (S (S (S (S (S (S (S (S (S (S (S (S (S (S (S
    (S (S (S (S (S (S (S (S (S (S (S (S (S (S (S (S (S (S (S (S (S (S (S (S
    (S (S (S (S (S (S (S (S (S (S (S (S (S (S (S (S (S (S (S (S (S (S (S (S
    (S (S (S (S (S (S (S (S (S (S (S (S (S (S (S (S (S (S (S (S (S (S (S (S
    (S (S (S (S (S (S (S (S (S (S (S (S (S (S (S (S (S (S (S (S (S (S (S (S
    (S (S (S (S (S (S (S (S (S (S (S (S (S (S (S (S (S (S (S (S (S (S (S (S
    (S (S (S (S (S (S (S (S (S (S (S (S (S (S (S (S (S (S (S (S (S (S (S (S
    (S (S (S (S (S (S (S (S (S (S (S (S (S (S (S (S (S (S (S (S (S (S (S (S
    (S (S (S (S (S (S (S (S (S (S (S (S (S (S (S (S (S (S (S (S (S (S (S (S
    (S (S (S (S (S (S (S (S (S (S (S (S (S (S (S (S (S (S (S (S (S (S (S (S
    (S (S (S (S (S (S (S (S (S (S (S (S (S (S (S (S (S (S (S (S (S (S (S (S
    (S (S (S (S (S (S (S (S (S (S (S (S (S (S (S (S (S (S (S (S (S (S (S (S
    (S (S (S (S (S (S (S (S (S (S (S (S (S (S (S (S (S (S (S (S (S (S (S (S
    (S (S (S (S (S (S (S (S (S (S (S (S (S (S (S (S (S (S (S (S (S (S (S (S
    (S (S (S (S (S (S (S (S (S (S (S (S (S (S (S (S (S (S (S (S (S (S (S (S
    (S (S (S (S (S (S (S (S (S (S (S (S (S (S (S (S (S (S (S (S (S (S (S (S
    (S (S (S (S (S (S (S (S (S (S (S (S (S (S (S (S (S (S (S (S (S (S (S (S
    (S (S (S (S (S (S (S (S (S (S (S (S (S (S (S (S (S (S (S (S (S (S (S (S
    (S (S (S (S (S (S (S (S (S (S (S (S (S (S (S (S (S (S (S (S (S (S (S (S
    (S (S (S (S (S (S (S (S (S (S (S (S (S (S (S (S (S (S (S (S (S (S (S (S
    (S (S (S (S (S (S (S (S (S (S (S (S (S (S (S (S (S (S (S (S (S (S (S (S
    (S (S (S (S (S (S (S (S (S (S (S (S (S (S (S (S (S (S (S (S (S (S (S (S
    (S (S (S (S (S (S (S (S (S (S (S (S (S (S (S (S (S (S (S (S (S (S (S (S
    (S (S (S (S (S (S (S (S (S (S (S (S (S (S (S (S (S (S (S (S (S (S (S (S
    (S (S (S (S (S (S (S (S (S (S (S (S (S (S (S (S (S (S (S (S (S (S (S (S
    (S (S (S (S (S (S (S (S (S (S (S (S (S (S (S (S (S (S (S (S (S (S (S (S
    (S (S (S (S (S (S (S (S (S (S (S (S (S (S (S (S (S (S (S (S (S (S (S (S
    (S (S (S (S (S (S (S (S (S (S (S (S (S (S (S (S (S (S (S (S (S (S (S (S
    (S (S (S (S (S (S (S (S (S (S (S (S (S (S (S (S (S (S (S (S (S (S (S (S
    (S (S (S (S (S (S (S (S (S (S (S (S (S (S (S (S (S (S (S (S (S (S (S (S
    (S (S (S (S (S (S (S (S (S (S (S (S (S (S (S (S (S (S (S (S (S (S (S (S
    (S (S (S (S (S (S (S (S (S (S (S (S (S (S (S (S (S (S (S (S (S (S (S (S
    (S (S (S (S (S (S (S (S (S (S (S (S (S (S (S (S (S (S (S (S (S (S (S (S
    (S (S (S (S (S (S (S (S (S (S (S (S (S (S (S (S (S (S (S (S (S (S (S (S
    (S (S (S (S (S (S (S (S (S (S (S (S (S (S (S (S (S (S (S (S (S (S (S (S
    (S (S (S (S (S (S (S (S (S (S (S (S (S (S (S (S (S (S (S (S (S (S (S (S
    (S (S (S (S (S (S (S (S (S (S (S (S (S (S (S (S (S (S (S (S (S (S (S (S
    (S (S (S (S (S (S (S (S (S (S (S (S (S (S (S (S (S (S (S (S (S (S (S (S
    (S (S (S (S (S (S (S (S (S (S (S (S (S (S (S (S (S (S (S (S (S (S (S (S
    (S (S (S (S (S (S (S (S (S (S (S (S (S (S (S (S (S (S (S (S (S (S (S (S
    (S (S (S (S (S (S (S (S (S (S (S (S (S (S (S (S (S (S (S (S (S (S (S (S
    (S (S (S (S (S (S (S (S (S (S (S (S (S (S (S (S (S (S (S (S (S (S (S (S
    (S (S (S (S (S (S (S (S (S (S (S (S (S (S (S (S (S (S (S (S (S (S (S (S
    (S (S (S (S (S (S (S (S (S (S (S (S (S (S (S (S (S (S (S (S (S (S (S (S
    (S (S (S (S (S (S (S (S (S (S (S (S (S (S (S (S (S (S (S (S (S (S (S (S
    (S (S (S (S (S (S (S (S (S (S (S (S (S (S (S (S (S (S (S (S (S (S (S (S
    (S (S (S (S (S (S (S (S (S (S (S (S (S (S (S (S (S (S (S (S (S (S (S (S
    (S (S (S (S (S (S (S (S (S (S (S (S (S (S (S (S (S (S (S (S (S (S (S (S
    (S (S (S (S (S (S (S (S (S (S (S (S (S (S (S (S (S (S (S (S (S (S (S (S
    (S (S (S (S (S (S (S (S (S (S (S (S (S (S (S (S (S (S (S (S (S (S (S (S
    (S (S (S (S (S (S (S (S (S (S (S (S (S (S (S (S (S (S (S (S (S (S (S (S
    (S (S (S (S (S (S (S (S (S (S (S (S (S (S (S (S (S (S (S (S (S (S (S (S
    (S (S (S (S (S (S (S (S (S (S (S (S (S (S (S (S (S (S (S (S (S (S (S (S
    (S (S (S (S (S (S (S (S (S (S (S (S (S (S (S (S (S (S (S (S (S (S (S (S
    (S (S (S (S (S (S (S (S (S (S (S (S (S (S (S (S (S (S (S (S (S (S (S (S
    (S (S (S (S (S (S (S (S (S (S (S (S (S (S (S (S (S (S (S (S (S (S (S (S
    (S (S (S (S (S (S (S (S (S (S (S (S (S (S (S (S (S (S (S (S (S (S (S (S
    (S (S (S (S (S (S (S (S (S (S (S (S (S (S (S (S (S (S (S (S (S (S (S (S
    (S (S (S (S (S (S (S (S (S (S (S (S (S (S (S (S (S (S (S (S (S (S (S (S
    (S (S (S (S (S (S (S (S (S (S (S (S (S (S (S (S (S (S (S (S (S (S (S (S
    (S (S (S (S (S (S (S (S (S (S (S (S (S (S (S (S (S (S (S (S (S (S (S (S
    (S (S (S (S (S (S (S (S (S (S (S (S (S (S (S (S (S (S (S (S (S (S (S (S
    (S (S (S (S (S (S (S (S (S (S (S (S (S (S (S (S (S (S (S (S (S (S (S (S
    (S (S (S (S (S (S (S (S (S (S (S (S (S (S (S (S (S (S (S (S (S (S (S (S
    (S (S (S (S (S (S (S (S (S (S (S (S (S (S (S (S (S (S (S (S (S (S (S (S
    (S (S (S (S (S (S (S (S (S (S (S (S (S (S (S (S (S (S (S (S (S (S (S (S
    (S (S (S (S (S (S (S (S (S (S (S (S (S (S (S (S (S (S (S (S (S (S (S (S
    (S (S (S (S (S (S (S (S (S (S (S (S (S (S (S (S (S (S (S (S (S (S (S (S
    (S (S (S (S (S (S (S (S (S (S (S (S (S (S (S (S (S (S (S (S (S (S (S (S
    (S (S (S (S (S (S (S (S (S (S (S (S (S (S (S (S (S (S (S (S (S (S (S (S
    (S (S (S (S (S (S (S (S (S (S (S (S (S (S (S (S (S (S (S (S (S (S (S (S
    (S (S (S (S (S (S (S (S (S (S (S (S (S (S (S (S (S (S (S (S (S (S (S (S
    (S (S (S (S (S (S (S (S (S (S (S (S (S (S (S (S (S (S (S (S (S (S (S (S
    (S (S (S (S (S (S (S (S (S (S (S (S (S (S (S (S (S (S (S (S (S (S (S (S
    (S (S (S (S (S (S (S (S (S (S (S (S (S (S (S (S (S (S (S (S (S (S (S (S
    (S (S (S (S (S (S (S (S (S (S (S (S (S (S (S (S (S (S (S (S (S (S (S (S
    (S (S (S (S (S (S (S (S (S (S (S (S (S (S (S (S (S (S (S (S (S (S (S (S
    (S (S (S (S (S (S (S (S (S (S (S (S (S (S (S (S (S (S (S (S (S (S (S (S
    (S (S (S (S (S (S (S (S (S (S (S (S (S (S (S (S (S (S (S (S (S (S (S (S
    (S (S (S (S (S (S (S (S (S (S (S (S (S (S (S (S (S (S (S (S (S (S (S (S
    (S (S (S (S (S (S (S (S (S (S (S (S (S (S (S (S (S (S (S (S (S (S (S (S
    (S (S (S (S (S (S (S (S (S (S (S (S (S (S (S (S (S (S (S (S (S (S (S (S
    (S (S (S (S (S (S (S (S (S (S (S (S (S (S (S (S (S (S (S (S (S (S (S (S
    (S (S (S (S (S (S (S (S (S (S (S (S (S (S (S (S (S (S (S (S (S (S (S (S
    (S (S (S (S (S (S (S (S (S (S (S (S (S (S (S (S (S (S (S (S (S (S (S (S
    (S (S (S (S (S (S (S (S (S (S (S (S (S (S (S (S (S (S (S (S (S (S (S (S
    (S (S (S (S (S (S (S (S (S (S (S (S (S (S (S (S (S (S (S (S (S (S (S (S
    (S (S (S (S (S (S (S (S (S (S (S (S (S (S (S (S (S (S (S (S (S (S (S (S
    (S (S (S (S (S (S (S (S (S (S (S (S (S (S (S (S (S (S (S (S (S (S (S (S
    (S (S (S (S (S (S (S (S (S (S (S (S (S (S (S (S (S (S (S (S (S (S (S (S
    (S (S (S (S (S (S (S (S (S (S (S (S (S (S (S (S (S (S (S (S (S (S (S (S
    (S (S (S (S (S (S (S (S (S (S (S (S (S (S (S (S (S (S (S (S (S (S (S (S
    (S (S (S (S (S (S (S (S (S (S (S (S (S (S (S (S (S (S (S (S (S (S (S (S
    (S (S (S (S (S (S (S (S (S (S (S (S (S (S (S (S (S (S (S (S (S (S (S (S
    (S (S (S (S (S (S (S (S (S (S (S (S (S (S (S (S (S (S (S (S (S (S (S (S
    (S (S (S (S (S (S (S (S (S (S (S (S (S (S (S (S (S (S (S (S (S (S (S (S
    (S (S (S (S (S (S (S (S (S (S (S (S (S (S (S (S (S (S (S (S (S (S (S (S
    (S (S (S (S (S (S (S (S (S (S (S (S (S (S (S (S (S (S (S (S (S (S (S (S
    (S (S (S (S (S (S (S (S (S (S (S (S (S (S (S (S (S (S (S (S (S (S (S (S
    (S (S (S (S (S (S (S (S (S (S (S (S (S (S (S (S (S (S (S (S (S (S (S (S
    (S (S (S
    O)))))))))))))))))))))))))))))))))))))))))))))))))))))))))))))))))))))))))))))))))))))))))))))))))))))))))))))))))))))))))))))))))))))))))))))))))))))))))))))))))))))))))))))))))))))))))))))))))))))))))))))))))))))))))))))))))))))))))))))))))))))))))))))))))))))))))))))))))))))))))))))))))))))))))))))))))))))))))))))))))))))))))))))))))))))))))))))))))))))))))))))))))))))))))))))))))))))))))))))))))))))))))))))))))))))))))))))))))))))))))))))))))))))))))))))))))))))))))))))))))))))))))))))))))))))))))))))))))))))))))))))))))))))))))))))))))))))))))))))))))))))))))))))))))))))))))))))))))))))))))))))))))))))))))))))))))))))))))))))))))))))))))))))))))))))))))))))))))))))))))))))))))))))))))))))))))))))))))))))))))))))))))))))))))))))))))))))))))))))))))))))))))))))))))))))))))))))))))))))))))))))))))))))))))))))))))))))))))))))))))))))))))))))))))))))))))))))))))))))))))))))))))))))))))))))))))))))))))))))))))))))))))))))))))))))))))))))))))))))))))))))))))))))))))))))))))))))))))))))))))))))))))))))))))))))))))))))))))))))))))))))))))))))))))))))))))))))))))))))))))))))))))))))))))))))))))))))))))))))))))))))))))))))))))))))))))))))))))))))))))))))))))))))))))))))))))))))))))))))))))))))))))))))))))))))))))))))))))))))))))))))))))))))))))))))))))))))))))))))))))))))))))))))))))))))))))))))))))))))))))))))))))))))))))))))))))))))))))))))))))))))))))))))))))))))))))))))))))))))))))))))))))))))))))))))))))))))))))))))))))))))))))))))))))))))))))))))))))))))))))))))))))))))))))))))))))))))))))))))))))))))))))))))))))))))))))))))))))))))))))))))))))))))))))))))))))))))))))))))))))))))))))))))))))))))))))))))))))))))))))))))))))))))))))))))))))))))))))))))))))))))))))))))))))))))))))))))))))))))))))))))))))))))))))))))))))))))))))))))))))))))))))))))))))))))))))))))))))))))))))))))))))))))))))))))))))))))))))))))))))))))))))))))))))))))))))))))))))))))))))))))))))))))))))))))))))))))))))))))))))))))))))))))))))))))))))))))))))))))))))))))))))))))))))))))))))))))))))))))))))))))))))))))))))))))))))))))))))))))))))))))))))))))))))))))))))))))))))))))))))))))))))))))))))))))))))))))))))))))))))))))))))))))))))))))))))))))))))))))))))))))))))))))))))))))))))))))))))))))))))))))))))))))))))))))))))))))))))))))))))))))))))))))))))))))))))))))))))))))))))))))))))))))))))))))))))))))))))))))))))))))))))))))))))))))))))))))))))))))))))))))))))))))))))))))))))))))))))))))))))))))))))))))))))))))))))))))))))))))))))))))))))))))))))))))))))))))))))))))))))))))))))))))))))))))))))))))))))))))))))))))))))))))))))))))))))))))))))))))))))))))))))))))))))))))))))))))))))))))))))))))))))))))))))))))))))))))))))))))))))))))))))))))))))))))))))))))))))))))))))))))))))))))))))))))))))))))))))))))))))))))))))))))))))))))))))))))))))))))))))))))))))))))))))))))))))))))))))))))))))))))))))))))))))))))))))))))))))))))))))))))))))))))))))))))))))))))))))))))))))))))))))))))))))))))))))))))))))))))))))))))))))))))))))))))))))))))))))))))))))))))))))))))))))))))))))))))))))))))))))))))))))))))))))))))))))))))))))))))))))))))))))))))))))))))))))))))))))))))))))))))))))))))))))))))))))))))))))))))))))))))))))))))))))))))))))))))))))))))))))))))))))))))))))))))))))))))))))))))))))))))))))))))))))))))))))))))))))))))))))))))))))))))))))))))))))))))))))))))))))))))))))))))))))))))))))))))))))))))))))))))))))))))))))))))))))))))))))))))))))))))))))))))))))))))))))))))))))))))))))))))))))))))))))))))))))))))))))))))))))))))))))))))))))))))))))))))))))))))))))))))))))))))))))))))))))))))))))))))))))))))))))))))))))))))))))))))))))))))))))))))))))))))))))))))))))))))))))))))))))))))))))))))))))))))))))))))))))))))))))))))))))))))))))))))))))))))))))))))))))))))))))))))))))))))))))))))))))))))))))))))))))))))))))))))))))))))))))))))))))))))))))))))))))))))))))))))))))))))))))))))))))))))))))))))))))))))))))))))))))))))))))))))))))))))))))))))))))))))))))))))))))))))))))))))))))))))))))))))))))))))))))))))))))))))))))))))))))))))))))))))))))))))))))))))))))))))))))))))))))))))))))))))))))))))))))))))))))))))))))))))))))))))))))))))))))))))))))))))))))))))))))))))))))))))))))))))))))))))))))))))))))))))))))))))))))))))))))))))))))))))))))))))))))))))))))))))))))))))))))))))))))))))))))))))))))))))))))))))))))))))))))))))))))))))))))))))))))))))))))))))))))))))))))))

(** val count_digits : char list -> nat **)

let rec count_digits = function
| [] -> O
| c::r -> if is_digit c then S (count_digits r) else count_digits r

(** val py_int : char list -> z option **)

let py_int txt =
  if Nat.ltb int_max_str_digits (count_digits (py_strip txt))
  then None
  else (match py_strip txt with
        | [] -> None
        | c::r ->
          if (=) c '-'
          then (match parse_digits Z0 false r with
                | Some z0 -> Some (Z.opp z0)
                | None -> None)
          else if (=) c '+'
               then parse_digits Z0 false r
               else parse_digits Z0 false (c::r))

(** val string_of_Z : z -> char list **)

let string_of_Z z0 =
  NilZero.string_of_int (Z.to_int z0)

(** val kind_type : kind -> ptype **)

let kind_type = function
| KVerbatim -> TVerbatim
| KInvalid -> TInvalid
| KKeyword -> TKeyword
| KFunction -> TFunction
| KParameter -> TParameter
| KError -> TError
| KVariable -> TVariable

(** val drop_last : char list -> char list **)

let rec drop_last = function
| [] -> []
| c::r -> (match r with
           | [] -> []
           | _::_ -> c::(drop_last r))

(** val quoted_by : char -> char list -> bool **)

let quoted_by q s =
  (&&) (head_is q s) (last_is q s)

(** val mk_index : char list option -> pidx outcome **)

let mk_index = function
| Some i ->
  if (||) (quoted_by '\'' i) (quoted_by '"' i)
  then Ret (IStr i)
  else if quoted_by '`' i
       then Ret (IStr (drop_last (match i with
                                  | [] -> []
                                  | _::r -> r)))
       else (match py_int i with
             | Some z0 -> Ret (IInt z0)
             | None -> Raise ParserError)
| None -> Ret (IInt Z0)

(** val mk_term : tmatch -> term outcome **)

let mk_term m =
  match m.mkind with
  | KKeyword ->
    Ret { tname = m.mname; ttype = (kind_type m.mkind); tindex = None }
  | KFunction ->
    Ret { tname = m.mname; ttype = (kind_type m.mkind); tindex = None }
  | x ->
    (match mk_index m.mindex with
     | Ret i ->
       Ret { tname = m.mname; ttype = (kind_type x); tindex = (Some i) }
     | Raise e -> Raise e)

(** val map_o : ('a1 -> 'a2 outcome) -> 'a1 list -> 'a2 list outcome **)

let rec map_o f = function
| [] -> Ret []
| a :: r ->
  (match f a with
   | Ret b ->
     (match map_o f r with
      | Ret bs -> Ret (b :: bs)
      | Raise e -> Raise e)
   | Raise e -> Raise e)

(** val parse_terms : char list -> term list outcome **)

let parse_terms expression =
  map_o mk_term (matches_of (scan_items expression))

(** val term_str : term -> char list option **)

let term_str t =
  match t.ttype with
  | TFunction -> Some t.tname
  | TKeyword -> Some t.tname
  | TVerbatim -> Some t.tname
  | _ ->
    (match t.tindex with
     | Some p ->
       (match p with
        | IInt z0 ->
          Some
            (append t.tname
              (if Z.ltb Z0 z0
               then append ('['::('t'::('+'::[])))
                      (append (string_of_Z z0) (']'::[]))
               else if Z.eqb z0 Z0
                    then '['::('t'::(']'::[]))
                    else append ('['::('t'::[]))
                           (append (string_of_Z z0) (']'::[]))))
        | IStr s ->
          Some (append t.tname (append ('['::[]) (append s (']'::[])))))
     | None -> None)

(** val assoc_s :
    char list -> (char list * char list) list -> char list option **)

let rec assoc_s k = function
| [] -> None
| p :: r -> let (k', v) = p in if eqb0 k k' then Some v else assoc_s k r

(** val term_code : term -> char list option **)

let term_code t =
  match term_str t with
  | Some code ->
    (match t.ttype with
     | TFunction ->
       Some
         (match assoc_s code replacement_function_names with
          | Some v -> v
          | None -> code)
     | TKeyword ->
       Some
         (match assoc_s code replacement_function_names with
          | Some v -> v
          | None -> code)
     | TVerbatim -> Some (strip_by (fun c -> (=) c '`') code)
     | _ ->
       (match t.tindex with
        | Some p ->
          (match p with
           | IInt _ ->
             Some (append ('s'::('e'::('l'::('f'::('.'::('_'::[])))))) code)
           | IStr s ->
             Some
               (append ('s'::('e'::('l'::('f'::('['::('\''::[]))))))
                 (append t.tname
                   (append ('\''::(','::(' '::[]))) (append s (']'::[]))))))
        | None ->
          Some (append ('s'::('e'::('l'::('f'::('.'::('_'::[])))))) code)))
  | None -> None

(** val all_some : 'a1 option list -> 'a1 list option **)

let rec all_some = function
| [] -> Some []
| o :: r ->
  (match o with
   | Some a -> (match all_some r with
                | Some x -> Some (a :: x)
                | None -> None)
   | None -> None)

(** val replace_type : ptype -> term -> term **)

let replace_type new_type t =
  match t.ttype with
  | TVariable -> { tname = t.tname; ttype = new_type; tindex = t.tindex }
  | _ -> t

(** val has_type : ptype -> term list -> bool **)

let has_type ty l =
  existsb (fun t -> type_eqb t.ttype ty) l

(** val parse_equation_terms : char list -> term list outcome **)

let parse_equation_terms equation =
  match find_any '=' equation with
  | Some p ->
    let (lhs_text, rhs_text) = p in
    (match parse_terms lhs_text with
     | Ret l0 ->
       let lhs = map (replace_type TEndogenous) l0 in
       (match parse_terms rhs_text with
        | Ret r0 ->
          let rhs = map (replace_type TExogenous) r0 in
          if (||) (has_type TKeyword lhs) (has_type TInvalid rhs)
          then Raise ParserError
          else if negb (has_type TEndogenous lhs)
               then Raise ParserError
               else Ret (app lhs rhs)
        | Raise e -> Raise e)
     | Raise e -> Raise e)
  | None -> Raise ParserError

(** val template_of : item list -> char list **)

let rec template_of = function
| [] -> []
| i :: r ->
  (match i with
   | Chr c -> c::(template_of r)
   | Tok (_, _) -> append ('{'::('}'::[])) (template_of r))

(** val sub_ws : bool -> char list -> char list **)

let rec sub_ws in_ws = function
| [] -> []
| c::r ->
  if is_space c
  then if in_ws then sub_ws true r else ' '::(sub_ws true r)
  else c::(sub_ws false r)

(** val sub_open : bool -> char list -> char list **)

let rec sub_open after_open = function
| [] -> []
| c::r ->
  if (&&) after_open (is_space c)
  then sub_open true r
  else c::(sub_open ((=) c '(') r)

(** val sub_close : char list -> char list **)

let rec sub_close = function
| [] -> []
| c::r ->
  let r' = sub_close r in
  if (&&) (is_space c) (head_is ')' r') then r' else c::r'

(** val normalise_template : char list -> char list **)

let normalise_template t =
  sub_close (sub_open false (sub_ws false t))

(** val template : char list -> char list **)

let template equation =
  normalise_template (template_of (scan_items equation))

(** val strip_chars : char list -> char list -> char list **)

let strip_chars chars s =
  strip_by (fun c -> mem_ascii c chars) s

(** val parse_equation_M : char list -> symbol list pres **)

let parse_equation_M equation =
  if is_blank equation
  then POk []
  else let (stmts, o) = split_M equation in
       (match o with
        | Some e -> PErr e
        | None ->
          if negb (Nat.eqb (length stmts) (S O))
          then PErr ParserError
          else if (&&) (head_is '`' equation) (last_is '`' equation)
               then POk ({ sname = None; stype = TVerbatim; slags = None;
                      sleads = None; sequation = (Some equation); scode =
                      (Some
                      (strip_chars ('`' :: (cr :: (nl :: []))) equation)) } :: [])
               else if negb
                         (Nat.eqb (count_char '{' equation)
                           (count_char '}' equation))
                    then PErr ParserError
                    else (match parse_equation_terms equation with
                          | Ret terms ->
                            let tpl = template equation in
                            (match all_some (map term_str terms) with
                             | Some strs ->
                               (match all_some (map term_code terms) with
                                | Some codes ->
                                  (match py_format tpl strs with
                                   | FOk standardised ->
                                     (match py_format tpl codes with
                                      | FOk code ->
                                        of_outcome
                                          (equation_symbols standardised code
                                            terms)
                                      | FFail -> PErr ParserError
                                      | FUnmodelled -> PUnmodelled)
                                   | FFail -> PErr ParserError
                                   | FUnmodelled -> PUnmodelled)
                                | None -> PErr TypeError)
                             | None -> PErr TypeError)
                          | Raise e -> PErr e))

type chk_res =
| ChkOk
| ChkSyntaxError
| ChkSyntaxWarning
| ChkOtherWarning of nat
| ChkOtherExn
| ChkCaughtExn

type verdict =
| VFine
| VProblem
| VRaise of exn

(** val check_codes : (char list -> chk_res) -> char list list -> verdict **)

let rec check_codes chk = function
| [] -> VFine
| e :: rest ->
  (match chk e with
   | ChkOk -> check_codes chk rest
   | ChkOtherWarning _ -> VRaise ParserError
   | ChkOtherExn -> VRaise OtherError
   | _ -> VProblem)

(** val codes_of : symbol list -> char list list **)

let rec codes_of = function
| [] -> []
| s :: r ->
  (match s.scode with
   | Some c -> c :: (codes_of r)
   | None -> codes_of r)

(** val parse_statements :
    (char list -> chk_res) -> bool -> char list list -> symbol list list ->
    bool -> (symbol list list * bool) pres **)

let rec parse_statements chk check_syntax stmts acc problems =
  match stmts with
  | [] -> POk ((rev0 acc), problems)
  | st :: rest ->
    (match parse_equation_M st with
     | POk syms ->
       if check_syntax
       then (match check_codes chk (codes_of syms) with
             | VFine ->
               parse_statements chk check_syntax rest (syms :: acc) problems
             | VProblem ->
               parse_statements chk check_syntax rest (syms :: acc) true
             | VRaise e -> PErr e)
       else parse_statements chk check_syntax rest (syms :: acc) problems
     | PErr e -> PErr e
     | PUnmodelled -> PUnmodelled)

(** val parse_model_M :
    (char list -> chk_res) -> bool -> char list -> symbol list pres **)

let parse_model_M chk check_syntax model =
  let (stmts, split_err) = split_M model in
  (match parse_statements chk check_syntax stmts [] false with
   | POk a ->
     let (by_equation, problems) = a in
     (match split_err with
      | Some e -> PErr e
      | None ->
        if problems
        then PErr ParserError
        else of_outcome (merge_symbols by_equation))
   | PErr e -> PErr e
   | PUnmodelled -> PUnmodelled)

(** val chk_none : char list -> chk_res **)

let chk_none _ =
  ChkOk

(** val parse_model_nocheck : char list -> symbol list pres **)

let parse_model_nocheck model =
  parse_model_M chk_none false model

(** val emits : symbol -> bool **)

let emits s =
  match s.stype with
  | TEndogenous ->
    (match s.sequation with
     | Some _ -> (match s.scode with
                  | Some _ -> true
                  | None -> false)
     | None -> false)
  | TVerbatim ->
    (match s.sequation with
     | Some _ -> (match s.scode with
                  | Some _ -> true
                  | None -> false)
     | None -> false)
  | _ -> false

type binop =
| OAdd
| OSub
| OMul
| ODiv
| OPow

type cmpop =
| CLt
| CLe
| CEq
| CNe
| CGt
| CGe

type 'num expr =
| ENum of 'num
| ERead of nat * z
| ENeg of 'num expr
| EAbs of 'num expr
| EBin of binop * 'num expr * 'num expr
| EMax of 'num expr * 'num expr
| EMin of 'num expr * 'num expr
| EIf of cmpop * 'num expr * 'num expr * 'num expr * 'num expr
| ECall1 of nat * 'num expr
| ECall2 of nat * 'num expr * 'num expr

type 'num stmt =
| SAssign of nat * z * 'num expr

type 'num program = 'num stmt list

(** val item_space : item -> bool **)

let item_space = function
| Chr c -> is_space c
| Tok (_, _) -> false

(** val item_is : char -> item -> bool **)

let item_is ch = function
| Chr c -> (=) c ch
| Tok (_, _) -> false

(** val head_item_is : char -> item list -> bool **)

let head_item_is ch = function
| [] -> false
| i :: _ -> item_is ch i

(** val ws_items : bool -> item list -> item list **)

let rec ws_items in_ws = function
| [] -> []
| i :: r ->
  if item_space i
  then if in_ws then ws_items true r else (Chr ' ') :: (ws_items true r)
  else i :: (ws_items false r)

(** val open_items : bool -> item list -> item list **)

let rec open_items after_open = function
| [] -> []
| i :: r ->
  if (&&) after_open (item_space i)
  then open_items true r
  else i :: (open_items (item_is '(' i) r)

(** val close_items : item list -> item list **)

let rec close_items = function
| [] -> []
| i :: r ->
  let r' = close_items r in
  if (&&) (item_space i) (head_item_is ')' r') then r' else i :: r'

(** val norm_items : item list -> item list **)

let norm_items l =
  close_items (open_items false (ws_items false l))

(** val not_brace : item -> bool **)

let not_brace = function
| Chr c -> negb ((||) ((=) c '{') ((=) c '}'))
| Tok (_, _) -> true

(** val gaps_brace_free : item list -> bool **)

let gaps_brace_free l =
  forallb not_brace l

(** val render_items :
    (tmatch -> char list option) -> item list -> char list option **)

let rec render_items f = function
| [] -> Some []
| i :: r ->
  (match i with
   | Chr c ->
     (match render_items f r with
      | Some s -> Some (c::s)
      | None -> None)
   | Tok (_, m) ->
     (match f m with
      | Some a ->
        (match render_items f r with
         | Some s -> Some (append a s)
         | None -> None)
      | None -> None))

(** val code_of_match : tmatch -> char list option **)

let code_of_match m =
  match mk_term m with
  | Ret t -> term_code t
  | Raise _ -> None

(** val str_of_match : tmatch -> char list option **)

let str_of_match m =
  match mk_term m with
  | Ret t -> term_str t
  | Raise _ -> None

(** val code_text : char list -> char list option **)

let code_text eq =
  render_items code_of_match (norm_items (scan_items eq))

(** val equation_text : char list -> char list option **)

let equation_text eq =
  render_items str_of_match (norm_items (scan_items eq))

(** val kind_eqb : kind -> kind -> bool **)

let kind_eqb a b =
  match a with
  | KVerbatim -> (match b with
                  | KVerbatim -> true
                  | _ -> false)
  | KInvalid -> (match b with
                 | KInvalid -> true
                 | _ -> false)
  | KKeyword -> (match b with
                 | KKeyword -> true
                 | _ -> false)
  | KFunction -> (match b with
                  | KFunction -> true
                  | _ -> false)
  | KParameter -> (match b with
                   | KParameter -> true
                   | _ -> false)
  | KError -> (match b with
               | KError -> true
               | _ -> false)
  | KVariable -> (match b with
                  | KVariable -> true
                  | _ -> false)

(** val tmatch_eqb : tmatch -> tmatch -> bool **)

let tmatch_eqb a b =
  (&&)
    ((&&) ((&&) (kind_eqb a.mkind b.mkind) (eqb0 a.mname b.mname))
      (opt_string_eqb a.mindex b.mindex)) (Nat.eqb a.mlen b.mlen)

(** val matches_eqb : tmatch list -> tmatch list -> bool **)

let rec matches_eqb a b =
  match a with
  | [] -> (match b with
           | [] -> true
           | _ :: _ -> false)
  | x :: a' ->
    (match b with
     | [] -> false
     | y :: b' -> (&&) (tmatch_eqb x y) (matches_eqb a' b'))

(** val aligned_b : char list -> bool **)

let aligned_b eq =
  match find_any '=' eq with
  | Some p ->
    let (l, r) = p in
    matches_eqb (matches_of (scan_items eq))
      (app (matches_of (scan_items l)) (matches_of (scan_items r)))
  | None -> false

(** val text_guard : char list -> bool **)

let text_guard eq =
  (&&) ((&&) (negb ((&&) (head_is '`' eq) (last_is '`' eq))) (aligned_b eq))
    (gaps_brace_free (scan_items eq))

type xtok =
| XCmp of cmpop
| XIf
| XElse
| XAnd
| XOr
| XNot

type ctok =
| CRead of char list * z
| CFun of char list
| CNum of char list
| CPlus
| CMinus
| CStar
| CSlash
| CPow
| CLPar
| CRPar
| CComma
| CAssign
| CBad
| CX of xtok

(** val tok_of_match : tmatch -> ctok **)

let tok_of_match m =
  match mk_term m with
  | Ret t ->
    (match t.ttype with
     | TVariable ->
       (match t.tindex with
        | Some p ->
          (match p with
           | IInt k -> CRead (t.tname, k)
           | IStr _ -> CBad)
        | None -> CBad)
     | TParameter ->
       (match t.tindex with
        | Some p ->
          (match p with
           | IInt k -> CRead (t.tname, k)
           | IStr _ -> CBad)
        | None -> CBad)
     | TError ->
       (match t.tindex with
        | Some p ->
          (match p with
           | IInt k -> CRead (t.tname, k)
           | IStr _ -> CBad)
        | None -> CBad)
     | TFunction -> (match term_code t with
                     | Some c -> CFun c
                     | None -> CBad)
     | TKeyword ->
       if eqb0 t.tname ('i'::('f'::[]))
       then CX XIf
       else if eqb0 t.tname ('e'::('l'::('s'::('e'::[]))))
            then CX XElse
            else if eqb0 t.tname ('a'::('n'::('d'::[])))
                 then CX XAnd
                 else if eqb0 t.tname ('o'::('r'::[]))
                      then CX XOr
                      else if eqb0 t.tname ('n'::('o'::('t'::[])))
                           then CX XNot
                           else CBad
     | _ -> CBad)
  | Raise _ -> CBad

(** val tok_of_char : char -> ctok **)

let tok_of_char c =
  if (=) c '+'
  then CPlus
  else if (=) c '-'
       then CMinus
       else if (=) c '/'
            then CSlash
            else if (=) c '('
                 then CLPar
                 else if (=) c ')'
                      then CRPar
                      else if (=) c ',' then CComma else CBad

(** val is_opc : char -> bool **)

let is_opc c =
  (||) ((||) ((||) ((=) c '<') ((=) c '>')) ((=) c '=')) ((=) c '!')

(** val op1 : char -> ctok **)

let op1 c =
  if (=) c '<'
  then CX (XCmp CLt)
  else if (=) c '>'
       then CX (XCmp CGt)
       else if (=) c '=' then CAssign else CBad

(** val op2 : char -> ctok **)

let op2 c =
  if (=) c '<'
  then CX (XCmp CLe)
  else if (=) c '>'
       then CX (XCmp CGe)
       else if (=) c '=' then CX (XCmp CEq) else CX (XCmp CNe)

type lstate =
| LNone
| LNum of char list
| LStar
| LOp of char
| LWord

(** val flush : lstate -> ctok list **)

let flush = function
| LNum a -> (CNum (rev_str a [])) :: []
| LStar -> CStar :: []
| LOp c -> (op1 c) :: []
| _ -> []

(** val fuses : lstate -> tmatch -> bool **)

let fuses st m =
  match st with
  | LNum _ ->
    (match m.mkind with
     | KParameter -> true
     | KError -> true
     | _ -> false)
  | LWord ->
    (match m.mkind with
     | KParameter -> true
     | KError -> true
     | _ -> false)
  | _ -> false

(** val after_match : tmatch -> lstate **)

let after_match m =
  match m.mkind with
  | KVerbatim -> LWord
  | KKeyword -> LWord
  | _ -> LNone

(** val lex_items : lstate -> item list -> ctok list **)

let rec lex_items st = function
| [] -> flush st
| i :: r ->
  (match i with
   | Chr c ->
     if (||) (is_digit c) ((=) c '.')
     then (match st with
           | LNum a -> lex_items (LNum (c::a)) r
           | _ -> app (flush st) (lex_items (LNum (c::[])) r))
     else if (=) c '*'
          then (match st with
                | LStar -> CPow :: (lex_items LNone r)
                | _ -> app (flush st) (lex_items LStar r))
          else if is_opc c
               then (match st with
                     | LOp p ->
                       if (=) c '='
                       then (op2 p) :: (lex_items LNone r)
                       else app (flush st) (lex_items (LOp c) r)
                     | _ -> app (flush st) (lex_items (LOp c) r))
               else if is_space c
                    then app (flush st) (lex_items LNone r)
                    else app (flush st)
                           ((tok_of_char c) :: (lex_items LNone r))
   | Tok (_, m) ->
     app (flush st)
       (app (if fuses st m then CBad :: [] else [])
         ((tok_of_match m) :: (lex_items (after_match m) r))))

(** val lit_dots : char list -> nat **)

let rec lit_dots = function
| [] -> O
| c::r -> add (if (=) c '.' then S O else O) (lit_dots r)

(** val lit_digits : char list -> nat **)

let rec lit_digits = function
| [] -> O
| c::r -> add (if is_digit c then S O else O) (lit_digits r)

(** val num_ok : char list -> bool **)

let num_ok s =
  (&&)
    ((&&) ((&&) (Nat.leb (lit_dots s) (S O)) (Nat.leb (S O) (lit_digits s)))
      (Nat.eqb (length0 s) (add (lit_dots s) (lit_digits s))))
    (negb
      ((&&) ((&&) (Nat.eqb (lit_dots s) O) (Nat.leb (S (S O)) (length0 s)))
        (head_is '0' s)))

type fkind =
| FExp
| FLog
| FMax
| FMin
| FAbs

(** val fun_kind : char list -> fkind option **)

let fun_kind f =
  if eqb0 f ('n'::('p'::('.'::('e'::('x'::('p'::[]))))))
  then Some FExp
  else if eqb0 f ('n'::('p'::('.'::('l'::('o'::('g'::[]))))))
       then Some FLog
       else if eqb0 f ('m'::('a'::('x'::[])))
            then Some FMax
            else if eqb0 f ('m'::('i'::('n'::[])))
                 then Some FMin
                 else if eqb0 f ('a'::('b'::('s'::[])))
                      then Some FAbs
                      else None

type sexpr = char list expr

type sstmt = char list stmt

type sprogram = char list program

(** val apply_fun : fkind -> sexpr list -> sexpr option **)

let apply_fun k args =
  match k with
  | FExp ->
    (match args with
     | [] -> None
     | a :: l -> (match l with
                  | [] -> Some (ECall1 (O, a))
                  | _ :: _ -> None))
  | FLog ->
    (match args with
     | [] -> None
     | a :: l ->
       (match l with
        | [] -> Some (ECall1 ((S O), a))
        | _ :: _ -> None))
  | FMax ->
    (match args with
     | [] -> None
     | a :: l ->
       (match l with
        | [] -> None
        | b :: rest ->
          Some (fold_left (fun x y -> EMax (x, y)) rest (EMax (a, b)))))
  | FMin ->
    (match args with
     | [] -> None
     | a :: l ->
       (match l with
        | [] -> None
        | b :: rest ->
          Some (fold_left (fun x y -> EMin (x, y)) rest (EMin (a, b)))))
  | FAbs ->
    (match args with
     | [] -> None
     | a :: l -> (match l with
                  | [] -> Some (EAbs a)
                  | _ :: _ -> None))

(** val int_lit : char list -> bool **)

let int_lit s = match s with
| [] -> false
| c::r ->
  if (=) c '-'
  then (&&) (Nat.leb (S O) (length0 r)) (Nat.eqb (lit_digits r) (length0 r))
  else Nat.eqb (lit_digits s) (length0 s)

(** val digits_Z : z -> char list -> z **)

let rec digits_Z acc = function
| [] -> acc
| c::r ->
  if is_digit c
  then digits_Z
         (Z.add (Z.mul acc (Zpos (XO (XI (XO XH)))))
           (Z.sub (Z.of_N (n_of_ascii c)) (Zpos (XO (XO (XO (XO (XI XH))))))))
         r
  else digits_Z acc r

(** val int_val : char list -> z **)

let int_val s = match s with
| [] -> Z0
| c::r -> if (=) c '-' then Z.opp (digits_Z Z0 r) else digits_Z Z0 s

(** val int_text : z -> char list **)

let int_text =
  string_of_Z

(** val small_int : z -> bool **)

let small_int z0 =
  Z.leb (Z.abs z0) (Z.pow (Zpos (XO XH)) (Zpos (XI (XO (XI (XO (XI XH)))))))

(** val fold2 : (z -> z -> z) -> char list -> char list -> sexpr -> sexpr **)

let fold2 f a b dflt =
  if (&&) ((&&) (int_lit a) (int_lit b))
       (small_int (f (int_val a) (int_val b)))
  then ENum (int_text (f (int_val a) (int_val b)))
  else dflt

(** val fold_ints : sexpr -> sexpr **)

let rec fold_ints e = match e with
| ENeg a ->
  (match fold_ints a with
   | ENum s ->
     if int_lit s then ENum (int_text (Z.opp (int_val s))) else ENeg (ENum s)
   | x -> ENeg x)
| EAbs a ->
  (match fold_ints a with
   | ENum s ->
     if int_lit s then ENum (int_text (Z.abs (int_val s))) else EAbs (ENum s)
   | x -> EAbs x)
| EBin (o, a, b) ->
  (match o with
   | OAdd ->
     (match fold_ints a with
      | ENum x ->
        let a' = ENum x in
        (match fold_ints b with
         | ENum y -> fold2 Z.add x y (EBin (o, (ENum x), (ENum y)))
         | x0 -> EBin (o, a', x0))
      | x -> EBin (o, x, (fold_ints b)))
   | OSub ->
     (match fold_ints a with
      | ENum x ->
        let a' = ENum x in
        (match fold_ints b with
         | ENum y -> fold2 Z.sub x y (EBin (o, (ENum x), (ENum y)))
         | x0 -> EBin (o, a', x0))
      | x -> EBin (o, x, (fold_ints b)))
   | OMul ->
     (match fold_ints a with
      | ENum x ->
        let a' = ENum x in
        (match fold_ints b with
         | ENum y -> fold2 Z.mul x y (EBin (o, (ENum x), (ENum y)))
         | x0 -> EBin (o, a', x0))
      | x -> EBin (o, x, (fold_ints b)))
   | _ -> EBin (o, (fold_ints a), (fold_ints b)))
| EMax (a, b) ->
  (match fold_ints a with
   | ENum x ->
     let a' = ENum x in
     (match fold_ints b with
      | ENum y -> fold2 Z.max x y (EMax ((ENum x), (ENum y)))
      | x0 -> EMax (a', x0))
   | x -> EMax (x, (fold_ints b)))
| EMin (a, b) ->
  (match fold_ints a with
   | ENum x ->
     let a' = ENum x in
     (match fold_ints b with
      | ENum y -> fold2 Z.min x y (EMin ((ENum x), (ENum y)))
      | x0 -> EMin (a', x0))
   | x -> EMin (x, (fold_ints b)))
| EIf (o, l, r, a, b) ->
  EIf (o, (fold_ints l), (fold_ints r), (fold_ints a), (fold_ints b))
| ECall1 (g, a) -> ECall1 (g, (fold_ints a))
| ECall2 (g, a, b) -> ECall2 (g, (fold_ints a), (fold_ints b))
| _ -> e

(** val isnp : sexpr -> bool **)

let rec isnp = function
| ENum _ -> false
| ENeg a -> isnp a
| EAbs a -> isnp a
| EBin (_, a, b) -> (||) (isnp a) (isnp b)
| EMax (a, b) -> (&&) (isnp a) (isnp b)
| EMin (a, b) -> (&&) (isnp a) (isnp b)
| EIf (_, _, _, a, b) -> (&&) (isnp a) (isnp b)
| _ -> true

(** val has_nonzero_digit : char list -> bool **)

let rec has_nonzero_digit = function
| [] -> false
| c::r -> (||) ((&&) (is_digit c) (negb ((=) c '0'))) (has_nonzero_digit r)

(** val str_prefix : nat -> char list -> char list **)

let rec str_prefix n0 s =
  match n0 with
  | O -> []
  | S k -> (match s with
            | [] -> []
            | c::r -> c::(str_prefix k r))

(** val nonzero_lit : sexpr -> bool **)

let nonzero_lit = function
| ENum s ->
  has_nonzero_digit
    (str_prefix (S (S (S (S (S (S (S (S (S (S (S (S (S (S (S (S (S (S (S (S
      (S (S (S (S (S (S (S (S (S (S (S (S (S (S (S (S (S (S (S (S (S (S (S (S
      (S (S (S (S (S (S (S (S (S (S (S (S (S (S (S (S (S (S (S (S (S (S (S (S
      (S (S (S (S (S (S (S (S (S (S (S (S (S (S (S (S (S (S (S (S (S (S (S (S
      (S (S (S (S (S (S (S (S (S (S (S (S (S (S (S (S (S (S (S (S (S (S (S (S
      (S (S (S (S (S (S (S (S (S (S (S (S (S (S (S (S (S (S (S (S (S (S (S (S
      (S (S (S (S (S (S (S (S (S (S (S (S (S (S (S (S (S (S (S (S (S (S (S (S
      (S (S (S (S (S (S (S (S (S (S (S (S (S (S (S (S (S (S (S (S (S (S (S (S
      (S (S (S (S (S (S (S (S (S (S (S (S (S (S (S (S (S (S (S (S (S (S (S (S
      (S (S (S (S (S (S (S (S (S (S (S (S (S (S (S (S (S (S (S (S (S (S (S (S
      (S (S (S (S (S (S (S (S (S (S (S (S (S (S (S (S (S (S (S (S (S (S (S (S
      (S (S (S (S (S (S (S (S (S (S (S (S (S (S (S (S (S (S (S (S (S (S (S (S
      (S (S (S (S (S (S (S (S (S (S (S (S (S (S (S (S
      O))))))))))))))))))))))))))))))))))))))))))))))))))))))))))))))))))))))))))))))))))))))))))))))))))))))))))))))))))))))))))))))))))))))))))))))))))))))))))))))))))))))))))))))))))))))))))))))))))))))))))))))))))))))))))))))))))))))))))))))))))))))))))))))))))))))))))))))))))))))))))))))))))))))))))))
      s)
| ENeg a ->
  (match a with
   | ENum s ->
     has_nonzero_digit
       (str_prefix (S (S (S (S (S (S (S (S (S (S (S (S (S (S (S (S (S (S (S
         (S (S (S (S (S (S (S (S (S (S (S (S (S (S (S (S (S (S (S (S (S (S (S
         (S (S (S (S (S (S (S (S (S (S (S (S (S (S (S (S (S (S (S (S (S (S (S
         (S (S (S (S (S (S (S (S (S (S (S (S (S (S (S (S (S (S (S (S (S (S (S
         (S (S (S (S (S (S (S (S (S (S (S (S (S (S (S (S (S (S (S (S (S (S (S
         (S (S (S (S (S (S (S (S (S (S (S (S (S (S (S (S (S (S (S (S (S (S (S
         (S (S (S (S (S (S (S (S (S (S (S (S (S (S (S (S (S (S (S (S (S (S (S
         (S (S (S (S (S (S (S (S (S (S (S (S (S (S (S (S (S (S (S (S (S (S (S
         (S (S (S (S (S (S (S (S (S (S (S (S (S (S (S (S (S (S (S (S (S (S (S
         (S (S (S (S (S (S (S (S (S (S (S (S (S (S (S (S (S (S (S (S (S (S (S
         (S (S (S (S (S (S (S (S (S (S (S (S (S (S (S (S (S (S (S (S (S (S (S
         (S (S (S (S (S (S (S (S (S (S (S (S (S (S (S (S (S (S (S (S (S (S (S
         (S (S (S (S (S (S (S (S (S (S (S (S (S (S (S (S (S (S (S (S (S (S (S
         (S (S (S (S (S
         O))))))))))))))))))))))))))))))))))))))))))))))))))))))))))))))))))))))))))))))))))))))))))))))))))))))))))))))))))))))))))))))))))))))))))))))))))))))))))))))))))))))))))))))))))))))))))))))))))))))))))))))))))))))))))))))))))))))))))))))))))))))))))))))))))))))))))))))))))))))))))))))))))))))))))))
         s)
   | _ -> false)
| _ -> false

(** val lit_ok : char list -> bool **)

let lit_ok s =
  (||) (negb (Nat.eqb (lit_dots s) O))
    (Nat.leb (length0 s) (S (S (S (S (S (S (S (S (S (S (S (S (S (S (S (S (S
      (S (S (S (S (S (S (S (S (S (S (S (S (S (S (S (S (S (S (S (S (S (S (S (S
      (S (S (S (S (S (S (S (S (S (S (S (S (S (S (S (S (S (S (S (S (S (S (S (S
      (S (S (S (S (S (S (S (S (S (S (S (S (S (S (S (S (S (S (S (S (S (S (S (S
      (S (S (S (S (S (S (S (S (S (S (S (S (S (S (S (S (S (S (S (S (S (S (S (S
      (S (S (S (S (S (S (S (S (S (S (S (S (S (S (S (S (S (S (S (S (S (S (S (S
      (S (S (S (S (S (S (S (S (S (S (S (S (S (S (S (S (S (S (S (S (S (S (S (S
      (S (S (S (S (S (S (S (S (S (S (S (S (S (S (S (S (S (S (S (S (S (S (S (S
      (S (S (S (S (S (S (S (S (S (S (S (S (S (S (S (S (S (S (S (S (S (S (S (S
      (S (S (S (S (S (S (S (S (S (S (S (S (S (S (S (S (S (S (S (S (S (S (S (S
      (S (S (S (S (S (S (S (S (S (S (S (S (S (S (S (S (S (S (S (S (S (S (S (S
      (S (S (S (S (S (S (S (S (S (S (S (S (S (S (S (S (S (S (S (S (S (S (S (S
      (S (S (S (S (S (S (S (S (S (S (S (S (S (S (S (S (S (S (S
      O)))))))))))))))))))))))))))))))))))))))))))))))))))))))))))))))))))))))))))))))))))))))))))))))))))))))))))))))))))))))))))))))))))))))))))))))))))))))))))))))))))))))))))))))))))))))))))))))))))))))))))))))))))))))))))))))))))))))))))))))))))))))))))))))))))))))))))))))))))))))))))))))))))))))))))))

(** val isint : sexpr -> bool **)

let rec isint = function
| ENum s -> int_lit s
| ENeg a -> isint a
| EAbs a -> isint a
| EBin (o, a, b) ->
  (match o with
   | ODiv -> false
   | OPow -> false
   | _ -> (&&) (isint a) (isint b))
| EMax (a, b) -> (&&) (isint a) (isint b)
| EMin (a, b) -> (&&) (isint a) (isint b)
| _ -> false

(** val small_lit : sexpr -> bool **)

let small_lit = function
| ENum s -> (&&) (int_lit s) (small_int (int_val s))
| _ -> false

(** val py_ok : sexpr -> bool **)

let rec py_ok = function
| ENum s -> lit_ok s
| ERead (_, _) -> true
| ENeg a -> py_ok a
| EAbs a -> py_ok a
| EBin (o, a, b) ->
  (&&) ((&&) (py_ok a) (py_ok b))
    (match o with
     | ODiv -> (||) ((||) (isnp a) (isnp b)) (nonzero_lit b)
     | OPow -> (||) (isnp a) (isnp b)
     | _ -> negb ((&&) (isint a) (isint b)))
| EMax (a, b) -> (&&) (py_ok a) (py_ok b)
| EMin (a, b) -> (&&) (py_ok a) (py_ok b)
| EIf (_, l, r, a, b) ->
  (&&) ((&&) ((&&) ((&&) (py_ok l) (py_ok r)) (py_ok a)) (py_ok b))
    ((||) (negb ((&&) (isint l) (isint r)))
      ((&&) (small_lit l) (small_lit r)))
| ECall1 (_, a) -> py_ok a
| ECall2 (_, a, b) -> (&&) (py_ok a) (py_ok b)

(** val p_expr :
    (char list -> nat option) -> nat -> ctok list -> (sexpr * ctok list)
    option **)

let p_expr row =
  let rec p_expr0 fuel ts =
    match fuel with
    | O -> None
    | S f ->
      (match p_term f ts with
       | Some p -> let (a, r) = p in p_expr_loop f a r
       | None -> None)
  and p_expr_loop fuel acc ts =
    match fuel with
    | O -> None
    | S f ->
      (match ts with
       | [] -> Some (acc, ts)
       | c :: r ->
         (match c with
          | CPlus ->
            (match p_term f r with
             | Some p ->
               let (b, r') = p in p_expr_loop f (EBin (OAdd, acc, b)) r'
             | None -> None)
          | CMinus ->
            (match p_term f r with
             | Some p ->
               let (b, r') = p in p_expr_loop f (EBin (OSub, acc, b)) r'
             | None -> None)
          | _ -> Some (acc, ts)))
  and p_term fuel ts =
    match fuel with
    | O -> None
    | S f ->
      (match p_factor f ts with
       | Some p -> let (a, r) = p in p_term_loop f a r
       | None -> None)
  and p_term_loop fuel acc ts =
    match fuel with
    | O -> None
    | S f ->
      (match ts with
       | [] -> Some (acc, ts)
       | c :: r ->
         (match c with
          | CStar ->
            (match p_factor f r with
             | Some p ->
               let (b, r') = p in p_term_loop f (EBin (OMul, acc, b)) r'
             | None -> None)
          | CSlash ->
            (match p_factor f r with
             | Some p ->
               let (b, r') = p in p_term_loop f (EBin (ODiv, acc, b)) r'
             | None -> None)
          | _ -> Some (acc, ts)))
  and p_factor fuel ts =
    match fuel with
    | O -> None
    | S f ->
      (match ts with
       | [] -> p_power f ts
       | c :: r ->
         (match c with
          | CMinus ->
            (match p_factor f r with
             | Some p -> let (a, r') = p in Some ((ENeg a), r')
             | None -> None)
          | _ -> p_power f ts))
  and p_power fuel ts =
    match fuel with
    | O -> None
    | S f ->
      (match p_atom f ts with
       | Some p ->
         let (a, l) = p in
         (match l with
          | [] -> Some (a, [])
          | c :: r ->
            (match c with
             | CPow ->
               (match p_factor f r with
                | Some p0 ->
                  let (b, r') = p0 in Some ((EBin (OPow, a, b)), r')
                | None -> None)
             | x -> Some (a, (x :: r))))
       | None -> None)
  and p_atom fuel ts =
    match fuel with
    | O -> None
    | S f ->
      (match ts with
       | [] -> None
       | c :: r ->
         (match c with
          | CRead (x, k) ->
            (match row x with
             | Some i -> Some ((ERead (i, k)), r)
             | None -> None)
          | CFun g ->
            (match r with
             | [] -> None
             | c0 :: r0 ->
               (match c0 with
                | CLPar ->
                  (match fun_kind g with
                   | Some k ->
                     (match p_args f r0 with
                      | Some p ->
                        let (args, r') = p in
                        (match apply_fun k args with
                         | Some e -> Some (e, r')
                         | None -> None)
                      | None -> None)
                   | None -> None)
                | _ -> None))
          | CNum s -> if num_ok s then Some ((ENum s), r) else None
          | CLPar ->
            (match p_expr0 f r with
             | Some p ->
               let (e, l) = p in
               (match l with
                | [] -> None
                | c0 :: r' ->
                  (match c0 with
                   | CRPar -> Some (e, r')
                   | _ -> None))
             | None -> None)
          | _ -> None))
  and p_args fuel ts =
    match fuel with
    | O -> None
    | S f ->
      (match p_expr0 f ts with
       | Some p ->
         let (e, l) = p in
         (match l with
          | [] -> None
          | c :: r ->
            (match c with
             | CRPar -> Some ((e :: []), r)
             | CComma ->
               (match p_args f r with
                | Some p0 -> let (es, r') = p0 in Some ((e :: es), r')
                | None -> None)
             | _ -> None))
       | None -> None)
  in p_expr0

(** val tree_fuel : ctok list -> nat **)

let tree_fuel ts =
  add (mul (S (S (S (S (S (S (S (S O)))))))) (length ts)) (S (S (S (S (S (S
    (S (S O))))))))

type scond =
| SCmp of cmpop * sexpr * sexpr
| SAnd of scond * scond
| SOr of scond * scond
| SNot of scond

type stest =
| SVal of sexpr
| SIf of sexpr * scond * stest

(** val mk_if : scond -> sexpr -> sexpr -> sexpr **)

let rec mk_if c a b =
  match c with
  | SCmp (o, l, r) -> EIf (o, l, r, a, b)
  | SAnd (c1, c2) -> mk_if c1 (mk_if c2 a b) b
  | SOr (c1, c2) -> mk_if c1 a (mk_if c2 a b)
  | SNot c1 -> mk_if c1 b a

(** val denote : stest -> sexpr **)

let rec denote = function
| SVal e -> e
| SIf (a, c, b) -> mk_if c a (denote b)

(** val p_or :
    (char list -> nat option) -> nat -> ctok list -> (scond * ctok list)
    option **)

let p_or row =
  let rec p_or0 fuel ts =
    match fuel with
    | O -> None
    | S f ->
      (match p_and f ts with
       | Some p -> let (c, r) = p in p_or_loop f c r
       | None -> None)
  and p_or_loop fuel acc ts =
    match fuel with
    | O -> None
    | S f ->
      (match ts with
       | [] -> Some (acc, ts)
       | c :: r ->
         (match c with
          | CX x ->
            (match x with
             | XOr ->
               (match p_and f r with
                | Some p -> let (b, r') = p in p_or_loop f (SOr (acc, b)) r'
                | None -> None)
             | _ -> Some (acc, ts))
          | _ -> Some (acc, ts)))
  and p_and fuel ts =
    match fuel with
    | O -> None
    | S f ->
      (match p_not f ts with
       | Some p -> let (c, r) = p in p_and_loop f c r
       | None -> None)
  and p_and_loop fuel acc ts =
    match fuel with
    | O -> None
    | S f ->
      (match ts with
       | [] -> Some (acc, ts)
       | c :: r ->
         (match c with
          | CX x ->
            (match x with
             | XAnd ->
               (match p_not f r with
                | Some p -> let (b, r') = p in p_and_loop f (SAnd (acc, b)) r'
                | None -> None)
             | _ -> Some (acc, ts))
          | _ -> Some (acc, ts)))
  and p_not fuel ts =
    match fuel with
    | O -> None
    | S f ->
      (match ts with
       | [] -> p_cmp f ts
       | c :: r ->
         (match c with
          | CX x ->
            (match x with
             | XNot ->
               (match p_not f r with
                | Some p -> let (c0, r') = p in Some ((SNot c0), r')
                | None -> None)
             | _ -> p_cmp f ts)
          | _ -> p_cmp f ts))
  and p_cmp fuel ts =
    match fuel with
    | O -> None
    | S f ->
      (match p_expr row (tree_fuel ts) ts with
       | Some p ->
         let (l, l0) = p in
         (match l0 with
          | [] ->
            (match ts with
             | [] -> None
             | c :: r ->
               (match c with
                | CLPar ->
                  (match p_or0 f r with
                   | Some p0 ->
                     let (c0, l1) = p0 in
                     (match l1 with
                      | [] -> None
                      | c1 :: rest ->
                        (match c1 with
                         | CRPar -> Some (c0, rest)
                         | _ -> None))
                   | None -> None)
                | _ -> None))
          | c :: r ->
            (match c with
             | CX x ->
               (match x with
                | XCmp o ->
                  (match p_expr row (tree_fuel r) r with
                   | Some p0 ->
                     let (r', rest) = p0 in Some ((SCmp (o, l, r')), rest)
                   | None -> None)
                | _ ->
                  (match ts with
                   | [] -> None
                   | c0 :: r0 ->
                     (match c0 with
                      | CLPar ->
                        (match p_or0 f r0 with
                         | Some p0 ->
                           let (c1, l1) = p0 in
                           (match l1 with
                            | [] -> None
                            | c2 :: rest ->
                              (match c2 with
                               | CRPar -> Some (c1, rest)
                               | _ -> None))
                         | None -> None)
                      | _ -> None)))
             | _ ->
               (match ts with
                | [] -> None
                | c0 :: r0 ->
                  (match c0 with
                   | CLPar ->
                     (match p_or0 f r0 with
                      | Some p0 ->
                        let (c1, l1) = p0 in
                        (match l1 with
                         | [] -> None
                         | c2 :: rest ->
                           (match c2 with
                            | CRPar -> Some (c1, rest)
                            | _ -> None))
                      | None -> None)
                   | _ -> None))))
       | None ->
         (match ts with
          | [] -> None
          | c :: r ->
            (match c with
             | CLPar ->
               (match p_or0 f r with
                | Some p ->
                  let (c0, l) = p in
                  (match l with
                   | [] -> None
                   | c1 :: rest ->
                     (match c1 with
                      | CRPar -> Some (c0, rest)
                      | _ -> None))
                | None -> None)
             | _ -> None)))
  in p_or0

(** val p_test :
    (char list -> nat option) -> nat -> ctok list -> (stest * ctok list)
    option **)

let rec p_test row fuel ts =
  match fuel with
  | O -> None
  | S f ->
    (match p_expr row (tree_fuel ts) ts with
     | Some p ->
       let (a, rest) = p in
       (match rest with
        | [] -> Some ((SVal a), rest)
        | c :: r ->
          (match c with
           | CX x ->
             (match x with
              | XIf ->
                (match p_or row f r with
                 | Some p0 ->
                   let (c0, l) = p0 in
                   (match l with
                    | [] -> None
                    | c1 :: r2 ->
                      (match c1 with
                       | CX x0 ->
                         (match x0 with
                          | XElse ->
                            (match p_test row f r2 with
                             | Some p1 ->
                               let (b, rest0) = p1 in
                               Some ((SIf (a, c0, b)), rest0)
                             | None -> None)
                          | _ -> None)
                       | _ -> None))
                 | None -> None)
              | _ -> Some ((SVal a), rest))
           | _ -> Some ((SVal a), rest)))
     | None -> None)

(** val test_fuel : ctok list -> nat **)

let test_fuel ts =
  add (mul (S (S (S (S (S (S (S (S O)))))))) (length ts)) (S (S (S (S (S (S
    (S (S O))))))))

(** val src_of_tokens :
    (char list -> nat option) -> ctok list ->
    (((char list * nat) * z) * stest) option **)

let src_of_tokens row = function
| [] -> None
| c :: l ->
  (match c with
   | CRead (y, k0) ->
     (match l with
      | [] -> None
      | c0 :: rhs ->
        (match c0 with
         | CAssign ->
           (match row y with
            | Some i ->
              (match p_test row (test_fuel rhs) rhs with
               | Some p ->
                 let (st, l0) = p in
                 (match l0 with
                  | [] -> Some (((y, i), k0), st)
                  | _ :: _ -> None)
               | None -> None)
            | None -> None)
         | _ -> None))
   | _ -> None)

(** val stmt_of_tokens :
    (char list -> nat option) -> ctok list -> (char list * sstmt) option **)

let stmt_of_tokens row ts =
  match src_of_tokens row ts with
  | Some p ->
    let (p0, st) = p in
    let (p1, k0) = p0 in
    let (y, i) = p1 in
    let e = fold_ints (denote st) in
    if py_ok e then Some (y, (SAssign (i, k0, e))) else None
  | None -> None

(** val stmt_of_equation :
    (char list -> nat option) -> char list -> (char list * sstmt) option **)

let stmt_of_equation row eq =
  stmt_of_tokens row (lex_items LNone (scan_items eq))

(** val ends_with_2 : char -> char list -> bool **)

let rec ends_with_2 c = function
| [] -> false
| a::r ->
  (match r with
   | [] -> false
   | b::s1 ->
     (match s1 with
      | [] -> (&&) ((=) a c) ((=) b c)
      | _::_ -> ends_with_2 c r))

(** val mangled : char list -> bool **)

let mangled name =
  (&&) (head_is '_' name) (negb (ends_with_2 '_' ('_'::name)))

(** val names_of_type : ptype -> symbol list -> char list list **)

let names_of_type ty syms =
  flat_map (fun s ->
    if type_eqb s.stype ty
    then (match s.sname with
          | Some n0 -> n0 :: []
          | None -> [])
    else []) syms

(** val names_of : symbol list -> char list list **)

let names_of syms =
  app (names_of_type TEndogenous syms)
    (app (names_of_type TExogenous syms)
      (app (names_of_type TParameter syms) (names_of_type TError syms)))

(** val index_of : char list -> char list list -> nat option **)

let rec index_of x = function
| [] -> None
| y :: r ->
  if eqb0 x y
  then Some O
  else (match index_of x r with
        | Some i -> Some (S i)
        | None -> None)

(** val row_of : char list list -> char list -> nat option **)

let row_of names x =
  if mangled x then None else index_of x names

(** val assoc_stmt : char list -> (char list * sstmt) list -> sstmt option **)

let rec assoc_stmt n0 = function
| [] -> None
| p :: r -> let (k, s) = p in if eqb0 n0 k then Some s else assoc_stmt n0 r

(** val offset_text : z -> char list **)

let offset_text z0 =
  if Z.ltb Z0 z0
  then append ('['::('t'::('+'::[]))) (append (string_of_Z z0) (']'::[]))
  else if Z.eqb z0 Z0
       then '['::('t'::(']'::[]))
       else append ('['::('t'::[])) (append (string_of_Z z0) (']'::[]))

(** val code_index : char list -> (z * char list) option **)

let code_index s =
  match prefix_rest ('['::('t'::[])) s with
  | Some r ->
    let (body, r2) = span_while (fun c -> negb ((=) c ']')) r in
    (match r2 with
     | [] -> None
     | _::r3 ->
       (match body with
        | [] -> Some (Z0, r3)
        | b::body' ->
          (match NilZero.int_of_string (if (=) b '+' then body' else body) with
           | Some d ->
             let k = Z.of_int d in
             if eqb0 (offset_text k)
                  (append ('['::('t'::[])) (append body (']'::[])))
             then Some (k, r3)
             else None
           | None -> None)))
  | None -> None

(** val code_word : char list -> ctok **)

let code_word w =
  if (||)
       ((||)
         ((||)
           ((||) (eqb0 w ('n'::('p'::('.'::('e'::('x'::('p'::[])))))))
             (eqb0 w ('n'::('p'::('.'::('l'::('o'::('g'::[]))))))))
           (eqb0 w ('m'::('a'::('x'::[]))))) (eqb0 w ('m'::('i'::('n'::[])))))
       (eqb0 w ('a'::('b'::('s'::[]))))
  then CFun w
  else if eqb0 w ('i'::('f'::[]))
       then CX XIf
       else if eqb0 w ('e'::('l'::('s'::('e'::[]))))
            then CX XElse
            else if eqb0 w ('a'::('n'::('d'::[])))
                 then CX XAnd
                 else if eqb0 w ('o'::('r'::[]))
                      then CX XOr
                      else if eqb0 w ('n'::('o'::('t'::[])))
                           then CX XNot
                           else CBad

(** val span_name : nat -> char list -> char list * char list **)

let rec span_name fuel s =
  let (w, r) = span_while is_idc s in
  (match fuel with
   | O -> (w, r)
   | S f ->
     (match r with
      | [] -> (w, r)
      | d::s1 ->
        (match s1 with
         | [] -> (w, r)
         | a::r' ->
           if (&&) ((=) d '.') (is_alpha_ a)
           then let (w2, r2) = span_name f (a::r') in
                ((append w ('.'::w2)), r2)
           else (w, r))))

(** val lex_code : nat -> char list -> ctok list **)

let rec lex_code fuel s =
  match fuel with
  | O -> CBad :: []
  | S f ->
    (match s with
     | [] -> []
     | c::r ->
       if (||) (is_digit c) ((=) c '.')
       then let (num, rest) =
              span_while (fun d -> (||) (is_digit d) ((=) d '.')) s
            in
            (match rest with
             | [] -> (CNum num) :: []
             | d::_ ->
               if is_alpha_ d
               then CBad :: []
               else (CNum num) :: (lex_code f rest))
       else if (=) c '*'
            then (match r with
                  | [] -> CStar :: []
                  | d::r2 ->
                    if (=) d '*'
                    then CPow :: (lex_code f r2)
                    else CStar :: (lex_code f r))
            else if is_opc c
                 then (match r with
                       | [] -> (op1 c) :: []
                       | d::r2 ->
                         if (=) d '='
                         then (op2 c) :: (lex_code f r2)
                         else (op1 c) :: (lex_code f r))
                 else if (=) c nl
                      then CBad :: []
                      else if is_space c
                           then lex_code f r
                           else if is_alpha_ c
                                then (match prefix_rest
                                              ('s'::('e'::('l'::('f'::('.'::('_'::[]))))))
                                              s with
                                      | Some r1 ->
                                        let (name, r2) = span_while is_idc r1
                                        in
                                        (match code_index r2 with
                                         | Some p ->
                                           let (k, r3) = p in
                                           (CRead (name,
                                           k)) :: (lex_code f r3)
                                         | None -> CBad :: [])
                                      | None ->
                                        let (w, r1) = span_name (length0 s) s
                                        in
                                        (code_word w) :: (lex_code f r1))
                                else (tok_of_char c) :: (lex_code f r))

(** val stmt_of_code :
    (char list -> nat option) -> char list -> (char list * sstmt) option **)

let stmt_of_code row code =
  stmt_of_tokens row (lex_code (S (length0 code)) code)

(** val program_of_symbols :
    symbol list -> char list list -> (char list list * sprogram) option **)

let program_of_symbols syms stmts =
  let names = names_of syms in
  (match all_some
           (map (stmt_of_equation (row_of names))
             (filter (fun st ->
               negb ((&&) (head_is '`' st) (last_is '`' st))) stmts)) with
   | Some defs ->
     (match all_some
              (map (fun s ->
                match s.sname with
                | Some n0 -> assoc_stmt n0 defs
                | None ->
                  (match s.scode with
                   | Some c ->
                     (match stmt_of_code (row_of names) c with
                      | Some p -> let (_, st) = p in Some st
                      | None -> None)
                   | None -> None)) (filter emits syms)) with
      | Some prog -> Some (names, prog)
      | None -> None)
   | None -> None)

(** val program_of_script :
    char list -> (char list list * sprogram) option **)

let program_of_script script =
  match parse_model_nocheck script with
  | POk syms ->
    let (stmts, o) = split_M script in
    (match o with
     | Some _ -> None
     | None -> program_of_symbols syms stmts)
  | _ -> None

(** val binop_eqb : binop -> binop -> bool **)

let binop_eqb a b =
  match a with
  | OAdd -> (match b with
             | OAdd -> true
             | _ -> false)
  | OSub -> (match b with
             | OSub -> true
             | _ -> false)
  | OMul -> (match b with
             | OMul -> true
             | _ -> false)
  | ODiv -> (match b with
             | ODiv -> true
             | _ -> false)
  | OPow -> (match b with
             | OPow -> true
             | _ -> false)

(** val cmpop_eqb : cmpop -> cmpop -> bool **)

let cmpop_eqb a b =
  match a with
  | CLt -> (match b with
            | CLt -> true
            | _ -> false)
  | CLe -> (match b with
            | CLe -> true
            | _ -> false)
  | CEq -> (match b with
            | CEq -> true
            | _ -> false)
  | CNe -> (match b with
            | CNe -> true
            | _ -> false)
  | CGt -> (match b with
            | CGt -> true
            | _ -> false)
  | CGe -> (match b with
            | CGe -> true
            | _ -> false)

(** val sexpr_eqb : sexpr -> sexpr -> bool **)

let rec sexpr_eqb a b =
  match a with
  | ENum x -> (match b with
               | ENum y -> eqb0 x y
               | _ -> false)
  | ERead (x, k) ->
    (match b with
     | ERead (y, j) -> (&&) (Nat.eqb x y) (Z.eqb k j)
     | _ -> false)
  | ENeg a1 -> (match b with
                | ENeg b1 -> sexpr_eqb a1 b1
                | _ -> false)
  | EAbs a1 -> (match b with
                | EAbs b1 -> sexpr_eqb a1 b1
                | _ -> false)
  | EBin (o, a1, a2) ->
    (match b with
     | EBin (o', b1, b2) ->
       (&&) ((&&) (binop_eqb o o') (sexpr_eqb a1 b1)) (sexpr_eqb a2 b2)
     | _ -> false)
  | EMax (a1, a2) ->
    (match b with
     | EMax (b1, b2) -> (&&) (sexpr_eqb a1 b1) (sexpr_eqb a2 b2)
     | _ -> false)
  | EMin (a1, a2) ->
    (match b with
     | EMin (b1, b2) -> (&&) (sexpr_eqb a1 b1) (sexpr_eqb a2 b2)
     | _ -> false)
  | EIf (o, l, r, a1, a2) ->
    (match b with
     | EIf (o', l', r', b1, b2) ->
       (&&)
         ((&&)
           ((&&) ((&&) (cmpop_eqb o o') (sexpr_eqb l l')) (sexpr_eqb r r'))
           (sexpr_eqb a1 b1)) (sexpr_eqb a2 b2)
     | _ -> false)
  | ECall1 (g, a1) ->
    (match b with
     | ECall1 (g', b1) -> (&&) (Nat.eqb g g') (sexpr_eqb a1 b1)
     | _ -> false)
  | ECall2 (g, a1, a2) ->
    (match b with
     | ECall2 (g', b1, b2) ->
       (&&) ((&&) (Nat.eqb g g') (sexpr_eqb a1 b1)) (sexpr_eqb a2 b2)
     | _ -> false)

(** val named_stmt_eqb :
    (char list * sstmt) -> (char list * sstmt) -> bool **)

let named_stmt_eqb a b =
  let (y, s) = a in
  let SAssign (i, k, e) = s in
  let (y', s1) = b in
  let SAssign (i', k', e') = s1 in
  (&&) ((&&) ((&&) (eqb0 y y') (Nat.eqb i i')) (Z.eqb k k')) (sexpr_eqb e e')

(** val code_agrees : (char list -> nat option) -> char list -> bool **)

let code_agrees row eq =
  match stmt_of_equation row eq with
  | Some s ->
    (match code_text eq with
     | Some c ->
       (match stmt_of_code row c with
        | Some s' -> named_stmt_eqb s' s
        | None -> false)
     | None -> false)
  | None -> true

(** val program_agrees : symbol list -> char list list -> bool **)

let program_agrees syms stmts =
  forallb (code_agrees (row_of (names_of syms)))
    (filter (fun st -> negb ((&&) (head_is '`' st) (last_is '`' st))) stmts)

(** val program_of_script_checked :
    char list -> (char list list * sprogram) option **)

let program_of_script_checked script =
  match parse_model_nocheck script with
  | POk syms ->
    let (stmts, o) = split_M script in
    (match o with
     | Some _ -> None
     | None ->
       if program_agrees syms stmts
       then program_of_symbols syms stmts
       else None)
  | _ -> None

(** val is_series : kind -> bool **)

let is_series = function
| KParameter -> true
| KError -> true
| KVariable -> true
| _ -> false

type pclass =
| PNone
| PDig
| PWord

(** val digdot : char -> bool **)

let digdot c =
  (||) (is_digit c) ((=) c '.')

(** val str_all : (char -> bool) -> char list -> bool **)

let rec str_all p = function
| [] -> true
| c::r -> (&&) (p c) (str_all p r)

(** val kw_text : xtok -> char list option **)

let kw_text = function
| XCmp _ -> None
| XIf -> Some ('i'::('f'::[]))
| XElse -> Some ('e'::('l'::('s'::('e'::[]))))
| XAnd -> Some ('a'::('n'::('d'::[])))
| XOr -> Some ('o'::('r'::[]))
| XNot -> Some ('n'::('o'::('t'::[])))

(** val known_fun : char list -> bool **)

let known_fun w =
  (||)
    ((||)
      ((||)
        ((||) (eqb0 w ('n'::('p'::('.'::('e'::('x'::('p'::[])))))))
          (eqb0 w ('n'::('p'::('.'::('l'::('o'::('g'::[]))))))))
        (eqb0 w ('m'::('a'::('x'::[]))))) (eqb0 w ('m'::('i'::('n'::[])))))
    (eqb0 w ('a'::('b'::('s'::[]))))

(** val tok_class : tmatch -> pclass option **)

let tok_class m =
  match tok_of_match m with
  | CRead (name, k) ->
    (match code_of_match m with
     | Some c ->
       if (&&) ((&&) (is_series m.mkind) (str_all is_idc name))
            (eqb0 c
              (append ('s'::('e'::('l'::('f'::('.'::('_'::[]))))))
                (append name (offset_text k))))
       then Some PNone
       else None
     | None -> None)
  | CFun w ->
    (match code_of_match m with
     | Some c -> if (&&) (known_fun w) (eqb0 c w) then Some PWord else None
     | None -> None)
  | CX x ->
    (match code_of_match m with
     | Some c ->
       (match kw_text x with
        | Some w -> if eqb0 c w then Some PWord else None
        | None -> None)
     | None -> None)
  | _ -> None

(** val tight : pclass -> item list -> bool **)

let rec tight p = function
| [] -> true
| i :: r ->
  (match i with
   | Chr c ->
     (&&)
       ((&&) ((&&) (negb (is_alpha_ c)) (negb ((=) c nl)))
         (match p with
          | PWord -> negb (is_fnc c)
          | _ -> true)) (tight (if digdot c then PDig else PNone) r)
   | Tok (_, m) ->
     (match p with
      | PNone -> (match tok_class m with
                  | Some q -> tight q r
                  | None -> false)
      | _ -> false))

(** val tight_statement : char list -> bool **)

let tight_statement eq =
  tight PNone (norm_items (scan_items eq))

(** val splitlines_keep : char list -> char list -> char list list **)

let rec splitlines_keep cur = function
| [] -> (match cur with
         | [] -> []
         | _::_ -> (rev_str cur []) :: [])
| c::r ->
  if is_linesep c
  then if (=) c cr
       then (match r with
             | [] -> (rev_str (c::cur) []) :: (splitlines_keep [] r)
             | c2::r2 ->
               if (=) c2 nl
               then (rev_str (c2::(c::cur)) []) :: (splitlines_keep [] r2)
               else (rev_str (c::cur) []) :: (splitlines_keep [] r))
       else (rev_str (c::cur) []) :: (splitlines_keep [] r)
  else splitlines_keep (c::cur) r

(** val concat_s : char list list -> char list **)

let rec concat_s = function
| [] -> []
| x :: r -> append x (concat_s r)

(** val join_s : char list -> char list list -> char list **)

let rec join_s sep = function
| [] -> []
| x :: r ->
  (match r with
   | [] -> x
   | _ :: _ -> append x (append sep (join_s sep r)))

(** val prefix8 : char list **)

let prefix8 =
  ' '::(' '::(' '::(' '::(' '::(' '::(' '::(' '::[])))))))

(** val indent8 : char list -> char list **)

let indent8 text =
  concat_s
    (map (fun line -> if is_blank line then line else append prefix8 line)
      (splitlines_keep [] text))

(** val default_converter : char list -> char list -> char list **)

let default_converter equation code =
  append
    (join_nl
      (map (fun x -> append ('#'::(' '::[])) x) (splitlines_aux [] equation)))
    (append nl_s code)

(** val converted : symbol -> char list option **)

let converted s =
  match s.sequation with
  | Some e ->
    (match s.scode with
     | Some c -> Some (default_converter e c)
     | None -> None)
  | None -> None

(** val somes_of : 'a1 option list -> 'a1 list **)

let rec somes_of = function
| [] -> []
| o :: r -> (match o with
             | Some a -> a :: (somes_of r)
             | None -> somes_of r)

(** val equations_block : symbol list -> char list **)

let equations_block syms =
  match somes_of (map converted (filter emits syms)) with
  | [] ->
    ' '::(' '::(' '::(' '::(' '::(' '::(' '::(' '::('p'::('a'::('s'::('s'::[])))))))))))
  | s :: l -> join_s (append nl_s nl_s) (map indent8 (s :: l))

(** val block_of_script : char list -> char list option **)

let block_of_script script =
  match parse_model_nocheck script with
  | POk syms -> Some (equations_block syms)
  | _ -> None
