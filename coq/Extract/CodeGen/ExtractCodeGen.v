(* Extraction of the code-generation model (CodeGen.v) to OCaml for the correspondence checks of C01.
   Only ExtrOcamlBasic and ExtrOcamlString; no Extract Constant of ours; Z / N / nat stay the extracted
   inductives.  Compiled from the root of the development, products land next to this file (git-ignored). *)
Require Import ExtrOcamlBasic ExtrOcamlString.
Require Import Fsic.Base.PyBase Fsic.Parser.PyStr Fsic.Parser.Lex Fsic.Parser.Format Fsic.Parser.Symbols
               Fsic.Parser.Split Fsic.Parser.Merge Fsic.Parser.ParseEq Fsic.Parser.ParseModel
               Fsic.Eval.Eval Fsic.CodeGen.CodeGen Fsic.CodeGen.CodeGenBlock.
Extraction Language OCaml.
Extraction "Extract/CodeGen/codegen_model.ml"
  program_of_script program_of_script_checked lex_code tight_statement code_text equation_text string_of_Z split_M parse_equation_M lex_items scan_items text_guard block_of_script.
