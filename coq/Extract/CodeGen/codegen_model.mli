
val negb : bool -> bool

type nat =
| O
| S of nat

val option_map : ('a1 -> 'a2) -> 'a1 option -> 'a2 option

val snd : ('a1 * 'a2) -> 'a2

val length : 'a1 list -> nat

val app : 'a1 list -> 'a1 list -> 'a1 list

type comparison =
| Eq
| Lt
| Gt

val compOpp : comparison -> comparison

type uint =
| Nil
| D0 of uint
| D1 of uint
| D2 of uint
| D3 of uint
| D4 of uint
| D5 of uint
| D6 of uint
| D7 of uint
| D8 of uint
| D9 of uint

type signed_int =
| Pos of uint
| Neg of uint

val revapp : uint -> uint -> uint

val rev : uint -> uint

module Little :
 sig
  val double : uint -> uint

  val succ_double : uint -> uint
 end

val add : nat -> nat -> nat

val mul : nat -> nat -> nat

val sub : nat -> nat -> nat

type positive =
| XI of positive
| XO of positive
| XH

type n =
| N0
| Npos of positive

type z =
| Z0
| Zpos of positive
| Zneg of positive

module Nat :
 sig
  val eqb : nat -> nat -> bool

  val leb : nat -> nat -> bool

  val ltb : nat -> nat -> bool
 end

module Pos :
 sig
  type mask =
  | IsNul
  | IsPos of positive
  | IsNeg
 end

module Coq_Pos :
 sig
  val succ : positive -> positive

  val add : positive -> positive -> positive

  val add_carry : positive -> positive -> positive

  val pred_double : positive -> positive

  type mask = Pos.mask =
  | IsNul
  | IsPos of positive
  | IsNeg

  val succ_double_mask : mask -> mask

  val double_mask : mask -> mask

  val double_pred_mask : positive -> mask

  val sub_mask : positive -> positive -> mask

  val sub_mask_carry : positive -> positive -> mask

  val mul : positive -> positive -> positive

  val iter : ('a1 -> 'a1) -> 'a1 -> positive -> 'a1

  val compare_cont : comparison -> positive -> positive -> comparison

  val compare : positive -> positive -> comparison

  val eqb : positive -> positive -> bool

  val iter_op : ('a1 -> 'a1 -> 'a1) -> positive -> 'a1 -> 'a1

  val to_nat : positive -> nat

  val of_succ_nat : nat -> positive

  val of_uint_acc : uint -> positive -> positive

  val of_uint : uint -> n

  val to_little_uint : positive -> uint

  val to_uint : positive -> uint
 end

module N :
 sig
  val add : n -> n -> n

  val sub : n -> n -> n

  val mul : n -> n -> n

  val compare : n -> n -> comparison

  val ltb : n -> n -> bool

  val to_nat : n -> nat

  val of_nat : nat -> n
 end

val zero : char

val one : char

val shift : bool -> char -> char

val ascii_of_pos : positive -> char

val ascii_of_N : n -> char

val ascii_of_nat : nat -> char

val n_of_digits : bool list -> n

val n_of_ascii : char -> n

val nth_error : 'a1 list -> nat -> 'a1 option

val rev0 : 'a1 list -> 'a1 list

val concat : 'a1 list list -> 'a1 list

val map : ('a1 -> 'a2) -> 'a1 list -> 'a2 list

val flat_map : ('a1 -> 'a2 list) -> 'a1 list -> 'a2 list

val fold_left : ('a1 -> 'a2 -> 'a1) -> 'a2 list -> 'a1 -> 'a1

val existsb : ('a1 -> bool) -> 'a1 list -> bool

val forallb : ('a1 -> bool) -> 'a1 list -> bool

val filter : ('a1 -> bool) -> 'a1 list -> 'a1 list

module Z :
 sig
  val double : z -> z

  val succ_double : z -> z

  val pred_double : z -> z

  val pos_sub : positive -> positive -> z

  val add : z -> z -> z

  val opp : z -> z

  val sub : z -> z -> z

  val mul : z -> z -> z

  val pow_pos : z -> positive -> z

  val pow : z -> z -> z

  val compare : z -> z -> comparison

  val leb : z -> z -> bool

  val ltb : z -> z -> bool

  val eqb : z -> z -> bool

  val max : z -> z -> z

  val min : z -> z -> z

  val abs : z -> z

  val of_N : n -> z

  val of_uint : uint -> z

  val of_int : signed_int -> z

  val to_int : z -> signed_int
 end

val eqb0 : char list -> char list -> bool

val append : char list -> char list -> char list

val length0 : char list -> nat

val list_ascii_of_string : char list -> char list

type exn =
| ValueError
| IndexError
| KeyError
| AttributeError
| TypeError
| SolutionError of z option
| NonConvergenceError
| ParserError
| SymbolError
| IndentationError
| DimensionError
| DuplicateNameError
| InitialisationError
| NotImplementedError
| UnboundLocalError
| FortranEngineError
| OverflowError
| OtherError

type 'a outcome =
| Ret of 'a
| Raise of exn

val uint_of_char : char -> uint option -> uint option

module NilEmpty :
 sig
  val string_of_uint : uint -> char list

  val uint_of_string : char list -> uint option
 end

module NilZero :
 sig
  val string_of_uint : uint -> char list

  val uint_of_string : char list -> uint option

  val string_of_int : signed_int -> char list

  val int_of_string : char list -> signed_int option
 end

val type_order : (char list * z) list

val replacement_function_names : (char list * char list) list

val kwlist : char list list

val re_space_codes : nat list

val re_word_codes : nat list

val splitlines_codes : nat list

val str_strip_codes : nat list

val chars_of_codes : nat list -> char list

val mem_ascii : char -> char list -> bool

val re_space_chars : char list

val re_word_chars : char list

val str_strip_chars : char list

val splitlines_chars : char list

val alpha_chars : char list

val digit_chars : char list

val is_space : char -> bool

val is_word : char -> bool

val is_pyspace : char -> bool

val is_linesep : char -> bool

val is_alpha_ : char -> bool

val is_digit : char -> bool

val is_idc : char -> bool

val is_fnc : char -> bool

val nl : char

val cr : char

val nl_s : char list

val span_while : (char -> bool) -> char list -> char list * char list

val skip_ws : char list -> char list

val prefix_rest : char list -> char list -> char list option

val startswith : char list -> char list -> bool

val find_on_line : char -> char list -> (char list * char list) option

val find_any : char -> char list -> (char list * char list) option

val has_char : char -> char list -> bool

val has_nl : char list -> bool

val count_char : char -> char list -> nat

val rev_str : char list -> char list -> char list

val lstrip_by : (char -> bool) -> char list -> char list

val rstrip_by : (char -> bool) -> char list -> char list

val strip_by : (char -> bool) -> char list -> char list

val re_strip : char list -> char list

val py_strip : char list -> char list

val py_rstrip : char list -> char list

val is_blank : char list -> bool

val head_is : char -> char list -> bool

val last_is : char -> char list -> bool

val join_nl : char list list -> char list

val splitlines_aux : char list -> char list -> char list list

type kind =
| KVerbatim
| KInvalid
| KKeyword
| KFunction
| KParameter
| KError
| KVariable

type tmatch = { mkind : kind; mname : char list; mindex : char list option;
                mlen : nat }

val kW : char list list

val index_group : char list -> (char list * nat) option

val with_index : kind -> char list -> nat -> char list -> tmatch

val try_invalid : char list list -> char list -> tmatch option

val try_keyword : char list list -> char list -> tmatch option

val try_verbatim : char list -> tmatch option

val try_function : char list -> tmatch option

val try_bracketed : char -> char -> kind -> char list -> tmatch option

val try_variable : char list -> tmatch option

val or_else : 'a1 option -> (unit -> 'a1 option) -> 'a1 option

val match_here : bool -> char list -> tmatch option

type item =
| Chr of char
| Tok of nat * tmatch

val scan : nat -> nat -> bool -> char list -> item list

val scan_items : char list -> item list

val matches_of : item list -> tmatch list

type fmt_res =
| FOk of char list
| FFail
| FUnmodelled

type ftok =
| FLit of char
| FAuto
| FManual of n
| FAutoX
| FManualX of n
| FBad
| FUnk

val is_field_delim : char -> bool

val all_digits : char list -> bool

val digit_val : char -> n

val digits_to_N : n -> char list -> n

val classify_field : char list -> ftok

val classify_nested : char list -> ftok

type fmode =
| MText
| MAfterL
| MAfterR
| MField of char list

val ftokens : fmode -> char list -> ftok list

type numbering =
| NNone
| NAuto
| NManual

val ffill : char list list -> nat -> numbering -> ftok list -> fmt_res

val py_format : char list -> char list list -> fmt_res

type ptype =
| TVariable
| TExogenous
| TEndogenous
| TParameter
| TError
| TFunction
| TKeyword
| TVerbatim
| TInvalid

val type_name : ptype -> char list

val type_eqb : ptype -> ptype -> bool

val assoc_z : char list -> (char list * z) list -> z

val type_value : ptype -> z

val type_max : ptype -> ptype -> ptype

val is_variable_type : ptype -> bool

type pidx =
| IInt of z
| IStr of char list

type term = { tname : char list; ttype : ptype; tindex : pidx option }

type symbol = { sname : char list option; stype : ptype; slags : pidx option;
                sleads : pidx option; sequation : char list option;
                scode : char list option }

val opt_string_eqb : char list option -> char list option -> bool

val resolve_strings :
  char list option -> char list option -> char list option outcome

val resolve_by_type_pair :
  (z -> z -> z) -> pidx option -> pidx option -> pidx option outcome

val obind : 'a1 outcome -> ('a1 -> 'a2 outcome) -> 'a2 outcome

val combine : symbol -> symbol -> symbol outcome

val dict_get : char list -> (char list * 'a1) list -> 'a1 option

val dict_set :
  char list -> 'a1 -> (char list * 'a1) list -> (char list * 'a1) list

val dict_values : (char list * 'a1) list -> 'a1 list

type 'a pres =
| POk of 'a
| PErr of exn
| PUnmodelled

val of_outcome : 'a1 outcome -> 'a1 pres

val strip_comments : char list -> char list

val count_parens : nat -> char list -> nat option

val at_eol : char list -> bool

val has_fence_close : char list -> bool

val has_close_paren_eol : char list -> bool

val alt_fence : char list -> bool

val alt_lhs_bracket : char list -> bool

val alt_single : char list -> bool

val alt_here : char list -> bool

val stmt_ok_from : bool -> char list -> bool

val stmt_ok : char list -> bool

type sstate = { unmatched : nat; complete : bool; buffer : char list list }

val s0 : sstate

type step =
| StCont of sstate
| StYield of char list * sstate
| StRaise of exn

val split_step : sstate -> char list -> step

val split_lines : sstate -> char list list -> char list list * exn option

val model_lines : char list -> char list list

val split_M : char list -> char list list * exn option

val dict_combine :
  char list -> symbol -> (char list * symbol) list -> (char list * symbol)
  list outcome

val equation_symbols_go :
  char list -> char list -> term list -> (char list * symbol) list ->
  char list list -> (char list * symbol) list outcome

val equation_symbols :
  char list -> char list -> term list -> symbol list outcome

val merge_go :
  symbol list -> (char list * symbol) list -> symbol list -> symbol list
  outcome

val merge_symbols : symbol list list -> symbol list outcome

val digit_z : char -> z

val parse_digits : z -> bool -> char list -> z option

val int_max_str_digits : nat

val count_digits : char list -> nat

val py_int : char list -> z option

val string_of_Z : z -> char list

val kind_type : kind -> ptype

val drop_last : char list -> char list

val quoted_by : char -> char list -> bool

val mk_index : char list option -> pidx outcome

val mk_term : tmatch -> term outcome

val map_o : ('a1 -> 'a2 outcome) -> 'a1 list -> 'a2 list outcome

val parse_terms : char list -> term list outcome

val term_str : term -> char list option

val assoc_s : char list -> (char list * char list) list -> char list option

val term_code : term -> char list option

val all_some : 'a1 option list -> 'a1 list option

val replace_type : ptype -> term -> term

val has_type : ptype -> term list -> bool

val parse_equation_terms : char list -> term list outcome

val template_of : item list -> char list

val sub_ws : bool -> char list -> char list

val sub_open : bool -> char list -> char list

val sub_close : char list -> char list

val normalise_template : char list -> char list

val template : char list -> char list

val strip_chars : char list -> char list -> char list

val parse_equation_M : char list -> symbol list pres

type chk_res =
| ChkOk
| ChkSyntaxError
| ChkSyntaxWarning
| ChkOtherWarning of nat
| ChkOtherExn
| ChkCaughtExn

type verdict =
| VFine
| VProblem
| VRaise of exn

val check_codes : (char list -> chk_res) -> char list list -> verdict

val codes_of : symbol list -> char list list

val parse_statements :
  (char list -> chk_res) -> bool -> char list list -> symbol list list ->
  bool -> (symbol list list * bool) pres

val parse_model_M :
  (char list -> chk_res) -> bool -> char list -> symbol list pres

val chk_none : char list -> chk_res

val parse_model_nocheck : char list -> symbol list pres

val emits : symbol -> bool

type binop =
| OAdd
| OSub
| OMul
| ODiv
| OPow

type cmpop =
| CLt
| CLe
| CEq
| CNe
| CGt
| CGe

type 'num expr =
| ENum of 'num
| ERead of nat * z
| ENeg of 'num expr
| EAbs of 'num expr
| EBin of binop * 'num expr * 'num expr
| EMax of 'num expr * 'num expr
| EMin of 'num expr * 'num expr
| EIf of cmpop * 'num expr * 'num expr * 'num expr * 'num expr
| ECall1 of nat * 'num expr
| ECall2 of nat * 'num expr * 'num expr

type 'num stmt =
| SAssign of nat * z * 'num expr

type 'num program = 'num stmt list

val item_space : item -> bool

val item_is : char -> item -> bool

val head_item_is : char -> item list -> bool

val ws_items : bool -> item list -> item list

val open_items : bool -> item list -> item list

val close_items : item list -> item list

val norm_items : item list -> item list

val not_brace : item -> bool

val gaps_brace_free : item list -> bool

val render_items :
  (tmatch -> char list option) -> item list -> char list option

val code_of_match : tmatch -> char list option

val str_of_match : tmatch -> char list option

val code_text : char list -> char list option

val equation_text : char list -> char list option

val kind_eqb : kind -> kind -> bool

val tmatch_eqb : tmatch -> tmatch -> bool

val matches_eqb : tmatch list -> tmatch list -> bool

val aligned_b : char list -> bool

val text_guard : char list -> bool

type xtok =
| XCmp of cmpop
| XIf
| XElse
| XAnd
| XOr
| XNot

type ctok =
| CRead of char list * z
| CFun of char list
| CNum of char list
| CPlus
| CMinus
| CStar
| CSlash
| CPow
| CLPar
| CRPar
| CComma
| CAssign
| CBad
| CX of xtok

val tok_of_match : tmatch -> ctok

val tok_of_char : char -> ctok

val is_opc : char -> bool

val op1 : char -> ctok

val op2 : char -> ctok

type lstate =
| LNone
| LNum of char list
| LStar
| LOp of char
| LWord

val flush : lstate -> ctok list

val fuses : lstate -> tmatch -> bool

val after_match : tmatch -> lstate

val lex_items : lstate -> item list -> ctok list

val lit_dots : char list -> nat

val lit_digits : char list -> nat

val num_ok : char list -> bool

type fkind =
| FExp
| FLog
| FMax
| FMin
| FAbs

val fun_kind : char list -> fkind option

type sexpr = char list expr

type sstmt = char list stmt

type sprogram = char list program

val apply_fun : fkind -> sexpr list -> sexpr option

val int_lit : char list -> bool

val digits_Z : z -> char list -> z

val int_val : char list -> z

val int_text : z -> char list

val small_int : z -> bool

val fold2 : (z -> z -> z) -> char list -> char list -> sexpr -> sexpr

val fold_ints : sexpr -> sexpr

val isnp : sexpr -> bool

val has_nonzero_digit : char list -> bool

val str_prefix : nat -> char list -> char list

val nonzero_lit : sexpr -> bool

val lit_ok : char list -> bool

val isint : sexpr -> bool

val small_lit : sexpr -> bool

val py_ok : sexpr -> bool

val p_expr :
  (char list -> nat option) -> nat -> ctok list -> (sexpr * ctok list) option

val tree_fuel : ctok list -> nat

type scond =
| SCmp of cmpop * sexpr * sexpr
| SAnd of scond * scond
| SOr of scond * scond
| SNot of scond

type stest =
| SVal of sexpr
| SIf of sexpr * scond * stest

val mk_if : scond -> sexpr -> sexpr -> sexpr

val denote : stest -> sexpr

val p_or :
  (char list -> nat option) -> nat -> ctok list -> (scond * ctok list) option

val p_test :
  (char list -> nat option) -> nat -> ctok list -> (stest * ctok list) option

val test_fuel : ctok list -> nat

val src_of_tokens :
  (char list -> nat option) -> ctok list -> (((char list * nat) * z) * stest)
  option

val stmt_of_tokens :
  (char list -> nat option) -> ctok list -> (char list * sstmt) option

val stmt_of_equation :
  (char list -> nat option) -> char list -> (char list * sstmt) option

val ends_with_2 : char -> char list -> bool

val mangled : char list -> bool

val names_of_type : ptype -> symbol list -> char list list

val names_of : symbol list -> char list list

val index_of : char list -> char list list -> nat option

val row_of : char list list -> char list -> nat option

val assoc_stmt : char list -> (char list * sstmt) list -> sstmt option

val offset_text : z -> char list

val code_index : char list -> (z * char list) option

val code_word : char list -> ctok

val span_name : nat -> char list -> char list * char list

val lex_code : nat -> char list -> ctok list

val stmt_of_code :
  (char list -> nat option) -> char list -> (char list * sstmt) option

val program_of_symbols :
  symbol list -> char list list -> (char list list * sprogram) option

val program_of_script : char list -> (char list list * sprogram) option

val binop_eqb : binop -> binop -> bool

val cmpop_eqb : cmpop -> cmpop -> bool

val sexpr_eqb : sexpr -> sexpr -> bool

val named_stmt_eqb : (char list * sstmt) -> (char list * sstmt) -> bool

val code_agrees : (char list -> nat option) -> char list -> bool

val program_agrees : symbol list -> char list list -> bool

val program_of_script_checked :
  char list -> (char list list * sprogram) option

val is_series : kind -> bool

type pclass =
| PNone
| PDig
| PWord

val digdot : char -> bool

val str_all : (char -> bool) -> char list -> bool

val kw_text : xtok -> char list option

val known_fun : char list -> bool

val tok_class : tmatch -> pclass option

val tight : pclass -> item list -> bool

val tight_statement : char list -> bool

val splitlines_keep : char list -> char list -> char list list

val concat_s : char list list -> char list

val join_s : char list -> char list list -> char list

val prefix8 : char list

val indent8 : char list -> char list

val default_converter : char list -> char list -> char list

val converted : symbol -> char list option

val somes_of : 'a1 option list -> 'a1 list

val equations_block : symbol list -> char list

val block_of_script : char list -> char list option
