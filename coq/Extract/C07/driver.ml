
open Ftext
let explode s = List.init (String.length s) (String.get s)
let implode l = String.of_seq (List.to_seq l)
let rec nat_of_int n = if n <= 0 then O else S (nat_of_int (n - 1))
let rec int_of_nat = function O -> 0 | S n -> 1 + int_of_nat n
let rec pos_of_int n = if n = 1 then XH else if n land 1 = 0 then XO (pos_of_int (n lsr 1)) else XI (pos_of_int (n lsr 1))
let z_of_int n = if n = 0 then Z0 else if n > 0 then Zpos (pos_of_int n) else Zneg (pos_of_int (- n))
let rec int_of_pos = function XH -> 1 | XO p -> 2 * int_of_pos p | XI p -> 2 * int_of_pos p + 1
let int_of_z = function Z0 -> 0 | Zpos p -> int_of_pos p | Zneg p -> - (int_of_pos p)
let fields f = if f = "" then [] else String.split_on_char '\031' f
let esc s = String.map (fun c -> if c = '\n' then '\030' else c) s
let strs f = List.map explode (fields f)
let ints f = List.map int_of_string (fields f)
let () =
  try
    while true do
      let line = input_line stdin in
      let out =
        match String.split_on_char '\t' line with
        | ["R"; names; eq] -> (match rewrite (strs names) (explode eq) with Some c -> "=" ^ implode c | None -> "!KeyError")
        | ["S"; names; eq] -> (let (sg, tl) = segments (explode eq) in
                               match stream (strs names) sg tl with Some c -> "=" ^ implode c | None -> "!KeyError")
        | ["B"; eq; lines] -> "=" ^ implode (block (explode eq) (strs lines))
        | ["D"; name; nums] -> "=" ^ implode (int_array_def (List.map nat_of_int (ints nums)) (explode name))
        | ["W"; lines] -> "=" ^ implode (wrapped_def (strs lines))
        | ["N"; names; x] -> (match number_of (strs names) (explode x) with Some n -> "=" ^ string_of_int (int_of_nat n) | None -> "!None")
        | ["X"; names; x] -> (match index_of (strs names) (explode x) with Some n -> "=" ^ string_of_int (int_of_nat n) | None -> "!None")
        | ["L"; l; mn] -> "=" ^ string_of_int (int_of_z (lag_of (List.map z_of_int (ints l)) (z_of_int (int_of_string mn))))
        | ["M"; l; mn] -> "=" ^ string_of_int (int_of_z (lead_of (List.map z_of_int (ints l)) (z_of_int (int_of_string mn))))
        | ["I"; k] -> "=" ^ implode (idx_text (z_of_int (int_of_string k)))
        | ["T"; num; k] -> "=" ^ implode (term_f (nat_of_int (int_of_string num)) (idx_text (z_of_int (int_of_string k))))
        | ["U"; num; k] -> "=" ^ implode (explode "solved_values(" @ explode num @ explode ", " @ f_idx_text (z_of_int (int_of_string k)) @ explode ")")
        | _ -> "?bad request"
      in
      print_string (esc out); print_newline ()
    done
  with End_of_file -> ()
