
open Ftext
let explode s = List.init (String.length s) (String.get s)
let implode l = String.of_seq (List.to_seq l)
let rec nat_of_int n = if n <= 0 then O else S (nat_of_int (n - 1))
let rec int_of_nat = function O -> 0 | S n -> 1 + int_of_nat n
let rec pos_of_int n = if n = 1 then XH else if n land 1 = 0 then XO (pos_of_int (n lsr 1)) else XI (pos_of_int (n lsr 1))
let z_of_int n = if n = 0 then Z0 else if n > 0 then Zpos (pos_of_int n) else Zneg (pos_of_int (- n))
let rec int_of_pos = function XH -> 1 | XO p -> 2 * int_of_pos p | XI p -> 2 * int_of_pos p + 1
let int_of_z = function Z0 -> 0 | Zpos p -> int_of_pos p | Zneg p -> - (int_of_pos p)
let rec rd toks = match toks with
  | "v" :: i :: k :: r -> (SVar (nat_of_int (int_of_string i), z_of_int (int_of_string k)), r)
  | "i" :: z :: r -> (SInt (z_of_int (int_of_string z)), r)
  | "d" :: m :: s :: r -> (SDec (z_of_int (int_of_string m), nat_of_int (int_of_string s)), r)
  | "D" :: m :: s :: r -> (SDec8 (z_of_int (int_of_string m), nat_of_int (int_of_string s)), r)
  | "n" :: r -> let (a, r1) = rd r in (SNeg a, r1)
  | "p" :: r -> let (a, r1) = rd r in (SPar a, r1)
  | "a" :: r -> let (a, r1) = rd r in (SAbs a, r1)
  | "e" :: r -> let (a, r1) = rd r in (SExp a, r1)
  | "l" :: r -> let (a, r1) = rd r in (SLog a, r1)
  | "b" :: op :: r -> let (a, r1) = rd r in let (b, r2) = rd r1 in
      (SBin ((match op with "+" -> OAdd | "-" -> OSub | "*" -> OMul | "/" -> ODiv | "^" -> OPow | _ -> failwith "op"), a, b), r2)
  | "M" :: r -> let (a, r1) = rd r in let (b, r2) = rd r1 in (SMM (MMax, a, b), r2)
  | "m" :: r -> let (a, r1) = rd r in let (b, r2) = rd r1 in (SMM (MMin, a, b), r2)
  | _ -> failwith "tree"
let rec show = function
  | SVar (i, k) -> Printf.sprintf "v%d@%d" (int_of_nat i) (int_of_z k)
  | SInt z -> string_of_int (int_of_z z)
  | SDec (m, s) -> Printf.sprintf "%de-%d" (int_of_z m) (int_of_nat s)
  | SDec8 (m, s) -> Printf.sprintf "%dd-%d" (int_of_z m) (int_of_nat s)
  | SNeg a -> "(neg " ^ show a ^ ")" | SPar a -> "(par " ^ show a ^ ")"
  | SAbs a -> "(abs " ^ show a ^ ")" | SExp a -> "(exp " ^ show a ^ ")" | SLog a -> "(log " ^ show a ^ ")"
  | SBin (o, a, b) -> "(" ^ (match o with OAdd -> "+" | OSub -> "-" | OMul -> "*" | ODiv -> "/" | OPow -> "**") ^ " " ^ show a ^ " " ^ show b ^ ")"
  | SMM (m, a, b) -> "(" ^ (match m with MMax -> "max" | MMin -> "min") ^ " " ^ show a ^ " " ^ show b ^ ")"
let unesc s = String.map (fun c -> if c = '\030' then '\n' else c) s
let fields f = if f = "" then [] else String.split_on_char '\031' f
let esc s = String.map (fun c -> if c = '\n' then '\030' else c) s
let strs f = List.map explode (fields f)
let ints f = List.map int_of_string (fields f)
let () =
  try
    while true do
      let line = input_line stdin in
      let out =
        match String.split_on_char '\t' line with
        | ["R"; names; eq] -> (match rewrite (strs names) (explode eq) with Some c -> "=" ^ implode c | None -> "!KeyError")
        | ["S"; names; eq] -> (let (sg, tl) = segments (explode eq) in
                               match stream (strs names) sg tl with Some c -> "=" ^ implode c | None -> "!KeyError")
        | ["B"; eq; lines] -> "=" ^ implode (block (explode eq) (strs lines))
        | ["D"; name; nums] -> "=" ^ implode (int_array_def (List.map nat_of_int (ints nums)) (explode name))
        | ["W"; lines] -> "=" ^ implode (wrapped_def (strs lines))
        | ["N"; names; x] -> (match number_of (strs names) (explode x) with Some n -> "=" ^ string_of_int (int_of_nat n) | None -> "!None")
        | ["X"; names; x] -> (match index_of (strs names) (explode x) with Some n -> "=" ^ string_of_int (int_of_nat n) | None -> "!None")
        | ["L"; l; mn] -> "=" ^ string_of_int (int_of_z (lag_of (List.map z_of_int (ints l)) (z_of_int (int_of_string mn))))
        | ["M"; l; mn] -> "=" ^ string_of_int (int_of_z (lead_of (List.map z_of_int (ints l)) (z_of_int (int_of_string mn))))
        | ["P"; blk; row; tree] ->
            let (t, _) = rd (List.filter (fun x -> x <> "") (String.split_on_char ' ' tree)) in
            if block_matches (explode (unesc blk)) (nat_of_int (int_of_string row)) t then "=true"
            else "=false parsed: " ^ (match parse_stmt (stmt_of_block (explode (unesc blk))) with
                                      | Some (r, e) -> string_of_int (int_of_nat r) ^ " " ^ show e
                                      | None -> "no parse of " ^ implode (stmt_of_block (explode (unesc blk)))) ^ " expected: " ^ show (s_regroup t)
        | ["E"; names; width; eq] -> (match equation_block (strs names) (nat_of_int (int_of_string width)) (explode eq) with
                                      | Some b -> "=" ^ implode b | None -> "!KeyError")
        | ["F"; name; width; nums] -> "=" ^ implode (array_def_block (nat_of_int (int_of_string width)) (List.map nat_of_int (ints nums)) (explode name))
        | ["I"; k] -> "=" ^ implode (idx_text (z_of_int (int_of_string k)))
        | ["T"; num; k] -> "=" ^ implode (term_f (nat_of_int (int_of_string num)) (idx_text (z_of_int (int_of_string k))))
        | ["U"; num; k] -> "=" ^ implode (explode "solved_values(" @ explode num @ explode ", " @ f_idx_text (z_of_int (int_of_string k)) @ explode ")")
        | _ -> "?bad request"
      in
      print_string (esc out); print_newline ()
    done
  with End_of_file -> ()
