
val negb : bool -> bool

type nat =
| O
| S of nat

val fst : ('a1 * 'a2) -> 'a1

val length : 'a1 list -> nat

val app : 'a1 list -> 'a1 list -> 'a1 list

type comparison =
| Eq
| Lt
| Gt

val compOpp : comparison -> comparison

type uint =
| Nil
| D0 of uint
| D1 of uint
| D2 of uint
| D3 of uint
| D4 of uint
| D5 of uint
| D6 of uint
| D7 of uint
| D8 of uint
| D9 of uint

val revapp : uint -> uint -> uint

val rev : uint -> uint

module Little :
 sig
  val succ : uint -> uint
 end

val add : nat -> nat -> nat

val mul : nat -> nat -> nat

val sub : nat -> nat -> nat

val eqb : bool -> bool -> bool

type positive =
| XI of positive
| XO of positive
| XH

type n =
| N0
| Npos of positive

type z =
| Z0
| Zpos of positive
| Zneg of positive

module Nat :
 sig
  val eqb : nat -> nat -> bool

  val leb : nat -> nat -> bool

  val ltb : nat -> nat -> bool

  val to_little_uint : nat -> uint -> uint

  val to_uint : nat -> uint
 end

module Pos :
 sig
  val succ : positive -> positive

  val add : positive -> positive -> positive

  val add_carry : positive -> positive -> positive

  val pred_double : positive -> positive

  val mul : positive -> positive -> positive

  val iter : ('a1 -> 'a1) -> 'a1 -> positive -> 'a1

  val compare_cont : comparison -> positive -> positive -> comparison

  val compare : positive -> positive -> comparison

  val eqb : positive -> positive -> bool

  val iter_op : ('a1 -> 'a1 -> 'a1) -> positive -> 'a1 -> 'a1

  val to_nat : positive -> nat

  val of_succ_nat : nat -> positive
 end

module N :
 sig
  val add : n -> n -> n

  val mul : n -> n -> n

  val to_nat : n -> nat

  val of_nat : nat -> n
 end

val zero : char

val one : char

val shift : bool -> char -> char

val ascii_of_pos : positive -> char

val ascii_of_N : n -> char

val ascii_of_nat : nat -> char

val n_of_digits : bool list -> n

val n_of_ascii : char -> n

val nat_of_ascii : char -> nat

val rev0 : 'a1 list -> 'a1 list

val concat : 'a1 list list -> 'a1 list

val list_eq_dec : ('a1 -> 'a1 -> bool) -> 'a1 list -> 'a1 list -> bool

val map : ('a1 -> 'a2) -> 'a1 list -> 'a2 list

val flat_map : ('a1 -> 'a2 list) -> 'a1 list -> 'a2 list

val fold_left : ('a1 -> 'a2 -> 'a1) -> 'a2 list -> 'a1 -> 'a1

val existsb : ('a1 -> bool) -> 'a1 list -> bool

val forallb : ('a1 -> bool) -> 'a1 list -> bool

val firstn : nat -> 'a1 list -> 'a1 list

val skipn : nat -> 'a1 list -> 'a1 list

module Z :
 sig
  val double : z -> z

  val succ_double : z -> z

  val pred_double : z -> z

  val pos_sub : positive -> positive -> z

  val add : z -> z -> z

  val opp : z -> z

  val sub : z -> z -> z

  val mul : z -> z -> z

  val pow_pos : z -> positive -> z

  val pow : z -> z -> z

  val compare : z -> z -> comparison

  val leb : z -> z -> bool

  val eqb : z -> z -> bool

  val max : z -> z -> z

  val min : z -> z -> z

  val abs : z -> z

  val to_nat : z -> nat

  val of_nat : nat -> z
 end

val list_ascii_of_string : char list -> char list

module NilEmpty :
 sig
  val string_of_uint : uint -> char list
 end

module NilZero :
 sig
  val string_of_uint : uint -> char list
 end

type str = char list

val lit : char list -> str

val code_of : char -> nat

val is_id_start : char -> bool

val is_digit : char -> bool

val is_id_char : char -> bool

val ascii_eqb : char -> char -> bool

val take_while : (char -> bool) -> str -> str

val drop_while : (char -> bool) -> str -> str

val find_close : str -> str option

val match_here : str -> ((str * str) * nat) option

type seg = (str * str) * str

val scan : nat -> str -> seg list * str

val segments : str -> seg list * str

val spans : nat -> seg list -> (((nat * nat) * str) * str) list

val str_eqb : str -> str -> bool

val number_of_from : nat -> str list -> str -> nat option

val number_of : str list -> str -> nat option

val index_of_from : nat -> str list -> str -> nat option

val index_of : str list -> str -> nat option

val dec : nat -> str

val replace_t : str -> str

val term_f : nat -> str -> str

val splice : str -> nat -> nat -> str -> str

val rewrite_step :
  str list -> str option -> (((nat * nat) * str) * str) -> str option

val rewrite : str list -> str -> str option

val stream : str list -> seg list -> str -> str option

val nl : char

val join : str -> str list -> str

val is_space : char -> bool

val split_lines : str -> str -> str list

val indent : str -> str -> str

val cont_sep : str

val block : str -> str list -> str

val int_array_def : nat list -> str -> str

val wrapped_def : str list -> str

val zmin_list : z list -> z

val zmax_list : z list -> z

val lag_of : z list -> z -> z

val lead_of : z list -> z -> z

val idx_text : z -> str

val f_idx_text : z -> str

val is_blank : char -> bool

val plain_lines : str -> str -> str list

val rstrip : str -> str

val split_cont : str -> str * bool

val cont_start : str -> str

val logical : bool -> str list -> str

type binop =
| OAdd
| OSub
| OMul
| ODiv
| OPow

type mmop =
| MMax
| MMin

val is_mul : binop -> bool

type sexpr =
| SVar of nat * z
| SInt of z
| SDec of z * nat
| SDec8 of z * nat
| SNeg of sexpr
| SPar of sexpr
| SBin of binop * sexpr * sexpr
| SAbs of sexpr
| SExp of sexpr
| SLog of sexpr
| SMM of mmop * sexpr * sexpr

val s_regroup : sexpr -> sexpr

type tok =
| TInt of z
| TDecT of z * nat
| TDec8 of z * nat
| TId of str
| TPlus
| TMinus
| TStar
| TSlash
| TPow
| TLp
| TRp
| TComma
| TEq

val digit_val : char -> z

val digits_val : str -> z

val lex_suffix : str -> (z * bool) * str

val dec_norm : z -> nat -> z -> z * nat

val dec_tok : z -> nat -> z -> bool -> tok

val lex : nat -> str -> tok list option

type pres = (sexpr * tok list) option

val p_term : tok list -> pres

val p_primary : nat -> tok list -> pres

val p_mult : nat -> tok list -> pres

val p_ext_mult : nat -> tok list -> pres

val p_mul_tail : nat -> sexpr -> tok list -> pres

val p_add_operand : nat -> tok list -> pres

val p_ext_add : nat -> tok list -> pres

val p_add_tail : nat -> sexpr -> tok list -> pres

val p_level2 : nat -> tok list -> pres

val parse_tokens : tok list -> (nat * sexpr) option

val parse_stmt : str -> (nat * sexpr) option

val stmt_of_block : str -> str

val sexpr_eqb : sexpr -> sexpr -> bool

val block_matches : str -> nat -> sexpr -> bool

val all_blank : str -> bool

val chunks_from : str -> str -> bool -> str list

val chunks_of : str -> str list

val fill : nat -> nat -> str list -> str list -> (str list * nat) * str list

val wrap_round : nat -> bool -> str list -> str list * str list

val wrap_chunks : nat -> nat -> bool -> str list -> str list list

val wrap_words : nat -> str -> str list

val is_cut_char : char -> bool

val rfind_cut : str -> nat -> nat -> nat option -> nat option

val split_long : nat -> nat -> str -> str list

val wrap : nat -> str -> str list

val equation_block : str list -> nat -> str -> str option

val array_def_block : nat -> nat list -> str -> str
