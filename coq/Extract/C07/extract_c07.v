From Coq Require Import ExtrOcamlBasic ExtrOcamlString.
Require Import Fsic.Fortran.FText.
Extraction "ftext.ml" rewrite segments stream block int_array_def wrapped_def number_of index_of lag_of lead_of.
