
type nat =
| O
| S of nat

(** val fst : ('a1 * 'a2) -> 'a1 **)

let fst = function
| (x, _) -> x

(** val length : 'a1 list -> nat **)

let rec length = function
| [] -> O
| _ :: l' -> S (length l')

(** val app : 'a1 list -> 'a1 list -> 'a1 list **)

let rec app l m =
  match l with
  | [] -> m
  | a :: l1 -> a :: (app l1 m)

type comparison =
| Eq
| Lt
| Gt

(** val compOpp : comparison -> comparison **)

let compOpp = function
| Eq -> Eq
| Lt -> Gt
| Gt -> Lt

type uint =
| Nil
| D0 of uint
| D1 of uint
| D2 of uint
| D3 of uint
| D4 of uint
| D5 of uint
| D6 of uint
| D7 of uint
| D8 of uint
| D9 of uint

(** val revapp : uint -> uint -> uint **)

let rec revapp d d' =
  match d with
  | Nil -> d'
  | D0 d0 -> revapp d0 (D0 d')
  | D1 d0 -> revapp d0 (D1 d')
  | D2 d0 -> revapp d0 (D2 d')
  | D3 d0 -> revapp d0 (D3 d')
  | D4 d0 -> revapp d0 (D4 d')
  | D5 d0 -> revapp d0 (D5 d')
  | D6 d0 -> revapp d0 (D6 d')
  | D7 d0 -> revapp d0 (D7 d')
  | D8 d0 -> revapp d0 (D8 d')
  | D9 d0 -> revapp d0 (D9 d')

(** val rev : uint -> uint **)

let rev d =
  revapp d Nil

module Little =
 struct
  (** val succ : uint -> uint **)

  let rec succ = function
  | Nil -> D1 Nil
  | D0 d0 -> D1 d0
  | D1 d0 -> D2 d0
  | D2 d0 -> D3 d0
  | D3 d0 -> D4 d0
  | D4 d0 -> D5 d0
  | D5 d0 -> D6 d0
  | D6 d0 -> D7 d0
  | D7 d0 -> D8 d0
  | D8 d0 -> D9 d0
  | D9 d0 -> D0 (succ d0)
 end

module Coq__1 = struct
 (** val add : nat -> nat -> nat **)
 let rec add n0 m =
   match n0 with
   | O -> m
   | S p -> S (add p m)
end
include Coq__1

type positive =
| XI of positive
| XO of positive
| XH

type n =
| N0
| Npos of positive

type z =
| Z0
| Zpos of positive
| Zneg of positive

module Nat =
 struct
  (** val eqb : nat -> nat -> bool **)

  let rec eqb n0 m =
    match n0 with
    | O -> (match m with
            | O -> true
            | S _ -> false)
    | S n' -> (match m with
               | O -> false
               | S m' -> eqb n' m')

  (** val leb : nat -> nat -> bool **)

  let rec leb n0 m =
    match n0 with
    | O -> true
    | S n' -> (match m with
               | O -> false
               | S m' -> leb n' m')

  (** val to_little_uint : nat -> uint -> uint **)

  let rec to_little_uint n0 acc =
    match n0 with
    | O -> acc
    | S n1 -> to_little_uint n1 (Little.succ acc)

  (** val to_uint : nat -> uint **)

  let to_uint n0 =
    rev (to_little_uint n0 (D0 Nil))
 end

module Pos =
 struct
  (** val succ : positive -> positive **)

  let rec succ = function
  | XI p -> XO (succ p)
  | XO p -> XI p
  | XH -> XO XH

  (** val add : positive -> positive -> positive **)

  let rec add x y =
    match x with
    | XI p ->
      (match y with
       | XI q -> XO (add_carry p q)
       | XO q -> XI (add p q)
       | XH -> XO (succ p))
    | XO p ->
      (match y with
       | XI q -> XI (add p q)
       | XO q -> XO (add p q)
       | XH -> XI p)
    | XH -> (match y with
             | XI q -> XO (succ q)
             | XO q -> XI q
             | XH -> XO XH)

  (** val add_carry : positive -> positive -> positive **)

  and add_carry x y =
    match x with
    | XI p ->
      (match y with
       | XI q -> XI (add_carry p q)
       | XO q -> XO (add_carry p q)
       | XH -> XI (succ p))
    | XO p ->
      (match y with
       | XI q -> XO (add_carry p q)
       | XO q -> XI (add p q)
       | XH -> XO (succ p))
    | XH ->
      (match y with
       | XI q -> XI (succ q)
       | XO q -> XO (succ q)
       | XH -> XI XH)

  (** val mul : positive -> positive -> positive **)

  let rec mul x y =
    match x with
    | XI p -> add y (XO (mul p y))
    | XO p -> XO (mul p y)
    | XH -> y

  (** val compare_cont : comparison -> positive -> positive -> comparison **)

  let rec compare_cont r x y =
    match x with
    | XI p ->
      (match y with
       | XI q -> compare_cont r p q
       | XO q -> compare_cont Gt p q
       | XH -> Gt)
    | XO p ->
      (match y with
       | XI q -> compare_cont Lt p q
       | XO q -> compare_cont r p q
       | XH -> Gt)
    | XH -> (match y with
             | XH -> r
             | _ -> Lt)

  (** val compare : positive -> positive -> comparison **)

  let compare =
    compare_cont Eq

  (** val iter_op : ('a1 -> 'a1 -> 'a1) -> positive -> 'a1 -> 'a1 **)

  let rec iter_op op p a =
    match p with
    | XI p0 -> op a (iter_op op p0 (op a a))
    | XO p0 -> iter_op op p0 (op a a)
    | XH -> a

  (** val to_nat : positive -> nat **)

  let to_nat x =
    iter_op Coq__1.add x (S O)

  (** val of_succ_nat : nat -> positive **)

  let rec of_succ_nat = function
  | O -> XH
  | S x -> succ (of_succ_nat x)
 end

module N =
 struct
  (** val add : n -> n -> n **)

  let add n0 m =
    match n0 with
    | N0 -> m
    | Npos p -> (match m with
                 | N0 -> n0
                 | Npos q -> Npos (Pos.add p q))

  (** val mul : n -> n -> n **)

  let mul n0 m =
    match n0 with
    | N0 -> N0
    | Npos p -> (match m with
                 | N0 -> N0
                 | Npos q -> Npos (Pos.mul p q))

  (** val to_nat : n -> nat **)

  let to_nat = function
  | N0 -> O
  | Npos p -> Pos.to_nat p

  (** val of_nat : nat -> n **)

  let of_nat = function
  | O -> N0
  | S n' -> Npos (Pos.of_succ_nat n')
 end

(** val zero : char **)

let zero = '\000'

(** val one : char **)

let one = '\001'

(** val shift : bool -> char -> char **)

let shift = fun b c -> Char.chr (((Char.code c) lsl 1) land 255 + if b then 1 else 0)

(** val ascii_of_pos : positive -> char **)

let ascii_of_pos =
  let rec loop n0 p =
    match n0 with
    | O -> zero
    | S n' ->
      (match p with
       | XI p' -> shift true (loop n' p')
       | XO p' -> shift false (loop n' p')
       | XH -> one)
  in loop (S (S (S (S (S (S (S (S O))))))))

(** val ascii_of_N : n -> char **)

let ascii_of_N = function
| N0 -> zero
| Npos p -> ascii_of_pos p

(** val ascii_of_nat : nat -> char **)

let ascii_of_nat a =
  ascii_of_N (N.of_nat a)

(** val n_of_digits : bool list -> n **)

let rec n_of_digits = function
| [] -> N0
| b :: l' ->
  N.add (if b then Npos XH else N0) (N.mul (Npos (XO XH)) (n_of_digits l'))

(** val n_of_ascii : char -> n **)

let n_of_ascii a =
  (* If this appears, you're using Ascii internals. Please don't *)
 (fun f c ->
  let n = Char.code c in
  let h i = (n land (1 lsl i)) <> 0 in
  f (h 0) (h 1) (h 2) (h 3) (h 4) (h 5) (h 6) (h 7))
    (fun a0 a1 a2 a3 a4 a5 a6 a7 ->
    n_of_digits
      (a0 :: (a1 :: (a2 :: (a3 :: (a4 :: (a5 :: (a6 :: (a7 :: [])))))))))
    a

(** val nat_of_ascii : char -> nat **)

let nat_of_ascii a =
  N.to_nat (n_of_ascii a)

(** val rev0 : 'a1 list -> 'a1 list **)

let rec rev0 = function
| [] -> []
| x :: l' -> app (rev0 l') (x :: [])

(** val concat : 'a1 list list -> 'a1 list **)

let rec concat = function
| [] -> []
| x :: l0 -> app x (concat l0)

(** val list_eq_dec : ('a1 -> 'a1 -> bool) -> 'a1 list -> 'a1 list -> bool **)

let rec list_eq_dec eq_dec l l' =
  match l with
  | [] -> (match l' with
           | [] -> true
           | _ :: _ -> false)
  | y :: l0 ->
    (match l' with
     | [] -> false
     | a :: l1 -> if eq_dec y a then list_eq_dec eq_dec l0 l1 else false)

(** val map : ('a1 -> 'a2) -> 'a1 list -> 'a2 list **)

let rec map f = function
| [] -> []
| a :: t -> (f a) :: (map f t)

(** val fold_left : ('a1 -> 'a2 -> 'a1) -> 'a2 list -> 'a1 -> 'a1 **)

let rec fold_left f l a0 =
  match l with
  | [] -> a0
  | b :: t -> fold_left f t (f a0 b)

(** val existsb : ('a1 -> bool) -> 'a1 list -> bool **)

let rec existsb f = function
| [] -> false
| a :: l0 -> (||) (f a) (existsb f l0)

(** val forallb : ('a1 -> bool) -> 'a1 list -> bool **)

let rec forallb f = function
| [] -> true
| a :: l0 -> (&&) (f a) (forallb f l0)

(** val firstn : nat -> 'a1 list -> 'a1 list **)

let rec firstn n0 l =
  match n0 with
  | O -> []
  | S n1 -> (match l with
             | [] -> []
             | a :: l0 -> a :: (firstn n1 l0))

(** val skipn : nat -> 'a1 list -> 'a1 list **)

let rec skipn n0 l =
  match n0 with
  | O -> l
  | S n1 -> (match l with
             | [] -> []
             | _ :: l0 -> skipn n1 l0)

module Z =
 struct
  (** val compare : z -> z -> comparison **)

  let compare x y =
    match x with
    | Z0 -> (match y with
             | Z0 -> Eq
             | Zpos _ -> Lt
             | Zneg _ -> Gt)
    | Zpos x' -> (match y with
                  | Zpos y' -> Pos.compare x' y'
                  | _ -> Gt)
    | Zneg x' ->
      (match y with
       | Zneg y' -> compOpp (Pos.compare x' y')
       | _ -> Lt)

  (** val max : z -> z -> z **)

  let max n0 m =
    match compare n0 m with
    | Lt -> m
    | _ -> n0

  (** val min : z -> z -> z **)

  let min n0 m =
    match compare n0 m with
    | Gt -> m
    | _ -> n0

  (** val abs : z -> z **)

  let abs = function
  | Zneg p -> Zpos p
  | x -> x
 end

(** val list_ascii_of_string : char list -> char list **)

let rec list_ascii_of_string = function
| [] -> []
| ch::s0 -> ch :: (list_ascii_of_string s0)

module NilEmpty =
 struct
  (** val string_of_uint : uint -> char list **)

  let rec string_of_uint = function
  | Nil -> []
  | D0 d0 -> '0'::(string_of_uint d0)
  | D1 d0 -> '1'::(string_of_uint d0)
  | D2 d0 -> '2'::(string_of_uint d0)
  | D3 d0 -> '3'::(string_of_uint d0)
  | D4 d0 -> '4'::(string_of_uint d0)
  | D5 d0 -> '5'::(string_of_uint d0)
  | D6 d0 -> '6'::(string_of_uint d0)
  | D7 d0 -> '7'::(string_of_uint d0)
  | D8 d0 -> '8'::(string_of_uint d0)
  | D9 d0 -> '9'::(string_of_uint d0)
 end

module NilZero =
 struct
  (** val string_of_uint : uint -> char list **)

  let string_of_uint d = match d with
  | Nil -> '0'::[]
  | _ -> NilEmpty.string_of_uint d
 end

type str = char list

(** val lit : char list -> str **)

let lit =
  list_ascii_of_string

(** val code_of : char -> nat **)

let code_of =
  nat_of_ascii

(** val is_id_start : char -> bool **)

let is_id_start c =
  let n0 = code_of c in
  (||)
    ((||)
      (Nat.eqb n0 (S (S (S (S (S (S (S (S (S (S (S (S (S (S (S (S (S (S (S (S
        (S (S (S (S (S (S (S (S (S (S (S (S (S (S (S (S (S (S (S (S (S (S (S
        (S (S (S (S (S (S (S (S (S (S (S (S (S (S (S (S (S (S (S (S (S (S (S
        (S (S (S (S (S (S (S (S (S (S (S (S (S (S (S (S (S (S (S (S (S (S (S
        (S (S (S (S (S (S
        O))))))))))))))))))))))))))))))))))))))))))))))))))))))))))))))))))))))))))))))))))))))))))))))))
      ((&&)
        (Nat.leb (S (S (S (S (S (S (S (S (S (S (S (S (S (S (S (S (S (S (S (S
          (S (S (S (S (S (S (S (S (S (S (S (S (S (S (S (S (S (S (S (S (S (S
          (S (S (S (S (S (S (S (S (S (S (S (S (S (S (S (S (S (S (S (S (S (S
          (S
          O)))))))))))))))))))))))))))))))))))))))))))))))))))))))))))))))))
          n0)
        (Nat.leb n0 (S (S (S (S (S (S (S (S (S (S (S (S (S (S (S (S (S (S (S
          (S (S (S (S (S (S (S (S (S (S (S (S (S (S (S (S (S (S (S (S (S (S
          (S (S (S (S (S (S (S (S (S (S (S (S (S (S (S (S (S (S (S (S (S (S
          (S (S (S (S (S (S (S (S (S (S (S (S (S (S (S (S (S (S (S (S (S (S
          (S (S (S (S (S
          O)))))))))))))))))))))))))))))))))))))))))))))))))))))))))))))))))))))))))))))))))))))))))))))
    ((&&)
      (Nat.leb (S (S (S (S (S (S (S (S (S (S (S (S (S (S (S (S (S (S (S (S (S
        (S (S (S (S (S (S (S (S (S (S (S (S (S (S (S (S (S (S (S (S (S (S (S
        (S (S (S (S (S (S (S (S (S (S (S (S (S (S (S (S (S (S (S (S (S (S (S
        (S (S (S (S (S (S (S (S (S (S (S (S (S (S (S (S (S (S (S (S (S (S (S
        (S (S (S (S (S (S (S
        O)))))))))))))))))))))))))))))))))))))))))))))))))))))))))))))))))))))))))))))))))))))))))))))))))
        n0)
      (Nat.leb n0 (S (S (S (S (S (S (S (S (S (S (S (S (S (S (S (S (S (S (S (S
        (S (S (S (S (S (S (S (S (S (S (S (S (S (S (S (S (S (S (S (S (S (S (S
        (S (S (S (S (S (S (S (S (S (S (S (S (S (S (S (S (S (S (S (S (S (S (S
        (S (S (S (S (S (S (S (S (S (S (S (S (S (S (S (S (S (S (S (S (S (S (S
        (S (S (S (S (S (S (S (S (S (S (S (S (S (S (S (S (S (S (S (S (S (S (S
        (S (S (S (S (S (S (S (S (S (S
        O))))))))))))))))))))))))))))))))))))))))))))))))))))))))))))))))))))))))))))))))))))))))))))))))))))))))))))))))))))))))))))

(** val is_digit : char -> bool **)

let is_digit c =
  let n0 = code_of c in
  (&&)
    (Nat.leb (S (S (S (S (S (S (S (S (S (S (S (S (S (S (S (S (S (S (S (S (S
      (S (S (S (S (S (S (S (S (S (S (S (S (S (S (S (S (S (S (S (S (S (S (S (S
      (S (S (S O)))))))))))))))))))))))))))))))))))))))))))))))) n0)
    (Nat.leb n0 (S (S (S (S (S (S (S (S (S (S (S (S (S (S (S (S (S (S (S (S
      (S (S (S (S (S (S (S (S (S (S (S (S (S (S (S (S (S (S (S (S (S (S (S (S
      (S (S (S (S (S (S (S (S (S (S (S (S (S
      O))))))))))))))))))))))))))))))))))))))))))))))))))))))))))

(** val is_id_char : char -> bool **)

let is_id_char c =
  (||) (is_id_start c) (is_digit c)

(** val ascii_eqb : char -> char -> bool **)

let ascii_eqb a b =
  Nat.eqb (code_of a) (code_of b)

(** val take_while : (char -> bool) -> str -> str **)

let rec take_while p = function
| [] -> []
| c :: r -> if p c then c :: (take_while p r) else []

(** val drop_while : (char -> bool) -> str -> str **)

let rec drop_while p l = match l with
| [] -> []
| c :: r -> if p c then drop_while p r else l

(** val find_close : str -> str option **)

let rec find_close = function
| [] -> None
| c :: r ->
  if ascii_eqb c ']'
  then Some []
  else if Nat.eqb (code_of c) (S (S (S (S (S (S (S (S (S (S O))))))))))
       then None
       else (match find_close r with
             | Some i -> Some (c :: i)
             | None -> None)

(** val match_here : str -> ((str * str) * nat) option **)

let match_here = function
| [] -> None
| c :: r ->
  if is_id_start c
  then let name = c :: (take_while is_id_char r) in
       (match drop_while is_id_char r with
        | [] -> None
        | b :: r2 ->
          if ascii_eqb b '['
          then (match find_close r2 with
                | Some idx ->
                  Some ((name, idx),
                    (add (add (add (length name) (S O)) (length idx)) (S O)))
                | None -> None)
          else None)
  else None

type seg = (str * str) * str

(** val scan : nat -> str -> seg list * str **)

let rec scan fuel l =
  match fuel with
  | O -> ([], l)
  | S f ->
    (match l with
     | [] -> ([], l)
     | c :: r ->
       (match match_here l with
        | Some p ->
          let (p0, len) = p in
          let (name, idx) = p0 in
          let (sg, tl) = scan f (skipn len l) in
          (((([], name), idx) :: sg), tl)
        | None ->
          let (sg, tl) = scan f r in
          (match sg with
           | [] -> ([], (c :: tl))
           | s :: sg' ->
             let (p, i) = s in
             let (g, n0) = p in (((((c :: g), n0), i) :: sg'), tl))))

(** val segments : str -> seg list * str **)

let segments l =
  scan (length l) l

(** val spans : nat -> seg list -> (((nat * nat) * str) * str) list **)

let rec spans pos = function
| [] -> []
| s :: r ->
  let (p, i) = s in
  let (g, n0) = p in
  let st = add pos (length g) in
  let en = add (add (add (add st (length n0)) (S O)) (length i)) (S O) in
  (((st, en), n0), i) :: (spans en r)

(** val str_eqb : str -> str -> bool **)

let str_eqb a b =
  if list_eq_dec (=) a b then true else false

(** val number_of_from : nat -> str list -> str -> nat option **)

let rec number_of_from k names x =
  match names with
  | [] -> None
  | y :: r ->
    (match number_of_from (S k) r x with
     | Some j -> Some j
     | None -> if str_eqb x y then Some k else None)

(** val number_of : str list -> str -> nat option **)

let number_of names x =
  number_of_from (S O) names x

(** val index_of_from : nat -> str list -> str -> nat option **)

let rec index_of_from k names x =
  match names with
  | [] -> None
  | y :: r -> if str_eqb x y then Some k else index_of_from (S k) r x

(** val index_of : str list -> str -> nat option **)

let index_of names x =
  index_of_from O names x

(** val dec : nat -> str **)

let dec n0 =
  lit (NilZero.string_of_uint (Nat.to_uint n0))

(** val replace_t : str -> str **)

let rec replace_t = function
| [] -> []
| c :: r ->
  if ascii_eqb c 't'
  then app (lit ('i'::('n'::('d'::('e'::('x'::[])))))) (replace_t r)
  else c :: (replace_t r)

(** val term_f : nat -> str -> str **)

let term_f n0 idx =
  app
    (lit
      ('s'::('o'::('l'::('v'::('e'::('d'::('_'::('v'::('a'::('l'::('u'::('e'::('s'::('('::[])))))))))))))))
    (app (dec n0)
      (app (lit (','::(' '::[]))) (app (replace_t idx) (lit (')'::[])))))

(** val splice : str -> nat -> nat -> str -> str **)

let splice code st en repl =
  app (firstn st code) (app repl (skipn en code))

(** val rewrite_step :
    str list -> str option -> (((nat * nat) * str) * str) -> str option **)

let rewrite_step names acc = function
| (p, i) ->
  let (p0, n0) = p in
  let (st, en) = p0 in
  (match acc with
   | Some code ->
     (match number_of names n0 with
      | Some k -> Some (splice code st en (term_f k i))
      | None -> None)
   | None -> None)

(** val rewrite : str list -> str -> str option **)

let rewrite names eq =
  fold_left (rewrite_step names) (rev0 (spans O (fst (segments eq)))) (Some
    eq)

(** val stream : str list -> seg list -> str -> str option **)

let rec stream names sg tl =
  match sg with
  | [] -> Some tl
  | s :: r ->
    let (p, i) = s in
    let (g, n0) = p in
    (match number_of names n0 with
     | Some k ->
       (match stream names r tl with
        | Some rest -> Some (app g (app (term_f k i) rest))
        | None -> None)
     | None -> None)

(** val nl : char **)

let nl =
  ascii_of_nat (S (S (S (S (S (S (S (S (S (S O))))))))))

(** val join : str -> str list -> str **)

let rec join sep = function
| [] -> []
| x :: r -> (match r with
             | [] -> x
             | _ :: _ -> app x (app sep (join sep r)))

(** val is_space : char -> bool **)

let is_space c =
  existsb (Nat.eqb (code_of c)) ((S (S (S (S (S (S (S (S (S O))))))))) :: ((S
    (S (S (S (S (S (S (S (S (S O)))))))))) :: ((S (S (S (S (S (S (S (S (S (S
    (S O))))))))))) :: ((S (S (S (S (S (S (S (S (S (S (S (S
    O)))))))))))) :: ((S (S (S (S (S (S (S (S (S (S (S (S (S
    O))))))))))))) :: ((S (S (S (S (S (S (S (S (S (S (S (S (S (S (S (S (S (S
    (S (S (S (S (S (S (S (S (S (S O)))))))))))))))))))))))))))) :: ((S (S (S
    (S (S (S (S (S (S (S (S (S (S (S (S (S (S (S (S (S (S (S (S (S (S (S (S
    (S (S O))))))))))))))))))))))))))))) :: ((S (S (S (S (S (S (S (S (S (S (S
    (S (S (S (S (S (S (S (S (S (S (S (S (S (S (S (S (S (S (S
    O)))))))))))))))))))))))))))))) :: ((S (S (S (S (S (S (S (S (S (S (S (S
    (S (S (S (S (S (S (S (S (S (S (S (S (S (S (S (S (S (S (S
    O))))))))))))))))))))))))))))))) :: ((S (S (S (S (S (S (S (S (S (S (S (S
    (S (S (S (S (S (S (S (S (S (S (S (S (S (S (S (S (S (S (S (S
    O)))))))))))))))))))))))))))))))) :: ((S (S (S (S (S (S (S (S (S (S (S (S
    (S (S (S (S (S (S (S (S (S (S (S (S (S (S (S (S (S (S (S (S (S (S (S (S
    (S (S (S (S (S (S (S (S (S (S (S (S (S (S (S (S (S (S (S (S (S (S (S (S
    (S (S (S (S (S (S (S (S (S (S (S (S (S (S (S (S (S (S (S (S (S (S (S (S
    (S (S (S (S (S (S (S (S (S (S (S (S (S (S (S (S (S (S (S (S (S (S (S (S
    (S (S (S (S (S (S (S (S (S (S (S (S (S (S (S (S (S (S (S (S (S (S (S (S
    (S
    O))))))))))))))))))))))))))))))))))))))))))))))))))))))))))))))))))))))))))))))))))))))))))))))))))))))))))))))))))))))))))))))))))))) :: ((S
    (S (S (S (S (S (S (S (S (S (S (S (S (S (S (S (S (S (S (S (S (S (S (S (S
    (S (S (S (S (S (S (S (S (S (S (S (S (S (S (S (S (S (S (S (S (S (S (S (S
    (S (S (S (S (S (S (S (S (S (S (S (S (S (S (S (S (S (S (S (S (S (S (S (S
    (S (S (S (S (S (S (S (S (S (S (S (S (S (S (S (S (S (S (S (S (S (S (S (S
    (S (S (S (S (S (S (S (S (S (S (S (S (S (S (S (S (S (S (S (S (S (S (S (S
    (S (S (S (S (S (S (S (S (S (S (S (S (S (S (S (S (S (S (S (S (S (S (S (S
    (S (S (S (S (S (S (S (S (S (S (S (S (S (S (S
    O)))))))))))))))))))))))))))))))))))))))))))))))))))))))))))))))))))))))))))))))))))))))))))))))))))))))))))))))))))))))))))))))))))))))))))))))))))))))))))))))) :: []))))))))))))

(** val split_lines : str -> str -> str list **)

let rec split_lines l cur =
  match l with
  | [] -> (match cur with
           | [] -> []
           | _ :: _ -> (rev0 cur) :: [])
  | c :: r ->
    if Nat.eqb (code_of c) (S (S (S (S (S (S (S (S (S (S O))))))))))
    then (rev0 (c :: cur)) :: (split_lines r [])
    else split_lines r (c :: cur)

(** val indent : str -> str -> str **)

let indent prefix text =
  concat
    (map (fun ln -> if forallb is_space ln then ln else app prefix ln)
      (split_lines text []))

(** val cont_sep : str **)

let cont_sep =
  app (lit (' '::(' '::('&'::[]))))
    (app (nl :: []) (lit ('&'::(' '::(' '::[])))))

(** val block : str -> str list -> str **)

let block equation wrapped =
  indent (lit (' '::(' '::[])))
    (app (lit ('!'::(' '::[])))
      (app equation (app (nl :: []) (join cont_sep wrapped))))

(** val int_array_def : nat list -> str -> str **)

let int_array_def nums name =
  app
    (lit
      ('i'::('n'::('t'::('e'::('g'::('e'::('r'::(','::(' '::('d'::('i'::('m'::('e'::('n'::('s'::('i'::('o'::('n'::('('::[]))))))))))))))))))))
    (app (dec (length nums))
      (app (lit (')'::(' '::(':'::(':'::(' '::[]))))))
        (app name
          (match nums with
           | [] -> []
           | _ :: _ ->
             app (lit (' '::('='::(' '::('('::('/'::(' '::[])))))))
               (app (join (lit (','::(' '::[]))) (map dec nums))
                 (lit (' '::('/'::(')'::[])))))))))

(** val wrapped_def : str list -> str **)

let wrapped_def wrapped =
  indent (lit (' '::(' '::[]))) (join cont_sep wrapped)

(** val zmin_list : z list -> z **)

let zmin_list = function
| [] -> Z0
| x :: r -> fold_left Z.min r x

(** val zmax_list : z list -> z **)

let zmax_list = function
| [] -> Z0
| x :: r -> fold_left Z.max r x

(** val lag_of : z list -> z -> z **)

let lag_of sym_lags min_lags =
  Z.max (Z.abs (zmin_list sym_lags)) min_lags

(** val lead_of : z list -> z -> z **)

let lead_of sym_leads min_leads =
  Z.max (Z.abs (zmax_list sym_leads)) min_leads

(** val idx_text : z -> str **)

let idx_text = function
| Z0 -> lit ('t'::[])
| Zpos q -> app (lit ('t'::('+'::[]))) (dec (Pos.to_nat q))
| Zneg q -> app (lit ('t'::('-'::[]))) (dec (Pos.to_nat q))

(** val f_idx_text : z -> str **)

let f_idx_text = function
| Z0 -> lit ('i'::('n'::('d'::('e'::('x'::[])))))
| Zpos q ->
  app (lit ('i'::('n'::('d'::('e'::('x'::('+'::[]))))))) (dec (Pos.to_nat q))
| Zneg q ->
  app (lit ('i'::('n'::('d'::('e'::('x'::('-'::[]))))))) (dec (Pos.to_nat q))
