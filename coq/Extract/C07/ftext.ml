
(** val negb : bool -> bool **)

let negb = function
| true -> false
| false -> true

type nat =
| O
| S of nat

(** val fst : ('a1 * 'a2) -> 'a1 **)

let fst = function
| (x, _) -> x

(** val length : 'a1 list -> nat **)

let rec length = function
| [] -> O
| _ :: l' -> S (length l')

(** val app : 'a1 list -> 'a1 list -> 'a1 list **)

let rec app l m =
  match l with
  | [] -> m
  | a :: l1 -> a :: (app l1 m)

type comparison =
| Eq
| Lt
| Gt

(** val compOpp : comparison -> comparison **)

let compOpp = function
| Eq -> Eq
| Lt -> Gt
| Gt -> Lt

type uint =
| Nil
| D0 of uint
| D1 of uint
| D2 of uint
| D3 of uint
| D4 of uint
| D5 of uint
| D6 of uint
| D7 of uint
| D8 of uint
| D9 of uint

(** val revapp : uint -> uint -> uint **)

let rec revapp d d' =
  match d with
  | Nil -> d'
  | D0 d0 -> revapp d0 (D0 d')
  | D1 d0 -> revapp d0 (D1 d')
  | D2 d0 -> revapp d0 (D2 d')
  | D3 d0 -> revapp d0 (D3 d')
  | D4 d0 -> revapp d0 (D4 d')
  | D5 d0 -> revapp d0 (D5 d')
  | D6 d0 -> revapp d0 (D6 d')
  | D7 d0 -> revapp d0 (D7 d')
  | D8 d0 -> revapp d0 (D8 d')
  | D9 d0 -> revapp d0 (D9 d')

(** val rev : uint -> uint **)

let rev d =
  revapp d Nil

module Little =
 struct
  (** val succ : uint -> uint **)

  let rec succ = function
  | Nil -> D1 Nil
  | D0 d0 -> D1 d0
  | D1 d0 -> D2 d0
  | D2 d0 -> D3 d0
  | D3 d0 -> D4 d0
  | D4 d0 -> D5 d0
  | D5 d0 -> D6 d0
  | D6 d0 -> D7 d0
  | D7 d0 -> D8 d0
  | D8 d0 -> D9 d0
  | D9 d0 -> D0 (succ d0)
 end

module Coq__1 = struct
 (** val add : nat -> nat -> nat **)
 let rec add n0 m =
   match n0 with
   | O -> m
   | S p -> S (add p m)
end
include Coq__1

(** val mul : nat -> nat -> nat **)

let rec mul n0 m =
  match n0 with
  | O -> O
  | S p -> add m (mul p m)

(** val sub : nat -> nat -> nat **)

let rec sub n0 m =
  match n0 with
  | O -> n0
  | S k -> (match m with
            | O -> n0
            | S l -> sub k l)

(** val eqb : bool -> bool -> bool **)

let eqb b1 b2 =
  if b1 then b2 else if b2 then false else true

type positive =
| XI of positive
| XO of positive
| XH

type n =
| N0
| Npos of positive

type z =
| Z0
| Zpos of positive
| Zneg of positive

module Nat =
 struct
  (** val eqb : nat -> nat -> bool **)

  let rec eqb n0 m =
    match n0 with
    | O -> (match m with
            | O -> true
            | S _ -> false)
    | S n' -> (match m with
               | O -> false
               | S m' -> eqb n' m')

  (** val leb : nat -> nat -> bool **)

  let rec leb n0 m =
    match n0 with
    | O -> true
    | S n' -> (match m with
               | O -> false
               | S m' -> leb n' m')

  (** val ltb : nat -> nat -> bool **)

  let ltb n0 m =
    leb (S n0) m

  (** val to_little_uint : nat -> uint -> uint **)

  let rec to_little_uint n0 acc =
    match n0 with
    | O -> acc
    | S n1 -> to_little_uint n1 (Little.succ acc)

  (** val to_uint : nat -> uint **)

  let to_uint n0 =
    rev (to_little_uint n0 (D0 Nil))
 end

module Pos =
 struct
  (** val succ : positive -> positive **)

  let rec succ = function
  | XI p -> XO (succ p)
  | XO p -> XI p
  | XH -> XO XH

  (** val add : positive -> positive -> positive **)

  let rec add x y =
    match x with
    | XI p ->
      (match y with
       | XI q -> XO (add_carry p q)
       | XO q -> XI (add p q)
       | XH -> XO (succ p))
    | XO p ->
      (match y with
       | XI q -> XI (add p q)
       | XO q -> XO (add p q)
       | XH -> XI p)
    | XH -> (match y with
             | XI q -> XO (succ q)
             | XO q -> XI q
             | XH -> XO XH)

  (** val add_carry : positive -> positive -> positive **)

  and add_carry x y =
    match x with
    | XI p ->
      (match y with
       | XI q -> XI (add_carry p q)
       | XO q -> XO (add_carry p q)
       | XH -> XI (succ p))
    | XO p ->
      (match y with
       | XI q -> XO (add_carry p q)
       | XO q -> XI (add p q)
       | XH -> XO (succ p))
    | XH ->
      (match y with
       | XI q -> XI (succ q)
       | XO q -> XO (succ q)
       | XH -> XI XH)

  (** val pred_double : positive -> positive **)

  let rec pred_double = function
  | XI p -> XI (XO p)
  | XO p -> XI (pred_double p)
  | XH -> XH

  (** val mul : positive -> positive -> positive **)

  let rec mul x y =
    match x with
    | XI p -> add y (XO (mul p y))
    | XO p -> XO (mul p y)
    | XH -> y

  (** val iter : ('a1 -> 'a1) -> 'a1 -> positive -> 'a1 **)

  let rec iter f x = function
  | XI n' -> f (iter f (iter f x n') n')
  | XO n' -> iter f (iter f x n') n'
  | XH -> f x

  (** val compare_cont : comparison -> positive -> positive -> comparison **)

  let rec compare_cont r x y =
    match x with
    | XI p ->
      (match y with
       | XI q -> compare_cont r p q
       | XO q -> compare_cont Gt p q
       | XH -> Gt)
    | XO p ->
      (match y with
       | XI q -> compare_cont Lt p q
       | XO q -> compare_cont r p q
       | XH -> Gt)
    | XH -> (match y with
             | XH -> r
             | _ -> Lt)

  (** val compare : positive -> positive -> comparison **)

  let compare =
    compare_cont Eq

  (** val eqb : positive -> positive -> bool **)

  let rec eqb p q =
    match p with
    | XI p0 -> (match q with
                | XI q0 -> eqb p0 q0
                | _ -> false)
    | XO p0 -> (match q with
                | XO q0 -> eqb p0 q0
                | _ -> false)
    | XH -> (match q with
             | XH -> true
             | _ -> false)

  (** val iter_op : ('a1 -> 'a1 -> 'a1) -> positive -> 'a1 -> 'a1 **)

  let rec iter_op op p a =
    match p with
    | XI p0 -> op a (iter_op op p0 (op a a))
    | XO p0 -> iter_op op p0 (op a a)
    | XH -> a

  (** val to_nat : positive -> nat **)

  let to_nat x =
    iter_op Coq__1.add x (S O)

  (** val of_succ_nat : nat -> positive **)

  let rec of_succ_nat = function
  | O -> XH
  | S x -> succ (of_succ_nat x)
 end

module N =
 struct
  (** val add : n -> n -> n **)

  let add n0 m =
    match n0 with
    | N0 -> m
    | Npos p -> (match m with
                 | N0 -> n0
                 | Npos q -> Npos (Pos.add p q))

  (** val mul : n -> n -> n **)

  let mul n0 m =
    match n0 with
    | N0 -> N0
    | Npos p -> (match m with
                 | N0 -> N0
                 | Npos q -> Npos (Pos.mul p q))

  (** val to_nat : n -> nat **)

  let to_nat = function
  | N0 -> O
  | Npos p -> Pos.to_nat p

  (** val of_nat : nat -> n **)

  let of_nat = function
  | O -> N0
  | S n' -> Npos (Pos.of_succ_nat n')
 end

(** val zero : char **)

let zero = '\000'

(** val one : char **)

let one = '\001'

(** val shift : bool -> char -> char **)

let shift = fun b c -> Char.chr (((Char.code c) lsl 1) land 255 + if b then 1 else 0)

(** val ascii_of_pos : positive -> char **)

let ascii_of_pos =
  let rec loop n0 p =
    match n0 with
    | O -> zero
    | S n' ->
      (match p with
       | XI p' -> shift true (loop n' p')
       | XO p' -> shift false (loop n' p')
       | XH -> one)
  in loop (S (S (S (S (S (S (S (S O))))))))

(** val ascii_of_N : n -> char **)

let ascii_of_N = function
| N0 -> zero
| Npos p -> ascii_of_pos p

(** val ascii_of_nat : nat -> char **)

let ascii_of_nat a =
  ascii_of_N (N.of_nat a)

(** val n_of_digits : bool list -> n **)

let rec n_of_digits = function
| [] -> N0
| b :: l' ->
  N.add (if b then Npos XH else N0) (N.mul (Npos (XO XH)) (n_of_digits l'))

(** val n_of_ascii : char -> n **)

let n_of_ascii a =
  (* If this appears, you're using Ascii internals. Please don't *)
 (fun f c ->
  let n = Char.code c in
  let h i = (n land (1 lsl i)) <> 0 in
  f (h 0) (h 1) (h 2) (h 3) (h 4) (h 5) (h 6) (h 7))
    (fun a0 a1 a2 a3 a4 a5 a6 a7 ->
    n_of_digits
      (a0 :: (a1 :: (a2 :: (a3 :: (a4 :: (a5 :: (a6 :: (a7 :: [])))))))))
    a

(** val nat_of_ascii : char -> nat **)

let nat_of_ascii a =
  N.to_nat (n_of_ascii a)

(** val rev0 : 'a1 list -> 'a1 list **)

let rec rev0 = function
| [] -> []
| x :: l' -> app (rev0 l') (x :: [])

(** val concat : 'a1 list list -> 'a1 list **)

let rec concat = function
| [] -> []
| x :: l0 -> app x (concat l0)

(** val list_eq_dec : ('a1 -> 'a1 -> bool) -> 'a1 list -> 'a1 list -> bool **)

let rec list_eq_dec eq_dec l l' =
  match l with
  | [] -> (match l' with
           | [] -> true
           | _ :: _ -> false)
  | y :: l0 ->
    (match l' with
     | [] -> false
     | a :: l1 -> if eq_dec y a then list_eq_dec eq_dec l0 l1 else false)

(** val map : ('a1 -> 'a2) -> 'a1 list -> 'a2 list **)

let rec map f = function
| [] -> []
| a :: t -> (f a) :: (map f t)

(** val flat_map : ('a1 -> 'a2 list) -> 'a1 list -> 'a2 list **)

let rec flat_map f = function
| [] -> []
| x :: t -> app (f x) (flat_map f t)

(** val fold_left : ('a1 -> 'a2 -> 'a1) -> 'a2 list -> 'a1 -> 'a1 **)

let rec fold_left f l a0 =
  match l with
  | [] -> a0
  | b :: t -> fold_left f t (f a0 b)

(** val existsb : ('a1 -> bool) -> 'a1 list -> bool **)

let rec existsb f = function
| [] -> false
| a :: l0 -> (||) (f a) (existsb f l0)

(** val forallb : ('a1 -> bool) -> 'a1 list -> bool **)

let rec forallb f = function
| [] -> true
| a :: l0 -> (&&) (f a) (forallb f l0)

(** val firstn : nat -> 'a1 list -> 'a1 list **)

let rec firstn n0 l =
  match n0 with
  | O -> []
  | S n1 -> (match l with
             | [] -> []
             | a :: l0 -> a :: (firstn n1 l0))

(** val skipn : nat -> 'a1 list -> 'a1 list **)

let rec skipn n0 l =
  match n0 with
  | O -> l
  | S n1 -> (match l with
             | [] -> []
             | _ :: l0 -> skipn n1 l0)

module Z =
 struct
  (** val double : z -> z **)

  let double = function
  | Z0 -> Z0
  | Zpos p -> Zpos (XO p)
  | Zneg p -> Zneg (XO p)

  (** val succ_double : z -> z **)

  let succ_double = function
  | Z0 -> Zpos XH
  | Zpos p -> Zpos (XI p)
  | Zneg p -> Zneg (Pos.pred_double p)

  (** val pred_double : z -> z **)

  let pred_double = function
  | Z0 -> Zneg XH
  | Zpos p -> Zpos (Pos.pred_double p)
  | Zneg p -> Zneg (XI p)

  (** val pos_sub : positive -> positive -> z **)

  let rec pos_sub x y =
    match x with
    | XI p ->
      (match y with
       | XI q -> double (pos_sub p q)
       | XO q -> succ_double (pos_sub p q)
       | XH -> Zpos (XO p))
    | XO p ->
      (match y with
       | XI q -> pred_double (pos_sub p q)
       | XO q -> double (pos_sub p q)
       | XH -> Zpos (Pos.pred_double p))
    | XH ->
      (match y with
       | XI q -> Zneg (XO q)
       | XO q -> Zneg (Pos.pred_double q)
       | XH -> Z0)

  (** val add : z -> z -> z **)

  let add x y =
    match x with
    | Z0 -> y
    | Zpos x' ->
      (match y with
       | Z0 -> x
       | Zpos y' -> Zpos (Pos.add x' y')
       | Zneg y' -> pos_sub x' y')
    | Zneg x' ->
      (match y with
       | Z0 -> x
       | Zpos y' -> pos_sub y' x'
       | Zneg y' -> Zneg (Pos.add x' y'))

  (** val opp : z -> z **)

  let opp = function
  | Z0 -> Z0
  | Zpos x0 -> Zneg x0
  | Zneg x0 -> Zpos x0

  (** val sub : z -> z -> z **)

  let sub m n0 =
    add m (opp n0)

  (** val mul : z -> z -> z **)

  let mul x y =
    match x with
    | Z0 -> Z0
    | Zpos x' ->
      (match y with
       | Z0 -> Z0
       | Zpos y' -> Zpos (Pos.mul x' y')
       | Zneg y' -> Zneg (Pos.mul x' y'))
    | Zneg x' ->
      (match y with
       | Z0 -> Z0
       | Zpos y' -> Zneg (Pos.mul x' y')
       | Zneg y' -> Zpos (Pos.mul x' y'))

  (** val pow_pos : z -> positive -> z **)

  let pow_pos z0 =
    Pos.iter (mul z0) (Zpos XH)

  (** val pow : z -> z -> z **)

  let pow x = function
  | Z0 -> Zpos XH
  | Zpos p -> pow_pos x p
  | Zneg _ -> Z0

  (** val compare : z -> z -> comparison **)

  let compare x y =
    match x with
    | Z0 -> (match y with
             | Z0 -> Eq
             | Zpos _ -> Lt
             | Zneg _ -> Gt)
    | Zpos x' -> (match y with
                  | Zpos y' -> Pos.compare x' y'
                  | _ -> Gt)
    | Zneg x' ->
      (match y with
       | Zneg y' -> compOpp (Pos.compare x' y')
       | _ -> Lt)

  (** val leb : z -> z -> bool **)

  let leb x y =
    match compare x y with
    | Gt -> false
    | _ -> true

  (** val eqb : z -> z -> bool **)

  let eqb x y =
    match x with
    | Z0 -> (match y with
             | Z0 -> true
             | _ -> false)
    | Zpos p -> (match y with
                 | Zpos q -> Pos.eqb p q
                 | _ -> false)
    | Zneg p -> (match y with
                 | Zneg q -> Pos.eqb p q
                 | _ -> false)

  (** val max : z -> z -> z **)

  let max n0 m =
    match compare n0 m with
    | Lt -> m
    | _ -> n0

  (** val min : z -> z -> z **)

  let min n0 m =
    match compare n0 m with
    | Gt -> m
    | _ -> n0

  (** val abs : z -> z **)

  let abs = function
  | Zneg p -> Zpos p
  | x -> x

  (** val to_nat : z -> nat **)

  let to_nat = function
  | Zpos p -> Pos.to_nat p
  | _ -> O

  (** val of_nat : nat -> z **)

  let of_nat = function
  | O -> Z0
  | S n1 -> Zpos (Pos.of_succ_nat n1)
 end

(** val list_ascii_of_string : char list -> char list **)

let rec list_ascii_of_string = function
| [] -> []
| ch::s0 -> ch :: (list_ascii_of_string s0)

module NilEmpty =
 struct
  (** val string_of_uint : uint -> char list **)

  let rec string_of_uint = function
  | Nil -> []
  | D0 d0 -> '0'::(string_of_uint d0)
  | D1 d0 -> '1'::(string_of_uint d0)
  | D2 d0 -> '2'::(string_of_uint d0)
  | D3 d0 -> '3'::(string_of_uint d0)
  | D4 d0 -> '4'::(string_of_uint d0)
  | D5 d0 -> '5'::(string_of_uint d0)
  | D6 d0 -> '6'::(string_of_uint d0)
  | D7 d0 -> '7'::(string_of_uint d0)
  | D8 d0 -> '8'::(string_of_uint d0)
  | D9 d0 -> '9'::(string_of_uint d0)
 end

module NilZero =
 struct
  (** val string_of_uint : uint -> char list **)

  let string_of_uint d = match d with
  | Nil -> '0'::[]
  | _ -> NilEmpty.string_of_uint d
 end

type str = char list

(** val lit : char list -> str **)

let lit =
  list_ascii_of_string

(** val code_of : char -> nat **)

let code_of =
  nat_of_ascii

(** val is_id_start : char -> bool **)

let is_id_start c =
  let n0 = code_of c in
  (||)
    ((||)
      (Nat.eqb n0 (S (S (S (S (S (S (S (S (S (S (S (S (S (S (S (S (S (S (S (S
        (S (S (S (S (S (S (S (S (S (S (S (S (S (S (S (S (S (S (S (S (S (S (S
        (S (S (S (S (S (S (S (S (S (S (S (S (S (S (S (S (S (S (S (S (S (S (S
        (S (S (S (S (S (S (S (S (S (S (S (S (S (S (S (S (S (S (S (S (S (S (S
        (S (S (S (S (S (S
        O))))))))))))))))))))))))))))))))))))))))))))))))))))))))))))))))))))))))))))))))))))))))))))))))
      ((&&)
        (Nat.leb (S (S (S (S (S (S (S (S (S (S (S (S (S (S (S (S (S (S (S (S
          (S (S (S (S (S (S (S (S (S (S (S (S (S (S (S (S (S (S (S (S (S (S
          (S (S (S (S (S (S (S (S (S (S (S (S (S (S (S (S (S (S (S (S (S (S
          (S
          O)))))))))))))))))))))))))))))))))))))))))))))))))))))))))))))))))
          n0)
        (Nat.leb n0 (S (S (S (S (S (S (S (S (S (S (S (S (S (S (S (S (S (S (S
          (S (S (S (S (S (S (S (S (S (S (S (S (S (S (S (S (S (S (S (S (S (S
          (S (S (S (S (S (S (S (S (S (S (S (S (S (S (S (S (S (S (S (S (S (S
          (S (S (S (S (S (S (S (S (S (S (S (S (S (S (S (S (S (S (S (S (S (S
          (S (S (S (S (S
          O)))))))))))))))))))))))))))))))))))))))))))))))))))))))))))))))))))))))))))))))))))))))))))))
    ((&&)
      (Nat.leb (S (S (S (S (S (S (S (S (S (S (S (S (S (S (S (S (S (S (S (S (S
        (S (S (S (S (S (S (S (S (S (S (S (S (S (S (S (S (S (S (S (S (S (S (S
        (S (S (S (S (S (S (S (S (S (S (S (S (S (S (S (S (S (S (S (S (S (S (S
        (S (S (S (S (S (S (S (S (S (S (S (S (S (S (S (S (S (S (S (S (S (S (S
        (S (S (S (S (S (S (S
        O)))))))))))))))))))))))))))))))))))))))))))))))))))))))))))))))))))))))))))))))))))))))))))))))))
        n0)
      (Nat.leb n0 (S (S (S (S (S (S (S (S (S (S (S (S (S (S (S (S (S (S (S (S
        (S (S (S (S (S (S (S (S (S (S (S (S (S (S (S (S (S (S (S (S (S (S (S
        (S (S (S (S (S (S (S (S (S (S (S (S (S (S (S (S (S (S (S (S (S (S (S
        (S (S (S (S (S (S (S (S (S (S (S (S (S (S (S (S (S (S (S (S (S (S (S
        (S (S (S (S (S (S (S (S (S (S (S (S (S (S (S (S (S (S (S (S (S (S (S
        (S (S (S (S (S (S (S (S (S (S
        O))))))))))))))))))))))))))))))))))))))))))))))))))))))))))))))))))))))))))))))))))))))))))))))))))))))))))))))))))))))))))))

(** val is_digit : char -> bool **)

let is_digit c =
  let n0 = code_of c in
  (&&)
    (Nat.leb (S (S (S (S (S (S (S (S (S (S (S (S (S (S (S (S (S (S (S (S (S
      (S (S (S (S (S (S (S (S (S (S (S (S (S (S (S (S (S (S (S (S (S (S (S (S
      (S (S (S O)))))))))))))))))))))))))))))))))))))))))))))))) n0)
    (Nat.leb n0 (S (S (S (S (S (S (S (S (S (S (S (S (S (S (S (S (S (S (S (S
      (S (S (S (S (S (S (S (S (S (S (S (S (S (S (S (S (S (S (S (S (S (S (S (S
      (S (S (S (S (S (S (S (S (S (S (S (S (S
      O))))))))))))))))))))))))))))))))))))))))))))))))))))))))))

(** val is_id_char : char -> bool **)

let is_id_char c =
  (||) (is_id_start c) (is_digit c)

(** val ascii_eqb : char -> char -> bool **)

let ascii_eqb a b =
  Nat.eqb (code_of a) (code_of b)

(** val take_while : (char -> bool) -> str -> str **)

let rec take_while p = function
| [] -> []
| c :: r -> if p c then c :: (take_while p r) else []

(** val drop_while : (char -> bool) -> str -> str **)

let rec drop_while p l = match l with
| [] -> []
| c :: r -> if p c then drop_while p r else l

(** val find_close : str -> str option **)

let rec find_close = function
| [] -> None
| c :: r ->
  if ascii_eqb c ']'
  then Some []
  else if Nat.eqb (code_of c) (S (S (S (S (S (S (S (S (S (S O))))))))))
       then None
       else (match find_close r with
             | Some i -> Some (c :: i)
             | None -> None)

(** val match_here : str -> ((str * str) * nat) option **)

let match_here = function
| [] -> None
| c :: r ->
  if is_id_start c
  then let name = c :: (take_while is_id_char r) in
       (match drop_while is_id_char r with
        | [] -> None
        | b :: r2 ->
          if ascii_eqb b '['
          then (match find_close r2 with
                | Some idx ->
                  Some ((name, idx),
                    (add (add (add (length name) (S O)) (length idx)) (S O)))
                | None -> None)
          else None)
  else None

type seg = (str * str) * str

(** val scan : nat -> str -> seg list * str **)

let rec scan fuel l =
  match fuel with
  | O -> ([], l)
  | S f ->
    (match l with
     | [] -> ([], l)
     | c :: r ->
       (match match_here l with
        | Some p ->
          let (p0, len) = p in
          let (name, idx) = p0 in
          let (sg, tl) = scan f (skipn len l) in
          (((([], name), idx) :: sg), tl)
        | None ->
          let (sg, tl) = scan f r in
          (match sg with
           | [] -> ([], (c :: tl))
           | s :: sg' ->
             let (p, i) = s in
             let (g, n0) = p in (((((c :: g), n0), i) :: sg'), tl))))

(** val segments : str -> seg list * str **)

let segments l =
  scan (length l) l

(** val spans : nat -> seg list -> (((nat * nat) * str) * str) list **)

let rec spans pos = function
| [] -> []
| s :: r ->
  let (p, i) = s in
  let (g, n0) = p in
  let st = add pos (length g) in
  let en = add (add (add (add st (length n0)) (S O)) (length i)) (S O) in
  (((st, en), n0), i) :: (spans en r)

(** val str_eqb : str -> str -> bool **)

let str_eqb a b =
  if list_eq_dec (=) a b then true else false

(** val number_of_from : nat -> str list -> str -> nat option **)

let rec number_of_from k names x =
  match names with
  | [] -> None
  | y :: r ->
    (match number_of_from (S k) r x with
     | Some j -> Some j
     | None -> if str_eqb x y then Some k else None)

(** val number_of : str list -> str -> nat option **)

let number_of names x =
  number_of_from (S O) names x

(** val index_of_from : nat -> str list -> str -> nat option **)

let rec index_of_from k names x =
  match names with
  | [] -> None
  | y :: r -> if str_eqb x y then Some k else index_of_from (S k) r x

(** val index_of : str list -> str -> nat option **)

let index_of names x =
  index_of_from O names x

(** val dec : nat -> str **)

let dec n0 =
  lit (NilZero.string_of_uint (Nat.to_uint n0))

(** val replace_t : str -> str **)

let rec replace_t = function
| [] -> []
| c :: r ->
  if ascii_eqb c 't'
  then app (lit ('i'::('n'::('d'::('e'::('x'::[])))))) (replace_t r)
  else c :: (replace_t r)

(** val term_f : nat -> str -> str **)

let term_f n0 idx =
  app
    (lit
      ('s'::('o'::('l'::('v'::('e'::('d'::('_'::('v'::('a'::('l'::('u'::('e'::('s'::('('::[])))))))))))))))
    (app (dec n0)
      (app (lit (','::(' '::[]))) (app (replace_t idx) (lit (')'::[])))))

(** val splice : str -> nat -> nat -> str -> str **)

let splice code st en repl =
  app (firstn st code) (app repl (skipn en code))

(** val rewrite_step :
    str list -> str option -> (((nat * nat) * str) * str) -> str option **)

let rewrite_step names acc = function
| (p, i) ->
  let (p0, n0) = p in
  let (st, en) = p0 in
  (match acc with
   | Some code ->
     (match number_of names n0 with
      | Some k -> Some (splice code st en (term_f k i))
      | None -> None)
   | None -> None)

(** val rewrite : str list -> str -> str option **)

let rewrite names eq =
  fold_left (rewrite_step names) (rev0 (spans O (fst (segments eq)))) (Some
    eq)

(** val stream : str list -> seg list -> str -> str option **)

let rec stream names sg tl =
  match sg with
  | [] -> Some tl
  | s :: r ->
    let (p, i) = s in
    let (g, n0) = p in
    (match number_of names n0 with
     | Some k ->
       (match stream names r tl with
        | Some rest -> Some (app g (app (term_f k i) rest))
        | None -> None)
     | None -> None)

(** val nl : char **)

let nl =
  ascii_of_nat (S (S (S (S (S (S (S (S (S (S O))))))))))

(** val join : str -> str list -> str **)

let rec join sep = function
| [] -> []
| x :: r -> (match r with
             | [] -> x
             | _ :: _ -> app x (app sep (join sep r)))

(** val is_space : char -> bool **)

let is_space c =
  existsb (Nat.eqb (code_of c)) ((S (S (S (S (S (S (S (S (S O))))))))) :: ((S
    (S (S (S (S (S (S (S (S (S O)))))))))) :: ((S (S (S (S (S (S (S (S (S (S
    (S O))))))))))) :: ((S (S (S (S (S (S (S (S (S (S (S (S
    O)))))))))))) :: ((S (S (S (S (S (S (S (S (S (S (S (S (S
    O))))))))))))) :: ((S (S (S (S (S (S (S (S (S (S (S (S (S (S (S (S (S (S
    (S (S (S (S (S (S (S (S (S (S O)))))))))))))))))))))))))))) :: ((S (S (S
    (S (S (S (S (S (S (S (S (S (S (S (S (S (S (S (S (S (S (S (S (S (S (S (S
    (S (S O))))))))))))))))))))))))))))) :: ((S (S (S (S (S (S (S (S (S (S (S
    (S (S (S (S (S (S (S (S (S (S (S (S (S (S (S (S (S (S (S
    O)))))))))))))))))))))))))))))) :: ((S (S (S (S (S (S (S (S (S (S (S (S
    (S (S (S (S (S (S (S (S (S (S (S (S (S (S (S (S (S (S (S
    O))))))))))))))))))))))))))))))) :: ((S (S (S (S (S (S (S (S (S (S (S (S
    (S (S (S (S (S (S (S (S (S (S (S (S (S (S (S (S (S (S (S (S
    O)))))))))))))))))))))))))))))))) :: ((S (S (S (S (S (S (S (S (S (S (S (S
    (S (S (S (S (S (S (S (S (S (S (S (S (S (S (S (S (S (S (S (S (S (S (S (S
    (S (S (S (S (S (S (S (S (S (S (S (S (S (S (S (S (S (S (S (S (S (S (S (S
    (S (S (S (S (S (S (S (S (S (S (S (S (S (S (S (S (S (S (S (S (S (S (S (S
    (S (S (S (S (S (S (S (S (S (S (S (S (S (S (S (S (S (S (S (S (S (S (S (S
    (S (S (S (S (S (S (S (S (S (S (S (S (S (S (S (S (S (S (S (S (S (S (S (S
    (S
    O))))))))))))))))))))))))))))))))))))))))))))))))))))))))))))))))))))))))))))))))))))))))))))))))))))))))))))))))))))))))))))))))))))) :: ((S
    (S (S (S (S (S (S (S (S (S (S (S (S (S (S (S (S (S (S (S (S (S (S (S (S
    (S (S (S (S (S (S (S (S (S (S (S (S (S (S (S (S (S (S (S (S (S (S (S (S
    (S (S (S (S (S (S (S (S (S (S (S (S (S (S (S (S (S (S (S (S (S (S (S (S
    (S (S (S (S (S (S (S (S (S (S (S (S (S (S (S (S (S (S (S (S (S (S (S (S
    (S (S (S (S (S (S (S (S (S (S (S (S (S (S (S (S (S (S (S (S (S (S (S (S
    (S (S (S (S (S (S (S (S (S (S (S (S (S (S (S (S (S (S (S (S (S (S (S (S
    (S (S (S (S (S (S (S (S (S (S (S (S (S (S (S
    O)))))))))))))))))))))))))))))))))))))))))))))))))))))))))))))))))))))))))))))))))))))))))))))))))))))))))))))))))))))))))))))))))))))))))))))))))))))))))))))))) :: []))))))))))))

(** val split_lines : str -> str -> str list **)

let rec split_lines l cur =
  match l with
  | [] -> (match cur with
           | [] -> []
           | _ :: _ -> (rev0 cur) :: [])
  | c :: r ->
    if Nat.eqb (code_of c) (S (S (S (S (S (S (S (S (S (S O))))))))))
    then (rev0 (c :: cur)) :: (split_lines r [])
    else split_lines r (c :: cur)

(** val indent : str -> str -> str **)

let indent prefix text =
  concat
    (map (fun ln -> if forallb is_space ln then ln else app prefix ln)
      (split_lines text []))

(** val cont_sep : str **)

let cont_sep =
  app (lit (' '::(' '::('&'::[]))))
    (app (nl :: []) (lit ('&'::(' '::(' '::[])))))

(** val block : str -> str list -> str **)

let block equation wrapped =
  indent (lit (' '::(' '::[])))
    (app (lit ('!'::(' '::[])))
      (app equation (app (nl :: []) (join cont_sep wrapped))))

(** val int_array_def : nat list -> str -> str **)

let int_array_def nums name =
  app
    (lit
      ('i'::('n'::('t'::('e'::('g'::('e'::('r'::(','::(' '::('d'::('i'::('m'::('e'::('n'::('s'::('i'::('o'::('n'::('('::[]))))))))))))))))))))
    (app (dec (length nums))
      (app (lit (')'::(' '::(':'::(':'::(' '::[]))))))
        (app name
          (match nums with
           | [] -> []
           | _ :: _ ->
             app (lit (' '::('='::(' '::('('::('/'::(' '::[])))))))
               (app (join (lit (','::(' '::[]))) (map dec nums))
                 (lit (' '::('/'::(')'::[])))))))))

(** val wrapped_def : str list -> str **)

let wrapped_def wrapped =
  indent (lit (' '::(' '::[]))) (join cont_sep wrapped)

(** val zmin_list : z list -> z **)

let zmin_list = function
| [] -> Z0
| x :: r -> fold_left Z.min r x

(** val zmax_list : z list -> z **)

let zmax_list = function
| [] -> Z0
| x :: r -> fold_left Z.max r x

(** val lag_of : z list -> z -> z **)

let lag_of sym_lags min_lags =
  Z.max (Z.abs (zmin_list sym_lags)) min_lags

(** val lead_of : z list -> z -> z **)

let lead_of sym_leads min_leads =
  Z.max (Z.abs (zmax_list sym_leads)) min_leads

(** val idx_text : z -> str **)

let idx_text = function
| Z0 -> lit ('t'::[])
| Zpos q -> app (lit ('t'::('+'::[]))) (dec (Pos.to_nat q))
| Zneg q -> app (lit ('t'::('-'::[]))) (dec (Pos.to_nat q))

(** val f_idx_text : z -> str **)

let f_idx_text = function
| Z0 -> lit ('i'::('n'::('d'::('e'::('x'::[])))))
| Zpos q ->
  app (lit ('i'::('n'::('d'::('e'::('x'::('+'::[]))))))) (dec (Pos.to_nat q))
| Zneg q ->
  app (lit ('i'::('n'::('d'::('e'::('x'::('-'::[]))))))) (dec (Pos.to_nat q))

(** val is_blank : char -> bool **)

let is_blank c =
  Nat.eqb (code_of c) (S (S (S (S (S (S (S (S (S (S (S (S (S (S (S (S (S (S
    (S (S (S (S (S (S (S (S (S (S (S (S (S (S
    O))))))))))))))))))))))))))))))))

(** val plain_lines : str -> str -> str list **)

let rec plain_lines l cur =
  match l with
  | [] -> (rev0 cur) :: []
  | c :: r ->
    if Nat.eqb (code_of c) (S (S (S (S (S (S (S (S (S (S O))))))))))
    then (rev0 cur) :: (plain_lines r [])
    else plain_lines r (c :: cur)

(** val rstrip : str -> str **)

let rstrip l =
  rev0 (drop_while is_blank (rev0 l))

(** val split_cont : str -> str * bool **)

let split_cont l =
  match rev0 (rstrip l) with
  | [] -> (l, false)
  | c :: r -> if ascii_eqb c '&' then ((rev0 r), true) else (l, false)

(** val cont_start : str -> str **)

let cont_start l =
  match drop_while is_blank l with
  | [] -> l
  | c :: r -> if ascii_eqb c '&' then r else l

(** val logical : bool -> str list -> str **)

let rec logical continued = function
| [] -> []
| l :: r ->
  let (body, c) = split_cont (if continued then cont_start l else l) in
  app body (logical c r)

type binop =
| OAdd
| OSub
| OMul
| ODiv
| OPow

type mmop =
| MMax
| MMin

(** val is_mul : binop -> bool **)

let is_mul = function
| OMul -> true
| ODiv -> true
| _ -> false

type sexpr =
| SVar of nat * z
| SInt of z
| SDec of z * nat
| SDec8 of z * nat
| SNeg of sexpr
| SPar of sexpr
| SBin of binop * sexpr * sexpr
| SAbs of sexpr
| SExp of sexpr
| SLog of sexpr
| SMM of mmop * sexpr * sexpr

(** val s_regroup : sexpr -> sexpr **)

let rec s_regroup e = match e with
| SNeg a -> SNeg (s_regroup a)
| SPar a -> SPar (s_regroup a)
| SBin (o, a, b) ->
  let a' = s_regroup a in
  let b' = s_regroup b in
  if is_mul o
  then (match a' with
        | SNeg x -> SNeg (SBin (o, x, b'))
        | _ -> SBin (o, a', b'))
  else SBin (o, a', b')
| SAbs a -> SAbs (s_regroup a)
| SExp a -> SExp (s_regroup a)
| SLog a -> SLog (s_regroup a)
| SMM (m, a, b) -> SMM (m, (s_regroup a), (s_regroup b))
| _ -> e

type tok =
| TInt of z
| TDecT of z * nat
| TDec8 of z * nat
| TId of str
| TPlus
| TMinus
| TStar
| TSlash
| TPow
| TLp
| TRp
| TComma
| TEq

(** val digit_val : char -> z **)

let digit_val c =
  Z.of_nat
    (sub (code_of c) (S (S (S (S (S (S (S (S (S (S (S (S (S (S (S (S (S (S (S
      (S (S (S (S (S (S (S (S (S (S (S (S (S (S (S (S (S (S (S (S (S (S (S (S
      (S (S (S (S (S O)))))))))))))))))))))))))))))))))))))))))))))))))

(** val digits_val : str -> z **)

let digits_val ds =
  fold_left (fun acc c ->
    Z.add (Z.mul acc (Zpos (XO (XI (XO XH))))) (digit_val c)) ds Z0

(** val lex_suffix : str -> (z * bool) * str **)

let lex_suffix l =
  let (p, r1) =
    match l with
    | [] -> ((Z0, false), l)
    | c :: r ->
      if (||)
           ((||) ((||) (ascii_eqb c 'd') (ascii_eqb c 'D')) (ascii_eqb c 'e'))
           (ascii_eqb c 'E')
      then let isd = (||) (ascii_eqb c 'd') (ascii_eqb c 'D') in
           (match r with
            | [] -> ((Z0, false), l)
            | sg :: r2 ->
              if (&&) ((||) (ascii_eqb sg '+') (ascii_eqb sg '-'))
                   (match r2 with
                    | [] -> false
                    | d :: _ -> is_digit d)
              then let ds = take_while is_digit r2 in
                   (((if ascii_eqb sg '-'
                      then Z.opp (digits_val ds)
                      else digits_val ds), isd), (drop_while is_digit r2))
              else if is_digit sg
                   then (((digits_val (take_while is_digit r)), isd),
                          (drop_while is_digit r))
                   else ((Z0, false), l))
      else ((Z0, false), l)
  in
  let (ex, dbl) = p in
  (match r1 with
   | [] -> ((ex, dbl), r1)
   | u :: l0 ->
     (match l0 with
      | [] -> ((ex, dbl), r1)
      | k :: r3 ->
        if (&&) (ascii_eqb u '_') (is_id_char k)
        then let kind = take_while is_id_char (k :: r3) in
             ((ex, (negb (str_eqb kind (lit ('4'::[]))))),
             (drop_while is_id_char (k :: r3)))
        else ((ex, dbl), r1)))

(** val dec_norm : z -> nat -> z -> z * nat **)

let dec_norm m sc ex =
  if Z.leb ex (Z.of_nat sc)
  then (m, (Z.to_nat (Z.sub (Z.of_nat sc) ex)))
  else ((Z.mul m (Z.pow (Zpos (XO (XI (XO XH)))) (Z.sub ex (Z.of_nat sc)))),
         O)

(** val dec_tok : z -> nat -> z -> bool -> tok **)

let dec_tok m sc ex dbl =
  let (m', sc') = dec_norm m sc ex in
  if dbl then TDec8 (m', sc') else TDecT (m', sc')

(** val lex : nat -> str -> tok list option **)

let rec lex fuel l =
  match fuel with
  | O -> (match l with
          | [] -> Some []
          | _ :: _ -> None)
  | S f ->
    (match l with
     | [] -> Some []
     | c :: r ->
       let cons = fun t rest ->
         match lex f rest with
         | Some ts -> Some (t :: ts)
         | None -> None
       in
       if is_blank c
       then lex f r
       else if is_digit c
            then let ds = take_while is_digit l in
                 (match drop_while is_digit l with
                  | [] -> cons (TInt (digits_val ds)) []
                  | d :: r2 ->
                    if ascii_eqb d '.'
                    then let fs = take_while is_digit r2 in
                         let (p, rest) = lex_suffix (drop_while is_digit r2)
                         in
                         let (ex, dbl) = p in
                         cons
                           (dec_tok (digits_val (app ds fs)) (length fs) ex
                             dbl) rest
                    else let (p, rest) = lex_suffix (d :: r2) in
                         let (ex, dbl) = p in
                         if Nat.eqb (length rest) (length (d :: r2))
                         then cons (TInt (digits_val ds)) (d :: r2)
                         else if ascii_eqb d '_'
                              then cons (TInt (digits_val ds)) rest
                              else cons (dec_tok (digits_val ds) O ex dbl)
                                     rest)
            else if ascii_eqb c '.'
                 then (match r with
                       | [] -> None
                       | d :: _ ->
                         if is_digit d
                         then let fs = take_while is_digit r in
                              let (p, rest) =
                                lex_suffix (drop_while is_digit r)
                              in
                              let (ex, dbl) = p in
                              cons
                                (dec_tok (digits_val fs) (length fs) ex dbl)
                                rest
                         else None)
                 else if is_id_start c
                      then cons (TId (c :: (take_while is_id_char r)))
                             (drop_while is_id_char r)
                      else if ascii_eqb c '*'
                           then (match r with
                                 | [] -> cons TStar r
                                 | d :: r2 ->
                                   if ascii_eqb d '*'
                                   then cons TPow r2
                                   else cons TStar r)
                           else if ascii_eqb c '+'
                                then cons TPlus r
                                else if ascii_eqb c '-'
                                     then cons TMinus r
                                     else if ascii_eqb c '/'
                                          then cons TSlash r
                                          else if ascii_eqb c '('
                                               then cons TLp r
                                               else if ascii_eqb c ')'
                                                    then cons TRp r
                                                    else if ascii_eqb c ','
                                                         then cons TComma r
                                                         else if ascii_eqb c
                                                                   '='
                                                              then cons TEq r
                                                              else None)

type pres = (sexpr * tok list) option

(** val p_term : tok list -> pres **)

let p_term = function
| [] -> None
| t :: l ->
  (match t with
   | TInt n0 ->
     (match l with
      | [] -> None
      | t0 :: l0 ->
        (match t0 with
         | TComma ->
           (match l0 with
            | [] -> None
            | t1 :: r ->
              (match t1 with
               | TId idx ->
                 if (&&)
                      (str_eqb idx
                        (lit ('i'::('n'::('d'::('e'::('x'::[])))))))
                      (Z.leb (Zpos XH) n0)
                 then let row = Z.to_nat (Z.sub n0 (Zpos XH)) in
                      (match r with
                       | [] -> None
                       | t2 :: r' ->
                         (match t2 with
                          | TPlus ->
                            (match r' with
                             | [] -> None
                             | t3 :: l1 ->
                               (match t3 with
                                | TInt k ->
                                  (match l1 with
                                   | [] -> None
                                   | t4 :: r'0 ->
                                     (match t4 with
                                      | TRp -> Some ((SVar (row, k)), r'0)
                                      | _ -> None))
                                | _ -> None))
                          | TMinus ->
                            (match r' with
                             | [] -> None
                             | t3 :: l1 ->
                               (match t3 with
                                | TInt k ->
                                  (match l1 with
                                   | [] -> None
                                   | t4 :: r'0 ->
                                     (match t4 with
                                      | TRp ->
                                        Some ((SVar (row, (Z.opp k))), r'0)
                                      | _ -> None))
                                | _ -> None))
                          | TRp -> Some ((SVar (row, Z0)), r')
                          | _ -> None))
                 else None
               | _ -> None))
         | _ -> None))
   | _ -> None)

(** val p_primary : nat -> tok list -> pres **)

let rec p_primary f ts =
  match f with
  | O -> None
  | S f' ->
    (match ts with
     | [] -> None
     | t :: r ->
       (match t with
        | TInt z0 -> Some ((SInt z0), r)
        | TDecT (m, s) -> Some ((SDec (m, s)), r)
        | TDec8 (m, s) -> Some ((SDec8 (m, s)), r)
        | TId name ->
          (match r with
           | [] -> None
           | t0 :: r0 ->
             (match t0 with
              | TLp ->
                if str_eqb name
                     (lit
                       ('s'::('o'::('l'::('v'::('e'::('d'::('_'::('v'::('a'::('l'::('u'::('e'::('s'::[]))))))))))))))
                then p_term r0
                else if str_eqb name (lit ('a'::('b'::('s'::[]))))
                     then (match p_level2 f' r0 with
                           | Some p ->
                             let (e, l) = p in
                             (match l with
                              | [] -> None
                              | t1 :: r' ->
                                (match t1 with
                                 | TRp -> Some ((SAbs e), r')
                                 | _ -> None))
                           | None -> None)
                     else if str_eqb name (lit ('e'::('x'::('p'::[]))))
                          then (match p_level2 f' r0 with
                                | Some p ->
                                  let (e, l) = p in
                                  (match l with
                                   | [] -> None
                                   | t1 :: r' ->
                                     (match t1 with
                                      | TRp -> Some ((SExp e), r')
                                      | _ -> None))
                                | None -> None)
                          else if str_eqb name (lit ('l'::('o'::('g'::[]))))
                               then (match p_level2 f' r0 with
                                     | Some p ->
                                       let (e, l) = p in
                                       (match l with
                                        | [] -> None
                                        | t1 :: r' ->
                                          (match t1 with
                                           | TRp -> Some ((SLog e), r')
                                           | _ -> None))
                                     | None -> None)
                               else if (||)
                                         (str_eqb name
                                           (lit ('m'::('a'::('x'::[])))))
                                         (str_eqb name
                                           (lit ('m'::('i'::('n'::[])))))
                                    then (match p_level2 f' r0 with
                                          | Some p ->
                                            let (a, l) = p in
                                            (match l with
                                             | [] -> None
                                             | t1 :: r1 ->
                                               (match t1 with
                                                | TComma ->
                                                  (match p_level2 f' r1 with
                                                   | Some p0 ->
                                                     let (b, l0) = p0 in
                                                     (match l0 with
                                                      | [] -> None
                                                      | t2 :: r2 ->
                                                        (match t2 with
                                                         | TRp ->
                                                           Some ((SMM
                                                             ((if str_eqb
                                                                    name
                                                                    (lit
                                                                    ('m'::('a'::('x'::[]))))
                                                               then MMax
                                                               else MMin), a,
                                                             b)), r2)
                                                         | _ -> None))
                                                   | None -> None)
                                                | _ -> None))
                                          | None -> None)
                                    else None
              | _ -> None))
        | TLp ->
          (match p_level2 f' r with
           | Some p ->
             let (e, l) = p in
             (match l with
              | [] -> None
              | t0 :: r' ->
                (match t0 with
                 | TRp -> Some ((SPar e), r')
                 | _ -> None))
           | None -> None)
        | _ -> None))

(** val p_mult : nat -> tok list -> pres **)

and p_mult f ts =
  match f with
  | O -> None
  | S f' ->
    (match p_primary f' ts with
     | Some p ->
       let (a, l) = p in
       (match l with
        | [] -> Some (a, [])
        | t :: r ->
          (match t with
           | TPow ->
             (match p_ext_mult f' r with
              | Some p0 -> let (b, r') = p0 in Some ((SBin (OPow, a, b)), r')
              | None -> None)
           | x -> Some (a, (x :: r))))
     | None -> None)

(** val p_ext_mult : nat -> tok list -> pres **)

and p_ext_mult f ts =
  match f with
  | O -> None
  | S f' ->
    (match ts with
     | [] -> p_mult f' ts
     | t :: r ->
       (match t with
        | TMinus ->
          (match p_ext_mult f' r with
           | Some p -> let (e, r') = p in Some ((SNeg e), r')
           | None -> None)
        | _ -> p_mult f' ts))

(** val p_mul_tail : nat -> sexpr -> tok list -> pres **)

and p_mul_tail f acc ts =
  match f with
  | O -> None
  | S f' ->
    (match ts with
     | [] -> Some (acc, ts)
     | t :: r ->
       (match t with
        | TStar ->
          (match p_ext_mult f' r with
           | Some p ->
             let (b, r') = p in p_mul_tail f' (SBin (OMul, acc, b)) r'
           | None -> None)
        | TSlash ->
          (match p_ext_mult f' r with
           | Some p ->
             let (b, r') = p in p_mul_tail f' (SBin (ODiv, acc, b)) r'
           | None -> None)
        | _ -> Some (acc, ts)))

(** val p_add_operand : nat -> tok list -> pres **)

and p_add_operand f ts =
  match f with
  | O -> None
  | S f' ->
    (match p_mult f' ts with
     | Some p -> let (a, r) = p in p_mul_tail f' a r
     | None -> None)

(** val p_ext_add : nat -> tok list -> pres **)

and p_ext_add f ts =
  match f with
  | O -> None
  | S f' ->
    (match ts with
     | [] -> p_add_operand f' ts
     | t :: r ->
       (match t with
        | TMinus ->
          (match p_ext_add f' r with
           | Some p -> let (e, r') = p in Some ((SNeg e), r')
           | None -> None)
        | _ -> p_add_operand f' ts))

(** val p_add_tail : nat -> sexpr -> tok list -> pres **)

and p_add_tail f acc ts =
  match f with
  | O -> None
  | S f' ->
    (match ts with
     | [] -> Some (acc, ts)
     | t :: r ->
       (match t with
        | TPlus ->
          (match p_ext_add f' r with
           | Some p ->
             let (b, r') = p in p_add_tail f' (SBin (OAdd, acc, b)) r'
           | None -> None)
        | TMinus ->
          (match p_ext_add f' r with
           | Some p ->
             let (b, r') = p in p_add_tail f' (SBin (OSub, acc, b)) r'
           | None -> None)
        | _ -> Some (acc, ts)))

(** val p_level2 : nat -> tok list -> pres **)

and p_level2 f ts =
  match f with
  | O -> None
  | S f' ->
    (match ts with
     | [] ->
       (match p_add_operand f' ts with
        | Some p -> let (a, r') = p in p_add_tail f' a r'
        | None -> None)
     | t :: r ->
       (match t with
        | TMinus ->
          (match p_add_operand f' r with
           | Some p -> let (a, r') = p in p_add_tail f' (SNeg a) r'
           | None -> None)
        | _ ->
          (match p_add_operand f' ts with
           | Some p -> let (a, r') = p in p_add_tail f' a r'
           | None -> None)))

(** val parse_tokens : tok list -> (nat * sexpr) option **)

let parse_tokens = function
| [] -> None
| t :: l ->
  (match t with
   | TId name ->
     (match l with
      | [] -> None
      | t0 :: r ->
        (match t0 with
         | TLp ->
           if str_eqb name
                (lit
                  ('s'::('o'::('l'::('v'::('e'::('d'::('_'::('v'::('a'::('l'::('u'::('e'::('s'::[]))))))))))))))
           then (match p_term r with
                 | Some p ->
                   let (s, l0) = p in
                   (match s with
                    | SVar (row, k) ->
                      (match k with
                       | Z0 ->
                         (match l0 with
                          | [] -> None
                          | t1 :: r' ->
                            (match t1 with
                             | TEq ->
                               (match p_level2
                                        (add
                                          (mul (S (S (S (S O)))) (length r'))
                                          (S (S (S (S (S (S (S (S O)))))))))
                                        r' with
                                | Some p0 ->
                                  let (e, l1) = p0 in
                                  (match l1 with
                                   | [] -> Some (row, e)
                                   | _ :: _ -> None)
                                | None -> None)
                             | _ -> None))
                       | _ -> None)
                    | _ -> None)
                 | None -> None)
           else None
         | _ -> None))
   | _ -> None)

(** val parse_stmt : str -> (nat * sexpr) option **)

let parse_stmt l =
  match lex (S (length l)) l with
  | Some ts -> parse_tokens ts
  | None -> None

(** val stmt_of_block : str -> str **)

let stmt_of_block blk =
  logical false (match plain_lines blk [] with
                 | [] -> []
                 | _ :: code -> code)

(** val sexpr_eqb : sexpr -> sexpr -> bool **)

let rec sexpr_eqb a b =
  match a with
  | SVar (i, k) ->
    (match b with
     | SVar (j, l) -> (&&) (Nat.eqb i j) (Z.eqb k l)
     | _ -> false)
  | SInt x -> (match b with
               | SInt y -> Z.eqb x y
               | _ -> false)
  | SDec (m, s) ->
    (match b with
     | SDec (m', s') -> (&&) (Z.eqb m m') (Nat.eqb s s')
     | _ -> false)
  | SDec8 (m, s) ->
    (match b with
     | SDec8 (m', s') -> (&&) (Z.eqb m m') (Nat.eqb s s')
     | _ -> false)
  | SNeg x -> (match b with
               | SNeg y -> sexpr_eqb x y
               | _ -> false)
  | SPar x -> (match b with
               | SPar y -> sexpr_eqb x y
               | _ -> false)
  | SBin (o, x1, x2) ->
    (match b with
     | SBin (o', y1, y2) ->
       (&&)
         ((&&)
           (match o with
            | OAdd -> (match o' with
                       | OAdd -> true
                       | _ -> false)
            | OSub -> (match o' with
                       | OSub -> true
                       | _ -> false)
            | OMul -> (match o' with
                       | OMul -> true
                       | _ -> false)
            | ODiv -> (match o' with
                       | ODiv -> true
                       | _ -> false)
            | OPow -> (match o' with
                       | OPow -> true
                       | _ -> false)) (sexpr_eqb x1 y1)) (sexpr_eqb x2 y2)
     | _ -> false)
  | SAbs x -> (match b with
               | SAbs y -> sexpr_eqb x y
               | _ -> false)
  | SExp x -> (match b with
               | SExp y -> sexpr_eqb x y
               | _ -> false)
  | SLog x -> (match b with
               | SLog y -> sexpr_eqb x y
               | _ -> false)
  | SMM (m, x1, x2) ->
    (match b with
     | SMM (m', y1, y2) ->
       (&&)
         ((&&)
           (match m with
            | MMax -> (match m' with
                       | MMax -> true
                       | MMin -> false)
            | MMin -> (match m' with
                       | MMax -> false
                       | MMin -> true)) (sexpr_eqb x1 y1)) (sexpr_eqb x2 y2)
     | _ -> false)

(** val block_matches : str -> nat -> sexpr -> bool **)

let block_matches blk row tree =
  match parse_stmt (stmt_of_block blk) with
  | Some p ->
    let (r, e) = p in (&&) (Nat.eqb r row) (sexpr_eqb e (s_regroup tree))
  | None -> false

(** val all_blank : str -> bool **)

let all_blank c =
  forallb is_blank c

(** val chunks_from : str -> str -> bool -> str list **)

let rec chunks_from l cur blank =
  match l with
  | [] -> (match cur with
           | [] -> []
           | _ :: _ -> (rev0 cur) :: [])
  | c :: r ->
    if eqb (is_blank c) blank
    then chunks_from r (c :: cur) blank
    else (match cur with
          | [] -> chunks_from r (c :: []) (is_blank c)
          | _ :: _ -> (rev0 cur) :: (chunks_from r (c :: []) (is_blank c)))

(** val chunks_of : str -> str list **)

let chunks_of l =
  chunks_from l [] false

(** val fill :
    nat -> nat -> str list -> str list -> (str list * nat) * str list **)

let rec fill width cur_len cur chs = match chs with
| [] -> ((cur, cur_len), [])
| c :: r ->
  if Nat.leb (add cur_len (length c)) width
  then fill width (add cur_len (length c)) (c :: cur) r
  else ((cur, cur_len), chs)

(** val wrap_round : nat -> bool -> str list -> str list * str list **)

let wrap_round width first chs =
  let chs1 =
    match chs with
    | [] -> []
    | c :: r -> if (&&) (negb first) (all_blank c) then r else chs
  in
  let (p, rest) = fill width O [] chs1 in
  let (cur, _) = p in
  (match rest with
   | [] ->
     let cur3 =
       match cur with
       | [] -> []
       | c :: r -> if all_blank c then r else cur
     in
     ((rev0 cur3), rest)
   | c :: r ->
     if (&&) (Nat.ltb width (length c))
          (match cur with
           | [] -> true
           | _ :: _ -> false)
     then let cur2 = c :: cur in
          let cur3 =
            match cur2 with
            | [] -> []
            | c0 :: r0 -> if all_blank c0 then r0 else cur2
          in
          ((rev0 cur3), r)
     else let cur3 =
            match cur with
            | [] -> []
            | c0 :: r0 -> if all_blank c0 then r0 else cur
          in
          ((rev0 cur3), rest))

(** val wrap_chunks : nat -> nat -> bool -> str list -> str list list **)

let rec wrap_chunks fuel width first chs =
  match fuel with
  | O -> []
  | S f ->
    (match chs with
     | [] -> []
     | _ :: _ ->
       let (line, rest) = wrap_round width first chs in
       (match line with
        | [] -> wrap_chunks f width first rest
        | _ :: _ -> line :: (wrap_chunks f width false rest)))

(** val wrap_words : nat -> str -> str list **)

let wrap_words width text =
  map concat
    (wrap_chunks (add (mul (S (S O)) (length text)) (S (S O))) width true
      (chunks_of text))

(** val is_cut_char : char -> bool **)

let is_cut_char c =
  (||) ((||) (ascii_eqb c '(') (ascii_eqb c ')')) (ascii_eqb c ',')

(** val rfind_cut : str -> nat -> nat -> nat option -> nat option **)

let rec rfind_cut l pos limit best =
  match l with
  | [] -> best
  | c :: r ->
    if Nat.ltb pos limit
    then rfind_cut r (S pos) limit (if is_cut_char c then Some pos else best)
    else best

(** val split_long : nat -> nat -> str -> str list **)

let rec split_long fuel width line =
  match fuel with
  | O -> line :: []
  | S f ->
    if Nat.ltb width (length line)
    then (match rfind_cut line O width None with
          | Some h ->
            (firstn (S h) line) :: (split_long f width (skipn (S h) line))
          | None -> line :: [])
    else line :: []

(** val wrap : nat -> str -> str list **)

let wrap width text =
  flat_map (fun line -> split_long (length line) width line)
    (wrap_words width text)

(** val equation_block : str list -> nat -> str -> str option **)

let equation_block names width eq =
  match rewrite names eq with
  | Some code -> Some (block eq (wrap width code))
  | None -> None

(** val array_def_block : nat -> nat list -> str -> str **)

let array_def_block width nums name =
  wrapped_def (wrap width (int_array_def nums name))
