
(** val negb : bool -> bool **)

let negb = function
| true -> false
| false -> true

type nat =
| O
| S of nat

(** val option_map : ('a1 -> 'a2) -> 'a1 option -> 'a2 option **)

let option_map f = function
| Some a -> Some (f a)
| None -> None

(** val fst : ('a1 * 'a2) -> 'a1 **)

let fst = function
| (x, _) -> x

(** val snd : ('a1 * 'a2) -> 'a2 **)

let snd = function
| (_, y) -> y

(** val length : 'a1 list -> nat **)

let rec length = function
| [] -> O
| _ :: l' -> S (length l')

(** val app : 'a1 list -> 'a1 list -> 'a1 list **)

let rec app l m =
  match l with
  | [] -> m
  | a :: l1 -> a :: (app l1 m)

type comparison =
| Eq
| Lt
| Gt

(** val compOpp : comparison -> comparison **)

let compOpp = function
| Eq -> Eq
| Lt -> Gt
| Gt -> Lt

type uint =
| Nil
| D0 of uint
| D1 of uint
| D2 of uint
| D3 of uint
| D4 of uint
| D5 of uint
| D6 of uint
| D7 of uint
| D8 of uint
| D9 of uint

type signed_int =
| Pos of uint
| Neg of uint

(** val revapp : uint -> uint -> uint **)

let rec revapp d d' =
  match d with
  | Nil -> d'
  | D0 d0 -> revapp d0 (D0 d')
  | D1 d0 -> revapp d0 (D1 d')
  | D2 d0 -> revapp d0 (D2 d')
  | D3 d0 -> revapp d0 (D3 d')
  | D4 d0 -> revapp d0 (D4 d')
  | D5 d0 -> revapp d0 (D5 d')
  | D6 d0 -> revapp d0 (D6 d')
  | D7 d0 -> revapp d0 (D7 d')
  | D8 d0 -> revapp d0 (D8 d')
  | D9 d0 -> revapp d0 (D9 d')

(** val rev : uint -> uint **)

let rev d =
  revapp d Nil

module Little =
 struct
  (** val double : uint -> uint **)

  let rec double = function
  | Nil -> Nil
  | D0 d0 -> D0 (double d0)
  | D1 d0 -> D2 (double d0)
  | D2 d0 -> D4 (double d0)
  | D3 d0 -> D6 (double d0)
  | D4 d0 -> D8 (double d0)
  | D5 d0 -> D0 (succ_double d0)
  | D6 d0 -> D2 (succ_double d0)
  | D7 d0 -> D4 (succ_double d0)
  | D8 d0 -> D6 (succ_double d0)
  | D9 d0 -> D8 (succ_double d0)

  (** val succ_double : uint -> uint **)

  and succ_double = function
  | Nil -> D1 Nil
  | D0 d0 -> D1 (double d0)
  | D1 d0 -> D3 (double d0)
  | D2 d0 -> D5 (double d0)
  | D3 d0 -> D7 (double d0)
  | D4 d0 -> D9 (double d0)
  | D5 d0 -> D1 (succ_double d0)
  | D6 d0 -> D3 (succ_double d0)
  | D7 d0 -> D5 (succ_double d0)
  | D8 d0 -> D7 (succ_double d0)
  | D9 d0 -> D9 (succ_double d0)
 end

module Coq__1 = struct
 (** val add : nat -> nat -> nat **)
 let rec add n0 m =
   match n0 with
   | O -> m
   | S p -> S (add p m)
end
include Coq__1

(** val mul : nat -> nat -> nat **)

let rec mul n0 m =
  match n0 with
  | O -> O
  | S p -> add m (mul p m)

(** val sub : nat -> nat -> nat **)

let rec sub n0 m =
  match n0 with
  | O -> n0
  | S k -> (match m with
            | O -> n0
            | S l -> sub k l)

type positive =
| XI of positive
| XO of positive
| XH

type n =
| N0
| Npos of positive

type z =
| Z0
| Zpos of positive
| Zneg of positive

module Nat =
 struct
  (** val sub : nat -> nat -> nat **)

  let rec sub n0 m =
    match n0 with
    | O -> n0
    | S k -> (match m with
              | O -> n0
              | S l -> sub k l)

  (** val eqb : nat -> nat -> bool **)

  let rec eqb n0 m =
    match n0 with
    | O -> (match m with
            | O -> true
            | S _ -> false)
    | S n' -> (match m with
               | O -> false
               | S m' -> eqb n' m')

  (** val leb : nat -> nat -> bool **)

  let rec leb n0 m =
    match n0 with
    | O -> true
    | S n' -> (match m with
               | O -> false
               | S m' -> leb n' m')

  (** val ltb : nat -> nat -> bool **)

  let ltb n0 m =
    leb (S n0) m

  (** val min : nat -> nat -> nat **)

  let rec min n0 m =
    match n0 with
    | O -> O
    | S n' -> (match m with
               | O -> O
               | S m' -> S (min n' m'))

  (** val divmod : nat -> nat -> nat -> nat -> nat * nat **)

  let rec divmod x y q u =
    match x with
    | O -> (q, u)
    | S x' ->
      (match u with
       | O -> divmod x' y (S q) y
       | S u' -> divmod x' y q u')

  (** val div : nat -> nat -> nat **)

  let div x y = match y with
  | O -> y
  | S y' -> fst (divmod x y' O y')

  (** val modulo : nat -> nat -> nat **)

  let modulo x = function
  | O -> x
  | S y' -> sub y' (snd (divmod x y' O y'))
 end

module Pos =
 struct
  type mask =
  | IsNul
  | IsPos of positive
  | IsNeg
 end

module Coq_Pos =
 struct
  (** val succ : positive -> positive **)

  let rec succ = function
  | XI p -> XO (succ p)
  | XO p -> XI p
  | XH -> XO XH

  (** val add : positive -> positive -> positive **)

  let rec add x y =
    match x with
    | XI p ->
      (match y with
       | XI q -> XO (add_carry p q)
       | XO q -> XI (add p q)
       | XH -> XO (succ p))
    | XO p ->
      (match y with
       | XI q -> XI (add p q)
       | XO q -> XO (add p q)
       | XH -> XI p)
    | XH -> (match y with
             | XI q -> XO (succ q)
             | XO q -> XI q
             | XH -> XO XH)

  (** val add_carry : positive -> positive -> positive **)

  and add_carry x y =
    match x with
    | XI p ->
      (match y with
       | XI q -> XI (add_carry p q)
       | XO q -> XO (add_carry p q)
       | XH -> XI (succ p))
    | XO p ->
      (match y with
       | XI q -> XO (add_carry p q)
       | XO q -> XI (add p q)
       | XH -> XO (succ p))
    | XH ->
      (match y with
       | XI q -> XI (succ q)
       | XO q -> XO (succ q)
       | XH -> XI XH)

  (** val pred_double : positive -> positive **)

  let rec pred_double = function
  | XI p -> XI (XO p)
  | XO p -> XI (pred_double p)
  | XH -> XH

  type mask = Pos.mask =
  | IsNul
  | IsPos of positive
  | IsNeg

  (** val succ_double_mask : mask -> mask **)

  let succ_double_mask = function
  | IsNul -> IsPos XH
  | IsPos p -> IsPos (XI p)
  | IsNeg -> IsNeg

  (** val double_mask : mask -> mask **)

  let double_mask = function
  | IsPos p -> IsPos (XO p)
  | x0 -> x0

  (** val double_pred_mask : positive -> mask **)

  let double_pred_mask = function
  | XI p -> IsPos (XO (XO p))
  | XO p -> IsPos (XO (pred_double p))
  | XH -> IsNul

  (** val sub_mask : positive -> positive -> mask **)

  let rec sub_mask x y =
    match x with
    | XI p ->
      (match y with
       | XI q -> double_mask (sub_mask p q)
       | XO q -> succ_double_mask (sub_mask p q)
       | XH -> IsPos (XO p))
    | XO p ->
      (match y with
       | XI q -> succ_double_mask (sub_mask_carry p q)
       | XO q -> double_mask (sub_mask p q)
       | XH -> IsPos (pred_double p))
    | XH -> (match y with
             | XH -> IsNul
             | _ -> IsNeg)

  (** val sub_mask_carry : positive -> positive -> mask **)

  and sub_mask_carry x y =
    match x with
    | XI p ->
      (match y with
       | XI q -> succ_double_mask (sub_mask_carry p q)
       | XO q -> double_mask (sub_mask p q)
       | XH -> IsPos (pred_double p))
    | XO p ->
      (match y with
       | XI q -> double_mask (sub_mask_carry p q)
       | XO q -> succ_double_mask (sub_mask_carry p q)
       | XH -> double_pred_mask p)
    | XH -> IsNeg

  (** val mul : positive -> positive -> positive **)

  let rec mul x y =
    match x with
    | XI p -> add y (XO (mul p y))
    | XO p -> XO (mul p y)
    | XH -> y

  (** val compare_cont : comparison -> positive -> positive -> comparison **)

  let rec compare_cont r x y =
    match x with
    | XI p ->
      (match y with
       | XI q -> compare_cont r p q
       | XO q -> compare_cont Gt p q
       | XH -> Gt)
    | XO p ->
      (match y with
       | XI q -> compare_cont Lt p q
       | XO q -> compare_cont r p q
       | XH -> Gt)
    | XH -> (match y with
             | XH -> r
             | _ -> Lt)

  (** val compare : positive -> positive -> comparison **)

  let compare =
    compare_cont Eq

  (** val eqb : positive -> positive -> bool **)

  let rec eqb p q =
    match p with
    | XI p0 -> (match q with
                | XI q0 -> eqb p0 q0
                | _ -> false)
    | XO p0 -> (match q with
                | XO q0 -> eqb p0 q0
                | _ -> false)
    | XH -> (match q with
             | XH -> true
             | _ -> false)

  (** val iter_op : ('a1 -> 'a1 -> 'a1) -> positive -> 'a1 -> 'a1 **)

  let rec iter_op op p a =
    match p with
    | XI p0 -> op a (iter_op op p0 (op a a))
    | XO p0 -> iter_op op p0 (op a a)
    | XH -> a

  (** val to_nat : positive -> nat **)

  let to_nat x =
    iter_op Coq__1.add x (S O)

  (** val of_succ_nat : nat -> positive **)

  let rec of_succ_nat = function
  | O -> XH
  | S x -> succ (of_succ_nat x)

  (** val of_uint_acc : uint -> positive -> positive **)

  let rec of_uint_acc d acc =
    match d with
    | Nil -> acc
    | D0 l -> of_uint_acc l (mul (XO (XI (XO XH))) acc)
    | D1 l -> of_uint_acc l (add XH (mul (XO (XI (XO XH))) acc))
    | D2 l -> of_uint_acc l (add (XO XH) (mul (XO (XI (XO XH))) acc))
    | D3 l -> of_uint_acc l (add (XI XH) (mul (XO (XI (XO XH))) acc))
    | D4 l -> of_uint_acc l (add (XO (XO XH)) (mul (XO (XI (XO XH))) acc))
    | D5 l -> of_uint_acc l (add (XI (XO XH)) (mul (XO (XI (XO XH))) acc))
    | D6 l -> of_uint_acc l (add (XO (XI XH)) (mul (XO (XI (XO XH))) acc))
    | D7 l -> of_uint_acc l (add (XI (XI XH)) (mul (XO (XI (XO XH))) acc))
    | D8 l ->
      of_uint_acc l (add (XO (XO (XO XH))) (mul (XO (XI (XO XH))) acc))
    | D9 l ->
      of_uint_acc l (add (XI (XO (XO XH))) (mul (XO (XI (XO XH))) acc))

  (** val of_uint : uint -> n **)

  let rec of_uint = function
  | Nil -> N0
  | D0 l -> of_uint l
  | D1 l -> Npos (of_uint_acc l XH)
  | D2 l -> Npos (of_uint_acc l (XO XH))
  | D3 l -> Npos (of_uint_acc l (XI XH))
  | D4 l -> Npos (of_uint_acc l (XO (XO XH)))
  | D5 l -> Npos (of_uint_acc l (XI (XO XH)))
  | D6 l -> Npos (of_uint_acc l (XO (XI XH)))
  | D7 l -> Npos (of_uint_acc l (XI (XI XH)))
  | D8 l -> Npos (of_uint_acc l (XO (XO (XO XH))))
  | D9 l -> Npos (of_uint_acc l (XI (XO (XO XH))))

  (** val to_little_uint : positive -> uint **)

  let rec to_little_uint = function
  | XI p0 -> Little.succ_double (to_little_uint p0)
  | XO p0 -> Little.double (to_little_uint p0)
  | XH -> D1 Nil

  (** val to_uint : positive -> uint **)

  let to_uint p =
    rev (to_little_uint p)
 end

module N =
 struct
  (** val add : n -> n -> n **)

  let add n0 m =
    match n0 with
    | N0 -> m
    | Npos p -> (match m with
                 | N0 -> n0
                 | Npos q -> Npos (Coq_Pos.add p q))

  (** val sub : n -> n -> n **)

  let sub n0 m =
    match n0 with
    | N0 -> N0
    | Npos n' ->
      (match m with
       | N0 -> n0
       | Npos m' ->
         (match Coq_Pos.sub_mask n' m' with
          | Coq_Pos.IsPos p -> Npos p
          | _ -> N0))

  (** val mul : n -> n -> n **)

  let mul n0 m =
    match n0 with
    | N0 -> N0
    | Npos p -> (match m with
                 | N0 -> N0
                 | Npos q -> Npos (Coq_Pos.mul p q))

  (** val compare : n -> n -> comparison **)

  let compare n0 m =
    match n0 with
    | N0 -> (match m with
             | N0 -> Eq
             | Npos _ -> Lt)
    | Npos n' -> (match m with
                  | N0 -> Gt
                  | Npos m' -> Coq_Pos.compare n' m')

  (** val ltb : n -> n -> bool **)

  let ltb x y =
    match compare x y with
    | Lt -> true
    | _ -> false

  (** val to_nat : n -> nat **)

  let to_nat = function
  | N0 -> O
  | Npos p -> Coq_Pos.to_nat p

  (** val of_nat : nat -> n **)

  let of_nat = function
  | O -> N0
  | S n' -> Npos (Coq_Pos.of_succ_nat n')
 end

(** val zero : char **)

let zero = '\000'

(** val one : char **)

let one = '\001'

(** val shift : bool -> char -> char **)

let shift = fun b c -> Char.chr (((Char.code c) lsl 1) land 255 + if b then 1 else 0)

(** val ascii_of_pos : positive -> char **)

let ascii_of_pos =
  let rec loop n0 p =
    match n0 with
    | O -> zero
    | S n' ->
      (match p with
       | XI p' -> shift true (loop n' p')
       | XO p' -> shift false (loop n' p')
       | XH -> one)
  in loop (S (S (S (S (S (S (S (S O))))))))

(** val ascii_of_N : n -> char **)

let ascii_of_N = function
| N0 -> zero
| Npos p -> ascii_of_pos p

(** val ascii_of_nat : nat -> char **)

let ascii_of_nat a =
  ascii_of_N (N.of_nat a)

(** val n_of_digits : bool list -> n **)

let rec n_of_digits = function
| [] -> N0
| b :: l' ->
  N.add (if b then Npos XH else N0) (N.mul (Npos (XO XH)) (n_of_digits l'))

(** val n_of_ascii : char -> n **)

let n_of_ascii a =
  (* If this appears, you're using Ascii internals. Please don't *)
 (fun f c ->
  let n = Char.code c in
  let h i = (n land (1 lsl i)) <> 0 in
  f (h 0) (h 1) (h 2) (h 3) (h 4) (h 5) (h 6) (h 7))
    (fun a0 a1 a2 a3 a4 a5 a6 a7 ->
    n_of_digits
      (a0 :: (a1 :: (a2 :: (a3 :: (a4 :: (a5 :: (a6 :: (a7 :: [])))))))))
    a

(** val nat_of_ascii : char -> nat **)

let nat_of_ascii a =
  N.to_nat (n_of_ascii a)

(** val nth : nat -> 'a1 list -> 'a1 -> 'a1 **)

let rec nth n0 l default =
  match n0 with
  | O -> (match l with
          | [] -> default
          | x :: _ -> x)
  | S m -> (match l with
            | [] -> default
            | _ :: t -> nth m t default)

(** val nth_error : 'a1 list -> nat -> 'a1 option **)

let rec nth_error l = function
| O -> (match l with
        | [] -> None
        | x :: _ -> Some x)
| S n1 -> (match l with
           | [] -> None
           | _ :: l0 -> nth_error l0 n1)

(** val rev0 : 'a1 list -> 'a1 list **)

let rec rev0 = function
| [] -> []
| x :: l' -> app (rev0 l') (x :: [])

(** val concat : 'a1 list list -> 'a1 list **)

let rec concat = function
| [] -> []
| x :: l0 -> app x (concat l0)

(** val map : ('a1 -> 'a2) -> 'a1 list -> 'a2 list **)

let rec map f = function
| [] -> []
| a :: t -> (f a) :: (map f t)

(** val fold_left : ('a1 -> 'a2 -> 'a1) -> 'a2 list -> 'a1 -> 'a1 **)

let rec fold_left f l a0 =
  match l with
  | [] -> a0
  | b :: t -> fold_left f t (f a0 b)

(** val existsb : ('a1 -> bool) -> 'a1 list -> bool **)

let rec existsb f = function
| [] -> false
| a :: l0 -> (||) (f a) (existsb f l0)

(** val filter : ('a1 -> bool) -> 'a1 list -> 'a1 list **)

let rec filter f = function
| [] -> []
| x :: l0 -> if f x then x :: (filter f l0) else filter f l0

(** val seq : nat -> nat -> nat list **)

let rec seq start = function
| O -> []
| S len0 -> start :: (seq (S start) len0)

module Z =
 struct
  (** val double : z -> z **)

  let double = function
  | Z0 -> Z0
  | Zpos p -> Zpos (XO p)
  | Zneg p -> Zneg (XO p)

  (** val succ_double : z -> z **)

  let succ_double = function
  | Z0 -> Zpos XH
  | Zpos p -> Zpos (XI p)
  | Zneg p -> Zneg (Coq_Pos.pred_double p)

  (** val pred_double : z -> z **)

  let pred_double = function
  | Z0 -> Zneg XH
  | Zpos p -> Zpos (Coq_Pos.pred_double p)
  | Zneg p -> Zneg (XI p)

  (** val pos_sub : positive -> positive -> z **)

  let rec pos_sub x y =
    match x with
    | XI p ->
      (match y with
       | XI q -> double (pos_sub p q)
       | XO q -> succ_double (pos_sub p q)
       | XH -> Zpos (XO p))
    | XO p ->
      (match y with
       | XI q -> pred_double (pos_sub p q)
       | XO q -> double (pos_sub p q)
       | XH -> Zpos (Coq_Pos.pred_double p))
    | XH ->
      (match y with
       | XI q -> Zneg (XO q)
       | XO q -> Zneg (Coq_Pos.pred_double q)
       | XH -> Z0)

  (** val add : z -> z -> z **)

  let add x y =
    match x with
    | Z0 -> y
    | Zpos x' ->
      (match y with
       | Z0 -> x
       | Zpos y' -> Zpos (Coq_Pos.add x' y')
       | Zneg y' -> pos_sub x' y')
    | Zneg x' ->
      (match y with
       | Z0 -> x
       | Zpos y' -> pos_sub y' x'
       | Zneg y' -> Zneg (Coq_Pos.add x' y'))

  (** val opp : z -> z **)

  let opp = function
  | Z0 -> Z0
  | Zpos x0 -> Zneg x0
  | Zneg x0 -> Zpos x0

  (** val sub : z -> z -> z **)

  let sub m n0 =
    add m (opp n0)

  (** val mul : z -> z -> z **)

  let mul x y =
    match x with
    | Z0 -> Z0
    | Zpos x' ->
      (match y with
       | Z0 -> Z0
       | Zpos y' -> Zpos (Coq_Pos.mul x' y')
       | Zneg y' -> Zneg (Coq_Pos.mul x' y'))
    | Zneg x' ->
      (match y with
       | Z0 -> Z0
       | Zpos y' -> Zneg (Coq_Pos.mul x' y')
       | Zneg y' -> Zpos (Coq_Pos.mul x' y'))

  (** val compare : z -> z -> comparison **)

  let compare x y =
    match x with
    | Z0 -> (match y with
             | Z0 -> Eq
             | Zpos _ -> Lt
             | Zneg _ -> Gt)
    | Zpos x' -> (match y with
                  | Zpos y' -> Coq_Pos.compare x' y'
                  | _ -> Gt)
    | Zneg x' ->
      (match y with
       | Zneg y' -> compOpp (Coq_Pos.compare x' y')
       | _ -> Lt)

  (** val leb : z -> z -> bool **)

  let leb x y =
    match compare x y with
    | Gt -> false
    | _ -> true

  (** val ltb : z -> z -> bool **)

  let ltb x y =
    match compare x y with
    | Lt -> true
    | _ -> false

  (** val eqb : z -> z -> bool **)

  let eqb x y =
    match x with
    | Z0 -> (match y with
             | Z0 -> true
             | _ -> false)
    | Zpos p -> (match y with
                 | Zpos q -> Coq_Pos.eqb p q
                 | _ -> false)
    | Zneg p -> (match y with
                 | Zneg q -> Coq_Pos.eqb p q
                 | _ -> false)

  (** val max : z -> z -> z **)

  let max n0 m =
    match compare n0 m with
    | Lt -> m
    | _ -> n0

  (** val min : z -> z -> z **)

  let min n0 m =
    match compare n0 m with
    | Gt -> m
    | _ -> n0

  (** val abs : z -> z **)

  let abs = function
  | Zneg p -> Zpos p
  | x -> x

  (** val to_nat : z -> nat **)

  let to_nat = function
  | Zpos p -> Coq_Pos.to_nat p
  | _ -> O

  (** val of_nat : nat -> z **)

  let of_nat = function
  | O -> Z0
  | S n1 -> Zpos (Coq_Pos.of_succ_nat n1)

  (** val of_N : n -> z **)

  let of_N = function
  | N0 -> Z0
  | Npos p -> Zpos p

  (** val of_uint : uint -> z **)

  let of_uint d =
    of_N (Coq_Pos.of_uint d)

  (** val of_int : signed_int -> z **)

  let of_int = function
  | Pos d0 -> of_uint d0
  | Neg d0 -> opp (of_uint d0)

  (** val to_int : z -> signed_int **)

  let to_int = function
  | Z0 -> Pos (D0 Nil)
  | Zpos p -> Pos (Coq_Pos.to_uint p)
  | Zneg p -> Neg (Coq_Pos.to_uint p)
 end

(** val eqb0 : char list -> char list -> bool **)

let rec eqb0 s1 s2 =
  match s1 with
  | [] -> (match s2 with
           | [] -> true
           | _::_ -> false)
  | c1::s1' ->
    (match s2 with
     | [] -> false
     | c2::s2' -> if (=) c1 c2 then eqb0 s1' s2' else false)

(** val append : char list -> char list -> char list **)

let rec append s1 s2 =
  match s1 with
  | [] -> s2
  | c::s1' -> c::(append s1' s2)

(** val length0 : char list -> nat **)

let rec length0 = function
| [] -> O
| _::s' -> S (length0 s')

(** val concat0 : char list -> char list list -> char list **)

let rec concat0 sep = function
| [] -> []
| x :: xs ->
  (match xs with
   | [] -> x
   | _ :: _ -> append x (append sep (concat0 sep xs)))

(** val list_ascii_of_string : char list -> char list **)

let rec list_ascii_of_string = function
| [] -> []
| ch::s1 -> ch :: (list_ascii_of_string s1)

type exn =
| ValueError
| IndexError
| KeyError
| AttributeError
| TypeError
| SolutionError of z option
| NonConvergenceError
| ParserError
| SymbolError
| IndentationError
| DimensionError
| DuplicateNameError
| InitialisationError
| NotImplementedError
| UnboundLocalError
| FortranEngineError
| OverflowError
| OtherError

type 'a outcome =
| Ret of 'a
| Raise of exn

(** val clip : z -> z -> z **)

let clip n0 i =
  if Z.ltb i Z0
  then if Z.ltb (Z.add i n0) Z0 then Z0 else Z.add i n0
  else if Z.ltb n0 i then n0 else i

(** val uint_of_char : char -> uint option -> uint option **)

let uint_of_char a = function
| Some d0 ->
  (* If this appears, you're using Ascii internals. Please don't *)
 (fun f c ->
  let n = Char.code c in
  let h i = (n land (1 lsl i)) <> 0 in
  f (h 0) (h 1) (h 2) (h 3) (h 4) (h 5) (h 6) (h 7))
    (fun b b0 b1 b2 b3 b4 b5 b6 ->
    if b
    then if b0
         then if b1
              then if b2
                   then None
                   else if b3
                        then if b4
                             then if b5
                                  then None
                                  else if b6 then None else Some (D7 d0)
                             else None
                        else None
              else if b2
                   then None
                   else if b3
                        then if b4
                             then if b5
                                  then None
                                  else if b6 then None else Some (D3 d0)
                             else None
                        else None
         else if b1
              then if b2
                   then None
                   else if b3
                        then if b4
                             then if b5
                                  then None
                                  else if b6 then None else Some (D5 d0)
                             else None
                        else None
              else if b2
                   then if b3
                        then if b4
                             then if b5
                                  then None
                                  else if b6 then None else Some (D9 d0)
                             else None
                        else None
                   else if b3
                        then if b4
                             then if b5
                                  then None
                                  else if b6 then None else Some (D1 d0)
                             else None
                        else None
    else if b0
         then if b1
              then if b2
                   then None
                   else if b3
                        then if b4
                             then if b5
                                  then None
                                  else if b6 then None else Some (D6 d0)
                             else None
                        else None
              else if b2
                   then None
                   else if b3
                        then if b4
                             then if b5
                                  then None
                                  else if b6 then None else Some (D2 d0)
                             else None
                        else None
         else if b1
              then if b2
                   then None
                   else if b3
                        then if b4
                             then if b5
                                  then None
                                  else if b6 then None else Some (D4 d0)
                             else None
                        else None
              else if b2
                   then if b3
                        then if b4
                             then if b5
                                  then None
                                  else if b6 then None else Some (D8 d0)
                             else None
                        else None
                   else if b3
                        then if b4
                             then if b5
                                  then None
                                  else if b6 then None else Some (D0 d0)
                             else None
                        else None)
    a
| None -> None

module NilEmpty =
 struct
  (** val string_of_uint : uint -> char list **)

  let rec string_of_uint = function
  | Nil -> []
  | D0 d0 -> '0'::(string_of_uint d0)
  | D1 d0 -> '1'::(string_of_uint d0)
  | D2 d0 -> '2'::(string_of_uint d0)
  | D3 d0 -> '3'::(string_of_uint d0)
  | D4 d0 -> '4'::(string_of_uint d0)
  | D5 d0 -> '5'::(string_of_uint d0)
  | D6 d0 -> '6'::(string_of_uint d0)
  | D7 d0 -> '7'::(string_of_uint d0)
  | D8 d0 -> '8'::(string_of_uint d0)
  | D9 d0 -> '9'::(string_of_uint d0)

  (** val uint_of_string : char list -> uint option **)

  let rec uint_of_string = function
  | [] -> Some Nil
  | a::s1 -> uint_of_char a (uint_of_string s1)
 end

module NilZero =
 struct
  (** val string_of_uint : uint -> char list **)

  let string_of_uint d = match d with
  | Nil -> '0'::[]
  | _ -> NilEmpty.string_of_uint d

  (** val uint_of_string : char list -> uint option **)

  let uint_of_string s = match s with
  | [] -> None
  | _::_ -> NilEmpty.uint_of_string s

  (** val string_of_int : signed_int -> char list **)

  let string_of_int = function
  | Pos d0 -> string_of_uint d0
  | Neg d0 -> '-'::(string_of_uint d0)

  (** val int_of_string : char list -> signed_int option **)

  let int_of_string s = match s with
  | [] -> None
  | a::s' ->
    if (=) a '-'
    then option_map (fun x -> Neg x) (uint_of_string s')
    else option_map (fun x -> Pos x) (uint_of_string s)
 end

(** val type_order : (char list * z) list **)

let type_order =
  (('V'::('A'::('R'::('I'::('A'::('B'::('L'::('E'::[])))))))), (Zpos
    XH)) :: ((('E'::('X'::('O'::('G'::('E'::('N'::('O'::('U'::('S'::[]))))))))),
    (Zpos (XO
    XH))) :: ((('E'::('N'::('D'::('O'::('G'::('E'::('N'::('O'::('U'::('S'::[])))))))))),
    (Zpos (XI
    XH))) :: ((('P'::('A'::('R'::('A'::('M'::('E'::('T'::('E'::('R'::[]))))))))),
    (Zpos (XO (XO XH)))) :: ((('E'::('R'::('R'::('O'::('R'::[]))))), (Zpos
    (XI (XO
    XH)))) :: ((('F'::('U'::('N'::('C'::('T'::('I'::('O'::('N'::[])))))))),
    (Zpos (XO (XI
    XH)))) :: ((('K'::('E'::('Y'::('W'::('O'::('R'::('D'::[]))))))), (Zpos
    (XI (XI
    XH)))) :: ((('V'::('E'::('R'::('B'::('A'::('T'::('I'::('M'::[])))))))),
    (Zpos (XO (XO (XO
    XH))))) :: ((('I'::('N'::('V'::('A'::('L'::('I'::('D'::[]))))))), (Zpos
    (XI (XO (XO XH))))) :: []))))))))

(** val replacement_function_names : (char list * char list) list **)

let replacement_function_names =
  (('e'::('x'::('p'::[]))),
    ('n'::('p'::('.'::('e'::('x'::('p'::[]))))))) :: ((('l'::('o'::('g'::[]))),
    ('n'::('p'::('.'::('l'::('o'::('g'::[]))))))) :: ((('m'::('a'::('x'::[]))),
    ('m'::('a'::('x'::[])))) :: ((('m'::('i'::('n'::[]))),
    ('m'::('i'::('n'::[])))) :: [])))

(** val kwlist : char list list **)

let kwlist =
  ('F'::('a'::('l'::('s'::('e'::[]))))) :: (('N'::('o'::('n'::('e'::[])))) :: (('T'::('r'::('u'::('e'::[])))) :: (('a'::('n'::('d'::[]))) :: (('a'::('s'::[])) :: (('a'::('s'::('s'::('e'::('r'::('t'::[])))))) :: (('a'::('s'::('y'::('n'::('c'::[]))))) :: (('a'::('w'::('a'::('i'::('t'::[]))))) :: (('b'::('r'::('e'::('a'::('k'::[]))))) :: (('c'::('l'::('a'::('s'::('s'::[]))))) :: (('c'::('o'::('n'::('t'::('i'::('n'::('u'::('e'::[])))))))) :: (('d'::('e'::('f'::[]))) :: (('d'::('e'::('l'::[]))) :: (('e'::('l'::('i'::('f'::[])))) :: (('e'::('l'::('s'::('e'::[])))) :: (('e'::('x'::('c'::('e'::('p'::('t'::[])))))) :: (('f'::('i'::('n'::('a'::('l'::('l'::('y'::[]))))))) :: (('f'::('o'::('r'::[]))) :: (('f'::('r'::('o'::('m'::[])))) :: (('g'::('l'::('o'::('b'::('a'::('l'::[])))))) :: (('i'::('f'::[])) :: (('i'::('m'::('p'::('o'::('r'::('t'::[])))))) :: (('i'::('n'::[])) :: (('i'::('s'::[])) :: (('l'::('a'::('m'::('b'::('d'::('a'::[])))))) :: (('n'::('o'::('n'::('l'::('o'::('c'::('a'::('l'::[])))))))) :: (('n'::('o'::('t'::[]))) :: (('o'::('r'::[])) :: (('p'::('a'::('s'::('s'::[])))) :: (('r'::('a'::('i'::('s'::('e'::[]))))) :: (('r'::('e'::('t'::('u'::('r'::('n'::[])))))) :: (('t'::('r'::('y'::[]))) :: (('w'::('h'::('i'::('l'::('e'::[]))))) :: (('w'::('i'::('t'::('h'::[])))) :: (('y'::('i'::('e'::('l'::('d'::[]))))) :: []))))))))))))))))))))))))))))))))))

(** val re_space_codes : nat list **)

let re_space_codes =
  (S (S (S (S (S (S (S (S (S O))))))))) :: ((S (S (S (S (S (S (S (S (S (S
    O)))))))))) :: ((S (S (S (S (S (S (S (S (S (S (S O))))))))))) :: ((S (S
    (S (S (S (S (S (S (S (S (S (S O)))))))))))) :: ((S (S (S (S (S (S (S (S
    (S (S (S (S (S O))))))))))))) :: ((S (S (S (S (S (S (S (S (S (S (S (S (S
    (S (S (S (S (S (S (S (S (S (S (S (S (S (S (S
    O)))))))))))))))))))))))))))) :: ((S (S (S (S (S (S (S (S (S (S (S (S (S
    (S (S (S (S (S (S (S (S (S (S (S (S (S (S (S (S
    O))))))))))))))))))))))))))))) :: ((S (S (S (S (S (S (S (S (S (S (S (S (S
    (S (S (S (S (S (S (S (S (S (S (S (S (S (S (S (S (S
    O)))))))))))))))))))))))))))))) :: ((S (S (S (S (S (S (S (S (S (S (S (S
    (S (S (S (S (S (S (S (S (S (S (S (S (S (S (S (S (S (S (S
    O))))))))))))))))))))))))))))))) :: ((S (S (S (S (S (S (S (S (S (S (S (S
    (S (S (S (S (S (S (S (S (S (S (S (S (S (S (S (S (S (S (S (S
    O)))))))))))))))))))))))))))))))) :: ((S (S (S (S (S (S (S (S (S (S (S (S
    (S (S (S (S (S (S (S (S (S (S (S (S (S (S (S (S (S (S (S (S (S (S (S (S
    (S (S (S (S (S (S (S (S (S (S (S (S (S (S (S (S (S (S (S (S (S (S (S (S
    (S (S (S (S (S (S (S (S (S (S (S (S (S (S (S (S (S (S (S (S (S (S (S (S
    (S (S (S (S (S (S (S (S (S (S (S (S (S (S (S (S (S (S (S (S (S (S (S (S
    (S (S (S (S (S (S (S (S (S (S (S (S (S (S (S (S (S (S (S (S (S (S (S (S
    (S
    O))))))))))))))))))))))))))))))))))))))))))))))))))))))))))))))))))))))))))))))))))))))))))))))))))))))))))))))))))))))))))))))))))))) :: ((S
    (S (S (S (S (S (S (S (S (S (S (S (S (S (S (S (S (S (S (S (S (S (S (S (S
    (S (S (S (S (S (S (S (S (S (S (S (S (S (S (S (S (S (S (S (S (S (S (S (S
    (S (S (S (S (S (S (S (S (S (S (S (S (S (S (S (S (S (S (S (S (S (S (S (S
    (S (S (S (S (S (S (S (S (S (S (S (S (S (S (S (S (S (S (S (S (S (S (S (S
    (S (S (S (S (S (S (S (S (S (S (S (S (S (S (S (S (S (S (S (S (S (S (S (S
    (S (S (S (S (S (S (S (S (S (S (S (S (S (S (S (S (S (S (S (S (S (S (S (S
    (S (S (S (S (S (S (S (S (S (S (S (S (S (S (S
    O)))))))))))))))))))))))))))))))))))))))))))))))))))))))))))))))))))))))))))))))))))))))))))))))))))))))))))))))))))))))))))))))))))))))))))))))))))))))))))))))) :: [])))))))))))

(** val re_word_codes : nat list **)

let re_word_codes =
  (S (S (S (S (S (S (S (S (S (S (S (S (S (S (S (S (S (S (S (S (S (S (S (S (S
    (S (S (S (S (S (S (S (S (S (S (S (S (S (S (S (S (S (S (S (S (S (S (S
    O)))))))))))))))))))))))))))))))))))))))))))))))) :: ((S (S (S (S (S (S
    (S (S (S (S (S (S (S (S (S (S (S (S (S (S (S (S (S (S (S (S (S (S (S (S
    (S (S (S (S (S (S (S (S (S (S (S (S (S (S (S (S (S (S (S
    O))))))))))))))))))))))))))))))))))))))))))))))))) :: ((S (S (S (S (S (S
    (S (S (S (S (S (S (S (S (S (S (S (S (S (S (S (S (S (S (S (S (S (S (S (S
    (S (S (S (S (S (S (S (S (S (S (S (S (S (S (S (S (S (S (S (S
    O)))))))))))))))))))))))))))))))))))))))))))))))))) :: ((S (S (S (S (S (S
    (S (S (S (S (S (S (S (S (S (S (S (S (S (S (S (S (S (S (S (S (S (S (S (S
    (S (S (S (S (S (S (S (S (S (S (S (S (S (S (S (S (S (S (S (S (S
    O))))))))))))))))))))))))))))))))))))))))))))))))))) :: ((S (S (S (S (S
    (S (S (S (S (S (S (S (S (S (S (S (S (S (S (S (S (S (S (S (S (S (S (S (S
    (S (S (S (S (S (S (S (S (S (S (S (S (S (S (S (S (S (S (S (S (S (S (S
    O)))))))))))))))))))))))))))))))))))))))))))))))))))) :: ((S (S (S (S (S
    (S (S (S (S (S (S (S (S (S (S (S (S (S (S (S (S (S (S (S (S (S (S (S (S
    (S (S (S (S (S (S (S (S (S (S (S (S (S (S (S (S (S (S (S (S (S (S (S (S
    O))))))))))))))))))))))))))))))))))))))))))))))))))))) :: ((S (S (S (S (S
    (S (S (S (S (S (S (S (S (S (S (S (S (S (S (S (S (S (S (S (S (S (S (S (S
    (S (S (S (S (S (S (S (S (S (S (S (S (S (S (S (S (S (S (S (S (S (S (S (S
    (S O)))))))))))))))))))))))))))))))))))))))))))))))))))))) :: ((S (S (S
    (S (S (S (S (S (S (S (S (S (S (S (S (S (S (S (S (S (S (S (S (S (S (S (S
    (S (S (S (S (S (S (S (S (S (S (S (S (S (S (S (S (S (S (S (S (S (S (S (S
    (S (S (S (S
    O))))))))))))))))))))))))))))))))))))))))))))))))))))))) :: ((S (S (S (S
    (S (S (S (S (S (S (S (S (S (S (S (S (S (S (S (S (S (S (S (S (S (S (S (S
    (S (S (S (S (S (S (S (S (S (S (S (S (S (S (S (S (S (S (S (S (S (S (S (S
    (S (S (S (S
    O)))))))))))))))))))))))))))))))))))))))))))))))))))))))) :: ((S (S (S (S
    (S (S (S (S (S (S (S (S (S (S (S (S (S (S (S (S (S (S (S (S (S (S (S (S
    (S (S (S (S (S (S (S (S (S (S (S (S (S (S (S (S (S (S (S (S (S (S (S (S
    (S (S (S (S (S
    O))))))))))))))))))))))))))))))))))))))))))))))))))))))))) :: ((S (S (S
    (S (S (S (S (S (S (S (S (S (S (S (S (S (S (S (S (S (S (S (S (S (S (S (S
    (S (S (S (S (S (S (S (S (S (S (S (S (S (S (S (S (S (S (S (S (S (S (S (S
    (S (S (S (S (S (S (S (S (S (S (S (S (S (S
    O))))))))))))))))))))))))))))))))))))))))))))))))))))))))))))))))) :: ((S
    (S (S (S (S (S (S (S (S (S (S (S (S (S (S (S (S (S (S (S (S (S (S (S (S
    (S (S (S (S (S (S (S (S (S (S (S (S (S (S (S (S (S (S (S (S (S (S (S (S
    (S (S (S (S (S (S (S (S (S (S (S (S (S (S (S (S (S
    O)))))))))))))))))))))))))))))))))))))))))))))))))))))))))))))))))) :: ((S
    (S (S (S (S (S (S (S (S (S (S (S (S (S (S (S (S (S (S (S (S (S (S (S (S
    (S (S (S (S (S (S (S (S (S (S (S (S (S (S (S (S (S (S (S (S (S (S (S (S
    (S (S (S (S (S (S (S (S (S (S (S (S (S (S (S (S (S (S
    O))))))))))))))))))))))))))))))))))))))))))))))))))))))))))))))))))) :: ((S
    (S (S (S (S (S (S (S (S (S (S (S (S (S (S (S (S (S (S (S (S (S (S (S (S
    (S (S (S (S (S (S (S (S (S (S (S (S (S (S (S (S (S (S (S (S (S (S (S (S
    (S (S (S (S (S (S (S (S (S (S (S (S (S (S (S (S (S (S (S
    O)))))))))))))))))))))))))))))))))))))))))))))))))))))))))))))))))))) :: ((S
    (S (S (S (S (S (S (S (S (S (S (S (S (S (S (S (S (S (S (S (S (S (S (S (S
    (S (S (S (S (S (S (S (S (S (S (S (S (S (S (S (S (S (S (S (S (S (S (S (S
    (S (S (S (S (S (S (S (S (S (S (S (S (S (S (S (S (S (S (S (S
    O))))))))))))))))))))))))))))))))))))))))))))))))))))))))))))))))))))) :: ((S
    (S (S (S (S (S (S (S (S (S (S (S (S (S (S (S (S (S (S (S (S (S (S (S (S
    (S (S (S (S (S (S (S (S (S (S (S (S (S (S (S (S (S (S (S (S (S (S (S (S
    (S (S (S (S (S (S (S (S (S (S (S (S (S (S (S (S (S (S (S (S (S
    O)))))))))))))))))))))))))))))))))))))))))))))))))))))))))))))))))))))) :: ((S
    (S (S (S (S (S (S (S (S (S (S (S (S (S (S (S (S (S (S (S (S (S (S (S (S
    (S (S (S (S (S (S (S (S (S (S (S (S (S (S (S (S (S (S (S (S (S (S (S (S
    (S (S (S (S (S (S (S (S (S (S (S (S (S (S (S (S (S (S (S (S (S (S
    O))))))))))))))))))))))))))))))))))))))))))))))))))))))))))))))))))))))) :: ((S
    (S (S (S (S (S (S (S (S (S (S (S (S (S (S (S (S (S (S (S (S (S (S (S (S
    (S (S (S (S (S (S (S (S (S (S (S (S (S (S (S (S (S (S (S (S (S (S (S (S
    (S (S (S (S (S (S (S (S (S (S (S (S (S (S (S (S (S (S (S (S (S (S (S
    O)))))))))))))))))))))))))))))))))))))))))))))))))))))))))))))))))))))))) :: ((S
    (S (S (S (S (S (S (S (S (S (S (S (S (S (S (S (S (S (S (S (S (S (S (S (S
    (S (S (S (S (S (S (S (S (S (S (S (S (S (S (S (S (S (S (S (S (S (S (S (S
    (S (S (S (S (S (S (S (S (S (S (S (S (S (S (S (S (S (S (S (S (S (S (S (S
    O))))))))))))))))))))))))))))))))))))))))))))))))))))))))))))))))))))))))) :: ((S
    (S (S (S (S (S (S (S (S (S (S (S (S (S (S (S (S (S (S (S (S (S (S (S (S
    (S (S (S (S (S (S (S (S (S (S (S (S (S (S (S (S (S (S (S (S (S (S (S (S
    (S (S (S (S (S (S (S (S (S (S (S (S (S (S (S (S (S (S (S (S (S (S (S (S
    (S
    O)))))))))))))))))))))))))))))))))))))))))))))))))))))))))))))))))))))))))) :: ((S
    (S (S (S (S (S (S (S (S (S (S (S (S (S (S (S (S (S (S (S (S (S (S (S (S
    (S (S (S (S (S (S (S (S (S (S (S (S (S (S (S (S (S (S (S (S (S (S (S (S
    (S (S (S (S (S (S (S (S (S (S (S (S (S (S (S (S (S (S (S (S (S (S (S (S
    (S (S
    O))))))))))))))))))))))))))))))))))))))))))))))))))))))))))))))))))))))))))) :: ((S
    (S (S (S (S (S (S (S (S (S (S (S (S (S (S (S (S (S (S (S (S (S (S (S (S
    (S (S (S (S (S (S (S (S (S (S (S (S (S (S (S (S (S (S (S (S (S (S (S (S
    (S (S (S (S (S (S (S (S (S (S (S (S (S (S (S (S (S (S (S (S (S (S (S (S
    (S (S (S
    O)))))))))))))))))))))))))))))))))))))))))))))))))))))))))))))))))))))))))))) :: ((S
    (S (S (S (S (S (S (S (S (S (S (S (S (S (S (S (S (S (S (S (S (S (S (S (S
    (S (S (S (S (S (S (S (S (S (S (S (S (S (S (S (S (S (S (S (S (S (S (S (S
    (S (S (S (S (S (S (S (S (S (S (S (S (S (S (S (S (S (S (S (S (S (S (S (S
    (S (S (S (S
    O))))))))))))))))))))))))))))))))))))))))))))))))))))))))))))))))))))))))))))) :: ((S
    (S (S (S (S (S (S (S (S (S (S (S (S (S (S (S (S (S (S (S (S (S (S (S (S
    (S (S (S (S (S (S (S (S (S (S (S (S (S (S (S (S (S (S (S (S (S (S (S (S
    (S (S (S (S (S (S (S (S (S (S (S (S (S (S (S (S (S (S (S (S (S (S (S (S
    (S (S (S (S (S
    O)))))))))))))))))))))))))))))))))))))))))))))))))))))))))))))))))))))))))))))) :: ((S
    (S (S (S (S (S (S (S (S (S (S (S (S (S (S (S (S (S (S (S (S (S (S (S (S
    (S (S (S (S (S (S (S (S (S (S (S (S (S (S (S (S (S (S (S (S (S (S (S (S
    (S (S (S (S (S (S (S (S (S (S (S (S (S (S (S (S (S (S (S (S (S (S (S (S
    (S (S (S (S (S (S
    O))))))))))))))))))))))))))))))))))))))))))))))))))))))))))))))))))))))))))))))) :: ((S
    (S (S (S (S (S (S (S (S (S (S (S (S (S (S (S (S (S (S (S (S (S (S (S (S
    (S (S (S (S (S (S (S (S (S (S (S (S (S (S (S (S (S (S (S (S (S (S (S (S
    (S (S (S (S (S (S (S (S (S (S (S (S (S (S (S (S (S (S (S (S (S (S (S (S
    (S (S (S (S (S (S (S
    O)))))))))))))))))))))))))))))))))))))))))))))))))))))))))))))))))))))))))))))))) :: ((S
    (S (S (S (S (S (S (S (S (S (S (S (S (S (S (S (S (S (S (S (S (S (S (S (S
    (S (S (S (S (S (S (S (S (S (S (S (S (S (S (S (S (S (S (S (S (S (S (S (S
    (S (S (S (S (S (S (S (S (S (S (S (S (S (S (S (S (S (S (S (S (S (S (S (S
    (S (S (S (S (S (S (S (S
    O))))))))))))))))))))))))))))))))))))))))))))))))))))))))))))))))))))))))))))))))) :: ((S
    (S (S (S (S (S (S (S (S (S (S (S (S (S (S (S (S (S (S (S (S (S (S (S (S
    (S (S (S (S (S (S (S (S (S (S (S (S (S (S (S (S (S (S (S (S (S (S (S (S
    (S (S (S (S (S (S (S (S (S (S (S (S (S (S (S (S (S (S (S (S (S (S (S (S
    (S (S (S (S (S (S (S (S (S
    O)))))))))))))))))))))))))))))))))))))))))))))))))))))))))))))))))))))))))))))))))) :: ((S
    (S (S (S (S (S (S (S (S (S (S (S (S (S (S (S (S (S (S (S (S (S (S (S (S
    (S (S (S (S (S (S (S (S (S (S (S (S (S (S (S (S (S (S (S (S (S (S (S (S
    (S (S (S (S (S (S (S (S (S (S (S (S (S (S (S (S (S (S (S (S (S (S (S (S
    (S (S (S (S (S (S (S (S (S (S
    O))))))))))))))))))))))))))))))))))))))))))))))))))))))))))))))))))))))))))))))))))) :: ((S
    (S (S (S (S (S (S (S (S (S (S (S (S (S (S (S (S (S (S (S (S (S (S (S (S
    (S (S (S (S (S (S (S (S (S (S (S (S (S (S (S (S (S (S (S (S (S (S (S (S
    (S (S (S (S (S (S (S (S (S (S (S (S (S (S (S (S (S (S (S (S (S (S (S (S
    (S (S (S (S (S (S (S (S (S (S (S
    O)))))))))))))))))))))))))))))))))))))))))))))))))))))))))))))))))))))))))))))))))))) :: ((S
    (S (S (S (S (S (S (S (S (S (S (S (S (S (S (S (S (S (S (S (S (S (S (S (S
    (S (S (S (S (S (S (S (S (S (S (S (S (S (S (S (S (S (S (S (S (S (S (S (S
    (S (S (S (S (S (S (S (S (S (S (S (S (S (S (S (S (S (S (S (S (S (S (S (S
    (S (S (S (S (S (S (S (S (S (S (S (S
    O))))))))))))))))))))))))))))))))))))))))))))))))))))))))))))))))))))))))))))))))))))) :: ((S
    (S (S (S (S (S (S (S (S (S (S (S (S (S (S (S (S (S (S (S (S (S (S (S (S
    (S (S (S (S (S (S (S (S (S (S (S (S (S (S (S (S (S (S (S (S (S (S (S (S
    (S (S (S (S (S (S (S (S (S (S (S (S (S (S (S (S (S (S (S (S (S (S (S (S
    (S (S (S (S (S (S (S (S (S (S (S (S (S
    O)))))))))))))))))))))))))))))))))))))))))))))))))))))))))))))))))))))))))))))))))))))) :: ((S
    (S (S (S (S (S (S (S (S (S (S (S (S (S (S (S (S (S (S (S (S (S (S (S (S
    (S (S (S (S (S (S (S (S (S (S (S (S (S (S (S (S (S (S (S (S (S (S (S (S
    (S (S (S (S (S (S (S (S (S (S (S (S (S (S (S (S (S (S (S (S (S (S (S (S
    (S (S (S (S (S (S (S (S (S (S (S (S (S (S
    O))))))))))))))))))))))))))))))))))))))))))))))))))))))))))))))))))))))))))))))))))))))) :: ((S
    (S (S (S (S (S (S (S (S (S (S (S (S (S (S (S (S (S (S (S (S (S (S (S (S
    (S (S (S (S (S (S (S (S (S (S (S (S (S (S (S (S (S (S (S (S (S (S (S (S
    (S (S (S (S (S (S (S (S (S (S (S (S (S (S (S (S (S (S (S (S (S (S (S (S
    (S (S (S (S (S (S (S (S (S (S (S (S (S (S (S
    O)))))))))))))))))))))))))))))))))))))))))))))))))))))))))))))))))))))))))))))))))))))))) :: ((S
    (S (S (S (S (S (S (S (S (S (S (S (S (S (S (S (S (S (S (S (S (S (S (S (S
    (S (S (S (S (S (S (S (S (S (S (S (S (S (S (S (S (S (S (S (S (S (S (S (S
    (S (S (S (S (S (S (S (S (S (S (S (S (S (S (S (S (S (S (S (S (S (S (S (S
    (S (S (S (S (S (S (S (S (S (S (S (S (S (S (S (S
    O))))))))))))))))))))))))))))))))))))))))))))))))))))))))))))))))))))))))))))))))))))))))) :: ((S
    (S (S (S (S (S (S (S (S (S (S (S (S (S (S (S (S (S (S (S (S (S (S (S (S
    (S (S (S (S (S (S (S (S (S (S (S (S (S (S (S (S (S (S (S (S (S (S (S (S
    (S (S (S (S (S (S (S (S (S (S (S (S (S (S (S (S (S (S (S (S (S (S (S (S
    (S (S (S (S (S (S (S (S (S (S (S (S (S (S (S (S (S
    O)))))))))))))))))))))))))))))))))))))))))))))))))))))))))))))))))))))))))))))))))))))))))) :: ((S
    (S (S (S (S (S (S (S (S (S (S (S (S (S (S (S (S (S (S (S (S (S (S (S (S
    (S (S (S (S (S (S (S (S (S (S (S (S (S (S (S (S (S (S (S (S (S (S (S (S
    (S (S (S (S (S (S (S (S (S (S (S (S (S (S (S (S (S (S (S (S (S (S (S (S
    (S (S (S (S (S (S (S (S (S (S (S (S (S (S (S (S (S (S (S (S (S (S
    O))))))))))))))))))))))))))))))))))))))))))))))))))))))))))))))))))))))))))))))))))))))))))))))) :: ((S
    (S (S (S (S (S (S (S (S (S (S (S (S (S (S (S (S (S (S (S (S (S (S (S (S
    (S (S (S (S (S (S (S (S (S (S (S (S (S (S (S (S (S (S (S (S (S (S (S (S
    (S (S (S (S (S (S (S (S (S (S (S (S (S (S (S (S (S (S (S (S (S (S (S (S
    (S (S (S (S (S (S (S (S (S (S (S (S (S (S (S (S (S (S (S (S (S (S (S (S
    O))))))))))))))))))))))))))))))))))))))))))))))))))))))))))))))))))))))))))))))))))))))))))))))))) :: ((S
    (S (S (S (S (S (S (S (S (S (S (S (S (S (S (S (S (S (S (S (S (S (S (S (S
    (S (S (S (S (S (S (S (S (S (S (S (S (S (S (S (S (S (S (S (S (S (S (S (S
    (S (S (S (S (S (S (S (S (S (S (S (S (S (S (S (S (S (S (S (S (S (S (S (S
    (S (S (S (S (S (S (S (S (S (S (S (S (S (S (S (S (S (S (S (S (S (S (S (S
    (S
    O)))))))))))))))))))))))))))))))))))))))))))))))))))))))))))))))))))))))))))))))))))))))))))))))))) :: ((S
    (S (S (S (S (S (S (S (S (S (S (S (S (S (S (S (S (S (S (S (S (S (S (S (S
    (S (S (S (S (S (S (S (S (S (S (S (S (S (S (S (S (S (S (S (S (S (S (S (S
    (S (S (S (S (S (S (S (S (S (S (S (S (S (S (S (S (S (S (S (S (S (S (S (S
    (S (S (S (S (S (S (S (S (S (S (S (S (S (S (S (S (S (S (S (S (S (S (S (S
    (S (S
    O))))))))))))))))))))))))))))))))))))))))))))))))))))))))))))))))))))))))))))))))))))))))))))))))))) :: ((S
    (S (S (S (S (S (S (S (S (S (S (S (S (S (S (S (S (S (S (S (S (S (S (S (S
    (S (S (S (S (S (S (S (S (S (S (S (S (S (S (S (S (S (S (S (S (S (S (S (S
    (S (S (S (S (S (S (S (S (S (S (S (S (S (S (S (S (S (S (S (S (S (S (S (S
    (S (S (S (S (S (S (S (S (S (S (S (S (S (S (S (S (S (S (S (S (S (S (S (S
    (S (S (S
    O)))))))))))))))))))))))))))))))))))))))))))))))))))))))))))))))))))))))))))))))))))))))))))))))))))) :: ((S
    (S (S (S (S (S (S (S (S (S (S (S (S (S (S (S (S (S (S (S (S (S (S (S (S
    (S (S (S (S (S (S (S (S (S (S (S (S (S (S (S (S (S (S (S (S (S (S (S (S
    (S (S (S (S (S (S (S (S (S (S (S (S (S (S (S (S (S (S (S (S (S (S (S (S
    (S (S (S (S (S (S (S (S (S (S (S (S (S (S (S (S (S (S (S (S (S (S (S (S
    (S (S (S (S
    O))))))))))))))))))))))))))))))))))))))))))))))))))))))))))))))))))))))))))))))))))))))))))))))))))))) :: ((S
    (S (S (S (S (S (S (S (S (S (S (S (S (S (S (S (S (S (S (S (S (S (S (S (S
    (S (S (S (S (S (S (S (S (S (S (S (S (S (S (S (S (S (S (S (S (S (S (S (S
    (S (S (S (S (S (S (S (S (S (S (S (S (S (S (S (S (S (S (S (S (S (S (S (S
    (S (S (S (S (S (S (S (S (S (S (S (S (S (S (S (S (S (S (S (S (S (S (S (S
    (S (S (S (S (S
    O)))))))))))))))))))))))))))))))))))))))))))))))))))))))))))))))))))))))))))))))))))))))))))))))))))))) :: ((S
    (S (S (S (S (S (S (S (S (S (S (S (S (S (S (S (S (S (S (S (S (S (S (S (S
    (S (S (S (S (S (S (S (S (S (S (S (S (S (S (S (S (S (S (S (S (S (S (S (S
    (S (S (S (S (S (S (S (S (S (S (S (S (S (S (S (S (S (S (S (S (S (S (S (S
    (S (S (S (S (S (S (S (S (S (S (S (S (S (S (S (S (S (S (S (S (S (S (S (S
    (S (S (S (S (S (S
    O))))))))))))))))))))))))))))))))))))))))))))))))))))))))))))))))))))))))))))))))))))))))))))))))))))))) :: ((S
    (S (S (S (S (S (S (S (S (S (S (S (S (S (S (S (S (S (S (S (S (S (S (S (S
    (S (S (S (S (S (S (S (S (S (S (S (S (S (S (S (S (S (S (S (S (S (S (S (S
    (S (S (S (S (S (S (S (S (S (S (S (S (S (S (S (S (S (S (S (S (S (S (S (S
    (S (S (S (S (S (S (S (S (S (S (S (S (S (S (S (S (S (S (S (S (S (S (S (S
    (S (S (S (S (S (S (S
    O)))))))))))))))))))))))))))))))))))))))))))))))))))))))))))))))))))))))))))))))))))))))))))))))))))))))) :: ((S
    (S (S (S (S (S (S (S (S (S (S (S (S (S (S (S (S (S (S (S (S (S (S (S (S
    (S (S (S (S (S (S (S (S (S (S (S (S (S (S (S (S (S (S (S (S (S (S (S (S
    (S (S (S (S (S (S (S (S (S (S (S (S (S (S (S (S (S (S (S (S (S (S (S (S
    (S (S (S (S (S (S (S (S (S (S (S (S (S (S (S (S (S (S (S (S (S (S (S (S
    (S (S (S (S (S (S (S (S
    O))))))))))))))))))))))))))))))))))))))))))))))))))))))))))))))))))))))))))))))))))))))))))))))))))))))))) :: ((S
    (S (S (S (S (S (S (S (S (S (S (S (S (S (S (S (S (S (S (S (S (S (S (S (S
    (S (S (S (S (S (S (S (S (S (S (S (S (S (S (S (S (S (S (S (S (S (S (S (S
    (S (S (S (S (S (S (S (S (S (S (S (S (S (S (S (S (S (S (S (S (S (S (S (S
    (S (S (S (S (S (S (S (S (S (S (S (S (S (S (S (S (S (S (S (S (S (S (S (S
    (S (S (S (S (S (S (S (S (S
    O)))))))))))))))))))))))))))))))))))))))))))))))))))))))))))))))))))))))))))))))))))))))))))))))))))))))))) :: ((S
    (S (S (S (S (S (S (S (S (S (S (S (S (S (S (S (S (S (S (S (S (S (S (S (S
    (S (S (S (S (S (S (S (S (S (S (S (S (S (S (S (S (S (S (S (S (S (S (S (S
    (S (S (S (S (S (S (S (S (S (S (S (S (S (S (S (S (S (S (S (S (S (S (S (S
    (S (S (S (S (S (S (S (S (S (S (S (S (S (S (S (S (S (S (S (S (S (S (S (S
    (S (S (S (S (S (S (S (S (S (S
    O))))))))))))))))))))))))))))))))))))))))))))))))))))))))))))))))))))))))))))))))))))))))))))))))))))))))))) :: ((S
    (S (S (S (S (S (S (S (S (S (S (S (S (S (S (S (S (S (S (S (S (S (S (S (S
    (S (S (S (S (S (S (S (S (S (S (S (S (S (S (S (S (S (S (S (S (S (S (S (S
    (S (S (S (S (S (S (S (S (S (S (S (S (S (S (S (S (S (S (S (S (S (S (S (S
    (S (S (S (S (S (S (S (S (S (S (S (S (S (S (S (S (S (S (S (S (S (S (S (S
    (S (S (S (S (S (S (S (S (S (S (S
    O)))))))))))))))))))))))))))))))))))))))))))))))))))))))))))))))))))))))))))))))))))))))))))))))))))))))))))) :: ((S
    (S (S (S (S (S (S (S (S (S (S (S (S (S (S (S (S (S (S (S (S (S (S (S (S
    (S (S (S (S (S (S (S (S (S (S (S (S (S (S (S (S (S (S (S (S (S (S (S (S
    (S (S (S (S (S (S (S (S (S (S (S (S (S (S (S (S (S (S (S (S (S (S (S (S
    (S (S (S (S (S (S (S (S (S (S (S (S (S (S (S (S (S (S (S (S (S (S (S (S
    (S (S (S (S (S (S (S (S (S (S (S (S
    O))))))))))))))))))))))))))))))))))))))))))))))))))))))))))))))))))))))))))))))))))))))))))))))))))))))))))))) :: ((S
    (S (S (S (S (S (S (S (S (S (S (S (S (S (S (S (S (S (S (S (S (S (S (S (S
    (S (S (S (S (S (S (S (S (S (S (S (S (S (S (S (S (S (S (S (S (S (S (S (S
    (S (S (S (S (S (S (S (S (S (S (S (S (S (S (S (S (S (S (S (S (S (S (S (S
    (S (S (S (S (S (S (S (S (S (S (S (S (S (S (S (S (S (S (S (S (S (S (S (S
    (S (S (S (S (S (S (S (S (S (S (S (S (S
    O)))))))))))))))))))))))))))))))))))))))))))))))))))))))))))))))))))))))))))))))))))))))))))))))))))))))))))))) :: ((S
    (S (S (S (S (S (S (S (S (S (S (S (S (S (S (S (S (S (S (S (S (S (S (S (S
    (S (S (S (S (S (S (S (S (S (S (S (S (S (S (S (S (S (S (S (S (S (S (S (S
    (S (S (S (S (S (S (S (S (S (S (S (S (S (S (S (S (S (S (S (S (S (S (S (S
    (S (S (S (S (S (S (S (S (S (S (S (S (S (S (S (S (S (S (S (S (S (S (S (S
    (S (S (S (S (S (S (S (S (S (S (S (S (S (S
    O))))))))))))))))))))))))))))))))))))))))))))))))))))))))))))))))))))))))))))))))))))))))))))))))))))))))))))))) :: ((S
    (S (S (S (S (S (S (S (S (S (S (S (S (S (S (S (S (S (S (S (S (S (S (S (S
    (S (S (S (S (S (S (S (S (S (S (S (S (S (S (S (S (S (S (S (S (S (S (S (S
    (S (S (S (S (S (S (S (S (S (S (S (S (S (S (S (S (S (S (S (S (S (S (S (S
    (S (S (S (S (S (S (S (S (S (S (S (S (S (S (S (S (S (S (S (S (S (S (S (S
    (S (S (S (S (S (S (S (S (S (S (S (S (S (S (S
    O)))))))))))))))))))))))))))))))))))))))))))))))))))))))))))))))))))))))))))))))))))))))))))))))))))))))))))))))) :: ((S
    (S (S (S (S (S (S (S (S (S (S (S (S (S (S (S (S (S (S (S (S (S (S (S (S
    (S (S (S (S (S (S (S (S (S (S (S (S (S (S (S (S (S (S (S (S (S (S (S (S
    (S (S (S (S (S (S (S (S (S (S (S (S (S (S (S (S (S (S (S (S (S (S (S (S
    (S (S (S (S (S (S (S (S (S (S (S (S (S (S (S (S (S (S (S (S (S (S (S (S
    (S (S (S (S (S (S (S (S (S (S (S (S (S (S (S (S
    O))))))))))))))))))))))))))))))))))))))))))))))))))))))))))))))))))))))))))))))))))))))))))))))))))))))))))))))))) :: ((S
    (S (S (S (S (S (S (S (S (S (S (S (S (S (S (S (S (S (S (S (S (S (S (S (S
    (S (S (S (S (S (S (S (S (S (S (S (S (S (S (S (S (S (S (S (S (S (S (S (S
    (S (S (S (S (S (S (S (S (S (S (S (S (S (S (S (S (S (S (S (S (S (S (S (S
    (S (S (S (S (S (S (S (S (S (S (S (S (S (S (S (S (S (S (S (S (S (S (S (S
    (S (S (S (S (S (S (S (S (S (S (S (S (S (S (S (S (S
    O)))))))))))))))))))))))))))))))))))))))))))))))))))))))))))))))))))))))))))))))))))))))))))))))))))))))))))))))))) :: ((S
    (S (S (S (S (S (S (S (S (S (S (S (S (S (S (S (S (S (S (S (S (S (S (S (S
    (S (S (S (S (S (S (S (S (S (S (S (S (S (S (S (S (S (S (S (S (S (S (S (S
    (S (S (S (S (S (S (S (S (S (S (S (S (S (S (S (S (S (S (S (S (S (S (S (S
    (S (S (S (S (S (S (S (S (S (S (S (S (S (S (S (S (S (S (S (S (S (S (S (S
    (S (S (S (S (S (S (S (S (S (S (S (S (S (S (S (S (S (S
    O))))))))))))))))))))))))))))))))))))))))))))))))))))))))))))))))))))))))))))))))))))))))))))))))))))))))))))))))))) :: ((S
    (S (S (S (S (S (S (S (S (S (S (S (S (S (S (S (S (S (S (S (S (S (S (S (S
    (S (S (S (S (S (S (S (S (S (S (S (S (S (S (S (S (S (S (S (S (S (S (S (S
    (S (S (S (S (S (S (S (S (S (S (S (S (S (S (S (S (S (S (S (S (S (S (S (S
    (S (S (S (S (S (S (S (S (S (S (S (S (S (S (S (S (S (S (S (S (S (S (S (S
    (S (S (S (S (S (S (S (S (S (S (S (S (S (S (S (S (S (S (S
    O)))))))))))))))))))))))))))))))))))))))))))))))))))))))))))))))))))))))))))))))))))))))))))))))))))))))))))))))))))) :: ((S
    (S (S (S (S (S (S (S (S (S (S (S (S (S (S (S (S (S (S (S (S (S (S (S (S
    (S (S (S (S (S (S (S (S (S (S (S (S (S (S (S (S (S (S (S (S (S (S (S (S
    (S (S (S (S (S (S (S (S (S (S (S (S (S (S (S (S (S (S (S (S (S (S (S (S
    (S (S (S (S (S (S (S (S (S (S (S (S (S (S (S (S (S (S (S (S (S (S (S (S
    (S (S (S (S (S (S (S (S (S (S (S (S (S (S (S (S (S (S (S (S
    O))))))))))))))))))))))))))))))))))))))))))))))))))))))))))))))))))))))))))))))))))))))))))))))))))))))))))))))))))))) :: ((S
    (S (S (S (S (S (S (S (S (S (S (S (S (S (S (S (S (S (S (S (S (S (S (S (S
    (S (S (S (S (S (S (S (S (S (S (S (S (S (S (S (S (S (S (S (S (S (S (S (S
    (S (S (S (S (S (S (S (S (S (S (S (S (S (S (S (S (S (S (S (S (S (S (S (S
    (S (S (S (S (S (S (S (S (S (S (S (S (S (S (S (S (S (S (S (S (S (S (S (S
    (S (S (S (S (S (S (S (S (S (S (S (S (S (S (S (S (S (S (S (S (S
    O)))))))))))))))))))))))))))))))))))))))))))))))))))))))))))))))))))))))))))))))))))))))))))))))))))))))))))))))))))))) :: ((S
    (S (S (S (S (S (S (S (S (S (S (S (S (S (S (S (S (S (S (S (S (S (S (S (S
    (S (S (S (S (S (S (S (S (S (S (S (S (S (S (S (S (S (S (S (S (S (S (S (S
    (S (S (S (S (S (S (S (S (S (S (S (S (S (S (S (S (S (S (S (S (S (S (S (S
    (S (S (S (S (S (S (S (S (S (S (S (S (S (S (S (S (S (S (S (S (S (S (S (S
    (S (S (S (S (S (S (S (S (S (S (S (S (S (S (S (S (S (S (S (S (S (S
    O))))))))))))))))))))))))))))))))))))))))))))))))))))))))))))))))))))))))))))))))))))))))))))))))))))))))))))))))))))))) :: ((S
    (S (S (S (S (S (S (S (S (S (S (S (S (S (S (S (S (S (S (S (S (S (S (S (S
    (S (S (S (S (S (S (S (S (S (S (S (S (S (S (S (S (S (S (S (S (S (S (S (S
    (S (S (S (S (S (S (S (S (S (S (S (S (S (S (S (S (S (S (S (S (S (S (S (S
    (S (S (S (S (S (S (S (S (S (S (S (S (S (S (S (S (S (S (S (S (S (S (S (S
    (S (S (S (S (S (S (S (S (S (S (S (S (S (S (S (S (S (S (S (S (S (S (S
    O)))))))))))))))))))))))))))))))))))))))))))))))))))))))))))))))))))))))))))))))))))))))))))))))))))))))))))))))))))))))) :: ((S
    (S (S (S (S (S (S (S (S (S (S (S (S (S (S (S (S (S (S (S (S (S (S (S (S
    (S (S (S (S (S (S (S (S (S (S (S (S (S (S (S (S (S (S (S (S (S (S (S (S
    (S (S (S (S (S (S (S (S (S (S (S (S (S (S (S (S (S (S (S (S (S (S (S (S
    (S (S (S (S (S (S (S (S (S (S (S (S (S (S (S (S (S (S (S (S (S (S (S (S
    (S (S (S (S (S (S (S (S (S (S (S (S (S (S (S (S (S (S (S (S (S (S (S (S
    O))))))))))))))))))))))))))))))))))))))))))))))))))))))))))))))))))))))))))))))))))))))))))))))))))))))))))))))))))))))))) :: ((S
    (S (S (S (S (S (S (S (S (S (S (S (S (S (S (S (S (S (S (S (S (S (S (S (S
    (S (S (S (S (S (S (S (S (S (S (S (S (S (S (S (S (S (S (S (S (S (S (S (S
    (S (S (S (S (S (S (S (S (S (S (S (S (S (S (S (S (S (S (S (S (S (S (S (S
    (S (S (S (S (S (S (S (S (S (S (S (S (S (S (S (S (S (S (S (S (S (S (S (S
    (S (S (S (S (S (S (S (S (S (S (S (S (S (S (S (S (S (S (S (S (S (S (S (S
    (S
    O)))))))))))))))))))))))))))))))))))))))))))))))))))))))))))))))))))))))))))))))))))))))))))))))))))))))))))))))))))))))))) :: ((S
    (S (S (S (S (S (S (S (S (S (S (S (S (S (S (S (S (S (S (S (S (S (S (S (S
    (S (S (S (S (S (S (S (S (S (S (S (S (S (S (S (S (S (S (S (S (S (S (S (S
    (S (S (S (S (S (S (S (S (S (S (S (S (S (S (S (S (S (S (S (S (S (S (S (S
    (S (S (S (S (S (S (S (S (S (S (S (S (S (S (S (S (S (S (S (S (S (S (S (S
    (S (S (S (S (S (S (S (S (S (S (S (S (S (S (S (S (S (S (S (S (S (S (S (S
    (S (S (S (S (S (S (S (S (S (S (S (S (S (S (S (S (S (S (S (S (S (S (S (S
    (S (S (S (S (S (S (S (S (S (S (S (S (S (S (S (S (S (S (S (S (S (S (S (S
    (S
    O)))))))))))))))))))))))))))))))))))))))))))))))))))))))))))))))))))))))))))))))))))))))))))))))))))))))))))))))))))))))))))))))))))))))))))))))))))))))))))))))))))))))))) :: ((S
    (S (S (S (S (S (S (S (S (S (S (S (S (S (S (S (S (S (S (S (S (S (S (S (S
    (S (S (S (S (S (S (S (S (S (S (S (S (S (S (S (S (S (S (S (S (S (S (S (S
    (S (S (S (S (S (S (S (S (S (S (S (S (S (S (S (S (S (S (S (S (S (S (S (S
    (S (S (S (S (S (S (S (S (S (S (S (S (S (S (S (S (S (S (S (S (S (S (S (S
    (S (S (S (S (S (S (S (S (S (S (S (S (S (S (S (S (S (S (S (S (S (S (S (S
    (S (S (S (S (S (S (S (S (S (S (S (S (S (S (S (S (S (S (S (S (S (S (S (S
    (S (S (S (S (S (S (S (S (S (S (S (S (S (S (S (S (S (S (S (S (S (S (S (S
    (S (S (S (S (S (S (S (S (S
    O)))))))))))))))))))))))))))))))))))))))))))))))))))))))))))))))))))))))))))))))))))))))))))))))))))))))))))))))))))))))))))))))))))))))))))))))))))))))))))))))))))))))))))))))))) :: ((S
    (S (S (S (S (S (S (S (S (S (S (S (S (S (S (S (S (S (S (S (S (S (S (S (S
    (S (S (S (S (S (S (S (S (S (S (S (S (S (S (S (S (S (S (S (S (S (S (S (S
    (S (S (S (S (S (S (S (S (S (S (S (S (S (S (S (S (S (S (S (S (S (S (S (S
    (S (S (S (S (S (S (S (S (S (S (S (S (S (S (S (S (S (S (S (S (S (S (S (S
    (S (S (S (S (S (S (S (S (S (S (S (S (S (S (S (S (S (S (S (S (S (S (S (S
    (S (S (S (S (S (S (S (S (S (S (S (S (S (S (S (S (S (S (S (S (S (S (S (S
    (S (S (S (S (S (S (S (S (S (S (S (S (S (S (S (S (S (S (S (S (S (S (S (S
    (S (S (S (S (S (S (S (S (S (S
    O))))))))))))))))))))))))))))))))))))))))))))))))))))))))))))))))))))))))))))))))))))))))))))))))))))))))))))))))))))))))))))))))))))))))))))))))))))))))))))))))))))))))))))))))))) :: ((S
    (S (S (S (S (S (S (S (S (S (S (S (S (S (S (S (S (S (S (S (S (S (S (S (S
    (S (S (S (S (S (S (S (S (S (S (S (S (S (S (S (S (S (S (S (S (S (S (S (S
    (S (S (S (S (S (S (S (S (S (S (S (S (S (S (S (S (S (S (S (S (S (S (S (S
    (S (S (S (S (S (S (S (S (S (S (S (S (S (S (S (S (S (S (S (S (S (S (S (S
    (S (S (S (S (S (S (S (S (S (S (S (S (S (S (S (S (S (S (S (S (S (S (S (S
    (S (S (S (S (S (S (S (S (S (S (S (S (S (S (S (S (S (S (S (S (S (S (S (S
    (S (S (S (S (S (S (S (S (S (S (S (S (S (S (S (S (S (S (S (S (S (S (S (S
    (S (S (S (S (S (S (S (S (S (S (S (S
    O))))))))))))))))))))))))))))))))))))))))))))))))))))))))))))))))))))))))))))))))))))))))))))))))))))))))))))))))))))))))))))))))))))))))))))))))))))))))))))))))))))))))))))))))))))) :: ((S
    (S (S (S (S (S (S (S (S (S (S (S (S (S (S (S (S (S (S (S (S (S (S (S (S
    (S (S (S (S (S (S (S (S (S (S (S (S (S (S (S (S (S (S (S (S (S (S (S (S
    (S (S (S (S (S (S (S (S (S (S (S (S (S (S (S (S (S (S (S (S (S (S (S (S
    (S (S (S (S (S (S (S (S (S (S (S (S (S (S (S (S (S (S (S (S (S (S (S (S
    (S (S (S (S (S (S (S (S (S (S (S (S (S (S (S (S (S (S (S (S (S (S (S (S
    (S (S (S (S (S (S (S (S (S (S (S (S (S (S (S (S (S (S (S (S (S (S (S (S
    (S (S (S (S (S (S (S (S (S (S (S (S (S (S (S (S (S (S (S (S (S (S (S (S
    (S (S (S (S (S (S (S (S (S (S (S (S (S (S (S (S
    O))))))))))))))))))))))))))))))))))))))))))))))))))))))))))))))))))))))))))))))))))))))))))))))))))))))))))))))))))))))))))))))))))))))))))))))))))))))))))))))))))))))))))))))))))))))))) :: ((S
    (S (S (S (S (S (S (S (S (S (S (S (S (S (S (S (S (S (S (S (S (S (S (S (S
    (S (S (S (S (S (S (S (S (S (S (S (S (S (S (S (S (S (S (S (S (S (S (S (S
    (S (S (S (S (S (S (S (S (S (S (S (S (S (S (S (S (S (S (S (S (S (S (S (S
    (S (S (S (S (S (S (S (S (S (S (S (S (S (S (S (S (S (S (S (S (S (S (S (S
    (S (S (S (S (S (S (S (S (S (S (S (S (S (S (S (S (S (S (S (S (S (S (S (S
    (S (S (S (S (S (S (S (S (S (S (S (S (S (S (S (S (S (S (S (S (S (S (S (S
    (S (S (S (S (S (S (S (S (S (S (S (S (S (S (S (S (S (S (S (S (S (S (S (S
    (S (S (S (S (S (S (S (S (S (S (S (S (S (S (S (S (S
    O)))))))))))))))))))))))))))))))))))))))))))))))))))))))))))))))))))))))))))))))))))))))))))))))))))))))))))))))))))))))))))))))))))))))))))))))))))))))))))))))))))))))))))))))))))))))))) :: ((S
    (S (S (S (S (S (S (S (S (S (S (S (S (S (S (S (S (S (S (S (S (S (S (S (S
    (S (S (S (S (S (S (S (S (S (S (S (S (S (S (S (S (S (S (S (S (S (S (S (S
    (S (S (S (S (S (S (S (S (S (S (S (S (S (S (S (S (S (S (S (S (S (S (S (S
    (S (S (S (S (S (S (S (S (S (S (S (S (S (S (S (S (S (S (S (S (S (S (S (S
    (S (S (S (S (S (S (S (S (S (S (S (S (S (S (S (S (S (S (S (S (S (S (S (S
    (S (S (S (S (S (S (S (S (S (S (S (S (S (S (S (S (S (S (S (S (S (S (S (S
    (S (S (S (S (S (S (S (S (S (S (S (S (S (S (S (S (S (S (S (S (S (S (S (S
    (S (S (S (S (S (S (S (S (S (S (S (S (S (S (S (S (S (S (S
    O)))))))))))))))))))))))))))))))))))))))))))))))))))))))))))))))))))))))))))))))))))))))))))))))))))))))))))))))))))))))))))))))))))))))))))))))))))))))))))))))))))))))))))))))))))))))))))) :: ((S
    (S (S (S (S (S (S (S (S (S (S (S (S (S (S (S (S (S (S (S (S (S (S (S (S
    (S (S (S (S (S (S (S (S (S (S (S (S (S (S (S (S (S (S (S (S (S (S (S (S
    (S (S (S (S (S (S (S (S (S (S (S (S (S (S (S (S (S (S (S (S (S (S (S (S
    (S (S (S (S (S (S (S (S (S (S (S (S (S (S (S (S (S (S (S (S (S (S (S (S
    (S (S (S (S (S (S (S (S (S (S (S (S (S (S (S (S (S (S (S (S (S (S (S (S
    (S (S (S (S (S (S (S (S (S (S (S (S (S (S (S (S (S (S (S (S (S (S (S (S
    (S (S (S (S (S (S (S (S (S (S (S (S (S (S (S (S (S (S (S (S (S (S (S (S
    (S (S (S (S (S (S (S (S (S (S (S (S (S (S (S (S (S (S (S (S
    O))))))))))))))))))))))))))))))))))))))))))))))))))))))))))))))))))))))))))))))))))))))))))))))))))))))))))))))))))))))))))))))))))))))))))))))))))))))))))))))))))))))))))))))))))))))))))))) :: ((S
    (S (S (S (S (S (S (S (S (S (S (S (S (S (S (S (S (S (S (S (S (S (S (S (S
    (S (S (S (S (S (S (S (S (S (S (S (S (S (S (S (S (S (S (S (S (S (S (S (S
    (S (S (S (S (S (S (S (S (S (S (S (S (S (S (S (S (S (S (S (S (S (S (S (S
    (S (S (S (S (S (S (S (S (S (S (S (S (S (S (S (S (S (S (S (S (S (S (S (S
    (S (S (S (S (S (S (S (S (S (S (S (S (S (S (S (S (S (S (S (S (S (S (S (S
    (S (S (S (S (S (S (S (S (S (S (S (S (S (S (S (S (S (S (S (S (S (S (S (S
    (S (S (S (S (S (S (S (S (S (S (S (S (S (S (S (S (S (S (S (S (S (S (S (S
    (S (S (S (S (S (S (S (S (S (S (S (S (S (S (S (S (S (S (S (S (S
    O)))))))))))))))))))))))))))))))))))))))))))))))))))))))))))))))))))))))))))))))))))))))))))))))))))))))))))))))))))))))))))))))))))))))))))))))))))))))))))))))))))))))))))))))))))))))))))))) :: ((S
    (S (S (S (S (S (S (S (S (S (S (S (S (S (S (S (S (S (S (S (S (S (S (S (S
    (S (S (S (S (S (S (S (S (S (S (S (S (S (S (S (S (S (S (S (S (S (S (S (S
    (S (S (S (S (S (S (S (S (S (S (S (S (S (S (S (S (S (S (S (S (S (S (S (S
    (S (S (S (S (S (S (S (S (S (S (S (S (S (S (S (S (S (S (S (S (S (S (S (S
    (S (S (S (S (S (S (S (S (S (S (S (S (S (S (S (S (S (S (S (S (S (S (S (S
    (S (S (S (S (S (S (S (S (S (S (S (S (S (S (S (S (S (S (S (S (S (S (S (S
    (S (S (S (S (S (S (S (S (S (S (S (S (S (S (S (S (S (S (S (S (S (S (S (S
    (S (S (S (S (S (S (S (S (S (S (S (S (S (S (S (S (S (S (S (S (S (S (S
    O)))))))))))))))))))))))))))))))))))))))))))))))))))))))))))))))))))))))))))))))))))))))))))))))))))))))))))))))))))))))))))))))))))))))))))))))))))))))))))))))))))))))))))))))))))))))))))))))) :: ((S
    (S (S (S (S (S (S (S (S (S (S (S (S (S (S (S (S (S (S (S (S (S (S (S (S
    (S (S (S (S (S (S (S (S (S (S (S (S (S (S (S (S (S (S (S (S (S (S (S (S
    (S (S (S (S (S (S (S (S (S (S (S (S (S (S (S (S (S (S (S (S (S (S (S (S
    (S (S (S (S (S (S (S (S (S (S (S (S (S (S (S (S (S (S (S (S (S (S (S (S
    (S (S (S (S (S (S (S (S (S (S (S (S (S (S (S (S (S (S (S (S (S (S (S (S
    (S (S (S (S (S (S (S (S (S (S (S (S (S (S (S (S (S (S (S (S (S (S (S (S
    (S (S (S (S (S (S (S (S (S (S (S (S (S (S (S (S (S (S (S (S (S (S (S (S
    (S (S (S (S (S (S (S (S (S (S (S (S (S (S (S (S (S (S (S (S (S (S (S (S
    O))))))))))))))))))))))))))))))))))))))))))))))))))))))))))))))))))))))))))))))))))))))))))))))))))))))))))))))))))))))))))))))))))))))))))))))))))))))))))))))))))))))))))))))))))))))))))))))))) :: ((S
    (S (S (S (S (S (S (S (S (S (S (S (S (S (S (S (S (S (S (S (S (S (S (S (S
    (S (S (S (S (S (S (S (S (S (S (S (S (S (S (S (S (S (S (S (S (S (S (S (S
    (S (S (S (S (S (S (S (S (S (S (S (S (S (S (S (S (S (S (S (S (S (S (S (S
    (S (S (S (S (S (S (S (S (S (S (S (S (S (S (S (S (S (S (S (S (S (S (S (S
    (S (S (S (S (S (S (S (S (S (S (S (S (S (S (S (S (S (S (S (S (S (S (S (S
    (S (S (S (S (S (S (S (S (S (S (S (S (S (S (S (S (S (S (S (S (S (S (S (S
    (S (S (S (S (S (S (S (S (S (S (S (S (S (S (S (S (S (S (S (S (S (S (S (S
    (S (S (S (S (S (S (S (S (S (S (S (S (S (S (S (S (S (S (S (S (S (S (S (S
    (S
    O)))))))))))))))))))))))))))))))))))))))))))))))))))))))))))))))))))))))))))))))))))))))))))))))))))))))))))))))))))))))))))))))))))))))))))))))))))))))))))))))))))))))))))))))))))))))))))))))))) :: ((S
    (S (S (S (S (S (S (S (S (S (S (S (S (S (S (S (S (S (S (S (S (S (S (S (S
    (S (S (S (S (S (S (S (S (S (S (S (S (S (S (S (S (S (S (S (S (S (S (S (S
    (S (S (S (S (S (S (S (S (S (S (S (S (S (S (S (S (S (S (S (S (S (S (S (S
    (S (S (S (S (S (S (S (S (S (S (S (S (S (S (S (S (S (S (S (S (S (S (S (S
    (S (S (S (S (S (S (S (S (S (S (S (S (S (S (S (S (S (S (S (S (S (S (S (S
    (S (S (S (S (S (S (S (S (S (S (S (S (S (S (S (S (S (S (S (S (S (S (S (S
    (S (S (S (S (S (S (S (S (S (S (S (S (S (S (S (S (S (S (S (S (S (S (S (S
    (S (S (S (S (S (S (S (S (S (S (S (S (S (S (S (S (S (S (S (S (S (S (S (S
    (S (S
    O))))))))))))))))))))))))))))))))))))))))))))))))))))))))))))))))))))))))))))))))))))))))))))))))))))))))))))))))))))))))))))))))))))))))))))))))))))))))))))))))))))))))))))))))))))))))))))))))))) :: ((S
    (S (S (S (S (S (S (S (S (S (S (S (S (S (S (S (S (S (S (S (S (S (S (S (S
    (S (S (S (S (S (S (S (S (S (S (S (S (S (S (S (S (S (S (S (S (S (S (S (S
    (S (S (S (S (S (S (S (S (S (S (S (S (S (S (S (S (S (S (S (S (S (S (S (S
    (S (S (S (S (S (S (S (S (S (S (S (S (S (S (S (S (S (S (S (S (S (S (S (S
    (S (S (S (S (S (S (S (S (S (S (S (S (S (S (S (S (S (S (S (S (S (S (S (S
    (S (S (S (S (S (S (S (S (S (S (S (S (S (S (S (S (S (S (S (S (S (S (S (S
    (S (S (S (S (S (S (S (S (S (S (S (S (S (S (S (S (S (S (S (S (S (S (S (S
    (S (S (S (S (S (S (S (S (S (S (S (S (S (S (S (S (S (S (S (S (S (S (S (S
    (S (S (S
    O)))))))))))))))))))))))))))))))))))))))))))))))))))))))))))))))))))))))))))))))))))))))))))))))))))))))))))))))))))))))))))))))))))))))))))))))))))))))))))))))))))))))))))))))))))))))))))))))))))) :: ((S
    (S (S (S (S (S (S (S (S (S (S (S (S (S (S (S (S (S (S (S (S (S (S (S (S
    (S (S (S (S (S (S (S (S (S (S (S (S (S (S (S (S (S (S (S (S (S (S (S (S
    (S (S (S (S (S (S (S (S (S (S (S (S (S (S (S (S (S (S (S (S (S (S (S (S
    (S (S (S (S (S (S (S (S (S (S (S (S (S (S (S (S (S (S (S (S (S (S (S (S
    (S (S (S (S (S (S (S (S (S (S (S (S (S (S (S (S (S (S (S (S (S (S (S (S
    (S (S (S (S (S (S (S (S (S (S (S (S (S (S (S (S (S (S (S (S (S (S (S (S
    (S (S (S (S (S (S (S (S (S (S (S (S (S (S (S (S (S (S (S (S (S (S (S (S
    (S (S (S (S (S (S (S (S (S (S (S (S (S (S (S (S (S (S (S (S (S (S (S (S
    (S (S (S (S
    O))))))))))))))))))))))))))))))))))))))))))))))))))))))))))))))))))))))))))))))))))))))))))))))))))))))))))))))))))))))))))))))))))))))))))))))))))))))))))))))))))))))))))))))))))))))))))))))))))))) :: ((S
    (S (S (S (S (S (S (S (S (S (S (S (S (S (S (S (S (S (S (S (S (S (S (S (S
    (S (S (S (S (S (S (S (S (S (S (S (S (S (S (S (S (S (S (S (S (S (S (S (S
    (S (S (S (S (S (S (S (S (S (S (S (S (S (S (S (S (S (S (S (S (S (S (S (S
    (S (S (S (S (S (S (S (S (S (S (S (S (S (S (S (S (S (S (S (S (S (S (S (S
    (S (S (S (S (S (S (S (S (S (S (S (S (S (S (S (S (S (S (S (S (S (S (S (S
    (S (S (S (S (S (S (S (S (S (S (S (S (S (S (S (S (S (S (S (S (S (S (S (S
    (S (S (S (S (S (S (S (S (S (S (S (S (S (S (S (S (S (S (S (S (S (S (S (S
    (S (S (S (S (S (S (S (S (S (S (S (S (S (S (S (S (S (S (S (S (S (S (S (S
    (S (S (S (S (S
    O)))))))))))))))))))))))))))))))))))))))))))))))))))))))))))))))))))))))))))))))))))))))))))))))))))))))))))))))))))))))))))))))))))))))))))))))))))))))))))))))))))))))))))))))))))))))))))))))))))))) :: ((S
    (S (S (S (S (S (S (S (S (S (S (S (S (S (S (S (S (S (S (S (S (S (S (S (S
    (S (S (S (S (S (S (S (S (S (S (S (S (S (S (S (S (S (S (S (S (S (S (S (S
    (S (S (S (S (S (S (S (S (S (S (S (S (S (S (S (S (S (S (S (S (S (S (S (S
    (S (S (S (S (S (S (S (S (S (S (S (S (S (S (S (S (S (S (S (S (S (S (S (S
    (S (S (S (S (S (S (S (S (S (S (S (S (S (S (S (S (S (S (S (S (S (S (S (S
    (S (S (S (S (S (S (S (S (S (S (S (S (S (S (S (S (S (S (S (S (S (S (S (S
    (S (S (S (S (S (S (S (S (S (S (S (S (S (S (S (S (S (S (S (S (S (S (S (S
    (S (S (S (S (S (S (S (S (S (S (S (S (S (S (S (S (S (S (S (S (S (S (S (S
    (S (S (S (S (S (S
    O))))))))))))))))))))))))))))))))))))))))))))))))))))))))))))))))))))))))))))))))))))))))))))))))))))))))))))))))))))))))))))))))))))))))))))))))))))))))))))))))))))))))))))))))))))))))))))))))))))))) :: ((S
    (S (S (S (S (S (S (S (S (S (S (S (S (S (S (S (S (S (S (S (S (S (S (S (S
    (S (S (S (S (S (S (S (S (S (S (S (S (S (S (S (S (S (S (S (S (S (S (S (S
    (S (S (S (S (S (S (S (S (S (S (S (S (S (S (S (S (S (S (S (S (S (S (S (S
    (S (S (S (S (S (S (S (S (S (S (S (S (S (S (S (S (S (S (S (S (S (S (S (S
    (S (S (S (S (S (S (S (S (S (S (S (S (S (S (S (S (S (S (S (S (S (S (S (S
    (S (S (S (S (S (S (S (S (S (S (S (S (S (S (S (S (S (S (S (S (S (S (S (S
    (S (S (S (S (S (S (S (S (S (S (S (S (S (S (S (S (S (S (S (S (S (S (S (S
    (S (S (S (S (S (S (S (S (S (S (S (S (S (S (S (S (S (S (S (S (S (S (S (S
    (S (S (S (S (S (S (S
    O)))))))))))))))))))))))))))))))))))))))))))))))))))))))))))))))))))))))))))))))))))))))))))))))))))))))))))))))))))))))))))))))))))))))))))))))))))))))))))))))))))))))))))))))))))))))))))))))))))))))) :: ((S
    (S (S (S (S (S (S (S (S (S (S (S (S (S (S (S (S (S (S (S (S (S (S (S (S
    (S (S (S (S (S (S (S (S (S (S (S (S (S (S (S (S (S (S (S (S (S (S (S (S
    (S (S (S (S (S (S (S (S (S (S (S (S (S (S (S (S (S (S (S (S (S (S (S (S
    (S (S (S (S (S (S (S (S (S (S (S (S (S (S (S (S (S (S (S (S (S (S (S (S
    (S (S (S (S (S (S (S (S (S (S (S (S (S (S (S (S (S (S (S (S (S (S (S (S
    (S (S (S (S (S (S (S (S (S (S (S (S (S (S (S (S (S (S (S (S (S (S (S (S
    (S (S (S (S (S (S (S (S (S (S (S (S (S (S (S (S (S (S (S (S (S (S (S (S
    (S (S (S (S (S (S (S (S (S (S (S (S (S (S (S (S (S (S (S (S (S (S (S (S
    (S (S (S (S (S (S (S (S
    O))))))))))))))))))))))))))))))))))))))))))))))))))))))))))))))))))))))))))))))))))))))))))))))))))))))))))))))))))))))))))))))))))))))))))))))))))))))))))))))))))))))))))))))))))))))))))))))))))))))))) :: ((S
    (S (S (S (S (S (S (S (S (S (S (S (S (S (S (S (S (S (S (S (S (S (S (S (S
    (S (S (S (S (S (S (S (S (S (S (S (S (S (S (S (S (S (S (S (S (S (S (S (S
    (S (S (S (S (S (S (S (S (S (S (S (S (S (S (S (S (S (S (S (S (S (S (S (S
    (S (S (S (S (S (S (S (S (S (S (S (S (S (S (S (S (S (S (S (S (S (S (S (S
    (S (S (S (S (S (S (S (S (S (S (S (S (S (S (S (S (S (S (S (S (S (S (S (S
    (S (S (S (S (S (S (S (S (S (S (S (S (S (S (S (S (S (S (S (S (S (S (S (S
    (S (S (S (S (S (S (S (S (S (S (S (S (S (S (S (S (S (S (S (S (S (S (S (S
    (S (S (S (S (S (S (S (S (S (S (S (S (S (S (S (S (S (S (S (S (S (S (S (S
    (S (S (S (S (S (S (S (S (S
    O)))))))))))))))))))))))))))))))))))))))))))))))))))))))))))))))))))))))))))))))))))))))))))))))))))))))))))))))))))))))))))))))))))))))))))))))))))))))))))))))))))))))))))))))))))))))))))))))))))))))))) :: ((S
    (S (S (S (S (S (S (S (S (S (S (S (S (S (S (S (S (S (S (S (S (S (S (S (S
    (S (S (S (S (S (S (S (S (S (S (S (S (S (S (S (S (S (S (S (S (S (S (S (S
    (S (S (S (S (S (S (S (S (S (S (S (S (S (S (S (S (S (S (S (S (S (S (S (S
    (S (S (S (S (S (S (S (S (S (S (S (S (S (S (S (S (S (S (S (S (S (S (S (S
    (S (S (S (S (S (S (S (S (S (S (S (S (S (S (S (S (S (S (S (S (S (S (S (S
    (S (S (S (S (S (S (S (S (S (S (S (S (S (S (S (S (S (S (S (S (S (S (S (S
    (S (S (S (S (S (S (S (S (S (S (S (S (S (S (S (S (S (S (S (S (S (S (S (S
    (S (S (S (S (S (S (S (S (S (S (S (S (S (S (S (S (S (S (S (S (S (S (S (S
    (S (S (S (S (S (S (S (S (S (S
    O))))))))))))))))))))))))))))))))))))))))))))))))))))))))))))))))))))))))))))))))))))))))))))))))))))))))))))))))))))))))))))))))))))))))))))))))))))))))))))))))))))))))))))))))))))))))))))))))))))))))))) :: ((S
    (S (S (S (S (S (S (S (S (S (S (S (S (S (S (S (S (S (S (S (S (S (S (S (S
    (S (S (S (S (S (S (S (S (S (S (S (S (S (S (S (S (S (S (S (S (S (S (S (S
    (S (S (S (S (S (S (S (S (S (S (S (S (S (S (S (S (S (S (S (S (S (S (S (S
    (S (S (S (S (S (S (S (S (S (S (S (S (S (S (S (S (S (S (S (S (S (S (S (S
    (S (S (S (S (S (S (S (S (S (S (S (S (S (S (S (S (S (S (S (S (S (S (S (S
    (S (S (S (S (S (S (S (S (S (S (S (S (S (S (S (S (S (S (S (S (S (S (S (S
    (S (S (S (S (S (S (S (S (S (S (S (S (S (S (S (S (S (S (S (S (S (S (S (S
    (S (S (S (S (S (S (S (S (S (S (S (S (S (S (S (S (S (S (S (S (S (S (S (S
    (S (S (S (S (S (S (S (S (S (S (S
    O)))))))))))))))))))))))))))))))))))))))))))))))))))))))))))))))))))))))))))))))))))))))))))))))))))))))))))))))))))))))))))))))))))))))))))))))))))))))))))))))))))))))))))))))))))))))))))))))))))))))))))) :: ((S
    (S (S (S (S (S (S (S (S (S (S (S (S (S (S (S (S (S (S (S (S (S (S (S (S
    (S (S (S (S (S (S (S (S (S (S (S (S (S (S (S (S (S (S (S (S (S (S (S (S
    (S (S (S (S (S (S (S (S (S (S (S (S (S (S (S (S (S (S (S (S (S (S (S (S
    (S (S (S (S (S (S (S (S (S (S (S (S (S (S (S (S (S (S (S (S (S (S (S (S
    (S (S (S (S (S (S (S (S (S (S (S (S (S (S (S (S (S (S (S (S (S (S (S (S
    (S (S (S (S (S (S (S (S (S (S (S (S (S (S (S (S (S (S (S (S (S (S (S (S
    (S (S (S (S (S (S (S (S (S (S (S (S (S (S (S (S (S (S (S (S (S (S (S (S
    (S (S (S (S (S (S (S (S (S (S (S (S (S (S (S (S (S (S (S (S (S (S (S (S
    (S (S (S (S (S (S (S (S (S (S (S (S
    O))))))))))))))))))))))))))))))))))))))))))))))))))))))))))))))))))))))))))))))))))))))))))))))))))))))))))))))))))))))))))))))))))))))))))))))))))))))))))))))))))))))))))))))))))))))))))))))))))))))))))))) :: ((S
    (S (S (S (S (S (S (S (S (S (S (S (S (S (S (S (S (S (S (S (S (S (S (S (S
    (S (S (S (S (S (S (S (S (S (S (S (S (S (S (S (S (S (S (S (S (S (S (S (S
    (S (S (S (S (S (S (S (S (S (S (S (S (S (S (S (S (S (S (S (S (S (S (S (S
    (S (S (S (S (S (S (S (S (S (S (S (S (S (S (S (S (S (S (S (S (S (S (S (S
    (S (S (S (S (S (S (S (S (S (S (S (S (S (S (S (S (S (S (S (S (S (S (S (S
    (S (S (S (S (S (S (S (S (S (S (S (S (S (S (S (S (S (S (S (S (S (S (S (S
    (S (S (S (S (S (S (S (S (S (S (S (S (S (S (S (S (S (S (S (S (S (S (S (S
    (S (S (S (S (S (S (S (S (S (S (S (S (S (S (S (S (S (S (S (S (S (S (S (S
    (S (S (S (S (S (S (S (S (S (S (S (S (S
    O)))))))))))))))))))))))))))))))))))))))))))))))))))))))))))))))))))))))))))))))))))))))))))))))))))))))))))))))))))))))))))))))))))))))))))))))))))))))))))))))))))))))))))))))))))))))))))))))))))))))))))))) :: ((S
    (S (S (S (S (S (S (S (S (S (S (S (S (S (S (S (S (S (S (S (S (S (S (S (S
    (S (S (S (S (S (S (S (S (S (S (S (S (S (S (S (S (S (S (S (S (S (S (S (S
    (S (S (S (S (S (S (S (S (S (S (S (S (S (S (S (S (S (S (S (S (S (S (S (S
    (S (S (S (S (S (S (S (S (S (S (S (S (S (S (S (S (S (S (S (S (S (S (S (S
    (S (S (S (S (S (S (S (S (S (S (S (S (S (S (S (S (S (S (S (S (S (S (S (S
    (S (S (S (S (S (S (S (S (S (S (S (S (S (S (S (S (S (S (S (S (S (S (S (S
    (S (S (S (S (S (S (S (S (S (S (S (S (S (S (S (S (S (S (S (S (S (S (S (S
    (S (S (S (S (S (S (S (S (S (S (S (S (S (S (S (S (S (S (S (S (S (S (S (S
    (S (S (S (S (S (S (S (S (S (S (S (S (S (S
    O))))))))))))))))))))))))))))))))))))))))))))))))))))))))))))))))))))))))))))))))))))))))))))))))))))))))))))))))))))))))))))))))))))))))))))))))))))))))))))))))))))))))))))))))))))))))))))))))))))))))))))))) :: ((S
    (S (S (S (S (S (S (S (S (S (S (S (S (S (S (S (S (S (S (S (S (S (S (S (S
    (S (S (S (S (S (S (S (S (S (S (S (S (S (S (S (S (S (S (S (S (S (S (S (S
    (S (S (S (S (S (S (S (S (S (S (S (S (S (S (S (S (S (S (S (S (S (S (S (S
    (S (S (S (S (S (S (S (S (S (S (S (S (S (S (S (S (S (S (S (S (S (S (S (S
    (S (S (S (S (S (S (S (S (S (S (S (S (S (S (S (S (S (S (S (S (S (S (S (S
    (S (S (S (S (S (S (S (S (S (S (S (S (S (S (S (S (S (S (S (S (S (S (S (S
    (S (S (S (S (S (S (S (S (S (S (S (S (S (S (S (S (S (S (S (S (S (S (S (S
    (S (S (S (S (S (S (S (S (S (S (S (S (S (S (S (S (S (S (S (S (S (S (S (S
    (S (S (S (S (S (S (S (S (S (S (S (S (S (S (S
    O)))))))))))))))))))))))))))))))))))))))))))))))))))))))))))))))))))))))))))))))))))))))))))))))))))))))))))))))))))))))))))))))))))))))))))))))))))))))))))))))))))))))))))))))))))))))))))))))))))))))))))))))) :: ((S
    (S (S (S (S (S (S (S (S (S (S (S (S (S (S (S (S (S (S (S (S (S (S (S (S
    (S (S (S (S (S (S (S (S (S (S (S (S (S (S (S (S (S (S (S (S (S (S (S (S
    (S (S (S (S (S (S (S (S (S (S (S (S (S (S (S (S (S (S (S (S (S (S (S (S
    (S (S (S (S (S (S (S (S (S (S (S (S (S (S (S (S (S (S (S (S (S (S (S (S
    (S (S (S (S (S (S (S (S (S (S (S (S (S (S (S (S (S (S (S (S (S (S (S (S
    (S (S (S (S (S (S (S (S (S (S (S (S (S (S (S (S (S (S (S (S (S (S (S (S
    (S (S (S (S (S (S (S (S (S (S (S (S (S (S (S (S (S (S (S (S (S (S (S (S
    (S (S (S (S (S (S (S (S (S (S (S (S (S (S (S (S (S (S (S (S (S (S (S (S
    (S (S (S (S (S (S (S (S (S (S (S (S (S (S (S (S
    O))))))))))))))))))))))))))))))))))))))))))))))))))))))))))))))))))))))))))))))))))))))))))))))))))))))))))))))))))))))))))))))))))))))))))))))))))))))))))))))))))))))))))))))))))))))))))))))))))))))))))))))))) :: ((S
    (S (S (S (S (S (S (S (S (S (S (S (S (S (S (S (S (S (S (S (S (S (S (S (S
    (S (S (S (S (S (S (S (S (S (S (S (S (S (S (S (S (S (S (S (S (S (S (S (S
    (S (S (S (S (S (S (S (S (S (S (S (S (S (S (S (S (S (S (S (S (S (S (S (S
    (S (S (S (S (S (S (S (S (S (S (S (S (S (S (S (S (S (S (S (S (S (S (S (S
    (S (S (S (S (S (S (S (S (S (S (S (S (S (S (S (S (S (S (S (S (S (S (S (S
    (S (S (S (S (S (S (S (S (S (S (S (S (S (S (S (S (S (S (S (S (S (S (S (S
    (S (S (S (S (S (S (S (S (S (S (S (S (S (S (S (S (S (S (S (S (S (S (S (S
    (S (S (S (S (S (S (S (S (S (S (S (S (S (S (S (S (S (S (S (S (S (S (S (S
    (S (S (S (S (S (S (S (S (S (S (S (S (S (S (S (S (S
    O)))))))))))))))))))))))))))))))))))))))))))))))))))))))))))))))))))))))))))))))))))))))))))))))))))))))))))))))))))))))))))))))))))))))))))))))))))))))))))))))))))))))))))))))))))))))))))))))))))))))))))))))))) :: ((S
    (S (S (S (S (S (S (S (S (S (S (S (S (S (S (S (S (S (S (S (S (S (S (S (S
    (S (S (S (S (S (S (S (S (S (S (S (S (S (S (S (S (S (S (S (S (S (S (S (S
    (S (S (S (S (S (S (S (S (S (S (S (S (S (S (S (S (S (S (S (S (S (S (S (S
    (S (S (S (S (S (S (S (S (S (S (S (S (S (S (S (S (S (S (S (S (S (S (S (S
    (S (S (S (S (S (S (S (S (S (S (S (S (S (S (S (S (S (S (S (S (S (S (S (S
    (S (S (S (S (S (S (S (S (S (S (S (S (S (S (S (S (S (S (S (S (S (S (S (S
    (S (S (S (S (S (S (S (S (S (S (S (S (S (S (S (S (S (S (S (S (S (S (S (S
    (S (S (S (S (S (S (S (S (S (S (S (S (S (S (S (S (S (S (S (S (S (S (S (S
    (S (S (S (S (S (S (S (S (S (S (S (S (S (S (S (S (S (S
    O))))))))))))))))))))))))))))))))))))))))))))))))))))))))))))))))))))))))))))))))))))))))))))))))))))))))))))))))))))))))))))))))))))))))))))))))))))))))))))))))))))))))))))))))))))))))))))))))))))))))))))))))))) :: ((S
    (S (S (S (S (S (S (S (S (S (S (S (S (S (S (S (S (S (S (S (S (S (S (S (S
    (S (S (S (S (S (S (S (S (S (S (S (S (S (S (S (S (S (S (S (S (S (S (S (S
    (S (S (S (S (S (S (S (S (S (S (S (S (S (S (S (S (S (S (S (S (S (S (S (S
    (S (S (S (S (S (S (S (S (S (S (S (S (S (S (S (S (S (S (S (S (S (S (S (S
    (S (S (S (S (S (S (S (S (S (S (S (S (S (S (S (S (S (S (S (S (S (S (S (S
    (S (S (S (S (S (S (S (S (S (S (S (S (S (S (S (S (S (S (S (S (S (S (S (S
    (S (S (S (S (S (S (S (S (S (S (S (S (S (S (S (S (S (S (S (S (S (S (S (S
    (S (S (S (S (S (S (S (S (S (S (S (S (S (S (S (S (S (S (S (S (S (S (S (S
    (S (S (S (S (S (S (S (S (S (S (S (S (S (S (S (S (S (S (S
    O)))))))))))))))))))))))))))))))))))))))))))))))))))))))))))))))))))))))))))))))))))))))))))))))))))))))))))))))))))))))))))))))))))))))))))))))))))))))))))))))))))))))))))))))))))))))))))))))))))))))))))))))))))) :: ((S
    (S (S (S (S (S (S (S (S (S (S (S (S (S (S (S (S (S (S (S (S (S (S (S (S
    (S (S (S (S (S (S (S (S (S (S (S (S (S (S (S (S (S (S (S (S (S (S (S (S
    (S (S (S (S (S (S (S (S (S (S (S (S (S (S (S (S (S (S (S (S (S (S (S (S
    (S (S (S (S (S (S (S (S (S (S (S (S (S (S (S (S (S (S (S (S (S (S (S (S
    (S (S (S (S (S (S (S (S (S (S (S (S (S (S (S (S (S (S (S (S (S (S (S (S
    (S (S (S (S (S (S (S (S (S (S (S (S (S (S (S (S (S (S (S (S (S (S (S (S
    (S (S (S (S (S (S (S (S (S (S (S (S (S (S (S (S (S (S (S (S (S (S (S (S
    (S (S (S (S (S (S (S (S (S (S (S (S (S (S (S (S (S (S (S (S (S (S (S (S
    (S (S (S (S (S (S (S (S (S (S (S (S (S (S (S (S (S (S (S (S
    O))))))))))))))))))))))))))))))))))))))))))))))))))))))))))))))))))))))))))))))))))))))))))))))))))))))))))))))))))))))))))))))))))))))))))))))))))))))))))))))))))))))))))))))))))))))))))))))))))))))))))))))))))))) :: ((S
    (S (S (S (S (S (S (S (S (S (S (S (S (S (S (S (S (S (S (S (S (S (S (S (S
    (S (S (S (S (S (S (S (S (S (S (S (S (S (S (S (S (S (S (S (S (S (S (S (S
    (S (S (S (S (S (S (S (S (S (S (S (S (S (S (S (S (S (S (S (S (S (S (S (S
    (S (S (S (S (S (S (S (S (S (S (S (S (S (S (S (S (S (S (S (S (S (S (S (S
    (S (S (S (S (S (S (S (S (S (S (S (S (S (S (S (S (S (S (S (S (S (S (S (S
    (S (S (S (S (S (S (S (S (S (S (S (S (S (S (S (S (S (S (S (S (S (S (S (S
    (S (S (S (S (S (S (S (S (S (S (S (S (S (S (S (S (S (S (S (S (S (S (S (S
    (S (S (S (S (S (S (S (S (S (S (S (S (S (S (S (S (S (S (S (S (S (S (S (S
    (S (S (S (S (S (S (S (S (S (S (S (S (S (S (S (S (S (S (S (S (S
    O)))))))))))))))))))))))))))))))))))))))))))))))))))))))))))))))))))))))))))))))))))))))))))))))))))))))))))))))))))))))))))))))))))))))))))))))))))))))))))))))))))))))))))))))))))))))))))))))))))))))))))))))))))))) :: ((S
    (S (S (S (S (S (S (S (S (S (S (S (S (S (S (S (S (S (S (S (S (S (S (S (S
    (S (S (S (S (S (S (S (S (S (S (S (S (S (S (S (S (S (S (S (S (S (S (S (S
    (S (S (S (S (S (S (S (S (S (S (S (S (S (S (S (S (S (S (S (S (S (S (S (S
    (S (S (S (S (S (S (S (S (S (S (S (S (S (S (S (S (S (S (S (S (S (S (S (S
    (S (S (S (S (S (S (S (S (S (S (S (S (S (S (S (S (S (S (S (S (S (S (S (S
    (S (S (S (S (S (S (S (S (S (S (S (S (S (S (S (S (S (S (S (S (S (S (S (S
    (S (S (S (S (S (S (S (S (S (S (S (S (S (S (S (S (S (S (S (S (S (S (S (S
    (S (S (S (S (S (S (S (S (S (S (S (S (S (S (S (S (S (S (S (S (S (S (S (S
    (S (S (S (S (S (S (S (S (S (S (S (S (S (S (S (S (S (S (S (S (S (S (S
    O)))))))))))))))))))))))))))))))))))))))))))))))))))))))))))))))))))))))))))))))))))))))))))))))))))))))))))))))))))))))))))))))))))))))))))))))))))))))))))))))))))))))))))))))))))))))))))))))))))))))))))))))))))))))) :: ((S
    (S (S (S (S (S (S (S (S (S (S (S (S (S (S (S (S (S (S (S (S (S (S (S (S
    (S (S (S (S (S (S (S (S (S (S (S (S (S (S (S (S (S (S (S (S (S (S (S (S
    (S (S (S (S (S (S (S (S (S (S (S (S (S (S (S (S (S (S (S (S (S (S (S (S
    (S (S (S (S (S (S (S (S (S (S (S (S (S (S (S (S (S (S (S (S (S (S (S (S
    (S (S (S (S (S (S (S (S (S (S (S (S (S (S (S (S (S (S (S (S (S (S (S (S
    (S (S (S (S (S (S (S (S (S (S (S (S (S (S (S (S (S (S (S (S (S (S (S (S
    (S (S (S (S (S (S (S (S (S (S (S (S (S (S (S (S (S (S (S (S (S (S (S (S
    (S (S (S (S (S (S (S (S (S (S (S (S (S (S (S (S (S (S (S (S (S (S (S (S
    (S (S (S (S (S (S (S (S (S (S (S (S (S (S (S (S (S (S (S (S (S (S (S (S
    O))))))))))))))))))))))))))))))))))))))))))))))))))))))))))))))))))))))))))))))))))))))))))))))))))))))))))))))))))))))))))))))))))))))))))))))))))))))))))))))))))))))))))))))))))))))))))))))))))))))))))))))))))))))))) :: ((S
    (S (S (S (S (S (S (S (S (S (S (S (S (S (S (S (S (S (S (S (S (S (S (S (S
    (S (S (S (S (S (S (S (S (S (S (S (S (S (S (S (S (S (S (S (S (S (S (S (S
    (S (S (S (S (S (S (S (S (S (S (S (S (S (S (S (S (S (S (S (S (S (S (S (S
    (S (S (S (S (S (S (S (S (S (S (S (S (S (S (S (S (S (S (S (S (S (S (S (S
    (S (S (S (S (S (S (S (S (S (S (S (S (S (S (S (S (S (S (S (S (S (S (S (S
    (S (S (S (S (S (S (S (S (S (S (S (S (S (S (S (S (S (S (S (S (S (S (S (S
    (S (S (S (S (S (S (S (S (S (S (S (S (S (S (S (S (S (S (S (S (S (S (S (S
    (S (S (S (S (S (S (S (S (S (S (S (S (S (S (S (S (S (S (S (S (S (S (S (S
    (S (S (S (S (S (S (S (S (S (S (S (S (S (S (S (S (S (S (S (S (S (S (S (S
    (S
    O)))))))))))))))))))))))))))))))))))))))))))))))))))))))))))))))))))))))))))))))))))))))))))))))))))))))))))))))))))))))))))))))))))))))))))))))))))))))))))))))))))))))))))))))))))))))))))))))))))))))))))))))))))))))))) :: ((S
    (S (S (S (S (S (S (S (S (S (S (S (S (S (S (S (S (S (S (S (S (S (S (S (S
    (S (S (S (S (S (S (S (S (S (S (S (S (S (S (S (S (S (S (S (S (S (S (S (S
    (S (S (S (S (S (S (S (S (S (S (S (S (S (S (S (S (S (S (S (S (S (S (S (S
    (S (S (S (S (S (S (S (S (S (S (S (S (S (S (S (S (S (S (S (S (S (S (S (S
    (S (S (S (S (S (S (S (S (S (S (S (S (S (S (S (S (S (S (S (S (S (S (S (S
    (S (S (S (S (S (S (S (S (S (S (S (S (S (S (S (S (S (S (S (S (S (S (S (S
    (S (S (S (S (S (S (S (S (S (S (S (S (S (S (S (S (S (S (S (S (S (S (S (S
    (S (S (S (S (S (S (S (S (S (S (S (S (S (S (S (S (S (S (S (S (S (S (S (S
    (S (S (S (S (S (S (S (S (S (S (S (S (S (S (S (S (S (S (S (S (S (S (S (S
    (S (S
    O))))))))))))))))))))))))))))))))))))))))))))))))))))))))))))))))))))))))))))))))))))))))))))))))))))))))))))))))))))))))))))))))))))))))))))))))))))))))))))))))))))))))))))))))))))))))))))))))))))))))))))))))))))))))))) :: ((S
    (S (S (S (S (S (S (S (S (S (S (S (S (S (S (S (S (S (S (S (S (S (S (S (S
    (S (S (S (S (S (S (S (S (S (S (S (S (S (S (S (S (S (S (S (S (S (S (S (S
    (S (S (S (S (S (S (S (S (S (S (S (S (S (S (S (S (S (S (S (S (S (S (S (S
    (S (S (S (S (S (S (S (S (S (S (S (S (S (S (S (S (S (S (S (S (S (S (S (S
    (S (S (S (S (S (S (S (S (S (S (S (S (S (S (S (S (S (S (S (S (S (S (S (S
    (S (S (S (S (S (S (S (S (S (S (S (S (S (S (S (S (S (S (S (S (S (S (S (S
    (S (S (S (S (S (S (S (S (S (S (S (S (S (S (S (S (S (S (S (S (S (S (S (S
    (S (S (S (S (S (S (S (S (S (S (S (S (S (S (S (S (S (S (S (S (S (S (S (S
    (S (S (S (S (S (S (S (S (S (S (S (S (S (S (S (S (S (S (S (S (S (S (S (S
    (S (S (S
    O)))))))))))))))))))))))))))))))))))))))))))))))))))))))))))))))))))))))))))))))))))))))))))))))))))))))))))))))))))))))))))))))))))))))))))))))))))))))))))))))))))))))))))))))))))))))))))))))))))))))))))))))))))))))))))) :: ((S
    (S (S (S (S (S (S (S (S (S (S (S (S (S (S (S (S (S (S (S (S (S (S (S (S
    (S (S (S (S (S (S (S (S (S (S (S (S (S (S (S (S (S (S (S (S (S (S (S (S
    (S (S (S (S (S (S (S (S (S (S (S (S (S (S (S (S (S (S (S (S (S (S (S (S
    (S (S (S (S (S (S (S (S (S (S (S (S (S (S (S (S (S (S (S (S (S (S (S (S
    (S (S (S (S (S (S (S (S (S (S (S (S (S (S (S (S (S (S (S (S (S (S (S (S
    (S (S (S (S (S (S (S (S (S (S (S (S (S (S (S (S (S (S (S (S (S (S (S (S
    (S (S (S (S (S (S (S (S (S (S (S (S (S (S (S (S (S (S (S (S (S (S (S (S
    (S (S (S (S (S (S (S (S (S (S (S (S (S (S (S (S (S (S (S (S (S (S (S (S
    (S (S (S (S (S (S (S (S (S (S (S (S (S (S (S (S (S (S (S (S (S (S (S (S
    (S (S (S (S
    O))))))))))))))))))))))))))))))))))))))))))))))))))))))))))))))))))))))))))))))))))))))))))))))))))))))))))))))))))))))))))))))))))))))))))))))))))))))))))))))))))))))))))))))))))))))))))))))))))))))))))))))))))))))))))))) :: ((S
    (S (S (S (S (S (S (S (S (S (S (S (S (S (S (S (S (S (S (S (S (S (S (S (S
    (S (S (S (S (S (S (S (S (S (S (S (S (S (S (S (S (S (S (S (S (S (S (S (S
    (S (S (S (S (S (S (S (S (S (S (S (S (S (S (S (S (S (S (S (S (S (S (S (S
    (S (S (S (S (S (S (S (S (S (S (S (S (S (S (S (S (S (S (S (S (S (S (S (S
    (S (S (S (S (S (S (S (S (S (S (S (S (S (S (S (S (S (S (S (S (S (S (S (S
    (S (S (S (S (S (S (S (S (S (S (S (S (S (S (S (S (S (S (S (S (S (S (S (S
    (S (S (S (S (S (S (S (S (S (S (S (S (S (S (S (S (S (S (S (S (S (S (S (S
    (S (S (S (S (S (S (S (S (S (S (S (S (S (S (S (S (S (S (S (S (S (S (S (S
    (S (S (S (S (S (S (S (S (S (S (S (S (S (S (S (S (S (S (S (S (S (S (S (S
    (S (S (S (S (S
    O)))))))))))))))))))))))))))))))))))))))))))))))))))))))))))))))))))))))))))))))))))))))))))))))))))))))))))))))))))))))))))))))))))))))))))))))))))))))))))))))))))))))))))))))))))))))))))))))))))))))))))))))))))))))))))))) :: ((S
    (S (S (S (S (S (S (S (S (S (S (S (S (S (S (S (S (S (S (S (S (S (S (S (S
    (S (S (S (S (S (S (S (S (S (S (S (S (S (S (S (S (S (S (S (S (S (S (S (S
    (S (S (S (S (S (S (S (S (S (S (S (S (S (S (S (S (S (S (S (S (S (S (S (S
    (S (S (S (S (S (S (S (S (S (S (S (S (S (S (S (S (S (S (S (S (S (S (S (S
    (S (S (S (S (S (S (S (S (S (S (S (S (S (S (S (S (S (S (S (S (S (S (S (S
    (S (S (S (S (S (S (S (S (S (S (S (S (S (S (S (S (S (S (S (S (S (S (S (S
    (S (S (S (S (S (S (S (S (S (S (S (S (S (S (S (S (S (S (S (S (S (S (S (S
    (S (S (S (S (S (S (S (S (S (S (S (S (S (S (S (S (S (S (S (S (S (S (S (S
    (S (S (S (S (S (S (S (S (S (S (S (S (S (S (S (S (S (S (S (S (S (S (S (S
    (S (S (S (S (S (S
    O))))))))))))))))))))))))))))))))))))))))))))))))))))))))))))))))))))))))))))))))))))))))))))))))))))))))))))))))))))))))))))))))))))))))))))))))))))))))))))))))))))))))))))))))))))))))))))))))))))))))))))))))))))))))))))))) :: ((S
    (S (S (S (S (S (S (S (S (S (S (S (S (S (S (S (S (S (S (S (S (S (S (S (S
    (S (S (S (S (S (S (S (S (S (S (S (S (S (S (S (S (S (S (S (S (S (S (S (S
    (S (S (S (S (S (S (S (S (S (S (S (S (S (S (S (S (S (S (S (S (S (S (S (S
    (S (S (S (S (S (S (S (S (S (S (S (S (S (S (S (S (S (S (S (S (S (S (S (S
    (S (S (S (S (S (S (S (S (S (S (S (S (S (S (S (S (S (S (S (S (S (S (S (S
    (S (S (S (S (S (S (S (S (S (S (S (S (S (S (S (S (S (S (S (S (S (S (S (S
    (S (S (S (S (S (S (S (S (S (S (S (S (S (S (S (S (S (S (S (S (S (S (S (S
    (S (S (S (S (S (S (S (S (S (S (S (S (S (S (S (S (S (S (S (S (S (S (S (S
    (S (S (S (S (S (S (S (S (S (S (S (S (S (S (S (S (S (S (S (S (S (S (S (S
    (S (S (S (S (S (S (S
    O)))))))))))))))))))))))))))))))))))))))))))))))))))))))))))))))))))))))))))))))))))))))))))))))))))))))))))))))))))))))))))))))))))))))))))))))))))))))))))))))))))))))))))))))))))))))))))))))))))))))))))))))))))))))))))))))) :: ((S
    (S (S (S (S (S (S (S (S (S (S (S (S (S (S (S (S (S (S (S (S (S (S (S (S
    (S (S (S (S (S (S (S (S (S (S (S (S (S (S (S (S (S (S (S (S (S (S (S (S
    (S (S (S (S (S (S (S (S (S (S (S (S (S (S (S (S (S (S (S (S (S (S (S (S
    (S (S (S (S (S (S (S (S (S (S (S (S (S (S (S (S (S (S (S (S (S (S (S (S
    (S (S (S (S (S (S (S (S (S (S (S (S (S (S (S (S (S (S (S (S (S (S (S (S
    (S (S (S (S (S (S (S (S (S (S (S (S (S (S (S (S (S (S (S (S (S (S (S (S
    (S (S (S (S (S (S (S (S (S (S (S (S (S (S (S (S (S (S (S (S (S (S (S (S
    (S (S (S (S (S (S (S (S (S (S (S (S (S (S (S (S (S (S (S (S (S (S (S (S
    (S (S (S (S (S (S (S (S (S (S (S (S (S (S (S (S (S (S (S (S (S (S (S (S
    (S (S (S (S (S (S (S (S
    O))))))))))))))))))))))))))))))))))))))))))))))))))))))))))))))))))))))))))))))))))))))))))))))))))))))))))))))))))))))))))))))))))))))))))))))))))))))))))))))))))))))))))))))))))))))))))))))))))))))))))))))))))))))))))))))))) :: ((S
    (S (S (S (S (S (S (S (S (S (S (S (S (S (S (S (S (S (S (S (S (S (S (S (S
    (S (S (S (S (S (S (S (S (S (S (S (S (S (S (S (S (S (S (S (S (S (S (S (S
    (S (S (S (S (S (S (S (S (S (S (S (S (S (S (S (S (S (S (S (S (S (S (S (S
    (S (S (S (S (S (S (S (S (S (S (S (S (S (S (S (S (S (S (S (S (S (S (S (S
    (S (S (S (S (S (S (S (S (S (S (S (S (S (S (S (S (S (S (S (S (S (S (S (S
    (S (S (S (S (S (S (S (S (S (S (S (S (S (S (S (S (S (S (S (S (S (S (S (S
    (S (S (S (S (S (S (S (S (S (S (S (S (S (S (S (S (S (S (S (S (S (S (S (S
    (S (S (S (S (S (S (S (S (S (S (S (S (S (S (S (S (S (S (S (S (S (S (S (S
    (S (S (S (S (S (S (S (S (S (S (S (S (S (S (S (S (S (S (S (S (S (S (S (S
    (S (S (S (S (S (S (S (S (S
    O)))))))))))))))))))))))))))))))))))))))))))))))))))))))))))))))))))))))))))))))))))))))))))))))))))))))))))))))))))))))))))))))))))))))))))))))))))))))))))))))))))))))))))))))))))))))))))))))))))))))))))))))))))))))))))))))))) :: ((S
    (S (S (S (S (S (S (S (S (S (S (S (S (S (S (S (S (S (S (S (S (S (S (S (S
    (S (S (S (S (S (S (S (S (S (S (S (S (S (S (S (S (S (S (S (S (S (S (S (S
    (S (S (S (S (S (S (S (S (S (S (S (S (S (S (S (S (S (S (S (S (S (S (S (S
    (S (S (S (S (S (S (S (S (S (S (S (S (S (S (S (S (S (S (S (S (S (S (S (S
    (S (S (S (S (S (S (S (S (S (S (S (S (S (S (S (S (S (S (S (S (S (S (S (S
    (S (S (S (S (S (S (S (S (S (S (S (S (S (S (S (S (S (S (S (S (S (S (S (S
    (S (S (S (S (S (S (S (S (S (S (S (S (S (S (S (S (S (S (S (S (S (S (S (S
    (S (S (S (S (S (S (S (S (S (S (S (S (S (S (S (S (S (S (S (S (S (S (S (S
    (S (S (S (S (S (S (S (S (S (S (S (S (S (S (S (S (S (S (S (S (S (S (S (S
    (S (S (S (S (S (S (S (S (S (S
    O))))))))))))))))))))))))))))))))))))))))))))))))))))))))))))))))))))))))))))))))))))))))))))))))))))))))))))))))))))))))))))))))))))))))))))))))))))))))))))))))))))))))))))))))))))))))))))))))))))))))))))))))))))))))))))))))))) :: ((S
    (S (S (S (S (S (S (S (S (S (S (S (S (S (S (S (S (S (S (S (S (S (S (S (S
    (S (S (S (S (S (S (S (S (S (S (S (S (S (S (S (S (S (S (S (S (S (S (S (S
    (S (S (S (S (S (S (S (S (S (S (S (S (S (S (S (S (S (S (S (S (S (S (S (S
    (S (S (S (S (S (S (S (S (S (S (S (S (S (S (S (S (S (S (S (S (S (S (S (S
    (S (S (S (S (S (S (S (S (S (S (S (S (S (S (S (S (S (S (S (S (S (S (S (S
    (S (S (S (S (S (S (S (S (S (S (S (S (S (S (S (S (S (S (S (S (S (S (S (S
    (S (S (S (S (S (S (S (S (S (S (S (S (S (S (S (S (S (S (S (S (S (S (S (S
    (S (S (S (S (S (S (S (S (S (S (S (S (S (S (S (S (S (S (S (S (S (S (S (S
    (S (S (S (S (S (S (S (S (S (S (S (S (S (S (S (S (S (S (S (S (S (S (S (S
    (S (S (S (S (S (S (S (S (S (S (S
    O)))))))))))))))))))))))))))))))))))))))))))))))))))))))))))))))))))))))))))))))))))))))))))))))))))))))))))))))))))))))))))))))))))))))))))))))))))))))))))))))))))))))))))))))))))))))))))))))))))))))))))))))))))))))))))))))))))) :: ((S
    (S (S (S (S (S (S (S (S (S (S (S (S (S (S (S (S (S (S (S (S (S (S (S (S
    (S (S (S (S (S (S (S (S (S (S (S (S (S (S (S (S (S (S (S (S (S (S (S (S
    (S (S (S (S (S (S (S (S (S (S (S (S (S (S (S (S (S (S (S (S (S (S (S (S
    (S (S (S (S (S (S (S (S (S (S (S (S (S (S (S (S (S (S (S (S (S (S (S (S
    (S (S (S (S (S (S (S (S (S (S (S (S (S (S (S (S (S (S (S (S (S (S (S (S
    (S (S (S (S (S (S (S (S (S (S (S (S (S (S (S (S (S (S (S (S (S (S (S (S
    (S (S (S (S (S (S (S (S (S (S (S (S (S (S (S (S (S (S (S (S (S (S (S (S
    (S (S (S (S (S (S (S (S (S (S (S (S (S (S (S (S (S (S (S (S (S (S (S (S
    (S (S (S (S (S (S (S (S (S (S (S (S (S (S (S (S (S (S (S (S (S (S (S (S
    (S (S (S (S (S (S (S (S (S (S (S (S
    O))))))))))))))))))))))))))))))))))))))))))))))))))))))))))))))))))))))))))))))))))))))))))))))))))))))))))))))))))))))))))))))))))))))))))))))))))))))))))))))))))))))))))))))))))))))))))))))))))))))))))))))))))))))))))))))))))))) :: ((S
    (S (S (S (S (S (S (S (S (S (S (S (S (S (S (S (S (S (S (S (S (S (S (S (S
    (S (S (S (S (S (S (S (S (S (S (S (S (S (S (S (S (S (S (S (S (S (S (S (S
    (S (S (S (S (S (S (S (S (S (S (S (S (S (S (S (S (S (S (S (S (S (S (S (S
    (S (S (S (S (S (S (S (S (S (S (S (S (S (S (S (S (S (S (S (S (S (S (S (S
    (S (S (S (S (S (S (S (S (S (S (S (S (S (S (S (S (S (S (S (S (S (S (S (S
    (S (S (S (S (S (S (S (S (S (S (S (S (S (S (S (S (S (S (S (S (S (S (S (S
    (S (S (S (S (S (S (S (S (S (S (S (S (S (S (S (S (S (S (S (S (S (S (S (S
    (S (S (S (S (S (S (S (S (S (S (S (S (S (S (S (S (S (S (S (S (S (S (S (S
    (S (S (S (S (S (S (S (S (S (S (S (S (S (S (S (S (S (S (S (S (S (S (S (S
    (S (S (S (S (S (S (S (S (S (S (S (S (S
    O)))))))))))))))))))))))))))))))))))))))))))))))))))))))))))))))))))))))))))))))))))))))))))))))))))))))))))))))))))))))))))))))))))))))))))))))))))))))))))))))))))))))))))))))))))))))))))))))))))))))))))))))))))))))))))))))))))))) :: ((S
    (S (S (S (S (S (S (S (S (S (S (S (S (S (S (S (S (S (S (S (S (S (S (S (S
    (S (S (S (S (S (S (S (S (S (S (S (S (S (S (S (S (S (S (S (S (S (S (S (S
    (S (S (S (S (S (S (S (S (S (S (S (S (S (S (S (S (S (S (S (S (S (S (S (S
    (S (S (S (S (S (S (S (S (S (S (S (S (S (S (S (S (S (S (S (S (S (S (S (S
    (S (S (S (S (S (S (S (S (S (S (S (S (S (S (S (S (S (S (S (S (S (S (S (S
    (S (S (S (S (S (S (S (S (S (S (S (S (S (S (S (S (S (S (S (S (S (S (S (S
    (S (S (S (S (S (S (S (S (S (S (S (S (S (S (S (S (S (S (S (S (S (S (S (S
    (S (S (S (S (S (S (S (S (S (S (S (S (S (S (S (S (S (S (S (S (S (S (S (S
    (S (S (S (S (S (S (S (S (S (S (S (S (S (S (S (S (S (S (S (S (S (S (S (S
    (S (S (S (S (S (S (S (S (S (S (S (S (S (S
    O))))))))))))))))))))))))))))))))))))))))))))))))))))))))))))))))))))))))))))))))))))))))))))))))))))))))))))))))))))))))))))))))))))))))))))))))))))))))))))))))))))))))))))))))))))))))))))))))))))))))))))))))))))))))))))))))))))))) :: ((S
    (S (S (S (S (S (S (S (S (S (S (S (S (S (S (S (S (S (S (S (S (S (S (S (S
    (S (S (S (S (S (S (S (S (S (S (S (S (S (S (S (S (S (S (S (S (S (S (S (S
    (S (S (S (S (S (S (S (S (S (S (S (S (S (S (S (S (S (S (S (S (S (S (S (S
    (S (S (S (S (S (S (S (S (S (S (S (S (S (S (S (S (S (S (S (S (S (S (S (S
    (S (S (S (S (S (S (S (S (S (S (S (S (S (S (S (S (S (S (S (S (S (S (S (S
    (S (S (S (S (S (S (S (S (S (S (S (S (S (S (S (S (S (S (S (S (S (S (S (S
    (S (S (S (S (S (S (S (S (S (S (S (S (S (S (S (S (S (S (S (S (S (S (S (S
    (S (S (S (S (S (S (S (S (S (S (S (S (S (S (S (S (S (S (S (S (S (S (S (S
    (S (S (S (S (S (S (S (S (S (S (S (S (S (S (S (S (S (S (S (S (S (S (S (S
    (S (S (S (S (S (S (S (S (S (S (S (S (S (S (S
    O)))))))))))))))))))))))))))))))))))))))))))))))))))))))))))))))))))))))))))))))))))))))))))))))))))))))))))))))))))))))))))))))))))))))))))))))))))))))))))))))))))))))))))))))))))))))))))))))))))))))))))))))))))))))))))))))))))))))) :: ((S
    (S (S (S (S (S (S (S (S (S (S (S (S (S (S (S (S (S (S (S (S (S (S (S (S
    (S (S (S (S (S (S (S (S (S (S (S (S (S (S (S (S (S (S (S (S (S (S (S (S
    (S (S (S (S (S (S (S (S (S (S (S (S (S (S (S (S (S (S (S (S (S (S (S (S
    (S (S (S (S (S (S (S (S (S (S (S (S (S (S (S (S (S (S (S (S (S (S (S (S
    (S (S (S (S (S (S (S (S (S (S (S (S (S (S (S (S (S (S (S (S (S (S (S (S
    (S (S (S (S (S (S (S (S (S (S (S (S (S (S (S (S (S (S (S (S (S (S (S (S
    (S (S (S (S (S (S (S (S (S (S (S (S (S (S (S (S (S (S (S (S (S (S (S (S
    (S (S (S (S (S (S (S (S (S (S (S (S (S (S (S (S (S (S (S (S (S (S (S (S
    (S (S (S (S (S (S (S (S (S (S (S (S (S (S (S (S (S (S (S (S (S (S (S (S
    (S (S (S (S (S (S (S (S (S (S (S (S (S (S (S (S
    O))))))))))))))))))))))))))))))))))))))))))))))))))))))))))))))))))))))))))))))))))))))))))))))))))))))))))))))))))))))))))))))))))))))))))))))))))))))))))))))))))))))))))))))))))))))))))))))))))))))))))))))))))))))))))))))))))))))))) :: ((S
    (S (S (S (S (S (S (S (S (S (S (S (S (S (S (S (S (S (S (S (S (S (S (S (S
    (S (S (S (S (S (S (S (S (S (S (S (S (S (S (S (S (S (S (S (S (S (S (S (S
    (S (S (S (S (S (S (S (S (S (S (S (S (S (S (S (S (S (S (S (S (S (S (S (S
    (S (S (S (S (S (S (S (S (S (S (S (S (S (S (S (S (S (S (S (S (S (S (S (S
    (S (S (S (S (S (S (S (S (S (S (S (S (S (S (S (S (S (S (S (S (S (S (S (S
    (S (S (S (S (S (S (S (S (S (S (S (S (S (S (S (S (S (S (S (S (S (S (S (S
    (S (S (S (S (S (S (S (S (S (S (S (S (S (S (S (S (S (S (S (S (S (S (S (S
    (S (S (S (S (S (S (S (S (S (S (S (S (S (S (S (S (S (S (S (S (S (S (S (S
    (S (S (S (S (S (S (S (S (S (S (S (S (S (S (S (S (S (S (S (S (S (S (S (S
    (S (S (S (S (S (S (S (S (S (S (S (S (S (S (S (S (S
    O)))))))))))))))))))))))))))))))))))))))))))))))))))))))))))))))))))))))))))))))))))))))))))))))))))))))))))))))))))))))))))))))))))))))))))))))))))))))))))))))))))))))))))))))))))))))))))))))))))))))))))))))))))))))))))))))))))))))))) :: ((S
    (S (S (S (S (S (S (S (S (S (S (S (S (S (S (S (S (S (S (S (S (S (S (S (S
    (S (S (S (S (S (S (S (S (S (S (S (S (S (S (S (S (S (S (S (S (S (S (S (S
    (S (S (S (S (S (S (S (S (S (S (S (S (S (S (S (S (S (S (S (S (S (S (S (S
    (S (S (S (S (S (S (S (S (S (S (S (S (S (S (S (S (S (S (S (S (S (S (S (S
    (S (S (S (S (S (S (S (S (S (S (S (S (S (S (S (S (S (S (S (S (S (S (S (S
    (S (S (S (S (S (S (S (S (S (S (S (S (S (S (S (S (S (S (S (S (S (S (S (S
    (S (S (S (S (S (S (S (S (S (S (S (S (S (S (S (S (S (S (S (S (S (S (S (S
    (S (S (S (S (S (S (S (S (S (S (S (S (S (S (S (S (S (S (S (S (S (S (S (S
    (S (S (S (S (S (S (S (S (S (S (S (S (S (S (S (S (S (S (S (S (S (S (S (S
    (S (S (S (S (S (S (S (S (S (S (S (S (S (S (S (S (S (S
    O))))))))))))))))))))))))))))))))))))))))))))))))))))))))))))))))))))))))))))))))))))))))))))))))))))))))))))))))))))))))))))))))))))))))))))))))))))))))))))))))))))))))))))))))))))))))))))))))))))))))))))))))))))))))))))))))))))))))))) :: ((S
    (S (S (S (S (S (S (S (S (S (S (S (S (S (S (S (S (S (S (S (S (S (S (S (S
    (S (S (S (S (S (S (S (S (S (S (S (S (S (S (S (S (S (S (S (S (S (S (S (S
    (S (S (S (S (S (S (S (S (S (S (S (S (S (S (S (S (S (S (S (S (S (S (S (S
    (S (S (S (S (S (S (S (S (S (S (S (S (S (S (S (S (S (S (S (S (S (S (S (S
    (S (S (S (S (S (S (S (S (S (S (S (S (S (S (S (S (S (S (S (S (S (S (S (S
    (S (S (S (S (S (S (S (S (S (S (S (S (S (S (S (S (S (S (S (S (S (S (S (S
    (S (S (S (S (S (S (S (S (S (S (S (S (S (S (S (S (S (S (S (S (S (S (S (S
    (S (S (S (S (S (S (S (S (S (S (S (S (S (S (S (S (S (S (S (S (S (S (S (S
    (S (S (S (S (S (S (S (S (S (S (S (S (S (S (S (S (S (S (S (S (S (S (S (S
    (S (S (S (S (S (S (S (S (S (S (S (S (S (S (S (S (S (S (S
    O)))))))))))))))))))))))))))))))))))))))))))))))))))))))))))))))))))))))))))))))))))))))))))))))))))))))))))))))))))))))))))))))))))))))))))))))))))))))))))))))))))))))))))))))))))))))))))))))))))))))))))))))))))))))))))))))))))))))))))) :: ((S
    (S (S (S (S (S (S (S (S (S (S (S (S (S (S (S (S (S (S (S (S (S (S (S (S
    (S (S (S (S (S (S (S (S (S (S (S (S (S (S (S (S (S (S (S (S (S (S (S (S
    (S (S (S (S (S (S (S (S (S (S (S (S (S (S (S (S (S (S (S (S (S (S (S (S
    (S (S (S (S (S (S (S (S (S (S (S (S (S (S (S (S (S (S (S (S (S (S (S (S
    (S (S (S (S (S (S (S (S (S (S (S (S (S (S (S (S (S (S (S (S (S (S (S (S
    (S (S (S (S (S (S (S (S (S (S (S (S (S (S (S (S (S (S (S (S (S (S (S (S
    (S (S (S (S (S (S (S (S (S (S (S (S (S (S (S (S (S (S (S (S (S (S (S (S
    (S (S (S (S (S (S (S (S (S (S (S (S (S (S (S (S (S (S (S (S (S (S (S (S
    (S (S (S (S (S (S (S (S (S (S (S (S (S (S (S (S (S (S (S (S (S (S (S (S
    (S (S (S (S (S (S (S (S (S (S (S (S (S (S (S (S (S (S (S (S
    O))))))))))))))))))))))))))))))))))))))))))))))))))))))))))))))))))))))))))))))))))))))))))))))))))))))))))))))))))))))))))))))))))))))))))))))))))))))))))))))))))))))))))))))))))))))))))))))))))))))))))))))))))))))))))))))))))))))))))))) :: ((S
    (S (S (S (S (S (S (S (S (S (S (S (S (S (S (S (S (S (S (S (S (S (S (S (S
    (S (S (S (S (S (S (S (S (S (S (S (S (S (S (S (S (S (S (S (S (S (S (S (S
    (S (S (S (S (S (S (S (S (S (S (S (S (S (S (S (S (S (S (S (S (S (S (S (S
    (S (S (S (S (S (S (S (S (S (S (S (S (S (S (S (S (S (S (S (S (S (S (S (S
    (S (S (S (S (S (S (S (S (S (S (S (S (S (S (S (S (S (S (S (S (S (S (S (S
    (S (S (S (S (S (S (S (S (S (S (S (S (S (S (S (S (S (S (S (S (S (S (S (S
    (S (S (S (S (S (S (S (S (S (S (S (S (S (S (S (S (S (S (S (S (S (S (S (S
    (S (S (S (S (S (S (S (S (S (S (S (S (S (S (S (S (S (S (S (S (S (S (S (S
    (S (S (S (S (S (S (S (S (S (S (S (S (S (S (S (S (S (S (S (S (S (S (S (S
    (S (S (S (S (S (S (S (S (S (S (S (S (S (S (S (S (S (S (S (S (S
    O)))))))))))))))))))))))))))))))))))))))))))))))))))))))))))))))))))))))))))))))))))))))))))))))))))))))))))))))))))))))))))))))))))))))))))))))))))))))))))))))))))))))))))))))))))))))))))))))))))))))))))))))))))))))))))))))))))))))))))))) :: ((S
    (S (S (S (S (S (S (S (S (S (S (S (S (S (S (S (S (S (S (S (S (S (S (S (S
    (S (S (S (S (S (S (S (S (S (S (S (S (S (S (S (S (S (S (S (S (S (S (S (S
    (S (S (S (S (S (S (S (S (S (S (S (S (S (S (S (S (S (S (S (S (S (S (S (S
    (S (S (S (S (S (S (S (S (S (S (S (S (S (S (S (S (S (S (S (S (S (S (S (S
    (S (S (S (S (S (S (S (S (S (S (S (S (S (S (S (S (S (S (S (S (S (S (S (S
    (S (S (S (S (S (S (S (S (S (S (S (S (S (S (S (S (S (S (S (S (S (S (S (S
    (S (S (S (S (S (S (S (S (S (S (S (S (S (S (S (S (S (S (S (S (S (S (S (S
    (S (S (S (S (S (S (S (S (S (S (S (S (S (S (S (S (S (S (S (S (S (S (S (S
    (S (S (S (S (S (S (S (S (S (S (S (S (S (S (S (S (S (S (S (S (S (S (S (S
    (S (S (S (S (S (S (S (S (S (S (S (S (S (S (S (S (S (S (S (S (S (S
    O))))))))))))))))))))))))))))))))))))))))))))))))))))))))))))))))))))))))))))))))))))))))))))))))))))))))))))))))))))))))))))))))))))))))))))))))))))))))))))))))))))))))))))))))))))))))))))))))))))))))))))))))))))))))))))))))))))))))))))))) :: ((S
    (S (S (S (S (S (S (S (S (S (S (S (S (S (S (S (S (S (S (S (S (S (S (S (S
    (S (S (S (S (S (S (S (S (S (S (S (S (S (S (S (S (S (S (S (S (S (S (S (S
    (S (S (S (S (S (S (S (S (S (S (S (S (S (S (S (S (S (S (S (S (S (S (S (S
    (S (S (S (S (S (S (S (S (S (S (S (S (S (S (S (S (S (S (S (S (S (S (S (S
    (S (S (S (S (S (S (S (S (S (S (S (S (S (S (S (S (S (S (S (S (S (S (S (S
    (S (S (S (S (S (S (S (S (S (S (S (S (S (S (S (S (S (S (S (S (S (S (S (S
    (S (S (S (S (S (S (S (S (S (S (S (S (S (S (S (S (S (S (S (S (S (S (S (S
    (S (S (S (S (S (S (S (S (S (S (S (S (S (S (S (S (S (S (S (S (S (S (S (S
    (S (S (S (S (S (S (S (S (S (S (S (S (S (S (S (S (S (S (S (S (S (S (S (S
    (S (S (S (S (S (S (S (S (S (S (S (S (S (S (S (S (S (S (S (S (S (S (S
    O)))))))))))))))))))))))))))))))))))))))))))))))))))))))))))))))))))))))))))))))))))))))))))))))))))))))))))))))))))))))))))))))))))))))))))))))))))))))))))))))))))))))))))))))))))))))))))))))))))))))))))))))))))))))))))))))))))))))))))))))) :: ((S
    (S (S (S (S (S (S (S (S (S (S (S (S (S (S (S (S (S (S (S (S (S (S (S (S
    (S (S (S (S (S (S (S (S (S (S (S (S (S (S (S (S (S (S (S (S (S (S (S (S
    (S (S (S (S (S (S (S (S (S (S (S (S (S (S (S (S (S (S (S (S (S (S (S (S
    (S (S (S (S (S (S (S (S (S (S (S (S (S (S (S (S (S (S (S (S (S (S (S (S
    (S (S (S (S (S (S (S (S (S (S (S (S (S (S (S (S (S (S (S (S (S (S (S (S
    (S (S (S (S (S (S (S (S (S (S (S (S (S (S (S (S (S (S (S (S (S (S (S (S
    (S (S (S (S (S (S (S (S (S (S (S (S (S (S (S (S (S (S (S (S (S (S (S (S
    (S (S (S (S (S (S (S (S (S (S (S (S (S (S (S (S (S (S (S (S (S (S (S (S
    (S (S (S (S (S (S (S (S (S (S (S (S (S (S (S (S (S (S (S (S (S (S (S (S
    (S (S (S (S (S (S (S (S (S (S (S (S (S (S (S (S (S (S (S (S (S (S (S (S
    O))))))))))))))))))))))))))))))))))))))))))))))))))))))))))))))))))))))))))))))))))))))))))))))))))))))))))))))))))))))))))))))))))))))))))))))))))))))))))))))))))))))))))))))))))))))))))))))))))))))))))))))))))))))))))))))))))))))))))))))))) :: ((S
    (S (S (S (S (S (S (S (S (S (S (S (S (S (S (S (S (S (S (S (S (S (S (S (S
    (S (S (S (S (S (S (S (S (S (S (S (S (S (S (S (S (S (S (S (S (S (S (S (S
    (S (S (S (S (S (S (S (S (S (S (S (S (S (S (S (S (S (S (S (S (S (S (S (S
    (S (S (S (S (S (S (S (S (S (S (S (S (S (S (S (S (S (S (S (S (S (S (S (S
    (S (S (S (S (S (S (S (S (S (S (S (S (S (S (S (S (S (S (S (S (S (S (S (S
    (S (S (S (S (S (S (S (S (S (S (S (S (S (S (S (S (S (S (S (S (S (S (S (S
    (S (S (S (S (S (S (S (S (S (S (S (S (S (S (S (S (S (S (S (S (S (S (S (S
    (S (S (S (S (S (S (S (S (S (S (S (S (S (S (S (S (S (S (S (S (S (S (S (S
    (S (S (S (S (S (S (S (S (S (S (S (S (S (S (S (S (S (S (S (S (S (S (S (S
    (S (S (S (S (S (S (S (S (S (S (S (S (S (S (S (S (S (S (S (S (S (S (S (S
    (S
    O)))))))))))))))))))))))))))))))))))))))))))))))))))))))))))))))))))))))))))))))))))))))))))))))))))))))))))))))))))))))))))))))))))))))))))))))))))))))))))))))))))))))))))))))))))))))))))))))))))))))))))))))))))))))))))))))))))))))))))))))))) :: ((S
    (S (S (S (S (S (S (S (S (S (S (S (S (S (S (S (S (S (S (S (S (S (S (S (S
    (S (S (S (S (S (S (S (S (S (S (S (S (S (S (S (S (S (S (S (S (S (S (S (S
    (S (S (S (S (S (S (S (S (S (S (S (S (S (S (S (S (S (S (S (S (S (S (S (S
    (S (S (S (S (S (S (S (S (S (S (S (S (S (S (S (S (S (S (S (S (S (S (S (S
    (S (S (S (S (S (S (S (S (S (S (S (S (S (S (S (S (S (S (S (S (S (S (S (S
    (S (S (S (S (S (S (S (S (S (S (S (S (S (S (S (S (S (S (S (S (S (S (S (S
    (S (S (S (S (S (S (S (S (S (S (S (S (S (S (S (S (S (S (S (S (S (S (S (S
    (S (S (S (S (S (S (S (S (S (S (S (S (S (S (S (S (S (S (S (S (S (S (S (S
    (S (S (S (S (S (S (S (S (S (S (S (S (S (S (S (S (S (S (S (S (S (S (S (S
    (S (S (S (S (S (S (S (S (S (S (S (S (S (S (S (S (S (S (S (S (S (S (S (S
    (S (S
    O))))))))))))))))))))))))))))))))))))))))))))))))))))))))))))))))))))))))))))))))))))))))))))))))))))))))))))))))))))))))))))))))))))))))))))))))))))))))))))))))))))))))))))))))))))))))))))))))))))))))))))))))))))))))))))))))))))))))))))))))))) :: ((S
    (S (S (S (S (S (S (S (S (S (S (S (S (S (S (S (S (S (S (S (S (S (S (S (S
    (S (S (S (S (S (S (S (S (S (S (S (S (S (S (S (S (S (S (S (S (S (S (S (S
    (S (S (S (S (S (S (S (S (S (S (S (S (S (S (S (S (S (S (S (S (S (S (S (S
    (S (S (S (S (S (S (S (S (S (S (S (S (S (S (S (S (S (S (S (S (S (S (S (S
    (S (S (S (S (S (S (S (S (S (S (S (S (S (S (S (S (S (S (S (S (S (S (S (S
    (S (S (S (S (S (S (S (S (S (S (S (S (S (S (S (S (S (S (S (S (S (S (S (S
    (S (S (S (S (S (S (S (S (S (S (S (S (S (S (S (S (S (S (S (S (S (S (S (S
    (S (S (S (S (S (S (S (S (S (S (S (S (S (S (S (S (S (S (S (S (S (S (S (S
    (S (S (S (S (S (S (S (S (S (S (S (S (S (S (S (S (S (S (S (S (S (S (S (S
    (S (S (S (S (S (S (S (S (S (S (S (S (S (S (S (S (S (S (S (S (S (S (S (S
    (S (S (S
    O)))))))))))))))))))))))))))))))))))))))))))))))))))))))))))))))))))))))))))))))))))))))))))))))))))))))))))))))))))))))))))))))))))))))))))))))))))))))))))))))))))))))))))))))))))))))))))))))))))))))))))))))))))))))))))))))))))))))))))))))))))) :: ((S
    (S (S (S (S (S (S (S (S (S (S (S (S (S (S (S (S (S (S (S (S (S (S (S (S
    (S (S (S (S (S (S (S (S (S (S (S (S (S (S (S (S (S (S (S (S (S (S (S (S
    (S (S (S (S (S (S (S (S (S (S (S (S (S (S (S (S (S (S (S (S (S (S (S (S
    (S (S (S (S (S (S (S (S (S (S (S (S (S (S (S (S (S (S (S (S (S (S (S (S
    (S (S (S (S (S (S (S (S (S (S (S (S (S (S (S (S (S (S (S (S (S (S (S (S
    (S (S (S (S (S (S (S (S (S (S (S (S (S (S (S (S (S (S (S (S (S (S (S (S
    (S (S (S (S (S (S (S (S (S (S (S (S (S (S (S (S (S (S (S (S (S (S (S (S
    (S (S (S (S (S (S (S (S (S (S (S (S (S (S (S (S (S (S (S (S (S (S (S (S
    (S (S (S (S (S (S (S (S (S (S (S (S (S (S (S (S (S (S (S (S (S (S (S (S
    (S (S (S (S (S (S (S (S (S (S (S (S (S (S (S (S (S (S (S (S (S (S (S (S
    (S (S (S (S
    O))))))))))))))))))))))))))))))))))))))))))))))))))))))))))))))))))))))))))))))))))))))))))))))))))))))))))))))))))))))))))))))))))))))))))))))))))))))))))))))))))))))))))))))))))))))))))))))))))))))))))))))))))))))))))))))))))))))))))))))))))))) :: ((S
    (S (S (S (S (S (S (S (S (S (S (S (S (S (S (S (S (S (S (S (S (S (S (S (S
    (S (S (S (S (S (S (S (S (S (S (S (S (S (S (S (S (S (S (S (S (S (S (S (S
    (S (S (S (S (S (S (S (S (S (S (S (S (S (S (S (S (S (S (S (S (S (S (S (S
    (S (S (S (S (S (S (S (S (S (S (S (S (S (S (S (S (S (S (S (S (S (S (S (S
    (S (S (S (S (S (S (S (S (S (S (S (S (S (S (S (S (S (S (S (S (S (S (S (S
    (S (S (S (S (S (S (S (S (S (S (S (S (S (S (S (S (S (S (S (S (S (S (S (S
    (S (S (S (S (S (S (S (S (S (S (S (S (S (S (S (S (S (S (S (S (S (S (S (S
    (S (S (S (S (S (S (S (S (S (S (S (S (S (S (S (S (S (S (S (S (S (S (S (S
    (S (S (S (S (S (S (S (S (S (S (S (S (S (S (S (S (S (S (S (S (S (S (S (S
    (S (S (S (S (S (S (S (S (S (S (S (S (S (S (S (S (S (S (S (S (S (S (S (S
    (S (S (S (S (S
    O)))))))))))))))))))))))))))))))))))))))))))))))))))))))))))))))))))))))))))))))))))))))))))))))))))))))))))))))))))))))))))))))))))))))))))))))))))))))))))))))))))))))))))))))))))))))))))))))))))))))))))))))))))))))))))))))))))))))))))))))))))))) :: ((S
    (S (S (S (S (S (S (S (S (S (S (S (S (S (S (S (S (S (S (S (S (S (S (S (S
    (S (S (S (S (S (S (S (S (S (S (S (S (S (S (S (S (S (S (S (S (S (S (S (S
    (S (S (S (S (S (S (S (S (S (S (S (S (S (S (S (S (S (S (S (S (S (S (S (S
    (S (S (S (S (S (S (S (S (S (S (S (S (S (S (S (S (S (S (S (S (S (S (S (S
    (S (S (S (S (S (S (S (S (S (S (S (S (S (S (S (S (S (S (S (S (S (S (S (S
    (S (S (S (S (S (S (S (S (S (S (S (S (S (S (S (S (S (S (S (S (S (S (S (S
    (S (S (S (S (S (S (S (S (S (S (S (S (S (S (S (S (S (S (S (S (S (S (S (S
    (S (S (S (S (S (S (S (S (S (S (S (S (S (S (S (S (S (S (S (S (S (S (S (S
    (S (S (S (S (S (S (S (S (S (S (S (S (S (S (S (S (S (S (S (S (S (S (S (S
    (S (S (S (S (S (S (S (S (S (S (S (S (S (S (S (S (S (S (S (S (S (S (S (S
    (S (S (S (S (S (S (S
    O)))))))))))))))))))))))))))))))))))))))))))))))))))))))))))))))))))))))))))))))))))))))))))))))))))))))))))))))))))))))))))))))))))))))))))))))))))))))))))))))))))))))))))))))))))))))))))))))))))))))))))))))))))))))))))))))))))))))))))))))))))))))) :: ((S
    (S (S (S (S (S (S (S (S (S (S (S (S (S (S (S (S (S (S (S (S (S (S (S (S
    (S (S (S (S (S (S (S (S (S (S (S (S (S (S (S (S (S (S (S (S (S (S (S (S
    (S (S (S (S (S (S (S (S (S (S (S (S (S (S (S (S (S (S (S (S (S (S (S (S
    (S (S (S (S (S (S (S (S (S (S (S (S (S (S (S (S (S (S (S (S (S (S (S (S
    (S (S (S (S (S (S (S (S (S (S (S (S (S (S (S (S (S (S (S (S (S (S (S (S
    (S (S (S (S (S (S (S (S (S (S (S (S (S (S (S (S (S (S (S (S (S (S (S (S
    (S (S (S (S (S (S (S (S (S (S (S (S (S (S (S (S (S (S (S (S (S (S (S (S
    (S (S (S (S (S (S (S (S (S (S (S (S (S (S (S (S (S (S (S (S (S (S (S (S
    (S (S (S (S (S (S (S (S (S (S (S (S (S (S (S (S (S (S (S (S (S (S (S (S
    (S (S (S (S (S (S (S (S (S (S (S (S (S (S (S (S (S (S (S (S (S (S (S (S
    (S (S (S (S (S (S (S (S
    O))))))))))))))))))))))))))))))))))))))))))))))))))))))))))))))))))))))))))))))))))))))))))))))))))))))))))))))))))))))))))))))))))))))))))))))))))))))))))))))))))))))))))))))))))))))))))))))))))))))))))))))))))))))))))))))))))))))))))))))))))))))))) :: ((S
    (S (S (S (S (S (S (S (S (S (S (S (S (S (S (S (S (S (S (S (S (S (S (S (S
    (S (S (S (S (S (S (S (S (S (S (S (S (S (S (S (S (S (S (S (S (S (S (S (S
    (S (S (S (S (S (S (S (S (S (S (S (S (S (S (S (S (S (S (S (S (S (S (S (S
    (S (S (S (S (S (S (S (S (S (S (S (S (S (S (S (S (S (S (S (S (S (S (S (S
    (S (S (S (S (S (S (S (S (S (S (S (S (S (S (S (S (S (S (S (S (S (S (S (S
    (S (S (S (S (S (S (S (S (S (S (S (S (S (S (S (S (S (S (S (S (S (S (S (S
    (S (S (S (S (S (S (S (S (S (S (S (S (S (S (S (S (S (S (S (S (S (S (S (S
    (S (S (S (S (S (S (S (S (S (S (S (S (S (S (S (S (S (S (S (S (S (S (S (S
    (S (S (S (S (S (S (S (S (S (S (S (S (S (S (S (S (S (S (S (S (S (S (S (S
    (S (S (S (S (S (S (S (S (S (S (S (S (S (S (S (S (S (S (S (S (S (S (S (S
    (S (S (S (S (S (S (S (S (S
    O)))))))))))))))))))))))))))))))))))))))))))))))))))))))))))))))))))))))))))))))))))))))))))))))))))))))))))))))))))))))))))))))))))))))))))))))))))))))))))))))))))))))))))))))))))))))))))))))))))))))))))))))))))))))))))))))))))))))))))))))))))))))))) :: ((S
    (S (S (S (S (S (S (S (S (S (S (S (S (S (S (S (S (S (S (S (S (S (S (S (S
    (S (S (S (S (S (S (S (S (S (S (S (S (S (S (S (S (S (S (S (S (S (S (S (S
    (S (S (S (S (S (S (S (S (S (S (S (S (S (S (S (S (S (S (S (S (S (S (S (S
    (S (S (S (S (S (S (S (S (S (S (S (S (S (S (S (S (S (S (S (S (S (S (S (S
    (S (S (S (S (S (S (S (S (S (S (S (S (S (S (S (S (S (S (S (S (S (S (S (S
    (S (S (S (S (S (S (S (S (S (S (S (S (S (S (S (S (S (S (S (S (S (S (S (S
    (S (S (S (S (S (S (S (S (S (S (S (S (S (S (S (S (S (S (S (S (S (S (S (S
    (S (S (S (S (S (S (S (S (S (S (S (S (S (S (S (S (S (S (S (S (S (S (S (S
    (S (S (S (S (S (S (S (S (S (S (S (S (S (S (S (S (S (S (S (S (S (S (S (S
    (S (S (S (S (S (S (S (S (S (S (S (S (S (S (S (S (S (S (S (S (S (S (S (S
    (S (S (S (S (S (S (S (S (S (S
    O))))))))))))))))))))))))))))))))))))))))))))))))))))))))))))))))))))))))))))))))))))))))))))))))))))))))))))))))))))))))))))))))))))))))))))))))))))))))))))))))))))))))))))))))))))))))))))))))))))))))))))))))))))))))))))))))))))))))))))))))))))))))))) :: ((S
    (S (S (S (S (S (S (S (S (S (S (S (S (S (S (S (S (S (S (S (S (S (S (S (S
    (S (S (S (S (S (S (S (S (S (S (S (S (S (S (S (S (S (S (S (S (S (S (S (S
    (S (S (S (S (S (S (S (S (S (S (S (S (S (S (S (S (S (S (S (S (S (S (S (S
    (S (S (S (S (S (S (S (S (S (S (S (S (S (S (S (S (S (S (S (S (S (S (S (S
    (S (S (S (S (S (S (S (S (S (S (S (S (S (S (S (S (S (S (S (S (S (S (S (S
    (S (S (S (S (S (S (S (S (S (S (S (S (S (S (S (S (S (S (S (S (S (S (S (S
    (S (S (S (S (S (S (S (S (S (S (S (S (S (S (S (S (S (S (S (S (S (S (S (S
    (S (S (S (S (S (S (S (S (S (S (S (S (S (S (S (S (S (S (S (S (S (S (S (S
    (S (S (S (S (S (S (S (S (S (S (S (S (S (S (S (S (S (S (S (S (S (S (S (S
    (S (S (S (S (S (S (S (S (S (S (S (S (S (S (S (S (S (S (S (S (S (S (S (S
    (S (S (S (S (S (S (S (S (S (S (S
    O)))))))))))))))))))))))))))))))))))))))))))))))))))))))))))))))))))))))))))))))))))))))))))))))))))))))))))))))))))))))))))))))))))))))))))))))))))))))))))))))))))))))))))))))))))))))))))))))))))))))))))))))))))))))))))))))))))))))))))))))))))))))))))) :: ((S
    (S (S (S (S (S (S (S (S (S (S (S (S (S (S (S (S (S (S (S (S (S (S (S (S
    (S (S (S (S (S (S (S (S (S (S (S (S (S (S (S (S (S (S (S (S (S (S (S (S
    (S (S (S (S (S (S (S (S (S (S (S (S (S (S (S (S (S (S (S (S (S (S (S (S
    (S (S (S (S (S (S (S (S (S (S (S (S (S (S (S (S (S (S (S (S (S (S (S (S
    (S (S (S (S (S (S (S (S (S (S (S (S (S (S (S (S (S (S (S (S (S (S (S (S
    (S (S (S (S (S (S (S (S (S (S (S (S (S (S (S (S (S (S (S (S (S (S (S (S
    (S (S (S (S (S (S (S (S (S (S (S (S (S (S (S (S (S (S (S (S (S (S (S (S
    (S (S (S (S (S (S (S (S (S (S (S (S (S (S (S (S (S (S (S (S (S (S (S (S
    (S (S (S (S (S (S (S (S (S (S (S (S (S (S (S (S (S (S (S (S (S (S (S (S
    (S (S (S (S (S (S (S (S (S (S (S (S (S (S (S (S (S (S (S (S (S (S (S (S
    (S (S (S (S (S (S (S (S (S (S (S (S
    O))))))))))))))))))))))))))))))))))))))))))))))))))))))))))))))))))))))))))))))))))))))))))))))))))))))))))))))))))))))))))))))))))))))))))))))))))))))))))))))))))))))))))))))))))))))))))))))))))))))))))))))))))))))))))))))))))))))))))))))))))))))))))))) :: ((S
    (S (S (S (S (S (S (S (S (S (S (S (S (S (S (S (S (S (S (S (S (S (S (S (S
    (S (S (S (S (S (S (S (S (S (S (S (S (S (S (S (S (S (S (S (S (S (S (S (S
    (S (S (S (S (S (S (S (S (S (S (S (S (S (S (S (S (S (S (S (S (S (S (S (S
    (S (S (S (S (S (S (S (S (S (S (S (S (S (S (S (S (S (S (S (S (S (S (S (S
    (S (S (S (S (S (S (S (S (S (S (S (S (S (S (S (S (S (S (S (S (S (S (S (S
    (S (S (S (S (S (S (S (S (S (S (S (S (S (S (S (S (S (S (S (S (S (S (S (S
    (S (S (S (S (S (S (S (S (S (S (S (S (S (S (S (S (S (S (S (S (S (S (S (S
    (S (S (S (S (S (S (S (S (S (S (S (S (S (S (S (S (S (S (S (S (S (S (S (S
    (S (S (S (S (S (S (S (S (S (S (S (S (S (S (S (S (S (S (S (S (S (S (S (S
    (S (S (S (S (S (S (S (S (S (S (S (S (S (S (S (S (S (S (S (S (S (S (S (S
    (S (S (S (S (S (S (S (S (S (S (S (S (S
    O)))))))))))))))))))))))))))))))))))))))))))))))))))))))))))))))))))))))))))))))))))))))))))))))))))))))))))))))))))))))))))))))))))))))))))))))))))))))))))))))))))))))))))))))))))))))))))))))))))))))))))))))))))))))))))))))))))))))))))))))))))))))))))))) :: ((S
    (S (S (S (S (S (S (S (S (S (S (S (S (S (S (S (S (S (S (S (S (S (S (S (S
    (S (S (S (S (S (S (S (S (S (S (S (S (S (S (S (S (S (S (S (S (S (S (S (S
    (S (S (S (S (S (S (S (S (S (S (S (S (S (S (S (S (S (S (S (S (S (S (S (S
    (S (S (S (S (S (S (S (S (S (S (S (S (S (S (S (S (S (S (S (S (S (S (S (S
    (S (S (S (S (S (S (S (S (S (S (S (S (S (S (S (S (S (S (S (S (S (S (S (S
    (S (S (S (S (S (S (S (S (S (S (S (S (S (S (S (S (S (S (S (S (S (S (S (S
    (S (S (S (S (S (S (S (S (S (S (S (S (S (S (S (S (S (S (S (S (S (S (S (S
    (S (S (S (S (S (S (S (S (S (S (S (S (S (S (S (S (S (S (S (S (S (S (S (S
    (S (S (S (S (S (S (S (S (S (S (S (S (S (S (S (S (S (S (S (S (S (S (S (S
    (S (S (S (S (S (S (S (S (S (S (S (S (S (S (S (S (S (S (S (S (S (S (S (S
    (S (S (S (S (S (S (S (S (S (S (S (S (S (S
    O))))))))))))))))))))))))))))))))))))))))))))))))))))))))))))))))))))))))))))))))))))))))))))))))))))))))))))))))))))))))))))))))))))))))))))))))))))))))))))))))))))))))))))))))))))))))))))))))))))))))))))))))))))))))))))))))))))))))))))))))))))))))))))))) :: [])))))))))))))))))))))))))))))))))))))))))))))))))))))))))))))))))))))))))))))))))))))))))))))))))))))))))))))))))))))))))))))))))))))

(** val splitlines_codes : nat list **)

let splitlines_codes =
  (S (S (S (S (S (S (S (S (S (S O)))))))))) :: ((S (S (S (S (S (S (S (S (S (S
    (S O))))))))))) :: ((S (S (S (S (S (S (S (S (S (S (S (S
    O)))))))))))) :: ((S (S (S (S (S (S (S (S (S (S (S (S (S
    O))))))))))))) :: ((S (S (S (S (S (S (S (S (S (S (S (S (S (S (S (S (S (S
    (S (S (S (S (S (S (S (S (S (S O)))))))))))))))))))))))))))) :: ((S (S (S
    (S (S (S (S (S (S (S (S (S (S (S (S (S (S (S (S (S (S (S (S (S (S (S (S
    (S (S O))))))))))))))))))))))))))))) :: ((S (S (S (S (S (S (S (S (S (S (S
    (S (S (S (S (S (S (S (S (S (S (S (S (S (S (S (S (S (S (S
    O)))))))))))))))))))))))))))))) :: ((S (S (S (S (S (S (S (S (S (S (S (S
    (S (S (S (S (S (S (S (S (S (S (S (S (S (S (S (S (S (S (S (S (S (S (S (S
    (S (S (S (S (S (S (S (S (S (S (S (S (S (S (S (S (S (S (S (S (S (S (S (S
    (S (S (S (S (S (S (S (S (S (S (S (S (S (S (S (S (S (S (S (S (S (S (S (S
    (S (S (S (S (S (S (S (S (S (S (S (S (S (S (S (S (S (S (S (S (S (S (S (S
    (S (S (S (S (S (S (S (S (S (S (S (S (S (S (S (S (S (S (S (S (S (S (S (S
    (S
    O))))))))))))))))))))))))))))))))))))))))))))))))))))))))))))))))))))))))))))))))))))))))))))))))))))))))))))))))))))))))))))))))))))) :: [])))))))

(** val str_strip_codes : nat list **)

let str_strip_codes =
  (S (S (S (S (S (S (S (S (S O))))))))) :: ((S (S (S (S (S (S (S (S (S (S
    O)))))))))) :: ((S (S (S (S (S (S (S (S (S (S (S O))))))))))) :: ((S (S
    (S (S (S (S (S (S (S (S (S (S O)))))))))))) :: ((S (S (S (S (S (S (S (S
    (S (S (S (S (S O))))))))))))) :: ((S (S (S (S (S (S (S (S (S (S (S (S (S
    (S (S (S (S (S (S (S (S (S (S (S (S (S (S (S
    O)))))))))))))))))))))))))))) :: ((S (S (S (S (S (S (S (S (S (S (S (S (S
    (S (S (S (S (S (S (S (S (S (S (S (S (S (S (S (S
    O))))))))))))))))))))))))))))) :: ((S (S (S (S (S (S (S (S (S (S (S (S (S
    (S (S (S (S (S (S (S (S (S (S (S (S (S (S (S (S (S
    O)))))))))))))))))))))))))))))) :: ((S (S (S (S (S (S (S (S (S (S (S (S
    (S (S (S (S (S (S (S (S (S (S (S (S (S (S (S (S (S (S (S
    O))))))))))))))))))))))))))))))) :: ((S (S (S (S (S (S (S (S (S (S (S (S
    (S (S (S (S (S (S (S (S (S (S (S (S (S (S (S (S (S (S (S (S
    O)))))))))))))))))))))))))))))))) :: ((S (S (S (S (S (S (S (S (S (S (S (S
    (S (S (S (S (S (S (S (S (S (S (S (S (S (S (S (S (S (S (S (S (S (S (S (S
    (S (S (S (S (S (S (S (S (S (S (S (S (S (S (S (S (S (S (S (S (S (S (S (S
    (S (S (S (S (S (S (S (S (S (S (S (S (S (S (S (S (S (S (S (S (S (S (S (S
    (S (S (S (S (S (S (S (S (S (S (S (S (S (S (S (S (S (S (S (S (S (S (S (S
    (S (S (S (S (S (S (S (S (S (S (S (S (S (S (S (S (S (S (S (S (S (S (S (S
    (S
    O))))))))))))))))))))))))))))))))))))))))))))))))))))))))))))))))))))))))))))))))))))))))))))))))))))))))))))))))))))))))))))))))))))) :: ((S
    (S (S (S (S (S (S (S (S (S (S (S (S (S (S (S (S (S (S (S (S (S (S (S (S
    (S (S (S (S (S (S (S (S (S (S (S (S (S (S (S (S (S (S (S (S (S (S (S (S
    (S (S (S (S (S (S (S (S (S (S (S (S (S (S (S (S (S (S (S (S (S (S (S (S
    (S (S (S (S (S (S (S (S (S (S (S (S (S (S (S (S (S (S (S (S (S (S (S (S
    (S (S (S (S (S (S (S (S (S (S (S (S (S (S (S (S (S (S (S (S (S (S (S (S
    (S (S (S (S (S (S (S (S (S (S (S (S (S (S (S (S (S (S (S (S (S (S (S (S
    (S (S (S (S (S (S (S (S (S (S (S (S (S (S (S
    O)))))))))))))))))))))))))))))))))))))))))))))))))))))))))))))))))))))))))))))))))))))))))))))))))))))))))))))))))))))))))))))))))))))))))))))))))))))))))))))))) :: [])))))))))))

(** val model_template_typed : char list **)

let model_template_typed =
  append
    ('c'::('l'::('a'::('s'::('s'::(' '::('M'::('o'::('d'::('e'::('l'::('('::('B'::('a'::('s'::('e'::('M'::('o'::('d'::('e'::('l'::(')'::(':'::[])))))))))))))))))))))))
    (append ((ascii_of_nat (S (S (S (S (S (S (S (S (S (S O)))))))))))::[])
      (append
        (' '::(' '::(' '::(' '::('E'::('N'::('D'::('O'::('G'::('E'::('N'::('O'::('U'::('S'::(':'::(' '::('L'::('i'::('s'::('t'::('['::('s'::('t'::('r'::(']'::(' '::('='::(' '::('{'::('e'::('n'::('d'::('o'::('g'::('e'::('n'::('o'::('u'::('s'::('}'::[]))))))))))))))))))))))))))))))))))))))))
        (append
          ((ascii_of_nat (S (S (S (S (S (S (S (S (S (S O)))))))))))::[])
          (append
            (' '::(' '::(' '::(' '::('E'::('X'::('O'::('G'::('E'::('N'::('O'::('U'::('S'::(':'::(' '::('L'::('i'::('s'::('t'::('['::('s'::('t'::('r'::(']'::(' '::('='::(' '::('{'::('e'::('x'::('o'::('g'::('e'::('n'::('o'::('u'::('s'::('}'::[]))))))))))))))))))))))))))))))))))))))
            (append
              ((ascii_of_nat (S (S (S (S (S (S (S (S (S (S O)))))))))))::[])
              (append
                ((ascii_of_nat (S (S (S (S (S (S (S (S (S (S O)))))))))))::[])
                (append
                  (' '::(' '::(' '::(' '::('P'::('A'::('R'::('A'::('M'::('E'::('T'::('E'::('R'::('S'::(':'::(' '::('L'::('i'::('s'::('t'::('['::('s'::('t'::('r'::(']'::(' '::('='::(' '::('{'::('p'::('a'::('r'::('a'::('m'::('e'::('t'::('e'::('r'::('s'::('}'::[]))))))))))))))))))))))))))))))))))))))))
                  (append
                    ((ascii_of_nat (S (S (S (S (S (S (S (S (S (S O)))))))))))::[])
                    (append
                      (' '::(' '::(' '::(' '::('E'::('R'::('R'::('O'::('R'::('S'::(':'::(' '::('L'::('i'::('s'::('t'::('['::('s'::('t'::('r'::(']'::(' '::('='::(' '::('{'::('e'::('r'::('r'::('o'::('r'::('s'::('}'::[]))))))))))))))))))))))))))))))))
                      (append
                        ((ascii_of_nat (S (S (S (S (S (S (S (S (S (S
                           O)))))))))))::[])
                        (append
                          ((ascii_of_nat (S (S (S (S (S (S (S (S (S (S
                             O)))))))))))::[])
                          (append
                            (' '::(' '::(' '::(' '::('N'::('A'::('M'::('E'::('S'::(':'::(' '::('L'::('i'::('s'::('t'::('['::('s'::('t'::('r'::(']'::(' '::('='::(' '::('E'::('N'::('D'::('O'::('G'::('E'::('N'::('O'::('U'::('S'::(' '::('+'::(' '::('E'::('X'::('O'::('G'::('E'::('N'::('O'::('U'::('S'::(' '::('+'::(' '::('P'::('A'::('R'::('A'::('M'::('E'::('T'::('E'::('R'::('S'::(' '::('+'::(' '::('E'::('R'::('R'::('O'::('R'::('S'::[])))))))))))))))))))))))))))))))))))))))))))))))))))))))))))))))))))
                            (append
                              ((ascii_of_nat (S (S (S (S (S (S (S (S (S (S
                                 O)))))))))))::[])
                              (append
                                (' '::(' '::(' '::(' '::('C'::('H'::('E'::('C'::('K'::(':'::(' '::('L'::('i'::('s'::('t'::('['::('s'::('t'::('r'::(']'::(' '::('='::(' '::('E'::('N'::('D'::('O'::('G'::('E'::('N'::('O'::('U'::('S'::[])))))))))))))))))))))))))))))))))
                                (append
                                  ((ascii_of_nat (S (S (S (S (S (S (S (S (S
                                     (S O)))))))))))::[])
                                  (append
                                    ((ascii_of_nat (S (S (S (S (S (S (S (S (S
                                       (S O)))))))))))::[])
                                    (append
                                      (' '::(' '::(' '::(' '::('L'::('A'::('G'::('S'::(':'::(' '::('i'::('n'::('t'::(' '::('='::(' '::('{'::('l'::('a'::('g'::('s'::('}'::[]))))))))))))))))))))))
                                      (append
                                        ((ascii_of_nat (S (S (S (S (S (S (S
                                           (S (S (S O)))))))))))::[])
                                        (append
                                          (' '::(' '::(' '::(' '::('L'::('E'::('A'::('D'::('S'::(':'::(' '::('i'::('n'::('t'::(' '::('='::(' '::('{'::('l'::('e'::('a'::('d'::('s'::('}'::[]))))))))))))))))))))))))
                                          (append
                                            ((ascii_of_nat (S (S (S (S (S (S
                                               (S (S (S (S O)))))))))))::[])
                                            (append
                                              ((ascii_of_nat (S (S (S (S (S
                                                 (S (S (S (S (S O)))))))))))::[])
                                              (append
                                                (' '::(' '::(' '::(' '::('d'::('e'::('f'::(' '::('s'::('o'::('l'::('v'::('e'::('_'::('t'::('_'::('b'::('e'::('f'::('o'::('r'::('e'::('('::('s'::('e'::('l'::('f'::(','::(' '::('t'::(':'::(' '::('i'::('n'::('t'::(','::(' '::('*'::(','::(' '::('e'::('r'::('r'::('o'::('r'::('s'::(':'::(' '::('s'::('t'::('r'::(' '::('='::(' '::('\''::('r'::('a'::('i'::('s'::('e'::('\''::(','::(' '::('c'::('a'::('t'::('c'::('h'::('_'::('f'::('i'::('r'::('s'::('t'::('_'::('e'::('r'::('r'::('o'::('r'::(':'::(' '::('b'::('o'::('o'::('l'::(' '::('='::(' '::('T'::('r'::('u'::('e'::(','::(' '::('i'::('t'::('e'::('r'::('a'::('t'::('i'::('o'::('n'::(':'::(' '::('O'::('p'::('t'::('i'::('o'::('n'::('a'::('l'::('['::('i'::('n'::('t'::(']'::(' '::('='::(' '::('N'::('o'::('n'::('e'::(','::(' '::('*'::('*'::('k'::('w'::('a'::('r'::('g'::('s'::(':'::(' '::('A'::('n'::('y'::(')'::(' '::('-'::('>'::(' '::('N'::('o'::('n'::('e'::(':'::[])))))))))))))))))))))))))))))))))))))))))))))))))))))))))))))))))))))))))))))))))))))))))))))))))))))))))))))))))))))))))))))))))))))))))))))))))))))))
                                                (append
                                                  ((ascii_of_nat (S (S (S (S
                                                     (S (S (S (S (S (S
                                                     O)))))))))))::[])
                                                  (append
                                                    (' '::(' '::(' '::(' '::(' '::(' '::(' '::(' '::('"'::('"'::('"'::('P'::('r'::('e'::('-'::('s'::('o'::('l'::('u'::('t'::('i'::('o'::('n'::(' '::('m'::('e'::('t'::('h'::('o'::('d'::(':'::(' '::('T'::('h'::('i'::('s'::(' '::('r'::('u'::('n'::('s'::(' '::('e'::('a'::('c'::('h'::(' '::('p'::('e'::('r'::('i'::('o'::('d'::(','::(' '::('b'::('e'::('f'::('o'::('r'::('e'::(' '::('t'::('h'::('e'::(' '::('i'::('t'::('e'::('r'::('a'::('t'::('i'::('v'::('e'::(' '::('s'::('o'::('l'::('u'::('t'::('i'::('o'::('n'::('.'::(' '::('O'::('v'::('e'::('r'::('-'::('r'::('i'::('d'::('e'::(' '::('t'::('o'::(' '::('i'::('m'::('p'::('l'::('e'::('m'::('e'::('n'::('t'::(' '::('c'::('u'::('s'::('t'::('o'::('m'::(' '::('b'::('e'::('h'::('a'::('v'::('i'::('o'::('u'::('r'::('.'::('"'::('"'::('"'::[])))))))))))))))))))))))))))))))))))))))))))))))))))))))))))))))))))))))))))))))))))))))))))))))))))))))))))))))))))))))))))))))))
                                                    (append
                                                      ((ascii_of_nat (S (S (S
                                                         (S (S (S (S (S (S (S
                                                         O)))))))))))::[])
                                                      (append
                                                        (' '::(' '::(' '::(' '::(' '::(' '::(' '::(' '::('p'::('a'::('s'::('s'::[]))))))))))))
                                                        (append
                                                          ((ascii_of_nat (S
                                                             (S (S (S (S (S
                                                             (S (S (S (S
                                                             O)))))))))))::[])
                                                          (append
                                                            ((ascii_of_nat (S
                                                               (S (S (S (S (S
                                                               (S (S (S (S
                                                               O)))))))))))::[])
                                                            (append
                                                              (' '::(' '::(' '::(' '::('d'::('e'::('f'::(' '::('s'::('o'::('l'::('v'::('e'::('_'::('t'::('_'::('a'::('f'::('t'::('e'::('r'::('('::('s'::('e'::('l'::('f'::(','::(' '::('t'::(':'::(' '::('i'::('n'::('t'::(','::(' '::('*'::(','::(' '::('e'::('r'::('r'::('o'::('r'::('s'::(':'::(' '::('s'::('t'::('r'::(' '::('='::(' '::('\''::('r'::('a'::('i'::('s'::('e'::('\''::(','::(' '::('c'::('a'::('t'::('c'::('h'::('_'::('f'::('i'::('r'::('s'::('t'::('_'::('e'::('r'::('r'::('o'::('r'::(':'::(' '::('b'::('o'::('o'::('l'::(' '::('='::(' '::('T'::('r'::('u'::('e'::(','::(' '::('i'::('t'::('e'::('r'::('a'::('t'::('i'::('o'::('n'::(':'::(' '::('O'::('p'::('t'::('i'::('o'::('n'::('a'::('l'::('['::('i'::('n'::('t'::(']'::(' '::('='::(' '::('N'::('o'::('n'::('e'::(','::(' '::('*'::('*'::('k'::('w'::('a'::('r'::('g'::('s'::(':'::(' '::('A'::('n'::('y'::(')'::(' '::('-'::('>'::(' '::('N'::('o'::('n'::('e'::(':'::[]))))))))))))))))))))))))))))))))))))))))))))))))))))))))))))))))))))))))))))))))))))))))))))))))))))))))))))))))))))))))))))))))))))))))))))))))))))))
                                                              (append
                                                                ((ascii_of_nat
                                                                   (S (S (S
                                                                   (S (S (S
                                                                   (S (S (S
                                                                   (S
                                                                   O)))))))))))::[])
                                                                (append
                                                                  (' '::(' '::(' '::(' '::(' '::(' '::(' '::(' '::('"'::('"'::('"'::('P'::('o'::('s'::('t'::('-'::('s'::('o'::('l'::('u'::('t'::('i'::('o'::('n'::(' '::('m'::('e'::('t'::('h'::('o'::('d'::(':'::(' '::('T'::('h'::('i'::('s'::(' '::('r'::('u'::('n'::('s'::(' '::('e'::('a'::('c'::('h'::(' '::('p'::('e'::('r'::('i'::('o'::('d'::(','::(' '::('a'::('f'::('t'::('e'::('r'::(' '::('t'::('h'::('e'::(' '::('i'::('t'::('e'::('r'::('a'::('t'::('i'::('v'::('e'::(' '::('s'::('o'::('l'::('u'::('t'::('i'::('o'::('n'::('.'::(' '::('O'::('v'::('e'::('r'::('-'::('r'::('i'::('d'::('e'::(' '::('t'::('o'::(' '::('i'::('m'::('p'::('l'::('e'::('m'::('e'::('n'::('t'::(' '::('c'::('u'::('s'::('t'::('o'::('m'::(' '::('b'::('e'::('h'::('a'::('v'::('i'::('o'::('u'::('r'::('.'::('"'::('"'::('"'::[])))))))))))))))))))))))))))))))))))))))))))))))))))))))))))))))))))))))))))))))))))))))))))))))))))))))))))))))))))))))))))))))))
                                                                  (append
                                                                    (
                                                                    (ascii_of_nat
                                                                    (S (S (S
                                                                    (S (S (S
                                                                    (S (S (S
                                                                    (S
                                                                    O)))))))))))::[])
                                                                    (append
                                                                    (' '::(' '::(' '::(' '::(' '::(' '::(' '::(' '::('p'::('a'::('s'::('s'::[]))))))))))))
                                                                    (append
                                                                    ((ascii_of_nat
                                                                    (S (S (S
                                                                    (S (S (S
                                                                    (S (S (S
                                                                    (S
                                                                    O)))))))))))::[])
                                                                    (append
                                                                    ((ascii_of_nat
                                                                    (S (S (S
                                                                    (S (S (S
                                                                    (S (S (S
                                                                    (S
                                                                    O)))))))))))::[])
                                                                    (append
                                                                    (' '::(' '::(' '::(' '::('d'::('e'::('f'::(' '::('_'::('e'::('v'::('a'::('l'::('u'::('a'::('t'::('e'::('('::('s'::('e'::('l'::('f'::(','::(' '::('t'::(':'::(' '::('i'::('n'::('t'::(','::(' '::('*'::(','::(' '::('e'::('r'::('r'::('o'::('r'::('s'::(':'::(' '::('s'::('t'::('r'::(' '::('='::(' '::('\''::('r'::('a'::('i'::('s'::('e'::('\''::(','::(' '::('c'::('a'::('t'::('c'::('h'::('_'::('f'::('i'::('r'::('s'::('t'::('_'::('e'::('r'::('r'::('o'::('r'::(':'::(' '::('b'::('o'::('o'::('l'::(' '::('='::(' '::('T'::('r'::('u'::('e'::(','::(' '::('i'::('t'::('e'::('r'::('a'::('t'::('i'::('o'::('n'::(':'::(' '::('O'::('p'::('t'::('i'::('o'::('n'::('a'::('l'::('['::('i'::('n'::('t'::(']'::(' '::('='::(' '::('N'::('o'::('n'::('e'::(','::(' '::('*'::('*'::('k'::('w'::('a'::('r'::('g'::('s'::(':'::(' '::('A'::('n'::('y'::(')'::(' '::('-'::('>'::(' '::('N'::('o'::('n'::('e'::(':'::[]))))))))))))))))))))))))))))))))))))))))))))))))))))))))))))))))))))))))))))))))))))))))))))))))))))))))))))))))))))))))))))))))))))))))))))))))))
                                                                    (append
                                                                    ((ascii_of_nat
                                                                    (S (S (S
                                                                    (S (S (S
                                                                    (S (S (S
                                                                    (S
                                                                    O)))))))))))::[])
                                                                    (append
                                                                    (' '::(' '::(' '::(' '::(' '::(' '::(' '::(' '::('"'::('"'::('"'::('E'::('v'::('a'::('l'::('u'::('a'::('t'::('e'::(' '::('t'::('h'::('e'::(' '::('s'::('y'::('s'::('t'::('e'::('m'::(' '::('o'::('f'::(' '::('e'::('q'::('u'::('a'::('t'::('i'::('o'::('n'::('s'::(' '::('f'::('o'::('r'::(' '::('t'::('h'::('e'::(' '::('p'::('e'::('r'::('i'::('o'::('d'::(' '::('a'::('t'::(' '::('i'::('n'::('t'::('e'::('g'::('e'::('r'::(' '::('p'::('o'::('s'::('i'::('t'::('i'::('o'::('n'::(' '::('`'::('t'::('`'::(' '::('i'::('n'::(' '::('t'::('h'::('e'::(' '::('m'::('o'::('d'::('e'::('l'::('\''::('s'::(' '::('`'::('s'::('p'::('a'::('n'::('`'::('.'::[])))))))))))))))))))))))))))))))))))))))))))))))))))))))))))))))))))))))))))))))))))))))))))))))))))))))))
                                                                    (append
                                                                    ((ascii_of_nat
                                                                    (S (S (S
                                                                    (S (S (S
                                                                    (S (S (S
                                                                    (S
                                                                    O)))))))))))::[])
                                                                    (append
                                                                    ((ascii_of_nat
                                                                    (S (S (S
                                                                    (S (S (S
                                                                    (S (S (S
                                                                    (S
                                                                    O)))))))))))::[])
                                                                    (append
                                                                    (' '::(' '::(' '::(' '::(' '::(' '::(' '::(' '::('P'::('a'::('r'::('a'::('m'::('e'::('t'::('e'::('r'::('s'::[]))))))))))))))))))
                                                                    (append
                                                                    ((ascii_of_nat
                                                                    (S (S (S
                                                                    (S (S (S
                                                                    (S (S (S
                                                                    (S
                                                                    O)))))))))))::[])
                                                                    (append
                                                                    (' '::(' '::(' '::(' '::(' '::(' '::(' '::(' '::('-'::('-'::('-'::('-'::('-'::('-'::('-'::('-'::('-'::('-'::[]))))))))))))))))))
                                                                    (append
                                                                    ((ascii_of_nat
                                                                    (S (S (S
                                                                    (S (S (S
                                                                    (S (S (S
                                                                    (S
                                                                    O)))))))))))::[])
                                                                    (append
                                                                    (' '::(' '::(' '::(' '::(' '::(' '::(' '::(' '::('t'::(' '::(':'::(' '::('i'::('n'::('t'::[])))))))))))))))
                                                                    (append
                                                                    ((ascii_of_nat
                                                                    (S (S (S
                                                                    (S (S (S
                                                                    (S (S (S
                                                                    (S
                                                                    O)))))))))))::[])
                                                                    (append
                                                                    (' '::(' '::(' '::(' '::(' '::(' '::(' '::(' '::(' '::(' '::(' '::(' '::('P'::('o'::('s'::('i'::('t'::('i'::('o'::('n'::(' '::('i'::('n'::(' '::('`'::('s'::('p'::('a'::('n'::('`'::(' '::('o'::('f'::(' '::('t'::('h'::('e'::(' '::('p'::('e'::('r'::('i'::('o'::('d'::(' '::('t'::('o'::(' '::('s'::('o'::('l'::('v'::('e'::[])))))))))))))))))))))))))))))))))))))))))))))))))))))
                                                                    (append
                                                                    ((ascii_of_nat
                                                                    (S (S (S
                                                                    (S (S (S
                                                                    (S (S (S
                                                                    (S
                                                                    O)))))))))))::[])
                                                                    (append
                                                                    (' '::(' '::(' '::(' '::(' '::(' '::(' '::(' '::('e'::('r'::('r'::('o'::('r'::('s'::(' '::(':'::(' '::('s'::('t'::('r'::[]))))))))))))))))))))
                                                                    (append
                                                                    ((ascii_of_nat
                                                                    (S (S (S
                                                                    (S (S (S
                                                                    (S (S (S
                                                                    (S
                                                                    O)))))))))))::[])
                                                                    (append
                                                                    (' '::(' '::(' '::(' '::(' '::(' '::(' '::(' '::(' '::(' '::(' '::(' '::('U'::('s'::('e'::('r'::('-'::('s'::('p'::('e'::('c'::('i'::('f'::('i'::('e'::('d'::(' '::('t'::('r'::('e'::('a'::('t'::('m'::('e'::('n'::('t'::(' '::('o'::('n'::(' '::('e'::('n'::('c'::('o'::('u'::('n'::('t'::('e'::('r'::('i'::('n'::('g'::(' '::('n'::('u'::('m'::('e'::('r'::('i'::('c'::('a'::('l'::(' '::('s'::('o'::('l'::('u'::('t'::('i'::('o'::('n'::[])))))))))))))))))))))))))))))))))))))))))))))))))))))))))))))))))))))))
                                                                    (append
                                                                    ((ascii_of_nat
                                                                    (S (S (S
                                                                    (S (S (S
                                                                    (S (S (S
                                                                    (S
                                                                    O)))))))))))::[])
                                                                    (append
                                                                    (' '::(' '::(' '::(' '::(' '::(' '::(' '::(' '::(' '::(' '::(' '::(' '::('e'::('r'::('r'::('o'::('r'::('s'::('.'::(' '::('N'::('o'::('t'::('e'::(' '::('t'::('h'::('a'::('t'::(' '::('i'::('t'::(' '::('i'::('s'::(' '::('u'::('p'::(' '::('t'::('o'::(' '::('t'::('h'::('e'::(' '::('u'::('s'::('e'::('r'::('\''::('s'::(' '::('o'::('v'::('e'::('r'::('-'::('r'::('i'::('d'::('i'::('n'::('g'::(' '::('c'::('o'::('d'::('e'::(' '::('t'::('o'::(' '::('d'::('e'::('c'::('i'::('d'::('e'::[])))))))))))))))))))))))))))))))))))))))))))))))))))))))))))))))))))))))))))))))
                                                                    (append
                                                                    ((ascii_of_nat
                                                                    (S (S (S
                                                                    (S (S (S
                                                                    (S (S (S
                                                                    (S
                                                                    O)))))))))))::[])
                                                                    (append
                                                                    (' '::(' '::(' '::(' '::(' '::(' '::(' '::(' '::(' '::(' '::(' '::(' '::('h'::('o'::('w'::(' '::('t'::('o'::(' '::('h'::('a'::('n'::('d'::('l'::('e'::(' '::('t'::('h'::('i'::('s'::('.'::[])))))))))))))))))))))))))))))))
                                                                    (append
                                                                    ((ascii_of_nat
                                                                    (S (S (S
                                                                    (S (S (S
                                                                    (S (S (S
                                                                    (S
                                                                    O)))))))))))::[])
                                                                    (append
                                                                    (' '::(' '::(' '::(' '::(' '::(' '::(' '::(' '::('c'::('a'::('t'::('c'::('h'::('_'::('f'::('i'::('r'::('s'::('t'::('_'::('e'::('r'::('r'::('o'::('r'::(' '::(':'::(' '::('b'::('o'::('o'::('l'::[]))))))))))))))))))))))))))))))))
                                                                    (append
                                                                    ((ascii_of_nat
                                                                    (S (S (S
                                                                    (S (S (S
                                                                    (S (S (S
                                                                    (S
                                                                    O)))))))))))::[])
                                                                    (append
                                                                    (' '::(' '::(' '::(' '::(' '::(' '::(' '::(' '::(' '::(' '::(' '::(' '::('I'::('f'::(' '::('`'::('T'::('r'::('u'::('e'::('`'::(' '::('('::('d'::('e'::('f'::('a'::('u'::('l'::('t'::(')'::(' '::('a'::('n'::('d'::(' '::('`'::('e'::('r'::('r'::('o'::('r'::('s'::('='::('\''::('r'::('a'::('i'::('s'::('e'::('\''::('`'::(','::(' '::('r'::('a'::('i'::('s'::('e'::(' '::('a'::('n'::(' '::('e'::('x'::('c'::('e'::('p'::('t'::('i'::('o'::('n'::[]))))))))))))))))))))))))))))))))))))))))))))))))))))))))))))))))))))))))
                                                                    (append
                                                                    ((ascii_of_nat
                                                                    (S (S (S
                                                                    (S (S (S
                                                                    (S (S (S
                                                                    (S
                                                                    O)))))))))))::[])
                                                                    (append
                                                                    (' '::(' '::(' '::(' '::(' '::(' '::(' '::(' '::(' '::(' '::(' '::(' '::('('::('`'::('S'::('o'::('l'::('u'::('t'::('i'::('o'::('n'::('E'::('r'::('r'::('o'::('r'::('`'::(')'::(' '::('o'::('n'::(' '::('t'::('h'::('e'::(' '::('f'::('i'::('r'::('s'::('t'::(' '::('n'::('u'::('m'::('e'::('r'::('i'::('c'::('a'::('l'::(' '::('e'::('r'::('r'::('o'::('r'::('/'::('w'::('a'::('r'::('n'::('i'::('n'::('g'::(' '::('d'::('u'::('r'::('i'::('n'::('g'::[])))))))))))))))))))))))))))))))))))))))))))))))))))))))))))))))))))))))))
                                                                    (append
                                                                    ((ascii_of_nat
                                                                    (S (S (S
                                                                    (S (S (S
                                                                    (S (S (S
                                                                    (S
                                                                    O)))))))))))::[])
                                                                    (append
                                                                    (' '::(' '::(' '::(' '::(' '::(' '::(' '::(' '::(' '::(' '::(' '::(' '::('s'::('o'::('l'::('u'::('t'::('i'::('o'::('n'::('.'::(' '::('T'::('h'::('i'::('s'::(' '::('i'::('d'::('e'::('n'::('t'::('i'::('f'::('i'::('e'::('s'::(' '::('t'::('h'::('e'::(' '::('p'::('r'::('o'::('b'::('l'::('e'::('m'::(' '::('s'::('t'::('a'::('t'::('e'::('m'::('e'::('n'::('t'::(' '::('i'::('n'::(' '::('t'::('h'::('e'::(' '::('s'::('t'::('a'::('c'::('k'::(' '::('t'::('r'::('a'::('c'::('e'::[]))))))))))))))))))))))))))))))))))))))))))))))))))))))))))))))))))))))))))))))
                                                                    (append
                                                                    ((ascii_of_nat
                                                                    (S (S (S
                                                                    (S (S (S
                                                                    (S (S (S
                                                                    (S
                                                                    O)))))))))))::[])
                                                                    (append
                                                                    (' '::(' '::(' '::(' '::(' '::(' '::(' '::(' '::(' '::(' '::(' '::(' '::('w'::('i'::('t'::('h'::('o'::('u'::('t'::(' '::('m'::('o'::('d'::('i'::('f'::('y'::('i'::('n'::('g'::(' '::('a'::('n'::('y'::(' '::('v'::('a'::('l'::('u'::('e'::('s'::(' '::('a'::('t'::(' '::('t'::('h'::('i'::('s'::(' '::('p'::('o'::('i'::('n'::('t'::('.'::[])))))))))))))))))))))))))))))))))))))))))))))))))))))))
                                                                    (append
                                                                    ((ascii_of_nat
                                                                    (S (S (S
                                                                    (S (S (S
                                                                    (S (S (S
                                                                    (S
                                                                    O)))))))))))::[])
                                                                    (append
                                                                    (' '::(' '::(' '::(' '::(' '::(' '::(' '::(' '::(' '::(' '::(' '::(' '::('I'::('f'::(' '::('`'::('F'::('a'::('l'::('s'::('e'::('`'::(','::(' '::('o'::('n'::('l'::('y'::(' '::('c'::('h'::('e'::('c'::('k'::(' '::('f'::('o'::('r'::(' '::('e'::('r'::('r'::('o'::('r'::('s'::(' '::('a'::('f'::('t'::('e'::('r'::(' '::('c'::('o'::('m'::('p'::('l'::('e'::('t'::('i'::('n'::('g'::(' '::('a'::('n'::(' '::('i'::('t'::('e'::('r'::('a'::('t'::('i'::('o'::('n'::(','::[]))))))))))))))))))))))))))))))))))))))))))))))))))))))))))))))))))))))))))))
                                                                    (append
                                                                    ((ascii_of_nat
                                                                    (S (S (S
                                                                    (S (S (S
                                                                    (S (S (S
                                                                    (S
                                                                    O)))))))))))::[])
                                                                    (append
                                                                    (' '::(' '::(' '::(' '::(' '::(' '::(' '::(' '::(' '::(' '::(' '::(' '::('r'::('a'::('i'::('s'::('i'::('n'::('g'::(' '::('a'::('n'::(' '::('e'::('x'::('c'::('e'::('p'::('t'::('i'::('o'::('n'::(' '::('('::('`'::('S'::('o'::('l'::('u'::('t'::('i'::('o'::('n'::('E'::('r'::('r'::('o'::('r'::('`'::(')'::(' '::('a'::('f'::('t'::('e'::('r'::(' '::('t'::('h'::('e'::(' '::('f'::('a'::('c'::('t'::('.'::(' '::('T'::('h'::('i'::('s'::(' '::('a'::('l'::('l'::('o'::('w'::('s'::[]))))))))))))))))))))))))))))))))))))))))))))))))))))))))))))))))))))))))))))))
                                                                    (append
                                                                    ((ascii_of_nat
                                                                    (S (S (S
                                                                    (S (S (S
                                                                    (S (S (S
                                                                    (S
                                                                    O)))))))))))::[])
                                                                    (append
                                                                    (' '::(' '::(' '::(' '::(' '::(' '::(' '::(' '::(' '::(' '::(' '::(' '::('n'::('u'::('m'::('e'::('r'::('i'::('c'::('a'::('l'::(' '::('e'::('r'::('r'::('o'::('r'::('s'::(' '::('('::('N'::('a'::('N'::('s'::(','::(' '::('I'::('n'::('f'::('s'::(')'::(' '::('t'::('o'::(' '::('p'::('r'::('o'::('p'::('a'::('g'::('a'::('t'::('e'::(' '::('t'::('h'::('r'::('o'::('u'::('g'::('h'::(' '::('t'::('h'::('e'::(' '::('s'::('o'::('l'::('u'::('t'::('i'::('o'::('n'::[])))))))))))))))))))))))))))))))))))))))))))))))))))))))))))))))))))))))))))
                                                                    (append
                                                                    ((ascii_of_nat
                                                                    (S (S (S
                                                                    (S (S (S
                                                                    (S (S (S
                                                                    (S
                                                                    O)))))))))))::[])
                                                                    (append
                                                                    (' '::(' '::(' '::(' '::(' '::(' '::(' '::(' '::(' '::(' '::(' '::(' '::('b'::('e'::('f'::('o'::('r'::('e'::(' '::('r'::('a'::('i'::('s'::('i'::('n'::('g'::(' '::('t'::('h'::('e'::(' '::('e'::('x'::('c'::('e'::('p'::('t'::('i'::('o'::('n'::('.'::[])))))))))))))))))))))))))))))))))))))))))
                                                                    (append
                                                                    ((ascii_of_nat
                                                                    (S (S (S
                                                                    (S (S (S
                                                                    (S (S (S
                                                                    (S
                                                                    O)))))))))))::[])
                                                                    (append
                                                                    (' '::(' '::(' '::(' '::(' '::(' '::(' '::(' '::('i'::('t'::('e'::('r'::('a'::('t'::('i'::('o'::('n'::(' '::(':'::(' '::('i'::('n'::('t'::[])))))))))))))))))))))))
                                                                    (append
                                                                    ((ascii_of_nat
                                                                    (S (S (S
                                                                    (S (S (S
                                                                    (S (S (S
                                                                    (S
                                                                    O)))))))))))::[])
                                                                    (append
                                                                    (' '::(' '::(' '::(' '::(' '::(' '::(' '::(' '::(' '::(' '::(' '::(' '::('T'::('h'::('e'::(' '::('c'::('u'::('r'::('r'::('e'::('n'::('t'::(' '::('i'::('t'::('e'::('r'::('a'::('t'::('i'::('o'::('n'::(' '::('c'::('o'::('u'::('n'::('t'::('.'::(' '::('T'::('h'::('i'::('s'::(' '::('i'::('s'::(' '::('n'::('o'::('t'::(' '::('g'::('u'::('a'::('r'::('a'::('n'::('t'::('e'::('e'::('d'::(' '::('t'::('o'::(' '::('t'::('a'::('k'::('e'::(' '::('a'::[])))))))))))))))))))))))))))))))))))))))))))))))))))))))))))))))))))))))))
                                                                    (append
                                                                    ((ascii_of_nat
                                                                    (S (S (S
                                                                    (S (S (S
                                                                    (S (S (S
                                                                    (S
                                                                    O)))))))))))::[])
                                                                    (append
                                                                    (' '::(' '::(' '::(' '::(' '::(' '::(' '::(' '::(' '::(' '::(' '::(' '::('n'::('o'::('n'::('-'::('`'::('N'::('o'::('n'::('e'::('`'::(' '::('v'::('a'::('l'::('u'::('e'::(' '::('i'::('f'::(' '::('t'::('h'::('e'::(' '::('u'::('s'::('e'::('r'::(' '::('h'::('a'::('s'::(' '::('o'::('v'::('e'::('r'::('-'::('r'::('i'::('d'::('d'::('e'::('n'::(' '::('t'::('h'::('e'::(' '::('d'::('e'::('f'::('a'::('u'::('l'::('t'::(' '::('c'::('a'::('l'::('l'::('i'::('n'::('g'::[]))))))))))))))))))))))))))))))))))))))))))))))))))))))))))))))))))))))))))))
                                                                    (append
                                                                    ((ascii_of_nat
                                                                    (S (S (S
                                                                    (S (S (S
                                                                    (S (S (S
                                                                    (S
                                                                    O)))))))))))::[])
                                                                    (append
                                                                    (' '::(' '::(' '::(' '::(' '::(' '::(' '::(' '::(' '::(' '::(' '::(' '::('`'::('s'::('o'::('l'::('v'::('e'::('_'::('t'::('('::(')'::('`'::(' '::('m'::('e'::('t'::('h'::('o'::('d'::('.'::(' '::('N'::('o'::('t'::('e'::(' '::('t'::('h'::('a'::('t'::(' '::('i'::('t'::(' '::('i'::('s'::(' '::('u'::('p'::(' '::('t'::('o'::(' '::('t'::('h'::('e'::(' '::('u'::('s'::('e'::('r'::('\''::('s'::(' '::('o'::('v'::('e'::('r'::('-'::('r'::('i'::('d'::('i'::('n'::('g'::[]))))))))))))))))))))))))))))))))))))))))))))))))))))))))))))))))))))))))))))
                                                                    (append
                                                                    ((ascii_of_nat
                                                                    (S (S (S
                                                                    (S (S (S
                                                                    (S (S (S
                                                                    (S
                                                                    O)))))))))))::[])
                                                                    (append
                                                                    (' '::(' '::(' '::(' '::(' '::(' '::(' '::(' '::(' '::(' '::(' '::(' '::('c'::('o'::('d'::('e'::(' '::('t'::('o'::(' '::('d'::('e'::('c'::('i'::('d'::('e'::(' '::('h'::('o'::('w'::(' '::('t'::('o'::(' '::('h'::('a'::('n'::('d'::('l'::('e'::(' '::('t'::('h'::('i'::('s'::('.'::[]))))))))))))))))))))))))))))))))))))))))))))))
                                                                    (append
                                                                    ((ascii_of_nat
                                                                    (S (S (S
                                                                    (S (S (S
                                                                    (S (S (S
                                                                    (S
                                                                    O)))))))))))::[])
                                                                    (append
                                                                    (' '::(' '::(' '::(' '::(' '::(' '::(' '::(' '::('*'::('*'::('k'::('w'::('a'::('r'::('g'::('s'::(' '::(':'::[]))))))))))))))))))
                                                                    (append
                                                                    ((ascii_of_nat
                                                                    (S (S (S
                                                                    (S (S (S
                                                                    (S (S (S
                                                                    (S
                                                                    O)))))))))))::[])
                                                                    (append
                                                                    (' '::(' '::(' '::(' '::(' '::(' '::(' '::(' '::(' '::(' '::(' '::(' '::('F'::('u'::('r'::('t'::('h'::('e'::('r'::(' '::('k'::('e'::('y'::('w'::('o'::('r'::('d'::(' '::('a'::('r'::('g'::('u'::('m'::('e'::('n'::('t'::('s'::(' '::('f'::('o'::('r'::(' '::('s'::('o'::('l'::('u'::('t'::('i'::('o'::('n'::[]))))))))))))))))))))))))))))))))))))))))))))))))))
                                                                    (append
                                                                    ((ascii_of_nat
                                                                    (S (S (S
                                                                    (S (S (S
                                                                    (S (S (S
                                                                    (S
                                                                    O)))))))))))::[])
                                                                    (append
                                                                    (' '::(' '::(' '::(' '::(' '::(' '::(' '::(' '::('"'::('"'::('"'::[])))))))))))
                                                                    (append
                                                                    ((ascii_of_nat
                                                                    (S (S (S
                                                                    (S (S (S
                                                                    (S (S (S
                                                                    (S
                                                                    O)))))))))))::[])
                                                                    ('{'::('e'::('q'::('u'::('a'::('t'::('i'::('o'::('n'::('s'::('}'::[])))))))))))))))))))))))))))))))))))))))))))))))))))))))))))))))))))))))))))))))))))))))))))))))))))))

(** val model_template_untyped : char list **)

let model_template_untyped =
  append
    ('c'::('l'::('a'::('s'::('s'::(' '::('M'::('o'::('d'::('e'::('l'::('('::('B'::('a'::('s'::('e'::('M'::('o'::('d'::('e'::('l'::(')'::(':'::[])))))))))))))))))))))))
    (append ((ascii_of_nat (S (S (S (S (S (S (S (S (S (S O)))))))))))::[])
      (append
        (' '::(' '::(' '::(' '::('E'::('N'::('D'::('O'::('G'::('E'::('N'::('O'::('U'::('S'::(' '::('='::(' '::('{'::('e'::('n'::('d'::('o'::('g'::('e'::('n'::('o'::('u'::('s'::('}'::[])))))))))))))))))))))))))))))
        (append
          ((ascii_of_nat (S (S (S (S (S (S (S (S (S (S O)))))))))))::[])
          (append
            (' '::(' '::(' '::(' '::('E'::('X'::('O'::('G'::('E'::('N'::('O'::('U'::('S'::(' '::('='::(' '::('{'::('e'::('x'::('o'::('g'::('e'::('n'::('o'::('u'::('s'::('}'::[])))))))))))))))))))))))))))
            (append
              ((ascii_of_nat (S (S (S (S (S (S (S (S (S (S O)))))))))))::[])
              (append
                ((ascii_of_nat (S (S (S (S (S (S (S (S (S (S O)))))))))))::[])
                (append
                  (' '::(' '::(' '::(' '::('P'::('A'::('R'::('A'::('M'::('E'::('T'::('E'::('R'::('S'::(' '::('='::(' '::('{'::('p'::('a'::('r'::('a'::('m'::('e'::('t'::('e'::('r'::('s'::('}'::[])))))))))))))))))))))))))))))
                  (append
                    ((ascii_of_nat (S (S (S (S (S (S (S (S (S (S O)))))))))))::[])
                    (append
                      (' '::(' '::(' '::(' '::('E'::('R'::('R'::('O'::('R'::('S'::(' '::('='::(' '::('{'::('e'::('r'::('r'::('o'::('r'::('s'::('}'::[])))))))))))))))))))))
                      (append
                        ((ascii_of_nat (S (S (S (S (S (S (S (S (S (S
                           O)))))))))))::[])
                        (append
                          ((ascii_of_nat (S (S (S (S (S (S (S (S (S (S
                             O)))))))))))::[])
                          (append
                            (' '::(' '::(' '::(' '::('N'::('A'::('M'::('E'::('S'::(' '::('='::(' '::('E'::('N'::('D'::('O'::('G'::('E'::('N'::('O'::('U'::('S'::(' '::('+'::(' '::('E'::('X'::('O'::('G'::('E'::('N'::('O'::('U'::('S'::(' '::('+'::(' '::('P'::('A'::('R'::('A'::('M'::('E'::('T'::('E'::('R'::('S'::(' '::('+'::(' '::('E'::('R'::('R'::('O'::('R'::('S'::[]))))))))))))))))))))))))))))))))))))))))))))))))))))))))
                            (append
                              ((ascii_of_nat (S (S (S (S (S (S (S (S (S (S
                                 O)))))))))))::[])
                              (append
                                (' '::(' '::(' '::(' '::('C'::('H'::('E'::('C'::('K'::(' '::('='::(' '::('E'::('N'::('D'::('O'::('G'::('E'::('N'::('O'::('U'::('S'::[]))))))))))))))))))))))
                                (append
                                  ((ascii_of_nat (S (S (S (S (S (S (S (S (S
                                     (S O)))))))))))::[])
                                  (append
                                    ((ascii_of_nat (S (S (S (S (S (S (S (S (S
                                       (S O)))))))))))::[])
                                    (append
                                      (' '::(' '::(' '::(' '::('L'::('A'::('G'::('S'::(' '::('='::(' '::('{'::('l'::('a'::('g'::('s'::('}'::[])))))))))))))))))
                                      (append
                                        ((ascii_of_nat (S (S (S (S (S (S (S
                                           (S (S (S O)))))))))))::[])
                                        (append
                                          (' '::(' '::(' '::(' '::('L'::('E'::('A'::('D'::('S'::(' '::('='::(' '::('{'::('l'::('e'::('a'::('d'::('s'::('}'::[])))))))))))))))))))
                                          (append
                                            ((ascii_of_nat (S (S (S (S (S (S
                                               (S (S (S (S O)))))))))))::[])
                                            (append
                                              ((ascii_of_nat (S (S (S (S (S
                                                 (S (S (S (S (S O)))))))))))::[])
                                              (append
                                                (' '::(' '::(' '::(' '::('d'::('e'::('f'::(' '::('s'::('o'::('l'::('v'::('e'::('_'::('t'::('_'::('b'::('e'::('f'::('o'::('r'::('e'::('('::('s'::('e'::('l'::('f'::(','::(' '::('t'::(','::(' '::('*'::(','::(' '::('e'::('r'::('r'::('o'::('r'::('s'::('='::('\''::('r'::('a'::('i'::('s'::('e'::('\''::(','::(' '::('c'::('a'::('t'::('c'::('h'::('_'::('f'::('i'::('r'::('s'::('t'::('_'::('e'::('r'::('r'::('o'::('r'::('='::('T'::('r'::('u'::('e'::(','::(' '::('i'::('t'::('e'::('r'::('a'::('t'::('i'::('o'::('n'::('='::('N'::('o'::('n'::('e'::(','::(' '::('*'::('*'::('k'::('w'::('a'::('r'::('g'::('s'::(')'::(':'::[])))))))))))))))))))))))))))))))))))))))))))))))))))))))))))))))))))))))))))))))))))))))))))))))))))))
                                                (append
                                                  ((ascii_of_nat (S (S (S (S
                                                     (S (S (S (S (S (S
                                                     O)))))))))))::[])
                                                  (append
                                                    (' '::(' '::(' '::(' '::(' '::(' '::(' '::(' '::('"'::('"'::('"'::('P'::('r'::('e'::('-'::('s'::('o'::('l'::('u'::('t'::('i'::('o'::('n'::(' '::('m'::('e'::('t'::('h'::('o'::('d'::(':'::(' '::('T'::('h'::('i'::('s'::(' '::('r'::('u'::('n'::('s'::(' '::('e'::('a'::('c'::('h'::(' '::('p'::('e'::('r'::('i'::('o'::('d'::(','::(' '::('b'::('e'::('f'::('o'::('r'::('e'::(' '::('t'::('h'::('e'::(' '::('i'::('t'::('e'::('r'::('a'::('t'::('i'::('v'::('e'::(' '::('s'::('o'::('l'::('u'::('t'::('i'::('o'::('n'::('.'::(' '::('O'::('v'::('e'::('r'::('-'::('r'::('i'::('d'::('e'::(' '::('t'::('o'::(' '::('i'::('m'::('p'::('l'::('e'::('m'::('e'::('n'::('t'::(' '::('c'::('u'::('s'::('t'::('o'::('m'::(' '::('b'::('e'::('h'::('a'::('v'::('i'::('o'::('u'::('r'::('.'::('"'::('"'::('"'::[])))))))))))))))))))))))))))))))))))))))))))))))))))))))))))))))))))))))))))))))))))))))))))))))))))))))))))))))))))))))))))))))))
                                                    (append
                                                      ((ascii_of_nat (S (S (S
                                                         (S (S (S (S (S (S (S
                                                         O)))))))))))::[])
                                                      (append
                                                        (' '::(' '::(' '::(' '::(' '::(' '::(' '::(' '::('p'::('a'::('s'::('s'::[]))))))))))))
                                                        (append
                                                          ((ascii_of_nat (S
                                                             (S (S (S (S (S
                                                             (S (S (S (S
                                                             O)))))))))))::[])
                                                          (append
                                                            ((ascii_of_nat (S
                                                               (S (S (S (S (S
                                                               (S (S (S (S
                                                               O)))))))))))::[])
                                                            (append
                                                              (' '::(' '::(' '::(' '::('d'::('e'::('f'::(' '::('s'::('o'::('l'::('v'::('e'::('_'::('t'::('_'::('a'::('f'::('t'::('e'::('r'::('('::('s'::('e'::('l'::('f'::(','::(' '::('t'::(','::(' '::('*'::(','::(' '::('e'::('r'::('r'::('o'::('r'::('s'::('='::('\''::('r'::('a'::('i'::('s'::('e'::('\''::(','::(' '::('c'::('a'::('t'::('c'::('h'::('_'::('f'::('i'::('r'::('s'::('t'::('_'::('e'::('r'::('r'::('o'::('r'::('='::('T'::('r'::('u'::('e'::(','::(' '::('i'::('t'::('e'::('r'::('a'::('t'::('i'::('o'::('n'::('='::('N'::('o'::('n'::('e'::(','::(' '::('*'::('*'::('k'::('w'::('a'::('r'::('g'::('s'::(')'::(':'::[]))))))))))))))))))))))))))))))))))))))))))))))))))))))))))))))))))))))))))))))))))))))))))))))))))))
                                                              (append
                                                                ((ascii_of_nat
                                                                   (S (S (S
                                                                   (S (S (S
                                                                   (S (S (S
                                                                   (S
                                                                   O)))))))))))::[])
                                                                (append
                                                                  (' '::(' '::(' '::(' '::(' '::(' '::(' '::(' '::('"'::('"'::('"'::('P'::('o'::('s'::('t'::('-'::('s'::('o'::('l'::('u'::('t'::('i'::('o'::('n'::(' '::('m'::('e'::('t'::('h'::('o'::('d'::(':'::(' '::('T'::('h'::('i'::('s'::(' '::('r'::('u'::('n'::('s'::(' '::('e'::('a'::('c'::('h'::(' '::('p'::('e'::('r'::('i'::('o'::('d'::(','::(' '::('a'::('f'::('t'::('e'::('r'::(' '::('t'::('h'::('e'::(' '::('i'::('t'::('e'::('r'::('a'::('t'::('i'::('v'::('e'::(' '::('s'::('o'::('l'::('u'::('t'::('i'::('o'::('n'::('.'::(' '::('O'::('v'::('e'::('r'::('-'::('r'::('i'::('d'::('e'::(' '::('t'::('o'::(' '::('i'::('m'::('p'::('l'::('e'::('m'::('e'::('n'::('t'::(' '::('c'::('u'::('s'::('t'::('o'::('m'::(' '::('b'::('e'::('h'::('a'::('v'::('i'::('o'::('u'::('r'::('.'::('"'::('"'::('"'::[])))))))))))))))))))))))))))))))))))))))))))))))))))))))))))))))))))))))))))))))))))))))))))))))))))))))))))))))))))))))))))))))))
                                                                  (append
                                                                    (
                                                                    (ascii_of_nat
                                                                    (S (S (S
                                                                    (S (S (S
                                                                    (S (S (S
                                                                    (S
                                                                    O)))))))))))::[])
                                                                    (append
                                                                    (' '::(' '::(' '::(' '::(' '::(' '::(' '::(' '::('p'::('a'::('s'::('s'::[]))))))))))))
                                                                    (append
                                                                    ((ascii_of_nat
                                                                    (S (S (S
                                                                    (S (S (S
                                                                    (S (S (S
                                                                    (S
                                                                    O)))))))))))::[])
                                                                    (append
                                                                    ((ascii_of_nat
                                                                    (S (S (S
                                                                    (S (S (S
                                                                    (S (S (S
                                                                    (S
                                                                    O)))))))))))::[])
                                                                    (append
                                                                    (' '::(' '::(' '::(' '::('d'::('e'::('f'::(' '::('_'::('e'::('v'::('a'::('l'::('u'::('a'::('t'::('e'::('('::('s'::('e'::('l'::('f'::(','::(' '::('t'::(','::(' '::('*'::(','::(' '::('e'::('r'::('r'::('o'::('r'::('s'::('='::('\''::('r'::('a'::('i'::('s'::('e'::('\''::(','::(' '::('c'::('a'::('t'::('c'::('h'::('_'::('f'::('i'::('r'::('s'::('t'::('_'::('e'::('r'::('r'::('o'::('r'::('='::('T'::('r'::('u'::('e'::(','::(' '::('i'::('t'::('e'::('r'::('a'::('t'::('i'::('o'::('n'::('='::('N'::('o'::('n'::('e'::(','::(' '::('*'::('*'::('k'::('w'::('a'::('r'::('g'::('s'::(')'::(':'::[]))))))))))))))))))))))))))))))))))))))))))))))))))))))))))))))))))))))))))))))))))))))))))))))))
                                                                    (append
                                                                    ((ascii_of_nat
                                                                    (S (S (S
                                                                    (S (S (S
                                                                    (S (S (S
                                                                    (S
                                                                    O)))))))))))::[])
                                                                    (append
                                                                    (' '::(' '::(' '::(' '::(' '::(' '::(' '::(' '::('"'::('"'::('"'::('E'::('v'::('a'::('l'::('u'::('a'::('t'::('e'::(' '::('t'::('h'::('e'::(' '::('s'::('y'::('s'::('t'::('e'::('m'::(' '::('o'::('f'::(' '::('e'::('q'::('u'::('a'::('t'::('i'::('o'::('n'::('s'::(' '::('f'::('o'::('r'::(' '::('t'::('h'::('e'::(' '::('p'::('e'::('r'::('i'::('o'::('d'::(' '::('a'::('t'::(' '::('i'::('n'::('t'::('e'::('g'::('e'::('r'::(' '::('p'::('o'::('s'::('i'::('t'::('i'::('o'::('n'::(' '::('`'::('t'::('`'::(' '::('i'::('n'::(' '::('t'::('h'::('e'::(' '::('m'::('o'::('d'::('e'::('l'::('\''::('s'::(' '::('`'::('s'::('p'::('a'::('n'::('`'::('.'::[])))))))))))))))))))))))))))))))))))))))))))))))))))))))))))))))))))))))))))))))))))))))))))))))))))))))))
                                                                    (append
                                                                    ((ascii_of_nat
                                                                    (S (S (S
                                                                    (S (S (S
                                                                    (S (S (S
                                                                    (S
                                                                    O)))))))))))::[])
                                                                    (append
                                                                    ((ascii_of_nat
                                                                    (S (S (S
                                                                    (S (S (S
                                                                    (S (S (S
                                                                    (S
                                                                    O)))))))))))::[])
                                                                    (append
                                                                    (' '::(' '::(' '::(' '::(' '::(' '::(' '::(' '::('P'::('a'::('r'::('a'::('m'::('e'::('t'::('e'::('r'::('s'::[]))))))))))))))))))
                                                                    (append
                                                                    ((ascii_of_nat
                                                                    (S (S (S
                                                                    (S (S (S
                                                                    (S (S (S
                                                                    (S
                                                                    O)))))))))))::[])
                                                                    (append
                                                                    (' '::(' '::(' '::(' '::(' '::(' '::(' '::(' '::('-'::('-'::('-'::('-'::('-'::('-'::('-'::('-'::('-'::('-'::[]))))))))))))))))))
                                                                    (append
                                                                    ((ascii_of_nat
                                                                    (S (S (S
                                                                    (S (S (S
                                                                    (S (S (S
                                                                    (S
                                                                    O)))))))))))::[])
                                                                    (append
                                                                    (' '::(' '::(' '::(' '::(' '::(' '::(' '::(' '::('t'::(' '::(':'::(' '::('i'::('n'::('t'::[])))))))))))))))
                                                                    (append
                                                                    ((ascii_of_nat
                                                                    (S (S (S
                                                                    (S (S (S
                                                                    (S (S (S
                                                                    (S
                                                                    O)))))))))))::[])
                                                                    (append
                                                                    (' '::(' '::(' '::(' '::(' '::(' '::(' '::(' '::(' '::(' '::(' '::(' '::('P'::('o'::('s'::('i'::('t'::('i'::('o'::('n'::(' '::('i'::('n'::(' '::('`'::('s'::('p'::('a'::('n'::('`'::(' '::('o'::('f'::(' '::('t'::('h'::('e'::(' '::('p'::('e'::('r'::('i'::('o'::('d'::(' '::('t'::('o'::(' '::('s'::('o'::('l'::('v'::('e'::[])))))))))))))))))))))))))))))))))))))))))))))))))))))
                                                                    (append
                                                                    ((ascii_of_nat
                                                                    (S (S (S
                                                                    (S (S (S
                                                                    (S (S (S
                                                                    (S
                                                                    O)))))))))))::[])
                                                                    (append
                                                                    (' '::(' '::(' '::(' '::(' '::(' '::(' '::(' '::('e'::('r'::('r'::('o'::('r'::('s'::(' '::(':'::(' '::('s'::('t'::('r'::[]))))))))))))))))))))
                                                                    (append
                                                                    ((ascii_of_nat
                                                                    (S (S (S
                                                                    (S (S (S
                                                                    (S (S (S
                                                                    (S
                                                                    O)))))))))))::[])
                                                                    (append
                                                                    (' '::(' '::(' '::(' '::(' '::(' '::(' '::(' '::(' '::(' '::(' '::(' '::('U'::('s'::('e'::('r'::('-'::('s'::('p'::('e'::('c'::('i'::('f'::('i'::('e'::('d'::(' '::('t'::('r'::('e'::('a'::('t'::('m'::('e'::('n'::('t'::(' '::('o'::('n'::(' '::('e'::('n'::('c'::('o'::('u'::('n'::('t'::('e'::('r'::('i'::('n'::('g'::(' '::('n'::('u'::('m'::('e'::('r'::('i'::('c'::('a'::('l'::(' '::('s'::('o'::('l'::('u'::('t'::('i'::('o'::('n'::[])))))))))))))))))))))))))))))))))))))))))))))))))))))))))))))))))))))))
                                                                    (append
                                                                    ((ascii_of_nat
                                                                    (S (S (S
                                                                    (S (S (S
                                                                    (S (S (S
                                                                    (S
                                                                    O)))))))))))::[])
                                                                    (append
                                                                    (' '::(' '::(' '::(' '::(' '::(' '::(' '::(' '::(' '::(' '::(' '::(' '::('e'::('r'::('r'::('o'::('r'::('s'::('.'::(' '::('N'::('o'::('t'::('e'::(' '::('t'::('h'::('a'::('t'::(' '::('i'::('t'::(' '::('i'::('s'::(' '::('u'::('p'::(' '::('t'::('o'::(' '::('t'::('h'::('e'::(' '::('u'::('s'::('e'::('r'::('\''::('s'::(' '::('o'::('v'::('e'::('r'::('-'::('r'::('i'::('d'::('i'::('n'::('g'::(' '::('c'::('o'::('d'::('e'::(' '::('t'::('o'::(' '::('d'::('e'::('c'::('i'::('d'::('e'::[])))))))))))))))))))))))))))))))))))))))))))))))))))))))))))))))))))))))))))))))
                                                                    (append
                                                                    ((ascii_of_nat
                                                                    (S (S (S
                                                                    (S (S (S
                                                                    (S (S (S
                                                                    (S
                                                                    O)))))))))))::[])
                                                                    (append
                                                                    (' '::(' '::(' '::(' '::(' '::(' '::(' '::(' '::(' '::(' '::(' '::(' '::('h'::('o'::('w'::(' '::('t'::('o'::(' '::('h'::('a'::('n'::('d'::('l'::('e'::(' '::('t'::('h'::('i'::('s'::('.'::[])))))))))))))))))))))))))))))))
                                                                    (append
                                                                    ((ascii_of_nat
                                                                    (S (S (S
                                                                    (S (S (S
                                                                    (S (S (S
                                                                    (S
                                                                    O)))))))))))::[])
                                                                    (append
                                                                    (' '::(' '::(' '::(' '::(' '::(' '::(' '::(' '::('c'::('a'::('t'::('c'::('h'::('_'::('f'::('i'::('r'::('s'::('t'::('_'::('e'::('r'::('r'::('o'::('r'::(' '::(':'::(' '::('b'::('o'::('o'::('l'::[]))))))))))))))))))))))))))))))))
                                                                    (append
                                                                    ((ascii_of_nat
                                                                    (S (S (S
                                                                    (S (S (S
                                                                    (S (S (S
                                                                    (S
                                                                    O)))))))))))::[])
                                                                    (append
                                                                    (' '::(' '::(' '::(' '::(' '::(' '::(' '::(' '::(' '::(' '::(' '::(' '::('I'::('f'::(' '::('`'::('T'::('r'::('u'::('e'::('`'::(' '::('('::('d'::('e'::('f'::('a'::('u'::('l'::('t'::(')'::(' '::('a'::('n'::('d'::(' '::('`'::('e'::('r'::('r'::('o'::('r'::('s'::('='::('\''::('r'::('a'::('i'::('s'::('e'::('\''::('`'::(','::(' '::('r'::('a'::('i'::('s'::('e'::(' '::('a'::('n'::(' '::('e'::('x'::('c'::('e'::('p'::('t'::('i'::('o'::('n'::[]))))))))))))))))))))))))))))))))))))))))))))))))))))))))))))))))))))))))
                                                                    (append
                                                                    ((ascii_of_nat
                                                                    (S (S (S
                                                                    (S (S (S
                                                                    (S (S (S
                                                                    (S
                                                                    O)))))))))))::[])
                                                                    (append
                                                                    (' '::(' '::(' '::(' '::(' '::(' '::(' '::(' '::(' '::(' '::(' '::(' '::('('::('`'::('S'::('o'::('l'::('u'::('t'::('i'::('o'::('n'::('E'::('r'::('r'::('o'::('r'::('`'::(')'::(' '::('o'::('n'::(' '::('t'::('h'::('e'::(' '::('f'::('i'::('r'::('s'::('t'::(' '::('n'::('u'::('m'::('e'::('r'::('i'::('c'::('a'::('l'::(' '::('e'::('r'::('r'::('o'::('r'::('/'::('w'::('a'::('r'::('n'::('i'::('n'::('g'::(' '::('d'::('u'::('r'::('i'::('n'::('g'::[])))))))))))))))))))))))))))))))))))))))))))))))))))))))))))))))))))))))))
                                                                    (append
                                                                    ((ascii_of_nat
                                                                    (S (S (S
                                                                    (S (S (S
                                                                    (S (S (S
                                                                    (S
                                                                    O)))))))))))::[])
                                                                    (append
                                                                    (' '::(' '::(' '::(' '::(' '::(' '::(' '::(' '::(' '::(' '::(' '::(' '::('s'::('o'::('l'::('u'::('t'::('i'::('o'::('n'::('.'::(' '::('T'::('h'::('i'::('s'::(' '::('i'::('d'::('e'::('n'::('t'::('i'::('f'::('i'::('e'::('s'::(' '::('t'::('h'::('e'::(' '::('p'::('r'::('o'::('b'::('l'::('e'::('m'::(' '::('s'::('t'::('a'::('t'::('e'::('m'::('e'::('n'::('t'::(' '::('i'::('n'::(' '::('t'::('h'::('e'::(' '::('s'::('t'::('a'::('c'::('k'::(' '::('t'::('r'::('a'::('c'::('e'::[]))))))))))))))))))))))))))))))))))))))))))))))))))))))))))))))))))))))))))))))
                                                                    (append
                                                                    ((ascii_of_nat
                                                                    (S (S (S
                                                                    (S (S (S
                                                                    (S (S (S
                                                                    (S
                                                                    O)))))))))))::[])
                                                                    (append
                                                                    (' '::(' '::(' '::(' '::(' '::(' '::(' '::(' '::(' '::(' '::(' '::(' '::('w'::('i'::('t'::('h'::('o'::('u'::('t'::(' '::('m'::('o'::('d'::('i'::('f'::('y'::('i'::('n'::('g'::(' '::('a'::('n'::('y'::(' '::('v'::('a'::('l'::('u'::('e'::('s'::(' '::('a'::('t'::(' '::('t'::('h'::('i'::('s'::(' '::('p'::('o'::('i'::('n'::('t'::('.'::[])))))))))))))))))))))))))))))))))))))))))))))))))))))))
                                                                    (append
                                                                    ((ascii_of_nat
                                                                    (S (S (S
                                                                    (S (S (S
                                                                    (S (S (S
                                                                    (S
                                                                    O)))))))))))::[])
                                                                    (append
                                                                    (' '::(' '::(' '::(' '::(' '::(' '::(' '::(' '::(' '::(' '::(' '::(' '::('I'::('f'::(' '::('`'::('F'::('a'::('l'::('s'::('e'::('`'::(','::(' '::('o'::('n'::('l'::('y'::(' '::('c'::('h'::('e'::('c'::('k'::(' '::('f'::('o'::('r'::(' '::('e'::('r'::('r'::('o'::('r'::('s'::(' '::('a'::('f'::('t'::('e'::('r'::(' '::('c'::('o'::('m'::('p'::('l'::('e'::('t'::('i'::('n'::('g'::(' '::('a'::('n'::(' '::('i'::('t'::('e'::('r'::('a'::('t'::('i'::('o'::('n'::(','::[]))))))))))))))))))))))))))))))))))))))))))))))))))))))))))))))))))))))))))))
                                                                    (append
                                                                    ((ascii_of_nat
                                                                    (S (S (S
                                                                    (S (S (S
                                                                    (S (S (S
                                                                    (S
                                                                    O)))))))))))::[])
                                                                    (append
                                                                    (' '::(' '::(' '::(' '::(' '::(' '::(' '::(' '::(' '::(' '::(' '::(' '::('r'::('a'::('i'::('s'::('i'::('n'::('g'::(' '::('a'::('n'::(' '::('e'::('x'::('c'::('e'::('p'::('t'::('i'::('o'::('n'::(' '::('('::('`'::('S'::('o'::('l'::('u'::('t'::('i'::('o'::('n'::('E'::('r'::('r'::('o'::('r'::('`'::(')'::(' '::('a'::('f'::('t'::('e'::('r'::(' '::('t'::('h'::('e'::(' '::('f'::('a'::('c'::('t'::('.'::(' '::('T'::('h'::('i'::('s'::(' '::('a'::('l'::('l'::('o'::('w'::('s'::[]))))))))))))))))))))))))))))))))))))))))))))))))))))))))))))))))))))))))))))))
                                                                    (append
                                                                    ((ascii_of_nat
                                                                    (S (S (S
                                                                    (S (S (S
                                                                    (S (S (S
                                                                    (S
                                                                    O)))))))))))::[])
                                                                    (append
                                                                    (' '::(' '::(' '::(' '::(' '::(' '::(' '::(' '::(' '::(' '::(' '::(' '::('n'::('u'::('m'::('e'::('r'::('i'::('c'::('a'::('l'::(' '::('e'::('r'::('r'::('o'::('r'::('s'::(' '::('('::('N'::('a'::('N'::('s'::(','::(' '::('I'::('n'::('f'::('s'::(')'::(' '::('t'::('o'::(' '::('p'::('r'::('o'::('p'::('a'::('g'::('a'::('t'::('e'::(' '::('t'::('h'::('r'::('o'::('u'::('g'::('h'::(' '::('t'::('h'::('e'::(' '::('s'::('o'::('l'::('u'::('t'::('i'::('o'::('n'::[])))))))))))))))))))))))))))))))))))))))))))))))))))))))))))))))))))))))))))
                                                                    (append
                                                                    ((ascii_of_nat
                                                                    (S (S (S
                                                                    (S (S (S
                                                                    (S (S (S
                                                                    (S
                                                                    O)))))))))))::[])
                                                                    (append
                                                                    (' '::(' '::(' '::(' '::(' '::(' '::(' '::(' '::(' '::(' '::(' '::(' '::('b'::('e'::('f'::('o'::('r'::('e'::(' '::('r'::('a'::('i'::('s'::('i'::('n'::('g'::(' '::('t'::('h'::('e'::(' '::('e'::('x'::('c'::('e'::('p'::('t'::('i'::('o'::('n'::('.'::[])))))))))))))))))))))))))))))))))))))))))
                                                                    (append
                                                                    ((ascii_of_nat
                                                                    (S (S (S
                                                                    (S (S (S
                                                                    (S (S (S
                                                                    (S
                                                                    O)))))))))))::[])
                                                                    (append
                                                                    (' '::(' '::(' '::(' '::(' '::(' '::(' '::(' '::('i'::('t'::('e'::('r'::('a'::('t'::('i'::('o'::('n'::(' '::(':'::(' '::('i'::('n'::('t'::[])))))))))))))))))))))))
                                                                    (append
                                                                    ((ascii_of_nat
                                                                    (S (S (S
                                                                    (S (S (S
                                                                    (S (S (S
                                                                    (S
                                                                    O)))))))))))::[])
                                                                    (append
                                                                    (' '::(' '::(' '::(' '::(' '::(' '::(' '::(' '::(' '::(' '::(' '::(' '::('T'::('h'::('e'::(' '::('c'::('u'::('r'::('r'::('e'::('n'::('t'::(' '::('i'::('t'::('e'::('r'::('a'::('t'::('i'::('o'::('n'::(' '::('c'::('o'::('u'::('n'::('t'::('.'::(' '::('T'::('h'::('i'::('s'::(' '::('i'::('s'::(' '::('n'::('o'::('t'::(' '::('g'::('u'::('a'::('r'::('a'::('n'::('t'::('e'::('e'::('d'::(' '::('t'::('o'::(' '::('t'::('a'::('k'::('e'::(' '::('a'::[])))))))))))))))))))))))))))))))))))))))))))))))))))))))))))))))))))))))))
                                                                    (append
                                                                    ((ascii_of_nat
                                                                    (S (S (S
                                                                    (S (S (S
                                                                    (S (S (S
                                                                    (S
                                                                    O)))))))))))::[])
                                                                    (append
                                                                    (' '::(' '::(' '::(' '::(' '::(' '::(' '::(' '::(' '::(' '::(' '::(' '::('n'::('o'::('n'::('-'::('`'::('N'::('o'::('n'::('e'::('`'::(' '::('v'::('a'::('l'::('u'::('e'::(' '::('i'::('f'::(' '::('t'::('h'::('e'::(' '::('u'::('s'::('e'::('r'::(' '::('h'::('a'::('s'::(' '::('o'::('v'::('e'::('r'::('-'::('r'::('i'::('d'::('d'::('e'::('n'::(' '::('t'::('h'::('e'::(' '::('d'::('e'::('f'::('a'::('u'::('l'::('t'::(' '::('c'::('a'::('l'::('l'::('i'::('n'::('g'::[]))))))))))))))))))))))))))))))))))))))))))))))))))))))))))))))))))))))))))))
                                                                    (append
                                                                    ((ascii_of_nat
                                                                    (S (S (S
                                                                    (S (S (S
                                                                    (S (S (S
                                                                    (S
                                                                    O)))))))))))::[])
                                                                    (append
                                                                    (' '::(' '::(' '::(' '::(' '::(' '::(' '::(' '::(' '::(' '::(' '::(' '::('`'::('s'::('o'::('l'::('v'::('e'::('_'::('t'::('('::(')'::('`'::(' '::('m'::('e'::('t'::('h'::('o'::('d'::('.'::(' '::('N'::('o'::('t'::('e'::(' '::('t'::('h'::('a'::('t'::(' '::('i'::('t'::(' '::('i'::('s'::(' '::('u'::('p'::(' '::('t'::('o'::(' '::('t'::('h'::('e'::(' '::('u'::('s'::('e'::('r'::('\''::('s'::(' '::('o'::('v'::('e'::('r'::('-'::('r'::('i'::('d'::('i'::('n'::('g'::[]))))))))))))))))))))))))))))))))))))))))))))))))))))))))))))))))))))))))))))
                                                                    (append
                                                                    ((ascii_of_nat
                                                                    (S (S (S
                                                                    (S (S (S
                                                                    (S (S (S
                                                                    (S
                                                                    O)))))))))))::[])
                                                                    (append
                                                                    (' '::(' '::(' '::(' '::(' '::(' '::(' '::(' '::(' '::(' '::(' '::(' '::('c'::('o'::('d'::('e'::(' '::('t'::('o'::(' '::('d'::('e'::('c'::('i'::('d'::('e'::(' '::('h'::('o'::('w'::(' '::('t'::('o'::(' '::('h'::('a'::('n'::('d'::('l'::('e'::(' '::('t'::('h'::('i'::('s'::('.'::[]))))))))))))))))))))))))))))))))))))))))))))))
                                                                    (append
                                                                    ((ascii_of_nat
                                                                    (S (S (S
                                                                    (S (S (S
                                                                    (S (S (S
                                                                    (S
                                                                    O)))))))))))::[])
                                                                    (append
                                                                    (' '::(' '::(' '::(' '::(' '::(' '::(' '::(' '::('*'::('*'::('k'::('w'::('a'::('r'::('g'::('s'::(' '::(':'::[]))))))))))))))))))
                                                                    (append
                                                                    ((ascii_of_nat
                                                                    (S (S (S
                                                                    (S (S (S
                                                                    (S (S (S
                                                                    (S
                                                                    O)))))))))))::[])
                                                                    (append
                                                                    (' '::(' '::(' '::(' '::(' '::(' '::(' '::(' '::(' '::(' '::(' '::(' '::('F'::('u'::('r'::('t'::('h'::('e'::('r'::(' '::('k'::('e'::('y'::('w'::('o'::('r'::('d'::(' '::('a'::('r'::('g'::('u'::('m'::('e'::('n'::('t'::('s'::(' '::('f'::('o'::('r'::(' '::('s'::('o'::('l'::('u'::('t'::('i'::('o'::('n'::[]))))))))))))))))))))))))))))))))))))))))))))))))))
                                                                    (append
                                                                    ((ascii_of_nat
                                                                    (S (S (S
                                                                    (S (S (S
                                                                    (S (S (S
                                                                    (S
                                                                    O)))))))))))::[])
                                                                    (append
                                                                    (' '::(' '::(' '::(' '::(' '::(' '::(' '::(' '::('"'::('"'::('"'::[])))))))))))
                                                                    (append
                                                                    ((ascii_of_nat
                                                                    (S (S (S
                                                                    (S (S (S
                                                                    (S (S (S
                                                                    (S
                                                                    O)))))))))))::[])
                                                                    ('{'::('e'::('q'::('u'::('a'::('t'::('i'::('o'::('n'::('s'::('}'::[])))))))))))))))))))))))))))))))))))))))))))))))))))))))))))))))))))))))))))))))))))))))))))))))))))))

(** val chars_of_codes : nat list -> char list **)

let chars_of_codes l =
  map ascii_of_nat l

(** val mem_ascii : char -> char list -> bool **)

let mem_ascii c l =
  existsb ((=) c) l

(** val re_space_chars : char list **)

let re_space_chars =
  chars_of_codes re_space_codes

(** val re_word_chars : char list **)

let re_word_chars =
  chars_of_codes re_word_codes

(** val str_strip_chars : char list **)

let str_strip_chars =
  chars_of_codes str_strip_codes

(** val splitlines_chars : char list **)

let splitlines_chars =
  chars_of_codes splitlines_codes

(** val alpha_chars : char list **)

let alpha_chars =
  list_ascii_of_string
    ('_'::('A'::('B'::('C'::('D'::('E'::('F'::('G'::('H'::('I'::('J'::('K'::('L'::('M'::('N'::('O'::('P'::('Q'::('R'::('S'::('T'::('U'::('V'::('W'::('X'::('Y'::('Z'::('a'::('b'::('c'::('d'::('e'::('f'::('g'::('h'::('i'::('j'::('k'::('l'::('m'::('n'::('o'::('p'::('q'::('r'::('s'::('t'::('u'::('v'::('w'::('x'::('y'::('z'::[])))))))))))))))))))))))))))))))))))))))))))))))))))))

(** val digit_chars : char list **)

let digit_chars =
  list_ascii_of_string
    ('0'::('1'::('2'::('3'::('4'::('5'::('6'::('7'::('8'::('9'::[]))))))))))

(** val is_space : char -> bool **)

let is_space c =
  mem_ascii c re_space_chars

(** val is_word : char -> bool **)

let is_word c =
  mem_ascii c re_word_chars

(** val is_pyspace : char -> bool **)

let is_pyspace c =
  mem_ascii c str_strip_chars

(** val is_linesep : char -> bool **)

let is_linesep c =
  mem_ascii c splitlines_chars

(** val is_alpha_ : char -> bool **)

let is_alpha_ c =
  mem_ascii c alpha_chars

(** val is_digit : char -> bool **)

let is_digit c =
  mem_ascii c digit_chars

(** val is_idc : char -> bool **)

let is_idc c =
  (||) (is_alpha_ c) (is_digit c)

(** val is_fnc : char -> bool **)

let is_fnc c =
  (||) (is_idc c) ((=) c '.')

(** val nl : char **)

let nl =
  ascii_of_nat (S (S (S (S (S (S (S (S (S (S O))))))))))

(** val cr : char **)

let cr =
  ascii_of_nat (S (S (S (S (S (S (S (S (S (S (S (S (S O)))))))))))))

(** val nl_s : char list **)

let nl_s =
  nl::[]

(** val span_while : (char -> bool) -> char list -> char list * char list **)

let rec span_while p s = match s with
| [] -> ([], [])
| c::r -> if p c then let (a, b) = span_while p r in ((c::a), b) else ([], s)

(** val skip_ws : char list -> char list **)

let skip_ws s =
  snd (span_while is_space s)

(** val prefix_rest : char list -> char list -> char list option **)

let rec prefix_rest k s =
  match k with
  | [] -> Some s
  | a::k' ->
    (match s with
     | [] -> None
     | b::s' -> if (=) a b then prefix_rest k' s' else None)

(** val startswith : char list -> char list -> bool **)

let startswith k s =
  match prefix_rest k s with
  | Some _ -> true
  | None -> false

(** val find_on_line : char -> char list -> (char list * char list) option **)

let rec find_on_line ch = function
| [] -> None
| c::r ->
  if (=) c ch
  then Some ([], r)
  else if (=) c nl
       then None
       else (match find_on_line ch r with
             | Some p -> let (a, b) = p in Some ((c::a), b)
             | None -> None)

(** val find_any : char -> char list -> (char list * char list) option **)

let rec find_any ch = function
| [] -> None
| c::r ->
  if (=) c ch
  then Some ([], r)
  else (match find_any ch r with
        | Some p -> let (a, b) = p in Some ((c::a), b)
        | None -> None)

(** val has_char : char -> char list -> bool **)

let rec has_char ch = function
| [] -> false
| c::r -> (||) ((=) c ch) (has_char ch r)

(** val has_nl : char list -> bool **)

let has_nl s =
  has_char nl s

(** val count_char : char -> char list -> nat **)

let rec count_char ch = function
| [] -> O
| c::r -> add (if (=) c ch then S O else O) (count_char ch r)

(** val rev_str : char list -> char list -> char list **)

let rec rev_str s acc =
  match s with
  | [] -> acc
  | c::r -> rev_str r (c::acc)

(** val lstrip_by : (char -> bool) -> char list -> char list **)

let lstrip_by p s =
  snd (span_while p s)

(** val rstrip_by : (char -> bool) -> char list -> char list **)

let rstrip_by p s =
  rev_str (lstrip_by p (rev_str s [])) []

(** val strip_by : (char -> bool) -> char list -> char list **)

let strip_by p s =
  rstrip_by p (lstrip_by p s)

(** val re_strip : char list -> char list **)

let re_strip s =
  strip_by is_space s

(** val py_strip : char list -> char list **)

let py_strip s =
  strip_by is_pyspace s

(** val py_rstrip : char list -> char list **)

let py_rstrip s =
  rstrip_by is_pyspace s

(** val is_blank : char list -> bool **)

let is_blank s =
  match lstrip_by is_pyspace s with
  | [] -> true
  | _::_ -> false

(** val head_is : char -> char list -> bool **)

let head_is ch = function
| [] -> false
| c::_ -> (=) c ch

(** val last_is : char -> char list -> bool **)

let rec last_is ch = function
| [] -> false
| c::r -> (match r with
           | [] -> (=) c ch
           | _::_ -> last_is ch r)

(** val join_nl : char list list -> char list **)

let rec join_nl = function
| [] -> []
| x :: r ->
  (match r with
   | [] -> x
   | _ :: _ -> append x (append nl_s (join_nl r)))

(** val splitlines_aux : char list -> char list -> char list list **)

let rec splitlines_aux cur = function
| [] -> (match cur with
         | [] -> []
         | _::_ -> (rev_str cur []) :: [])
| c::r ->
  if is_linesep c
  then (rev_str cur []) :: (if (=) c cr
                            then (match r with
                                  | [] -> splitlines_aux [] r
                                  | c2::r2 ->
                                    if (=) c2 nl
                                    then splitlines_aux [] r2
                                    else splitlines_aux [] r)
                            else splitlines_aux [] r)
  else splitlines_aux (c::cur) r

type ptype =
| TVariable
| TExogenous
| TEndogenous
| TParameter
| TError
| TFunction
| TKeyword
| TVerbatim
| TInvalid

(** val type_name : ptype -> char list **)

let type_name = function
| TVariable -> 'V'::('A'::('R'::('I'::('A'::('B'::('L'::('E'::[])))))))
| TExogenous ->
  'E'::('X'::('O'::('G'::('E'::('N'::('O'::('U'::('S'::[]))))))))
| TEndogenous ->
  'E'::('N'::('D'::('O'::('G'::('E'::('N'::('O'::('U'::('S'::[])))))))))
| TParameter ->
  'P'::('A'::('R'::('A'::('M'::('E'::('T'::('E'::('R'::[]))))))))
| TError -> 'E'::('R'::('R'::('O'::('R'::[]))))
| TFunction -> 'F'::('U'::('N'::('C'::('T'::('I'::('O'::('N'::[])))))))
| TKeyword -> 'K'::('E'::('Y'::('W'::('O'::('R'::('D'::[]))))))
| TVerbatim -> 'V'::('E'::('R'::('B'::('A'::('T'::('I'::('M'::[])))))))
| TInvalid -> 'I'::('N'::('V'::('A'::('L'::('I'::('D'::[]))))))

(** val type_eqb : ptype -> ptype -> bool **)

let type_eqb a b =
  match a with
  | TVariable -> (match b with
                  | TVariable -> true
                  | _ -> false)
  | TExogenous -> (match b with
                   | TExogenous -> true
                   | _ -> false)
  | TEndogenous -> (match b with
                    | TEndogenous -> true
                    | _ -> false)
  | TParameter -> (match b with
                   | TParameter -> true
                   | _ -> false)
  | TError -> (match b with
               | TError -> true
               | _ -> false)
  | TFunction -> (match b with
                  | TFunction -> true
                  | _ -> false)
  | TKeyword -> (match b with
                 | TKeyword -> true
                 | _ -> false)
  | TVerbatim -> (match b with
                  | TVerbatim -> true
                  | _ -> false)
  | TInvalid -> (match b with
                 | TInvalid -> true
                 | _ -> false)

(** val assoc_z : char list -> (char list * z) list -> z **)

let rec assoc_z k = function
| [] -> Z0
| p :: r -> let (k', v) = p in if eqb0 k k' then v else assoc_z k r

(** val type_value : ptype -> z **)

let type_value t =
  assoc_z (type_name t) type_order

(** val type_max : ptype -> ptype -> ptype **)

let type_max a b =
  if Z.ltb (type_value a) (type_value b) then b else a

(** val is_variable_type : ptype -> bool **)

let is_variable_type = function
| TVariable -> true
| TExogenous -> true
| TEndogenous -> true
| _ -> false

type pidx =
| IInt of z
| IStr of char list

type term = { tname : char list; ttype : ptype; tindex : pidx option }

type symbol = { sname : char list option; stype : ptype; slags : pidx option;
                sleads : pidx option; sequation : char list option;
                scode : char list option }

(** val resolve_strings :
    char list option -> char list option -> char list option outcome **)

let resolve_strings old new0 =
  match old with
  | Some o ->
    (match new0 with
     | Some n0 -> if eqb0 o n0 then Ret (Some o) else Raise ParserError
     | None -> Ret old)
  | None -> (match new0 with
             | Some n0 -> Ret (Some n0)
             | None -> Ret old)

(** val resolve_by_type_pair :
    (z -> z -> z) -> pidx option -> pidx option -> pidx option outcome **)

let resolve_by_type_pair f this that =
  match this with
  | Some p ->
    (match p with
     | IInt a ->
       (match that with
        | Some p0 ->
          (match p0 with
           | IInt b -> Ret (Some (IInt (f (f a b) Z0)))
           | IStr _ -> Ret (Some (IInt a)))
        | None -> Raise TypeError)
     | IStr _ ->
       (match that with
        | Some p0 ->
          (match p0 with
           | IInt b -> Ret (Some (IInt b))
           | IStr _ -> Ret (Some (IInt Z0)))
        | None -> Raise TypeError))
  | None -> (match that with
             | Some _ -> Raise TypeError
             | None -> Ret None)

(** val obind : 'a1 outcome -> ('a1 -> 'a2 outcome) -> 'a2 outcome **)

let obind a f =
  match a with
  | Ret x -> f x
  | Raise e -> Raise e

(** val combine : symbol -> symbol -> symbol outcome **)

let combine self other =
  obind
    (if type_eqb self.stype other.stype
     then Ret self.stype
     else if (&&) (is_variable_type self.stype) (is_variable_type other.stype)
          then Ret (type_max self.stype other.stype)
          else Raise SymbolError) (fun ty ->
    obind (resolve_by_type_pair Z.min self.slags other.slags) (fun lg ->
      obind (resolve_by_type_pair Z.max self.sleads other.sleads) (fun ld ->
        obind (resolve_strings self.sequation other.sequation) (fun eq ->
          obind (resolve_strings self.scode other.scode) (fun cd -> Ret
            { sname = self.sname; stype = ty; slags = lg; sleads = ld;
            sequation = eq; scode = cd })))))

(** val dict_get : char list -> (char list * 'a1) list -> 'a1 option **)

let rec dict_get k = function
| [] -> None
| p :: r -> let (k', v) = p in if eqb0 k k' then Some v else dict_get k r

(** val dict_set :
    char list -> 'a1 -> (char list * 'a1) list -> (char list * 'a1) list **)

let rec dict_set k v = function
| [] -> (k, v) :: []
| p :: r ->
  let (k', v') = p in
  if eqb0 k k' then (k', v) :: r else (k', v') :: (dict_set k v r)

(** val dict_values : (char list * 'a1) list -> 'a1 list **)

let dict_values d =
  map snd d

type 'a pres =
| POk of 'a
| PErr of exn
| PUnmodelled

(** val of_outcome : 'a1 outcome -> 'a1 pres **)

let of_outcome = function
| Ret x -> POk x
| Raise e -> PErr e

type kind =
| KVerbatim
| KInvalid
| KKeyword
| KFunction
| KParameter
| KError
| KVariable

type tmatch = { mkind : kind; mname : char list; mindex : char list option;
                mlen : nat }

(** val kW : char list list **)

let kW =
  kwlist

(** val index_group : char list -> (char list * nat) option **)

let index_group = function
| [] -> None
| c::r ->
  if (=) c '['
  then (match find_any ']' r with
        | Some p ->
          let (body, _) = p in
          let inner = re_strip body in
          if has_nl inner
          then None
          else Some (inner, (add (S (S O)) (length0 body)))
        | None -> None)
  else None

(** val with_index : kind -> char list -> nat -> char list -> tmatch **)

let with_index k name base after =
  match index_group after with
  | Some p ->
    let (inner, n0) = p in
    { mkind = k; mname = name; mindex = (Some inner); mlen = (add base n0) }
  | None -> { mkind = k; mname = name; mindex = None; mlen = base }

(** val try_invalid : char list list -> char list -> tmatch option **)

let rec try_invalid kws s =
  match kws with
  | [] -> None
  | k :: rest ->
    (match prefix_rest k s with
     | Some r ->
       let (ws, r2) = span_while is_space r in
       (match r2 with
        | [] -> try_invalid rest s
        | c::r3 ->
          if (=) c '['
          then (match find_on_line ']' r3 with
                | Some p ->
                  let (body, _) = p in
                  Some { mkind = KInvalid; mname =
                  (append k
                    (append ws (append ('['::[]) (append body (']'::[])))));
                  mindex = None; mlen =
                  (add (add (add (length0 k) (length0 ws)) (S (S O)))
                    (length0 body)) }
                | None -> try_invalid rest s)
          else try_invalid rest s)
     | None -> try_invalid rest s)

(** val try_keyword : char list list -> char list -> tmatch option **)

let rec try_keyword kws s =
  match kws with
  | [] -> None
  | k :: rest ->
    (match prefix_rest k s with
     | Some s1 ->
       (match s1 with
        | [] ->
          Some { mkind = KKeyword; mname = k; mindex = None; mlen =
            (length0 k) }
        | c::_ ->
          if is_word c
          then try_keyword rest s
          else Some { mkind = KKeyword; mname = k; mindex = None; mlen =
                 (length0 k) })
     | None -> try_keyword rest s)

(** val try_verbatim : char list -> tmatch option **)

let try_verbatim = function
| [] -> None
| c::s1 ->
  (match s1 with
   | [] -> None
   | c1::r1 ->
     if (=) c '`'
     then if (=) c1 nl
          then None
          else (match find_on_line '`' r1 with
                | Some p ->
                  let (body, _) = p in
                  Some { mkind = KVerbatim; mname =
                  (append (c::(c1::body)) ('`'::[])); mindex = None; mlen =
                  (add (S (S (S O))) (length0 body)) }
                | None -> None)
     else None)

(** val try_function : char list -> tmatch option **)

let try_function s = match s with
| [] -> None
| c::_ ->
  if is_alpha_ c
  then let (name, r1) = span_while is_fnc s in
       let (ws, r2) = span_while is_space r1 in
       (match r2 with
        | [] -> None
        | d::_ ->
          if (=) d '('
          then Some { mkind = KFunction; mname = name; mindex = None; mlen =
                 (add (length0 name) (length0 ws)) }
          else None)
  else None

(** val try_bracketed : char -> char -> kind -> char list -> tmatch option **)

let try_bracketed op cl k = function
| [] -> None
| c::r ->
  if (=) c op
  then let (w1, r1) = span_while is_space r in
       (match r1 with
        | [] -> None
        | a::_ ->
          if is_alpha_ a
          then let (name, r2) = span_while is_idc r1 in
               let (w2, r3) = span_while is_space r2 in
               (match r3 with
                | [] -> None
                | d::r4 ->
                  if (=) d cl
                  then Some
                         (with_index k name
                           (add
                             (add (add (S (S O)) (length0 w1)) (length0 name))
                             (length0 w2)) r4)
                  else None)
          else None)
  else None

(** val try_variable : char list -> tmatch option **)

let try_variable s = match s with
| [] -> None
| c::_ ->
  if is_alpha_ c
  then let (name, r1) = span_while is_idc s in
       Some (with_index KVariable name (length0 name) r1)
  else None

(** val or_else : 'a1 option -> (unit -> 'a1 option) -> 'a1 option **)

let or_else a b =
  match a with
  | Some x -> Some x
  | None -> b ()

(** val match_here : bool -> char list -> tmatch option **)

let match_here prev_word s =
  or_else (try_verbatim s) (fun _ ->
    or_else (try_invalid kW s) (fun _ ->
      or_else (if prev_word then None else try_keyword kW s) (fun _ ->
        or_else (try_function s) (fun _ ->
          or_else (try_bracketed '{' '}' KParameter s) (fun _ ->
            or_else (try_bracketed '<' '>' KError s) (fun _ -> try_variable s))))))

type item =
| Chr of char
| Tok of nat * tmatch

(** val scan : nat -> nat -> bool -> char list -> item list **)

let rec scan pos skip prev_word s = match s with
| [] -> []
| c::r ->
  (match skip with
   | O ->
     (match match_here prev_word s with
      | Some m ->
        (Tok (pos, m)) :: (scan (S pos) (sub m.mlen (S O)) (is_word c) r)
      | None -> (Chr c) :: (scan (S pos) O (is_word c) r))
   | S k -> scan (S pos) k (is_word c) r)

(** val scan_items : char list -> item list **)

let scan_items s =
  scan O O false s

(** val matches_of : item list -> tmatch list **)

let rec matches_of = function
| [] -> []
| i :: r ->
  (match i with
   | Chr _ -> matches_of r
   | Tok (_, m) -> m :: (matches_of r))

type fmt_res =
| FOk of char list
| FFail
| FUnmodelled

type ftok =
| FLit of char
| FAuto
| FManual of n
| FAutoX
| FManualX of n
| FBad
| FUnk

(** val is_field_delim : char -> bool **)

let is_field_delim c =
  (||) ((||) ((||) ((=) c '.') ((=) c '[')) ((=) c ':')) ((=) c '!')

(** val all_digits : char list -> bool **)

let rec all_digits = function
| [] -> true
| c::r -> (&&) (is_digit c) (all_digits r)

(** val digit_val : char -> n **)

let digit_val c =
  N.sub (n_of_ascii c) (Npos (XO (XO (XO (XO (XI XH))))))

(** val digits_to_N : n -> char list -> n **)

let rec digits_to_N acc = function
| [] -> acc
| c::r ->
  digits_to_N (N.add (N.mul acc (Npos (XO (XI (XO XH))))) (digit_val c)) r

(** val classify_field : char list -> ftok **)

let classify_field f =
  let (fp, rest) = span_while (fun c -> negb (is_field_delim c)) f in
  (match fp with
   | [] -> FAutoX
   | _::_ ->
     if all_digits fp
     then (match rest with
           | [] -> FManual (digits_to_N N0 fp)
           | _::_ -> FManualX (digits_to_N N0 fp))
     else FBad)

(** val classify_nested : char list -> ftok **)

let classify_nested f =
  let (fp, _) = span_while (fun c -> negb (is_field_delim c)) f in
  (match fp with
   | [] -> FUnk
   | _::_ -> if all_digits fp then FUnk else FBad)

type fmode =
| MText
| MAfterL
| MAfterR
| MField of char list

(** val ftokens : fmode -> char list -> ftok list **)

let rec ftokens m = function
| [] -> (match m with
         | MText -> []
         | _ -> FBad :: [])
| c::r ->
  (match m with
   | MText ->
     if (=) c '{'
     then ftokens MAfterL r
     else if (=) c '}'
          then ftokens MAfterR r
          else (FLit c) :: (ftokens MText r)
   | MAfterL ->
     if (=) c '{'
     then (FLit c) :: (ftokens MText r)
     else if (=) c '}'
          then FAuto :: (ftokens MText r)
          else ftokens (MField (c::[])) r
   | MAfterR ->
     if (=) c '}' then (FLit c) :: (ftokens MText r) else FBad :: []
   | MField acc ->
     if (=) c '}'
     then (classify_field (rev_str acc [])) :: (ftokens MText r)
     else if (=) c '{'
          then (classify_nested (rev_str acc [])) :: []
          else ftokens (MField (c::acc)) r)

type numbering =
| NNone
| NAuto
| NManual

(** val ffill : char list list -> nat -> numbering -> ftok list -> fmt_res **)

let rec ffill args k num = function
| [] -> FOk []
| f :: r ->
  (match f with
   | FLit c -> (match ffill args k num r with
                | FOk s -> FOk (c::s)
                | x -> x)
   | FAuto ->
     (match num with
      | NManual -> FFail
      | _ ->
        (match nth_error args k with
         | Some a ->
           (match ffill args (S k) NAuto r with
            | FOk s -> FOk (append a s)
            | x -> x)
         | None -> FFail))
   | FManual n0 ->
     (match num with
      | NAuto -> FFail
      | _ ->
        if N.ltb n0 (N.of_nat (length args))
        then (match nth_error args (N.to_nat n0) with
              | Some a ->
                (match ffill args k NManual r with
                 | FOk s -> FOk (append a s)
                 | x -> x)
              | None -> FFail)
        else FFail)
   | FAutoX ->
     (match num with
      | NManual -> FFail
      | _ ->
        (match nth_error args k with
         | Some _ -> FUnmodelled
         | None -> FFail))
   | FManualX n0 ->
     (match num with
      | NAuto -> FFail
      | _ -> if N.ltb n0 (N.of_nat (length args)) then FUnmodelled else FFail)
   | FBad -> FFail
   | FUnk -> FUnmodelled)

(** val py_format : char list -> char list list -> fmt_res **)

let py_format tpl args =
  ffill args O NNone (ftokens MText tpl)

(** val strip_comments : char list -> char list **)

let strip_comments line =
  match find_any '#' line with
  | Some p -> let (before, _) = p in py_rstrip before
  | None -> line

(** val count_parens : nat -> char list -> nat option **)

let rec count_parens n0 = function
| [] -> Some n0
| c::r ->
  if (=) c '('
  then count_parens (S n0) r
  else if (=) c ')'
       then (match n0 with
             | O -> None
             | S m -> count_parens m r)
       else count_parens n0 r

(** val at_eol : char list -> bool **)

let at_eol = function
| [] -> true
| c::_ -> (=) c nl

(** val has_fence_close : char list -> bool **)

let rec has_fence_close s = match s with
| [] -> false
| _::r ->
  (||)
    (match prefix_rest ('`'::('`'::('`'::[]))) s with
     | Some y -> at_eol y
     | None -> false) (has_fence_close r)

(** val has_close_paren_eol : char list -> bool **)

let rec has_close_paren_eol = function
| [] -> false
| c::r -> (||) ((&&) ((=) c ')') (at_eol r)) (has_close_paren_eol r)

(** val alt_fence : char list -> bool **)

let alt_fence s =
  if startswith ('`'::('`'::('`'::[]))) s
  then let (_, r) = span_while (fun c -> (=) c '`') s in
       (match r with
        | [] -> false
        | c::body -> if (=) c nl then has_fence_close body else false)
  else false

(** val alt_lhs_bracket : char list -> bool **)

let alt_lhs_bracket = function
| [] -> false
| c::r ->
  if (=) c '('
  then (match find_any '=' r with
        | Some p -> let (_, after) = p in has_close_paren_eol after
        | None -> false)
  else false

(** val alt_single : char list -> bool **)

let alt_single s = match s with
| [] -> false
| c::_ ->
  if is_space c
  then false
  else let (run, rest) = span_while (fun c0 -> negb (is_space c0)) s in
       (||) (match run with
             | [] -> false
             | _::tl -> has_char '=' tl) (head_is '=' (skip_ws rest))

(** val alt_here : char list -> bool **)

let alt_here s =
  (||) ((||) (alt_fence s) (alt_lhs_bracket s)) (alt_single s)

(** val stmt_ok_from : bool -> char list -> bool **)

let rec stmt_ok_from at_line_start s = match s with
| [] -> false
| c::r ->
  (||) (if at_line_start then alt_here s else false)
    (stmt_ok_from ((=) c nl) r)

(** val stmt_ok : char list -> bool **)

let stmt_ok s =
  stmt_ok_from true s

type sstate = { unmatched : nat; complete : bool; buffer : char list list }

(** val s0 : sstate **)

let s0 =
  { unmatched = O; complete = true; buffer = [] }

type step =
| StCont of sstate
| StYield of char list * sstate
| StRaise of exn

(** val split_step : sstate -> char list -> step **)

let split_step st line =
  let buf = line :: st.buffer in
  let fence = startswith ('`'::('`'::('`'::[]))) line in
  if (&&) fence (match st.buffer with
                 | [] -> true
                 | _ :: _ -> false)
  then StCont { unmatched = st.unmatched; complete = false; buffer = buf }
  else let complete' = if fence then true else st.complete in
       (match count_parens st.unmatched line with
        | Some u ->
          if (&&) (Nat.eqb u O) complete'
          then let eq = join_nl (rev0 buf) in
               if is_blank eq
               then StCont { unmatched = u; complete = complete'; buffer =
                      [] }
               else if stmt_ok eq
                    then StYield (eq, { unmatched = u; complete = complete';
                           buffer = [] })
                    else if stmt_ok (py_strip eq)
                         then StRaise IndentationError
                         else StRaise ParserError
          else StCont { unmatched = u; complete = complete'; buffer = buf }
        | None -> StRaise ParserError)

(** val split_lines :
    sstate -> char list list -> char list list * exn option **)

let rec split_lines st = function
| [] ->
  ([],
    (if negb st.complete
     then Some ParserError
     else if Nat.eqb st.unmatched O then None else Some ParserError))
| line :: rest ->
  (match split_step st line with
   | StCont st' -> split_lines st' rest
   | StYield (eq, st') ->
     let (ys, e) = split_lines st' rest in ((eq :: ys), e)
   | StRaise e -> ([], (Some e)))

(** val model_lines : char list -> char list list **)

let model_lines model =
  map strip_comments (splitlines_aux [] model)

(** val split_M : char list -> char list list * exn option **)

let split_M model =
  split_lines s0 (model_lines model)

(** val dict_combine :
    char list -> symbol -> (char list * symbol) list -> (char list * symbol)
    list outcome **)

let dict_combine name sym d =
  match combine (match dict_get name d with
                 | Some old -> old
                 | None -> sym) sym with
  | Ret c -> Ret (dict_set name c d)
  | Raise e -> Raise e

(** val equation_symbols_go :
    char list -> char list -> term list -> (char list * symbol) list ->
    char list list -> (char list * symbol) list outcome **)

let rec equation_symbols_go equation code terms symbols functions =
  match terms with
  | [] -> Ret symbols
  | t :: rest ->
    (match t.ttype with
     | TVerbatim -> equation_symbols_go equation code rest symbols functions
     | x ->
       let sym =
         match x with
         | TEndogenous ->
           { sname = (Some t.tname); stype = x; slags = t.tindex; sleads =
             t.tindex; sequation = (Some equation); scode = (Some code) }
         | _ ->
           { sname = (Some t.tname); stype = x; slags = t.tindex; sleads =
             t.tindex; sequation = None; scode = None }
       in
       (match dict_combine t.tname sym symbols with
        | Ret d -> equation_symbols_go equation code rest d functions
        | Raise e -> Raise e))

(** val equation_symbols :
    char list -> char list -> term list -> symbol list outcome **)

let equation_symbols equation code terms =
  match equation_symbols_go equation code terms [] [] with
  | Ret d -> Ret (dict_values d)
  | Raise e -> Raise e

(** val merge_go :
    symbol list -> (char list * symbol) list -> symbol list -> symbol list
    outcome **)

let rec merge_go syms symbols verbatim =
  match syms with
  | [] -> Ret (app (dict_values symbols) (rev0 verbatim))
  | s :: rest ->
    (match s.sname with
     | Some name ->
       (match dict_combine name s symbols with
        | Ret d -> merge_go rest d verbatim
        | Raise e -> Raise e)
     | None -> merge_go rest symbols (s :: verbatim))

(** val merge_symbols : symbol list list -> symbol list outcome **)

let merge_symbols by_equation =
  merge_go (concat by_equation) [] []

(** val digit_z : char -> z **)

let digit_z c =
  Z.sub (Z.of_N (n_of_ascii c)) (Zpos (XO (XO (XO (XO (XI XH))))))

(** val parse_digits : z -> bool -> char list -> z option **)

let rec parse_digits acc prev_digit = function
| [] -> if prev_digit then Some acc else None
| c::r ->
  if is_digit c
  then parse_digits (Z.add (Z.mul acc (Zpos (XO (XI (XO XH))))) (digit_z c))
         true r
  else if (&&) ((=) c '_') prev_digit then parse_digits acc false r else None

(** val int_max_str_digits : nat **)

let int_max_str_digits =
  S (S (S (S (S (S (S (S (S (S (S (S (S (S (S (S (S (S (S (S (S (S (S (S (S
    (S (S (S (S (S (S (S (S (S (S (S (S (S (S (S (S (S (S (S (S (S (S (S (S
    (S (S (S (S (S (S (S (S (S (S (S (S (S (S (S (S (S (S (S (S (S (S (S (S
    (S (S (S (S (S (S (S (S (S (S (S (S (S (S (S (S (S (S (S (S (S (S (S (S
    (S (S (S (S (S (S (S (S (S (S (S (S (S (S (S (S (S (S (S (S (S (S (S (S
    (S (S (S (S (S (S (S (S (S (S (S (S (S (S (S (S (S (S (S (S (S (S (S (S
    (S (S (S (S (S (S (S (S (S (S (S (S (S (S (S (S (S (S (S (S (S (S (S (S
    (S (S (S (S (S (S (S (S (S (S (S (S (S (S (S (S (S (S (S (S (S (S (S (S
    (S (S (S (S (S (S (S (S (S (S (S (S (S (S (S (S (S (S (S (S (S (S (S (S
    (S (S (S (S (S (S (S (S (S (S (S (S (S (S (S (S (S (S (S (S (S (S (S (S
    (S (S (S (S (S (S (S (S (S (S (S (S (S (S (S (S (S (S (S (S (S (S (S (S
    (S (S (S (S (S (S (S (S (S (S (S (S (S (S (S (S (S (S (S (S (S (S (S (S
    (S (S (S (S (S (S (S (S (S (S (S (S (S (S (S (S (S (S (S (S (S (S (S (S
    (S (S (S (S (S (S (S (S (S (S (S (S (S (S (S (S (S (S (S (S (S (S (S (S
    (S (S (S (S (S (S (S (S (S (S (S (S (S (S (S (S (S (S (S (S (S (S (S (S
    (S (S (S (S (S (S (S (S (S (S (S (S (S (S (S (S (S (S (S (S (S (S (S (S
    (S (S (S (S (S (S (S (S (S (S (S (S (S (S (S (S (S (S (S (S (S (S (S (S
    (S (S (S (S (S (S (S (S (S (S (S (S (S (S (S (S (S (S (S (S (S (S (S (S
    (S (S (S (S (S (S (S (S (S (S (S (S (S (S (S (S (S (S (S (S (S (S (S (S
    (S (S (S (S (S (S (S (S (S (S (S (S (S (S (S (S (S (S (S (S (S (S (S (S
    (S (S (S (S (S (S (S (S (S (S (S (S (S (S (S (S (S (S (S (S (S (S (S (S
    (S (S (S (S (S (S (S (S (S (S (S (S (S (S (S (S (S (S (S (S (S (S (S (S
    (S (S (S (S (S (S (S (S (S (S (S (S (S (S (S (S (S (S (S (S (S (S (S (S
    (S (S (S (S (S (S (S (S (S (S (S (S (S (S (S (S (S (S (S (S (S (S (S (S
    (S (S (S (S (S (S (S (S (S (S (S (S (S (S (S (S (S (S (S (S (S (S (S (S
    (S (S (S (S (S (S (S (S (S (S (S (S (S (S (S (S (S (S (S (S (S (S (S (S
    (S (S (S (S (S (S (S (S (S (S (S (S (S (S (S (S (S (S (S (S (S (S (S (S
    (S (S (S (S (S (S (S (S (S (S (S (S (S (S (S (S (S (S (S (S (S (S (S (S
    (S (S (S (S (S (S (S (S (S (S (S (S (S (S (S (S (S (S (S (S (S (S (S (S
    (S (S (S (S (S (S (S (S (S (S (S (S (S (S (S (S (S (S (S (S (S (S (S (S
    (S (S (S (S (S (S (S (S (S (S (S (S (S (S (S (S (S (S (S (S (S (S (S (S
    (S (S (S (S (S (S (S (S (S (S (S (S (S (S (S (S (S (S (S (S (S (S (S (S
    (S (S (S (S (S (S (S (S (S (S (S (S (S (S (S (S (S (S (S (S (S (S (S (S
    (S (S (S (S (S (S (S (S (S (S (S (S (S (S (S (S (S (S (S (S (S (S (S (S
    (S (S (S (S (S (S (S (S (S (S (S (S (S (S (S (S (S (S (S (S (S (S (S (S
    (S (S (S (S (S (S (S (S (S (S (S (S (S (S (S (S (S (S (S (S (S (S (S (S
    (S (S (S (S (S (S (S (S (S (S (S (S (S (S (S (S (S (S (S (S (S (S (S (S
    (S (S (S (S (S (S (S (S (S (S (S (S (S (S (S (S (S (S (S (S (S (S (S (S
    (S (S (S (S (S (S (S (S (S (S (S (S (S (S (S (S (S (S (S (S (S (S (S (S
    (S (S (S (S (S (S (S (S (S (S (S (S (S (S (S (S (S (S (S (S (S (S (S (S
    (S (S (S (S (S (S (S (S (S (S (S (S (S (S (S (S (S (S (S (S (S (S (S (S
    (S (S (S (S (S (S (S (S (S (S (S (S (S (S (S (S (S (S (S (S (S (S (S (S
    (S (S (S (S (S (S (S (S (S (S (S (S (S (S (S (S (S (S (S (S (S (S (S (S
    (S (S (S (S (S (S (S (S (S (S (S (S (S (S (S (S (S (S (S (S (S (S (S (S
    (S (S (S (S (S (S (S (S (S (S (S (S (S (S (S (S (S (S (S (S (S (S (S (S
    (S (S (S (S (S (S (S (S (S (S (S (S (S (S (S (S (S (S (S (S (S (S (S (S
    (S (S (S (S (S (S (S (S (S (S (S (S (S (S (S (S (S (S (S (S (S (S (S (S
    (S (S (S (S (S (S (S (S (S (S (S (S (S (S (S (S (S (S (S (S (S (S (S (S
    (S (S (S (S (S (S (S (S (S (S (S (S (S (S (S (S (S (S (S (S (S (S (S (S
    (S (S (S (S (S (S (S (S (S (S (S (S (S (S (S (S (S (S (S (S (S (S (S (S
    (S (S (S (S (S (S (S (S (S (S (S (S (S (S (S (S (S (S (S (S (S (S (S (S
    (S (S (S (S (S (S (S (S (S (S (S (S (S (S (S (S (S (S (S (S (S (S (S (S
    (S (S (S (S (S (S (S (S (S (S (S (S (S (S (S (S (S (S (S (S (S (S (S (S
    (S (S (S (S (S (S (S (S (S (S (S (S (S (S (S (S (S (S (S (S (S (S (S (S
    (S (S (S (S (S (S (S (S (S (S (S (S (S (S (S (S (S (S (S (S (S (S (S (S
    (S (S (S (S (S (S (S (S (S (S (S (S (S (S (S (S (S (S (S (S (S (S (S (S
    (S (S (S (S (S (S (S (S (S (S (S (S (S (S (S (S (S (S (S (S (S (S (S (S
    (S (S (S (S (S (S (S (S (S (S (S (S (S (S (S (S (S (S (S (S (S (S (S (S
    (S (S (S (S (S (S (S (S (S (S (S (S (S (S (S (S (S (S (S (S (S (S (S (S
    (S (S (S (S (S (S (S (S (S (S (S (S (S (S (S (S (S (S (S (S (S (S (S (S
    (S (S (S (S (S (S (S (S (S (S (S (S (S (S (S (S (S (S (S (S (S (S (S (S
    (S (S (S (S (S (S (S (S (S (S (S (S (S (S (S (S (S (S (S (S (S (S (S (S
    (S (S (S (S (S (S (S (S (S (S (S (S (S (S (S (S (S (S (S (S (S (S (S (S
    (S (S (S (S (S (S (S (S (S (S (S (S (S (S (S (S (S (S (S (S (S (S (S (S
    (S (S (S (S (S (S (S (S (S (S (S (S (S (S (S (S (S (S (S (S (S (S (S (S
    (S (S (S (S (S (S (S (S (S (S (S (S (S (S (S (S (S (S (S (S (S (S (S (S
    (S (S (S (S (S (S (S (S (S (S (S (S (S (S (S (S (S (S (S (S (S (S (S (S
    (S (S (S (S (S (S (S (S (S (S (S (S (S (S (S (S (S (S (S (S (S (S (S (S
    (S (S (S (S (S (S (S (S (S (S (S (S (S (S (S (S (S (S (S (S (S (S (S (S
    (S (S (S (S (S (S (S (S (S (S (S (S (S (S (S (S (S (S (S (S (S (S (S (S
    (S (S (S (S (S (S (S (S (S (S (S (S (S (S (S (S (S (S (S (S (S (S (S (S
    (S (S (S (S (S (S (S (S (S (S (S (S (S (S (S (S (S (S (S (S (S (S (S (S
    (S (S (S (S (S (S (S (S (S (S (S (S (S (S (S (S (S (S (S (S (S (S (S (S
    (S (S (S (S (S (S (S (S (S (S (S (S (S (S (S (S (S (S (S (S (S (S (S (S
    (S (S (S (S (S (S (S (S (S (S (S (S (S (S (S (S (S (S (S (S (S (S (S (S
    (S (S (S (S (S (S (S (S (S (S (S (S (S (S (S (S (S (S (S (S (S (S (S (S
    (S (S (S (S (S (S (S (S (S (S (S (S (S (S (S (S (S (S (S (S (S (S (S (S
    (S (S (S (S (S (S (S (S (S (S (S (S (S (S (S (S (S (S (S (S (S (S (S (S
    (S (S (S (S (S (S (S (S (S (S (S (S (S (S (S (S (S (S (S (S (S (S (S (S
    (S (S (S (S (S (S (S (S (S (S (S (S (S (S (S (S (S (S (S (S (S (S (S (S
    (S (S (S (S (S (S (S (S (S (S (S (S (S (S (S (S (S (S (S (S (S (S (S (S
    (S (S (S (S (S (S (S (S (S (S (S (S (S (S (S (S (S (S (S (S (S (S (S (S
    (S (S (S (S (S (S (S (S (S (S (S (S (S (S (S (S (S (S (S (S (S (S (S (S
    (S (S (S (S (S (S (S (S (S (S (S (S (S (S (S (S (S (S (S (S (S (S (S (S
    (S (S (S (S (S (S (S (S (S (S (S (S (S (S (S (S (S (S (S (S (S (S (S (S
    (S (S (S (S (S (S (S (S (S (S (S (S (S (S (S (S (S (S (S (S (S (S (S (S
    (S (S (S (S (S (S (S (S (S (S (S (S (S (S (S (S (S (S (S (S (S (S (S (S
    (S (S (S (S (S (S (S (S (S (S (S (S (S (S (S (S (S (S (S (S (S (S (S (S
    (S (S (S (S (S (S (S (S (S (S (S (S (S (S (S (S (S (S (S (S (S (S (S (S
    (S (S (S (S (S (S (S (S (S (S (S (S (S (S (S (S (S (S (S (S (S (S (S (S
    (S (S (S (S (S (S (S (S (S (S (S (S (S (S (S (S (S (S (S (S (S (S (S (S
    (S (S (S (S (S (S (S (S (S (S (S (S (S (S (S (S (S (S (S (S (S (S (S (S
    (S (S (S (S (S (S (S (S (S (S (S (S (S (S (S (S (S (S (S (S (S (S (S (S
    (S (S (S (S (S (S (S (S (S (S (S (S (S (S (S (S (S (S (S (S (S (S (S (S
    (S (S (S (S (S (S (S (S (S (S (S (S (S (S (S (S (S (S (S (S (S (S (S (S
    (S (S (S (S (S (S (S (S (S (S (S (S (S (S (S (S (S (S (S (S (S (S (S (S
    (S (S (S (S (S (S (S (S (S (S (S (S (S (S (S (S (S (S (S (S (S (S (S (S
    (S (S (S (S (S (S (S (S (S (S (S (S (S (S (S (S (S (S (S (S (S (S (S (S
    (S (S (S (S (S (S (S (S (S (S (S (S (S (S (S (S (S (S (S (S (S (S (S (S
    (S (S (S (S (S (S (S (S (S (S (S (S (S (S (S (S (S (S (S (S (S (S (S (S
    (S (S (S (S (S (S (S (S (S (S (S (S (S (S (S (S (S (S (S (S (S (S (S (S
    (S (S (S (S (S (S (S (S (S (S (S (S (S (S (S (S (S (S (S (S (S (S (S (S
    (S (S (S (S (S (S (S (S (S (S (S (S (S (S (S (S (S (S (S (S (S (S (S (S
    (S (S (S (S (S (S (S (S (S (S (S (S (S (S (S (S (S (S (S (S (S (S (S (S
    (S (S (S (S (S (S (S (S (S (S (S (S (S (S (S (S (S (S (S (S (S (S (S (S
    (S (S (S (S (S (S (S (S (S (S (S (S (S (S (S (S (S (S (S (S (S (S (S (S
    (S (S (S (S (S (S (S (S (S (S (S (S (S (S (S (S (S (S (S (S (S (S (S (S
    (S (S (S (S (S (S (S (S (S (S (S (S (S (S (S (S (S (S (S (S (S (S (S (S
    (S (S (S (S (S (S (S (S (S (S (S (S (S (S (S (S (S (S (S (S (S (S (S (S
    (S (S (S (S (S (S (S (S (S (S (S (S (S (S (S (S (S (S (S (S (S (S (S (S
    (S (S (S (S (S (S (S (S (S (S (S (S (S (S (S (S (S (S (S (S (S (S (S (S
    (S (S (S (S (S (S (S (S (S (S (S (S (S (S (S (S (S (S (S (S (S (S (S (S
    (S (S (S (S (S (S (S (S (S (S (S (S (S (S (S (S (S (S (S (S (S (S (S (S
    (S (S (S (S (S (S (S (S (S (S (S (S (S (S (S (S (S (S (S (S (S (S (S (S
    (S (S (S (S (S (S (S (S (S (S (S (S (S (S (S (S (S (S (S (S (S (S (S (S
    (S (S (S (S (S (S (S (S (S (S (S (S (S (S (S (S (S (S (S (S (S (S (S (S
    (S (S (S (S (S (S (S (S (S (S (S (S (S (S (S (S (S (S (S (S (S (S (S (S
    (S (S (S (S (S (S (S (S (S (S (S (S (S (S (S (S (S (S (S (S (S (S (S (S
    (S (S (S (S (S (S (S (S (S (S (S (S (S (S (S (S (S (S (S (S (S (S (S (S
    (S (S (S (S (S (S (S (S (S (S (S (S (S (S (S (S (S (S (S (S (S (S (S (S
    (S (S (S (S (S (S (S (S (S (S (S (S (S (S (S (S (S (S (S (S (S (S (S (S
    (S (S (S (S (S (S (S (S (S (S (S (S (S (S (S (S (S (S (S (S (S (S (S (S
    (S (S (S (S (S (S (S (S (S (S (S (S (S (S (S (S (S (S (S (S (S (S (S (S
    (S (S (S (S (S (S (S (S (S (S (S (S (S (S (S (S (S (S (S (S (S (S (S (S
    (S (S (S (S (S (S (S (S (S (S (S (S (S (S (S (S (S (S (S (S (S (S (S (S
    (S (S (S (S (S (S (S (S (S (S (S (S (S (S (S (S (S (S (S (S (S (S (S (S
    (S (S (S (S (S (S (S (S (S (S (S (S (S (S (S (S (S (S (S (S (S (S (S (S
    (S (S (S (S (S (S (S (S (S (S (S (S (S (S (S (S (S (S (S (S (S (S (S (S
    (S (S (S (S (S (S (S (S (S (S (S (S (S (S (S (S (S (S (S (S (S (S (S (S
    (S (S (S (S (S (S (S (S (S (S (S (S (S (S (S (S (S (S (S (S (S (S (S (S
    (S (S (S (S (S (S (S (S (S (S (S (S (S (S (S (S (S (S (S (S (S (S (S (S
    (S (S (S (S (S (S (S (S (S (S (S (S (S (S (S (S (S (S (S (S (S (S (S (S
    (S (S (S (S (S (S (S (S (S (S (S (S (S (S (S (S (S (S (S (S (S (S (S (S
    (S (S (S (S (S (S (S (S (S (S (S (S (S (S (S (S (S (S (S (S (S (S (S (S
    (S (S (S (S (S (S (S (S (S (S (S (S (S (S (S (S (S (S (S (S (S (S (S (S
    (S (S (S (S (S (S (S (S (S (S (S (S (S (S (S (S (S (S (S (S (S (S (S (S
    (S (S (S (S (S (S (S (S (S (S (S (S (S (S (S (S (S (S (S (S (S (S (S (S
    (S (S (S (S (S (S (S (S (S (S (S (S (S (S (S (S (S (S (S (S (S (S (S (S
    (S (S (S (S (S (S (S (S (S (S (S (S (S (S (S (S (S (S (S (S (S (S (S (S
    (S (S (S (S (S (S (S (S (S (S (S (S (S (S (S (S (S (S (S (S (S (S (S (S
    (S (S (S (S (S (S (S (S (S (S (S (S (S (S (S (S (S (S (S (S (S (S (S (S
    (S (S (S (S (S (S (S (S (S (S (S (S (S (S (S (S (S (S (S (S (S (S (S (S
    (S (S (S (S (S (S (S (S (S (S (S (S (S (S (S (S (S (S (S (S (S (S (S (S
    (S (S (S (S (S (S (S (S (S (S (S (S (S (S (S (S (S (S (S (S (S (S (S (S
    (S (S (S (S (S (S (S (S (S (S (S (S (S (S (S (S (S (S (S (S (S (S (S (S
    (S (S (S (S (S (S (S (S (S (S (S (S (S (S (S (S (S (S (S (S (S (S (S (S
    (S (S (S (S (S (S (S (S (S (S (S (S (S (S (S (S (S (S (S (S (S (S (S (S
    (S (S (S (S (S (S (S (S (S (S (S (S (S (S (S (S (S (S (S (S (S (S (S (S
    (S (S (S (S (S (S (S (S (S (S (S (S (S (S (S (S (S (S (S (S (S (S (S (S
    (S (S (S (S (S (S (S (S (S (S (S (S (S (S (S (S (S (S (S (S (S (S (S (S
    (S (S (S (S (S (S (S (S (S (S (S (S (S (S (S (S (S (S (S (S (S (S (S (S
    (S (S (S (S (S (S (S (S (S (S (S (S (S (S (S (S (S (S (S (S (S (S (S (S
    (S (S (S (S (S (S (S (S (S (S (S (S (S (S (S (S (S (S (S (S (S (S (S (S
    (S (S (S (S (S (S (S (S (S (S (S (S (S (S (S (S (S (S (S (S (S (S (S (S
    (S (S (S (S (S (S (S (S (S (S (S (S (S (S (S (S (S (S (S (S (S (S (S (S
    (S (S (S (S (S (S (S (S (S (S (S (S (S (S (S (S (S (S (S (S (S (S (S (S
    (S (S (S (S (S (S (S (S (S (S (S (S (S (S (S (S (S (S (S (S (S (S (S (S
    (S (S (S (S (S (S (S (S (S (S (S (S (S (S (S (S (S (S (S (S (S (S (S (S
    (S (S (S (S (S (S (S (S (S (S (S (S (S (S (S (S (S (S (S (S (S (S (S (S
    (S (S (S (S (S (S (S (S (S (S (S (S (S (S (S (S (S (S (S (S (S (S (S (S
    (S (S (S (S (S (S (S (S (S (S (S (S (S (S (S (S (S (S (S (S (S (S (S (S
    (S (S (S (S (S (S (S (S (S (S (S (S (S (S (S (S (S (S (S (S (S (S (S (S
    (S (S (S (S (S (S (S (S (S (S (S (S (S (S (S (S (S (S (S (S (S (S (S (S
    (S (S (S (S (S (S (S (S (S (S (S (S (S (S (S (S (S (S (S (S (S (S (S (S
    (S (S (S (S (S (S (S (S (S (S (S (S (S (S (S (S (S (S (S (S (S (S (S (S
    (S (S (S (S (S (S (S (S (S (S (S (S (S (S (S (S (S (S (S (S (S (S (S (S
    (S (S (S (S (S (S (S (S (S (S (S (S (S (S (S (S (S (S (S (S (S (S (S (S
    (S (S (S (S (S (S (S (S (S (S (S (S (S (S (S (S (S (S (S (S (S (S (S (S
    (S (S (S (S (S (S (S (S (S (S (S (S (S (S (S (S (S (S (S (S (S (S (S (S
    (S (S (S (S (S (S (S (S (S (S (S (S (S (S (S (S (S (S (S (S (S (S (S (S
    (S (S (S (S (S (S (S (S (S (S (S (S (S (S (S (S (S (S (S (S (S (S (S (S
    (S (S (S (S (S (S (S (S (S (S (S (S (S (S (S (S (S (S (S (S (S (S (S (S
    (S (S (S (S (S (S (S (S (S (S (S (S (S (S (S (S (S (S (S (S (S (S (S (S
    (S (S (S (S (S (S (S (S (S (S (S (S (S (S (S (S (S (S (S (S (S (S (S (S
    (S (S (S (S (S (S (S (S (S (S (S (S (S (S (S (S (S (S (S (S (S (S (S (S
    (S (S (S (S (S (S (S (S (S (S (S (S (S (S (S (S (S (S (S (S (S (S (S (S
    (S (S (S (S (S (S (S (S (S (S (S (S (S (S (S (S (S (S (S (S (S (S (S (S
    (S (S (S (S (S (S (S (S (S (S (S (S (S (S (S (S (S (S (S (S (S (S (S (S
    (S (S (S (S (S (S (S (S (S (S (S (S (S (S (S (S (S (S (S (S (S (S (S (S
    (S (S (S
    O)))))))))))))))))))))))))))))))))))))))))))))))))))))))))))))))))))))))))))))))))))))))))))))))))))))))))))))))))))))))))))))))))))))))))))))))))))))))))))))))))))))))))))))))))))))))))))))))))))))))))))))))))))))))))))))))))))))))))))))))))))))))))))))))))))))))))))))))))))))))))))))))))))))))))))))))))))))))))))))))))))))))))))))))))))))))))))))))))))))))))))))))))))))))))))))))))))))))))))))))))))))))))))))))))))))))))))))))))))))))))))))))))))))))))))))))))))))))))))))))))))))))))))))))))))))))))))))))))))))))))))))))))))))))))))))))))))))))))))))))))))))))))))))))))))))))))))))))))))))))))))))))))))))))))))))))))))))))))))))))))))))))))))))))))))))))))))))))))))))))))))))))))))))))))))))))))))))))))))))))))))))))))))))))))))))))))))))))))))))))))))))))))))))))))))))))))))))))))))))))))))))))))))))))))))))))))))))))))))))))))))))))))))))))))))))))))))))))))))))))))))))))))))))))))))))))))))))))))))))))))))))))))))))))))))))))))))))))))))))))))))))))))))))))))))))))))))))))))))))))))))))))))))))))))))))))))))))))))))))))))))))))))))))))))))))))))))))))))))))))))))))))))))))))))))))))))))))))))))))))))))))))))))))))))))))))))))))))))))))))))))))))))))))))))))))))))))))))))))))))))))))))))))))))))))))))))))))))))))))))))))))))))))))))))))))))))))))))))))))))))))))))))))))))))))))))))))))))))))))))))))))))))))))))))))))))))))))))))))))))))))))))))))))))))))))))))))))))))))))))))))))))))))))))))))))))))))))))))))))))))))))))))))))))))))))))))))))))))))))))))))))))))))))))))))))))))))))))))))))))))))))))))))))))))))))))))))))))))))))))))))))))))))))))))))))))))))))))))))))))))))))))))))))))))))))))))))))))))))))))))))))))))))))))))))))))))))))))))))))))))))))))))))))))))))))))))))))))))))))))))))))))))))))))))))))))))))))))))))))))))))))))))))))))))))))))))))))))))))))))))))))))))))))))))))))))))))))))))))))))))))))))))))))))))))))))))))))))))))))))))))))))))))))))))))))))))))))))))))))))))))))))))))))))))))))))))))))))))))))))))))))))))))))))))))))))))))))))))))))))))))))))))))))))))))))))))))))))))))))))))))))))))))))))))))))))))))))))))))))))))))))))))))))))))))))))))))))))))))))))))))))))))))))))))))))))))))))))))))))))))))))))))))))))))))))))))))))))))))))))))))))))))))))))))))))))))))))))))))))))))))))))))))))))))))))))))))))))))))))))))))))))))))))))))))))))))))))))))))))))))))))))))))))))))))))))))))))))))))))))))))))))))))))))))))))))))))))))))))))))))))))))))))))))))))))))))))))))))))))))))))))))))))))))))))))))))))))))))))))))))))))))))))))))))))))))))))))))))))))))))))))))))))))))))))))))))))))))))))))))))))))))))))))))))))))))))))))))))))))))))))))))))))))))))))))))))))))))))))))))))))))))))))))))))))))))))))))))))))))))))))))))))))))))))))))))))))))))))))))))))))))))))))))))))))))))))))))))))))))))))))))))))))))))))))))))))))))))))))))))))))))))))))))))))))))))))))))))))))))))))))))))))))))))))))))))))))))))))))))))))))))))))))))))))))))))))))))))))))))))))))))))))))))))))))))))))))))))))))))))))))))))))))))))))))))))))))))))))))))))))))))))))))))))))))))))))))))))))))))))))))))))))))))))))))))))))))))))))))))))))))))))))))))))))))))))))))))))))))))))))))))))))))))))))))))))))))))))))))))))))))))))))))))))))))))))))))))))))))))))))))))))))))))))))))))))))))))))))))))))))))))))))))))))))))))))))))))))))))))))))))))))))))))))))))))))))))))))))))))))))))))))))))))))))))))))))))))))))))))))))))))))))))))))))))))))))))))))))))))))))))))))))))))))))))))))))))))))))))))))))))))))))))))))))))))))))))))))))))))))))))))))))))))))))))))))))))))))))))))))))))))))))))))))))))))))))))))))))))))))))))))))))))))))))))))))))))))))))))))))))))))))))))))))))))))))))))))))))))))))))))))))))))))))))))))))))))))))))))))))))))))))))))))))))))))))))))))))))))))))))))))))))))))))))))))))))))))))))))))))))))))))))))))))))))))))))))))))))))))))))))))))))))))))))))))))))))))))))))))))))))))))))))))))))))))))))))))))))))))))))))))))))))))))))))))))))))))))))))))))))))))))))))))))))))))))))))))))))))))))))))))))))))))))))))))))))))))))))))))))))))))))))))))))))))))))))))))))))))))))))))))))))))))))))))))))))))))))))))))))))))))))))))))))))))))))))))))))))))))))))))))))))))))))))))))))))))))))))))))))))))))))))))))))))))))))))))))))))))))))))))))))))))))))))))))))))))))))))))))))))))))))))))))))))))))))))))))))))))))))))))))))))))))))))))

(** val count_digits : char list -> nat **)

let rec count_digits = function
| [] -> O
| c::r -> if is_digit c then S (count_digits r) else count_digits r

(** val py_int : char list -> z option **)

let py_int txt =
  if Nat.ltb int_max_str_digits (count_digits (py_strip txt))
  then None
  else (match py_strip txt with
        | [] -> None
        | c::r ->
          if (=) c '-'
          then (match parse_digits Z0 false r with
                | Some z0 -> Some (Z.opp z0)
                | None -> None)
          else if (=) c '+'
               then parse_digits Z0 false r
               else parse_digits Z0 false (c::r))

(** val string_of_Z : z -> char list **)

let string_of_Z z0 =
  NilZero.string_of_int (Z.to_int z0)

(** val kind_type : kind -> ptype **)

let kind_type = function
| KVerbatim -> TVerbatim
| KInvalid -> TInvalid
| KKeyword -> TKeyword
| KFunction -> TFunction
| KParameter -> TParameter
| KError -> TError
| KVariable -> TVariable

(** val drop_last : char list -> char list **)

let rec drop_last = function
| [] -> []
| c::r -> (match r with
           | [] -> []
           | _::_ -> c::(drop_last r))

(** val quoted_by : char -> char list -> bool **)

let quoted_by q s =
  (&&) (head_is q s) (last_is q s)

(** val mk_index : char list option -> pidx outcome **)

let mk_index = function
| Some i ->
  if (||) (quoted_by '\'' i) (quoted_by '"' i)
  then Ret (IStr i)
  else if quoted_by '`' i
       then Ret (IStr (drop_last (match i with
                                  | [] -> []
                                  | _::r -> r)))
       else (match py_int i with
             | Some z0 -> Ret (IInt z0)
             | None -> Raise ParserError)
| None -> Ret (IInt Z0)

(** val mk_term : tmatch -> term outcome **)

let mk_term m =
  match m.mkind with
  | KKeyword ->
    Ret { tname = m.mname; ttype = (kind_type m.mkind); tindex = None }
  | KFunction ->
    Ret { tname = m.mname; ttype = (kind_type m.mkind); tindex = None }
  | x ->
    (match mk_index m.mindex with
     | Ret i ->
       Ret { tname = m.mname; ttype = (kind_type x); tindex = (Some i) }
     | Raise e -> Raise e)

(** val map_o : ('a1 -> 'a2 outcome) -> 'a1 list -> 'a2 list outcome **)

let rec map_o f = function
| [] -> Ret []
| a :: r ->
  (match f a with
   | Ret b ->
     (match map_o f r with
      | Ret bs0 -> Ret (b :: bs0)
      | Raise e -> Raise e)
   | Raise e -> Raise e)

(** val parse_terms : char list -> term list outcome **)

let parse_terms expression =
  map_o mk_term (matches_of (scan_items expression))

(** val term_str : term -> char list option **)

let term_str t =
  match t.ttype with
  | TFunction -> Some t.tname
  | TKeyword -> Some t.tname
  | TVerbatim -> Some t.tname
  | _ ->
    (match t.tindex with
     | Some p ->
       (match p with
        | IInt z0 ->
          Some
            (append t.tname
              (if Z.ltb Z0 z0
               then append ('['::('t'::('+'::[])))
                      (append (string_of_Z z0) (']'::[]))
               else if Z.eqb z0 Z0
                    then '['::('t'::(']'::[]))
                    else append ('['::('t'::[]))
                           (append (string_of_Z z0) (']'::[]))))
        | IStr s ->
          Some (append t.tname (append ('['::[]) (append s (']'::[])))))
     | None -> None)

(** val assoc_s :
    char list -> (char list * char list) list -> char list option **)

let rec assoc_s k = function
| [] -> None
| p :: r -> let (k', v) = p in if eqb0 k k' then Some v else assoc_s k r

(** val term_code : term -> char list option **)

let term_code t =
  match term_str t with
  | Some code ->
    (match t.ttype with
     | TFunction ->
       Some
         (match assoc_s code replacement_function_names with
          | Some v -> v
          | None -> code)
     | TKeyword ->
       Some
         (match assoc_s code replacement_function_names with
          | Some v -> v
          | None -> code)
     | TVerbatim -> Some (strip_by (fun c -> (=) c '`') code)
     | _ ->
       (match t.tindex with
        | Some p ->
          (match p with
           | IInt _ ->
             Some (append ('s'::('e'::('l'::('f'::('.'::('_'::[])))))) code)
           | IStr s ->
             Some
               (append ('s'::('e'::('l'::('f'::('['::('\''::[]))))))
                 (append t.tname
                   (append ('\''::(','::(' '::[]))) (append s (']'::[]))))))
        | None ->
          Some (append ('s'::('e'::('l'::('f'::('.'::('_'::[])))))) code)))
  | None -> None

(** val all_some : 'a1 option list -> 'a1 list option **)

let rec all_some = function
| [] -> Some []
| o :: r ->
  (match o with
   | Some a -> (match all_some r with
                | Some x -> Some (a :: x)
                | None -> None)
   | None -> None)

(** val replace_type : ptype -> term -> term **)

let replace_type new_type t =
  match t.ttype with
  | TVariable -> { tname = t.tname; ttype = new_type; tindex = t.tindex }
  | _ -> t

(** val has_type : ptype -> term list -> bool **)

let has_type ty l =
  existsb (fun t -> type_eqb t.ttype ty) l

(** val parse_equation_terms : char list -> term list outcome **)

let parse_equation_terms equation =
  match find_any '=' equation with
  | Some p ->
    let (lhs_text, rhs_text) = p in
    (match parse_terms lhs_text with
     | Ret l0 ->
       let lhs = map (replace_type TEndogenous) l0 in
       (match parse_terms rhs_text with
        | Ret r0 ->
          let rhs = map (replace_type TExogenous) r0 in
          if (||) (has_type TKeyword lhs) (has_type TInvalid rhs)
          then Raise ParserError
          else if negb (has_type TEndogenous lhs)
               then Raise ParserError
               else Ret (app lhs rhs)
        | Raise e -> Raise e)
     | Raise e -> Raise e)
  | None -> Raise ParserError

(** val template_of : item list -> char list **)

let rec template_of = function
| [] -> []
| i :: r ->
  (match i with
   | Chr c -> c::(template_of r)
   | Tok (_, _) -> append ('{'::('}'::[])) (template_of r))

(** val sub_ws : bool -> char list -> char list **)

let rec sub_ws in_ws = function
| [] -> []
| c::r ->
  if is_space c
  then if in_ws then sub_ws true r else ' '::(sub_ws true r)
  else c::(sub_ws false r)

(** val sub_open : bool -> char list -> char list **)

let rec sub_open after_open = function
| [] -> []
| c::r ->
  if (&&) after_open (is_space c)
  then sub_open true r
  else c::(sub_open ((=) c '(') r)

(** val sub_close : char list -> char list **)

let rec sub_close = function
| [] -> []
| c::r ->
  let r' = sub_close r in
  if (&&) (is_space c) (head_is ')' r') then r' else c::r'

(** val normalise_template : char list -> char list **)

let normalise_template t =
  sub_close (sub_open false (sub_ws false t))

(** val template : char list -> char list **)

let template equation =
  normalise_template (template_of (scan_items equation))

(** val strip_chars : char list -> char list -> char list **)

let strip_chars chars s =
  strip_by (fun c -> mem_ascii c chars) s

(** val parse_equation_M : char list -> symbol list pres **)

let parse_equation_M equation =
  if is_blank equation
  then POk []
  else let (stmts, o) = split_M equation in
       (match o with
        | Some e -> PErr e
        | None ->
          if negb (Nat.eqb (length stmts) (S O))
          then PErr ParserError
          else if (&&) (head_is '`' equation) (last_is '`' equation)
               then POk ({ sname = None; stype = TVerbatim; slags = None;
                      sleads = None; sequation = (Some equation); scode =
                      (Some
                      (strip_chars ('`' :: (cr :: (nl :: []))) equation)) } :: [])
               else if negb
                         (Nat.eqb (count_char '{' equation)
                           (count_char '}' equation))
                    then PErr ParserError
                    else (match parse_equation_terms equation with
                          | Ret terms ->
                            let tpl = template equation in
                            (match all_some (map term_str terms) with
                             | Some strs ->
                               (match all_some (map term_code terms) with
                                | Some codes ->
                                  (match py_format tpl strs with
                                   | FOk standardised ->
                                     (match py_format tpl codes with
                                      | FOk code ->
                                        of_outcome
                                          (equation_symbols standardised code
                                            terms)
                                      | FFail -> PErr ParserError
                                      | FUnmodelled -> PUnmodelled)
                                   | FFail -> PErr ParserError
                                   | FUnmodelled -> PUnmodelled)
                                | None -> PErr TypeError)
                             | None -> PErr TypeError)
                          | Raise e -> PErr e))

type chk_res =
| ChkOk
| ChkSyntaxError
| ChkSyntaxWarning
| ChkOtherWarning of nat
| ChkOtherExn
| ChkCaughtExn

type verdict =
| VFine
| VProblem
| VRaise of exn

(** val check_codes : (char list -> chk_res) -> char list list -> verdict **)

let rec check_codes chk = function
| [] -> VFine
| e :: rest ->
  (match chk e with
   | ChkOk -> check_codes chk rest
   | ChkOtherWarning _ -> VRaise ParserError
   | ChkOtherExn -> VRaise OtherError
   | _ -> VProblem)

(** val codes_of : symbol list -> char list list **)

let rec codes_of = function
| [] -> []
| s :: r ->
  (match s.scode with
   | Some c -> c :: (codes_of r)
   | None -> codes_of r)

(** val parse_statements :
    (char list -> chk_res) -> bool -> char list list -> symbol list list ->
    bool -> (symbol list list * bool) pres **)

let rec parse_statements chk check_syntax stmts acc problems =
  match stmts with
  | [] -> POk ((rev0 acc), problems)
  | st :: rest ->
    (match parse_equation_M st with
     | POk syms ->
       if check_syntax
       then (match check_codes chk (codes_of syms) with
             | VFine ->
               parse_statements chk check_syntax rest (syms :: acc) problems
             | VProblem ->
               parse_statements chk check_syntax rest (syms :: acc) true
             | VRaise e -> PErr e)
       else parse_statements chk check_syntax rest (syms :: acc) problems
     | PErr e -> PErr e
     | PUnmodelled -> PUnmodelled)

(** val parse_model_M :
    (char list -> chk_res) -> bool -> char list -> symbol list pres **)

let parse_model_M chk check_syntax model =
  let (stmts, split_err) = split_M model in
  (match parse_statements chk check_syntax stmts [] false with
   | POk a ->
     let (by_equation, problems) = a in
     (match split_err with
      | Some e -> PErr e
      | None ->
        if problems
        then PErr ParserError
        else of_outcome (merge_symbols by_equation))
   | PErr e -> PErr e
   | PUnmodelled -> PUnmodelled)

(** val chk_none : char list -> chk_res **)

let chk_none _ =
  ChkOk

(** val parse_model_nocheck : char list -> symbol list pres **)

let parse_model_nocheck model =
  parse_model_M chk_none false model

(** val emits : symbol -> bool **)

let emits s =
  match s.stype with
  | TEndogenous ->
    (match s.sequation with
     | Some _ -> (match s.scode with
                  | Some _ -> true
                  | None -> false)
     | None -> false)
  | TVerbatim ->
    (match s.sequation with
     | Some _ -> (match s.scode with
                  | Some _ -> true
                  | None -> false)
     | None -> false)
  | _ -> false

(** val has_stype : ptype -> symbol -> bool **)

let has_stype ty s =
  type_eqb s.stype ty

(** val names_of : ptype -> symbol list -> char list option list **)

let names_of ty syms =
  map (fun s -> s.sname) (filter (has_stype ty) syms)

(** val indexed_symbol : symbol -> bool **)

let indexed_symbol s =
  match s.stype with
  | TFunction -> false
  | TKeyword -> false
  | TVerbatim -> false
  | _ -> true

(** val ints_of : pidx option list -> z list option **)

let rec ints_of = function
| [] -> Some []
| o :: r ->
  (match o with
   | Some p ->
     (match p with
      | IInt z0 ->
        (match ints_of r with
         | Some zs -> Some (z0 :: zs)
         | None -> None)
      | IStr _ -> None)
   | None -> None)

(** val extreme : (z -> z -> z) -> pidx option list -> z outcome **)

let extreme f l =
  match ints_of l with
  | Some l0 ->
    (match l0 with
     | [] -> Raise TypeError
     | z0 :: zs -> Ret (Z.abs (fold_left f zs z0)))
  | None -> Raise TypeError

(** val resolve_length :
    (z -> z -> z) -> z option -> z option -> pidx option list -> z outcome **)

let resolve_length f explicit floor vals =
  match explicit with
  | Some z0 -> Ret z0
  | None ->
    (match match vals with
           | [] -> Ret Z0
           | _ :: _ -> extreme f vals with
     | Ret z0 ->
       (match floor with
        | Some m -> Ret (Z.max z0 m)
        | None -> Raise TypeError)
     | Raise e -> Raise e)

type bopts = { o_lags : z option; o_leads : z option; o_min_lags : z option;
               o_min_leads : z option }

(** val default_opts : bopts **)

let default_opts =
  { o_lags = None; o_leads = None; o_min_lags = (Some Z0); o_min_leads =
    (Some Z0) }

type mclass = { c_endogenous : char list option list;
                c_exogenous : char list option list;
                c_parameters : char list option list;
                c_errors : char list option list; c_lags : z; c_leads : 
                z }

(** val c_names : mclass -> char list option list **)

let c_names c =
  app c.c_endogenous (app c.c_exogenous (app c.c_parameters c.c_errors))

(** val class_of : symbol list -> bopts -> mclass outcome **)

let class_of syms o =
  let ix = filter indexed_symbol syms in
  (match resolve_length Z.min o.o_lags o.o_min_lags
           (map (fun s -> s.slags) ix) with
   | Ret lg ->
     (match resolve_length Z.max o.o_leads o.o_min_leads
              (map (fun s -> s.sleads) ix) with
      | Ret ld ->
        Ret { c_endogenous = (names_of TEndogenous syms); c_exogenous =
          (names_of TExogenous syms); c_parameters =
          (names_of TParameter syms); c_errors = (names_of TError syms);
          c_lags = lg; c_leads = ld }
      | Raise e -> Raise e)
   | Raise e -> Raise e)

(** val default_range : nat -> z -> z -> z list outcome **)

let default_range n0 lags leads =
  if Nat.eqb n0 O
  then Raise (SolutionError None)
  else if Z.leb (Z.of_nat n0) lags
       then Raise IndexError
       else if Z.ltb (Z.sub (Z.sub (Z.of_nat n0) (Zpos XH)) leads) Z0
            then Raise IndexError
            else let stop = Z.sub (Z.of_nat n0) leads in
                 let positions = Z.to_nat (Z.sub stop lags) in
                 let labels =
                   Z.to_nat
                     (Z.sub (clip (Z.of_nat n0) stop)
                       (clip (Z.of_nat n0) lags))
                 in
                 Ret
                 (map (fun i -> Z.add lags (Z.of_nat i))
                   (seq O (Nat.min positions labels)))

(** val is_printable : char -> bool **)

let is_printable c =
  let n0 = nat_of_ascii c in
  (||)
    ((&&)
      (Nat.leb (S (S (S (S (S (S (S (S (S (S (S (S (S (S (S (S (S (S (S (S (S
        (S (S (S (S (S (S (S (S (S (S (S O)))))))))))))))))))))))))))))))) n0)
      (Nat.leb n0 (S (S (S (S (S (S (S (S (S (S (S (S (S (S (S (S (S (S (S (S
        (S (S (S (S (S (S (S (S (S (S (S (S (S (S (S (S (S (S (S (S (S (S (S
        (S (S (S (S (S (S (S (S (S (S (S (S (S (S (S (S (S (S (S (S (S (S (S
        (S (S (S (S (S (S (S (S (S (S (S (S (S (S (S (S (S (S (S (S (S (S (S
        (S (S (S (S (S (S (S (S (S (S (S (S (S (S (S (S (S (S (S (S (S (S (S
        (S (S (S (S (S (S (S (S (S (S (S (S (S (S
        O))))))))))))))))))))))))))))))))))))))))))))))))))))))))))))))))))))))))))))))))))))))))))))))))))))))))))))))))))))))))))))))))
    ((&&)
      (Nat.leb (S (S (S (S (S (S (S (S (S (S (S (S (S (S (S (S (S (S (S (S (S
        (S (S (S (S (S (S (S (S (S (S (S (S (S (S (S (S (S (S (S (S (S (S (S
        (S (S (S (S (S (S (S (S (S (S (S (S (S (S (S (S (S (S (S (S (S (S (S
        (S (S (S (S (S (S (S (S (S (S (S (S (S (S (S (S (S (S (S (S (S (S (S
        (S (S (S (S (S (S (S (S (S (S (S (S (S (S (S (S (S (S (S (S (S (S (S
        (S (S (S (S (S (S (S (S (S (S (S (S (S (S (S (S (S (S (S (S (S (S (S
        (S (S (S (S (S (S (S (S (S (S (S (S (S (S (S (S (S (S (S (S (S (S (S
        (S (S
        O)))))))))))))))))))))))))))))))))))))))))))))))))))))))))))))))))))))))))))))))))))))))))))))))))))))))))))))))))))))))))))))))))))))))))))))))))))))))))))))))))
        n0)
      (negb
        (Nat.eqb n0 (S (S (S (S (S (S (S (S (S (S (S (S (S (S (S (S (S (S (S
          (S (S (S (S (S (S (S (S (S (S (S (S (S (S (S (S (S (S (S (S (S (S
          (S (S (S (S (S (S (S (S (S (S (S (S (S (S (S (S (S (S (S (S (S (S
          (S (S (S (S (S (S (S (S (S (S (S (S (S (S (S (S (S (S (S (S (S (S
          (S (S (S (S (S (S (S (S (S (S (S (S (S (S (S (S (S (S (S (S (S (S
          (S (S (S (S (S (S (S (S (S (S (S (S (S (S (S (S (S (S (S (S (S (S
          (S (S (S (S (S (S (S (S (S (S (S (S (S (S (S (S (S (S (S (S (S (S
          (S (S (S (S (S (S (S (S (S (S (S (S (S (S (S (S (S (S (S (S (S (S
          O))))))))))))))))))))))))))))))))))))))))))))))))))))))))))))))))))))))))))))))))))))))))))))))))))))))))))))))))))))))))))))))))))))))))))))))))))))))))))))))))))))))))))))))))

(** val hex_digit : nat -> char **)

let hex_digit n0 =
  nth n0
    (list_ascii_of_string
      ('0'::('1'::('2'::('3'::('4'::('5'::('6'::('7'::('8'::('9'::('a'::('b'::('c'::('d'::('e'::('f'::[])))))))))))))))))
    '0'

(** val bs : char **)

let bs =
  ascii_of_nat (S (S (S (S (S (S (S (S (S (S (S (S (S (S (S (S (S (S (S (S (S
    (S (S (S (S (S (S (S (S (S (S (S (S (S (S (S (S (S (S (S (S (S (S (S (S
    (S (S (S (S (S (S (S (S (S (S (S (S (S (S (S (S (S (S (S (S (S (S (S (S
    (S (S (S (S (S (S (S (S (S (S (S (S (S (S (S (S (S (S (S (S (S (S (S
    O))))))))))))))))))))))))))))))))))))))))))))))))))))))))))))))))))))))))))))))))))))))))))))

(** val sq : char **)

let sq =
  ascii_of_nat (S (S (S (S (S (S (S (S (S (S (S (S (S (S (S (S (S (S (S (S (S
    (S (S (S (S (S (S (S (S (S (S (S (S (S (S (S (S (S (S
    O)))))))))))))))))))))))))))))))))))))))

(** val dq : char **)

let dq =
  ascii_of_nat (S (S (S (S (S (S (S (S (S (S (S (S (S (S (S (S (S (S (S (S (S
    (S (S (S (S (S (S (S (S (S (S (S (S (S O))))))))))))))))))))))))))))))))))

(** val tab : char **)

let tab =
  ascii_of_nat (S (S (S (S (S (S (S (S (S O)))))))))

(** val repr_char : char -> char -> char list **)

let repr_char q c =
  if (||) ((=) c q) ((=) c bs)
  then bs::(c::[])
  else if (=) c tab
       then bs::('t'::[])
       else if (=) c nl
            then bs::('n'::[])
            else if (=) c cr
                 then bs::('r'::[])
                 else if is_printable c
                      then c::[]
                      else bs::('x'::((hex_digit
                                        (Nat.div (nat_of_ascii c) (S (S (S (S
                                          (S (S (S (S (S (S (S (S (S (S (S (S
                                          O))))))))))))))))))::((hex_digit
                                                                  (Nat.modulo
                                                                    (nat_of_ascii
                                                                    c) (S (S
                                                                    (S (S (S
                                                                    (S (S (S
                                                                    (S (S (S
                                                                    (S (S (S
                                                                    (S (S
                                                                    O))))))))))))))))))::[])))

(** val repr_body : char -> char list -> char list **)

let rec repr_body q = function
| [] -> []
| c::r -> append (repr_char q c) (repr_body q r)

(** val py_repr_str : char list -> char list **)

let py_repr_str s =
  let q = if (&&) (has_char sq s) (negb (has_char dq s)) then dq else sq in
  q::(append (repr_body q s) (q::[]))

(** val py_repr_name : char list option -> char list **)

let py_repr_name = function
| Some s -> py_repr_str s
| None -> 'N'::('o'::('n'::('e'::[])))

(** val join_sep : char list -> char list list -> char list **)

let rec join_sep sep = function
| [] -> []
| x :: r ->
  (match r with
   | [] -> x
   | _ :: _ -> append x (append sep (join_sep sep r)))

(** val py_repr_names : char list option list -> char list **)

let py_repr_names l =
  append ('['::[])
    (append (join_sep (','::(' '::[])) (map py_repr_name l)) (']'::[]))

(** val assoc_str :
    char list -> (char list * char list) list -> char list option **)

let rec assoc_str k = function
| [] -> None
| p :: r -> let (k', v) = p in if eqb0 k k' then Some v else assoc_str k r

(** val all_digits0 : char list -> bool **)

let all_digits0 s = match s with
| [] -> true
| _::_ ->
  let rec go = function
  | [] -> true
  | c::r -> (&&) (is_digit c) (go r)
  in go s

(** val papp : char list -> char list pres -> char list pres **)

let papp a = function
| POk b -> POk (append a b)
| x -> x

(** val format_named_go :
    (char list * char list) list -> char list -> char list option ->
    char list pres **)

let rec format_named_go env s = function
| Some acc ->
  (match s with
   | [] -> PErr ValueError
   | c::r ->
     if (=) c '}'
     then let name = rev_str acc [] in
          if all_digits0 name
          then PErr IndexError
          else (match assoc_str name env with
                | Some v -> papp v (format_named_go env r None)
                | None -> PErr KeyError)
     else if (=) c '{'
          then PErr ValueError
          else if is_idc c
               then format_named_go env r (Some (c::acc))
               else PUnmodelled)
| None ->
  (match s with
   | [] -> POk []
   | c::r ->
     if (=) c '{'
     then (match r with
           | [] -> PErr ValueError
           | c2::r2 ->
             if (=) c2 '{'
             then papp ('{'::[]) (format_named_go env r2 None)
             else format_named_go env r (Some []))
     else if (=) c '}'
          then (match r with
                | [] -> PErr ValueError
                | c2::r2 ->
                  if (=) c2 '}'
                  then papp ('}'::[]) (format_named_go env r2 None)
                  else PErr ValueError)
          else papp (c::[]) (format_named_go env r None))

(** val format_named :
    char list -> (char list * char list) list -> char list pres **)

let format_named tpl env =
  format_named_go env tpl None

(** val lines_keepends : char list -> char list -> char list list **)

let rec lines_keepends cur = function
| [] -> (match cur with
         | [] -> []
         | _::_ -> (rev_str cur []) :: [])
| c::r ->
  if is_linesep c
  then if (=) c cr
       then (match r with
             | [] -> (rev_str (c::cur) []) :: (lines_keepends [] r)
             | c2::r2 ->
               if (=) c2 nl
               then (rev_str (c2::(c::cur)) []) :: (lines_keepends [] r2)
               else (rev_str (c::cur) []) :: (lines_keepends [] r))
       else (rev_str (c::cur) []) :: (lines_keepends [] r)
  else lines_keepends (c::cur) r

(** val indent_line : char list -> char list -> char list **)

let indent_line prefix line =
  if is_blank line then line else append prefix line

(** val indent : char list -> char list -> char list **)

let indent prefix text =
  concat0 [] (map (indent_line prefix) (lines_keepends [] text))

(** val eq_prefix : char list **)

let eq_prefix =
  ' '::(' '::(' '::(' '::(' '::(' '::(' '::(' '::[])))))))

(** val opt_str : char list option -> char list **)

let opt_str = function
| Some s -> s
| None -> []

(** val default_converter : symbol -> char list **)

let default_converter s =
  append
    (join_nl
      (map (fun x -> append ('#'::(' '::[])) x)
        (splitlines_aux [] (opt_str s.sequation))))
    (append nl_s (opt_str s.scode))

(** val expressions :
    ('a1 -> symbol -> 'a1 * char list) -> 'a1 -> symbol list ->
    'a1 * char list list **)

let rec expressions conv st = function
| [] -> (st, [])
| s :: r ->
  if emits s
  then let (st1, e) = conv st s in
       let (st2, es) = expressions conv st1 r in (st2, (e :: es))
  else expressions conv st r

(** val equations_block : char list list -> char list **)

let equations_block exprs =
  let eqs = join_sep (append nl_s nl_s) (map (indent eq_prefix) exprs) in
  (match eqs with
   | [] ->
     ' '::(' '::(' '::(' '::(' '::(' '::(' '::(' '::('p'::('a'::('s'::('s'::[])))))))))))
   | _::_ -> eqs)

(** val class_fields : mclass -> char list -> (char list * char list) list **)

let class_fields c equations =
  (('e'::('n'::('d'::('o'::('g'::('e'::('n'::('o'::('u'::('s'::[])))))))))),
    (py_repr_names c.c_endogenous)) :: ((('e'::('x'::('o'::('g'::('e'::('n'::('o'::('u'::('s'::[]))))))))),
    (py_repr_names c.c_exogenous)) :: ((('p'::('a'::('r'::('a'::('m'::('e'::('t'::('e'::('r'::('s'::[])))))))))),
    (py_repr_names c.c_parameters)) :: ((('e'::('r'::('r'::('o'::('r'::('s'::[])))))),
    (py_repr_names c.c_errors)) :: ((('l'::('a'::('g'::('s'::[])))),
    (string_of_Z c.c_lags)) :: ((('l'::('e'::('a'::('d'::('s'::[]))))),
    (string_of_Z c.c_leads)) :: ((('e'::('q'::('u'::('a'::('t'::('i'::('o'::('n'::('s'::[]))))))))),
    equations) :: []))))))

(** val template_of_hints : bool -> char list **)

let template_of_hints = function
| true -> model_template_typed
| false -> model_template_untyped

(** val build_def :
    ('a1 -> symbol -> 'a1 * char list) -> 'a1 -> symbol list -> bopts -> bool
    -> 'a1 * char list pres **)

let build_def conv st syms o with_type_hints =
  match class_of syms o with
  | Ret c ->
    let (st', exprs) = expressions conv st syms in
    (st',
    (format_named (template_of_hints with_type_hints)
      (class_fields c (equations_block exprs))))
  | Raise e -> (st, (PErr e))

(** val stateless :
    (symbol -> char list) -> unit -> symbol -> unit * char list **)

let stateless f st s =
  (st, (f s))

(** val conv_default : unit -> symbol -> unit * char list **)

let conv_default =
  stateless default_converter

(** val conv_code : unit -> symbol -> unit * char list **)

let conv_code =
  stateless (fun s -> opt_str s.scode)

(** val conv_wrap : unit -> symbol -> unit * char list **)

let conv_wrap =
  stateless (fun s ->
    append ('i'::('f'::(' '::('T'::('r'::('u'::('e'::(':'::[]))))))))
      (append nl_s
        (indent (' '::(' '::(' '::(' '::[])))) (default_converter s))))

(** val conv_count : nat -> symbol -> nat * char list **)

let conv_count n0 s =
  ((S n0),
    (append ('#'::(' '::('c'::('a'::('l'::('l'::(' '::[])))))))
      (append (string_of_Z (Z.of_nat n0)) (append nl_s (opt_str s.scode)))))

(** val conv_broken : unit -> symbol -> unit * char list **)

let conv_broken =
  stateless (fun _ -> 'x'::(' '::('='::(' '::('('::[])))))

(** val conv_fields : unit -> symbol -> unit * char list **)

let conv_fields =
  stateless (fun s ->
    append (opt_str s.scode)
      (' '::(' '::('#'::(' '::('{'::('e'::('n'::('d'::('o'::('g'::('e'::('n'::('o'::('u'::('s'::('}'::(' '::('{'::('e'::('x'::('o'::('g'::('e'::('n'::('o'::('u'::('s'::('}'::(' '::('{'::('p'::('a'::('r'::('a'::('m'::('e'::('t'::('e'::('r'::('s'::('}'::(' '::('{'::('e'::('r'::('r'::('o'::('r'::('s'::('}'::(' '::('{'::('l'::('a'::('g'::('s'::('}'::(' '::('{'::('l'::('e'::('a'::('d'::('s'::('}'::(' '::('{'::('e'::('q'::('u'::('a'::('t'::('i'::('o'::('n'::('s'::('}'::(' '::('{'::('{'::('x'::('}'::('}'::[]))))))))))))))))))))))))))))))))))))))))))))))))))))))))))))))))))))))))))))))))))))

(** val conv_empty : unit -> symbol -> unit * char list **)

let conv_empty =
  stateless (fun _ -> [])

(** val unhex_digit : char -> nat option **)

let unhex_digit c =
  let n0 = nat_of_ascii c in
  if (&&)
       (Nat.leb (S (S (S (S (S (S (S (S (S (S (S (S (S (S (S (S (S (S (S (S
         (S (S (S (S (S (S (S (S (S (S (S (S (S (S (S (S (S (S (S (S (S (S (S
         (S (S (S (S (S O)))))))))))))))))))))))))))))))))))))))))))))))) n0)
       (Nat.leb n0 (S (S (S (S (S (S (S (S (S (S (S (S (S (S (S (S (S (S (S
         (S (S (S (S (S (S (S (S (S (S (S (S (S (S (S (S (S (S (S (S (S (S (S
         (S (S (S (S (S (S (S (S (S (S (S (S (S (S (S
         O))))))))))))))))))))))))))))))))))))))))))))))))))))))))))
  then Some
         (sub n0 (S (S (S (S (S (S (S (S (S (S (S (S (S (S (S (S (S (S (S (S
           (S (S (S (S (S (S (S (S (S (S (S (S (S (S (S (S (S (S (S (S (S (S
           (S (S (S (S (S (S
           O)))))))))))))))))))))))))))))))))))))))))))))))))
  else if (&&)
            (Nat.leb (S (S (S (S (S (S (S (S (S (S (S (S (S (S (S (S (S (S (S
              (S (S (S (S (S (S (S (S (S (S (S (S (S (S (S (S (S (S (S (S (S
              (S (S (S (S (S (S (S (S (S (S (S (S (S (S (S (S (S (S (S (S (S
              (S (S (S (S (S (S (S (S (S (S (S (S (S (S (S (S (S (S (S (S (S
              (S (S (S (S (S (S (S (S (S (S (S (S (S (S (S
              O)))))))))))))))))))))))))))))))))))))))))))))))))))))))))))))))))))))))))))))))))))))))))))))))))
              n0)
            (Nat.leb n0 (S (S (S (S (S (S (S (S (S (S (S (S (S (S (S (S (S (S
              (S (S (S (S (S (S (S (S (S (S (S (S (S (S (S (S (S (S (S (S (S
              (S (S (S (S (S (S (S (S (S (S (S (S (S (S (S (S (S (S (S (S (S
              (S (S (S (S (S (S (S (S (S (S (S (S (S (S (S (S (S (S (S (S (S
              (S (S (S (S (S (S (S (S (S (S (S (S (S (S (S (S (S (S (S (S (S
              O)))))))))))))))))))))))))))))))))))))))))))))))))))))))))))))))))))))))))))))))))))))))))))))))))))))))
       then Some
              (sub n0 (S (S (S (S (S (S (S (S (S (S (S (S (S (S (S (S (S (S
                (S (S (S (S (S (S (S (S (S (S (S (S (S (S (S (S (S (S (S (S
                (S (S (S (S (S (S (S (S (S (S (S (S (S (S (S (S (S (S (S (S
                (S (S (S (S (S (S (S (S (S (S (S (S (S (S (S (S (S (S (S (S
                (S (S (S (S (S (S (S (S (S
                O))))))))))))))))))))))))))))))))))))))))))))))))))))))))))))))))))))))))))))))))))))))))
       else None

(** val ocons :
    char -> (char list * char list) option -> (char list * char list) option **)

let ocons c = function
| Some p -> let (s, rest) = p in Some ((c::s), rest)
| None -> None

(** val read_body : char -> char list -> (char list * char list) option **)

let rec read_body q = function
| [] -> None
| c::r ->
  if (=) c q
  then Some ([], r)
  else if (=) c bs
       then (match r with
             | [] -> None
             | d::r2 ->
               if (||) ((||) ((=) d bs) ((=) d sq)) ((=) d dq)
               then ocons d (read_body q r2)
               else if (=) d 't'
                    then ocons tab (read_body q r2)
                    else if (=) d 'n'
                         then ocons nl (read_body q r2)
                         else if (=) d 'r'
                              then ocons cr (read_body q r2)
                              else if (=) d 'x'
                                   then (match r2 with
                                         | [] -> None
                                         | h1::s1 ->
                                           (match s1 with
                                            | [] -> None
                                            | h2::r3 ->
                                              (match unhex_digit h1 with
                                               | Some a ->
                                                 (match unhex_digit h2 with
                                                  | Some b ->
                                                    ocons
                                                      (ascii_of_nat
                                                        (add
                                                          (mul (S (S (S (S (S
                                                            (S (S (S (S (S (S
                                                            (S (S (S (S (S
                                                            O))))))))))))))))
                                                            a) b))
                                                      (read_body q r3)
                                                  | None -> None)
                                               | None -> None)))
                                   else None)
       else ocons c (read_body q r)

(** val read_str : char list -> (char list * char list) option **)

let read_str = function
| [] -> None
| q::r -> if (||) ((=) q sq) ((=) q dq) then read_body q r else None

(** val read_item : char list -> (char list option * char list) option **)

let read_item s =
  match prefix_rest ('N'::('o'::('n'::('e'::[])))) s with
  | Some r -> Some (None, r)
  | None ->
    (match read_str s with
     | Some p -> let (x, r) = p in Some ((Some x), r)
     | None -> None)

(** val read_items :
    nat -> char list -> (char list option list * char list) option **)

let rec read_items fuel s =
  match fuel with
  | O -> None
  | S f ->
    (match s with
     | [] -> None
     | c::r ->
       if (=) c ']'
       then Some ([], r)
       else (match read_item s with
             | Some p ->
               let (x, r1) = p in
               (match prefix_rest (','::(' '::[])) r1 with
                | Some r2 ->
                  (match read_items f r2 with
                   | Some p0 -> let (l, rest) = p0 in Some ((x :: l), rest)
                   | None -> None)
                | None ->
                  (match r1 with
                   | [] -> None
                   | c2::r3 ->
                     if (=) c2 ']' then Some ((x :: []), r3) else None))
             | None -> None))

(** val read_names :
    char list -> (char list option list * char list) option **)

let read_names s = match s with
| [] -> None
| c::r -> if (=) c '[' then read_items (length0 s) r else None

(** val tpl_split :
    char list -> char list -> char list option -> char list list * char list
    list **)

let rec tpl_split s cur = function
| Some acc ->
  (match s with
   | [] -> ([], ((rev_str acc []) :: []))
   | c::r ->
     if (=) c '}'
     then let (segs, names) = tpl_split r [] None in
          (segs, ((rev_str acc []) :: names))
     else tpl_split r cur (Some (c::acc)))
| None ->
  (match s with
   | [] -> (((rev_str cur []) :: []), [])
   | c::r ->
     if (=) c '{'
     then let (segs, names) = tpl_split r [] (Some []) in
          (((rev_str cur []) :: segs), names)
     else tpl_split r (c::cur) None)

(** val segments : bool -> char list list **)

let segments h =
  fst (tpl_split (template_of_hints h) [] None)

type ctuple = { t_endogenous : char list option list;
                t_exogenous : char list option list;
                t_parameters : char list option list;
                t_errors : char list option list; t_lags : z; t_leads : 
                z; t_block : char list }

(** val is_intc : char -> bool **)

let is_intc c =
  (||) (is_digit c) ((=) c '-')

(** val read_int : char list -> (z * char list) option **)

let read_int s =
  let (d, rest) = span_while is_intc s in
  (match NilZero.int_of_string d with
   | Some i -> Some ((Z.of_int i), rest)
   | None -> None)

(** val read_with : char list list -> char list -> ctuple option **)

let read_with segs text =
  let sg = fun i -> nth i segs [] in
  (match sg (S (S (S (S (S (S (S O))))))) with
   | [] ->
     (match prefix_rest (sg O) text with
      | Some r0 ->
        (match read_names r0 with
         | Some p ->
           let (en, r1) = p in
           (match prefix_rest (sg (S O)) r1 with
            | Some r2 ->
              (match read_names r2 with
               | Some p0 ->
                 let (ex, r3) = p0 in
                 (match prefix_rest (sg (S (S O))) r3 with
                  | Some r4 ->
                    (match read_names r4 with
                     | Some p1 ->
                       let (pa, r5) = p1 in
                       (match prefix_rest (sg (S (S (S O)))) r5 with
                        | Some r6 ->
                          (match read_names r6 with
                           | Some p2 ->
                             let (er, r7) = p2 in
                             (match prefix_rest (sg (S (S (S (S O))))) r7 with
                              | Some r8 ->
                                (match read_int r8 with
                                 | Some p3 ->
                                   let (lg, r9) = p3 in
                                   (match prefix_rest
                                            (sg (S (S (S (S (S O)))))) r9 with
                                    | Some r10 ->
                                      (match read_int r10 with
                                       | Some p4 ->
                                         let (ld, r11) = p4 in
                                         (match prefix_rest
                                                  (sg (S (S (S (S (S (S
                                                    O))))))) r11 with
                                          | Some block ->
                                            Some { t_endogenous = en;
                                              t_exogenous = ex;
                                              t_parameters = pa; t_errors =
                                              er; t_lags = lg; t_leads = ld;
                                              t_block = block }
                                          | None -> None)
                                       | None -> None)
                                    | None -> None)
                                 | None -> None)
                              | None -> None)
                           | None -> None)
                        | None -> None)
                     | None -> None)
                  | None -> None)
               | None -> None)
            | None -> None)
         | None -> None)
      | None -> None)
   | _::_ -> None)

(** val exec_M : char list -> ctuple option **)

let exec_M text =
  match read_with (segments true) text with
  | Some t -> Some t
  | None -> read_with (segments false) text
