(* driver.ml — runs the extracted class-building model (build_model.ml) for the correspondence checks of C03 / C15.
   One request per input line, one answer per output line.  Strings travel hex-encoded (Latin-1).
     C <src> <opts> <n>           class_of + default_range
                                  -> O:<endo>|<exo>|<params>|<errors>|<names>|<LAGS>|<LEADS>|<range>
                                     lists: comma-joined names (- = None, h<hex>); range = R:i,j,... or X:<class>
                                  |  EP:<class> (parsing raised) | EC:<class> (class_of raised) | U (unmodelled)
     Y <src>                      the symbols (name|TYPE|lags|leads) -> O:...;... | EP:<class> | U
     B <src> <opts> <0|1> <conv>  build_def, conv in default code wrap count count@<n0> empty broken fields
                                  -> O:<hex text>|<final converter state> | EP: | EC: | EF:<class> (fill failed) | U
     X <text-hex>                 exec_M (the class tuple a generated text denotes)
                                  -> O:<endo>|<exo>|<params>|<errors>|<LAGS>|<LEADS>|<block-hex> | N
     R <hex>                      py_repr_str -> <hex>
     I <prefix-hex> <text-hex>    textwrap.indent -> <hex>
     F <tpl-hex> k=<v-hex> ...    format_named -> O:<hex> | E:<class> | U
   <src>  = P<hex of script> (parse_model_nocheck) | S<symbols>  (name|TYPE|lags|leads|equation|code;... ; S- = [])
   <opts> = lags,leads,min_lags,min_leads each - (None) or a decimal integer;  <n> = span length. *)
open Build_model

let explode (s : string) : char list = List.init (String.length s) (String.get s)
let implode (l : char list) : string = let b = Buffer.create 64 in List.iter (Buffer.add_char b) l; Buffer.contents b
let hex_of_string (s : string) : string =
  let b = Buffer.create (2 * String.length s) in
  String.iter (fun c -> Buffer.add_string b (Printf.sprintf "%02x" (Char.code c))) s; Buffer.contents b
let hex (l : char list) : string = hex_of_string (implode l)
let hv c = match c with '0'..'9' -> Char.code c - 48 | 'a'..'f' -> Char.code c - 87 | 'A'..'F' -> Char.code c - 55 | _ -> failwith "hex"
let unhex (h : string) : char list =
  List.init (String.length h / 2) (fun i -> Char.chr (16 * hv h.[2*i] + hv h.[2*i+1]))

let rec int_of_nat = function O -> 0 | S n -> 1 + int_of_nat n
let rec nat_of_int n = if n <= 0 then O else S (nat_of_int (n - 1))
let z_of_string (s : string) : z = match py_int (explode s) with Some z -> z | None -> failwith "int"
let z_s (z : z) : string = implode (string_of_Z z)

let exn_name = function
  | ValueError -> "ValueError" | IndexError -> "IndexError" | KeyError -> "KeyError" | AttributeError -> "AttributeError"
  | TypeError -> "TypeError" | SolutionError _ -> "SolutionError" | NonConvergenceError -> "NonConvergenceError"
  | ParserError -> "ParserError" | SymbolError -> "SymbolError" | IndentationError -> "IndentationError"
  | DimensionError -> "DimensionError" | DuplicateNameError -> "DuplicateNameError"
  | InitialisationError -> "InitialisationError" | NotImplementedError -> "NotImplementedError"
  | UnboundLocalError -> "UnboundLocalError" | FortranEngineError -> "FortranEngineError"
  | OverflowError -> "OverflowError" | OtherError -> "OtherError"

let opt_s = function None -> "-" | Some s -> "h" ^ hex s
let idx_s = function None -> "-" | Some (IInt z) -> "i" ^ z_s z | Some (IStr s) -> "s" ^ hex s
let type_of_name (n : string) : ptype =
  match n with
  | "VARIABLE" -> TVariable | "EXOGENOUS" -> TExogenous | "ENDOGENOUS" -> TEndogenous | "PARAMETER" -> TParameter
  | "ERROR" -> TError | "FUNCTION" -> TFunction | "KEYWORD" -> TKeyword | "VERBATIM" -> TVerbatim | "INVALID" -> TInvalid
  | _ -> failwith "type"
let dec_opt (s : string) : char list option =
  if s = "-" then None else if String.length s > 0 && s.[0] = 'h' then Some (unhex (String.sub s 1 (String.length s - 1))) else failwith "opt"
let dec_idx (s : string) : pidx option =
  if s = "-" then None
  else match s.[0] with
    | 'i' -> Some (IInt (z_of_string (String.sub s 1 (String.length s - 1))))
    | 's' -> Some (IStr (unhex (String.sub s 1 (String.length s - 1))))
    | _ -> failwith "idx"
let dec_symbol (s : string) : symbol =
  match String.split_on_char '|' s with
  | [n; t; lg; ld; e; c] -> { sname = dec_opt n; stype = type_of_name t; slags = dec_idx lg; sleads = dec_idx ld;
                              sequation = dec_opt e; scode = dec_opt c }
  | _ -> failwith "symbol"

let source (src : string) : symbol list pres =
  let body = String.sub src 1 (String.length src - 1) in
  match src.[0] with
  | 'P' -> parse_model_nocheck (unhex body)
  | 'S' -> if body = "-" || body = "" then POk [] else POk (List.map dec_symbol (String.split_on_char ';' body))
  | _ -> failwith "src"

let dec_zopt (s : string) : z option = if s = "-" then None else Some (z_of_string s)
let opts_of (s : string) : bopts =
  match String.split_on_char ',' s with
  | [a; b; c; d] -> { o_lags = dec_zopt a; o_leads = dec_zopt b; o_min_lags = dec_zopt c; o_min_leads = dec_zopt d }
  | _ -> failwith "opts"

let names_s (l : char list option list) : string = String.concat "," (List.map opt_s l)

let answer (line : string) : unit =
  match String.split_on_char ' ' line with
  | ["C"; src; o; n] ->
    print_endline
      (match source src with
       | PErr e -> "EP:" ^ exn_name e
       | PUnmodelled -> "U"
       | POk syms ->
         match class_of syms (opts_of o) with
         | Raise e -> "EC:" ^ exn_name e
         | Ret c ->
           let range = match default_range (nat_of_int (int_of_string n)) c.c_lags c.c_leads with
             | Ret l -> "R:" ^ String.concat "," (List.map z_s l)
             | Raise e -> "X:" ^ exn_name e in
           "O:" ^ String.concat "|" [names_s c.c_endogenous; names_s c.c_exogenous; names_s c.c_parameters; names_s c.c_errors;
                                      names_s (c_names c); z_s c.c_lags; z_s c.c_leads; range])
  | ["Y"; src] ->
    print_endline
      (match source src with
       | PErr e -> "EP:" ^ exn_name e
       | PUnmodelled -> "U"
       | POk syms -> "O:" ^ String.concat ";" (List.map (fun s -> String.concat "|" [opt_s s.sname; implode (type_name s.stype); idx_s s.slags; idx_s s.sleads]) syms))
  | ["B"; src; o; h; conv] ->
    print_endline
      (match source src with
       | PErr e -> "EP:" ^ exn_name e
       | PUnmodelled -> "U"
       | POk syms ->
         let hints = (h = "1") in
         let opts = opts_of o in
         (* a class_of failure is reported as EC, a failing template fill as EF *)
         (match class_of syms opts with
          | Raise e -> "EC:" ^ exn_name e
          | Ret _ ->
            let fin (st, r) = match r with
              | POk t -> "O:" ^ hex t ^ "|" ^ string_of_int st
              | PErr e -> "EF:" ^ exn_name e
              | PUnmodelled -> "U" in
            let unit_conv c = let (_, r) = build_def c () syms opts hints in fin (0, r) in
            match conv with
            | "default" -> unit_conv conv_default
            | "code" -> unit_conv conv_code
            | "wrap" -> unit_conv conv_wrap
            | "empty" -> unit_conv conv_empty
            | "broken" -> unit_conv conv_broken
            | "fields" -> unit_conv conv_fields
            | "count" -> let (st, r) = build_def conv_count O syms opts hints in fin (int_of_nat st, r)
            | c when String.length c > 6 && String.sub c 0 6 = "count@" ->
              (* the counting converter continued from an earlier build: initial state after @ *)
              let n0 = int_of_string (String.sub c 6 (String.length c - 6)) in
              let (st, r) = build_def conv_count (nat_of_int n0) syms opts hints in fin (int_of_nat st, r)
            | _ -> failwith "conv"))
  | ["X"; h] ->
    print_endline (match exec_M (unhex h) with
                   | None -> "N"
                   | Some t -> "O:" ^ String.concat "|" [names_s t.t_endogenous; names_s t.t_exogenous; names_s t.t_parameters;
                                                          names_s t.t_errors; z_s t.t_lags; z_s t.t_leads; hex t.t_block])
  | ["R"; h] -> print_endline (hex (py_repr_str (unhex h)))
  | ["I"; p; t] -> print_endline (hex (indent (unhex p) (unhex t)))
  | "F" :: t :: kvs ->
    let env = List.map (fun kv -> match String.split_on_char '=' kv with
                                  | [k; v] -> (explode k, unhex v) | _ -> failwith "kv") kvs in
    print_endline (match format_named (unhex t) env with
                   | POk s -> "O:" ^ hex s | PErr e -> "E:" ^ exn_name e | PUnmodelled -> "U")
  | _ -> print_endline "?"

let () =
  try
    while true do
      let line = input_line stdin in
      (try answer line with
       | Stack_overflow -> print_endline "!stack"
       | Failure m -> print_endline ("!" ^ m)
       | Invalid_argument m -> print_endline ("!" ^ m));
      flush stdout
    done
  with End_of_file -> ()
