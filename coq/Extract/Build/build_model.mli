
val negb : bool -> bool

type nat =
| O
| S of nat

val option_map : ('a1 -> 'a2) -> 'a1 option -> 'a2 option

val fst : ('a1 * 'a2) -> 'a1

val snd : ('a1 * 'a2) -> 'a2

val length : 'a1 list -> nat

val app : 'a1 list -> 'a1 list -> 'a1 list

type comparison =
| Eq
| Lt
| Gt

val compOpp : comparison -> comparison

type uint =
| Nil
| D0 of uint
| D1 of uint
| D2 of uint
| D3 of uint
| D4 of uint
| D5 of uint
| D6 of uint
| D7 of uint
| D8 of uint
| D9 of uint

type signed_int =
| Pos of uint
| Neg of uint

val revapp : uint -> uint -> uint

val rev : uint -> uint

module Little :
 sig
  val double : uint -> uint

  val succ_double : uint -> uint
 end

val add : nat -> nat -> nat

val mul : nat -> nat -> nat

val sub : nat -> nat -> nat

type positive =
| XI of positive
| XO of positive
| XH

type n =
| N0
| Npos of positive

type z =
| Z0
| Zpos of positive
| Zneg of positive

module Nat :
 sig
  val sub : nat -> nat -> nat

  val eqb : nat -> nat -> bool

  val leb : nat -> nat -> bool

  val ltb : nat -> nat -> bool

  val min : nat -> nat -> nat

  val divmod : nat -> nat -> nat -> nat -> nat * nat

  val div : nat -> nat -> nat

  val modulo : nat -> nat -> nat
 end

module Pos :
 sig
  type mask =
  | IsNul
  | IsPos of positive
  | IsNeg
 end

module Coq_Pos :
 sig
  val succ : positive -> positive

  val add : positive -> positive -> positive

  val add_carry : positive -> positive -> positive

  val pred_double : positive -> positive

  type mask = Pos.mask =
  | IsNul
  | IsPos of positive
  | IsNeg

  val succ_double_mask : mask -> mask

  val double_mask : mask -> mask

  val double_pred_mask : positive -> mask

  val sub_mask : positive -> positive -> mask

  val sub_mask_carry : positive -> positive -> mask

  val mul : positive -> positive -> positive

  val compare_cont : comparison -> positive -> positive -> comparison

  val compare : positive -> positive -> comparison

  val eqb : positive -> positive -> bool

  val iter_op : ('a1 -> 'a1 -> 'a1) -> positive -> 'a1 -> 'a1

  val to_nat : positive -> nat

  val of_succ_nat : nat -> positive

  val of_uint_acc : uint -> positive -> positive

  val of_uint : uint -> n

  val to_little_uint : positive -> uint

  val to_uint : positive -> uint
 end

module N :
 sig
  val add : n -> n -> n

  val sub : n -> n -> n

  val mul : n -> n -> n

  val compare : n -> n -> comparison

  val ltb : n -> n -> bool

  val to_nat : n -> nat

  val of_nat : nat -> n
 end

val zero : char

val one : char

val shift : bool -> char -> char

val ascii_of_pos : positive -> char

val ascii_of_N : n -> char

val ascii_of_nat : nat -> char

val n_of_digits : bool list -> n

val n_of_ascii : char -> n

val nat_of_ascii : char -> nat

val nth : nat -> 'a1 list -> 'a1 -> 'a1

val nth_error : 'a1 list -> nat -> 'a1 option

val rev0 : 'a1 list -> 'a1 list

val concat : 'a1 list list -> 'a1 list

val map : ('a1 -> 'a2) -> 'a1 list -> 'a2 list

val fold_left : ('a1 -> 'a2 -> 'a1) -> 'a2 list -> 'a1 -> 'a1

val existsb : ('a1 -> bool) -> 'a1 list -> bool

val filter : ('a1 -> bool) -> 'a1 list -> 'a1 list

val seq : nat -> nat -> nat list

module Z :
 sig
  val double : z -> z

  val succ_double : z -> z

  val pred_double : z -> z

  val pos_sub : positive -> positive -> z

  val add : z -> z -> z

  val opp : z -> z

  val sub : z -> z -> z

  val mul : z -> z -> z

  val compare : z -> z -> comparison

  val leb : z -> z -> bool

  val ltb : z -> z -> bool

  val eqb : z -> z -> bool

  val max : z -> z -> z

  val min : z -> z -> z

  val abs : z -> z

  val to_nat : z -> nat

  val of_nat : nat -> z

  val of_N : n -> z

  val of_uint : uint -> z

  val of_int : signed_int -> z

  val to_int : z -> signed_int
 end

val eqb0 : char list -> char list -> bool

val append : char list -> char list -> char list

val length0 : char list -> nat

val concat0 : char list -> char list list -> char list

val list_ascii_of_string : char list -> char list

type exn =
| ValueError
| IndexError
| KeyError
| AttributeError
| TypeError
| SolutionError of z option
| NonConvergenceError
| ParserError
| SymbolError
| IndentationError
| DimensionError
| DuplicateNameError
| InitialisationError
| NotImplementedError
| UnboundLocalError
| FortranEngineError
| OverflowError
| OtherError

type 'a outcome =
| Ret of 'a
| Raise of exn

val clip : z -> z -> z

val uint_of_char : char -> uint option -> uint option

module NilEmpty :
 sig
  val string_of_uint : uint -> char list

  val uint_of_string : char list -> uint option
 end

module NilZero :
 sig
  val string_of_uint : uint -> char list

  val uint_of_string : char list -> uint option

  val string_of_int : signed_int -> char list

  val int_of_string : char list -> signed_int option
 end

val type_order : (char list * z) list

val replacement_function_names : (char list * char list) list

val kwlist : char list list

val re_space_codes : nat list

val re_word_codes : nat list

val splitlines_codes : nat list

val str_strip_codes : nat list

val model_template_typed : char list

val model_template_untyped : char list

val chars_of_codes : nat list -> char list

val mem_ascii : char -> char list -> bool

val re_space_chars : char list

val re_word_chars : char list

val str_strip_chars : char list

val splitlines_chars : char list

val alpha_chars : char list

val digit_chars : char list

val is_space : char -> bool

val is_word : char -> bool

val is_pyspace : char -> bool

val is_linesep : char -> bool

val is_alpha_ : char -> bool

val is_digit : char -> bool

val is_idc : char -> bool

val is_fnc : char -> bool

val nl : char

val cr : char

val nl_s : char list

val span_while : (char -> bool) -> char list -> char list * char list

val skip_ws : char list -> char list

val prefix_rest : char list -> char list -> char list option

val startswith : char list -> char list -> bool

val find_on_line : char -> char list -> (char list * char list) option

val find_any : char -> char list -> (char list * char list) option

val has_char : char -> char list -> bool

val has_nl : char list -> bool

val count_char : char -> char list -> nat

val rev_str : char list -> char list -> char list

val lstrip_by : (char -> bool) -> char list -> char list

val rstrip_by : (char -> bool) -> char list -> char list

val strip_by : (char -> bool) -> char list -> char list

val re_strip : char list -> char list

val py_strip : char list -> char list

val py_rstrip : char list -> char list

val is_blank : char list -> bool

val head_is : char -> char list -> bool

val last_is : char -> char list -> bool

val join_nl : char list list -> char list

val splitlines_aux : char list -> char list -> char list list

type ptype =
| TVariable
| TExogenous
| TEndogenous
| TParameter
| TError
| TFunction
| TKeyword
| TVerbatim
| TInvalid

val type_name : ptype -> char list

val type_eqb : ptype -> ptype -> bool

val assoc_z : char list -> (char list * z) list -> z

val type_value : ptype -> z

val type_max : ptype -> ptype -> ptype

val is_variable_type : ptype -> bool

type pidx =
| IInt of z
| IStr of char list

type term = { tname : char list; ttype : ptype; tindex : pidx option }

type symbol = { sname : char list option; stype : ptype; slags : pidx option;
                sleads : pidx option; sequation : char list option;
                scode : char list option }

val resolve_strings :
  char list option -> char list option -> char list option outcome

val resolve_by_type_pair :
  (z -> z -> z) -> pidx option -> pidx option -> pidx option outcome

val obind : 'a1 outcome -> ('a1 -> 'a2 outcome) -> 'a2 outcome

val combine : symbol -> symbol -> symbol outcome

val dict_get : char list -> (char list * 'a1) list -> 'a1 option

val dict_set :
  char list -> 'a1 -> (char list * 'a1) list -> (char list * 'a1) list

val dict_values : (char list * 'a1) list -> 'a1 list

type 'a pres =
| POk of 'a
| PErr of exn
| PUnmodelled

val of_outcome : 'a1 outcome -> 'a1 pres

type kind =
| KVerbatim
| KInvalid
| KKeyword
| KFunction
| KParameter
| KError
| KVariable

type tmatch = { mkind : kind; mname : char list; mindex : char list option;
                mlen : nat }

val kW : char list list

val index_group : char list -> (char list * nat) option

val with_index : kind -> char list -> nat -> char list -> tmatch

val try_invalid : char list list -> char list -> tmatch option

val try_keyword : char list list -> char list -> tmatch option

val try_verbatim : char list -> tmatch option

val try_function : char list -> tmatch option

val try_bracketed : char -> char -> kind -> char list -> tmatch option

val try_variable : char list -> tmatch option

val or_else : 'a1 option -> (unit -> 'a1 option) -> 'a1 option

val match_here : bool -> char list -> tmatch option

type item =
| Chr of char
| Tok of nat * tmatch

val scan : nat -> nat -> bool -> char list -> item list

val scan_items : char list -> item list

val matches_of : item list -> tmatch list

type fmt_res =
| FOk of char list
| FFail
| FUnmodelled

type ftok =
| FLit of char
| FAuto
| FManual of n
| FAutoX
| FManualX of n
| FBad
| FUnk

val is_field_delim : char -> bool

val all_digits : char list -> bool

val digit_val : char -> n

val digits_to_N : n -> char list -> n

val classify_field : char list -> ftok

val classify_nested : char list -> ftok

type fmode =
| MText
| MAfterL
| MAfterR
| MField of char list

val ftokens : fmode -> char list -> ftok list

type numbering =
| NNone
| NAuto
| NManual

val ffill : char list list -> nat -> numbering -> ftok list -> fmt_res

val py_format : char list -> char list list -> fmt_res

val strip_comments : char list -> char list

val count_parens : nat -> char list -> nat option

val at_eol : char list -> bool

val has_fence_close : char list -> bool

val has_close_paren_eol : char list -> bool

val alt_fence : char list -> bool

val alt_lhs_bracket : char list -> bool

val alt_single : char list -> bool

val alt_here : char list -> bool

val stmt_ok_from : bool -> char list -> bool

val stmt_ok : char list -> bool

type sstate = { unmatched : nat; complete : bool; buffer : char list list }

val s0 : sstate

type step =
| StCont of sstate
| StYield of char list * sstate
| StRaise of exn

val split_step : sstate -> char list -> step

val split_lines : sstate -> char list list -> char list list * exn option

val model_lines : char list -> char list list

val split_M : char list -> char list list * exn option

val dict_combine :
  char list -> symbol -> (char list * symbol) list -> (char list * symbol)
  list outcome

val equation_symbols_go :
  char list -> char list -> term list -> (char list * symbol) list ->
  char list list -> (char list * symbol) list outcome

val equation_symbols :
  char list -> char list -> term list -> symbol list outcome

val merge_go :
  symbol list -> (char list * symbol) list -> symbol list -> symbol list
  outcome

val merge_symbols : symbol list list -> symbol list outcome

val digit_z : char -> z

val parse_digits : z -> bool -> char list -> z option

val int_max_str_digits : nat

val count_digits : char list -> nat

val py_int : char list -> z option

val string_of_Z : z -> char list

val kind_type : kind -> ptype

val drop_last : char list -> char list

val quoted_by : char -> char list -> bool

val mk_index : char list option -> pidx outcome

val mk_term : tmatch -> term outcome

val map_o : ('a1 -> 'a2 outcome) -> 'a1 list -> 'a2 list outcome

val parse_terms : char list -> term list outcome

val term_str : term -> char list option

val assoc_s : char list -> (char list * char list) list -> char list option

val term_code : term -> char list option

val all_some : 'a1 option list -> 'a1 list option

val replace_type : ptype -> term -> term

val has_type : ptype -> term list -> bool

val parse_equation_terms : char list -> term list outcome

val template_of : item list -> char list

val sub_ws : bool -> char list -> char list

val sub_open : bool -> char list -> char list

val sub_close : char list -> char list

val normalise_template : char list -> char list

val template : char list -> char list

val strip_chars : char list -> char list -> char list

val parse_equation_M : char list -> symbol list pres

type chk_res =
| ChkOk
| ChkSyntaxError
| ChkSyntaxWarning
| ChkOtherWarning of nat
| ChkOtherExn
| ChkCaughtExn

type verdict =
| VFine
| VProblem
| VRaise of exn

val check_codes : (char list -> chk_res) -> char list list -> verdict

val codes_of : symbol list -> char list list

val parse_statements :
  (char list -> chk_res) -> bool -> char list list -> symbol list list ->
  bool -> (symbol list list * bool) pres

val parse_model_M :
  (char list -> chk_res) -> bool -> char list -> symbol list pres

val chk_none : char list -> chk_res

val parse_model_nocheck : char list -> symbol list pres

val emits : symbol -> bool

val has_stype : ptype -> symbol -> bool

val names_of : ptype -> symbol list -> char list option list

val indexed_symbol : symbol -> bool

val ints_of : pidx option list -> z list option

val extreme : (z -> z -> z) -> pidx option list -> z outcome

val resolve_length :
  (z -> z -> z) -> z option -> z option -> pidx option list -> z outcome

type bopts = { o_lags : z option; o_leads : z option; o_min_lags : z option;
               o_min_leads : z option }

val default_opts : bopts

type mclass = { c_endogenous : char list option list;
                c_exogenous : char list option list;
                c_parameters : char list option list;
                c_errors : char list option list; c_lags : z; c_leads : 
                z }

val c_names : mclass -> char list option list

val class_of : symbol list -> bopts -> mclass outcome

val default_range : nat -> z -> z -> z list outcome

val is_printable : char -> bool

val hex_digit : nat -> char

val bs : char

val sq : char

val dq : char

val tab : char

val repr_char : char -> char -> char list

val repr_body : char -> char list -> char list

val py_repr_str : char list -> char list

val py_repr_name : char list option -> char list

val join_sep : char list -> char list list -> char list

val py_repr_names : char list option list -> char list

val assoc_str : char list -> (char list * char list) list -> char list option

val all_digits0 : char list -> bool

val papp : char list -> char list pres -> char list pres

val format_named_go :
  (char list * char list) list -> char list -> char list option -> char list
  pres

val format_named : char list -> (char list * char list) list -> char list pres

val lines_keepends : char list -> char list -> char list list

val indent_line : char list -> char list -> char list

val indent : char list -> char list -> char list

val eq_prefix : char list

val opt_str : char list option -> char list

val default_converter : symbol -> char list

val expressions :
  ('a1 -> symbol -> 'a1 * char list) -> 'a1 -> symbol list -> 'a1 * char list
  list

val equations_block : char list list -> char list

val class_fields : mclass -> char list -> (char list * char list) list

val template_of_hints : bool -> char list

val build_def :
  ('a1 -> symbol -> 'a1 * char list) -> 'a1 -> symbol list -> bopts -> bool
  -> 'a1 * char list pres

val stateless : (symbol -> char list) -> unit -> symbol -> unit * char list

val conv_default : unit -> symbol -> unit * char list

val conv_code : unit -> symbol -> unit * char list

val conv_wrap : unit -> symbol -> unit * char list

val conv_count : nat -> symbol -> nat * char list

val conv_broken : unit -> symbol -> unit * char list

val conv_fields : unit -> symbol -> unit * char list

val conv_empty : unit -> symbol -> unit * char list

val unhex_digit : char -> nat option

val ocons :
  char -> (char list * char list) option -> (char list * char list) option

val read_body : char -> char list -> (char list * char list) option

val read_str : char list -> (char list * char list) option

val read_item : char list -> (char list option * char list) option

val read_items :
  nat -> char list -> (char list option list * char list) option

val read_names : char list -> (char list option list * char list) option

val tpl_split :
  char list -> char list -> char list option -> char list list * char list
  list

val segments : bool -> char list list

type ctuple = { t_endogenous : char list option list;
                t_exogenous : char list option list;
                t_parameters : char list option list;
                t_errors : char list option list; t_lags : z; t_leads : 
                z; t_block : char list }

val is_intc : char -> bool

val read_int : char list -> (z * char list) option

val read_with : char list list -> char list -> ctuple option

val exec_M : char list -> ctuple option
