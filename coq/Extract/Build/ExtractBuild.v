(* Extraction of the class-building model (properties C03, C15) to OCaml for the correspondence checks.
   Only ExtrOcamlBasic and ExtrOcamlString; no Extract Constant of ours; Z / N / nat stay the extracted
   inductives.  Compiled from the root of the development, so the products land next to this file. *)
Require Import ExtrOcamlBasic ExtrOcamlString.
Require Import Fsic.Base.PyBase Fsic.Parser.PyStr Fsic.Parser.Symbols Fsic.Parser.ParseEq Fsic.Parser.ParseModel
               Fsic.Build.Classify Fsic.Build.BuildDef Fsic.Build.BuildRoutes.
Extraction Language OCaml.
Extraction "Extract/Build/build_model.ml"
  parse_model_nocheck class_of c_names default_range default_opts
  build_def conv_default conv_code conv_wrap conv_count conv_empty conv_broken conv_fields
  py_repr_str py_repr_names format_named indent default_converter
  type_name string_of_Z py_int exec_M.
