(* Extraction of the dependency-graph model (Graph.symbols_to_graph_M), of the well-formedness test and the text of
   normalised equations given as token lists (GNorm.neq_wf / neq_text), and of the parser entry points the layout
   property C14 compares (parse_model_nocheck, parse_equation_M) to OCaml, for the correspondence checks of C20 / C14.
   Only ExtrOcamlBasic and ExtrOcamlString; Z / nat stay the extracted inductives.  Compiled from the root of the
   development; the products land next to this file. *)
Require Import ExtrOcamlBasic ExtrOcamlString.
Require Import Fsic.Base.PyBase Fsic.Parser.PyStr Fsic.Parser.Lex Fsic.Parser.Symbols Fsic.Parser.ParseEq
               Fsic.Parser.ParseModel Fsic.Graph.GLex Fsic.Graph.GNorm Fsic.Graph.Graph Fsic.Graph.GTokenise Fsic.Graph.GraphSrcWf Fsic.Layout.Denorm.
Extraction Language OCaml.
Extraction "Extract/Graph/graph_model.ml"
  symbols_to_graph_M nx_edges neq_wf neq_text varlike_id finditer_group0 string_of_Z type_name parse_model_nocheck parse_equation_M dq_ok_canon denorm_canon neq_code tokenise sep_ok canon.
