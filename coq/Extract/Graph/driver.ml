(* driver.ml — runs the extracted graph model (graph_model.ml) for the correspondence checks of C20 / C14.
   One request per input line, one answer per output line.  Strings travel hex-encoded (Latin-1).
     G <symbols>                  symbols_to_graph_M on a symbol list given in the canonical encoding of
                                  harness/parser_common.py (name|TYPE|lags|leads|equation|code;...)
                                  -> O:<id-hex>=<attr>,...|<x-hex>><n-hex>,...|<number of edges>  | E:<class>
                                  (attr: - = no attribute, h<hex>; edges in the order of Graph.nx_edges)
     W <eq-hex> <lhs> / <rhs>     a normalised equation proposed as token lists (comma separated, "." = empty list):
                                  T<name-hex>:i<int> | T<name-hex>:s<hex> | F<hex> | K<hex> | V<hex> | C<hh>
                                  -> 1 (neq_wf and neq_text = the equation) | 0w (not well-formed) | 0t (other text)
     D <eq-hex> <code-hex> <lhs> / <rhs>   the same proposal against the conditions of the fixed-point theorem of C14
                                  -> 1:<denorm_text-hex> (Denorm.dq_ok, neq_text = equation, neq_code = code) | 0d | 0t | 0c
     Z <eq-hex>                   GTokenise.tokenise (the model's own reader of normalised equations) accepts the text  -> 1 | 0
     DZ <eq-hex> <code-hex>       the same with the token list read by GTokenise.tokenise -> 1:<denorm_text-hex> (Denorm.dq_ok canon and GraphSrcWf.sep_ok canon hold, neq_code = code) | 0w | 0d | 0c
     P <hex>                      parse_model(check_syntax=False)      -> O:<symbols> | E:<class> | U
     Q <hex>                      parse_equation                        -> as P
     T <hex>                      m.group(0) of term_re.finditer        -> <hex>,<hex>,... *)
open Graph_model

let explode (s : string) : char list = List.init (String.length s) (String.get s)
let implode (l : char list) : string = let b = Buffer.create 64 in List.iter (Buffer.add_char b) l; Buffer.contents b
let hex_of_string (s : string) : string =
  let b = Buffer.create (2 * String.length s) in
  String.iter (fun c -> Buffer.add_string b (Printf.sprintf "%02x" (Char.code c))) s; Buffer.contents b
let hex (l : char list) : string = hex_of_string (implode l)
let hv c = match c with '0'..'9' -> Char.code c - 48 | 'a'..'f' -> Char.code c - 87 | 'A'..'F' -> Char.code c - 55 | _ -> failwith "hex"
let unhex (h : string) : char list =
  List.init (String.length h / 2) (fun i -> Char.chr (16 * hv h.[2*i] + hv h.[2*i+1]))

let rec pos_of_int (n : int) : positive =
  if n = 1 then XH else if n land 1 = 1 then XI (pos_of_int (n lsr 1)) else XO (pos_of_int (n lsr 1))
let z_of_int (n : int) : z = if n = 0 then Z0 else if n > 0 then Zpos (pos_of_int n) else Zneg (pos_of_int (- n))

let exn_name = function
  | ValueError -> "ValueError" | IndexError -> "IndexError" | KeyError -> "KeyError" | AttributeError -> "AttributeError"
  | TypeError -> "TypeError" | SolutionError _ -> "SolutionError" | NonConvergenceError -> "NonConvergenceError"
  | ParserError -> "ParserError" | SymbolError -> "SymbolError" | IndentationError -> "IndentationError"
  | DimensionError -> "DimensionError" | DuplicateNameError -> "DuplicateNameError"
  | InitialisationError -> "InitialisationError" | NotImplementedError -> "NotImplementedError"
  | UnboundLocalError -> "UnboundLocalError" | FortranEngineError -> "FortranEngineError"
  | OverflowError -> "OverflowError" | OtherError -> "OtherError"

let sub_from (s : string) (i : int) : string = String.sub s i (String.length s - i)
let opt_of (x : string) : char list option = if x = "-" then None else Some (unhex (sub_from x 1))
let idx_of (x : string) : pidx option =
  if x = "-" then None
  else if x.[0] = 'i' then Some (IInt (z_of_int (int_of_string (sub_from x 1))))
  else Some (IStr (unhex (sub_from x 1)))
let type_of (x : string) : ptype =
  match x with
  | "VARIABLE" -> TVariable | "EXOGENOUS" -> TExogenous | "ENDOGENOUS" -> TEndogenous | "PARAMETER" -> TParameter
  | "ERROR" -> TError | "FUNCTION" -> TFunction | "KEYWORD" -> TKeyword | "VERBATIM" -> TVerbatim | "INVALID" -> TInvalid
  | _ -> failwith "type"
let symbol_of (x : string) : symbol =
  match String.split_on_char '|' x with
  | [n; t; lg; ld; e; c] -> { sname = opt_of n; stype = type_of t; slags = idx_of lg; sleads = idx_of ld; sequation = opt_of e; scode = opt_of c }
  | _ -> failwith "symbol"
let symbols_of (x : string) : symbol list =
  if x = "" then [] else List.map symbol_of (String.split_on_char ';' x)

let opt_s = function None -> "-" | Some s -> "h" ^ hex s
let idx_s = function None -> "-" | Some (IInt z) -> "i" ^ implode (string_of_Z z) | Some (IStr s) -> "s" ^ hex s
let sym_s (s : symbol) : string =
  String.concat "|" [opt_s s.sname; implode (type_name s.stype); idx_s s.slags; idx_s s.sleads; opt_s s.sequation; opt_s s.scode]
let res_s (r : symbol list pres) : string =
  match r with
  | POk l -> "O:" ^ String.concat ";" (List.map sym_s l)
  | PErr e -> "E:" ^ exn_name e
  | PUnmodelled -> "U"

let graph_s (g : graph) : string =
  "O:" ^ String.concat "," (List.map (fun (n, a) -> hex n ^ "=" ^ opt_s a) g.gnodes)
  ^ "|" ^ String.concat "," (List.map (fun (x, n) -> hex x ^ ">" ^ hex n) (nx_edges g))
  ^ "|" ^ string_of_int (List.length g.gedges)

let tok_of (x : string) : ntok =
  let body = sub_from x 1 in
  match x.[0] with
  | 'T' -> (match String.split_on_char ':' body with
            | [n; i] -> (match idx_of i with Some p -> NTerm (unhex n, p) | None -> failwith "tok index")
            | _ -> failwith "tok")
  | 'F' -> NFunc (unhex body)
  | 'K' -> NKw (unhex body)
  | 'V' -> NVerb (unhex body)
  | 'C' -> (match unhex body with [c] -> NChr c | _ -> failwith "tok chr")
  | _ -> failwith "tok kind"
let toks_of (x : string) : ntok list = if x = "." then [] else List.map tok_of (String.split_on_char ',' x)

let answer (line : string) : unit =
  match String.split_on_char ' ' line with
  | ["G"] -> print_endline (match symbols_to_graph_M [] with Ret g -> graph_s g | Raise e -> "E:" ^ exn_name e)
  | ["G"; syms] ->
    print_endline (match symbols_to_graph_M (symbols_of syms) with Ret g -> graph_s g | Raise e -> "E:" ^ exn_name e)
  | ["W"; e; l; "/"; r] ->
    let q = { nlhs = toks_of l; nrhs = toks_of r } in
    print_endline (if not (neq_wf q) then "0w" else if neq_text q = unhex e then "1" else "0t")
  | ["D"; e; c; l; "/"; r] ->
    let q = { nlhs = toks_of l; nrhs = toks_of r } in
    print_endline (if not (dq_ok_canon q) then "0d" else if neq_text q <> unhex e then "0t" else if neq_code q <> unhex c then "0c"
                   else "1:" ^ hex (denorm_canon q))
  | ["Z"; e] -> print_endline (match tokenise (unhex e) with Some _ -> "1" | None -> "0")
  | ["DZ"; e; c] ->
    print_endline (match tokenise (unhex e) with
                   | None -> "0w"
                   | Some q -> if not (dq_ok_canon q && sep_ok canon q.nrhs) then "0d" else if neq_code q <> unhex c then "0c" else "1:" ^ hex (denorm_canon q))
  | ["P"; h] -> print_endline (res_s (parse_model_nocheck (unhex h)))
  | ["P"] -> print_endline (res_s (parse_model_nocheck []))
  | ["Q"; h] -> print_endline (res_s (parse_equation_M (unhex h)))
  | ["Q"] -> print_endline (res_s (parse_equation_M []))
  | ["T"; h] -> print_endline (String.concat "," (List.map hex (finditer_group0 (unhex h))))
  | ["T"] -> print_endline ""
  | _ -> print_endline "?"

let () =
  try
    while true do
      let line = input_line stdin in
      (try answer line with
       | Stack_overflow -> print_endline "!stack"
       | Failure m -> print_endline ("!" ^ m)
       | Invalid_argument m -> print_endline ("!" ^ m));
      flush stdout
    done
  with End_of_file -> ()
