
val negb : bool -> bool

type nat =
| O
| S of nat

val fst : ('a1 * 'a2) -> 'a1

val snd : ('a1 * 'a2) -> 'a2

val length : 'a1 list -> nat

val app : 'a1 list -> 'a1 list -> 'a1 list

type comparison =
| Eq
| Lt
| Gt

val compOpp : comparison -> comparison

type uint =
| Nil
| D0 of uint
| D1 of uint
| D2 of uint
| D3 of uint
| D4 of uint
| D5 of uint
| D6 of uint
| D7 of uint
| D8 of uint
| D9 of uint

type signed_int =
| Pos of uint
| Neg of uint

val revapp : uint -> uint -> uint

val rev : uint -> uint

module Little :
 sig
  val double : uint -> uint

  val succ_double : uint -> uint
 end

val add : nat -> nat -> nat

val sub : nat -> nat -> nat

type positive =
| XI of positive
| XO of positive
| XH

type n =
| N0
| Npos of positive

type z =
| Z0
| Zpos of positive
| Zneg of positive

module Nat :
 sig
  val eqb : nat -> nat -> bool

  val leb : nat -> nat -> bool

  val ltb : nat -> nat -> bool
 end

module Pos :
 sig
  type mask =
  | IsNul
  | IsPos of positive
  | IsNeg
 end

module Coq_Pos :
 sig
  val succ : positive -> positive

  val add : positive -> positive -> positive

  val add_carry : positive -> positive -> positive

  val pred_double : positive -> positive

  type mask = Pos.mask =
  | IsNul
  | IsPos of positive
  | IsNeg

  val succ_double_mask : mask -> mask

  val double_mask : mask -> mask

  val double_pred_mask : positive -> mask

  val sub_mask : positive -> positive -> mask

  val sub_mask_carry : positive -> positive -> mask

  val mul : positive -> positive -> positive

  val compare_cont : comparison -> positive -> positive -> comparison

  val compare : positive -> positive -> comparison

  val eqb : positive -> positive -> bool

  val iter_op : ('a1 -> 'a1 -> 'a1) -> positive -> 'a1 -> 'a1

  val to_nat : positive -> nat

  val of_succ_nat : nat -> positive

  val to_little_uint : positive -> uint

  val to_uint : positive -> uint
 end

module N :
 sig
  val add : n -> n -> n

  val sub : n -> n -> n

  val mul : n -> n -> n

  val compare : n -> n -> comparison

  val ltb : n -> n -> bool

  val to_nat : n -> nat

  val of_nat : nat -> n
 end

val zero : char

val one : char

val shift : bool -> char -> char

val ascii_of_pos : positive -> char

val ascii_of_N : n -> char

val ascii_of_nat : nat -> char

val n_of_digits : bool list -> n

val n_of_ascii : char -> n

val nth_error : 'a1 list -> nat -> 'a1 option

val rev0 : 'a1 list -> 'a1 list

val concat : 'a1 list list -> 'a1 list

val map : ('a1 -> 'a2) -> 'a1 list -> 'a2 list

val flat_map : ('a1 -> 'a2 list) -> 'a1 list -> 'a2 list

val fold_left : ('a1 -> 'a2 -> 'a1) -> 'a2 list -> 'a1 -> 'a1

val existsb : ('a1 -> bool) -> 'a1 list -> bool

val forallb : ('a1 -> bool) -> 'a1 list -> bool

val filter : ('a1 -> bool) -> 'a1 list -> 'a1 list

module Z :
 sig
  val double : z -> z

  val succ_double : z -> z

  val pred_double : z -> z

  val pos_sub : positive -> positive -> z

  val add : z -> z -> z

  val opp : z -> z

  val sub : z -> z -> z

  val mul : z -> z -> z

  val compare : z -> z -> comparison

  val ltb : z -> z -> bool

  val eqb : z -> z -> bool

  val max : z -> z -> z

  val min : z -> z -> z

  val of_N : n -> z

  val to_int : z -> signed_int
 end

val eqb0 : char list -> char list -> bool

val append : char list -> char list -> char list

val length0 : char list -> nat

val substring : nat -> nat -> char list -> char list

val list_ascii_of_string : char list -> char list

type exn =
| ValueError
| IndexError
| KeyError
| AttributeError
| TypeError
| SolutionError of z option
| NonConvergenceError
| ParserError
| SymbolError
| IndentationError
| DimensionError
| DuplicateNameError
| InitialisationError
| NotImplementedError
| UnboundLocalError
| FortranEngineError
| OverflowError
| OtherError

type 'a outcome =
| Ret of 'a
| Raise of exn

module NilEmpty :
 sig
  val string_of_uint : uint -> char list
 end

module NilZero :
 sig
  val string_of_uint : uint -> char list

  val string_of_int : signed_int -> char list
 end

val type_order : (char list * z) list

val replacement_function_names : (char list * char list) list

val kwlist : char list list

val re_space_codes : nat list

val re_word_codes : nat list

val splitlines_codes : nat list

val str_strip_codes : nat list

val chars_of_codes : nat list -> char list

val mem_ascii : char -> char list -> bool

val re_space_chars : char list

val re_word_chars : char list

val str_strip_chars : char list

val splitlines_chars : char list

val alpha_chars : char list

val digit_chars : char list

val is_space : char -> bool

val is_word : char -> bool

val is_pyspace : char -> bool

val is_linesep : char -> bool

val is_alpha_ : char -> bool

val is_digit : char -> bool

val is_idc : char -> bool

val is_fnc : char -> bool

val nl : char

val cr : char

val nl_s : char list

val span_while : (char -> bool) -> char list -> char list * char list

val skip_ws : char list -> char list

val prefix_rest : char list -> char list -> char list option

val startswith : char list -> char list -> bool

val find_on_line : char -> char list -> (char list * char list) option

val find_any : char -> char list -> (char list * char list) option

val has_char : char -> char list -> bool

val has_nl : char list -> bool

val count_char : char -> char list -> nat

val rev_str : char list -> char list -> char list

val lstrip_by : (char -> bool) -> char list -> char list

val rstrip_by : (char -> bool) -> char list -> char list

val strip_by : (char -> bool) -> char list -> char list

val re_strip : char list -> char list

val py_strip : char list -> char list

val py_rstrip : char list -> char list

val is_blank : char list -> bool

val head_is : char -> char list -> bool

val last_is : char -> char list -> bool

val join_nl : char list list -> char list

val splitlines_aux : char list -> char list -> char list list

type kind =
| KVerbatim
| KInvalid
| KKeyword
| KFunction
| KParameter
| KError
| KVariable

type tmatch = { mkind : kind; mname : char list; mindex : char list option;
                mlen : nat }

val kW : char list list

val index_group : char list -> (char list * nat) option

val with_index : kind -> char list -> nat -> char list -> tmatch

val try_invalid : char list list -> char list -> tmatch option

val try_keyword : char list list -> char list -> tmatch option

val try_verbatim : char list -> tmatch option

val try_function : char list -> tmatch option

val try_bracketed : char -> char -> kind -> char list -> tmatch option

val try_variable : char list -> tmatch option

val or_else : 'a1 option -> (unit -> 'a1 option) -> 'a1 option

val match_here : bool -> char list -> tmatch option

type item =
| Chr of char
| Tok of nat * tmatch

val scan : nat -> nat -> bool -> char list -> item list

val scan_items : char list -> item list

val matches_of : item list -> tmatch list

type ptype =
| TVariable
| TExogenous
| TEndogenous
| TParameter
| TError
| TFunction
| TKeyword
| TVerbatim
| TInvalid

val type_name : ptype -> char list

val type_eqb : ptype -> ptype -> bool

val assoc_z : char list -> (char list * z) list -> z

val type_value : ptype -> z

val type_max : ptype -> ptype -> ptype

val is_variable_type : ptype -> bool

type pidx =
| IInt of z
| IStr of char list

type term = { tname : char list; ttype : ptype; tindex : pidx option }

type symbol = { sname : char list option; stype : ptype; slags : pidx option;
                sleads : pidx option; sequation : char list option;
                scode : char list option }

val resolve_strings :
  char list option -> char list option -> char list option outcome

val resolve_by_type_pair :
  (z -> z -> z) -> pidx option -> pidx option -> pidx option outcome

val obind : 'a1 outcome -> ('a1 -> 'a2 outcome) -> 'a2 outcome

val combine : symbol -> symbol -> symbol outcome

val dict_get : char list -> (char list * 'a1) list -> 'a1 option

val dict_set :
  char list -> 'a1 -> (char list * 'a1) list -> (char list * 'a1) list

val dict_values : (char list * 'a1) list -> 'a1 list

type 'a pres =
| POk of 'a
| PErr of exn
| PUnmodelled

val of_outcome : 'a1 outcome -> 'a1 pres

type fmt_res =
| FOk of char list
| FFail
| FUnmodelled

type ftok =
| FLit of char
| FAuto
| FManual of n
| FAutoX
| FManualX of n
| FBad
| FUnk

val is_field_delim : char -> bool

val all_digits : char list -> bool

val digit_val : char -> n

val digits_to_N : n -> char list -> n

val classify_field : char list -> ftok

val classify_nested : char list -> ftok

type fmode =
| MText
| MAfterL
| MAfterR
| MField of char list

val ftokens : fmode -> char list -> ftok list

type numbering =
| NNone
| NAuto
| NManual

val ffill : char list list -> nat -> numbering -> ftok list -> fmt_res

val py_format : char list -> char list list -> fmt_res

val strip_comments : char list -> char list

val count_parens : nat -> char list -> nat option

val at_eol : char list -> bool

val has_fence_close : char list -> bool

val has_close_paren_eol : char list -> bool

val alt_fence : char list -> bool

val alt_lhs_bracket : char list -> bool

val alt_single : char list -> bool

val alt_here : char list -> bool

val stmt_ok_from : bool -> char list -> bool

val stmt_ok : char list -> bool

type sstate = { unmatched : nat; complete : bool; buffer : char list list }

val s0 : sstate

type step =
| StCont of sstate
| StYield of char list * sstate
| StRaise of exn

val split_step : sstate -> char list -> step

val split_lines : sstate -> char list list -> char list list * exn option

val model_lines : char list -> char list list

val split_M : char list -> char list list * exn option

val mem_string : char list -> char list list -> bool

val dict_combine :
  char list -> symbol -> (char list * symbol) list -> (char list * symbol)
  list outcome

val equation_symbols_go :
  char list -> char list -> term list -> (char list * symbol) list ->
  char list list -> (char list * symbol) list outcome

val equation_symbols :
  char list -> char list -> term list -> symbol list outcome

val merge_go :
  symbol list -> (char list * symbol) list -> symbol list -> symbol list
  outcome

val merge_symbols : symbol list list -> symbol list outcome

val digit_z : char -> z

val parse_digits : z -> bool -> char list -> z option

val int_max_str_digits : nat

val count_digits : char list -> nat

val py_int : char list -> z option

val string_of_Z : z -> char list

val kind_type : kind -> ptype

val drop_last : char list -> char list

val quoted_by : char -> char list -> bool

val mk_index : char list option -> pidx outcome

val mk_term : tmatch -> term outcome

val map_o : ('a1 -> 'a2 outcome) -> 'a1 list -> 'a2 list outcome

val parse_terms : char list -> term list outcome

val term_str : term -> char list option

val assoc_s : char list -> (char list * char list) list -> char list option

val term_code : term -> char list option

val all_some : 'a1 option list -> 'a1 list option

val replace_type : ptype -> term -> term

val has_type : ptype -> term list -> bool

val parse_equation_terms : char list -> term list outcome

val template_of : item list -> char list

val sub_ws : bool -> char list -> char list

val sub_open : bool -> char list -> char list

val sub_close : char list -> char list

val normalise_template : char list -> char list

val template : char list -> char list

val strip_chars : char list -> char list -> char list

val parse_equation_M : char list -> symbol list pres

type chk_res =
| ChkOk
| ChkSyntaxError
| ChkSyntaxWarning
| ChkOtherWarning of nat
| ChkOtherExn
| ChkCaughtExn

type verdict =
| VFine
| VProblem
| VRaise of exn

val check_codes : (char list -> chk_res) -> char list list -> verdict

val codes_of : symbol list -> char list list

val parse_statements :
  (char list -> chk_res) -> bool -> char list list -> symbol list list ->
  bool -> (symbol list list * bool) pres

val parse_model_M :
  (char list -> chk_res) -> bool -> char list -> symbol list pres

val chk_none : char list -> chk_res

val parse_model_nocheck : char list -> symbol list pres

val last_word : bool -> char list -> bool

val all_chars : (char -> bool) -> char list -> bool

val head_not : (char -> bool) -> char list -> bool

val head_sat : (char -> bool) -> char list -> bool

val is_ident : char list -> bool

val is_fname : char list -> bool

val kw_free : char list -> bool

val inert : char -> bool

val lt_ok : char list -> bool

type ntok =
| NTerm of char list * pidx
| NFunc of char list
| NKw of char list
| NVerb of char list
| NChr of char

val idx_body : pidx -> char list

val term_text : char list -> pidx -> char list

val ntok_text : ntok -> char list

val nflat : ntok list -> char list

val idx_ok : char list -> bool

val ntok_ok : bool -> ntok -> char list -> bool

val nwf_k : bool -> ntok list -> char list -> bool

val nwf : ntok list -> bool

type neq = { nlhs : ntok list; nrhs : ntok list }

val neq_text : neq -> char list

val neq_wf : neq -> bool

val groups0 : char list -> item list -> char list list

val finditer_group0 : char list -> char list list

type graph = { gnodes : (char list * char list option) list;
               gedges : (char list * char list) list }

val empty_graph : graph

val has_node : char list -> (char list * char list option) list -> bool

val set_node :
  char list -> char list -> (char list * char list option) list ->
  (char list * char list option) list

val touch_node :
  char list -> (char list * char list option) list -> (char list * char list
  option) list

val pair_eqb : (char list * char list) -> (char list * char list) -> bool

val has_edge : (char list * char list) -> (char list * char list) list -> bool

val add_node_attr : char list -> graph -> char list -> graph

val add_edge : graph -> char list -> char list -> graph

val graph_step : graph -> char list -> graph outcome

val graph_loop : graph -> char list list -> graph outcome

val equations_of : symbol list -> char list list

val symbols_to_graph_M : symbol list -> graph outcome

val nx_edges : graph -> (char list * char list) list

val varlike_id : char list -> bool

val parse_tindex : char list -> pidx

val verb_body : char list -> char list

val tok_of_match : tmatch -> ntok option

val toks_of_items : item list -> ntok list option

val tokenise : char list -> neq option

val idx_text : char list -> char list -> char list -> char list

val bare_follow : char list -> bool

val brk_text :
  char -> char -> char list -> char list -> char list -> char list

val wsn : bool -> char list -> bool

val no_open_ws : bool -> char list -> bool

val no_ws_close : char list -> bool

val normal : char list -> bool

val cont_scan : nat -> char list -> bool

val dz : z -> char list

type tstyle =
| SVar
| SPar of char list * char list
| SErr of char list * char list

type tlay = { lstyle : tstyle;
              lindex : ((char list * char list) * bool) option }

type layout = char list -> pidx -> tlay

val canon : layout

val ibody : bool -> pidx -> char list

val style_text : tstyle -> char list -> char list

val index_text : ((char list * char list) * bool) option -> pidx -> char list

val dtext : layout -> ntok -> char list

val dflat : layout -> ntok list -> char list

val denorm_text : layout -> neq -> char list

val tok_term : ptype -> ntok -> term option

val tok_code : ntok -> char list

val cflat : ntok list -> char list

val neq_code : neq -> char list

val ttemplate : ntok list -> char list

val style_ok : tstyle -> char list -> bool

val index_ok :
  tstyle -> ((char list * char list) * bool) option -> pidx -> char list ->
  bool

val dtok_ok : layout -> bool -> ntok -> char list -> bool

val dwf_k : layout -> bool -> ntok list -> char list -> bool

val nobrace : ntok list -> bool

val whole_toks : neq -> ntok list

val lhs_lay_ok : tlay -> z -> bool

val dq_ok_ws : layout -> neq -> bool

val dq_ok : layout -> neq -> bool

val dq_ok_canon : neq -> bool

val denorm_canon : neq -> char list

val is_blank_tok : ntok -> bool

val skip_blank_toks : ntok list -> ntok list

val styled : layout -> ntok -> bool

val is_kw_tok : ntok -> bool

val sep_ok : layout -> ntok list -> bool
