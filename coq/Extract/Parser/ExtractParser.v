(* Extraction of the parser model to OCaml for the correspondence checks (C13, C01, …).
   Only ExtrOcamlBasic and ExtrOcamlString; no Extract Constant of ours; Z / N / nat stay the
   extracted inductives.  Compiled from the root of the development (the Makefile's and the
   harness's working directory), so the products land next to this file; they are git-ignored.
   (Basename ExtractParser: file basenames are unique across the development.) *)
Require Import ExtrOcamlBasic ExtrOcamlString.
Require Import Fsic.Base.PyBase Fsic.Parser.PyStr Fsic.Parser.Lex Fsic.Parser.Format Fsic.Parser.Symbols
               Fsic.Parser.Split Fsic.Parser.Merge Fsic.Parser.ParseEq Fsic.Parser.ParseModel.
Extraction Language OCaml.
Extraction "Extract/Parser/parser_model.ml"
  parse_model_M parse_model_nocheck parse_equation_M split_M toks py_format py_int stmt_ok
  type_name type_value string_of_Z n_emitted template model_lines strip_comments.
