(* driver.ml — runs the extracted parser model (parser_model.ml) for the correspondence checks.
   One request per input line, one answer per output line.  Strings travel hex-encoded (Latin-1).
     P <hex>                      parse_model(check_syntax=False)      -> O:<symbols> | E:<class> | U
     C <hex> <code-hex>=<o> ...   parse_model(check_syntax=True) with the oracle given as a finite table
                                  (o in ok se sw ow ox; codes not listed -> ok)   -> as P
     Q <hex>                      parse_equation                        -> as P
     S <hex>                      statements and, per statement, the codes the syntax check would see
                                  -> S:<stmt-hex>,<code-hex>,...;...|<split-error or ->
     T <hex>                      term_re.finditer                      -> start,end,KIND,name-hex,index;...
     F <tpl-hex> <arg-hex> ...    str.format                            -> O:<hex> | E | U
     I <hex>                      int()                                 -> <decimal> | E
     K <hex>                      equation_re.search is not None        -> 1 | 0
     E <alphabet-hex> <len> <prefix-hex>    every string prefix++w, |prefix++w| = len, w over the alphabet in
                                  order: the P answers, one line each, then a line "." (EV), or only their MD5 (E)
   A symbol is name|TYPE|lags|leads|equation|code with  - = None, h<hex> = str, i<decimal> = int, s<hex> = str index. *)
open Parser_model

let explode (s : string) : char list = List.init (String.length s) (String.get s)
let implode (l : char list) : string = let b = Buffer.create 64 in List.iter (Buffer.add_char b) l; Buffer.contents b
let hex_of_string (s : string) : string =
  let b = Buffer.create (2 * String.length s) in
  String.iter (fun c -> Buffer.add_string b (Printf.sprintf "%02x" (Char.code c))) s; Buffer.contents b
let hex (l : char list) : string = hex_of_string (implode l)
let hv c = match c with '0'..'9' -> Char.code c - 48 | 'a'..'f' -> Char.code c - 87 | 'A'..'F' -> Char.code c - 55 | _ -> failwith "hex"
let unhex (h : string) : char list =
  List.init (String.length h / 2) (fun i -> Char.chr (16 * hv h.[2*i] + hv h.[2*i+1]))

let rec int_of_nat = function O -> 0 | S n -> 1 + int_of_nat n
let rec nat_of_int n = if n <= 0 then O else S (nat_of_int (n - 1))

let exn_name = function
  | ValueError -> "ValueError" | IndexError -> "IndexError" | KeyError -> "KeyError" | AttributeError -> "AttributeError"
  | TypeError -> "TypeError" | SolutionError _ -> "SolutionError" | NonConvergenceError -> "NonConvergenceError"
  | ParserError -> "ParserError" | SymbolError -> "SymbolError" | IndentationError -> "IndentationError"
  | DimensionError -> "DimensionError" | DuplicateNameError -> "DuplicateNameError"
  | InitialisationError -> "InitialisationError" | NotImplementedError -> "NotImplementedError"
  | UnboundLocalError -> "UnboundLocalError" | FortranEngineError -> "FortranEngineError"
  | OverflowError -> "OverflowError" | OtherError -> "OtherError"

let opt_s = function None -> "-" | Some s -> "h" ^ hex s
let idx_s = function None -> "-" | Some (IInt z) -> "i" ^ implode (string_of_Z z) | Some (IStr s) -> "s" ^ hex s
let sym_s (s : symbol) : string =
  String.concat "|" [opt_s s.sname; implode (type_name s.stype); idx_s s.slags; idx_s s.sleads; opt_s s.sequation; opt_s s.scode]
let res_s (r : symbol list pres) : string =
  match r with
  | POk l -> "O:" ^ String.concat ";" (List.map sym_s l)
  | PErr e -> "E:" ^ exn_name e
  | PUnmodelled -> "U"

let kind_s = function
  | KVerbatim -> "VERBATIM" | KInvalid -> "INVALID" | KKeyword -> "KEYWORD" | KFunction -> "FUNCTION"
  | KParameter -> "PARAMETER" | KError -> "ERROR" | KVariable -> "VARIABLE"

let chk_of_table (tbl : (char list * chk_res) list) (code : char list) : chk_res =
  match List.assoc_opt code tbl with Some o -> o | None -> ChkOk
let parse_chk = function
  | "ok" -> ChkOk | "se" -> ChkSyntaxError | "sw" -> ChkSyntaxWarning | "ow" -> ChkOtherWarning (S O) | "ox" -> ChkOtherExn | "ce" -> ChkCaughtExn
  | _ -> failwith "chk"

let rec codes_of_syms = function
  | [] -> []
  | s :: r -> (match s.scode with Some c -> c :: codes_of_syms r | None -> codes_of_syms r)

(* enumeration in the order of the alphabet, last position fastest *)
let enumerate (alphabet : char list) (len : int) (prefix : char list) (f : char list -> unit) : unit =
  let rec go (acc_rev : char list) (k : int) =
    if k = 0 then f (List.rev acc_rev)
    else List.iter (fun c -> go (c :: acc_rev) (k - 1)) alphabet in
  go (List.rev prefix) (len - List.length prefix)

let toks_s (s : char list) : string =
  let one ((((a, b), k), name), idx) =
    Printf.sprintf "%d,%d,%s,%s,%s" (int_of_nat a) (int_of_nat b) (kind_s k) (hex name) (opt_s idx) in
  String.concat ";" (List.map one (toks s))

let answer (line : string) : unit =
  match String.split_on_char ' ' line with
  | ["P"; h] -> print_endline (res_s (parse_model_nocheck (unhex h)))
  | "C" :: h :: tbl ->
    let table = List.map (fun kv -> match String.split_on_char '=' kv with
                                    | [k; v] -> (unhex k, parse_chk v) | _ -> failwith "table") tbl in
    print_endline (res_s (parse_model_M (chk_of_table table) true (unhex h)))
  | ["Q"; h] -> print_endline (res_s (parse_equation_M (unhex h)))
  | ["S"; h] ->
    let (stmts, err) = split_M (unhex h) in
    let one st = String.concat "," (hex st :: (match parse_equation_M st with
                                              | POk syms -> List.map hex (codes_of_syms syms)
                                              | PErr e -> ["!" ^ exn_name e]
                                              | PUnmodelled -> ["!U"])) in
    print_endline ("S:" ^ String.concat ";" (List.map one stmts) ^ "|" ^ (match err with None -> "-" | Some e -> exn_name e))
  | ["T"; h] -> print_endline (toks_s (unhex h))
  | ["M"; h] ->     (* model_lines: str.splitlines followed by strip_comments, line by line *)
    print_endline ("M:" ^ String.concat ";" (List.map hex (model_lines (unhex h))))
  | ["N"; h] ->     (* n_emitted of the accepted model (check_syntax=False): what build_model_definition emits *)
    print_endline (match parse_model_nocheck (unhex h) with
                   | POk syms -> string_of_int (int_of_nat (n_emitted syms))
                   | PErr e -> "E:" ^ exn_name e
                   | PUnmodelled -> "U")
  | "F" :: t :: args ->
    print_endline (match py_format (unhex t) (List.map unhex args) with
                   | FOk s -> "O:" ^ hex s | FFail -> "E" | FUnmodelled -> "U")
  | ["I"; h] -> print_endline (match py_int (unhex h) with Some z -> implode (string_of_Z z) | None -> "E")
  | ["K"; h] -> print_endline (if stmt_ok (unhex h) then "1" else "0")
  | [("E" | "EV" | "EL" | "ELV" | "EK" | "EKV") as cmd; a; n; p] ->
    (* E / EV: parse_model_nocheck; EL / ELV: the term lexer (toks); EK / EKV: stmt_ok — digest, or (…V) line by line *)
    let buf = Buffer.create 65536 in
    let count = ref 0 in
    let line s = match cmd with
      | "E" | "EV" -> res_s (parse_model_nocheck s)
      | "EL" | "ELV" -> toks_s s
      | _ -> if stmt_ok s then "1" else "0" in
    enumerate (unhex a) (int_of_string n) (unhex p)
      (fun s -> incr count; Buffer.add_string buf (line s); Buffer.add_char buf '\n');
    if cmd = "EV" || cmd = "ELV" || cmd = "EKV" then (print_string (Buffer.contents buf); print_endline ".")
    else print_endline (Printf.sprintf "D:%s:%d" (Digest.to_hex (Digest.string (Buffer.contents buf))) !count)
  | _ -> print_endline "?"

let () =
  try
    while true do
      let line = input_line stdin in
      (try answer line with
       | Stack_overflow -> print_endline "!stack"
       | Failure m -> print_endline ("!" ^ m));
      flush stdout
    done
  with End_of_file -> ()
