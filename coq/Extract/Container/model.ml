
(** val negb : bool -> bool **)

let negb = function
| true -> false
| false -> true

type nat =
| O
| S of nat

(** val option_map : ('a1 -> 'a2) -> 'a1 option -> 'a2 option **)

let option_map f = function
| Some a -> Some (f a)
| None -> None

(** val fst : ('a1 * 'a2) -> 'a1 **)

let fst = function
| (x, _) -> x

(** val snd : ('a1 * 'a2) -> 'a2 **)

let snd = function
| (_, y) -> y

(** val length : 'a1 list -> nat **)

let rec length = function
| [] -> O
| _ :: l' -> S (length l')

(** val app : 'a1 list -> 'a1 list -> 'a1 list **)

let rec app l m =
  match l with
  | [] -> m
  | a :: l1 -> a :: (app l1 m)

type comparison =
| Eq
| Lt
| Gt

(** val compOpp : comparison -> comparison **)

let compOpp = function
| Eq -> Eq
| Lt -> Gt
| Gt -> Lt

type uint =
| Nil
| D0 of uint
| D1 of uint
| D2 of uint
| D3 of uint
| D4 of uint
| D5 of uint
| D6 of uint
| D7 of uint
| D8 of uint
| D9 of uint

type signed_int =
| Pos of uint
| Neg of uint

(** val revapp : uint -> uint -> uint **)

let rec revapp d d' =
  match d with
  | Nil -> d'
  | D0 d0 -> revapp d0 (D0 d')
  | D1 d0 -> revapp d0 (D1 d')
  | D2 d0 -> revapp d0 (D2 d')
  | D3 d0 -> revapp d0 (D3 d')
  | D4 d0 -> revapp d0 (D4 d')
  | D5 d0 -> revapp d0 (D5 d')
  | D6 d0 -> revapp d0 (D6 d')
  | D7 d0 -> revapp d0 (D7 d')
  | D8 d0 -> revapp d0 (D8 d')
  | D9 d0 -> revapp d0 (D9 d')

(** val rev : uint -> uint **)

let rev d =
  revapp d Nil

module Little =
 struct
  (** val double : uint -> uint **)

  let rec double = function
  | Nil -> Nil
  | D0 d0 -> D0 (double d0)
  | D1 d0 -> D2 (double d0)
  | D2 d0 -> D4 (double d0)
  | D3 d0 -> D6 (double d0)
  | D4 d0 -> D8 (double d0)
  | D5 d0 -> D0 (succ_double d0)
  | D6 d0 -> D2 (succ_double d0)
  | D7 d0 -> D4 (succ_double d0)
  | D8 d0 -> D6 (succ_double d0)
  | D9 d0 -> D8 (succ_double d0)

  (** val succ_double : uint -> uint **)

  and succ_double = function
  | Nil -> D1 Nil
  | D0 d0 -> D1 (double d0)
  | D1 d0 -> D3 (double d0)
  | D2 d0 -> D5 (double d0)
  | D3 d0 -> D7 (double d0)
  | D4 d0 -> D9 (double d0)
  | D5 d0 -> D1 (succ_double d0)
  | D6 d0 -> D3 (succ_double d0)
  | D7 d0 -> D5 (succ_double d0)
  | D8 d0 -> D7 (succ_double d0)
  | D9 d0 -> D9 (succ_double d0)
 end

module Coq__1 = struct
 (** val add : nat -> nat -> nat **)
 let rec add n0 m =
   match n0 with
   | O -> m
   | S p -> S (add p m)
end
include Coq__1

(** val mul : nat -> nat -> nat **)

let rec mul n0 m =
  match n0 with
  | O -> O
  | S p -> add m (mul p m)

(** val sub : nat -> nat -> nat **)

let rec sub n0 m =
  match n0 with
  | O -> n0
  | S k -> (match m with
            | O -> n0
            | S l -> sub k l)

type positive =
| XI of positive
| XO of positive
| XH

type n =
| N0
| Npos of positive

type z =
| Z0
| Zpos of positive
| Zneg of positive

module Nat =
 struct
  (** val add : nat -> nat -> nat **)

  let rec add n0 m =
    match n0 with
    | O -> m
    | S p -> S (add p m)

  (** val mul : nat -> nat -> nat **)

  let rec mul n0 m =
    match n0 with
    | O -> O
    | S p -> add m (mul p m)

  (** val eqb : nat -> nat -> bool **)

  let rec eqb n0 m =
    match n0 with
    | O -> (match m with
            | O -> true
            | S _ -> false)
    | S n' -> (match m with
               | O -> false
               | S m' -> eqb n' m')

  (** val leb : nat -> nat -> bool **)

  let rec leb n0 m =
    match n0 with
    | O -> true
    | S n' -> (match m with
               | O -> false
               | S m' -> leb n' m')

  (** val ltb : nat -> nat -> bool **)

  let ltb n0 m =
    leb (S n0) m

  (** val max : nat -> nat -> nat **)

  let rec max n0 m =
    match n0 with
    | O -> m
    | S n' -> (match m with
               | O -> n0
               | S m' -> S (max n' m'))

  (** val min : nat -> nat -> nat **)

  let rec min n0 m =
    match n0 with
    | O -> O
    | S n' -> (match m with
               | O -> O
               | S m' -> S (min n' m'))

  (** val eq_dec : nat -> nat -> bool **)

  let rec eq_dec n0 m =
    match n0 with
    | O -> (match m with
            | O -> true
            | S _ -> false)
    | S n1 -> (match m with
               | O -> false
               | S n2 -> eq_dec n1 n2)
 end

module Pos =
 struct
  type mask =
  | IsNul
  | IsPos of positive
  | IsNeg
 end

module Coq_Pos =
 struct
  (** val succ : positive -> positive **)

  let rec succ = function
  | XI p -> XO (succ p)
  | XO p -> XI p
  | XH -> XO XH

  (** val add : positive -> positive -> positive **)

  let rec add x y =
    match x with
    | XI p ->
      (match y with
       | XI q -> XO (add_carry p q)
       | XO q -> XI (add p q)
       | XH -> XO (succ p))
    | XO p ->
      (match y with
       | XI q -> XI (add p q)
       | XO q -> XO (add p q)
       | XH -> XI p)
    | XH -> (match y with
             | XI q -> XO (succ q)
             | XO q -> XI q
             | XH -> XO XH)

  (** val add_carry : positive -> positive -> positive **)

  and add_carry x y =
    match x with
    | XI p ->
      (match y with
       | XI q -> XI (add_carry p q)
       | XO q -> XO (add_carry p q)
       | XH -> XI (succ p))
    | XO p ->
      (match y with
       | XI q -> XO (add_carry p q)
       | XO q -> XI (add p q)
       | XH -> XO (succ p))
    | XH ->
      (match y with
       | XI q -> XI (succ q)
       | XO q -> XO (succ q)
       | XH -> XI XH)

  (** val pred_double : positive -> positive **)

  let rec pred_double = function
  | XI p -> XI (XO p)
  | XO p -> XI (pred_double p)
  | XH -> XH

  type mask = Pos.mask =
  | IsNul
  | IsPos of positive
  | IsNeg

  (** val succ_double_mask : mask -> mask **)

  let succ_double_mask = function
  | IsNul -> IsPos XH
  | IsPos p -> IsPos (XI p)
  | IsNeg -> IsNeg

  (** val double_mask : mask -> mask **)

  let double_mask = function
  | IsPos p -> IsPos (XO p)
  | x0 -> x0

  (** val double_pred_mask : positive -> mask **)

  let double_pred_mask = function
  | XI p -> IsPos (XO (XO p))
  | XO p -> IsPos (XO (pred_double p))
  | XH -> IsNul

  (** val sub_mask : positive -> positive -> mask **)

  let rec sub_mask x y =
    match x with
    | XI p ->
      (match y with
       | XI q -> double_mask (sub_mask p q)
       | XO q -> succ_double_mask (sub_mask p q)
       | XH -> IsPos (XO p))
    | XO p ->
      (match y with
       | XI q -> succ_double_mask (sub_mask_carry p q)
       | XO q -> double_mask (sub_mask p q)
       | XH -> IsPos (pred_double p))
    | XH -> (match y with
             | XH -> IsNul
             | _ -> IsNeg)

  (** val sub_mask_carry : positive -> positive -> mask **)

  and sub_mask_carry x y =
    match x with
    | XI p ->
      (match y with
       | XI q -> succ_double_mask (sub_mask_carry p q)
       | XO q -> double_mask (sub_mask p q)
       | XH -> IsPos (pred_double p))
    | XO p ->
      (match y with
       | XI q -> double_mask (sub_mask_carry p q)
       | XO q -> succ_double_mask (sub_mask_carry p q)
       | XH -> double_pred_mask p)
    | XH -> IsNeg

  (** val mul : positive -> positive -> positive **)

  let rec mul x y =
    match x with
    | XI p -> add y (XO (mul p y))
    | XO p -> XO (mul p y)
    | XH -> y

  (** val compare_cont : comparison -> positive -> positive -> comparison **)

  let rec compare_cont r x y =
    match x with
    | XI p ->
      (match y with
       | XI q -> compare_cont r p q
       | XO q -> compare_cont Gt p q
       | XH -> Gt)
    | XO p ->
      (match y with
       | XI q -> compare_cont Lt p q
       | XO q -> compare_cont r p q
       | XH -> Gt)
    | XH -> (match y with
             | XH -> r
             | _ -> Lt)

  (** val compare : positive -> positive -> comparison **)

  let compare =
    compare_cont Eq

  (** val eqb : positive -> positive -> bool **)

  let rec eqb p q =
    match p with
    | XI p0 -> (match q with
                | XI q0 -> eqb p0 q0
                | _ -> false)
    | XO p0 -> (match q with
                | XO q0 -> eqb p0 q0
                | _ -> false)
    | XH -> (match q with
             | XH -> true
             | _ -> false)

  (** val iter_op : ('a1 -> 'a1 -> 'a1) -> positive -> 'a1 -> 'a1 **)

  let rec iter_op op0 p a =
    match p with
    | XI p0 -> op0 a (iter_op op0 p0 (op0 a a))
    | XO p0 -> iter_op op0 p0 (op0 a a)
    | XH -> a

  (** val to_nat : positive -> nat **)

  let to_nat x =
    iter_op Coq__1.add x (S O)

  (** val of_succ_nat : nat -> positive **)

  let rec of_succ_nat = function
  | O -> XH
  | S x -> succ (of_succ_nat x)

  (** val to_little_uint : positive -> uint **)

  let rec to_little_uint = function
  | XI p0 -> Little.succ_double (to_little_uint p0)
  | XO p0 -> Little.double (to_little_uint p0)
  | XH -> D1 Nil

  (** val to_uint : positive -> uint **)

  let to_uint p =
    rev (to_little_uint p)
 end

module N =
 struct
  (** val succ_double : n -> n **)

  let succ_double = function
  | N0 -> Npos XH
  | Npos p -> Npos (XI p)

  (** val double : n -> n **)

  let double = function
  | N0 -> N0
  | Npos p -> Npos (XO p)

  (** val add : n -> n -> n **)

  let add n0 m =
    match n0 with
    | N0 -> m
    | Npos p -> (match m with
                 | N0 -> n0
                 | Npos q -> Npos (Coq_Pos.add p q))

  (** val sub : n -> n -> n **)

  let sub n0 m =
    match n0 with
    | N0 -> N0
    | Npos n' ->
      (match m with
       | N0 -> n0
       | Npos m' ->
         (match Coq_Pos.sub_mask n' m' with
          | Coq_Pos.IsPos p -> Npos p
          | _ -> N0))

  (** val mul : n -> n -> n **)

  let mul n0 m =
    match n0 with
    | N0 -> N0
    | Npos p -> (match m with
                 | N0 -> N0
                 | Npos q -> Npos (Coq_Pos.mul p q))

  (** val compare : n -> n -> comparison **)

  let compare n0 m =
    match n0 with
    | N0 -> (match m with
             | N0 -> Eq
             | Npos _ -> Lt)
    | Npos n' -> (match m with
                  | N0 -> Gt
                  | Npos m' -> Coq_Pos.compare n' m')

  (** val leb : n -> n -> bool **)

  let leb x y =
    match compare x y with
    | Gt -> false
    | _ -> true

  (** val pos_div_eucl : positive -> n -> n * n **)

  let rec pos_div_eucl a b =
    match a with
    | XI a' ->
      let (q, r) = pos_div_eucl a' b in
      let r' = succ_double r in
      if leb b r' then ((succ_double q), (sub r' b)) else ((double q), r')
    | XO a' ->
      let (q, r) = pos_div_eucl a' b in
      let r' = double r in
      if leb b r' then ((succ_double q), (sub r' b)) else ((double q), r')
    | XH ->
      (match b with
       | N0 -> (N0, (Npos XH))
       | Npos p -> (match p with
                    | XH -> ((Npos XH), N0)
                    | _ -> (N0, (Npos XH))))

  (** val to_nat : n -> nat **)

  let to_nat = function
  | N0 -> O
  | Npos p -> Coq_Pos.to_nat p

  (** val of_nat : nat -> n **)

  let of_nat = function
  | O -> N0
  | S n' -> Npos (Coq_Pos.of_succ_nat n')
 end

module Z =
 struct
  (** val double : z -> z **)

  let double = function
  | Z0 -> Z0
  | Zpos p -> Zpos (XO p)
  | Zneg p -> Zneg (XO p)

  (** val succ_double : z -> z **)

  let succ_double = function
  | Z0 -> Zpos XH
  | Zpos p -> Zpos (XI p)
  | Zneg p -> Zneg (Coq_Pos.pred_double p)

  (** val pred_double : z -> z **)

  let pred_double = function
  | Z0 -> Zneg XH
  | Zpos p -> Zpos (Coq_Pos.pred_double p)
  | Zneg p -> Zneg (XI p)

  (** val pos_sub : positive -> positive -> z **)

  let rec pos_sub x y =
    match x with
    | XI p ->
      (match y with
       | XI q -> double (pos_sub p q)
       | XO q -> succ_double (pos_sub p q)
       | XH -> Zpos (XO p))
    | XO p ->
      (match y with
       | XI q -> pred_double (pos_sub p q)
       | XO q -> double (pos_sub p q)
       | XH -> Zpos (Coq_Pos.pred_double p))
    | XH ->
      (match y with
       | XI q -> Zneg (XO q)
       | XO q -> Zneg (Coq_Pos.pred_double q)
       | XH -> Z0)

  (** val add : z -> z -> z **)

  let add x y =
    match x with
    | Z0 -> y
    | Zpos x' ->
      (match y with
       | Z0 -> x
       | Zpos y' -> Zpos (Coq_Pos.add x' y')
       | Zneg y' -> pos_sub x' y')
    | Zneg x' ->
      (match y with
       | Z0 -> x
       | Zpos y' -> pos_sub y' x'
       | Zneg y' -> Zneg (Coq_Pos.add x' y'))

  (** val opp : z -> z **)

  let opp = function
  | Z0 -> Z0
  | Zpos x0 -> Zneg x0
  | Zneg x0 -> Zpos x0

  (** val sub : z -> z -> z **)

  let sub m n0 =
    add m (opp n0)

  (** val mul : z -> z -> z **)

  let mul x y =
    match x with
    | Z0 -> Z0
    | Zpos x' ->
      (match y with
       | Z0 -> Z0
       | Zpos y' -> Zpos (Coq_Pos.mul x' y')
       | Zneg y' -> Zneg (Coq_Pos.mul x' y'))
    | Zneg x' ->
      (match y with
       | Z0 -> Z0
       | Zpos y' -> Zneg (Coq_Pos.mul x' y')
       | Zneg y' -> Zpos (Coq_Pos.mul x' y'))

  (** val compare : z -> z -> comparison **)

  let compare x y =
    match x with
    | Z0 -> (match y with
             | Z0 -> Eq
             | Zpos _ -> Lt
             | Zneg _ -> Gt)
    | Zpos x' -> (match y with
                  | Zpos y' -> Coq_Pos.compare x' y'
                  | _ -> Gt)
    | Zneg x' ->
      (match y with
       | Zneg y' -> compOpp (Coq_Pos.compare x' y')
       | _ -> Lt)

  (** val leb : z -> z -> bool **)

  let leb x y =
    match compare x y with
    | Gt -> false
    | _ -> true

  (** val ltb : z -> z -> bool **)

  let ltb x y =
    match compare x y with
    | Lt -> true
    | _ -> false

  (** val eqb : z -> z -> bool **)

  let eqb x y =
    match x with
    | Z0 -> (match y with
             | Z0 -> true
             | _ -> false)
    | Zpos p -> (match y with
                 | Zpos q -> Coq_Pos.eqb p q
                 | _ -> false)
    | Zneg p -> (match y with
                 | Zneg q -> Coq_Pos.eqb p q
                 | _ -> false)

  (** val abs : z -> z **)

  let abs = function
  | Zneg p -> Zpos p
  | x -> x

  (** val to_nat : z -> nat **)

  let to_nat = function
  | Zpos p -> Coq_Pos.to_nat p
  | _ -> O

  (** val of_nat : nat -> z **)

  let of_nat = function
  | O -> Z0
  | S n1 -> Zpos (Coq_Pos.of_succ_nat n1)

  (** val of_N : n -> z **)

  let of_N = function
  | N0 -> Z0
  | Npos p -> Zpos p

  (** val to_int : z -> signed_int **)

  let to_int = function
  | Z0 -> Pos (D0 Nil)
  | Zpos p -> Pos (Coq_Pos.to_uint p)
  | Zneg p -> Neg (Coq_Pos.to_uint p)

  (** val pos_div_eucl : positive -> z -> z * z **)

  let rec pos_div_eucl a b =
    match a with
    | XI a' ->
      let (q, r) = pos_div_eucl a' b in
      let r' = add (mul (Zpos (XO XH)) r) (Zpos XH) in
      if ltb r' b
      then ((mul (Zpos (XO XH)) q), r')
      else ((add (mul (Zpos (XO XH)) q) (Zpos XH)), (sub r' b))
    | XO a' ->
      let (q, r) = pos_div_eucl a' b in
      let r' = mul (Zpos (XO XH)) r in
      if ltb r' b
      then ((mul (Zpos (XO XH)) q), r')
      else ((add (mul (Zpos (XO XH)) q) (Zpos XH)), (sub r' b))
    | XH -> if leb (Zpos (XO XH)) b then (Z0, (Zpos XH)) else ((Zpos XH), Z0)

  (** val div_eucl : z -> z -> z * z **)

  let div_eucl a b =
    match a with
    | Z0 -> (Z0, Z0)
    | Zpos a' ->
      (match b with
       | Z0 -> (Z0, a)
       | Zpos _ -> pos_div_eucl a' b
       | Zneg b' ->
         let (q, r) = pos_div_eucl a' (Zpos b') in
         (match r with
          | Z0 -> ((opp q), Z0)
          | _ -> ((opp (add q (Zpos XH))), (add b r))))
    | Zneg a' ->
      (match b with
       | Z0 -> (Z0, a)
       | Zpos _ ->
         let (q, r) = pos_div_eucl a' b in
         (match r with
          | Z0 -> ((opp q), Z0)
          | _ -> ((opp (add q (Zpos XH))), (sub b r)))
       | Zneg b' -> let (q, r) = pos_div_eucl a' (Zpos b') in (q, (opp r)))

  (** val div : z -> z -> z **)

  let div a b =
    let (q, _) = div_eucl a b in q

  (** val quotrem : z -> z -> z * z **)

  let quotrem a b =
    match a with
    | Z0 -> (Z0, Z0)
    | Zpos a0 ->
      (match b with
       | Z0 -> (Z0, a)
       | Zpos b0 ->
         let (q, r) = N.pos_div_eucl a0 (Npos b0) in ((of_N q), (of_N r))
       | Zneg b0 ->
         let (q, r) = N.pos_div_eucl a0 (Npos b0) in
         ((opp (of_N q)), (of_N r)))
    | Zneg a0 ->
      (match b with
       | Z0 -> (Z0, a)
       | Zpos b0 ->
         let (q, r) = N.pos_div_eucl a0 (Npos b0) in
         ((opp (of_N q)), (opp (of_N r)))
       | Zneg b0 ->
         let (q, r) = N.pos_div_eucl a0 (Npos b0) in
         ((of_N q), (opp (of_N r))))

  (** val quot : z -> z -> z **)

  let quot a b =
    fst (quotrem a b)

  (** val even : z -> bool **)

  let even = function
  | Z0 -> true
  | Zpos p -> (match p with
               | XO _ -> true
               | _ -> false)
  | Zneg p -> (match p with
               | XO _ -> true
               | _ -> false)
 end

(** val hd : 'a1 -> 'a1 list -> 'a1 **)

let hd default = function
| [] -> default
| x :: _ -> x

(** val nth : nat -> 'a1 list -> 'a1 -> 'a1 **)

let rec nth n0 l default =
  match n0 with
  | O -> (match l with
          | [] -> default
          | x :: _ -> x)
  | S m -> (match l with
            | [] -> default
            | _ :: t -> nth m t default)

(** val nth_error : 'a1 list -> nat -> 'a1 option **)

let rec nth_error l = function
| O -> (match l with
        | [] -> None
        | x :: _ -> Some x)
| S n1 -> (match l with
           | [] -> None
           | _ :: l0 -> nth_error l0 n1)

(** val last : 'a1 list -> 'a1 -> 'a1 **)

let rec last l d =
  match l with
  | [] -> d
  | a :: l0 -> (match l0 with
                | [] -> a
                | _ :: _ -> last l0 d)

(** val concat : 'a1 list list -> 'a1 list **)

let rec concat = function
| [] -> []
| x :: l0 -> app x (concat l0)

(** val list_eq_dec : ('a1 -> 'a1 -> bool) -> 'a1 list -> 'a1 list -> bool **)

let rec list_eq_dec eq_dec0 l l' =
  match l with
  | [] -> (match l' with
           | [] -> true
           | _ :: _ -> false)
  | y :: l0 ->
    (match l' with
     | [] -> false
     | a :: l1 -> if eq_dec0 y a then list_eq_dec eq_dec0 l0 l1 else false)

(** val map : ('a1 -> 'a2) -> 'a1 list -> 'a2 list **)

let rec map f = function
| [] -> []
| a :: t -> (f a) :: (map f t)

(** val fold_left : ('a1 -> 'a2 -> 'a1) -> 'a2 list -> 'a1 -> 'a1 **)

let rec fold_left f l a0 =
  match l with
  | [] -> a0
  | b :: t -> fold_left f t (f a0 b)

(** val fold_right : ('a2 -> 'a1 -> 'a1) -> 'a1 -> 'a2 list -> 'a1 **)

let rec fold_right f a0 = function
| [] -> a0
| b :: t -> f b (fold_right f a0 t)

(** val existsb : ('a1 -> bool) -> 'a1 list -> bool **)

let rec existsb f = function
| [] -> false
| a :: l0 -> (||) (f a) (existsb f l0)

(** val forallb : ('a1 -> bool) -> 'a1 list -> bool **)

let rec forallb f = function
| [] -> true
| a :: l0 -> (&&) (f a) (forallb f l0)

(** val filter : ('a1 -> bool) -> 'a1 list -> 'a1 list **)

let rec filter f = function
| [] -> []
| x :: l0 -> if f x then x :: (filter f l0) else filter f l0

(** val combine : 'a1 list -> 'a2 list -> ('a1 * 'a2) list **)

let rec combine l l' =
  match l with
  | [] -> []
  | x :: tl ->
    (match l' with
     | [] -> []
     | y :: tl' -> (x, y) :: (combine tl tl'))

(** val firstn : nat -> 'a1 list -> 'a1 list **)

let rec firstn n0 l =
  match n0 with
  | O -> []
  | S n1 -> (match l with
             | [] -> []
             | a :: l0 -> a :: (firstn n1 l0))

(** val skipn : nat -> 'a1 list -> 'a1 list **)

let rec skipn n0 l =
  match n0 with
  | O -> l
  | S n1 -> (match l with
             | [] -> []
             | _ :: l0 -> skipn n1 l0)

(** val seq : nat -> nat -> nat list **)

let rec seq start = function
| O -> []
| S len0 -> start :: (seq (S start) len0)

(** val repeat : 'a1 -> nat -> 'a1 list **)

let rec repeat x = function
| O -> []
| S k -> x :: (repeat x k)

(** val zero : char **)

let zero = '\000'

(** val one : char **)

let one = '\001'

(** val shift : bool -> char -> char **)

let shift = fun b c -> Char.chr (((Char.code c) lsl 1) land 255 + if b then 1 else 0)

(** val ascii_of_pos : positive -> char **)

let ascii_of_pos =
  let rec loop n0 p =
    match n0 with
    | O -> zero
    | S n' ->
      (match p with
       | XI p' -> shift true (loop n' p')
       | XO p' -> shift false (loop n' p')
       | XH -> one)
  in loop (S (S (S (S (S (S (S (S O))))))))

(** val ascii_of_N : n -> char **)

let ascii_of_N = function
| N0 -> zero
| Npos p -> ascii_of_pos p

(** val ascii_of_nat : nat -> char **)

let ascii_of_nat a =
  ascii_of_N (N.of_nat a)

(** val n_of_digits : bool list -> n **)

let rec n_of_digits = function
| [] -> N0
| b :: l' ->
  N.add (if b then Npos XH else N0) (N.mul (Npos (XO XH)) (n_of_digits l'))

(** val n_of_ascii : char -> n **)

let n_of_ascii a =
  (* If this appears, you're using Ascii internals. Please don't *)
 (fun f c ->
  let n = Char.code c in
  let h i = (n land (1 lsl i)) <> 0 in
  f (h 0) (h 1) (h 2) (h 3) (h 4) (h 5) (h 6) (h 7))
    (fun a0 a1 a2 a3 a4 a5 a6 a7 ->
    n_of_digits
      (a0 :: (a1 :: (a2 :: (a3 :: (a4 :: (a5 :: (a6 :: (a7 :: [])))))))))
    a

(** val nat_of_ascii : char -> nat **)

let nat_of_ascii a =
  N.to_nat (n_of_ascii a)

(** val eqb0 : char list -> char list -> bool **)

let rec eqb0 s1 s2 =
  match s1 with
  | [] -> (match s2 with
           | [] -> true
           | _::_ -> false)
  | c1::s1' ->
    (match s2 with
     | [] -> false
     | c2::s2' -> if (=) c1 c2 then eqb0 s1' s2' else false)

(** val append : char list -> char list -> char list **)

let rec append s1 s2 =
  match s1 with
  | [] -> s2
  | c::s1' -> c::(append s1' s2)

(** val length0 : char list -> nat **)

let rec length0 = function
| [] -> O
| _::s' -> S (length0 s')

type exn =
| ValueError
| IndexError
| KeyError
| AttributeError
| TypeError
| SolutionError of z option
| NonConvergenceError
| ParserError
| SymbolError
| IndentationError
| DimensionError
| DuplicateNameError
| InitialisationError
| NotImplementedError
| UnboundLocalError
| FortranEngineError
| OverflowError
| OtherError

type 'a outcome =
| Ret of 'a
| Raise of exn

(** val upd : nat -> 'a1 -> 'a1 list -> 'a1 list **)

let rec upd i x = function
| [] -> []
| a :: r -> (match i with
             | O -> x :: r
             | S i' -> a :: (upd i' x r))

module NilEmpty =
 struct
  (** val string_of_uint : uint -> char list **)

  let rec string_of_uint = function
  | Nil -> []
  | D0 d0 -> '0'::(string_of_uint d0)
  | D1 d0 -> '1'::(string_of_uint d0)
  | D2 d0 -> '2'::(string_of_uint d0)
  | D3 d0 -> '3'::(string_of_uint d0)
  | D4 d0 -> '4'::(string_of_uint d0)
  | D5 d0 -> '5'::(string_of_uint d0)
  | D6 d0 -> '6'::(string_of_uint d0)
  | D7 d0 -> '7'::(string_of_uint d0)
  | D8 d0 -> '8'::(string_of_uint d0)
  | D9 d0 -> '9'::(string_of_uint d0)
 end

module NilZero =
 struct
  (** val string_of_uint : uint -> char list **)

  let string_of_uint d = match d with
  | Nil -> '0'::[]
  | _ -> NilEmpty.string_of_uint d

  (** val string_of_int : signed_int -> char list **)

  let string_of_int = function
  | Pos d0 -> string_of_uint d0
  | Neg d0 -> '-'::(string_of_uint d0)
 end

type fl =
| FHalf of z
| FNaN
| FPInf
| FNInf

type pyval =
| PInt of z
| PFlt of fl
| PBool of bool
| PStr of char list
| PNone

type dtype =
| DFloat
| DInt
| DBool
| DStr of nat
| DObj

type dreq =
| RFloat
| RInt
| RBool
| RStr
| RSub

(** val adds_dim : dreq -> bool **)

let adds_dim = function
| RSub -> true
| _ -> false

type seqkind =
| KList
| KTuple

type operand =
| OScalar of pyval
| OSeq of seqkind * operand list
| ORange of z * z * z
| OArr of nat list * dtype * pyval list

(** val is_sequence : operand -> bool **)

let is_sequence = function
| OScalar _ -> false
| OArr (_, _, _) -> false
| _ -> true

(** val mem : char list -> char list list -> bool **)

let mem x l =
  existsb (eqb0 x) l

(** val assoc : char list -> (char list * 'a1) list -> 'a1 option **)

let rec assoc k = function
| [] -> None
| p :: r -> let (k', v) = p in if eqb0 k k' then Some v else assoc k r

(** val assoc_set :
    char list -> 'a1 -> (char list * 'a1) list -> (char list * 'a1) list **)

let rec assoc_set k v = function
| [] -> (k, v) :: []
| p :: r ->
  let (k', v') = p in
  if eqb0 k k' then (k, v) :: r else (k', v') :: (assoc_set k v r)

(** val prod_shape : nat list -> nat **)

let prod_shape sh =
  fold_right Nat.mul (S O) sh

(** val range_len : z -> z -> z -> nat **)

let range_len a b c =
  if Z.ltb Z0 c
  then Z.to_nat (Z.div (Z.sub (Z.add (Z.sub b a) c) (Zpos XH)) c)
  else if Z.ltb c Z0
       then Z.to_nat (Z.div (Z.sub (Z.sub (Z.sub a b) c) (Zpos XH)) (Z.opp c))
       else O

(** val range_list : z -> z -> z -> z list **)

let range_list a b c =
  map (fun i -> Z.add a (Z.mul c (Z.of_nat i))) (seq O (range_len a b c))

(** val all_eq_shape : nat list -> (nat list * pyval list) list -> bool **)

let all_eq_shape sh xs =
  forallb (fun x ->
    if list_eq_dec Nat.eq_dec (fst x) sh then true else false) xs

(** val stack :
    (nat list * pyval list) list -> (nat list * pyval list) outcome **)

let stack xs = match xs with
| [] -> Ret ((O :: []), [])
| p :: _ ->
  let (sh0, _) = p in
  if all_eq_shape sh0 xs
  then Ret (((length xs) :: sh0), (concat (map snd xs)))
  else Raise ValueError

(** val as_array : operand -> (nat list * pyval list) outcome **)

let rec as_array = function
| OScalar v -> Ret ([], (v :: []))
| OSeq (_, items) ->
  (match let rec go = function
         | [] -> Ret []
         | i :: r ->
           (match as_array i with
            | Ret x ->
              (match go r with
               | Ret xs -> Ret (x :: xs)
               | Raise e -> Raise e)
            | Raise e -> Raise e)
         in go items with
   | Ret xs -> stack xs
   | Raise e -> Raise e)
| ORange (a, b, c) ->
  let l = range_list a b c in
  Ret (((length l) :: []), (map (fun x -> PInt x) l))
| OArr (sh, _, cells) -> Ret (sh, cells)

(** val strip1 : nat list -> nat list **)

let rec strip1 sh = match sh with
| [] -> sh
| n0 :: r ->
  (match n0 with
   | O -> sh
   | S n1 ->
     (match n1 with
      | O -> (match r with
              | [] -> sh
              | _ :: _ -> strip1 r)
      | S _ -> sh))

(** val bcast_arr : nat -> nat list -> pyval list -> pyval list option **)

let bcast_arr k sh cells =
  match strip1 sh with
  | [] ->
    (match cells with
     | [] -> None
     | c :: l -> (match l with
                  | [] -> Some (repeat c k)
                  | _ :: _ -> None))
  | d :: l ->
    (match l with
     | [] ->
       if Nat.eqb d k
       then Some cells
       else if Nat.eqb d (S O)
            then (match cells with
                  | [] -> None
                  | c :: l0 ->
                    (match l0 with
                     | [] -> Some (repeat c k)
                     | _ :: _ -> None))
            else None
     | _ :: _ -> None)

(** val bcast_seq : nat -> nat list -> pyval list -> pyval list option **)

let bcast_seq k sh cells =
  match sh with
  | [] -> None
  | d :: l ->
    (match l with
     | [] ->
       if Nat.eqb d k
       then Some cells
       else if Nat.eqb d (S O)
            then (match cells with
                  | [] -> None
                  | c :: l0 ->
                    (match l0 with
                     | [] -> Some (repeat c k)
                     | _ :: _ -> None))
            else None
     | _ :: _ -> None)

type var = { vdtype : dtype; vshape : nat list; vdata : pyval list }

type regent = char list
  (* singleton inductive, whose constructor was RName *)

(** val reg_mem : char list -> regent list -> bool **)

let reg_mem x r =
  existsb (fun e -> eqb0 x e) r

(** val reg_names : regent list -> char list list **)

let reg_names r =
  map (fun e -> e) r

type ckind =
| CVC
| CModel
| CLinker of nat

type state = { span : z list; index : char list list;
               vars : (char list * var) list; registry : regent list;
               adict : (char list * operand) list; strict : bool;
               kind : ckind; names : char list list; dflt : dreq option }

(** val set_vars : state -> (char list * var) list -> state **)

let set_vars s v =
  { span = s.span; index = s.index; vars = v; registry = s.registry; adict =
    s.adict; strict = s.strict; kind = s.kind; names = s.names; dflt =
    s.dflt }

(** val set_index_vars :
    state -> char list list -> (char list * var) list -> state **)

let set_index_vars s i v =
  { span = s.span; index = i; vars = v; registry = s.registry; adict =
    s.adict; strict = s.strict; kind = s.kind; names = s.names; dflt =
    s.dflt }

(** val set_registry : state -> regent list -> state **)

let set_registry s r =
  { span = s.span; index = s.index; vars = s.vars; registry = r; adict =
    s.adict; strict = s.strict; kind = s.kind; names = s.names; dflt =
    s.dflt }

(** val set_adict : state -> (char list * operand) list -> state **)

let set_adict s a =
  { span = s.span; index = s.index; vars = s.vars; registry = s.registry;
    adict = a; strict = s.strict; kind = s.kind; names = s.names; dflt =
    s.dflt }

(** val set_strict : state -> bool -> state **)

let set_strict s b =
  { span = s.span; index = s.index; vars = s.vars; registry = s.registry;
    adict = s.adict; strict = b; kind = s.kind; names = s.names; dflt =
    s.dflt }

(** val set_kind : state -> ckind -> state **)

let set_kind s k =
  { span = s.span; index = s.index; vars = s.vars; registry = s.registry;
    adict = s.adict; strict = s.strict; kind = k; names = s.names; dflt =
    s.dflt }

(** val set_names : state -> char list list -> state **)

let set_names s n0 =
  { span = s.span; index = s.index; vars = s.vars; registry = s.registry;
    adict = s.adict; strict = s.strict; kind = s.kind; names = n0; dflt =
    s.dflt }

(** val set_span : state -> z list -> state **)

let set_span s sp =
  { span = sp; index = s.index; vars = s.vars; registry = s.registry; adict =
    s.adict; strict = s.strict; kind = s.kind; names = s.names; dflt =
    s.dflt }

(** val set_index : state -> char list list -> state **)

let set_index s i =
  { span = s.span; index = i; vars = s.vars; registry = s.registry; adict =
    s.adict; strict = s.strict; kind = s.kind; names = s.names; dflt =
    s.dflt }

(** val set_dflt : state -> dreq option -> state **)

let set_dflt s d =
  { span = s.span; index = s.index; vars = s.vars; registry = s.registry;
    adict = s.adict; strict = s.strict; kind = s.kind; names = s.names;
    dflt = d }

(** val underscored : char list -> bool **)

let underscored = function
| [] -> false
| c::_ -> (=) c '_'

(** val bookkeeping : ckind -> char list -> bool **)

let bookkeeping k name =
  (||)
    ((||)
      ((||)
        ((||) (eqb0 name ('s'::('p'::('a'::('n'::[])))))
          (eqb0 name ('i'::('n'::('d'::('e'::('x'::[])))))))
        (underscored name))
      (match k with
       | CVC -> false
       | _ ->
         (||) (eqb0 name ('n'::('a'::('m'::('e'::('s'::[]))))))
           (eqb0 name ('d'::('t'::('y'::('p'::('e'::[]))))))))
    (match k with
     | CLinker _ ->
       (||)
         (eqb0 name
           ('s'::('u'::('b'::('m'::('o'::('d'::('e'::('l'::('s'::[]))))))))))
         (eqb0 name ('n'::('a'::('m'::('e'::[])))))
     | _ -> false)

(** val as_int_list : operand -> z list option **)

let as_int_list = function
| OSeq (_, items) ->
  fold_right (fun i acc ->
    match i with
    | OScalar v ->
      (match v with
       | PInt z0 -> (match acc with
                     | Some l -> Some (z0 :: l)
                     | None -> None)
       | _ -> None)
    | _ -> None) (Some []) items
| ORange (a, b, c) -> Some (range_list a b c)
| _ -> None

(** val as_str_list : operand -> char list list option **)

let as_str_list = function
| OSeq (_, items) ->
  fold_right (fun i acc ->
    match i with
    | OScalar v ->
      (match v with
       | PStr x -> (match acc with
                    | Some l -> Some (x :: l)
                    | None -> None)
       | _ -> None)
    | _ -> None) (Some []) items
| _ -> None

(** val as_dreq : operand -> dreq option **)

let as_dreq = function
| OScalar v ->
  (match v with
   | PStr x ->
     if eqb0 x ('f'::('l'::('o'::('a'::('t'::[])))))
     then Some RFloat
     else if eqb0 x ('i'::('n'::('t'::[])))
          then Some RInt
          else if eqb0 x ('b'::('o'::('o'::('l'::[]))))
               then Some RBool
               else if eqb0 x ('s'::('t'::('r'::[])))
                    then Some RStr
                    else if eqb0 x ('2'::('f'::('8'::[])))
                         then Some RSub
                         else None
   | _ -> None)
| _ -> None

(** val tail_of : char list -> char list **)

let tail_of = function
| [] -> []
| _::r -> r

type res = state * unit outcome

(** val ok : state -> res **)

let ok s =
  (s, (Ret ()))

(** val err : state -> exn -> res **)

let err s e =
  (s, (Raise e))

type key =
| KName of char list
| KLabel of char list * z
| KSlice of char list * z option * z option * z option
| KTuple3
| KOther

type query =
| QCompletions
| QDir
| QContains of char list
| QNbytes

type qval =
| VNames of char list list
| VBool of bool
| VNat of nat

type op =
| AddVariable of char list * operand * dreq option
| SetAttr of char list * operand * char list option
| SetItem of key * operand
| ReplaceValues of (char list * operand) list
| AddAttribute of char list * operand
| Query of query

(** val find_pos : z -> z list -> nat option **)

let rec find_pos l = function
| [] -> None
| x :: r ->
  if Z.eqb x l
  then Some O
  else (match find_pos l r with
        | Some p -> Some (S p)
        | None -> None)

(** val locate : z list -> z -> nat outcome **)

let locate sp l =
  match find_pos l sp with
  | Some p -> Ret p
  | None -> Raise KeyError

(** val resolve_slice :
    z list -> z option -> z option -> z option -> ((nat * nat) * z) outcome **)

let resolve_slice sp a b st =
  match a with
  | Some x ->
    (match b with
     | Some x0 ->
       let step0 = match st with
                   | Some x1 -> x1
                   | None -> Zpos XH in
       (match locate sp x with
        | Ret sl ->
          (match locate sp x0 with
           | Ret el -> Ret ((sl, (S el)), step0)
           | Raise e -> Raise e)
        | Raise e -> Raise e)
     | None ->
       (match sp with
        | [] -> let e = IndexError in Raise e
        | _ :: _ ->
          let b' = last sp Z0 in
          let step0 = match st with
                      | Some x0 -> x0
                      | None -> Zpos XH in
          (match locate sp x with
           | Ret sl ->
             (match locate sp b' with
              | Ret el -> Ret ((sl, (S el)), step0)
              | Raise e -> Raise e)
           | Raise e -> Raise e)))
  | None ->
    (match sp with
     | [] -> let e = IndexError in Raise e
     | x :: _ ->
       (match b with
        | Some x0 ->
          let step0 = match st with
                      | Some x1 -> x1
                      | None -> Zpos XH in
          (match locate sp x with
           | Ret sl ->
             (match locate sp x0 with
              | Ret el -> Ret ((sl, (S el)), step0)
              | Raise e -> Raise e)
           | Raise e -> Raise e)
        | None ->
          (match sp with
           | [] -> let e = IndexError in Raise e
           | _ :: _ ->
             let b' = last sp Z0 in
             let step0 = match st with
                         | Some x0 -> x0
                         | None -> Zpos XH in
             (match locate sp x with
              | Ret sl ->
                (match locate sp b' with
                 | Ret el -> Ret ((sl, (S el)), step0)
                 | Raise e -> Raise e)
              | Raise e -> Raise e))))

(** val count_up : nat -> nat -> nat -> nat -> nat list **)

let rec count_up fuel a step0 stop =
  match fuel with
  | O -> []
  | S f ->
    if Nat.ltb a stop then a :: (count_up f (add a step0) step0 stop) else []

(** val count_down : nat -> z -> z -> z -> nat list **)

let rec count_down fuel a step0 stop =
  match fuel with
  | O -> []
  | S f ->
    if Z.ltb stop a
    then (Z.to_nat a) :: (count_down f (Z.add a step0) step0 stop)
    else []

(** val slice_positions : nat -> nat -> nat -> z -> nat list option **)

let slice_positions n0 sl el step0 =
  if Z.eqb step0 Z0
  then None
  else if Z.ltb Z0 step0
       then Some
              (count_up n0 (Nat.min sl n0) (Z.to_nat step0) (Nat.min el n0))
       else if Nat.eqb n0 O
            then Some []
            else Some
                   (count_down n0 (Z.of_nat (Nat.min sl (sub n0 (S O))))
                     step0 (Z.of_nat (Nat.min el (sub n0 (S O)))))

(** val lower_ascii : char -> char **)

let lower_ascii c =
  let n0 = nat_of_ascii c in
  if (&&)
       (Nat.leb (S (S (S (S (S (S (S (S (S (S (S (S (S (S (S (S (S (S (S (S
         (S (S (S (S (S (S (S (S (S (S (S (S (S (S (S (S (S (S (S (S (S (S (S
         (S (S (S (S (S (S (S (S (S (S (S (S (S (S (S (S (S (S (S (S (S (S
         O)))))))))))))))))))))))))))))))))))))))))))))))))))))))))))))))))
         n0)
       (Nat.leb n0 (S (S (S (S (S (S (S (S (S (S (S (S (S (S (S (S (S (S (S
         (S (S (S (S (S (S (S (S (S (S (S (S (S (S (S (S (S (S (S (S (S (S (S
         (S (S (S (S (S (S (S (S (S (S (S (S (S (S (S (S (S (S (S (S (S (S (S
         (S (S (S (S (S (S (S (S (S (S (S (S (S (S (S (S (S (S (S (S (S (S (S
         (S (S
         O)))))))))))))))))))))))))))))))))))))))))))))))))))))))))))))))))))))))))))))))))))))))))))
  then ascii_of_nat
         (add n0 (S (S (S (S (S (S (S (S (S (S (S (S (S (S (S (S (S (S (S (S
           (S (S (S (S (S (S (S (S (S (S (S (S
           O)))))))))))))))))))))))))))))))))
  else c

(** val lower : char list -> char list **)

let rec lower = function
| [] -> []
| c::r -> (lower_ascii c)::(lower r)

(** val truthy_val : pyval -> bool **)

let truthy_val = function
| PInt z0 -> negb (Z.eqb z0 Z0)
| PFlt f -> (match f with
             | FHalf z0 -> negb (Z.eqb z0 Z0)
             | _ -> true)
| PBool b -> b
| PStr s -> negb (eqb0 s [])
| PNone -> false

(** val truthy : operand -> bool outcome **)

let truthy = function
| OScalar v -> Ret (truthy_val v)
| OSeq (_, items) -> Ret (match items with
                          | [] -> false
                          | _ :: _ -> true)
| ORange (a, b, c) -> Ret (negb (Nat.eqb (range_len a b c) O))
| OArr (_, _, cells) ->
  (match cells with
   | [] -> Raise ValueError
   | c :: l ->
     (match l with
      | [] -> Ret (truthy_val c)
      | _ :: _ -> Raise ValueError))

(** val cast_all :
    (pyval -> pyval outcome) -> pyval list -> pyval list outcome **)

let rec cast_all cast = function
| [] -> Ret []
| c :: r ->
  (match cast c with
   | Ret c' ->
     (match cast_all cast r with
      | Ret r' -> Ret (c' :: r')
      | Raise e -> Raise e)
   | Raise e -> Raise e)

(** val write_cells :
    (pyval -> pyval outcome) -> nat list -> pyval list -> pyval list -> pyval
    list * exn option **)

let rec write_cells cast ps cs data =
  match ps with
  | [] -> (data, None)
  | p :: ps' ->
    (match cs with
     | [] -> (data, None)
     | c :: cs' ->
       (match cast c with
        | Ret c' -> write_cells cast ps' cs' (upd p c' data)
        | Raise e -> (data, (Some e))))

(** val with_data : var -> pyval list -> var **)

let with_data v d =
  { vdtype = v.vdtype; vshape = v.vshape; vdata = d }

(** val natural :
    (dtype -> pyval -> pyval outcome) -> (pyval list -> dtype) -> operand ->
    ((dtype * nat list) * pyval list) outcome **)

let natural pycast infer value =
  match as_array value with
  | Ret a ->
    let (sh, cells) = a in
    (match value with
     | OArr (_, dt, _) -> Ret ((dt, sh), cells)
     | _ ->
       let d = infer cells in
       (match cast_all (pycast d) cells with
        | Ret cs -> Ret ((d, sh), cs)
        | Raise e -> Raise e))
  | Raise e -> Raise e

(** val commit : var -> (pyval list * exn option) -> var * exn option **)

let commit v r =
  match snd r with
  | Some e -> (v, (Some e))
  | None -> ((with_data v (fst r)), None)

(** val assign_inplace :
    (dtype -> pyval -> pyval outcome) -> (dtype -> dtype -> pyval -> pyval
    outcome) -> var -> nat list -> operand -> var * exn option **)

let assign_inplace pycast arrcast v ps value =
  let k = length ps in
  (match value with
   | OScalar c ->
     (match pycast v.vdtype c with
      | Ret c' ->
        ((with_data v
           (fst (write_cells (fun x -> Ret x) ps (repeat c' k) v.vdata))),
          None)
      | Raise e -> (v, (Some e)))
   | OSeq (_, _) ->
     (match as_array value with
      | Ret a ->
        let (sh, cells) = a in
        if list_eq_dec Nat.eq_dec sh (k :: [])
        then commit v (write_cells (pycast v.vdtype) ps cells v.vdata)
        else if negb (Nat.eqb (length sh) (S O))
             then (v, (Some ValueError))
             else (match cast_all (pycast v.vdtype) cells with
                   | Ret cells' ->
                     (match bcast_seq k sh cells' with
                      | Some cs ->
                        ((with_data v
                           (fst (write_cells (fun x -> Ret x) ps cs v.vdata))),
                          None)
                      | None -> (v, (Some ValueError)))
                   | Raise e -> (v, (Some e)))
      | Raise e -> (v, (Some e)))
   | ORange (_, _, _) ->
     (match as_array value with
      | Ret a ->
        let (sh, cells) = a in
        if list_eq_dec Nat.eq_dec sh (k :: [])
        then commit v (write_cells (pycast v.vdtype) ps cells v.vdata)
        else if negb (Nat.eqb (length sh) (S O))
             then (v, (Some ValueError))
             else (match cast_all (pycast v.vdtype) cells with
                   | Ret cells' ->
                     (match bcast_seq k sh cells' with
                      | Some cs ->
                        ((with_data v
                           (fst (write_cells (fun x -> Ret x) ps cs v.vdata))),
                          None)
                      | None -> (v, (Some ValueError)))
                   | Raise e -> (v, (Some e)))
      | Raise e -> (v, (Some e)))
   | OArr (sh, dt, cells) ->
     (match bcast_arr k sh cells with
      | Some cs -> commit v (write_cells (arrcast dt v.vdtype) ps cs v.vdata)
      | None -> (v, (Some ValueError))))

(** val assign_item :
    (dtype -> pyval -> pyval outcome) -> (dtype -> dtype -> pyval -> pyval
    outcome) -> (dtype -> exn) -> var -> nat -> operand -> var * exn option **)

let assign_item pycast arrcast itemseq_exn v p value = match value with
| OScalar c ->
  (match pycast v.vdtype c with
   | Ret c' -> ((with_data v (upd p c' v.vdata)), None)
   | Raise e -> (v, (Some e)))
| OArr (sh, dt, cells) ->
  (match sh with
   | [] ->
     (match cells with
      | [] ->
        (match v.vdtype with
         | DBool ->
           (match truthy value with
            | Ret b -> ((with_data v (upd p (PBool b) v.vdata)), None)
            | Raise e -> (v, (Some e)))
         | _ -> (v, (Some ValueError)))
      | c :: l ->
        (match l with
         | [] ->
           (match arrcast dt v.vdtype c with
            | Ret c' -> ((with_data v (upd p c' v.vdata)), None)
            | Raise e -> (v, (Some e)))
         | _ :: _ ->
           (match v.vdtype with
            | DBool ->
              (match truthy value with
               | Ret b -> ((with_data v (upd p (PBool b) v.vdata)), None)
               | Raise e -> (v, (Some e)))
            | _ -> (v, (Some ValueError)))))
   | _ :: _ ->
     (match v.vdtype with
      | DBool ->
        (match truthy value with
         | Ret b -> ((with_data v (upd p (PBool b) v.vdata)), None)
         | Raise e -> (v, (Some e)))
      | _ -> (v, (Some ValueError))))
| _ ->
  (match v.vdtype with
   | DBool ->
     (match truthy value with
      | Ret b -> ((with_data v (upd p (PBool b) v.vdata)), None)
      | Raise e -> (v, (Some e)))
   | x -> (v, (Some (itemseq_exn x))))

(** val n_of : state -> nat **)

let n_of s =
  length s.span

(** val setattr_var :
    (dtype -> pyval -> pyval outcome) -> (dtype -> dtype -> pyval -> pyval
    outcome) -> char list -> operand -> state -> res **)

let setattr_var pycast arrcast name value s =
  match assoc name s.vars with
  | Some v ->
    if is_sequence value
    then (match as_array value with
          | Ret a ->
            let (sh, cells) = a in
            (match cast_all (pycast v.vdtype) cells with
             | Ret cells' ->
               if (||) (negb (Nat.eqb (length sh) (S O)))
                    (negb (Nat.eqb (hd O sh) (n_of s)))
               then err s DimensionError
               else ok
                      (set_vars s
                        (assoc_set name { vdtype = v.vdtype; vshape = sh;
                          vdata = cells' } s.vars))
             | Raise e -> err s e)
          | Raise e -> err s e)
    else (match v.vshape with
          | [] -> err s OtherError
          | m :: l ->
            (match l with
             | [] ->
               let (v', e) = assign_inplace pycast arrcast v (seq O m) value
               in
               ((set_vars s (assoc_set name v' s.vars)),
               (match e with
                | Some x -> Raise x
                | None -> Ret ()))
             | _ :: _ -> err s OtherError))
  | None -> err s KeyError

(** val row_names : state -> char list list **)

let row_names s =
  match s.kind with
  | CVC -> s.index
  | _ -> s.names

(** val rows :
    char list list -> (char list * var) list -> var list outcome **)

let rec rows nms vs =
  match nms with
  | [] -> Ret []
  | x :: r ->
    (match assoc x vs with
     | Some v ->
       (match rows r vs with
        | Ret l -> Ret (v :: l)
        | Raise e -> Raise e)
     | None -> Raise AttributeError)

(** val values_shape : state -> nat list outcome **)

let values_shape s =
  match rows (row_names s) s.vars with
  | Ret a ->
    (match a with
     | [] -> Ret (O :: [])
     | v0 :: r ->
       if forallb (fun v ->
            if list_eq_dec Nat.eq_dec v.vshape v0.vshape then true else false)
            r
       then Ret ((S (length r)) :: v0.vshape)
       else Raise ValueError)
  | Raise e -> Raise e

(** val size_of : state -> nat **)

let size_of s =
  match s.kind with
  | CVC -> mul (length s.index) (n_of s)
  | CModel -> mul (length s.names) (n_of s)
  | CLinker extra -> add (mul (length s.names) (n_of s)) extra

(** val chunks : nat -> nat -> pyval list -> pyval list list **)

let rec chunks m cnt cells =
  match cnt with
  | O -> []
  | S c -> (firstn m cells) :: (chunks m c (skipn m cells))

(** val set_rows_arr :
    (dtype -> pyval -> pyval outcome) -> (dtype -> dtype -> pyval -> pyval
    outcome) -> dtype -> char list list -> pyval list list -> state -> res **)

let rec set_rows_arr pycast arrcast src nms rws s =
  match nms with
  | [] -> ok s
  | x :: nr ->
    (match rws with
     | [] -> ok s
     | r :: rr ->
       (match assoc x s.vars with
        | Some v ->
          (match cast_all (arrcast src v.vdtype) r with
           | Ret r' ->
             let (s', o) =
               setattr_var pycast arrcast x (OArr (((length r') :: []),
                 v.vdtype, r')) s
             in
             (match o with
              | Ret _ -> set_rows_arr pycast arrcast src nr rr s'
              | Raise e -> (s', (Raise e)))
           | Raise e -> err s e)
        | None -> err s AttributeError))

(** val set_rows_full :
    (dtype -> pyval -> pyval outcome) -> (dtype -> dtype -> pyval -> pyval
    outcome) -> (pyval list -> dtype) -> char list list -> operand -> state
    -> res **)

let rec set_rows_full pycast arrcast infer nms value s =
  match nms with
  | [] -> ok s
  | x :: nr ->
    (match assoc x s.vars with
     | Some v ->
       (match natural pycast infer value with
        | Ret a ->
          let (p, cells) = a in
          let (src, sh) = p in
          (match bcast_arr (prod_shape v.vshape) sh cells with
           | Some cs ->
             (match cast_all (arrcast src v.vdtype) cs with
              | Ret cs' ->
                let (s', o) =
                  setattr_var pycast arrcast x (OArr (v.vshape, v.vdtype,
                    cs')) s
                in
                (match o with
                 | Ret _ -> set_rows_full pycast arrcast infer nr value s'
                 | Raise e -> (s', (Raise e)))
              | Raise e -> err s e)
           | None -> err s ValueError)
        | Raise e -> err s e)
     | None -> err s AttributeError)

(** val values_setter :
    (dtype -> pyval -> pyval outcome) -> (dtype -> dtype -> pyval -> pyval
    outcome) -> (pyval list -> dtype) -> operand -> state -> res **)

let values_setter pycast arrcast infer value s =
  match value with
  | OArr (sh, dt, cells) ->
    (match values_shape s with
     | Ret vsh ->
       if list_eq_dec Nat.eq_dec sh vsh
       then (match sh with
             | [] -> err s OtherError
             | r :: l ->
               (match l with
                | [] -> ok s
                | m :: l0 ->
                  (match l0 with
                   | [] ->
                     set_rows_arr pycast arrcast dt (row_names s)
                       (chunks m r cells) s
                   | _ :: _ -> err s OtherError)))
       else err s DimensionError
     | Raise e -> err s e)
  | _ -> set_rows_full pycast arrcast infer (row_names s) value s

(** val book_setattr : char list -> operand -> state -> res **)

let book_setattr name value s =
  if eqb0 name ('s'::('p'::('a'::('n'::[]))))
  then (match as_int_list value with
        | Some l -> ok (set_span s l)
        | None -> err s OtherError)
  else if eqb0 name ('i'::('n'::('d'::('e'::('x'::[])))))
       then (match as_str_list value with
             | Some l -> ok (set_index s l)
             | None -> err s OtherError)
       else if eqb0 name ('n'::('a'::('m'::('e'::('s'::[])))))
            then (match as_str_list value with
                  | Some l ->
                    ok
                      (set_adict (set_names s l)
                        (assoc_set name value s.adict))
                  | None -> err s OtherError)
            else if eqb0 name ('d'::('t'::('y'::('p'::('e'::[])))))
                 then (match as_dreq value with
                       | Some d ->
                         ok
                           (set_adict (set_dflt s (Some d))
                             (assoc_set name value s.adict))
                       | None -> err s OtherError)
                 else if eqb0 name
                           ('s'::('u'::('b'::('m'::('o'::('d'::('e'::('l'::('s'::[])))))))))
                      then (match value with
                            | OSeq (_, items) ->
                              (match items with
                               | [] ->
                                 (match s.kind with
                                  | CLinker _ -> ok (set_kind s (CLinker O))
                                  | _ -> err s OtherError)
                               | _ :: _ -> err s OtherError)
                            | _ -> err s OtherError)
                      else if eqb0 name ('n'::('a'::('m'::('e'::[]))))
                           then err s OtherError
                           else if (||)
                                     (eqb0 name
                                       ('_'::('a'::('t'::('t'::('r'::('i'::('b'::('u'::('t'::('e'::('s'::[]))))))))))))
                                     (eqb0 name
                                       ('_'::('s'::('t'::('r'::('i'::('c'::('t'::[]))))))))
                                then err s OtherError
                                else (match assoc (tail_of name) s.vars with
                                      | Some _ ->
                                        (match value with
                                         | OArr (sh, dt, cells) ->
                                           ok
                                             (set_vars s
                                               (assoc_set (tail_of name)
                                                 { vdtype = dt; vshape = sh;
                                                 vdata = cells } s.vars))
                                         | _ -> err s OtherError)
                                      | None ->
                                        ok
                                          (set_adict s
                                            (assoc_set name value s.adict)))

(** val obj_setattr :
    (dtype -> pyval -> pyval outcome) -> (dtype -> dtype -> pyval -> pyval
    outcome) -> (pyval list -> dtype) -> char list -> operand -> state -> res **)

let obj_setattr pycast arrcast infer name value s =
  if bookkeeping s.kind name
  then book_setattr name value s
  else if eqb0 name ('s'::('t'::('r'::('i'::('c'::('t'::[]))))))
       then (match truthy value with
             | Ret b -> ok (set_strict s b)
             | Raise e -> err s e)
       else if eqb0 name ('v'::('a'::('l'::('u'::('e'::('s'::[]))))))
            then values_setter pycast arrcast infer value s
            else if (||) (eqb0 name ('s'::('i'::('z'::('e'::[])))))
                      (eqb0 name ('n'::('b'::('y'::('t'::('e'::('s'::[])))))))
                 then err s AttributeError
                 else if match s.kind with
                         | CLinker _ ->
                           (||)
                             ((||)
                               (eqb0 name
                                 ('s'::('i'::('z'::('e'::('s'::[]))))))
                               (eqb0 name ('L'::('A'::('G'::('S'::[]))))))
                             (eqb0 name ('L'::('E'::('A'::('D'::('S'::[]))))))
                         | _ -> false
                      then err s AttributeError
                      else ok (set_adict s (assoc_set name value s.adict))

(** val add_attribute :
    (dtype -> pyval -> pyval outcome) -> (dtype -> dtype -> pyval -> pyval
    outcome) -> (pyval list -> dtype) -> char list -> operand -> state -> res **)

let add_attribute pycast arrcast infer name value s =
  if mem name s.index
  then err s DuplicateNameError
  else if reg_mem name s.registry
       then err s DuplicateNameError
       else let (s', o) = obj_setattr pycast arrcast infer name value s in
            (match o with
             | Ret _ -> ok (set_registry s' (app s'.registry (name :: [])))
             | Raise e -> (s', (Raise e)))

(** val alternatives :
    char list option -> char list list -> char list list **)

let alternatives hint cands =
  match hint with
  | Some h -> filter (fun x -> eqb0 (lower x) h) cands
  | None -> []

(** val is_property : ckind -> char list -> bool **)

let is_property k name =
  (||)
    ((||)
      ((||)
        ((||) (eqb0 name ('s'::('t'::('r'::('i'::('c'::('t'::[])))))))
          (eqb0 name ('v'::('a'::('l'::('u'::('e'::('s'::[]))))))))
        (eqb0 name ('s'::('i'::('z'::('e'::[]))))))
      (eqb0 name ('n'::('b'::('y'::('t'::('e'::('s'::[]))))))))
    (match k with
     | CLinker _ ->
       (||)
         ((||) (eqb0 name ('s'::('i'::('z'::('e'::('s'::[]))))))
           (eqb0 name ('L'::('A'::('G'::('S'::[]))))))
         (eqb0 name ('L'::('E'::('A'::('D'::('S'::[]))))))
     | _ -> false)

(** val setattr :
    (dtype -> pyval -> pyval outcome) -> (dtype -> dtype -> pyval -> pyval
    outcome) -> (pyval list -> dtype) -> char list -> operand -> char list
    option -> state -> res **)

let setattr pycast arrcast infer name value hint s =
  if (&&)
       ((&&) ((&&) (negb (is_property s.kind name)) s.strict)
         (negb (mem name s.index))) (negb (reg_mem name s.registry))
  then (match alternatives hint (row_names s) with
        | [] -> err s AttributeError
        | _ :: l ->
          (match l with
           | [] -> err s AttributeError
           | _ :: _ -> err s NotImplementedError))
  else if negb (mem name s.index)
       then if reg_mem name s.registry
            then obj_setattr pycast arrcast infer name value s
            else add_attribute pycast arrcast infer name value s
       else setattr_var pycast arrcast name value s

(** val setitem :
    (dtype -> pyval -> pyval outcome) -> (dtype -> dtype -> pyval -> pyval
    outcome) -> (pyval list -> dtype) -> (dtype -> exn) -> key -> operand ->
    state -> res **)

let setitem pycast arrcast infer itemseq_exn k value s =
  match k with
  | KName name ->
    if negb (mem name s.index)
    then err s KeyError
    else setattr pycast arrcast infer name value None s
  | KLabel (name, l) ->
    if negb (mem name s.index)
    then err s KeyError
    else (match locate s.span l with
          | Ret p ->
            (match assoc name s.vars with
             | Some v ->
               let (v', e) = assign_item pycast arrcast itemseq_exn v p value
               in
               ((set_vars s (assoc_set name v' s.vars)),
               (match e with
                | Some x -> Raise x
                | None -> Ret ()))
             | None -> err s KeyError)
          | Raise e -> err s e)
  | KSlice (name, a, b, st) ->
    if negb (mem name s.index)
    then err s KeyError
    else (match resolve_slice s.span a b st with
          | Ret a0 ->
            let (p, step0) = a0 in
            let (sl, el) = p in
            (match assoc name s.vars with
             | Some v ->
               (match v.vshape with
                | [] -> err s OtherError
                | m :: l ->
                  (match l with
                   | [] ->
                     (match slice_positions m sl el step0 with
                      | Some ps ->
                        let (v', e) = assign_inplace pycast arrcast v ps value
                        in
                        ((set_vars s (assoc_set name v' s.vars)),
                        (match e with
                         | Some x -> Raise x
                         | None -> Ret ()))
                      | None -> err s ValueError)
                   | _ :: _ -> err s OtherError))
             | None -> err s KeyError)
          | Raise e -> err s e)
  | KTuple3 -> err s IndexError
  | KOther -> err s TypeError

(** val replace_values :
    (dtype -> pyval -> pyval outcome) -> (dtype -> dtype -> pyval -> pyval
    outcome) -> (pyval list -> dtype) -> (dtype -> exn) ->
    (char list * operand) list -> state -> res **)

let rec replace_values pycast arrcast infer itemseq_exn kvs s =
  match kvs with
  | [] -> ok s
  | p :: r ->
    let (k, v) = p in
    let (s', o) = setitem pycast arrcast infer itemseq_exn (KName k) v s in
    (match o with
     | Ret _ -> replace_values pycast arrcast infer itemseq_exn r s'
     | Raise e -> (s', (Raise e)))

(** val storage_taken : char list -> state -> bool **)

let storage_taken name s =
  (||)
    ((||)
      ((||)
        ((||)
          (eqb0 name
            ('a'::('t'::('t'::('r'::('i'::('b'::('u'::('t'::('e'::('s'::[])))))))))))
          (eqb0 name ('s'::('t'::('r'::('i'::('c'::('t'::[]))))))))
        (match s.kind with
         | CLinker _ ->
           (||) (eqb0 name ('L'::('A'::('G'::('S'::[])))))
             (eqb0 name ('L'::('E'::('A'::('D'::('S'::[]))))))
         | _ -> false))
      (match assoc name s.vars with
       | Some _ -> true
       | None -> false))
    (match assoc ('_'::name) s.adict with
     | Some _ -> true
     | None -> false)

(** val base_add_variable :
    (dtype -> pyval -> pyval outcome) -> (dtype -> dtype -> pyval -> pyval
    outcome) -> (pyval list -> dtype) -> (dtype -> pyval list -> dreq ->
    dtype) -> char list -> operand -> dreq option -> state -> res **)

let base_add_variable pycast arrcast infer astype_dt name value dt s =
  if mem name s.index
  then err s DuplicateNameError
  else if storage_taken name s
       then err s DuplicateNameError
       else let n0 = n_of s in
            if is_sequence value
            then (match natural pycast infer value with
                  | Ret a ->
                    let (p, cells) = a in
                    let (d, sh) = p in
                    let a0 = ((d, (prod_shape sh)), cells) in
                    let (p0, cells0) = a0 in
                    let (d0, m0) = p0 in
                    (match match dt with
                           | Some r ->
                             let d1 = astype_dt d0 cells0 r in
                             (match cast_all (arrcast d0 d1) cells0 with
                              | Ret cs ->
                                if adds_dim r
                                then Raise DimensionError
                                else Ret (d1, cs)
                              | Raise e -> Raise e)
                           | None -> Ret (d0, cells0) with
                     | Ret a1 ->
                       let (d1, cells1) = a1 in
                       if negb (Nat.eqb m0 n0)
                       then err s DimensionError
                       else ok
                              (set_index_vars s (app s.index (name :: []))
                                (assoc_set name { vdtype = d1; vshape =
                                  (m0 :: []); vdata = cells1 } s.vars))
                     | Raise e -> err s e)
                  | Raise e -> err s e)
            else (match natural pycast infer value with
                  | Ret a ->
                    let (p, cells) = a in
                    let (d, sh) = p in
                    (match bcast_arr n0 sh cells with
                     | Some cs ->
                       let a0 = ((d, n0), cs) in
                       let (p0, cells0) = a0 in
                       let (d0, m0) = p0 in
                       (match match dt with
                              | Some r ->
                                let d1 = astype_dt d0 cells0 r in
                                (match cast_all (arrcast d0 d1) cells0 with
                                 | Ret cs0 ->
                                   if adds_dim r
                                   then Raise DimensionError
                                   else Ret (d1, cs0)
                                 | Raise e -> Raise e)
                              | None -> Ret (d0, cells0) with
                        | Ret a1 ->
                          let (d1, cells1) = a1 in
                          if negb (Nat.eqb m0 n0)
                          then err s DimensionError
                          else ok
                                 (set_index_vars s (app s.index (name :: []))
                                   (assoc_set name { vdtype = d1; vshape =
                                     (m0 :: []); vdata = cells1 } s.vars))
                        | Raise e -> err s e)
                     | None -> let e = ValueError in err s e)
                  | Raise e -> err s e)

(** val add_variable :
    (dtype -> pyval -> pyval outcome) -> (dtype -> dtype -> pyval -> pyval
    outcome) -> (pyval list -> dtype) -> (dtype -> pyval list -> dreq ->
    dtype) -> char list -> operand -> dreq option -> state -> res **)

let add_variable pycast arrcast infer astype_dt name value dt s =
  match s.kind with
  | CVC -> base_add_variable pycast arrcast infer astype_dt name value dt s
  | _ ->
    let dt' = match dt with
              | Some _ -> dt
              | None -> s.dflt in
    let (s', o) =
      base_add_variable pycast arrcast infer astype_dt name value dt' s
    in
    (match o with
     | Ret _ -> ok (set_names s' (app s'.names (name :: [])))
     | Raise e -> (s', (Raise e)))

(** val itemsize : dtype -> nat **)

let itemsize = function
| DBool -> S O
| DStr k -> mul (S (S (S (S O)))) k
| _ -> S (S (S (S (S (S (S (S O)))))))

(** val nbytes_of : (char list -> char list) -> state -> nat outcome **)

let nbytes_of rn s =
  fold_right (fun x acc ->
    match acc with
    | Ret a ->
      (match assoc (rn x) s.vars with
       | Some v ->
         if mem (rn x) s.index
         then Ret (add (mul (prod_shape v.vshape) (itemsize v.vdtype)) a)
         else Raise KeyError
       | None -> Raise KeyError)
    | Raise e -> Raise e) (Ret O) s.index

(** val read : query -> state -> state * qval outcome **)

let read q s =
  match q with
  | QCompletions -> (s, (Ret (VNames s.index)))
  | QDir -> (s, (Ret (VNames (app s.index (reg_names s.registry)))))
  | QContains n0 -> (s, (Ret (VBool (mem n0 (row_names s)))))
  | QNbytes ->
    (s,
      (match nbytes_of (fun x -> x) s with
       | Ret n0 -> Ret (VNat n0)
       | Raise e -> Raise e))

(** val step :
    (dtype -> pyval -> pyval outcome) -> (dtype -> dtype -> pyval -> pyval
    outcome) -> (pyval list -> dtype) -> (dtype -> pyval list -> dreq ->
    dtype) -> (dtype -> exn) -> op -> state -> res **)

let step pycast arrcast infer astype_dt itemseq_exn o s =
  match o with
  | AddVariable (name, v, dt) ->
    add_variable pycast arrcast infer astype_dt name v dt s
  | SetAttr (name, v, hint) -> setattr pycast arrcast infer name v hint s
  | SetItem (k, v) -> setitem pycast arrcast infer itemseq_exn k v s
  | ReplaceValues kvs -> replace_values pycast arrcast infer itemseq_exn kvs s
  | AddAttribute (name, v) -> add_attribute pycast arrcast infer name v s
  | Query q -> ((fst (read q s)), (Ret ()))

(** val core_registry : regent list **)

let core_registry =
  ('_'::('a'::('t'::('t'::('r'::('i'::('b'::('u'::('t'::('e'::('s'::[]))))))))))) :: (('s'::('p'::('a'::('n'::[])))) :: (('i'::('n'::('d'::('e'::('x'::[]))))) :: (('_'::('s'::('t'::('r'::('i'::('c'::('t'::[]))))))) :: [])))

(** val init_vc : z list -> bool -> state **)

let init_vc sp st =
  { span = sp; index = []; vars = []; registry = core_registry; adict = [];
    strict = st; kind = CVC; names = []; dflt = None }

(** val dup_free : char list list -> bool **)

let rec dup_free = function
| [] -> true
| x :: r -> (&&) (negb (mem x r)) (dup_free r)

(** val dreq_operand : dreq -> operand **)

let dreq_operand d =
  OScalar (PStr
    (match d with
     | RFloat -> 'f'::('l'::('o'::('a'::('t'::[]))))
     | RInt -> 'i'::('n'::('t'::[]))
     | RBool -> 'b'::('o'::('o'::('l'::[])))
     | RStr -> 's'::('t'::('r'::[]))
     | RSub -> '2'::('f'::('8'::[]))))

(** val init_vars :
    (dtype -> pyval -> pyval outcome) -> (dtype -> dtype -> pyval -> pyval
    outcome) -> (pyval list -> dtype) -> (dtype -> pyval list -> dreq ->
    dtype) -> char list list -> (char list * operand) list -> operand -> dreq
    -> state -> res **)

let rec init_vars pycast arrcast infer astype_dt nms ivs default d s =
  match nms with
  | [] -> ok s
  | x :: r ->
    let (s', o) =
      base_add_variable pycast arrcast infer astype_dt x
        (match assoc x ivs with
         | Some v -> v
         | None -> default) (Some d) s
    in
    (match o with
     | Ret _ -> init_vars pycast arrcast infer astype_dt r ivs default d s'
     | Raise e -> (s', (Raise e)))

(** val bind : res -> (state -> res) -> res **)

let bind r f =
  let (s', o) = r in (match o with
                      | Ret _ -> f s'
                      | Raise e -> (s', (Raise e)))

(** val init_model :
    (dtype -> pyval -> pyval outcome) -> (dtype -> dtype -> pyval -> pyval
    outcome) -> (pyval list -> dtype) -> (dtype -> pyval list -> dreq ->
    dtype) -> ckind -> z list -> bool -> dreq -> operand -> char list list ->
    (char list * operand) list -> res **)

let init_model pycast arrcast infer astype_dt k sp st d default nAMES ivs =
  let s0 = { span = sp; index = []; vars = []; registry = core_registry;
    adict = []; strict = st; kind = k; names = []; dflt = None }
  in
  bind
    (add_attribute pycast arrcast infer ('d'::('t'::('y'::('p'::('e'::[])))))
      (dreq_operand d) s0) (fun s1 ->
    let s2 = { span = s1.span; index = s1.index; vars = s1.vars; registry =
      s1.registry; adict = s1.adict; strict = s1.strict; kind = s1.kind;
      names = s1.names; dflt = (Some d) }
    in
    bind
      (base_add_variable pycast arrcast infer astype_dt
        ('s'::('t'::('a'::('t'::('u'::('s'::[])))))) (OScalar (PStr
        ('-'::[]))) None s2) (fun s3 ->
      bind
        (base_add_variable pycast arrcast infer astype_dt
          ('i'::('t'::('e'::('r'::('a'::('t'::('i'::('o'::('n'::('s'::[]))))))))))
          (OScalar (PInt (Zneg XH))) None s3) (fun s4 ->
        if negb (dup_free nAMES)
        then err s4 DuplicateNameError
        else if (&&) st (existsb (fun kv -> negb (mem (fst kv) nAMES)) ivs)
             then err s4 InitialisationError
             else bind
                    (add_attribute pycast arrcast infer
                      ('n'::('a'::('m'::('e'::('s'::[]))))) (OSeq (KList,
                      (map (fun x -> OScalar (PStr x)) nAMES))) s4)
                    (fun s5 ->
                    let s6 = set_names s5 nAMES in
                    bind
                      (init_vars pycast arrcast infer astype_dt nAMES ivs
                        default d s6) (fun s7 ->
                      bind
                        (add_attribute pycast arrcast infer
                          ('l'::('a'::('g'::('s'::[])))) (OScalar (PInt Z0))
                          s7) (fun s8 ->
                        bind
                          (add_attribute pycast arrcast infer
                            ('l'::('e'::('a'::('d'::('s'::[]))))) (OScalar
                            (PInt Z0)) s8) (fun s9 ->
                          bind
                            (add_attribute pycast arrcast infer
                              ('e'::('n'::('d'::('o'::('g'::('e'::('n'::('o'::('u'::('s'::[]))))))))))
                              (OSeq (KList, [])) s9) (fun s10 ->
                            bind
                              (add_attribute pycast arrcast infer
                                ('c'::('h'::('e'::('c'::('k'::[]))))) (OSeq
                                (KList, [])) s10) (fun s11 ->
                              match k with
                              | CModel ->
                                add_attribute pycast arrcast infer
                                  ('e'::('n'::('g'::('i'::('n'::('e'::[]))))))
                                  (OScalar (PStr
                                  ('p'::('y'::('t'::('h'::('o'::('n'::[]))))))))
                                  s11
                              | _ -> ok s11)))))))))

(** val nbytes_own : state -> nat **)

let nbytes_own s =
  fold_right (fun x acc ->
    match assoc x s.vars with
    | Some v -> add (mul (prod_shape v.vshape) (itemsize v.vdtype)) acc
    | None -> acc) O s.index

(** val iNT_MIN : z **)

let iNT_MIN =
  Zneg (XO (XO (XO (XO (XO (XO (XO (XO (XO (XO (XO (XO (XO (XO (XO (XO (XO
    (XO (XO (XO (XO (XO (XO (XO (XO (XO (XO (XO (XO (XO (XO (XO (XO (XO (XO
    (XO (XO (XO (XO (XO (XO (XO (XO (XO (XO (XO (XO (XO (XO (XO (XO (XO (XO
    (XO (XO (XO (XO (XO (XO (XO (XO (XO (XO
    XH)))))))))))))))))))))))))))))))))))))))))))))))))))))))))))))))

(** val string_of_Z : z -> char list **)

let string_of_Z z0 =
  NilZero.string_of_int (Z.to_int z0)

(** val str_of_fl : fl -> char list **)

let str_of_fl = function
| FHalf z0 ->
  let q = Z.quot (Z.abs z0) (Zpos (XO XH)) in
  let sign = if Z.ltb z0 Z0 then '-'::[] else [] in
  append sign
    (append (string_of_Z q)
      (if Z.even z0 then '.'::('0'::[]) else '.'::('5'::[])))
| FNaN -> 'n'::('a'::('n'::[]))
| FPInf -> 'i'::('n'::('f'::[]))
| FNInf -> '-'::('i'::('n'::('f'::[])))

(** val str_of_val : pyval -> char list **)

let str_of_val = function
| PInt z0 -> string_of_Z z0
| PFlt f -> str_of_fl f
| PBool b ->
  if b
  then 'T'::('r'::('u'::('e'::[])))
  else 'F'::('a'::('l'::('s'::('e'::[]))))
| PStr s -> s
| PNone -> 'N'::('o'::('n'::('e'::[])))

(** val truncate : nat -> char list -> char list **)

let rec truncate k s =
  match k with
  | O -> []
  | S k' -> (match s with
             | [] -> []
             | c::r -> c::(truncate k' r))

(** val parse_nat_acc : char list -> z -> z option **)

let rec parse_nat_acc s acc =
  match s with
  | [] -> Some acc
  | c::r ->
    let n0 = nat_of_ascii c in
    if (&&)
         (Nat.leb (S (S (S (S (S (S (S (S (S (S (S (S (S (S (S (S (S (S (S (S
           (S (S (S (S (S (S (S (S (S (S (S (S (S (S (S (S (S (S (S (S (S (S
           (S (S (S (S (S (S
           O)))))))))))))))))))))))))))))))))))))))))))))))) n0)
         (Nat.leb n0 (S (S (S (S (S (S (S (S (S (S (S (S (S (S (S (S (S (S (S
           (S (S (S (S (S (S (S (S (S (S (S (S (S (S (S (S (S (S (S (S (S (S
           (S (S (S (S (S (S (S (S (S (S (S (S (S (S (S (S
           O))))))))))))))))))))))))))))))))))))))))))))))))))))))))))
    then parse_nat_acc r
           (Z.add (Z.mul (Zpos (XO (XI (XO XH)))) acc)
             (Z.of_nat
               (sub n0 (S (S (S (S (S (S (S (S (S (S (S (S (S (S (S (S (S (S
                 (S (S (S (S (S (S (S (S (S (S (S (S (S (S (S (S (S (S (S (S
                 (S (S (S (S (S (S (S (S (S (S
                 O)))))))))))))))))))))))))))))))))))))))))))))))))))
    else None

(** val parse_nat : char list -> z option **)

let parse_nat s = match s with
| [] -> None
| _::_ -> parse_nat_acc s Z0

(** val split_dot : char list -> char list * char list option **)

let rec split_dot = function
| [] -> ([], None)
| c::r ->
  if (=) c '.'
  then ([], (Some r))
  else let (a, f) = split_dot r in ((c::a), f)

(** val parse_signed : (char list -> z option) -> char list -> z option **)

let parse_signed f s = match s with
| [] -> None
| c::r -> if (=) c '-' then option_map Z.opp (f r) else f s

(** val parse_int : char list -> z option **)

let parse_int s =
  parse_signed parse_nat s

(** val parse_half : char list -> z option **)

let parse_half s =
  parse_signed (fun b ->
    let (a, f) = split_dot b in
    (match parse_nat a with
     | Some n0 ->
       (match f with
        | Some fr ->
          if eqb0 fr ('0'::[])
          then Some (Z.mul (Zpos (XO XH)) n0)
          else if eqb0 fr ('5'::[])
               then Some (Z.add (Z.mul (Zpos (XO XH)) n0) (Zpos XH))
               else None
        | None -> Some (Z.mul (Zpos (XO XH)) n0))
     | None -> None)) s

(** val np_cast : bool -> dtype -> pyval -> pyval outcome **)

let np_cast py d v =
  match d with
  | DFloat ->
    (match v with
     | PInt z0 -> Ret (PFlt (FHalf (Z.mul (Zpos (XO XH)) z0)))
     | PFlt f -> Ret (PFlt f)
     | PBool b -> Ret (PFlt (FHalf (if b then Zpos (XO XH) else Z0)))
     | PStr x ->
       (match parse_half x with
        | Some z0 -> Ret (PFlt (FHalf z0))
        | None ->
          if eqb0 x ('n'::('a'::('n'::[])))
          then Ret (PFlt FNaN)
          else if eqb0 x ('i'::('n'::('f'::[])))
               then Ret (PFlt FPInf)
               else if eqb0 x ('-'::('i'::('n'::('f'::[]))))
                    then Ret (PFlt FNInf)
                    else Raise ValueError)
     | PNone -> Ret (PFlt FNaN))
  | DInt ->
    (match v with
     | PInt z0 -> Ret (PInt z0)
     | PFlt f ->
       (match f with
        | FHalf z0 -> Ret (PInt (Z.quot z0 (Zpos (XO XH))))
        | FNaN -> if py then Raise ValueError else Ret (PInt iNT_MIN)
        | _ -> if py then Raise OverflowError else Ret (PInt iNT_MIN))
     | PBool b -> Ret (PInt (if b then Zpos XH else Z0))
     | PStr x ->
       (match parse_int x with
        | Some z0 -> Ret (PInt z0)
        | None -> Raise ValueError)
     | PNone -> Raise TypeError)
  | DBool -> Ret (PBool (truthy_val v))
  | DStr k -> Ret (PStr (truncate k (str_of_val v)))
  | DObj -> Ret v

(** val np_pycast : dtype -> pyval -> pyval outcome **)

let np_pycast d v =
  np_cast true d v

(** val np_arrcast : dtype -> dtype -> pyval -> pyval outcome **)

let np_arrcast src dst v =
  np_cast (match src with
           | DObj -> true
           | _ -> false) dst v

(** val width_of : pyval -> nat **)

let width_of = function
| PInt _ ->
  S (S (S (S (S (S (S (S (S (S (S (S (S (S (S (S (S (S (S (S (S
    O))))))))))))))))))))
| PFlt _ ->
  S (S (S (S (S (S (S (S (S (S (S (S (S (S (S (S (S (S (S (S (S (S (S (S (S
    (S (S (S (S (S (S (S O)))))))))))))))))))))))))))))))
| PBool _ -> S (S (S (S (S O))))
| PStr s -> length0 s
| PNone -> S (S (S (S O)))

(** val np_infer : pyval list -> dtype **)

let np_infer cs =
  if existsb (fun v -> match v with
                       | PNone -> true
                       | _ -> false) cs
  then DObj
  else if existsb (fun v -> match v with
                            | PStr _ -> true
                            | _ -> false) cs
       then DStr (fold_right (fun v acc -> Nat.max (width_of v) acc) (S O) cs)
       else if existsb (fun v -> match v with
                                 | PFlt _ -> true
                                 | _ -> false) cs
            then DFloat
            else if existsb (fun v ->
                      match v with
                      | PInt _ -> true
                      | _ -> false) cs
                 then DInt
                 else (match cs with
                       | [] -> DFloat
                       | _ :: _ -> DBool)

(** val np_astype_dt : dtype -> pyval list -> dreq -> dtype **)

let np_astype_dt src cells = function
| RInt -> DInt
| RBool -> DBool
| RStr ->
  (match src with
   | DFloat ->
     DStr (S (S (S (S (S (S (S (S (S (S (S (S (S (S (S (S (S (S (S (S (S (S
       (S (S (S (S (S (S (S (S (S (S O))))))))))))))))))))))))))))))))
   | DInt ->
     DStr (S (S (S (S (S (S (S (S (S (S (S (S (S (S (S (S (S (S (S (S (S
       O)))))))))))))))))))))
   | DBool -> DStr (S (S (S (S (S O)))))
   | DStr k -> DStr k
   | DObj ->
     DStr
       (fold_right (fun v acc -> Nat.max (length0 (str_of_val v)) acc) (S O)
         cells))
| _ -> DFloat

(** val np_itemseq_exn : dtype -> exn **)

let np_itemseq_exn = function
| DInt -> TypeError
| _ -> ValueError

(** val np_step : op -> state -> res **)

let np_step =
  step np_pycast np_arrcast np_infer np_astype_dt np_itemseq_exn

(** val np_init_model :
    ckind -> z list -> bool -> dreq -> operand -> char list list ->
    (char list * operand) list -> res **)

let np_init_model =
  init_model np_pycast np_arrcast np_infer np_astype_dt

type amap_t = (char list * char list) list

(** val akeys : amap_t -> char list list **)

let akeys a =
  map fst a

(** val avals : amap_t -> char list list **)

let avals a =
  map snd a

(** val aget : amap_t -> char list -> char list **)

let aget a x =
  match assoc x a with
  | Some v -> v
  | None -> x

(** val drop_self : amap_t -> amap_t **)

let drop_self a =
  filter (fun kv -> negb (eqb0 (fst kv) (snd kv))) a

(** val chained : amap_t -> bool **)

let chained a =
  existsb (fun k -> mem k (avals a)) (akeys a)

(** val subst : amap_t -> amap_t **)

let subst a =
  map (fun kv -> ((fst kv), (aget a (snd kv)))) a

(** val shorten_loop : nat -> amap_t -> amap_t option **)

let rec shorten_loop passes a =
  match passes with
  | O -> None
  | S p -> if chained a then shorten_loop p (subst a) else Some a

(** val shorten : amap_t -> amap_t outcome **)

let shorten aLIASES =
  let a1 = drop_self aLIASES in
  (match shorten_loop (S (length a1)) a1 with
   | Some a2 -> Ret (drop_self a2)
   | None -> Raise InitialisationError)

(** val pref_check :
    amap_t -> char list list -> char list list -> unit outcome **)

let rec pref_check a pref seen =
  match pref with
  | [] -> Ret ()
  | nm :: r ->
    let t = aget a nm in
    if mem t seen
    then Raise ValueError
    else pref_check a r (app seen (t :: []))

type aobj = { amap : amap_t; apref : char list list }

(** val alias_construct : amap_t -> char list list -> aobj outcome **)

let alias_construct aLIASES pREFERRED =
  match shorten aLIASES with
  | Ret a ->
    (match pref_check a pREFERRED [] with
     | Ret _ -> Ret { amap = a; apref = pREFERRED }
     | Raise e -> Raise e)
  | Raise e -> Raise e

(** val resolve : aobj -> char list -> char list **)

let resolve am x =
  aget am.amap x

(** val resolve_kwargs :
    aobj -> (char list * operand) list -> (char list * operand) list **)

let resolve_kwargs am kw =
  fold_left (fun acc kv -> assoc_set (resolve am (fst kv)) (snd kv) acc) kw []

(** val resolve_key : aobj -> key -> key **)

let resolve_key am = function
| KName n0 -> KName (resolve am n0)
| KLabel (n0, l) -> KLabel ((resolve am n0), l)
| KSlice (n0, a, b, st) -> KSlice ((resolve am n0), a, b, st)
| x -> x

(** val resolve_op : aobj -> op -> op **)

let resolve_op am o = match o with
| SetAttr (n0, v, h) -> SetAttr ((resolve am n0), v, h)
| SetItem (k, v) -> SetItem ((resolve_key am k), v)
| ReplaceValues kvs ->
  ReplaceValues (map (fun kv -> ((resolve am (fst kv)), (snd kv))) kvs)
| _ -> o

(** val alias_read : aobj -> query -> state -> state * qval outcome **)

let alias_read am q s =
  match q with
  | QCompletions -> (s, (Ret (VNames (app s.index (akeys am.amap)))))
  | QDir ->
    (s, (Ret (VNames
      (app s.index (app (reg_names s.registry) (akeys am.amap))))))
  | QContains n0 -> read (QContains (resolve am n0)) s
  | QNbytes ->
    (s,
      (match nbytes_of (resolve am) s with
       | Ret n0 -> Ret (VNat n0)
       | Raise e -> Raise e))

(** val dict_key : state -> char list -> bool **)

let dict_key s k =
  (||)
    ((||)
      ((||)
        (mem k
          (('s'::('p'::('a'::('n'::[])))) :: (('i'::('n'::('d'::('e'::('x'::[]))))) :: (('_'::('s'::('t'::('r'::('i'::('c'::('t'::[]))))))) :: (('_'::('a'::('t'::('t'::('r'::('i'::('b'::('u'::('t'::('e'::('s'::[]))))))))))) :: (('a'::('l'::('i'::('a'::('s'::('e'::('s'::[]))))))) :: (('p'::('r'::('e'::('f'::('e'::('r'::('r'::('e'::('d'::('_'::('n'::('a'::('m'::('e'::('s'::[]))))))))))))))) :: [])))))))
        (match s.kind with
         | CLinker _ ->
           mem k
             (('s'::('u'::('b'::('m'::('o'::('d'::('e'::('l'::('s'::[]))))))))) :: (('n'::('a'::('m'::('e'::[])))) :: (('_'::('L'::('A'::('G'::('S'::[]))))) :: (('_'::('L'::('E'::('A'::('D'::('S'::[])))))) :: []))))
         | _ -> false))
      (match assoc k s.adict with
       | Some _ -> true
       | None -> false))
    ((&&) (underscored k)
      (match assoc (tail_of k) s.vars with
       | Some _ -> true
       | None -> false))

(** val alias_clash : char list list -> aobj -> state -> bool **)

let alias_clash classattrs am s =
  existsb (fun k ->
    (||) ((||) (mem k s.index) (dict_key s k)) (mem k classattrs))
    (akeys am.amap)

(** val gen_alias_step :
    (dtype -> pyval -> pyval outcome) -> (dtype -> dtype -> pyval -> pyval
    outcome) -> (pyval list -> dtype) -> (dtype -> pyval list -> dreq ->
    dtype) -> (dtype -> exn) -> aobj -> op -> state -> res **)

let gen_alias_step pycast arrcast infer astype_dt itemseq_exn am o s =
  match o with
  | Query q -> ((fst (alias_read am q s)), (Ret ()))
  | _ -> step pycast arrcast infer astype_dt itemseq_exn (resolve_op am o) s

(** val gen_alias_init_model :
    (dtype -> pyval -> pyval outcome) -> (dtype -> dtype -> pyval -> pyval
    outcome) -> (pyval list -> dtype) -> (dtype -> pyval list -> dreq ->
    dtype) -> char list list -> aobj -> ckind -> z list -> bool -> dreq ->
    operand -> char list list -> (char list * operand) list -> res **)

let gen_alias_init_model pycast arrcast infer astype_dt classattrs am k sp st d default nAMES kwargs =
  let (s, o) =
    init_model pycast arrcast infer astype_dt k sp st d default nAMES
      (resolve_kwargs am kwargs)
  in
  (match o with
   | Ret u ->
     if alias_clash classattrs am s
     then (s, (Raise InitialisationError))
     else (s, (Ret u))
   | Raise e -> (s, (Raise e)))

(** val alias_step : aobj -> op -> state -> res **)

let alias_step =
  gen_alias_step np_pycast np_arrcast np_infer np_astype_dt np_itemseq_exn

(** val alias_init_model :
    char list list -> aobj -> ckind -> z list -> bool -> dreq -> operand ->
    char list list -> (char list * operand) list -> res **)

let alias_init_model =
  gen_alias_init_model np_pycast np_arrcast np_infer np_astype_dt

(** val getitem : key -> state -> pyval list outcome **)

let getitem k s =
  match k with
  | KName n0 ->
    if mem n0 s.index
    then (match assoc n0 s.vars with
          | Some v -> Ret v.vdata
          | None -> Raise KeyError)
    else Raise KeyError
  | KLabel (n0, l) ->
    if mem n0 s.index
    then (match assoc n0 s.vars with
          | Some v ->
            (match locate s.span l with
             | Ret p ->
               (match nth_error v.vdata p with
                | Some c -> Ret (c :: [])
                | None -> Raise IndexError)
             | Raise e -> Raise e)
          | None -> Raise KeyError)
    else Raise KeyError
  | KSlice (n0, a, b, st) ->
    if mem n0 s.index
    then (match assoc n0 s.vars with
          | Some v ->
            (match resolve_slice s.span a b st with
             | Ret a0 ->
               let (p, step0) = a0 in
               let (sl, el) = p in
               (match slice_positions (length v.vdata) sl el step0 with
                | Some ps -> Ret (map (fun p0 -> nth p0 v.vdata PNone) ps)
                | None -> Raise ValueError)
             | Raise e -> Raise e)
          | None -> Raise KeyError)
    else Raise KeyError
  | KTuple3 -> Raise IndexError
  | KOther -> Raise TypeError

(** val getattr_var : char list -> state -> pyval list outcome **)

let getattr_var n0 s =
  if mem n0 s.index
  then (match assoc n0 s.vars with
        | Some v -> Ret v.vdata
        | None -> Raise KeyError)
  else Raise AttributeError

(** val alias_getitem : aobj -> key -> state -> pyval list outcome **)

let alias_getitem am k s =
  getitem (resolve_key am k) s

(** val alias_getattr_var :
    aobj -> char list -> state -> pyval list outcome **)

let alias_getattr_var am n0 s =
  getattr_var (resolve am n0) s

(** val starts_underscore : char list -> bool **)

let starts_underscore = function
| [] -> false
| c::_ -> (=) c '_'

(** val base_columns_with :
    bool -> bool -> bool -> state -> char list list **)

let base_columns_with st it incl s =
  app
    (if incl
     then s.names
     else filter (fun x -> negb (starts_underscore x)) s.names)
    (app
      (if st then ('s'::('t'::('a'::('t'::('u'::('s'::[])))))) :: [] else [])
      (if it
       then ('i'::('t'::('e'::('r'::('a'::('t'::('i'::('o'::('n'::('s'::[])))))))))) :: []
       else []))

(** val base_columns : state -> char list list **)

let base_columns s =
  base_columns_with true true false s

(** val last_alias : amap_t -> char list -> char list option **)

let last_alias a c =
  fold_left (fun acc kv -> if eqb0 (snd kv) c then Some (fst kv) else acc) a
    None

(** val dedupe : char list list -> char list list **)

let rec dedupe = function
| [] -> []
| x :: r -> x :: (filter (fun y -> negb (eqb0 x y)) (dedupe r))

(** val group_of : amap_t -> char list -> char list list **)

let group_of a t =
  map fst (filter (fun kv -> eqb0 (snd kv) t) a)

(** val group_choice : aobj -> char list -> char list option outcome **)

let group_choice am t =
  match group_of am.amap t with
  | [] ->
    (match filter (fun x -> mem x am.apref) (dedupe (app [] (t :: []))) with
     | [] -> Ret None
     | x :: l ->
       (match l with
        | [] -> Ret (Some x)
        | _ :: _ -> Raise ValueError))
  | k :: l ->
    (match l with
     | [] -> if mem t am.apref then Ret None else Ret (Some k)
     | s :: l0 ->
       (match filter (fun x -> mem x am.apref)
                (dedupe (app (k :: (s :: l0)) (t :: []))) with
        | [] -> Ret None
        | x :: l1 ->
          (match l1 with
           | [] -> Ret (Some x)
           | _ :: _ -> Raise ValueError)))

(** val replacements :
    aobj -> char list list -> (char list * char list) list outcome **)

let rec replacements am = function
| [] -> Ret []
| t :: r ->
  (match group_choice am t with
   | Ret c ->
     (match replacements am r with
      | Ret l -> Ret (match c with
                      | Some x -> (t, x) :: l
                      | None -> l)
      | Raise e -> Raise e)
   | Raise e -> Raise e)

(** val rename_columns : aobj -> char list list -> char list list outcome **)

let rename_columns am cols =
  match am.apref with
  | [] ->
    Ret
      (map (fun c -> match last_alias am.amap c with
                     | Some k -> k
                     | None -> c) cols)
  | _ :: _ ->
    (match replacements am (dedupe (avals am.amap)) with
     | Ret rep -> Ret (map (fun c -> aget rep c) cols)
     | Raise e -> Raise e)

(** val export_cols :
    aobj -> char list list -> (char list * char list) list outcome **)

let export_cols am cols =
  match rename_columns am cols with
  | Ret titles -> Ret (combine titles (map (resolve am) cols))
  | Raise e -> Raise e

(** val export : aobj -> state -> (char list * char list) list outcome **)

let export am s =
  export_cols am (base_columns s)

(** val export_with :
    aobj -> bool -> bool -> bool -> state -> (char list * char list) list
    outcome **)

let export_with am st it incl s =
  export_cols am (base_columns_with st it incl s)

(** val positions : z list -> z list -> (nat * nat) list **)

let positions old_span new_span =
  concat
    (map (fun ip ->
      match find_pos (snd ip) old_span with
      | Some p -> ((fst ip), p) :: []
      | None -> []) (combine (seq O (length new_span)) new_span))

(** val write_positions :
    pyval list -> (nat * nat) list -> pyval list -> pyval list **)

let write_positions src ps dst =
  fold_left (fun d np ->
    match nth_error src (snd np) with
    | Some c -> upd (fst np) c d
    | None -> d) ps dst

(** val reindex_name :
    (char list -> char list) -> (char list -> dtype -> pyval) -> z list ->
    state -> (char list * var) list outcome -> char list -> (char list * var)
    list outcome **)

let reindex_name rn fill new_span s acc name =
  match acc with
  | Ret vs ->
    if negb (mem (rn name) s.index)
    then Raise KeyError
    else (match assoc (rn name) s.vars with
          | Some src ->
            let fresh = { vdtype = src.vdtype; vshape =
              ((length new_span) :: []); vdata =
              (repeat (fill name src.vdtype) (length new_span)) }
            in
            let vs1 = assoc_set name fresh vs in
            (match assoc (rn name) vs1 with
             | Some tgt ->
               Ret
                 (assoc_set (rn name) { vdtype = tgt.vdtype; vshape =
                   tgt.vshape; vdata =
                   (write_positions src.vdata (positions s.span new_span)
                     tgt.vdata) } vs1)
             | None -> Raise KeyError)
          | None -> Raise KeyError)
  | Raise e -> Raise e

(** val reindex_with :
    (char list -> char list) -> (char list -> dtype -> pyval) -> z list ->
    state -> state outcome **)

let reindex_with rn fill new_span s =
  match fold_left (reindex_name rn fill new_span s) s.index (Ret s.vars) with
  | Ret vs ->
    Ret { span = new_span; index = s.index; vars = vs; registry = s.registry;
      adict = s.adict; strict = s.strict; kind = s.kind; names = s.names;
      dflt = s.dflt }
  | Raise e -> Raise e

(** val np_fill : ckind -> char list -> dtype -> pyval **)

let np_fill k name d =
  match k with
  | CVC ->
    (match d with
     | DFloat -> PFlt FNaN
     | DInt -> PInt Z0
     | DBool -> PBool false
     | DStr _ -> PStr []
     | DObj -> PNone)
  | _ ->
    if eqb0 name ('s'::('t'::('a'::('t'::('u'::('s'::[]))))))
    then (match d with
          | DBool -> PBool true
          | DStr w -> PStr (truncate w ('-'::[]))
          | _ -> PStr ('-'::[]))
    else if eqb0 name
              ('i'::('t'::('e'::('r'::('a'::('t'::('i'::('o'::('n'::('s'::[]))))))))))
         then (match d with
               | DFloat -> PFlt (FHalf (Zneg (XO XH)))
               | DBool -> PBool true
               | DStr w -> PStr (truncate w ('-'::('1'::[])))
               | _ -> PInt (Zneg XH))
         else (match d with
               | DFloat -> PFlt FNaN
               | DInt -> PInt Z0
               | DBool -> PBool false
               | DStr _ -> PStr []
               | DObj -> PNone)
