
(* driver for the extracted container / alias models: one case per input line, one JSON line per case *)
open Model

let rec z_of_pos n = if n = 1 then XH else if n land 1 = 0 then XO (z_of_pos (n lsr 1)) else XI (z_of_pos (n lsr 1))
let z_of_int n = if n = 0 then Z0 else if n > 0 then Zpos (z_of_pos n) else Zneg (z_of_pos (- n))
let rec int_of_pos = function XH -> 1 | XO p -> 2 * int_of_pos p | XI p -> 2 * int_of_pos p + 1
let int_of_z = function Z0 -> 0 | Zpos p -> int_of_pos p | Zneg p -> - (int_of_pos p)
let rec nat_of_int n = if n <= 0 then O else S (nat_of_int (n - 1))
let rec int_of_nat = function O -> 0 | S n -> 1 + int_of_nat n
let cl_of_string s = List.init (String.length s) (String.get s)
let string_of_cl l = String.init (List.length l) (List.nth l)
let zstr z = string_of_cl (string_of_Z z)     (* decimal text of an (unbounded) Z, by the model's own printer *)

(* ---- s-expressions ---- *)
type sx = A of string | L of sx list
let tokenize s =
  let toks = ref [] and buf = Buffer.create 16 in
  let flush () = if Buffer.length buf > 0 then (toks := Buffer.contents buf :: !toks; Buffer.clear buf) in
  String.iter (fun c -> match c with
    | '(' | ')' -> flush (); toks := String.make 1 c :: !toks
    | ' ' | '\t' | '\n' | '\r' -> flush ()
    | c -> Buffer.add_char buf c) s;
  flush (); List.rev !toks
let parse toks =
  let rec one = function
    | "(" :: r -> let (l, r') = many r in (L l, r')
    | ")" :: _ -> failwith "unexpected )"
    | a :: r -> (A a, r)
    | [] -> failwith "eof"
  and many = function
    | ")" :: r -> ([], r)
    | [] -> failwith "eof in list"
    | ts -> let (x, r) = one ts in let (xs, r') = many r in (x :: xs, r')
  in fst (one toks)

let unhex h =
  let n = String.length h / 2 in
  String.init n (fun i -> Char.chr (int_of_string ("0x" ^ String.sub h (2 * i) 2)))
let name_of = function A "-" -> [] | A h -> cl_of_string (unhex (String.sub h 1 (String.length h - 1))) | _ -> failwith "name"
(* names are written as  x<hex>  ;  "-" alone = absent *)
let atom = function A a -> a | _ -> failwith "atom"
let int_of_sx x = int_of_string (atom x)
let z_of_sx x = z_of_int (int_of_sx x)
let optz = function A "-" -> None | x -> Some (z_of_sx x)
let list_of = function L l -> l | _ -> failwith "list"

let pyval_of = function
  | L [A "i"; z] -> PInt (z_of_sx z)
  | L [A "f"; z] -> PFlt (FHalf (z_of_sx z))
  | A "nan" -> PFlt FNaN | A "pinf" -> PFlt FPInf | A "ninf" -> PFlt FNInf
  | L [A "b"; b] -> PBool (int_of_sx b <> 0)
  | L [A "s"; h] -> PStr (name_of h)
  | A "none" -> PNone
  | _ -> failwith "pyval"
let dtype_of = function
  | A "F" -> DFloat | A "I" -> DInt | A "B" -> DBool | A "O" -> DObj
  | L [A "U"; k] -> DStr (nat_of_int (int_of_sx k))
  | _ -> failwith "dtype"
let dreq_of = function
  | A "f" -> Some RFloat | A "i" -> Some RInt | A "b" -> Some RBool | A "s" -> Some RStr | A "-" -> None
  | A "sub" | A "sub2" -> Some RSub
  | _ -> failwith "dreq"
let rec operand_of = function
  | L [A "S"; v] -> OScalar (pyval_of v)
  | L (A "L" :: items) -> OSeq (KList, List.map operand_of items)
  | L (A "T" :: items) -> OSeq (KTuple, List.map operand_of items)
  | L [A "R"; a; b; c] -> ORange (z_of_sx a, z_of_sx b, z_of_sx c)
  | L [A "A"; sh; dt; cells] ->
      OArr (List.map (fun x -> nat_of_int (int_of_sx x)) (list_of sh), dtype_of dt, List.map pyval_of (list_of cells))
  | _ -> failwith "operand"
let key_of = function
  | L [A "n"; nm] -> KName (name_of nm)
  | L [A "l"; nm; z] -> KLabel (name_of nm, z_of_sx z)
  | L [A "sl"; nm; a; b; st] -> KSlice (name_of nm, optz a, optz b, optz st)
  | A "t3" -> KTuple3
  | A "ko" -> KOther
  | _ -> failwith "key"
let hint_of = function A "-" -> None | x -> Some (name_of x)
let op_of = function
  | L [A "addvar"; nm; v; d] -> AddVariable (name_of nm, operand_of v, dreq_of d)
  | L [A "setattr"; nm; v; h] -> SetAttr (name_of nm, operand_of v, hint_of h)
  | L [A "setitem"; k; v] -> SetItem (key_of k, operand_of v)
  | L [A "replace"; kvs] -> ReplaceValues (List.map (function L [nm; v] -> (name_of nm, operand_of v) | _ -> failwith "kv") (list_of kvs))
  | L [A "addattr"; nm; v] -> AddAttribute (name_of nm, operand_of v)
  | L [A "query"; A "completions"] -> Query QCompletions
  | L [A "query"; A "dir"] -> Query QDir
  | L [A "query"; A "nbytes"] -> Query QNbytes
  | L [A "query"; L [A "contains"; nm]] -> Query (QContains (name_of nm))
  | _ -> failwith "op"

(* ---- JSON output ---- *)
let jstr s =
  let b = Buffer.create 16 in
  Buffer.add_char b '"';
  String.iter (fun c -> match c with
    | '"' -> Buffer.add_string b "\\\"" | '\\' -> Buffer.add_string b "\\\\"
    | c when Char.code c < 32 || Char.code c > 126 -> Buffer.add_string b (Printf.sprintf "\\u%04x" (Char.code c))
    | c -> Buffer.add_char b c) s;
  Buffer.add_char b '"'; Buffer.contents b
let jlist f l = "[" ^ String.concat "," (List.map f l) ^ "]"
let jname cl = jstr (string_of_cl cl)
let exn_name = function
  | ValueError -> "ValueError" | IndexError -> "IndexError" | KeyError -> "KeyError" | AttributeError -> "AttributeError"
  | TypeError -> "TypeError" | SolutionError _ -> "SolutionError" | NonConvergenceError -> "NonConvergenceError"
  | ParserError -> "ParserError" | SymbolError -> "SymbolError" | IndentationError -> "IndentationError"
  | DimensionError -> "DimensionError" | DuplicateNameError -> "DuplicateNameError" | InitialisationError -> "InitialisationError"
  | NotImplementedError -> "NotImplementedError" | UnboundLocalError -> "UnboundLocalError" | FortranEngineError -> "FortranEngineError"
  | OverflowError -> "OverflowError" | OtherError -> "OtherError(unmodelled)"
let jcell = function
  | PInt z -> "[\"i\"," ^ zstr z ^ "]"
  | PFlt (FHalf z) -> "[\"f\"," ^ zstr z ^ "]"
  | PFlt FNaN -> "[\"nan\"]" | PFlt FPInf -> "[\"pinf\"]" | PFlt FNInf -> "[\"ninf\"]"
  | PBool b -> if b then "[\"b\",1]" else "[\"b\",0]"
  | PStr s -> "[\"s\"," ^ jname s ^ "]"
  | PNone -> "[\"none\"]"
let jdtype = function
  | DFloat -> "\"F\"" | DInt -> "\"I\"" | DBool -> "\"B\"" | DObj -> "\"O\""
  | DStr k -> "[\"U\"," ^ string_of_int (int_of_nat k) ^ "]"
let jnat n = string_of_int (int_of_nat n)
let rec assoc_cl k = function [] -> None | (k', v) :: r -> if k = k' then Some v else assoc_cl k r
let jstate s =
  let vars = List.map (fun nm -> match assoc_cl nm s.vars with
      | Some v -> "[" ^ jname nm ^ "," ^ jdtype v.vdtype ^ "," ^ jlist jnat v.vshape ^ "," ^ jlist jcell v.vdata ^ "]"
      | None -> "[" ^ jname nm ^ ",null,null,null]") s.index in
  let vs = match values_shape s with Ret sh -> jlist jnat sh | Raise e -> jstr (exn_name e) in
  "{\"span\":" ^ jlist zstr s.span ^ ",\"index\":" ^ jlist jname s.index ^ ",\"vars\":[" ^ String.concat "," vars ^ "],\"values\":" ^ vs
  ^ ",\"size\":" ^ jnat (size_of s) ^ ",\"nbytes\":" ^ jnat (nbytes_own s)
  ^ ",\"strict\":" ^ (if s.strict then "true" else "false")
  ^ ",\"reg\":" ^ jlist jname (reg_names s.registry)
  ^ ",\"adict\":" ^ jlist jstr (List.sort compare (List.map (fun (k, _) -> string_of_cl k) s.adict))
  ^ ",\"names\":" ^ jlist jname s.names ^ "}"
let jout = function Ret _ -> "\"ok\"" | Raise e -> jstr (exn_name e)

let jqval = function
  | Ret (VNames l) -> "{\"names\":" ^ jlist jname l ^ "}"
  | Ret (VBool b) -> "{\"bool\":" ^ (if b then "true" else "false") ^ "}"
  | Ret (VNat n) -> "{\"nat\":" ^ jnat n ^ "}"
  | Raise e -> jstr (exn_name e)
(* (noop): something is done to ANOTHER object (a copy / reindexed copy of this one), or this object is replaced by its copy, or an
   attribute is read: for the model nothing happens to the state *)
let op_of_opt = function L [A "noop"] -> None | x -> Some (op_of x)
let run_ops stepf readf s0 ops =
  let rec go s = function
    | [] -> []
    | None :: r -> ("{\"out\":\"ok\",\"st\":" ^ jstate s ^ "}") :: go s r
    | Some o :: r ->
        let (s', out) = stepf o s in
        let ret = match o with Query q -> ",\"ret\":" ^ jqval (snd (readf q s)) | _ -> "" in
        ("{\"out\":" ^ jout out ^ ret ^ ",\"st\":" ^ jstate s' ^ "}") :: go s' r
  in go s0 ops

let aliases_of sx = List.map (function L [k; v] -> (name_of k, name_of v) | _ -> failwith "alias") (list_of sx)
let names_of sx = List.map name_of (list_of sx)
let ivs_of sx = List.map (function L [nm; v] -> (name_of nm, operand_of v) | _ -> failwith "iv") (list_of sx)
let kind_of k extra = match k with "model" -> CModel | "linker" -> CLinker (nat_of_int extra) | _ -> failwith "kind"

(* final reindex onto another span: the model's reindex_with on the final state *)
let final_state stepf s0 opl = List.fold_left (fun s o -> match o with None -> s | Some o -> fst (stepf o s)) s0 opl
let jreindex rn rx sfin =
  match rx with
  | A "-" -> ""
  | rx -> (match reindex_with rn (np_fill sfin.kind) (List.map z_of_sx (list_of rx)) sfin with
           | Ret s' -> ",\"reindex\":" ^ jstate s'
           | Raise e -> ",\"reindex\":" ^ jstr (exn_name e))
let handle line =
  match parse (tokenize line) with
  | L [A "vc"; sp; st; ops; rx] ->
      let s0 = init_vc (List.map z_of_sx (list_of sp)) (int_of_sx st <> 0) in
      let opl = List.map op_of_opt (list_of ops) in
      "{\"init\":\"ok\",\"st0\":" ^ jstate s0 ^ ",\"steps\":[" ^ String.concat "," (run_ops np_step read s0 opl) ^ "]"
      ^ jreindex (fun x -> x) rx (final_state np_step s0 opl) ^ "}"
  | L [A (("model" | "linker") as k); extra; sp; st; d; dflt; nms; ivs; ops; rx] ->
      let dr = match dreq_of d with Some x -> x | None -> failwith "dreq" in
      let (s0, out) = np_init_model (kind_of k (int_of_sx extra)) (List.map z_of_sx (list_of sp)) (int_of_sx st <> 0) dr
          (operand_of dflt) (names_of nms) (ivs_of ivs) in
      (match out with
       | Raise _ -> "{\"init\":" ^ jout out ^ ",\"steps\":[]}"
       | Ret _ ->
           let opl = List.map op_of_opt (list_of ops) in
           "{\"init\":\"ok\",\"st0\":" ^ jstate s0 ^ ",\"steps\":[" ^ String.concat "," (run_ops np_step read s0 opl) ^ "]"
           ^ jreindex (fun x -> x) rx (final_state np_step s0 opl) ^ "}")
  | L [A "alias"; A k; extra; al; pref; sp; st; d; dflt; nms; ivs; ops; reads; rx; L [A "fl"; f1; f2; f3]; ca] ->
      (* AliasMixin over a model / linker: constructor, ops through aliases, renamed export *)
      let dr = match dreq_of d with Some x -> x | None -> failwith "dreq" in
      (match alias_construct (aliases_of al) (names_of pref) with
       | Raise e -> "{\"init\":" ^ jstr (exn_name e) ^ ",\"steps\":[]}"
       | Ret am ->
           let (s0, out) = alias_init_model (names_of ca) am (kind_of k (int_of_sx extra)) (List.map z_of_sx (list_of sp)) (int_of_sx st <> 0) dr
               (operand_of dflt) (names_of nms) (ivs_of ivs) in
           let amj = "\"aliases\":" ^ jlist (fun (a, b) -> "[" ^ jname a ^ "," ^ jname b ^ "]") am.amap in
           (match out with
            | Raise _ -> "{\"init\":" ^ jout out ^ "," ^ amj ^ ",\"steps\":[]}"
            | Ret _ ->
                let opl = List.map op_of_opt (list_of ops) in
                let steps = run_ops (alias_step am) (alias_read am) s0 opl in
                let sfin = List.fold_left (fun s o -> match o with None -> s | Some o -> fst (alias_step am o s)) s0 opl in
                let ren = match export_with am (int_of_sx f1 <> 0) (int_of_sx f2 <> 0) (int_of_sx f3 <> 0) sfin with
                  | Ret l -> jlist (fun (t, src) -> "[" ^ jname t ^ "," ^ jname src ^ "]") l | Raise e -> jstr (exn_name e) in
                let jres = function Ret cells -> "{\"ok\":" ^ jlist jcell cells ^ "}" | Raise e -> jstr (exn_name e) in
                let rds = List.map (function
                    | L [A "g"; key] -> jres (alias_getitem am (key_of key) sfin)
                    | L [A "a"; nm] -> jres (alias_getattr_var am (name_of nm) sfin)
                    | _ -> failwith "read") (list_of reads) in
                "{\"init\":\"ok\"," ^ amj ^ ",\"st0\":" ^ jstate s0 ^ ",\"steps\":[" ^ String.concat "," steps ^ "],\"export\":" ^ ren
                ^ ",\"reads\":[" ^ String.concat "," rds ^ "]" ^ jreindex (resolve am) rx sfin ^ "}"))
  | _ -> failwith "case"

let () =
  try
    while true do
      let line = input_line stdin in
      (try print_endline (handle line) with Failure m -> print_endline ("{\"driver_error\":" ^ jstr m ^ "}")
                                         | Not_found -> print_endline "{\"driver_error\":\"Not_found\"}");
      flush stdout
    done
  with End_of_file -> ()
