
val negb : bool -> bool

type nat =
| O
| S of nat

val option_map : ('a1 -> 'a2) -> 'a1 option -> 'a2 option

val fst : ('a1 * 'a2) -> 'a1

val snd : ('a1 * 'a2) -> 'a2

val length : 'a1 list -> nat

val app : 'a1 list -> 'a1 list -> 'a1 list

type comparison =
| Eq
| Lt
| Gt

val compOpp : comparison -> comparison

type uint =
| Nil
| D0 of uint
| D1 of uint
| D2 of uint
| D3 of uint
| D4 of uint
| D5 of uint
| D6 of uint
| D7 of uint
| D8 of uint
| D9 of uint

type signed_int =
| Pos of uint
| Neg of uint

val revapp : uint -> uint -> uint

val rev : uint -> uint

module Little :
 sig
  val double : uint -> uint

  val succ_double : uint -> uint
 end

val add : nat -> nat -> nat

val mul : nat -> nat -> nat

val sub : nat -> nat -> nat

type positive =
| XI of positive
| XO of positive
| XH

type n =
| N0
| Npos of positive

type z =
| Z0
| Zpos of positive
| Zneg of positive

module Nat :
 sig
  val add : nat -> nat -> nat

  val mul : nat -> nat -> nat

  val eqb : nat -> nat -> bool

  val leb : nat -> nat -> bool

  val ltb : nat -> nat -> bool

  val max : nat -> nat -> nat

  val min : nat -> nat -> nat

  val eq_dec : nat -> nat -> bool
 end

module Pos :
 sig
  type mask =
  | IsNul
  | IsPos of positive
  | IsNeg
 end

module Coq_Pos :
 sig
  val succ : positive -> positive

  val add : positive -> positive -> positive

  val add_carry : positive -> positive -> positive

  val pred_double : positive -> positive

  type mask = Pos.mask =
  | IsNul
  | IsPos of positive
  | IsNeg

  val succ_double_mask : mask -> mask

  val double_mask : mask -> mask

  val double_pred_mask : positive -> mask

  val sub_mask : positive -> positive -> mask

  val sub_mask_carry : positive -> positive -> mask

  val mul : positive -> positive -> positive

  val compare_cont : comparison -> positive -> positive -> comparison

  val compare : positive -> positive -> comparison

  val eqb : positive -> positive -> bool

  val iter_op : ('a1 -> 'a1 -> 'a1) -> positive -> 'a1 -> 'a1

  val to_nat : positive -> nat

  val of_succ_nat : nat -> positive

  val to_little_uint : positive -> uint

  val to_uint : positive -> uint
 end

module N :
 sig
  val succ_double : n -> n

  val double : n -> n

  val add : n -> n -> n

  val sub : n -> n -> n

  val mul : n -> n -> n

  val compare : n -> n -> comparison

  val leb : n -> n -> bool

  val pos_div_eucl : positive -> n -> n * n

  val to_nat : n -> nat

  val of_nat : nat -> n
 end

module Z :
 sig
  val double : z -> z

  val succ_double : z -> z

  val pred_double : z -> z

  val pos_sub : positive -> positive -> z

  val add : z -> z -> z

  val opp : z -> z

  val sub : z -> z -> z

  val mul : z -> z -> z

  val compare : z -> z -> comparison

  val leb : z -> z -> bool

  val ltb : z -> z -> bool

  val eqb : z -> z -> bool

  val abs : z -> z

  val to_nat : z -> nat

  val of_nat : nat -> z

  val of_N : n -> z

  val to_int : z -> signed_int

  val pos_div_eucl : positive -> z -> z * z

  val div_eucl : z -> z -> z * z

  val div : z -> z -> z

  val quotrem : z -> z -> z * z

  val quot : z -> z -> z

  val even : z -> bool
 end

val hd : 'a1 -> 'a1 list -> 'a1

val nth : nat -> 'a1 list -> 'a1 -> 'a1

val nth_error : 'a1 list -> nat -> 'a1 option

val last : 'a1 list -> 'a1 -> 'a1

val concat : 'a1 list list -> 'a1 list

val list_eq_dec : ('a1 -> 'a1 -> bool) -> 'a1 list -> 'a1 list -> bool

val map : ('a1 -> 'a2) -> 'a1 list -> 'a2 list

val fold_left : ('a1 -> 'a2 -> 'a1) -> 'a2 list -> 'a1 -> 'a1

val fold_right : ('a2 -> 'a1 -> 'a1) -> 'a1 -> 'a2 list -> 'a1

val existsb : ('a1 -> bool) -> 'a1 list -> bool

val forallb : ('a1 -> bool) -> 'a1 list -> bool

val filter : ('a1 -> bool) -> 'a1 list -> 'a1 list

val combine : 'a1 list -> 'a2 list -> ('a1 * 'a2) list

val firstn : nat -> 'a1 list -> 'a1 list

val skipn : nat -> 'a1 list -> 'a1 list

val seq : nat -> nat -> nat list

val repeat : 'a1 -> nat -> 'a1 list

val zero : char

val one : char

val shift : bool -> char -> char

val ascii_of_pos : positive -> char

val ascii_of_N : n -> char

val ascii_of_nat : nat -> char

val n_of_digits : bool list -> n

val n_of_ascii : char -> n

val nat_of_ascii : char -> nat

val eqb0 : char list -> char list -> bool

val append : char list -> char list -> char list

val length0 : char list -> nat

type exn =
| ValueError
| IndexError
| KeyError
| AttributeError
| TypeError
| SolutionError of z option
| NonConvergenceError
| ParserError
| SymbolError
| IndentationError
| DimensionError
| DuplicateNameError
| InitialisationError
| NotImplementedError
| UnboundLocalError
| FortranEngineError
| OverflowError
| OtherError

type 'a outcome =
| Ret of 'a
| Raise of exn

val upd : nat -> 'a1 -> 'a1 list -> 'a1 list

module NilEmpty :
 sig
  val string_of_uint : uint -> char list
 end

module NilZero :
 sig
  val string_of_uint : uint -> char list

  val string_of_int : signed_int -> char list
 end

type fl =
| FHalf of z
| FNaN
| FPInf
| FNInf

type pyval =
| PInt of z
| PFlt of fl
| PBool of bool
| PStr of char list
| PNone

type dtype =
| DFloat
| DInt
| DBool
| DStr of nat
| DObj

type dreq =
| RFloat
| RInt
| RBool
| RStr
| RSub

val adds_dim : dreq -> bool

type seqkind =
| KList
| KTuple

type operand =
| OScalar of pyval
| OSeq of seqkind * operand list
| ORange of z * z * z
| OArr of nat list * dtype * pyval list

val is_sequence : operand -> bool

val mem : char list -> char list list -> bool

val assoc : char list -> (char list * 'a1) list -> 'a1 option

val assoc_set :
  char list -> 'a1 -> (char list * 'a1) list -> (char list * 'a1) list

val prod_shape : nat list -> nat

val range_len : z -> z -> z -> nat

val range_list : z -> z -> z -> z list

val all_eq_shape : nat list -> (nat list * pyval list) list -> bool

val stack : (nat list * pyval list) list -> (nat list * pyval list) outcome

val as_array : operand -> (nat list * pyval list) outcome

val strip1 : nat list -> nat list

val bcast_arr : nat -> nat list -> pyval list -> pyval list option

val bcast_seq : nat -> nat list -> pyval list -> pyval list option

type var = { vdtype : dtype; vshape : nat list; vdata : pyval list }

type regent = char list
  (* singleton inductive, whose constructor was RName *)

val reg_mem : char list -> regent list -> bool

val reg_names : regent list -> char list list

type ckind =
| CVC
| CModel
| CLinker of nat

type state = { span : z list; index : char list list;
               vars : (char list * var) list; registry : regent list;
               adict : (char list * operand) list; strict : bool;
               kind : ckind; names : char list list; dflt : dreq option }

val set_vars : state -> (char list * var) list -> state

val set_index_vars :
  state -> char list list -> (char list * var) list -> state

val set_registry : state -> regent list -> state

val set_adict : state -> (char list * operand) list -> state

val set_strict : state -> bool -> state

val set_kind : state -> ckind -> state

val set_names : state -> char list list -> state

val set_span : state -> z list -> state

val set_index : state -> char list list -> state

val set_dflt : state -> dreq option -> state

val underscored : char list -> bool

val bookkeeping : ckind -> char list -> bool

val as_int_list : operand -> z list option

val as_str_list : operand -> char list list option

val as_dreq : operand -> dreq option

val tail_of : char list -> char list

type res = state * unit outcome

val ok : state -> res

val err : state -> exn -> res

type key =
| KName of char list
| KLabel of char list * z
| KSlice of char list * z option * z option * z option
| KTuple3
| KOther

type query =
| QCompletions
| QDir
| QContains of char list
| QNbytes

type qval =
| VNames of char list list
| VBool of bool
| VNat of nat

type op =
| AddVariable of char list * operand * dreq option
| SetAttr of char list * operand * char list option
| SetItem of key * operand
| ReplaceValues of (char list * operand) list
| AddAttribute of char list * operand
| Query of query

val find_pos : z -> z list -> nat option

val locate : z list -> z -> nat outcome

val resolve_slice :
  z list -> z option -> z option -> z option -> ((nat * nat) * z) outcome

val count_up : nat -> nat -> nat -> nat -> nat list

val count_down : nat -> z -> z -> z -> nat list

val slice_positions : nat -> nat -> nat -> z -> nat list option

val lower_ascii : char -> char

val lower : char list -> char list

val truthy_val : pyval -> bool

val truthy : operand -> bool outcome

val cast_all : (pyval -> pyval outcome) -> pyval list -> pyval list outcome

val write_cells :
  (pyval -> pyval outcome) -> nat list -> pyval list -> pyval list -> pyval
  list * exn option

val with_data : var -> pyval list -> var

val natural :
  (dtype -> pyval -> pyval outcome) -> (pyval list -> dtype) -> operand ->
  ((dtype * nat list) * pyval list) outcome

val commit : var -> (pyval list * exn option) -> var * exn option

val assign_inplace :
  (dtype -> pyval -> pyval outcome) -> (dtype -> dtype -> pyval -> pyval
  outcome) -> var -> nat list -> operand -> var * exn option

val assign_item :
  (dtype -> pyval -> pyval outcome) -> (dtype -> dtype -> pyval -> pyval
  outcome) -> (dtype -> exn) -> var -> nat -> operand -> var * exn option

val n_of : state -> nat

val setattr_var :
  (dtype -> pyval -> pyval outcome) -> (dtype -> dtype -> pyval -> pyval
  outcome) -> char list -> operand -> state -> res

val row_names : state -> char list list

val rows : char list list -> (char list * var) list -> var list outcome

val values_shape : state -> nat list outcome

val size_of : state -> nat

val chunks : nat -> nat -> pyval list -> pyval list list

val set_rows_arr :
  (dtype -> pyval -> pyval outcome) -> (dtype -> dtype -> pyval -> pyval
  outcome) -> dtype -> char list list -> pyval list list -> state -> res

val set_rows_full :
  (dtype -> pyval -> pyval outcome) -> (dtype -> dtype -> pyval -> pyval
  outcome) -> (pyval list -> dtype) -> char list list -> operand -> state ->
  res

val values_setter :
  (dtype -> pyval -> pyval outcome) -> (dtype -> dtype -> pyval -> pyval
  outcome) -> (pyval list -> dtype) -> operand -> state -> res

val book_setattr : char list -> operand -> state -> res

val obj_setattr :
  (dtype -> pyval -> pyval outcome) -> (dtype -> dtype -> pyval -> pyval
  outcome) -> (pyval list -> dtype) -> char list -> operand -> state -> res

val add_attribute :
  (dtype -> pyval -> pyval outcome) -> (dtype -> dtype -> pyval -> pyval
  outcome) -> (pyval list -> dtype) -> char list -> operand -> state -> res

val alternatives : char list option -> char list list -> char list list

val is_property : ckind -> char list -> bool

val setattr :
  (dtype -> pyval -> pyval outcome) -> (dtype -> dtype -> pyval -> pyval
  outcome) -> (pyval list -> dtype) -> char list -> operand -> char list
  option -> state -> res

val setitem :
  (dtype -> pyval -> pyval outcome) -> (dtype -> dtype -> pyval -> pyval
  outcome) -> (pyval list -> dtype) -> (dtype -> exn) -> key -> operand ->
  state -> res

val replace_values :
  (dtype -> pyval -> pyval outcome) -> (dtype -> dtype -> pyval -> pyval
  outcome) -> (pyval list -> dtype) -> (dtype -> exn) ->
  (char list * operand) list -> state -> res

val storage_taken : char list -> state -> bool

val base_add_variable :
  (dtype -> pyval -> pyval outcome) -> (dtype -> dtype -> pyval -> pyval
  outcome) -> (pyval list -> dtype) -> (dtype -> pyval list -> dreq -> dtype)
  -> char list -> operand -> dreq option -> state -> res

val add_variable :
  (dtype -> pyval -> pyval outcome) -> (dtype -> dtype -> pyval -> pyval
  outcome) -> (pyval list -> dtype) -> (dtype -> pyval list -> dreq -> dtype)
  -> char list -> operand -> dreq option -> state -> res

val itemsize : dtype -> nat

val nbytes_of : (char list -> char list) -> state -> nat outcome

val read : query -> state -> state * qval outcome

val step :
  (dtype -> pyval -> pyval outcome) -> (dtype -> dtype -> pyval -> pyval
  outcome) -> (pyval list -> dtype) -> (dtype -> pyval list -> dreq -> dtype)
  -> (dtype -> exn) -> op -> state -> res

val core_registry : regent list

val init_vc : z list -> bool -> state

val dup_free : char list list -> bool

val dreq_operand : dreq -> operand

val init_vars :
  (dtype -> pyval -> pyval outcome) -> (dtype -> dtype -> pyval -> pyval
  outcome) -> (pyval list -> dtype) -> (dtype -> pyval list -> dreq -> dtype)
  -> char list list -> (char list * operand) list -> operand -> dreq -> state
  -> res

val bind : res -> (state -> res) -> res

val init_model :
  (dtype -> pyval -> pyval outcome) -> (dtype -> dtype -> pyval -> pyval
  outcome) -> (pyval list -> dtype) -> (dtype -> pyval list -> dreq -> dtype)
  -> ckind -> z list -> bool -> dreq -> operand -> char list list ->
  (char list * operand) list -> res

val nbytes_own : state -> nat

val iNT_MIN : z

val string_of_Z : z -> char list

val str_of_fl : fl -> char list

val str_of_val : pyval -> char list

val truncate : nat -> char list -> char list

val parse_nat_acc : char list -> z -> z option

val parse_nat : char list -> z option

val split_dot : char list -> char list * char list option

val parse_signed : (char list -> z option) -> char list -> z option

val parse_int : char list -> z option

val parse_half : char list -> z option

val np_cast : bool -> dtype -> pyval -> pyval outcome

val np_pycast : dtype -> pyval -> pyval outcome

val np_arrcast : dtype -> dtype -> pyval -> pyval outcome

val width_of : pyval -> nat

val np_infer : pyval list -> dtype

val np_astype_dt : dtype -> pyval list -> dreq -> dtype

val np_itemseq_exn : dtype -> exn

val np_step : op -> state -> res

val np_init_model :
  ckind -> z list -> bool -> dreq -> operand -> char list list ->
  (char list * operand) list -> res

type amap_t = (char list * char list) list

val akeys : amap_t -> char list list

val avals : amap_t -> char list list

val aget : amap_t -> char list -> char list

val drop_self : amap_t -> amap_t

val chained : amap_t -> bool

val subst : amap_t -> amap_t

val shorten_loop : nat -> amap_t -> amap_t option

val shorten : amap_t -> amap_t outcome

val pref_check : amap_t -> char list list -> char list list -> unit outcome

type aobj = { amap : amap_t; apref : char list list }

val alias_construct : amap_t -> char list list -> aobj outcome

val resolve : aobj -> char list -> char list

val resolve_kwargs :
  aobj -> (char list * operand) list -> (char list * operand) list

val resolve_key : aobj -> key -> key

val resolve_op : aobj -> op -> op

val alias_read : aobj -> query -> state -> state * qval outcome

val dict_key : state -> char list -> bool

val alias_clash : char list list -> aobj -> state -> bool

val gen_alias_step :
  (dtype -> pyval -> pyval outcome) -> (dtype -> dtype -> pyval -> pyval
  outcome) -> (pyval list -> dtype) -> (dtype -> pyval list -> dreq -> dtype)
  -> (dtype -> exn) -> aobj -> op -> state -> res

val gen_alias_init_model :
  (dtype -> pyval -> pyval outcome) -> (dtype -> dtype -> pyval -> pyval
  outcome) -> (pyval list -> dtype) -> (dtype -> pyval list -> dreq -> dtype)
  -> char list list -> aobj -> ckind -> z list -> bool -> dreq -> operand ->
  char list list -> (char list * operand) list -> res

val alias_step : aobj -> op -> state -> res

val alias_init_model :
  char list list -> aobj -> ckind -> z list -> bool -> dreq -> operand ->
  char list list -> (char list * operand) list -> res

val getitem : key -> state -> pyval list outcome

val getattr_var : char list -> state -> pyval list outcome

val alias_getitem : aobj -> key -> state -> pyval list outcome

val alias_getattr_var : aobj -> char list -> state -> pyval list outcome

val starts_underscore : char list -> bool

val base_columns_with : bool -> bool -> bool -> state -> char list list

val base_columns : state -> char list list

val last_alias : amap_t -> char list -> char list option

val dedupe : char list list -> char list list

val group_of : amap_t -> char list -> char list list

val group_choice : aobj -> char list -> char list option outcome

val replacements :
  aobj -> char list list -> (char list * char list) list outcome

val rename_columns : aobj -> char list list -> char list list outcome

val export_cols :
  aobj -> char list list -> (char list * char list) list outcome

val export : aobj -> state -> (char list * char list) list outcome

val export_with :
  aobj -> bool -> bool -> bool -> state -> (char list * char list) list
  outcome

val positions : z list -> z list -> (nat * nat) list

val write_positions :
  pyval list -> (nat * nat) list -> pyval list -> pyval list

val reindex_name :
  (char list -> char list) -> (char list -> dtype -> pyval) -> z list ->
  state -> (char list * var) list outcome -> char list -> (char list * var)
  list outcome

val reindex_with :
  (char list -> char list) -> (char list -> dtype -> pyval) -> z list ->
  state -> state outcome

val np_fill : ckind -> char list -> dtype -> pyval
