(* ContSplit.v — one statement, possibly spread over several lines inside round brackets, is yielded as ONE statement by the
   splitter (Split.split_M), with its text unchanged:
     split_one_statement    cont_scan 0 E = true (every newline of E stands inside an open round bracket, no other line
                            separator, brackets balanced), no "#", E not blank, E passes equation_re, E does not start with a
                            fence  ->  split_M E = ([E], None)
   for ALL such texts.  (A text without any newline is the special case of a one-line statement.) *)
From Coq Require Import String Ascii List Bool Arith Lia.
Import ListNotations.
Require Import Generated PyBase PyStr Split SplitFacts GLex GLexFacts Layout LayoutSplit.
Open Scope string_scope.
Open Scope nat_scope.

(* depth n of open round brackets; a newline only where n > 0; no other line separator; balanced at the end *)
Fixpoint cont_scan (n : nat) (s : string) : bool :=
  match s with
  | "" => n =? 0
  | String c r =>
    if Ascii.eqb c "(" then cont_scan (S n) r
    else if Ascii.eqb c ")" then (match n with O => false | S m => cont_scan m r end)
    else if Ascii.eqb c nl then (0 <? n) && cont_scan n r
    else if is_linesep c then false
    else cont_scan n r
  end.

Lemma count_parens_app a : forall n b,
  count_parens n (a ++ b) = match count_parens n a with Some m => count_parens m b | None => None end.
Proof.
  induction a as [|c a IH]; intros n b; [reflexivity|]. cbn [append count_parens].
  destruct (Ascii.eqb c "("); [apply IH|]. destruct (Ascii.eqb c ")"); [destruct n; [reflexivity|apply IH]|apply IH].
Qed.
Lemma srev_cons c cur : srev (String c cur) = srev cur ++ String c "".
Proof. change (srev (String c cur)) with (rev_str cur (String c "")). apply rev_str_acc. Qed.
Lemma nohash_srev cur : has_char "#" cur = false -> has_char "#" (srev cur) = false.
Proof.
  induction cur as [|c cur IH]; [reflexivity|]. cbn [has_char]. intros H. apply orb_false_iff in H as [Hc Hr].
  rewrite srev_cons, has_char_app, (IH Hr). cbn [has_char]. rewrite Hc. reflexivity.
Qed.

Fixpoint ptext (buf : list string) : string := match buf with [] => "" | l :: b => ptext b ++ l ++ nl_s end.
Lemma join_nl_cons a l : l <> [] -> join_nl (a :: l) = a ++ nl_s ++ join_nl l.
Proof. destruct l; [congruence|reflexivity]. Qed.
Lemma join_nl_snoc l x : l <> [] -> join_nl (l ++ [x]) = join_nl l ++ nl_s ++ x.
Proof.
  induction l as [|a l IH]; [congruence|]. intros _. destruct l as [|b l].
  - reflexivity.
  - cbn [app]. rewrite (join_nl_cons a (b :: (l ++ [x])%list)) by discriminate.
    change (b :: (l ++ [x]))%list with ((b :: l) ++ [x])%list. rewrite IH by discriminate.
    rewrite (join_nl_cons a (b :: l)) by discriminate. rewrite !sapp_assoc. reflexivity.
Qed.
Lemma join_rev_buf buf : forall x, join_nl (rev buf ++ [x]) = ptext buf ++ x.
Proof.
  induction buf as [|b0 buf IH]; intros x; [reflexivity|]. cbn [rev ptext].
  rewrite join_nl_snoc by (destruct (rev buf); discriminate). rewrite IH, !sapp_assoc. reflexivity.
Qed.

Lemma startswith_app_false k a b : startswith k (a ++ b) = false -> startswith k a = false.
Proof.
  unfold startswith. revert a. induction k as [|c k IH]; intros a; [destruct (a ++ b); discriminate|].
  destruct a as [|d a]; [reflexivity|]. cbn [append prefix_rest]. destruct (Ascii.eqb c d); [apply IH|reflexivity].
Qed.

Section One.
  Variable E : string.
  Hypothesis Hblank : is_blank E = false.
  Hypothesis Hstmt : stmt_ok E = true.
  Hypothesis Hfence : startswith "```" E = false.

  Lemma cont_split s : forall n nls cur buf,
    cont_scan n s = true -> has_char "#" s = false -> has_char "#" cur = false ->
    count_parens nls (srev cur) = Some n ->
    (buf <> [] -> 0 < nls) -> (buf = [] -> ptext buf ++ srev cur ++ s = E) -> ptext buf ++ srev cur ++ s = E ->
    split_lines (mkS nls true buf) (map strip_comments (splitlines_aux cur s)) = ([E], None).
  Proof.
    assert (STEP : forall nls buf line u, startswith "```" (match buf with [] => line | _ => "" end) = false ->
              count_parens nls line = Some u ->
              split_step (mkS nls true buf) line =
              if u =? 0 then (let eq := join_nl (rev (line :: buf)) in
                              if is_blank eq then StCont (mkS u true []) else if stmt_ok eq then StYield eq (mkS u true [])
                              else if stmt_ok (py_strip eq) then StRaise IndentationError else StRaise ParserError)
              else StCont (mkS u true (line :: buf))).
    { intros nls buf line u Hf Hc. unfold split_step. cbn [buffer unmatched complete]. rewrite Hc.
      destruct buf as [|b0 buf].
      - rewrite Hf. cbn [andb]. destruct (u =? 0); reflexivity.
      - rewrite andb_false_r. destruct (startswith "```" line); cbn [andb]; rewrite andb_true_r; destruct (u =? 0); reflexivity. }
    induction s as [|c s IH]; intros n nls cur buf Hscan Hs Hcur Hcnt Hbuf Hfirst Htext.
    - cbn [cont_scan] in Hscan. apply Nat.eqb_eq in Hscan. subst n. rewrite !sapp_nil_r in *.
      destruct cur as [|c0 cur0] eqn:Ecur.
      + exfalso. cbn [srev rev_str] in *. rewrite sapp_nil_r in Htext. destruct buf as [|b0 buf].
        * cbn [ptext] in Htext. subst E. discriminate.
        * inversion Hcnt; subst nls. specialize (Hbuf ltac:(discriminate)). lia.
      + rewrite <- Ecur in *. assert (Hne : cur <> "") by (rewrite Ecur; discriminate).
        cbn [splitlines_aux]. destruct cur as [|c1 cur1]; [congruence|]. cbn [map split_lines].
        change (rev_str (String c1 cur1) "") with (srev (String c1 cur1)).
        rewrite (strip_comments_plain _ (nohash_srev _ Hcur)).
        rewrite (STEP nls buf (srev (String c1 cur1)) 0).
        * cbn [Nat.eqb]. cbn zeta. cbn [rev]. rewrite join_rev_buf, Htext, Hblank, Hstmt. cbn [split_lines unmatched Nat.eqb]. reflexivity.
        * destruct buf; [|reflexivity]. rewrite <- (Hfirst eq_refl) in Hfence. cbn [ptext append] in Hfence. rewrite ?sapp_nil_r in Hfence. exact Hfence.
        * exact Hcnt.
    - cbn [has_char] in Hs. apply orb_false_iff in Hs as [Hc0 Hs].
      assert (Hcur' : has_char "#" (String c cur) = false) by (cbn [has_char]; rewrite Hc0, Hcur; reflexivity).
      assert (Htext' : ptext buf ++ srev (String c cur) ++ s = E) by (rewrite srev_cons, sapp_assoc; exact Htext).
      assert (Hfirst' : buf = [] -> ptext buf ++ srev (String c cur) ++ s = E) by (intros _; exact Htext').
      cbn [cont_scan] in Hscan.
      destruct (Ascii.eqb c "(") eqn:Eo.
      { apply Ascii.eqb_eq in Eo. subst c. cbn [splitlines_aux]. replace (is_linesep "(") with false by (vm_compute; reflexivity).
        apply (IH (S n) nls _ buf Hscan Hs Hcur'); [|exact Hbuf|exact Hfirst'|exact Htext'].
        rewrite srev_cons, count_parens_app, Hcnt. reflexivity. }
      destruct (Ascii.eqb c ")") eqn:Ec.
      { apply Ascii.eqb_eq in Ec. subst c. destruct n as [|m]; [discriminate|]. cbn [splitlines_aux].
        replace (is_linesep ")") with false by (vm_compute; reflexivity).
        apply (IH m nls _ buf Hscan Hs Hcur'); [|exact Hbuf|exact Hfirst'|exact Htext'].
        rewrite srev_cons, count_parens_app, Hcnt. reflexivity. }
      destruct (Ascii.eqb c nl) eqn:En.
      { apply Ascii.eqb_eq in En. subst c. apply andb_true_iff in Hscan as [Hpos Hscan]. apply Nat.ltb_lt in Hpos.
        cbn [splitlines_aux]. rewrite nl_is_linesep, nl_not_cr. cbn [map split_lines].
        change (rev_str cur "") with (srev cur). rewrite (strip_comments_plain _ (nohash_srev _ Hcur)).
        rewrite (STEP nls buf (srev cur) n).
        - replace (n =? 0) with false by (symmetry; apply Nat.eqb_neq; lia).
          apply (IH n n "" (srev cur :: buf) Hscan Hs eq_refl); [reflexivity|intros _; exact Hpos|discriminate|].
          cbn [ptext srev rev_str append]. rewrite <- Htext, !sapp_assoc. reflexivity.
        - destruct buf; [|reflexivity]. rewrite <- (Hfirst eq_refl) in Hfence. cbn [ptext append] in Hfence.
          apply (startswith_app_false _ _ _ Hfence).
        - exact Hcnt. }
      destruct (is_linesep c) eqn:El; [discriminate|].
      cbn [splitlines_aux]. rewrite El.
      apply (IH n nls _ buf Hscan Hs Hcur'); [|exact Hbuf|exact Hfirst'|exact Htext'].
      rewrite srev_cons, count_parens_app, Hcnt. cbn [count_parens]. rewrite Eo, Ec. reflexivity.
  Qed.

  Theorem split_one_statement : cont_scan 0 E = true -> has_char "#" E = false -> split_M E = ([E], None).
  Proof.
    intros Hscan Hh. unfold split_M, model_lines.
    apply (cont_split E 0 0 "" [] Hscan Hh eq_refl eq_refl); [congruence|reflexivity|reflexivity].
  Qed.
End One.
