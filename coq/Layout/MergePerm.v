(* MergePerm.v — the cross-equation merge of parse_model (Merge.merge_symbols) does not depend on the order of its input
   up to the order of its output:  Permutation (concat b) (concat b')  ->  merge_symbols b and merge_symbols b' both fail,
   or both succeed with lists that are permutations of each other (the same symbols, every field equal, another order).
   Hence reordering statements only reorders symbols (merge_blocks_swap; with LayoutScript.swap_blocks:
   statements_permute). *)
From Coq Require Import String Ascii List Bool ZArith Lia Permutation.
Import ListNotations.
Require Import PyBase Generated PyStr Symbols SymbolsFacts Split Merge ParseEq ParseModel ParseContribFacts Layout LayoutSplit LayoutScript MergeComm.
Open Scope string_scope.

Notation dict := (list (string * symbol)).

(* ================================================================== association lists with distinct keys *)
Definition other_key (k : string) (kv : string * symbol) : bool := negb (String.eqb k (fst kv)).

Lemma filter_perm {A} (f : A -> bool) l l' : Permutation l l' -> Permutation (filter f l) (filter f l').
Proof.
  intros HP. induction HP as [|x l l' H IH|x y l|l l' l'' H1 IH1 H2 IH2]; cbn [filter].
  - constructor.
  - destruct (f x); [constructor; exact IH|exact IH].
  - destruct (f x), (f y); try apply perm_swap; apply Permutation_refl.
  - eapply Permutation_trans; eassumption.
Qed.
Lemma filter_comm {A} (f g : A -> bool) l : filter f (filter g l) = filter g (filter f l).
Proof.
  induction l as [|x l IH]; [reflexivity|]. cbn [filter]. destruct (g x) eqn:Eg, (f x) eqn:Ef; cbn [filter]; rewrite ?Eg, ?Ef, IH; reflexivity.
Qed.
Lemma filter_absent k (d : dict) : ~ In k (map fst d) -> filter (other_key k) d = d.
Proof.
  induction d as [|[k' v] r IH]; [reflexivity|]. cbn [map fst In]. intros H. cbn [filter]. unfold other_key at 1. cbn [fst].
  destruct (String.eqb_spec k k') as [->|Hne]; [exfalso; apply H; left; reflexivity|]. cbn [negb]. rewrite IH; [reflexivity|].
  intros Hi. apply H. right. exact Hi.
Qed.

Lemma set_perm k v (d : dict) : NoDup (map fst d) -> Permutation (dict_set k v d) ((k, v) :: filter (other_key k) d).
Proof.
  induction d as [|[k' v'] r IH]; intros Hn; cbn [dict_set filter]; [apply Permutation_refl|].
  cbn [map fst] in Hn. inversion Hn as [|? ? Hk Hr]; subst. unfold other_key at 1. cbn [fst].
  destruct (String.eqb_spec k k') as [->|Hne]; cbn [negb].
  - rewrite (filter_absent k' r Hk). apply Permutation_refl.
  - eapply Permutation_trans; [apply perm_skip, (IH Hr)|apply perm_swap].
Qed.

Lemma set_keys k v (d : dict) k' : In k' (map fst (dict_set k v d)) -> k' = k \/ In k' (map fst d).
Proof.
  induction d as [|[k0 v0] r IH]; cbn [dict_set map fst In].
  - intros [H|[]]; auto.
  - destruct (String.eqb_spec k k0) as [->|Hne]; cbn [map fst In]; intros [H|H]; auto. destruct (IH H); auto.
Qed.
Lemma set_nodup k v (d : dict) : NoDup (map fst d) -> NoDup (map fst (dict_set k v d)).
Proof.
  induction d as [|[k0 v0] r IH]; intros Hn; cbn [dict_set map fst]; [constructor; [intros []|constructor]|].
  cbn [map fst] in Hn. inversion Hn as [|? ? Hk Hr]; subst.
  destruct (String.eqb_spec k k0) as [->|Hne]; cbn [map fst]; [constructor; assumption|].
  constructor; [|apply IH, Hr]. intros Hi. destruct (set_keys _ _ _ _ Hi) as [E|Hi']; [congruence|exact (Hk Hi')].
Qed.
Lemma set_set k v v' (d : dict) : dict_set k v (dict_set k v' d) = dict_set k v d.
Proof.
  induction d as [|[k0 v0] r IH]; cbn [dict_set]; [rewrite String.eqb_refl; reflexivity|].
  destruct (String.eqb k k0) eqn:E; cbn [dict_set]; rewrite E; [reflexivity|rewrite IH; reflexivity].
Qed.

Lemma perm_keys_nodup (d1 d2 : dict) : Permutation d1 d2 -> NoDup (map fst d1) -> NoDup (map fst d2).
Proof. intros H. apply Permutation_NoDup, Permutation_map, H. Qed.

Lemma perm_get (k : string) (d1 d2 : dict) : Permutation d1 d2 -> NoDup (map fst d1) -> dict_get k d1 = dict_get k d2.
Proof.
  intros HP. induction HP as [|[k0 v0] l l' H IH|[k1 v1] [k2 v2] l|l l' l'' H1 IH1 H2 IH2]; intros Hn.
  - reflexivity.
  - cbn [dict_get]. cbn [map fst] in Hn. inversion Hn; subst. destruct (String.eqb k k0); [reflexivity|apply IH; assumption].
  - cbn [dict_get]. cbn [map fst] in Hn. inversion Hn as [|? ? Hk Hr]; subst.
    destruct (String.eqb_spec k k1) as [E1|], (String.eqb_spec k k2) as [E2|]; try reflexivity.
    exfalso. apply Hk. left. congruence.
  - rewrite (IH1 Hn). apply IH2. apply (perm_keys_nodup _ _ H1 Hn).
Qed.

Lemma perm_set k v (d1 d2 : dict) : Permutation d1 d2 -> NoDup (map fst d1) -> Permutation (dict_set k v d1) (dict_set k v d2).
Proof.
  intros H Hn. eapply Permutation_trans; [apply (set_perm k v d1 Hn)|].
  eapply Permutation_trans; [|apply Permutation_sym, (set_perm k v d2 (perm_keys_nodup _ _ H Hn))].
  apply perm_skip, filter_perm, H.
Qed.

Lemma set_swap k1 v1 k2 v2 (d : dict) : k1 <> k2 -> NoDup (map fst d) ->
  Permutation (dict_set k2 v2 (dict_set k1 v1 d)) (dict_set k1 v1 (dict_set k2 v2 d)).
Proof.
  intros Hne Hn.
  assert (A : forall ka va kb vb, ka <> kb ->
            Permutation (dict_set kb vb (dict_set ka va d)) ((kb, vb) :: (ka, va) :: filter (other_key kb) (filter (other_key ka) d))).
  { intros ka va kb vb Hab. eapply Permutation_trans; [apply (set_perm kb vb _ (set_nodup ka va d Hn))|]. apply perm_skip.
    eapply Permutation_trans; [apply filter_perm, (set_perm ka va d Hn)|]. cbn [filter]. unfold other_key at 1. cbn [fst].
    destruct (String.eqb_spec kb ka) as [E|_]; [congruence|]. apply Permutation_refl. }
  eapply Permutation_trans; [apply (A k1 v1 k2 v2 Hne)|].
  eapply Permutation_trans; [|apply Permutation_sym, (A k2 v2 k1 v1 (fun E => Hne (eq_sym E)))].
  rewrite filter_comm. apply perm_swap.
Qed.

(* ================================================================== the merge, failures collapsed *)
Definition mstep (d : dict) (s : symbol) (name : string) : option dict :=
  obnd (comb (match dict_get name d with Some old => old | None => s end) s) (fun c => Some (dict_set name c d)).
Lemma dict_combine_ok name s d : ok_of (dict_combine name s d) = mstep d s name.
Proof.
  unfold dict_combine, mstep. rewrite <- comb_combine.
  destruct (combine match dict_get name d with Some old => old | None => s end s); reflexivity.
Qed.

Fixpoint mg (l : list symbol) (d : dict) (v : list symbol) : option (list symbol) :=
  match l with
  | [] => Some (dict_values d ++ rev v)%list
  | s :: r => match sname s with
              | None => mg r d (s :: v)
              | Some name => obnd (mstep d s name) (fun d' => mg r d' v)
              end
  end.
Lemma mg_merge_go l : forall d v, ok_of (merge_go l d v) = mg l d v.
Proof.
  induction l as [|s r IH]; intros d v; cbn [merge_go mg]; [reflexivity|].
  destruct (sname s) as [name|]; [|apply IH]. rewrite <- dict_combine_ok.
  destruct (dict_combine name s d) as [d'|e]; cbn [ok_of obnd]; [apply IH|reflexivity].
Qed.

Definition oP (o1 o2 : option (list symbol)) : Prop :=
  match o1, o2 with Some a, Some b => Permutation a b | None, None => True | _, _ => False end.
Lemma oP_refl o : oP o o.
Proof. destruct o; cbn; [apply Permutation_refl|exact I]. Qed.
Lemma oP_trans a b c : oP a b -> oP b c -> oP a c.
Proof. destruct a, b, c; cbn; try tauto. apply Permutation_trans. Qed.

(* the table: distinct keys; every entry is normalised and named by its key *)
Definition inv (d : dict) : Prop := NoDup (map fst d) /\ forall k s, In (k, s) d -> norm_sym s = true /\ sname s = Some k.
Lemma inv_nil : inv [].
Proof. split; [constructor|intros k s []]. Qed.

Lemma dict_get_In k (d : dict) s : dict_get k d = Some s -> In (k, s) d.
Proof.
  induction d as [|[k0 v0] r IH]; cbn [dict_get]; [discriminate|].
  destruct (String.eqb_spec k k0) as [->|]; [intros H; inversion H; left; reflexivity|intros H; right; apply IH, H].
Qed.
Lemma In_set k v (d : dict) k' s : In (k', s) (dict_set k v d) -> (k' = k /\ s = v) \/ In (k', s) d.
Proof.
  induction d as [|[k0 v0] r IH]; cbn [dict_set In].
  - intros [H|[]]. inversion H; auto.
  - destruct (String.eqb_spec k k0) as [->|Hne]; cbn [In]; intros [H|H].
    + inversion H; auto.
    + auto.
    + auto.
    + destruct (IH H); auto.
Qed.

Lemma mstep_inv d s name d' : inv d -> sname s = Some name -> mstep d s name = Some d' -> inv d'.
Proof.
  intros [Hn Hv] Hs. unfold mstep.
  destruct (comb match dict_get name d with Some old => old | None => s end s) as [c|] eqn:Ec; [|discriminate].
  cbn [obnd]. intros H. inversion H; subst d'. split; [apply set_nodup, Hn|].
  intros k x Hin. destruct (In_set _ _ _ _ _ Hin) as [[-> ->]|Hin']; [|apply Hv, Hin'].
  split; [apply (comb_norm _ _ _ Ec)|]. rewrite (comb_name _ _ _ Ec).
  destruct (dict_get name d) as [old|] eqn:Eg; [apply (Hv name old (dict_get_In _ _ _ Eg))|exact Hs].
Qed.

(* ---- same list, tables that are permutations of each other ---- *)
Lemma mg_perm_table l : forall d1 d2 v1 v2,
  Permutation d1 d2 -> inv d1 -> Permutation v1 v2 -> oP (mg l d1 v1) (mg l d2 v2).
Proof.
  induction l as [|s r IH]; intros d1 d2 v1 v2 Hd Hi Hv; cbn [mg].
  - cbn [oP]. apply Permutation_app; [apply Permutation_map, Hd|]. rewrite <- !rev_alt || idtac.
    apply Permutation_trans with v1; [apply Permutation_sym, Permutation_rev|]. apply Permutation_trans with v2; [exact Hv|apply Permutation_rev].
  - destruct (sname s) as [name|] eqn:Es; [|apply IH; [exact Hd|exact Hi|apply perm_skip, Hv]].
    unfold mstep. rewrite <- (perm_get name d1 d2 Hd (proj1 Hi)).
    destruct (comb match dict_get name d1 with Some old => old | None => s end s) as [c|] eqn:Ec; cbn [obnd]; [|exact I].
    apply IH; [apply perm_set; [exact Hd|exact (proj1 Hi)]| |exact Hv].
    apply (mstep_inv d1 s name _ Hi Es). unfold mstep. rewrite Ec. reflexivity.
Qed.

(* ---- two neighbours change places ---- *)
Lemma get_set_same k v (d : dict) : dict_get k (dict_set k v d) = Some v.
Proof. apply dict_get_set_same. Qed.
Lemma get_set_other k k' v (d : dict) : k' <> k -> dict_get k' (dict_set k v d) = dict_get k' d.
Proof. apply dict_get_set_other. Qed.

Lemma mg_two_same n a b l d v : sname a = Some n -> sname b = Some n ->
  mg (a :: b :: l) d v
  = obnd (obnd (comb (match dict_get n d with Some old => old | None => a end) a) (fun ca => comb ca b))
         (fun c => mg l (dict_set n c d) v).
Proof.
  intros Ha Hb. cbn [mg]. rewrite Ha, Hb. unfold mstep.
  destruct (comb match dict_get n d with Some old => old | None => a end a) as [ca|]; cbn [obnd]; [|reflexivity].
  rewrite get_set_same. destruct (comb ca b) as [c|]; cbn [obnd]; [|reflexivity]. rewrite set_set. reflexivity.
Qed.

Lemma mg_swap a b l d v : inv d -> oP (mg (a :: b :: l) d v) (mg (b :: a :: l) d v).
Proof.
  intros Hi. destruct (sname a) as [na|] eqn:Ea, (sname b) as [nb|] eqn:Eb.
  - destruct (String.eqb_spec na nb) as [->|Hne].
    + rewrite (mg_two_same nb a b l d v Ea Eb), (mg_two_same nb b a l d v Eb Ea).
      destruct (dict_get nb d) as [e|] eqn:Eg.
      * destruct (proj2 Hi nb e (dict_get_In _ _ _ Eg)) as [Hn _]. rewrite (comb_comm e a b Hn). apply oP_refl.
      * rewrite (comb_first a b) by congruence. apply oP_refl.
    + cbn [mg]. rewrite Ea, Eb. unfold mstep.
      destruct (comb match dict_get na d with Some old => old | None => a end a) as [ca|] eqn:Eca; cbn [obnd].
      * rewrite (get_set_other na nb ca d (fun E => Hne (eq_sym E))).
        destruct (comb match dict_get nb d with Some old => old | None => b end b) as [cb|] eqn:Ecb; cbn [obnd]; [|exact I].
        rewrite (get_set_other nb na cb d Hne), Eca. cbn [obnd].
        apply mg_perm_table; [apply (set_swap na ca nb cb d Hne (proj1 Hi))| |apply Permutation_refl].
        apply (mstep_inv (dict_set na ca d) b nb).
        { apply (mstep_inv d a na _ Hi Ea). unfold mstep. rewrite Eca. reflexivity. }
        { exact Eb. }
        { unfold mstep. rewrite (get_set_other na nb ca d (fun E => Hne (eq_sym E))), Ecb. reflexivity. }
      * destruct (comb match dict_get nb d with Some old => old | None => b end b) as [cb|] eqn:Ecb; cbn [obnd]; [|exact I].
        rewrite (get_set_other nb na cb d Hne), Eca. exact I.
  - cbn [mg]. rewrite Ea, Eb. apply oP_refl.
  - cbn [mg]. rewrite Ea, Eb. apply oP_refl.
  - cbn [mg]. rewrite Ea, Eb. apply mg_perm_table; [apply Permutation_refl|exact Hi|apply perm_swap].
Qed.

(* ---- any permutation of the input ---- *)
Theorem mg_perm l l' : Permutation l l' -> forall d1 d2 v1 v2,
  Permutation d1 d2 -> inv d1 -> Permutation v1 v2 -> oP (mg l d1 v1) (mg l' d2 v2).
Proof.
  intros HP. induction HP as [|x l l' H IH|x y l|l l' l'' H1 IH1 H2 IH2]; intros d1 d2 v1 v2 Hd Hi Hv.
  - apply (mg_perm_table [] d1 d2 v1 v2 Hd Hi Hv).
  - cbn [mg]. destruct (sname x) as [name|] eqn:Es; [|apply IH; [exact Hd|exact Hi|apply perm_skip, Hv]].
    unfold mstep. rewrite <- (perm_get name d1 d2 Hd (proj1 Hi)).
    destruct (comb match dict_get name d1 with Some old => old | None => x end x) as [c|] eqn:Ec; cbn [obnd]; [|exact I].
    apply IH; [apply perm_set; [exact Hd|exact (proj1 Hi)]| |exact Hv].
    apply (mstep_inv d1 x name _ Hi Es). unfold mstep. rewrite Ec. reflexivity.
  - apply oP_trans with (mg (x :: y :: l) d1 v1); [apply (mg_swap y x l d1 v1 Hi)|apply (mg_perm_table _ d1 d2 v1 v2 Hd Hi Hv)].
  - apply oP_trans with (mg l' d1 v1); [apply (IH1 d1 d1 v1 v1 (Permutation_refl _) Hi (Permutation_refl _))|apply (IH2 d1 d2 v1 v2 Hd Hi Hv)].
Qed.

(* both fail, or both succeed with the same symbols in another order *)
Definition same_up_to_order (r1 r2 : outcome (list symbol)) : Prop :=
  match r1, r2 with Ret a, Ret b => Permutation a b | Raise _, Raise _ => True | _, _ => False end.

Theorem merge_perm b b' : Permutation (concat b) (concat b') -> same_up_to_order (merge_symbols b) (merge_symbols b').
Proof.
  intros H. unfold merge_symbols. pose proof (mg_perm _ _ H [] [] [] [] (Permutation_refl _) inv_nil (Permutation_refl _)) as P.
  rewrite <- !mg_merge_go in P. destruct (merge_go (concat b) [] []), (merge_go (concat b') [] []); exact P.
Qed.

Corollary merge_blocks_swap b1 b2 : same_up_to_order (merge_symbols (b1 ++ b2)) (merge_symbols (b2 ++ b1)).
Proof. apply merge_perm. rewrite !concat_app. apply Permutation_app_comm. Qed.

(* ---- reordering statements only reorders symbols ---- *)
Definition same_parse (r1 r2 : pres (list symbol)) : Prop :=
  match r1, r2 with POk a, POk b => Permutation a b | PErr _, PErr _ => True | _, _ => False end.

Theorem statements_permute s1 s2 st1 st2 b1 b2 :
  s1 <> "" -> ends_sep s1 = false -> final_state s0 (model_lines s1) = Some st1 -> clean st1 = true ->
  s2 <> "" -> ends_sep s2 = false -> final_state s0 (model_lines s2) = Some st2 -> clean st2 = true ->
  map_p parse_equation_M (fst (split_M s1)) = POk b1 -> map_p parse_equation_M (fst (split_M s2)) = POk b2 ->
  same_parse (parse_model_nocheck (s1 ++ nl_s ++ s2)) (parse_model_nocheck (s2 ++ nl_s ++ s1)).
Proof.
  intros N1 E1 F1 C1 N2 E2 F2 C2 H1 H2.
  destruct (swap_blocks s1 s2 st1 st2 b1 b2 N1 E1 F1 C1 N2 E2 F2 C2 H1 H2) as [-> ->].
  pose proof (merge_blocks_swap b1 b2) as P. unfold same_up_to_order in P.
  destruct (merge_symbols (b1 ++ b2)), (merge_symbols (b2 ++ b1)); exact P.
Qed.
